import LaunchpadModel.Lemmas.LaunchpadSystem
/-!
# The SYSTEM composite refines both halves

**Minter side** (`vfOf : Sys.State → VF.State`). `vfOps s op` = the `VF` op the system op is (a `mint` gets
`senderViewOf` of the attached whitelist's state as its `SenderView`), followed by one `wlEnv k (some (wlInfoOf now w))` per
whitelist contract of the post-state. `vf_step_minter`: for every clock / `fund` / factory / minter / collection op
`vfOf (step' s op) = VF.run (vfOf s) (vfOps s op)`. `vf_step_wl`: a whitelist transaction (`wlInst`, `wlExec`) is, for the
minter side, a bank movement outside the `VF` family (fee paid, burned, sent to the fair-burn pool — `VF` has no op for it)
followed by that refresh. `VFReach` closes `VF.run` under such bank movements; `vf_run`: the minter-side projection of every
system run is `VFReach`-able; `vfReach_inv` transfers every `VF.step'`-invariant that does not read the bank.

**Whitelist side** (`wfOf s k : WF.State` = clock, bank, the contract at `k`). `wfOps k s op` = the `WF` op the system op is
for the contract at `k` (its own `instantiate` / `execute`, the clock, `fund`); `wf_step_own` / `wf_step_other`: the projection
moves by exactly that `WF.step'`, or only its bank component moves. `WFReach`, `wf_run`, `wfReach_inv` as above.
-/
namespace LP.Sys
open LP

/-! ## minter side -/

/-- the `VF` op a system op is (none for a whitelist transaction or a refused interface op) -/
def coreOps (s : State) : Op → List VF.Op
  | .minter o => if witnessed o then [] else [o]
  | .mint sender funds stage alloc proof picked => [mintOp s sender funds stage alloc proof picked]
  | .wlInst _ _ _ _ _ => []
  | .wlExec _ _ _ _ => []

/-- the `VF` ops of one system step: the op itself, then the interface refresh from the whitelist states AFTER the step -/
def vfOps (s : State) (op : Op) : List VF.Op :=
  coreOps s op ++ refreshOps (step' s op).now (step' s op).wls

def isWlOp : Op → Bool
  | .wlInst _ _ _ _ _ => true
  | .wlExec _ _ _ _ => true
  | _ => false

theorem refresh_self (s : State) : VF.run (vfOf s) (refreshOps s.now s.wls) = vfOf s :=
  refresh_to_view s (vfOf s) rfl rfl rfl rfl rfl rfl (fun a h => by simp [h])

/-- one accepted / refused `VF` op on the minter side, then the refresh -/
theorem vf_core (s : State) (o : VF.Op) (hw : witnessed o = false)
    (hs : step' s (.minter o) = match VF.step (vfOf s) o with | .ok c => setVf s c | .error _ => s) :
    vfOf (step' s (.minter o)) =
      VF.run (vfOf s) ([o] ++ refreshOps (step' s (.minter o)).now (step' s (.minter o)).wls) := by
  rw [hs]
  simp only [List.singleton_append, VF.run_cons]
  cases hc : VF.step (vfOf s) o with
  | error e =>
    simp only [VF.step'_err hc]
    exact (refresh_self s).symm
  | ok c =>
    simp only [VF.step'_ok hc]
    obtain ⟨h1, h2, _, h4, _⟩ := VF.step_frame hc
    have hwls : c.wls = (vfOf s).wls := by
      rcases h4 with ⟨k, i, rfl⟩ | h4
      · simp [witnessed] at hw
      · exact h4
    symm
    refine refresh_to_view (setVf s c) c rfl rfl rfl rfl rfl rfl ?_
    intro a ha
    rw [hwls]
    simp only [setVf_wls] at ha
    simp [ha]

theorem step'_minter (s : State) (o : VF.Op) (hw : witnessed o = false) :
    step' s (.minter o) = match VF.step (vfOf s) o with | .ok c => setVf s c | .error _ => s := by
  simp only [step', step, hw, Bool.false_eq_true, if_false]
  cases VF.step (vfOf s) o <;> rfl

theorem step'_mint (s : State) (sender : Addr) (funds : List Coin) (stage alloc : Option Nat)
    (proof : Option (List (List Nat))) (picked : Nat) :
    step' s (.mint sender funds stage alloc proof picked) =
      match VF.step (vfOf s) (mintOp s sender funds stage alloc proof picked) with | .ok c => setVf s c | .error _ => s := by
  simp only [step', step]
  cases VF.step (vfOf s) (mintOp s sender funds stage alloc proof picked) <;> rfl

/-- **minter-side refinement, one step**: every clock / `fund` / factory / minter / collection op of the system is the `VF`
run of `vfOps` — the op with `senderViewOf`-computed witnesses, then `wlEnv` ops carrying `wlInfoOf` of the whitelist states -/
theorem vf_step_minter (s : State) (op : Op) (h : isWlOp op = false) :
    vfOf (step' s op) = VF.run (vfOf s) (vfOps s op) := by
  cases op with
  | minter o =>
    by_cases hw : witnessed o = true
    · have hs : step' s (.minter o) = s := by simp [step', step, hw]
      simp only [vfOps, coreOps, hw, if_true, List.nil_append, hs]
      exact (refresh_self s).symm
    · have hw' : witnessed o = false := by cases hx : witnessed o <;> simp_all
      simp only [vfOps, coreOps, hw', Bool.false_eq_true, if_false]
      exact vf_core s o hw' (step'_minter s o hw')
  | mint sender funds stage alloc proof picked =>
    simp only [vfOps, coreOps]
    have hw' : witnessed (mintOp s sender funds stage alloc proof picked) = true := rfl
    -- same argument as `vf_core`, for the op the system builds itself
    rw [step'_mint]
    simp only [List.singleton_append, VF.run_cons]
    cases hc : VF.step (vfOf s) (mintOp s sender funds stage alloc proof picked) with
    | error e =>
      simp only [VF.step'_err hc]
      exact (refresh_self s).symm
    | ok c =>
      simp only [VF.step'_ok hc]
      obtain ⟨_, _, _, h4, _⟩ := VF.step_frame hc
      have hwls : c.wls = (vfOf s).wls := by
        rcases h4 with ⟨k, i, hk⟩ | h4
        · simp [mintOp] at hk
        · exact h4
      symm
      refine refresh_to_view (setVf s c) c rfl rfl rfl rfl rfl rfl ?_
      intro a ha
      rw [hwls]
      simp only [setVf_wls] at ha
      simp [ha]
  | wlInst v sender funds self m => simp [isWlOp] at h
  | wlExec k sender funds m => simp [isWlOp] at h

/-- **minter-side refinement, whitelist transactions**: for the minter side a whitelist `instantiate` / `execute` is a bank
movement outside the `VF` family followed by the interface refresh -/
theorem vf_step_wl (s : State) (op : Op) (h : isWlOp op = true) :
    vfOf (step' s op) = VF.run { vfOf s with bank := (step' s op).bank } (vfOps s op) := by
  cases op with
  | minter o => simp [isWlOp] at h
  | mint sender funds stage alloc proof picked => simp [isWlOp] at h
  | wlInst v sender funds self m =>
    simp only [vfOps, coreOps, List.nil_append]
    rcases step'_cases s (.wlInst v sender funds self m) with ⟨s', hs, hs'⟩ | ⟨_, hs'⟩
    · rw [hs']
      obtain ⟨_, r, w, _, _, _, rfl⟩ := step_wlInst_ok hs
      symm
      refine refresh_to_view _ _ rfl rfl rfl rfl rfl rfl ?_
      intro a ha
      simp only [find_cons] at ha
      by_cases hx : a = self
      · simp [hx] at ha
      · simp only [hx, if_false] at ha
        simp [ha]
    · rw [hs']
      exact (refresh_self s).symm
  | wlExec k sender funds m =>
    simp only [vfOps, coreOps, List.nil_append]
    rcases step'_cases s (.wlExec k sender funds m) with ⟨s', hs, hs'⟩ | ⟨_, hs'⟩
    · rw [hs']
      obtain ⟨w, r, w', _, _, _, _, rfl⟩ := step_wlExec_ok hs
      symm
      refine refresh_to_view _ _ rfl rfl rfl rfl rfl rfl ?_
      intro a ha
      simp [find_replace_none _ _ _ _ ha]
    · rw [hs']
      exact (refresh_self s).symm

/-- `VF` runs closed under bank movements of transactions outside the `VF` family -/
inductive VFReach : VF.State → VF.State → Prop
  | refl (c : VF.State) : VFReach c c
  | run {c0 c : VF.State} (l : List VF.Op) : VFReach c0 c → VFReach c0 (VF.run c l)
  | bank {c0 c : VF.State} (b : MintPay.Bank) : VFReach c0 c → VFReach c0 { c with bank := b }

theorem vf_step_reach (c0 : VF.State) (s : State) (op : Op) (h : VFReach c0 (vfOf s)) : VFReach c0 (vfOf (step' s op)) := by
  cases hop : isWlOp op with
  | false => rw [vf_step_minter s op hop]; exact .run _ h
  | true => rw [vf_step_wl s op hop]; exact .run _ (.bank _ h)

/-- **minter-side refinement, runs**: the minter-side projection of every system run is a `VF` run (with the interface inputs
computed by `wlInfoOf` / `senderViewOf`) interleaved with foreign bank movements -/
theorem vf_run (s : State) (ops : List Op) : VFReach (vfOf s) (vfOf (run s ops)) := by
  suffices h : ∀ c0 s, VFReach c0 (vfOf s) → VFReach c0 (vfOf (run s ops)) from h _ s (.refl _)
  induction ops with
  | nil => intro c0 s h; exact h
  | cons op ops ih => intro c0 s h; rw [run_cons]; exact ih c0 _ (vf_step_reach c0 s op h)

/-- every `VF.step'`-invariant that survives a foreign bank movement holds along `VFReach` — hence along system runs -/
theorem vfReach_inv (P : VF.State → Prop) (hstep : ∀ c op, P c → P (VF.step' c op))
    (hbank : ∀ (c : VF.State) (b : MintPay.Bank), P c → P { c with bank := b }) {c0 c : VF.State} (h0 : P c0) (h : VFReach c0 c) : P c := by
  induction h with
  | refl => exact h0
  | run l _ ih => exact VF.run_inv P hstep _ ih l
  | bank b _ ih => exact hbank _ b ih

/-! ## whitelist side -/

/-- the `WF` op a system op is for the contract at `k` -/
def wfOps (k : Addr) (s : State) : Op → List WF.Op
  | .minter (.setTime t) => if t < s.now then [] else [.setTime t]
  | .minter (.fund a c) => [.fund a c]
  | .wlInst v sender funds self m => if self = k ∧ taken s self = false then [.instantiate v sender funds self m] else []
  | .wlExec k' sender funds m => if k' = k then [.exec sender funds m] else []
  | _ => []

theorem taken_find {s : State} {a : Addr} (h : taken s a = false) : find s.wls a = none := by
  unfold taken at h
  cases hf : find s.wls a with
  | none => rfl
  | some w => simp [hf] at h

/-- a step of the minter side that is no accepted clock move keeps the clock -/
theorem minter_frame (s : State) (o : VF.Op) (hnt : ∀ t, o ≠ .setTime t) (k : Addr) :
    wfOf (step' s (.minter o)) k = { wfOf s k with bank := (step' s (.minter o)).bank } := by
  by_cases hw : witnessed o = true
  · have hs : step' s (.minter o) = s := by simp [step', step, hw]
    rw [hs]; rfl
  · have hw' : witnessed o = false := by cases hx : witnessed o <;> simp_all
    rw [step'_minter s o hw']
    cases hc : VF.step (vfOf s) o with
    | error e => rfl
    | ok c =>
      obtain ⟨_, _, _, _, h5⟩ := VF.step_frame hc
      have hn : c.now = s.now := by
        rcases h5 with ⟨t, rfl⟩ | h5
        · exact absurd rfl (hnt t)
        · exact h5
      simp only [wfOf, setVf_now, setVf_bank, setVf_wls, hn]

/-- **whitelist-side refinement, foreign steps**: a system op that is not addressed to the contract at `k` (a minter message,
a mint, a message to another whitelist, a refused clock move) changes at most the bank component of its `WF` state -/
theorem wf_step_other (s : State) (op : Op) (k : Addr) (h : wfOps k s op = []) :
    wfOf (step' s op) k = { wfOf s k with bank := (step' s op).bank } := by
  cases op with
  | minter o =>
    cases o with
    | setTime t =>
      simp only [wfOps] at h
      by_cases ht : t < s.now
      · have hs : step' s (.minter (.setTime t)) = s := by
          simp [step', step, witnessed, VF.step, ht]
        rw [hs]; rfl
      · simp [ht] at h
    | fund a c => simp [wfOps] at h
    | wlEnv k' i => exact minter_frame s _ (by intro t ht; cases ht) k
    | create sender funds msg w => exact minter_frame s _ (by intro t ht; cases ht) k
    | instantiateDirect sender => exact minter_frame s _ (by intro t ht; cases ht) k
    | mint sender funds f sv picked => exact minter_frame s _ (by intro t ht; cases ht) k
    | mintTo sender funds rcpt picked => exact minter_frame s _ (by intro t ht; cases ht) k
    | mintFor sender funds id rcpt => exact minter_frame s _ (by intro t ht; cases ht) k
    | setWhitelist sender funds wl valid => exact minter_frame s _ (by intro t ht; cases ht) k
    | purge sender funds => exact minter_frame s _ (by intro t ht; cases ht) k
    | updateMintPrice sender funds p => exact minter_frame s _ (by intro t ht; cases ht) k
    | updateStartTime sender funds t' => exact minter_frame s _ (by intro t ht; cases ht) k
    | updateStartTradingTime sender funds t' => exact minter_frame s _ (by intro t ht; cases ht) k
    | updatePerAddressLimit sender funds n => exact minter_frame s _ (by intro t ht; cases ht) k
    | shuffle sender funds perm => exact minter_frame s _ (by intro t ht; cases ht) k
    | burnRemaining sender funds => exact minter_frame s _ (by intro t ht; cases ht) k
    | updateDiscountPrice sender funds p => exact minter_frame s _ (by intro t ht; cases ht) k
    | removeDiscountPrice sender funds => exact minter_frame s _ (by intro t ht; cases ht) k
    | sudoStatus v b e => exact minter_frame s _ (by intro t ht; cases ht) k
    | sudoParams u => exact minter_frame s _ (by intro t ht; cases ht) k
    | collTransfer sender id to => exact minter_frame s _ (by intro t ht; cases ht) k
    | collBurn sender id => exact minter_frame s _ (by intro t ht; cases ht) k
    | collTrading sender t' => exact minter_frame s _ (by intro t ht; cases ht) k
    | collCreator sender new => exact minter_frame s _ (by intro t ht; cases ht) k
    | collFreeze sender => exact minter_frame s _ (by intro t ht; cases ht) k
    | collOwn sender a => exact minter_frame s _ (by intro t ht; cases ht) k
  | mint sender funds stage alloc proof picked =>
    rw [step'_mint]
    cases hc : VF.step (vfOf s) (mintOp s sender funds stage alloc proof picked) with
    | error e => rfl
    | ok c =>
      obtain ⟨_, _, _, _, h5⟩ := VF.step_frame hc
      have hn : c.now = s.now := by
        rcases h5 with ⟨t, ht⟩ | h5
        · simp [mintOp] at ht
        · exact h5
      simp only [wfOf, setVf_now, setVf_bank, setVf_wls, hn]
  | wlInst v sender funds self m =>
    rcases step'_cases s (.wlInst v sender funds self m) with ⟨s', hs, hs'⟩ | ⟨_, hs'⟩
    · rw [hs']
      obtain ⟨ht, r, w, _, _, _, rfl⟩ := step_wlInst_ok hs
      simp only [wfOps, ht, and_true] at h
      have hne : ¬ k = self := by
        intro hx; subst hx; simp at h
      simp only [wfOf, find_cons, hne, if_false]
    · rw [hs']; rfl
  | wlExec k' sender funds m =>
    rcases step'_cases s (.wlExec k' sender funds m) with ⟨s', hs, hs'⟩ | ⟨_, hs'⟩
    · rw [hs']
      obtain ⟨w, r, w', hf, _, _, _, rfl⟩ := step_wlExec_ok hs
      simp only [wfOps] at h
      have hne : ¬ k = k' := by
        intro hx; subst hx; simp at h
      simp only [wfOf, find_replace _ _ _ _ hf, hne, if_false]
    · rw [hs']; rfl

/-- **whitelist-side refinement, own steps**: a clock move, a `fund`, and every `instantiate` / `execute` addressed to the
contract at `k` is exactly that `WF.step'` on the projection -/
theorem wf_step_own (s : State) (op : Op) (k : Addr) (wop : WF.Op) (h : wfOps k s op = [wop]) :
    wfOf (step' s op) k = WF.step' (wfOf s k) wop := by
  cases op with
  | minter o =>
    cases o with
    | setTime t =>
      simp only [wfOps] at h
      by_cases ht : t < s.now
      · simp [ht] at h
      · simp only [ht, if_false, List.cons.injEq, and_true] at h
        subst h
        have hs : step' s (.minter (.setTime t)) = setVf s { vfOf s with now := t } := by
          simp [step', step, witnessed, VF.step, ht]
        rw [hs]
        simp [wfOf, WF.step', WF.step]
    | fund a c =>
      simp only [wfOps, List.cons.injEq, and_true] at h
      subst h
      have hs : step' s (.minter (.fund a c)) = setVf s { vfOf s with bank := s.bank.fund a c } := by
        simp [step', step, witnessed, VF.step]
      rw [hs]
      simp [wfOf, WF.step', WF.step]
    | wlEnv k' i => simp [wfOps] at h
    | create sender funds msg w => simp [wfOps] at h
    | instantiateDirect sender => simp [wfOps] at h
    | mint sender funds f sv picked => simp [wfOps] at h
    | mintTo sender funds rcpt picked => simp [wfOps] at h
    | mintFor sender funds id rcpt => simp [wfOps] at h
    | setWhitelist sender funds wl valid => simp [wfOps] at h
    | purge sender funds => simp [wfOps] at h
    | updateMintPrice sender funds p => simp [wfOps] at h
    | updateStartTime sender funds t' => simp [wfOps] at h
    | updateStartTradingTime sender funds t' => simp [wfOps] at h
    | updatePerAddressLimit sender funds n => simp [wfOps] at h
    | shuffle sender funds perm => simp [wfOps] at h
    | burnRemaining sender funds => simp [wfOps] at h
    | updateDiscountPrice sender funds p => simp [wfOps] at h
    | removeDiscountPrice sender funds => simp [wfOps] at h
    | sudoStatus v b e => simp [wfOps] at h
    | sudoParams u => simp [wfOps] at h
    | collTransfer sender id to => simp [wfOps] at h
    | collBurn sender id => simp [wfOps] at h
    | collTrading sender t' => simp [wfOps] at h
    | collCreator sender new => simp [wfOps] at h
    | collFreeze sender => simp [wfOps] at h
    | collOwn sender a => simp [wfOps] at h
  | mint sender funds stage alloc proof picked => simp [wfOps] at h
  | wlInst v sender funds self m =>
    simp only [wfOps] at h
    by_cases hc : self = k ∧ taken s self = false
    · obtain ⟨rfl, ht⟩ := hc
      simp only [ht, and_self, if_true, List.cons.injEq, and_true] at h
      subst h
      have hf : find s.wls self = none := taken_find ht
      have hw : wfOf s self = ⟨s.now, s.bank, none⟩ := by simp [wfOf, hf]
      rw [hw]
      cases hr : WF.step ⟨s.now, s.bank, none⟩ (.instantiate v sender funds self m) with
      | error e =>
        have hs : step' s (.wlInst v sender funds self m) = s := by simp [step', step, ht, hr]
        rw [hs, hw]
        simp [WF.step', hr]
      | ok r =>
        obtain ⟨w, hrw, hrn⟩ := wf_inst_some hr
        have hs : step' s (.wlInst v sender funds self m) = { s with bank := r.bank, wls := (self, w) :: s.wls } := by
          simp [step', step, ht, hr, hrw]
        rw [hs]
        simp only [WF.step', hr, wfOf, find_cons, if_true]
        cases r
        simp only at hrw hrn
        subst hrw hrn
        rfl
    · simp [hc] at h
  | wlExec k' sender funds m =>
    simp only [wfOps] at h
    by_cases hk : k' = k
    · simp only [hk, if_true, List.cons.injEq, and_true] at h
      subst h
      subst hk
      cases hf : find s.wls k' with
      | none =>
        have hs : step' s (.wlExec k' sender funds m) = s := by simp [step', step, hf]
        rw [hs]
        simp [wfOf, hf, WF.step', WF.step, WF.execute]
      | some w =>
        have hw : wfOf s k' = ⟨s.now, s.bank, some w⟩ := by simp [wfOf, hf]
        rw [hw]
        cases hr : WF.step ⟨s.now, s.bank, some w⟩ (.exec sender funds m) with
        | error e =>
          have hs : step' s (.wlExec k' sender funds m) = s := by simp [step', step, hf, hr]
          rw [hs, hw]
          simp [WF.step', hr]
        | ok r =>
          obtain ⟨_, w', _, hrw, hrn⟩ := wf_exec_some hr
          have hs : step' s (.wlExec k' sender funds m) = { s with bank := r.bank, wls := replace s.wls k' w' } := by
            simp [step', step, hf, hr, hrw]
          rw [hs]
          simp only [WF.step', hr, wfOf, find_replace _ _ _ _ hf, if_true]
          cases r
          simp only at hrw hrn
          subst hrw hrn
          rfl
    · simp [hk] at h

theorem wfOps_cases (k : Addr) (s : State) (op : Op) : wfOps k s op = [] ∨ ∃ wop, wfOps k s op = [wop] := by
  cases op with
  | minter o =>
    cases o with
    | setTime t =>
      simp only [wfOps]
      by_cases ht : t < s.now
      · exact Or.inl (by simp [ht])
      · exact Or.inr ⟨.setTime t, by simp [ht]⟩
    | fund a c => exact Or.inr ⟨_, rfl⟩
    | _ => exact Or.inl rfl
  | mint sender funds stage alloc proof picked => exact Or.inl rfl
  | wlInst v sender funds self m =>
    simp only [wfOps]
    by_cases hc : self = k ∧ taken s self = false
    · exact Or.inr ⟨.instantiate v sender funds self m, by rw [if_pos hc]⟩
    · exact Or.inl (by rw [if_neg hc])
  | wlExec k' sender funds m =>
    simp only [wfOps]
    by_cases hk : k' = k
    · exact Or.inr ⟨.exec sender funds m, by rw [if_pos hk]⟩
    · exact Or.inl (by rw [if_neg hk])

/-- `WF` runs closed under bank movements of transactions that are not addressed to the observed contract -/
inductive WFReach : WF.State → WF.State → Prop
  | refl (c : WF.State) : WFReach c c
  | step {c0 c : WF.State} (op : WF.Op) : WFReach c0 c → WFReach c0 (WF.step' c op)
  | bank {c0 c : WF.State} (b : MintPay.Bank) : WFReach c0 c → WFReach c0 { c with bank := b }

theorem wf_step_reach (c0 : WF.State) (s : State) (op : Op) (k : Addr) (h : WFReach c0 (wfOf s k)) :
    WFReach c0 (wfOf (step' s op) k) := by
  rcases wfOps_cases k s op with h0 | ⟨wop, h1⟩
  · rw [wf_step_other s op k h0]; exact .bank _ h
  · rw [wf_step_own s op k wop h1]; exact .step _ h

/-- **whitelist-side refinement, runs**: the projection of every system run onto the contract at `k` is a `WF` run interleaved
with foreign bank movements -/
theorem wf_run (s : State) (ops : List Op) (k : Addr) : WFReach (wfOf s k) (wfOf (run s ops) k) := by
  suffices h : ∀ c0 s, WFReach c0 (wfOf s k) → WFReach c0 (wfOf (run s ops) k) from h _ s (.refl _)
  induction ops with
  | nil => intro c0 s h; exact h
  | cons op ops ih => intro c0 s h; rw [run_cons]; exact ih c0 _ (wf_step_reach c0 s op k h)

theorem wfReach_inv (P : WF.State → Prop) (hstep : ∀ c op, P c → P (WF.step' c op))
    (hbank : ∀ (c : WF.State) (b : MintPay.Bank), P c → P { c with bank := b }) {c0 c : WF.State} (h0 : P c0) (h : WFReach c0 c) : P c := by
  induction h with
  | refl => exact h0
  | step op _ ih => exact hstep _ op ih
  | bank b _ ih => exact hbank _ b ih

end LP.Sys
