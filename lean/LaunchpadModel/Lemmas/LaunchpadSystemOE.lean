import LaunchpadModel.Model.LaunchpadSystemOE
import LaunchpadModel.Lemmas.LaunchpadSystem
import LaunchpadModel.Lemmas.OpenEditionFull
/-!
# Basic lemmas about the open-edition SYSTEM composite `LP.SysOE`: inversion of `step`, the two projections

Ported from `Lemmas/LaunchpadSystem.lean` (`LP.Sys`); the table lemmas (`Sys.find_cons`, `Sys.find_replace`,
`Sys.find_replace_none`) and the `WF`-only facts (`Sys.wf_inst_some`, `Sys.wf_exec_some`) are REUSED from there.

Core tactics only.
-/
namespace LP.SysOE
open LP
open LP.Sys (find replace wlInfoOf senderViewOf viewOf find_nil find_cons find_replace find_replace_none wf_inst_some wf_exec_some)

/-- (`Lemmas/OpenEditionFull.lean` has `run_cons` only) -/
theorem oe_run_nil (s : OE.State) : OE.run s [] = s := rfl
theorem oe_run_append (s : OE.State) (a b : List OE.Op) : OE.run s (a ++ b) = OE.run (OE.run s a) b := by
  simp [OE.run, List.foldl_append]

/-! ## `step'`, `run` -/

theorem step'_ok {s s' : State} {op : Op} (h : step s op = .ok s') : step' s op = s' := by simp [step', h]
theorem step'_err {s : State} {op : Op} {e : Err} (h : step s op = .error e) : step' s op = s := by simp [step', h]

theorem step'_cases (s : State) (op : Op) :
    (∃ s', step s op = .ok s' ∧ step' s op = s') ∨ ((∃ e, step s op = .error e) ∧ step' s op = s) := by
  cases h : step s op with
  | ok s' => exact Or.inl ⟨s', rfl, step'_ok h⟩
  | error e => exact Or.inr ⟨⟨e, rfl⟩, step'_err h⟩

theorem run_nil (s : State) : run s [] = s := rfl
theorem run_cons (s : State) (op : Op) (ops : List Op) : run s (op :: ops) = run (step' s op) ops := rfl
theorem run_append (s : State) (a b : List Op) : run s (a ++ b) = run (run s a) b := by simp [run, List.foldl_append]

theorem run_inv (P : State → Prop) (hstep : ∀ s op, P s → P (step' s op)) (s : State) (h0 : P s) (ops : List Op) :
    P (run s ops) := by
  induction ops generalizing s with
  | nil => exact h0
  | cons op ops ih => rw [run_cons]; exact ih _ (hstep s op h0)

/-! ## inversion of `step` -/

theorem step_minter_ok {s s' : State} {op : OE.Op} (h : step s (.minter op) = .ok s') :
    witnessed op = false ∧ ∃ c, OE.step (oeOf s) op = .ok c ∧ s' = setOe s c := by
  simp only [step] at h
  split at h
  · cases h
  · rename_i hw
    split at h
    · rename_i c hc
      cases h
      exact ⟨by simpa using hw, c, hc, rfl⟩
    · cases h

theorem step_mint_ok {s s' : State} {sender : Addr} {funds : List Coin} {stage alloc : Option Nat}
    {proof : Option (List (List Nat))} (h : step s (.mint sender funds stage alloc proof) = .ok s') :
    ∃ c, OE.step (oeOf s) (mintOp s sender funds stage alloc proof) = .ok c ∧ s' = setOe s c := by
  simp only [step] at h
  split at h
  · rename_i c hc
    cases h
    exact ⟨c, hc, rfl⟩
  · cases h

theorem step_wlInst_ok {s s' : State} {v : WF.Variant} {sender : Addr} {funds : List Coin} {self : Addr} {m : WF.InstMsg}
    (h : step s (.wlInst v sender funds self m) = .ok s') :
    taken s self = false ∧ ∃ r w, WF.step ⟨s.now, s.bank, none⟩ (.instantiate v sender funds self m) = .ok r ∧
      r.wl = some w ∧ r.now = s.now ∧ s' = { s with bank := r.bank, wls := (self, w) :: s.wls } := by
  simp only [step] at h
  split at h
  · cases h
  · rename_i ht
    split at h
    · cases h
    · rename_i r hr
      split at h
      · cases h
      · rename_i w hw
        cases h
        refine ⟨by simpa using ht, r, w, hr, hw, ?_, rfl⟩
        simp only [WF.step] at hr
        obtain ⟨_, _, _, _, _, _, _, rfl⟩ := WF.instantiateTx_ok hr
        rfl

theorem step_wlExec_ok {s s' : State} {k sender : Addr} {funds : List Coin} {m : WF.ExecMsg}
    (h : step s (.wlExec k sender funds m) = .ok s') :
    ∃ w r w', find s.wls k = some w ∧ WF.step ⟨s.now, s.bank, some w⟩ (.exec sender funds m) = .ok r ∧
      r.wl = some w' ∧ r.now = s.now ∧ s' = { s with bank := r.bank, wls := replace s.wls k w' } := by
  simp only [step] at h
  split at h
  · cases h
  · rename_i w hw
    split at h
    · cases h
    · rename_i r hr
      split at h
      · cases h
      · rename_i w' hw'
        cases h
        refine ⟨w, r, w', hw, hr, hw', ?_, rfl⟩
        simp only [WF.step] at hr
        obtain ⟨_, _, _, _, _, _, _, _, _, rfl⟩ := WF.execute_ok hr
        rfl

/-! ## `oeOf` / `setOe` -/

theorem oeOf_setOe (s : State) (c : OE.State) (h : c.wls = viewOf c.now s.wls) : oeOf (setOe s c) = c := by
  cases c
  simp only [oeOf, setOe] at h ⊢
  simp only [h]

@[simp] theorem setOe_wls (s : State) (c : OE.State) : (setOe s c).wls = s.wls := rfl
@[simp] theorem setOe_now (s : State) (c : OE.State) : (setOe s c).now = c.now := rfl
@[simp] theorem setOe_bank (s : State) (c : OE.State) : (setOe s c).bank = c.bank := rfl
@[simp] theorem setOe_minter (s : State) (c : OE.State) : (setOe s c).minter = c.minter := rfl
@[simp] theorem setOe_params (s : State) (c : OE.State) : (setOe s c).params = c.params := rfl
@[simp] theorem oeOf_now (s : State) : (oeOf s).now = s.now := rfl
@[simp] theorem oeOf_bank (s : State) : (oeOf s).bank = s.bank := rfl
@[simp] theorem oeOf_minter (s : State) : (oeOf s).minter = s.minter := rfl
@[simp] theorem oeOf_params (s : State) : (oeOf s).params = s.params := rfl
@[simp] theorem oeOf_wls (s : State) (a : Addr) : (oeOf s).wls a = (find s.wls a).map (wlInfoOf s.now) := rfl

/-! ## the interface refresh -/

/-- running the refresh ops overwrites exactly the table's addresses with `wlInfoOf` of the table's states -/
theorem refresh_run (now : Nat) (tbl : List (Addr × WF.Wl)) (c : OE.State) :
    OE.run c (refreshOps now tbl) =
      { c with wls := fun a => match find tbl a with
                               | some w => some (wlInfoOf now w)
                               | none => c.wls a } := by
  induction tbl with
  | nil => simp [refreshOps, OE.run, find]
  | cons x rest ih =>
    obtain ⟨k, w⟩ := x
    simp only [refreshOps, oe_run_append, ih]
    simp only [OE.run, List.foldl, OE.step', OE.step]
    congr 1
    funext a
    by_cases ha : a = k
    · simp [ha, find_cons]
    · simp [ha, find_cons]

/-- a `OE` state whose interface is the view of a table with the same (or fewer) addresses refreshes to the view -/
theorem refresh_to_view (s' : State) (c : OE.State)
    (hnow : c.now = s'.now) (hcodes : c.codes = s'.codes) (hfac : c.factoryAddr = s'.factoryAddr) (hpar : c.params = s'.params)
    (hbank : c.bank = s'.bank) (hmin : c.minter = s'.minter)
    (hw : ∀ a, find s'.wls a = none → c.wls a = none) :
    OE.run c (refreshOps s'.now s'.wls) = oeOf s' := by
  rw [refresh_run]
  cases c
  simp only at hnow hcodes hfac hpar hbank hmin hw
  subst hnow hcodes hfac hpar hbank hmin
  simp only [oeOf, OE.State.mk.injEq, true_and, and_true]
  funext a
  simp only [viewOf]
  cases hf : find s'.wls a with
  | none => simp [hw a hf]
  | some w => simp

end LP.SysOE
