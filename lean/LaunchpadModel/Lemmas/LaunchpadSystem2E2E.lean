import LaunchpadModel.Lemmas.LaunchpadSystem2Inv
/-!
# System composite 2: what ONE accepted step of a history without impersonation does to the collection (`e2e_step`)

Under the end-to-end invariant `SInv` and `NoImp`, an accepted step is exactly one of
* (A) a mint by the minter (`Mint` / `MintTo` / `MintFor`): the picked id — never minted before, absent from the collection —
  is logged by the minter and appended to the collection's token table with the named recipient as owner;
* (B) `UpdateStartTradingTime` through the minter: sent by the minter's admin, validated against the factory offset in force;
* (C) a burn by somebody entitled: one token leaves, `NumTokens` drops by one, the minter's log is untouched;
* (D) anything else: same ids, same `NumTokens`, same mint log, same `start_trading_time`.
In every case the cw_ownable record, the minter's address / admin / `num_tokens` stay.
-/
namespace LP.Sys2
open LP

/-- the token id an op asks the collection to burn -/
def burnOf : Op → Option Nat
  | .collExec _ _ (.burn id) => some id
  | .sys (.minter (.collBurn _ id)) => some id
  | _ => none

/-- the sub-message kind of an op (`Sub.none` for everything that is not a minter message) -/
def opSub : Op → Sub
  | .sys o => subOf o
  | _ => .none

structure Frame (m m' : Minter) (c c' : CF.Coll) : Prop where
  addr : m'.addr = m.addr
  admin : m'.admin = m.admin
  n : m'.supply.n = m.supply.n
  own : c'.core.ownership = c.core.ownership

def IsMint (m m' : Minter) (c c' : CF.Coll) (op : Op) : Prop :=
  ∃ rcpt pk id, opSub op = .mint rcpt pk ∧ pickedId m.supply.pos pk = some id ∧ id ∉ m.supply.minted ∧ id ∉ c.core.ids ∧
    1 ≤ id ∧ id ≤ m.supply.n ∧
    m'.supply.minted = id :: m.supply.minted ∧
    c'.core.tokens = c.core.tokens ++ [⟨id, rcpt, [], some (URI_BASE + id), 0⟩] ∧ c'.core.count = c.core.count + 1 ∧
    c'.core.info = c.core.info ∧ burnOf op = none

def IsTrading (s : State) (m m' : Minter) (c c' : CF.Coll) (op : Op) : Prop :=
  ∃ sender t, op = .sys (.minter (.updateStartTradingTime sender [] t)) ∧ sender = m.admin ∧
    TT.tradingUpdateOk .vending s.now m.startTime s.params.maxTradingOffsetSecs t = true ∧
    c'.core.info.startTradingTime = t ∧ c'.core.tokens = c.core.tokens ∧ c'.core.count = c.core.count ∧
    m'.supply.minted = m.supply.minted ∧ burnOf op = none

def IsBurn (m m' : Minter) (c c' : CF.Coll) (op : Op) : Prop :=
  ∃ id, burnOf op = some id ∧ id ∈ c.core.ids ∧ c'.core.ids = c.core.ids.filter (fun x => !decide (x = id)) ∧
    c'.core.count + 1 = c.core.count ∧ m'.supply.minted = m.supply.minted ∧
    c'.core.info.startTradingTime = c.core.info.startTradingTime

def IsOther (m m' : Minter) (c c' : CF.Coll) (op : Op) : Prop :=
  burnOf op = none ∧ c'.core.ids = c.core.ids ∧ c'.core.count = c.core.count ∧ m'.supply.minted = m.supply.minted ∧
    c'.core.info.startTradingTime = c.core.info.startTradingTime

/-! ## helpers -/

theorem ite_zero (p : Prop) [Decidable p] : (if p then (0 : Nat) else 0) = 0 := by split <;> rfl

/-- the supply side of a minter mint -/
theorem fixed_mint_step {f f' : Supply.Fixed} {fop : Supply.FOp} {rcpt : Addr} {pk : VF.Pick} (hi : Supply.FInv f)
    (h : f.step fop = some f') (hs : SubFop (.mint rcpt pk) fop) :
    ∃ id, pickedId f.pos pk = some id ∧ id ∉ f.minted ∧ 1 ≤ id ∧ id ≤ f.n ∧ f'.minted = id :: f.minted ∧ f'.n = f.n := by
  cases pk with
  | «at» p =>
    simp only [SubFop] at hs
    subst hs
    simp only [Supply.Fixed.step, if_true] at h
    unfold Supply.Fixed.takeAt at h
    split at h
    · cases h
    · cases hl : Supply.lookupPos f.pos p with
      | none => simp [hl] at h
      | some id =>
        simp only [hl] at h
        obtain ⟨c, _, rfl⟩ := Supply.Fixed.deliver_spec h
        have hm : id ∈ f.ids := List.mem_map_of_mem (f := (·.2)) (Supply.lookupPos_mem hl)
        exact ⟨id, hl, hi.fresh id hm, (hi.range id hm).1, (hi.range id hm).2, rfl, rfl⟩
  | id i =>
    simp only [SubFop] at hs
    subst hs
    simp only [Supply.Fixed.step, if_true] at h
    obtain ⟨_, _, _, hm, _, hd⟩ := Supply.Fixed.takeId_spec h
    obtain ⟨c, _, rfl⟩ := Supply.Fixed.deliver_spec hd
    have hm' : i ∈ f.ids := List.mem_map_of_mem (f := (·.2)) hm
    exact ⟨i, rfl, hi.fresh i hm', (hi.range i hm').1, (hi.range i hm').2, rfl, rfl⟩

/-- the `Supply.Fixed` ops that leave the mint log and the token table alone -/
def quietFop : Supply.FOp → Bool
  | .noise _ => true
  | .shuffle _ _ => true
  | .purge _ => true
  | .burnRemaining _ => true
  | _ => false

/-- the supply side of every other minter-side op -/
theorem fixed_other_step {f f' : Supply.Fixed} {fop : Supply.FOp} (h : f.step fop = some f') (hs : quietFop fop = true) :
    f'.minted = f.minted ∧ f'.n = f.n ∧ f'.coll = f.coll := by
  have hcoll := fixed_step_coll h
  cases fop <;> simp only [quietFop, Bool.false_eq_true] at hs <;> simp only [fopColl] at hcoll
  case noise g =>
    cases g <;> simp [Supply.Fixed.step] at h
    subst h; exact ⟨rfl, rfl, rfl⟩
  case shuffle g perm =>
    cases g <;> simp [Supply.Fixed.step] at h
    obtain ⟨-, -, rfl⟩ := Supply.Fixed.shuffle_spec h
    exact ⟨rfl, rfl, rfl⟩
  case purge g =>
    cases g <;> simp [Supply.Fixed.step, Supply.Fixed.purge] at h
    obtain ⟨-, rfl⟩ := h; exact ⟨rfl, rfl, rfl⟩
  case burnRemaining g =>
    cases g <;> simp [Supply.Fixed.step] at h
    obtain ⟨-, rfl⟩ := Supply.Fixed.burnAll_spec h
    exact ⟨rfl, rfl, rfl⟩

theorem subFop_other {sub : Sub} {fop : Supply.FOp} (hs : SubFop sub fop) (hn : ∀ rcpt pk, sub ≠ .mint rcpt pk) :
    quietFop fop = true := by
  cases sub with
  | mint rcpt pk => exact absurd rfl (hn rcpt pk)
  | none => cases fop <;> simp only [SubFop] at hs <;> rfl
  | trading t => cases fop <;> simp only [SubFop] at hs <;> rfl

/-- inversion of the minter's `UpdateStartTradingTime` on the `Sys` level -/
theorem sys_trading_ok {S r : Sys.State} {vm : VF.Minter} {sender : Addr} {funds : List Coin} {t : Option Nat}
    (hm : S.minter = some vm) (h : Sys.step S (.minter (.updateStartTradingTime sender funds t)) = .ok r) :
    funds = [] ∧ sender = vm.admin ∧ TT.tradingUpdateOk .vending S.now vm.startTime S.params.maxTradingOffsetSecs t = true := by
  obtain ⟨_, cst, hc, _⟩ := Sys.step_minter_ok h
  simp only [VF.step] at hc
  obtain ⟨m0, m', hm0, hf, _⟩ := VF.withMinter_ok hc
  have : (Sys.vfOf S).minter = some vm := hm
  rw [this] at hm0; cases hm0
  obtain ⟨_, h1, h2, h3, _, _⟩ := VF.updateStartTradingTime_ok hf
  exact ⟨h1, h2, h3⟩

theorem count_pos_of_mem {f : Supply.Fixed} {c : Sg721.State} (hi : Supply.FInv f) (hf : f.coll = tokView c) {id : Nat}
    (h : id ∈ c.ids) : 1 ≤ c.count := by
  have hc : Supply.CInv (tokView c) := hf ▸ hi.cinv
  have h1 : (tokView c).count = (tokView c).toks.length := hc.count
  have h2 : (tokView c).toks.length = c.tokens.length := by simp [tokView]
  have h3 : c.tokens.length = c.ids.length := by simp [Sg721.State.ids]
  have h4 : 0 < c.ids.length := List.length_pos_of_mem h
  have h5 : (tokView c).count = c.count := rfl
  omega

/-! ## a message from outside, by somebody who is not the minter contract -/

theorem e2e_collExec {s s' : State} {m : Minter} {c : CF.Coll} {sender : Addr} {funds : List Coin} {msg : CF.ExecMsg}
    (hi : SInv s) (hmc : s.mc = some (m, c)) (hs : sender ≠ m.addr) (h : collExec s sender funds msg = .ok s') :
    ∃ c', s'.mc = some (m, c') ∧ c'.core.ownership = c.core.ownership ∧
      c'.core.info.startTradingTime = c.core.info.startTradingTime ∧
      ((∃ id, msg = .burn id ∧ id ∈ c.core.ids ∧ c'.core.ids = c.core.ids.filter (fun x => !decide (x = id)) ∧
          c'.core.count + 1 = c.core.count) ∨
       ((∀ id, msg ≠ .burn id) ∧ c'.core.ids = c.core.ids ∧ c'.core.count = c.core.count)) := by
  obtain ⟨m0, c0, b1, core', b2, hmc0, -, hex, -, rfl⟩ := collExec_ok h
  rw [hmc] at hmc0
  simp only [Option.some.injEq, Prod.mk.injEq] at hmc0
  obtain ⟨rfl, rfl⟩ := hmc0
  obtain ⟨-, e⟩ := Sg721.exec_eff' hex
  obtain ⟨ho, hst, -, -⟩ := eff_stranger (hi.own m c hmc) hs e
  refine ⟨_, rfl, ho, hst, ?_⟩
  have hown : ∀ x, c.core.ownership.owner = some x → x = m.addr := by
    intro x hx; rw [hi.own m c hmc] at hx; exact (Option.some.inj hx).symm
  cases msg <;> simp only [CF.toExec] at e
  case burn id =>
    left
    cases e with
    | burn _ t hf _ =>
      have hmem := Sg721.mem_ids_of_find? hf
      have hpos := count_pos_of_mem (hi.sup m c hmc) rfl hmem
      refine ⟨id, rfl, hmem, Sg721.ids_removeToken _ _, ?_⟩
      show c.core.count - 1 + 1 = c.core.count
      omega
  case transferNft r id => cases e; exact Or.inr ⟨(fun _ h => by cases h), Sg721.ids_setToken _ _, rfl⟩
  case sendNft r id ok => cases e; exact Or.inr ⟨(fun _ h => by cases h), Sg721.ids_setToken _ _, rfl⟩
  case approve sp id ex => cases e; exact Or.inr ⟨(fun _ h => by cases h), Sg721.ids_setToken _ _, rfl⟩
  case revoke sp id => cases e; exact Or.inr ⟨(fun _ h => by cases h), Sg721.ids_setToken _ _, rfl⟩
  case updateTokenMetadata id uri => cases e; exact Or.inr ⟨(fun _ h => by cases h), Sg721.ids_setToken _ _, rfl⟩
  case mint id o u x =>
    cases e with
    | mint _ _ _ _ hm _ _ => exact absurd (hown _ hm) hs
  case approveAll o ex => cases e; exact Or.inr ⟨(fun _ h => by cases h), rfl, rfl⟩
  case revokeAll o => cases e; exact Or.inr ⟨(fun _ h => by cases h), rfl, rfl⟩
  case extension => cases e
  case updateCollectionInfo u => cases e; exact Or.inr ⟨(fun _ h => by cases h), rfl, rfl⟩
  case updateStartTradingTime t => cases e; exact Or.inr ⟨(fun _ h => by cases h), rfl, rfl⟩
  case freezeCollectionInfo => cases e; exact Or.inr ⟨(fun _ h => by cases h), rfl, rfl⟩
  case updateOwnership a => cases e <;> exact Or.inr ⟨(fun _ h => by cases h), rfl, rfl⟩
  case freezeTokenMetadata => cases e; exact Or.inr ⟨(fun _ h => by cases h), rfl, rfl⟩
  case enableUpdatable => cases e; exact Or.inr ⟨(fun _ h => by cases h), rfl, rfl⟩

end LP.Sys2

namespace LP.Sys2
open LP

/-! ## the classification of one accepted step -/

theorem iface_burn {vo : VF.Op} {sender : Addr} {msg : CF.ExecMsg} (h : ifaceMsg vo = some (sender, msg)) :
    (∃ id, msg = .burn id ∧ burnOf (.sys (.minter vo)) = some id) ∨ ((∀ id, msg ≠ .burn id) ∧ burnOf (.sys (.minter vo)) = none) := by
  cases vo <;> simp only [ifaceMsg, reduceCtorEq, Option.some.injEq, Prod.mk.injEq] at h
  case collBurn sd id => obtain ⟨-, rfl⟩ := h; exact Or.inl ⟨id, rfl, rfl⟩
  case collOwn sd a =>
    cases a <;> simp only [Option.some.injEq, Prod.mk.injEq] at h <;> obtain ⟨-, rfl⟩ := h <;>
      exact Or.inr ⟨(fun _ hx => by cases hx), rfl⟩
  all_goals (obtain ⟨-, rfl⟩ := h; exact Or.inr ⟨(fun _ hx => by cases hx), rfl⟩)

theorem plain_burnOf {o : Sys.Op} (hp : plainOp o = true) : burnOf (.sys o) = none := by
  cases o with
  | minter vo => cases vo <;> first | rfl | simp [plainOp, ifaceMsg] at hp
  | _ => rfl

theorem subOf_trading {o : Sys.Op} {t : Option Nat} (h : subOf o = .trading t) :
    ∃ sender funds, o = .minter (.updateStartTradingTime sender funds t) := by
  cases o with
  | minter vo =>
    cases vo <;> simp only [subOf, reduceCtorEq, Sub.trading.injEq] at h
    case updateStartTradingTime sender funds t' => subst h; exact ⟨sender, funds, rfl⟩
  | mint _ _ _ _ _ _ => simp [subOf] at h
  | wlInst _ _ _ _ _ => simp [subOf] at h
  | wlExec _ _ _ _ => simp [subOf] at h

theorem e2e_sysStep {s s' : State} {o : Sys.Op} {m : Minter} {c : CF.Coll} (hp : plainOp o = true) (hi : SInv s)
    (hmc : s.mc = some (m, c)) (h : sysStep s o = .ok s') :
    ∃ m' c', s'.mc = some (m', c') ∧ Frame m m' c c' ∧
      (IsMint m m' c c' (.sys o) ∨ IsTrading s m m' c c' (.sys o) ∨ IsBurn m m' c c' (.sys o) ∨ IsOther m m' c c' (.sys o)) := by
  have hex := sysStep_exact hp h
  obtain ⟨m', c', msg, hmc', ha, -, had, ⟨fop, hstep, hsf⟩, htt, hmsg, hcase⟩ := sysStep_parts hp hmc h
  have hfinv := hi.sup m c hmc
  refine ⟨m', c', hmc', ?_⟩
  cases hsub : subOf o with
  | none =>
    rw [hsub] at hmsg hsf
    simp only [subMsg, Except.ok.injEq] at hmsg
    subst hmsg
    obtain ⟨hmint, hn, -⟩ := fixed_other_step hstep (subFop_other hsf (fun _ _ hx => by cases hx))
    rcases hcase with ⟨-, rfl⟩ | ⟨mm, core', hx, -, -⟩
    · exact ⟨⟨ha, had, hn, rfl⟩, Or.inr (Or.inr (Or.inr ⟨plain_burnOf hp, rfl, rfl, hmint, rfl⟩))⟩
    · cases hx
  | trading t =>
    obtain ⟨sender, funds, rfl⟩ := subOf_trading hsub
    obtain ⟨hfu, hse, hok⟩ := sys_trading_ok (sysOf_minter_some hmc) hex
    subst hfu
    rw [hsub] at hmsg hsf
    simp only [subMsg, Except.ok.injEq] at hmsg
    subst hmsg
    obtain ⟨hmint, hn, -⟩ := fixed_other_step hstep (subFop_other hsf (fun _ _ hx => by cases hx))
    rcases hcase with ⟨hx, -⟩ | ⟨mm, core', hx, hexec, rfl⟩
    · cases hx
    · cases hx
      obtain ⟨-, e⟩ := Sg721.exec_eff' hexec
      simp only [CF.toExec] at e
      cases e with
      | ustt _ ho =>
        exact ⟨⟨ha, had, hn, rfl⟩, Or.inr (Or.inl ⟨sender, t, rfl, hse, hok, rfl, rfl, rfl, hmint, rfl⟩)⟩
  | mint rcpt pk =>
    rw [hsub] at hmsg hsf
    obtain ⟨id, hpick, hnm, h1, h2, hmint, hn⟩ := fixed_mint_step hfinv hstep hsf
    obtain ⟨id2, hpick2, -, rfl⟩ := subMsg_mint_ok hmsg
    have : id2 = id := by
      have hp1 : pickedId m.supply.pos pk = some id := hpick
      rw [hp1] at hpick2
      exact (Option.some.inj hpick2).symm
    subst this
    rcases hcase with ⟨hx, -⟩ | ⟨mm, core', hx, hexec, rfl⟩
    · cases hx
    · cases hx
      obtain ⟨-, e⟩ := Sg721.exec_eff' hexec
      simp only [CF.toExec] at e
      cases e with
      | mint _ _ _ _ ho _ hnone =>
        refine ⟨⟨ha, had, hn, rfl⟩, Or.inl ⟨rcpt, pk, id2, hsub, hpick2, hnm, (Sg721.find?_none_iff _ _).1 hnone, h1, h2, hmint, ?_, rfl, rfl, plain_burnOf hp⟩⟩
        simp only [ite_zero]

/-- **one accepted step of a history without impersonation, classified** -/
theorem e2e_step {s s' : State} {op : Op} {m : Minter} {c : CF.Coll} (hi : SInv s) (hno : NoImp s op)
    (hmc : s.mc = some (m, c)) (h : step s op = .ok s') :
    ∃ m' c', s'.mc = some (m', c') ∧ Frame m m' c c' ∧
      (IsMint m m' c c' op ∨ IsTrading s m m' c c' op ∨ IsBurn m m' c c' op ∨ IsOther m m' c c' op) := by
  have hcoll : ∀ {sender funds msg}, sender ≠ m.addr → collExec s sender funds msg = .ok s' →
      ∃ c', s'.mc = some (m, c') ∧ Frame m m c c' ∧
        ((∃ id, msg = .burn id ∧ id ∈ c.core.ids ∧ c'.core.ids = c.core.ids.filter (fun x => !decide (x = id)) ∧
            c'.core.count + 1 = c.core.count ∧ c'.core.info.startTradingTime = c.core.info.startTradingTime) ∨
         ((∀ id, msg ≠ .burn id) ∧ c'.core.ids = c.core.ids ∧ c'.core.count = c.core.count ∧
            c'.core.info.startTradingTime = c.core.info.startTradingTime)) := by
    intro sender funds msg hs hx
    obtain ⟨c', hmc', ho, hst, hk⟩ := e2e_collExec hi hmc hs hx
    refine ⟨c', hmc', ⟨rfl, rfl, rfl, ho⟩, ?_⟩
    rcases hk with ⟨id, h1, h2, h3, h4⟩ | ⟨h1, h2, h3⟩
    · exact Or.inl ⟨id, h1, h2, h3, h4, hst⟩
    · exact Or.inr ⟨h1, h2, h3, hst⟩
  have henv : ∀ {cop}, (cop = .migrateUpdatable ∨ cop = .migrateSelf ∨ ∃ v, cop = .setVersion v) → collEnv s cop = .ok s' →
      ∃ c', s'.mc = some (m, c') ∧ Frame m m c c' ∧ c'.core.ids = c.core.ids ∧ c'.core.count = c.core.count ∧
        c'.core.info.startTradingTime = c.core.info.startTradingTime := by
    intro cop hop hx
    obtain ⟨m0, c0, c', hmc0, rfl, hk⟩ := collEnv_parts hx hop
    rw [hmc] at hmc0
    simp only [Option.some.injEq, Prod.mk.injEq] at hmc0
    obtain ⟨rfl, rfl⟩ := hmc0
    obtain ⟨-, hl⟩ := hi.good m c hmc
    refine ⟨c', rfl, ?_⟩
    rcases hk with ⟨-, hf⟩ | ⟨-, hf⟩ | ⟨v, -, rfl⟩
    · obtain ⟨h1, h2, h3, h4, -, -⟩ := migrateUpdatable_view hl hf
      have hc : c'.core.count = c.core.count := congrArg Supply.Coll.count h1
      have ht : c'.core.info.startTradingTime = c.core.info.startTradingTime := congrArg TT.Coll.trading h4
      exact ⟨⟨rfl, rfl, rfl, h3⟩, h2, hc, ht⟩
    · obtain ⟨h1, h2, h3, h4, -, -⟩ := migrateSelf_view hl hf
      have hc : c'.core.count = c.core.count := congrArg Supply.Coll.count h1
      have ht : c'.core.info.startTradingTime = c.core.info.startTradingTime := congrArg TT.Coll.trading h4
      exact ⟨⟨rfl, rfl, rfl, h3⟩, h2, hc, ht⟩
    · exact ⟨⟨rfl, rfl, rfl, rfl⟩, rfl, rfl, rfl⟩
  cases op with
  | sys o =>
    rcases step_sys_cases s o with ⟨vo, sender, msg, rfl, hif, hst⟩ | ⟨vo, rfl, -, hst⟩ | ⟨hp, hst⟩
    · rw [hst] at h
      have hs : sender ≠ m.addr := fun heq => hno m c hmc (by simp [collSender, hif, heq])
      obtain ⟨c', hmc', hfr, hk⟩ := hcoll hs h
      refine ⟨m, c', hmc', hfr, ?_⟩
      rcases iface_burn hif with ⟨id, rfl, hb⟩ | ⟨hnb, hb⟩
      · rcases hk with ⟨id', hx, h2, h3, h4, h5⟩ | ⟨hx, -⟩
        · cases hx
          exact Or.inr (Or.inr (Or.inl ⟨id, hb, h2, h3, h4, rfl, h5⟩))
        · exact absurd rfl (hx id)
      · rcases hk with ⟨id', hx, -⟩ | ⟨-, h2, h3, h4⟩
        · exact absurd hx (hnb id')
        · exact Or.inr (Or.inr (Or.inr ⟨hb, h2, h3, rfl, h4⟩))
    · rw [hst] at h; cases h
    · rw [hst] at h; exact e2e_sysStep hp hi hmc h
  | create sender funds msg w ci =>
    obtain ⟨_, _, _, _, _, _, _, _, hnone, _⟩ := create_parts h
    rw [hmc] at hnone; cases hnone
  | block hh t =>
    simp only [step] at h
    split at h
    · cases h
    · cases h
      exact ⟨m, c, hmc, ⟨rfl, rfl, rfl, rfl⟩, Or.inr (Or.inr (Or.inr ⟨rfl, rfl, rfl, rfl, rfl⟩))⟩
  | collExec sender funds msg =>
    have hs : sender ≠ m.addr := fun heq => hno m c hmc (by simp [collSender, heq])
    obtain ⟨c', hmc', hfr, hk⟩ := hcoll hs h
    refine ⟨m, c', hmc', hfr, ?_⟩
    rcases hk with ⟨id, rfl, h2, h3, h4, h5⟩ | ⟨hx, h2, h3, h4⟩
    · exact Or.inr (Or.inr (Or.inl ⟨id, rfl, h2, h3, h4, rfl, h5⟩))
    · refine Or.inr (Or.inr (Or.inr ⟨?_, h2, h3, rfl, h4⟩))
      cases msg <;> first | rfl | exact absurd rfl (hx _)
  | collMigrateUpdatable =>
    obtain ⟨c', hmc', hfr, h2, h3, h4⟩ := henv (Or.inl rfl) h
    exact ⟨m, c', hmc', hfr, Or.inr (Or.inr (Or.inr ⟨rfl, h2, h3, rfl, h4⟩))⟩
  | collMigrateSelf =>
    obtain ⟨c', hmc', hfr, h2, h3, h4⟩ := henv (Or.inr (Or.inl rfl)) h
    exact ⟨m, c', hmc', hfr, Or.inr (Or.inr (Or.inr ⟨rfl, h2, h3, rfl, h4⟩))⟩
  | collSetVersion v =>
    obtain ⟨c', hmc', hfr, h2, h3, h4⟩ := henv (Or.inr (Or.inr ⟨v, rfl⟩)) h
    exact ⟨m, c', hmc', hfr, Or.inr (Or.inr (Or.inr ⟨rfl, h2, h3, rfl, h4⟩))⟩

end LP.Sys2
