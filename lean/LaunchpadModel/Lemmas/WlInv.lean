import LaunchpadModel.Lemmas.WlLoops
/-!
# C11: the accounting invariant of the list-based whitelists and its preservation by every message
-/
namespace LP.WlMembers
open LP

/-- every key of a map passed `addr_validate` -/
def AllValid (l : List Member) : Prop := ∀ x ∈ keys l, validAddr x = true

/-- The accounting invariant. -/
structure WlInv (s : WL) : Prop where
  /-- `num_members` = number of `(stage, address)` entries actually stored -/
  count_total : s.numMembers = storedTotal s
  /-- flat map: keys strictly ascending, hence distinct -/
  flat_sorted : SortedKeys s.members
  /-- per stage: distinct keys and `MEMBER_COUNT[k]` = number of entries stored under stage `k` -/
  stages_ok : ∀ g ∈ s.stages, SortedKeys g.members ∧ g.count = g.members.length
  capacity : s.kind ≠ .immutable → s.numMembers ≤ s.memberLimit ∧ s.memberLimit ≤ s.kind.maxMembers
  /-- everything ever paid in fees = creation fee of the *current* limit -/
  fees : s.feesPaid = tiers s.memberLimit * s.kind.price
  /-- the contract holds nothing but funds attached to messages that charge no fee -/
  bal : s.bank.bal = s.stray
  /-- every fee left the contract again: burned or forwarded to the fair-burn pool -/
  burnt : s.bank.burned + s.bank.pool = s.feesPaid
  /-- stored addresses are valid ones (the immutable whitelist stores raw strings) -/
  valid : s.kind ≠ .immutable → AllValid s.members ∧ ∀ g ∈ s.stages, AllValid g.members
  /-- the same for every other denom: only what callers attached to fee-less messages -/
  other : s.otherBal = s.strayOther

theorem mustPay_mayPay {funds : List Coin} {d p : Nat} (h : mustPay funds d = .ok p) : mayPay funds d = .ok p ∧ p ≠ 0 := by
  unfold mustPay at h
  split at h
  · rename_i c
    split at h
    · exact absurd h (by simp)
    · rename_i hz
      split at h
      · rename_i hd
        simp only [Except.ok.injEq] at h; subst h
        exact ⟨by simp [mayPay, hd], hz⟩
      · exact absurd h (by simp)
  · exact absurd h (by simp)

theorem checkedFairBurn_exact {funds : List Coin} {self p : Nat} (h : mayPay funds NATIVE = .ok p) (hp : p ≠ 0) :
    Sg1.checkedFairBurn funds self p none = .ok (Sg1.fairBurn self p none) := by
  simp [Sg1.checkedFairBurn, h, hp, bind, Except.bind, pure, Except.pure]

theorem settle_fee (b : Bank) (self p : Nat) :
    ∃ x, x ≤ p ∧ settle b p (Sg1.fairBurn self p none) = .ok { bal := b.bal, burned := b.burned + x, pool := b.pool + (p - x) } := by
  obtain ⟨x, hx, h⟩ := applyMsgs_fairBurn { b with bal := b.bal + p } self p (by simp)
  refine ⟨x, hx, ?_⟩
  unfold settle; rw [h]; simp

/-- a fee-bearing call: exact payment in, all of it out again -/
theorem fee_bank {b bank : Bank} {funds : List Coin} {self fee payment : Nat} {msgs : List Msg}
    (hpay : mayPay funds NATIVE = .ok payment) (hfee : payment = fee)
    (hmsgs : (if fee > 0 then Sg1.checkedFairBurn funds self fee none else .ok []) = .ok msgs)
    (hbank : settle b payment msgs = .ok bank) :
    bank.bal = b.bal ∧ bank.burned + bank.pool = b.burned + b.pool + payment := by
  subst hfee
  by_cases hz : payment > 0
  · rw [if_pos hz, checkedFairBurn_exact hpay (by omega)] at hmsgs
    simp only [Except.ok.injEq] at hmsgs; subst hmsgs
    obtain ⟨x, hx, h⟩ := settle_fee b self payment
    rw [h] at hbank; simp only [Except.ok.injEq] at hbank; subst hbank
    exact ⟨rfl, by simp only []; omega⟩
  · rw [if_neg hz] at hmsgs
    simp only [Except.ok.injEq] at hmsgs; subst hmsgs
    have : payment = 0 := by omega
    subst this
    simp only [settle, applyMsgs, Except.ok.injEq] at hbank; subst hbank
    exact ⟨by simp, by simp⟩

theorem incr_inv {s s' : WL} {al : Bool} {funds : List Coin} {limit : Nat} (hi : WlInv s) (hk : s.kind ≠ .immutable)
    (h : execIncreaseLimit s al funds limit = .ok s') : WlInv s' := by
  unfold execIncreaseLimit at h
  split at h
  · exact absurd h (by simp)
  split at h
  · exact absurd h (by simp)
  split at h
  · exact absurd h (by simp)
  rename_i hg
  simp only [Bool.or_eq_true, decide_eq_true_eq, not_or, Nat.not_le, Nat.not_lt] at hg
  split at h
  · exact absurd h (by simp)
  rename_i payment hpay
  dsimp only at h
  split at h
  · exact absurd h (by simp)
  rename_i hfee
  simp only [ne_eq, Decidable.not_not] at hfee
  split at h
  · exact absurd h (by simp)
  rename_i msgs hmsgs
  split at h
  · exact absurd h (by simp)
  rename_i bank hbank
  simp only [Except.ok.injEq] at h; subst h
  have hb := fee_bank hpay hfee hmsgs hbank
  have hc := hi.capacity hk
  refine ⟨hi.count_total, hi.flat_sorted, hi.stages_ok, fun _ => ⟨by simp only []; omega, hg.2⟩, ?_, ?_, ?_, hi.valid, hi.other⟩
  · simp only []
    rw [hi.fees, hfee]
    exact upgradeFee_telescope s.kind (Nat.le_of_lt hg.1)
  · simp only []; rw [hb.1]; exact hi.bal
  · simp only []; rw [hb.2, hi.burnt]

/-- attaching funds to a message that charges nothing changes the balances and the `stray` ghosts alike -/
theorem tipped_inv {s : WL} (tip : Tip) (hi : WlInv s) : WlInv (tipped s tip) := by
  refine ⟨hi.count_total, hi.flat_sorted, hi.stages_ok, hi.capacity, hi.fees, ?_, hi.burnt, hi.valid, ?_⟩
  · simp only [tipped]; rw [hi.bal]
  · simp only [tipped]; rw [hi.other]

theorem AddSpec.bound_le {cfg limit l n st a n' st' a'} (r : AddSpec cfg limit l n st a n' st' a') :
    st.length ≤ st'.length := by have := r.count; have := r.mono; omega

theorem add_inv {s s' : WL} {al hf : Bool} {tip : Tip} {stage : Nat} {ms : List Member} (hi : WlInv s) (hk : s.kind ≠ .immutable)
    (h : execAddMembers s al hf tip stage ms = .ok s') : WlInv s' := by
  unfold execAddMembers at h
  split at h
  · exact absurd h (by simp)
  dsimp only at h
  have hc := hi.capacity hk
  split at h
  · -- tiered
    split at h
    · exact absurd h (by simp)
    rename_i g hg
    split at h
    · exact absurd h (by simp)
    rename_i num st added hloop
    simp only [Except.ok.injEq] at h; subst h
    have hmem : g ∈ s.stages := List.mem_of_getElem? hg
    have hgok := hi.stages_ok g hmem
    have r := addLoop_spec _ _ _ _ _ _ _ _ _ hgok.1 hloop
    apply tipped_inv
    have hset := stageTotal_set s.stages stage g { g with members := st, count := g.count + added } hg
    have hv := hi.valid hk
    refine ⟨?_, hi.flat_sorted, ?_, fun _ => ⟨r.cap rfl hc.1, hc.2⟩, hi.fees, hi.bal, hi.burnt, fun _ => ⟨hv.1, ?_⟩, hi.other⟩
    rotate_right
    · intro g' hg'
      rcases mem_set_imp _ _ _ _ hg' with e | e
      · subst e
        intro x hx
        rcases (r.mem x).mp hx with h1 | h1
        · exact hv.2 g hmem x h1
        · exact r.valid x h1
      · exact hv.2 g' e
    · have h1 := hi.count_total
      have h2 := r.count
      simp only [storedTotal] at h1 ⊢
      simp only [] at hset
      omega
    · intro g' hg'
      rcases mem_set_imp _ _ _ _ hg' with e | e
      · subst e
        refine ⟨r.sorted, ?_⟩
        have := r.added; have := hgok.2
        simp only []; omega
      · exact hi.stages_ok g' e
  · -- flat
    split at h
    · exact absurd h (by simp)
    rename_i num st added hloop
    simp only [Except.ok.injEq] at h; subst h
    have r := addLoop_spec _ _ _ _ _ _ _ _ _ hi.flat_sorted hloop
    apply tipped_inv
    have hv := hi.valid hk
    refine ⟨?_, r.sorted, hi.stages_ok, fun _ => ⟨r.cap rfl hc.1, hc.2⟩, hi.fees, hi.bal, hi.burnt, fun _ => ⟨?_, hv.2⟩, hi.other⟩
    rotate_right
    · intro x hx
      rcases (r.mem x).mp hx with h1 | h1
      · exact hv.1 x h1
      · exact r.valid x h1
    have h1 := hi.count_total
    have h2 := r.count
    simp only [storedTotal] at h1 ⊢
    omega

theorem RemoveSpec.le {as n st r n' st' r'} (q : RemoveSpec as n st r n' st' r') : n' ≤ n := by
  have := q.count; have := q.shrink; omega

theorem remove_inv {s s' : WL} {al : Bool} {tip : Tip} {stage : Nat} {as : List Nat} (hi : WlInv s) (hk : s.kind ≠ .immutable)
    (h : execRemoveMembers s al tip stage as = .ok s') : WlInv s' := by
  unfold execRemoveMembers at h
  split at h
  · exact absurd h (by simp)
  have hc := hi.capacity hk
  split at h
  · -- tiered
    split at h
    · exact absurd h (by simp)
    rename_i g hg
    split at h
    · exact absurd h (by simp)
    rename_i num st removed hloop
    simp only [Except.ok.injEq] at h; subst h
    have hmem : g ∈ s.stages := List.mem_of_getElem? hg
    have hgok := hi.stages_ok g hmem
    have q := removeLoop_spec _ _ _ _ _ _ _ hgok.1 hloop
    apply tipped_inv
    have hset := stageTotal_set s.stages stage g { g with members := st, count := g.count - removed } hg
    have hv := hi.valid hk
    refine ⟨?_, hi.flat_sorted, ?_, fun _ => ⟨Nat.le_trans q.le hc.1, hc.2⟩, hi.fees, hi.bal, hi.burnt, fun _ => ⟨hv.1, ?_⟩, hi.other⟩
    rotate_right
    · intro g' hg'
      rcases mem_set_imp _ _ _ _ hg' with e | e
      · subst e
        intro x hx
        exact hv.2 g hmem x ((q.mem x).mp hx).1
      · exact hv.2 g' e
    · have h1 := hi.count_total
      have h2 := q.count
      simp only [storedTotal] at h1 ⊢
      simp only [] at hset
      omega
    · intro g' hg'
      rcases mem_set_imp _ _ _ _ hg' with e | e
      · subst e
        refine ⟨q.sorted, ?_⟩
        have := q.removed; have := hgok.2
        simp only []; omega
      · exact hi.stages_ok g' e
  · -- flat
    split at h
    · exact absurd h (by simp)
    rename_i num st removed hloop
    simp only [Except.ok.injEq] at h; subst h
    have q := removeLoop_spec _ _ _ _ _ _ _ hi.flat_sorted hloop
    apply tipped_inv
    have hv := hi.valid hk
    refine ⟨?_, q.sorted, hi.stages_ok, fun _ => ⟨Nat.le_trans q.le hc.1, hc.2⟩, hi.fees, hi.bal, hi.burnt, fun _ => ⟨?_, hv.2⟩, hi.other⟩
    rotate_right
    · intro x hx; exact hv.1 x ((q.mem x).mp hx).1
    have h1 := hi.count_total
    have h2 := q.count
    simp only [storedTotal] at h1 ⊢
    omega

theorem addStage_inv {s s' : WL} {al hf : Bool} {tip : Tip} {ms : List Member} (hi : WlInv s) (hk : s.kind ≠ .immutable)
    (h : execAddStage s al hf tip ms = .ok s') : WlInv s' := by
  unfold execAddStage at h
  split at h
  · exact absurd h (by simp)
  dsimp only at h
  have hc := hi.capacity hk
  split at h
  · exact absurd h (by simp)
  rename_i num st added hloop
  simp only [Except.ok.injEq] at h; subst h
  have r := addLoop_spec _ _ _ _ _ _ _ _ _ sortedKeys_nil hloop
  apply tipped_inv
  have hv := hi.valid hk
  refine ⟨?_, hi.flat_sorted, ?_, fun _ => ⟨r.cap rfl hc.1, hc.2⟩, hi.fees, hi.bal, hi.burnt, fun _ => ⟨hv.1, ?_⟩, hi.other⟩
  rotate_right
  · intro g' hg'
    rcases List.mem_append.mp hg' with e | e
    · exact hv.2 g' e
    · simp only [List.mem_singleton] at e; subst e
      intro x hx
      rcases (r.mem x).mp hx with h1 | h1
      · simp [keys] at h1
      · exact r.valid x h1
  · have h1 := hi.count_total
    have h2 := r.count
    simp only [storedTotal, stageTotal_append, stageTotal_cons, stageTotal_nil] at h1 ⊢
    simp only [List.length_nil] at h2
    omega
  · intro g' hg'
    rcases List.mem_append.mp hg' with e | e
    · exact hi.stages_ok g' e
    · simp only [List.mem_singleton] at e; subst e
      refine ⟨r.sorted, ?_⟩
      simp only []
      by_cases hf' : s.kind.isFlex = true
      · rw [if_pos hf']; have := r.added; simp only [List.length_nil] at this; omega
      · rw [if_neg hf']
        have hf'' : s.kind.isFlex = false := by simpa using hf'
        exact (addLoop_fresh_length hloop (sorted_prep hf'' ms)).symm

theorem removeStage_inv {s s' : WL} {al : Bool} {tip : Tip} {stage : Nat} (hi : WlInv s) (hk : s.kind ≠ .immutable)
    (h : execRemoveStage s al tip stage = .ok s') : WlInv s' := by
  unfold execRemoveStage at h
  split at h
  · exact absurd h (by simp)
  split at h
  · exact absurd h (by simp)
  dsimp only at h
  split at h
  · exact absurd h (by simp)
  rename_i hd
  simp only [Except.ok.injEq] at h; subst h
  have hc := hi.capacity hk
  apply tipped_inv
  have htd := stageTotal_take_drop s.stages stage
  have hv := hi.valid hk
  refine ⟨?_, hi.flat_sorted, ?_, fun _ => ⟨by simp only []; omega, hc.2⟩, hi.fees, hi.bal, hi.burnt,
    fun _ => ⟨hv.1, fun g' hg' => hv.2 g' (List.mem_of_mem_take hg')⟩, hi.other⟩
  · have h1 := hi.count_total
    simp only [storedTotal] at h1 ⊢
    omega
  · intro g' hg'
    exact hi.stages_ok g' (List.mem_of_mem_take hg')

/-- every successful message preserves the invariant -/
theorem exec_inv {s s' : WL} {op : Op} (hi : WlInv s) (h : exec s op = .ok s') : WlInv s' := by
  unfold exec at h
  split at h
  · exact absurd h (by simp)
  rename_i hk
  have hk' : s.kind ≠ .immutable := by
    intro e; rw [e] at hk; exact hk (by decide)
  cases op with
  | addMembers al hf tip stage ms => exact add_inv hi hk' h
  | removeMembers al tip stage as => exact remove_inv hi hk' h
  | addStage al hf tip ms =>
    dsimp only at h
    split at h
    · exact addStage_inv hi hk' h
    · exact absurd h (by simp)
  | removeStage al tip stage =>
    dsimp only at h
    split at h
    · exact removeStage_inv hi hk' h
    · exact absurd h (by simp)
  | increaseLimit al funds limit => exact incr_inv hi hk' h
  | other al tip =>
    dsimp only at h
    split at h
    · simp only [Except.ok.injEq] at h; subst h
      exact tipped_inv _ hi
    · exact absurd h (by simp)


/-! ## Instantiate establishes the invariant -/

theorem sorted_zero_map (l : List Nat) : SortedKeys ((sortDedup l).map (fun a => ((a, 0) : Member))) := by
  unfold SortedKeys; rw [keys_map_zero]; exact sorted_sortDedup _

/-- one member list of an instantiate: the returned count is the number of entries stored -/
theorem instList_spec {k : Kind} {w : Option Nat} {limit : Nat} {ms : List Member} {num : Nat} {st : List Member}
    (h : instList k w limit (prep k ms) = .ok (st, num)) : num = st.length ∧ SortedKeys st ∧ AllValid st := by
  unfold instList at h
  split at h
  · -- flex
    split at h
    · exact absurd h (by simp)
    rename_i n st' a hloop
    simp only [Except.ok.injEq, Prod.mk.injEq] at h
    obtain ⟨rfl, rfl⟩ := h
    have r := addLoop_spec _ _ _ _ _ _ _ _ _ sortedKeys_nil hloop
    have ha := r.added
    simp only [List.length_nil] at ha
    refine ⟨by omega, r.sorted, ?_⟩
    intro x hx
    rcases (r.mem x).mp hx with h1 | h1
    · simp [keys] at h1
    · exact r.valid x h1
  · rename_i hf
    have hf' : k.isFlex = false := by simpa using hf
    split at h
    · exact absurd h (by simp)
    rename_i st' hsave
    simp only [Except.ok.injEq, Prod.mk.injEq] at h
    obtain ⟨rfl, rfl⟩ := h
    have r := saveAll_fresh_length hsave (sorted_prep hf' ms)
    refine ⟨r.2.1.symm, r.1, ?_⟩
    intro x hx
    exact saveAll_valid _ _ _ hsave x ((r.2.2 x).mp hx)

theorem instStages_spec (k : Kind) (w : Option Nat) (limit : Nat) :
    ∀ (mss : List (List Member)) (num : Nat) (gs : List Stage) (n : Nat),
      instStages k w limit mss num = .ok (gs, n) →
      n = num + stageTotal gs ∧ gs.length = mss.length ∧
      (∀ g ∈ gs, SortedKeys g.members ∧ g.count = g.members.length ∧ AllValid g.members) := by
  intro mss
  induction mss with
  | nil =>
    intro num gs n h
    simp only [instStages, Except.ok.injEq, Prod.mk.injEq] at h
    obtain ⟨rfl, rfl⟩ := h
    exact ⟨by simp [stageTotal], rfl, by simp⟩
  | cons ms mss ih =>
    intro num gs n h
    rw [instStages] at h
    split at h
    · exact absurd h (by simp)
    rename_i st added hl
    split at h
    · exact absurd h (by simp)
    rename_i gs' n' hrec
    simp only [Except.ok.injEq, Prod.mk.injEq] at h
    obtain ⟨rfl, rfl⟩ := h
    have r := instList_spec hl
    have q := ih _ _ _ hrec
    refine ⟨?_, by simp [q.2.1], ?_⟩
    · rw [stageTotal_cons]; simp only []; omega
    · intro g hg
      rcases List.mem_cons.mp hg with e | e
      · subst e; exact ⟨r.2.1, r.1, r.2.2⟩
      · exact q.2.2 g e

theorem tiers_zero : tiers 0 = 0 := by decide

/-- a successful instantiate establishes the invariant -/
theorem inst_inv {k : Kind} {m : InstMsg} {s : WL} (h : instantiate k m = .ok s) : WlInv s := by
  unfold instantiate at h
  split at h
  · -- immutable
    split at h
    · exact absurd h (by simp)
    dsimp only at h
    split at h
    · exact absurd h (by simp)
    simp only [Except.ok.injEq] at h; subst h
    have hs := sorted_zero_map (keys m.members)
    refine ⟨?_, (foldl_saveM_spec _ _ sortedKeys_nil).1, by simp, fun hk => absurd rfl hk, ?_, rfl, rfl, fun hk => absurd rfl hk, rfl⟩
    · simp only [storedTotal, stageTotal_nil]; rw [foldl_saveM_fresh_length hs]; rfl
    · simp [tiers_zero]
  · rename_i hk
    split at h
    · exact absurd h (by simp)
    rename_i hlim
    split at h
    · exact absurd h (by simp)
    split at h
    · exact absurd h (by simp)
    dsimp only at h
    split at h
    · exact absurd h (by simp)
    rename_i payment hpay
    split at h
    · exact absurd h (by simp)
    rename_i hfee
    simp only [ne_eq, Decidable.not_not] at hfee
    split at h
    · exact absurd h (by simp)
    rename_i msgs hmsgs
    split at h
    · exact absurd h (by simp)
    rename_i bank hbank
    have hmp := mustPay_mayPay hpay
    rw [← hfee, checkedFairBurn_exact hmp.1 hmp.2] at hmsgs
    simp only [Except.ok.injEq] at hmsgs; subst hmsgs
    obtain ⟨x, hx, hs⟩ := settle_fee emptyBank m.self payment
    rw [hs] at hbank; simp only [Except.ok.injEq] at hbank; subst hbank
    have hl : m.memberLimit ≤ k.maxMembers := by omega
    by_cases ht : k.isTiered = true
    · -- tiered
      simp only [ht, if_true] at h
      split at h
      · exact absurd h (by simp)
      split at h
      · exact absurd h (by simp)
      rename_i gs num hst
      split at h
      · exact absurd h (by simp)
      rename_i hcap
      simp only [Except.ok.injEq] at h; subst h
      have r := instStages_spec _ _ _ _ _ _ _ hst
      refine ⟨?_, sortedKeys_nil, fun g hg => ⟨(r.2.2 g hg).1, (r.2.2 g hg).2.1⟩, fun _ => ⟨?_, hl⟩, ?_, rfl, ?_,
        fun _ => ⟨by intro x hx; simp [keys] at hx, fun g hg => (r.2.2 g hg).2.2⟩, rfl⟩
      · simp only [storedTotal, List.length_nil]; omega
      · simp only []; omega
      · simp only []; rw [hfee]; rfl
      · simp only [emptyBank]; omega
    · have ht' : k.isTiered = false := by simpa using ht
      simp only [ht', Bool.false_eq_true, if_false] at h
      split at h
      · exact absurd h (by simp)
      split at h
      · exact absurd h (by simp)
      rename_i st num hfl
      split at h
      · exact absurd h (by simp)
      rename_i hcap
      simp only [Except.ok.injEq] at h; subst h
      have r := instList_spec hfl
      refine ⟨?_, r.2.1, by simp, fun _ => ⟨by simp only []; omega, hl⟩, ?_, rfl, ?_, fun _ => ⟨r.2.2, by simp⟩, rfl⟩
      · simp only [storedTotal, stageTotal_nil]; omega
      · simp only []; rw [hfee]; rfl
      · simp only [emptyBank]; omega

end LP.WlMembers
