import LaunchpadModel.Model.Merkle
/-!
# Helper lemmas for C14 (core Lean only)

Sorted-pair fold over an abstract hash: completeness and soundness (membership or an explicit collision),
the layered (`rs_merkle`) builder, hex strings, decimal strings.
-/
namespace LP.Merkle

variable (H : Bytes → Bytes)

/-! ## the byte order -/

theorem bytesLe_total (a b : Bytes) : bytesLe a b = true ∨ bytesLe b a = true := by
  induction a generalizing b with
  | nil => left; simp [bytesLe]
  | cons x xs ih =>
    cases b with
    | nil => right; simp [bytesLe]
    | cons y ys =>
      simp only [bytesLe]
      by_cases h1 : x < y
      · left; simp [h1]
      · by_cases h2 : y < x
        · right; simp [h2]
        · have : x = y := by omega
          subst this
          simp only [Nat.lt_irrefl, if_false]
          exact ih ys

theorem bytesLe_antisymm (a b : Bytes) : bytesLe a b = true → bytesLe b a = true → a = b := by
  induction a generalizing b with
  | nil => cases b <;> simp [bytesLe]
  | cons x xs ih =>
    cases b with
    | nil => simp [bytesLe]
    | cons y ys =>
      simp only [bytesLe]
      by_cases h1 : x < y
      · have h2 : ¬ y < x := by omega
        simp [h1, h2]
      · by_cases h2 : y < x
        · simp [h1, h2]
        · have : x = y := by omega
          subst this
          simp only [Nat.lt_irrefl, if_false]
          intro ha hb
          rw [ih ys ha hb]

theorem sortPair_comm (a b : Bytes) : sortPair a b = sortPair b a := by
  unfold sortPair
  by_cases h1 : bytesLe a b = true <;> by_cases h2 : bytesLe b a = true
  · have := bytesLe_antisymm a b h1 h2; subst this; simp
  · simp [h1, h2]
  · simp [h1, h2]
  · rcases bytesLe_total a b with h | h <;> contradiction

theorem sortPair_length (a b : Bytes) : (sortPair a b).length = a.length + b.length := by
  unfold sortPair; split <;> simp [List.length_append] <;> omega

/-! ## fold -/

theorem foldProof_nil (h0 : Bytes) : foldProof H h0 [] = h0 := rfl

theorem foldProof_cons (h0 p : Bytes) (ps : List Bytes) :
    foldProof H h0 (p :: ps) = foldProof H (H (sortPair h0 p)) ps := rfl

theorem foldProof_append (h0 : Bytes) (p q : List Bytes) :
    foldProof H h0 (p ++ q) = foldProof H (foldProof H h0 p) q := by
  simp [foldProof, List.foldl_append]

/-! ## completeness on trees -/

theorem complete (t : Tree) (ds : List Dir) (m : Bytes) (p : List Bytes)
    (h : t.proofOf H ds = some (m, p)) : foldProof H (H m) p = t.root H := by
  induction t generalizing ds m p with
  | leaf m' =>
    cases ds with
    | nil => simp [Tree.proofOf] at h; obtain ⟨rfl, rfl⟩ := h; simp [foldProof, Tree.root]
    | cons d ds => simp [Tree.proofOf] at h
  | node l r ihl ihr =>
    cases ds with
    | nil => simp [Tree.proofOf] at h
    | cons d ds =>
      cases d with
      | L =>
        simp only [Tree.proofOf, Option.map_eq_some_iff] at h
        obtain ⟨⟨m', p'⟩, hp, heq⟩ := h
        simp at heq; obtain ⟨rfl, rfl⟩ := heq
        rw [foldProof_append, ihl ds m' p' hp]
        simp [foldProof, Tree.root]
      | R =>
        simp only [Tree.proofOf, Option.map_eq_some_iff] at h
        obtain ⟨⟨m', p'⟩, hp, heq⟩ := h
        simp at heq; obtain ⟨rfl, rfl⟩ := heq
        rw [foldProof_append, ihr ds m' p' hp]
        simp [foldProof, Tree.root, sortPair_comm]

/-- the leaf a path reaches is a leaf of the tree -/
theorem proofOf_mem (t : Tree) (ds : List Dir) (m : Bytes) (p : List Bytes)
    (h : t.proofOf H ds = some (m, p)) : m ∈ t.leaves := by
  induction t generalizing ds m p with
  | leaf m' =>
    cases ds with
    | nil => simp [Tree.proofOf] at h; simp [Tree.leaves, h.1]
    | cons d ds => simp [Tree.proofOf] at h
  | node l r ihl ihr =>
    cases ds with
    | nil => simp [Tree.proofOf] at h
    | cons d ds =>
      cases d with
      | L =>
        simp only [Tree.proofOf, Option.map_eq_some_iff] at h
        obtain ⟨⟨m', p'⟩, hp, heq⟩ := h
        simp at heq; obtain ⟨rfl, rfl⟩ := heq
        simp [Tree.leaves, ihl ds m' p' hp]
      | R =>
        simp only [Tree.proofOf, Option.map_eq_some_iff] at h
        obtain ⟨⟨m', p'⟩, hp, heq⟩ := h
        simp at heq; obtain ⟨rfl, rfl⟩ := heq
        simp [Tree.leaves, ihr ds m' p' hp]

/-- every leaf has a path (so `complete` covers every listed entry) -/
theorem mem_proofOf (t : Tree) (m : Bytes) (hm : m ∈ t.leaves) :
    ∃ ds p, t.proofOf H ds = some (m, p) := by
  induction t with
  | leaf m' =>
    simp [Tree.leaves] at hm; subst hm
    exact ⟨[], [], rfl⟩
  | node l r ihl ihr =>
    simp only [Tree.leaves, List.mem_append] at hm
    rcases hm with hm | hm
    · obtain ⟨ds, p, h⟩ := ihl hm
      exact ⟨.L :: ds, p ++ [r.root H], by simp [Tree.proofOf, h]⟩
    · obtain ⟨ds, p, h⟩ := ihr hm
      exact ⟨.R :: ds, p ++ [l.root H], by simp [Tree.proofOf, h]⟩

/-! ## soundness on trees -/

/-- an explicit collision of the hash -/
def Collision : Prop := ∃ x y : Bytes, x ≠ y ∧ H x = H y

theorem root_mem_hashes (t : Tree) : t.root H ∈ t.hashes H := by
  cases t <;> simp [Tree.root, Tree.hashes]

/-- If `H x` is a node hash of `t`, then `x` is a node preimage of `t` or there is a collision. -/
theorem hash_mem (t : Tree) (x : Bytes) (h : H x ∈ t.hashes H) :
    x ∈ t.preimages H ∨ Collision H := by
  induction t with
  | leaf m =>
    simp [Tree.hashes] at h
    by_cases hx : x = m
    · left; simp [Tree.preimages, hx]
    · right; exact ⟨x, m, hx, h⟩
  | node l r ihl ihr =>
    simp only [Tree.hashes, List.mem_cons, List.mem_append] at h
    rcases h with h | h | h
    · by_cases hx : x = sortPair (l.root H) (r.root H)
      · left; simp [Tree.preimages, hx]
      · right; exact ⟨x, _, hx, h⟩
    · rcases ihl h with h' | h'
      · left; simp [Tree.preimages, h']
      · right; exact h'
    · rcases ihr h with h' | h'
      · left; simp [Tree.preimages, h']
      · right; exact h'

/-- A preimage that is a concatenation of two digest-sized strings decomposes into node hashes. -/
theorem inner_children (t : Tree) (a b : Bytes) (n : Nat)
    (hlen : ∀ h ∈ t.hashes H, h.length = n) (ha : a.length = n) (hb : b.length = n)
    (hleaf : ∀ m ∈ t.leaves, m.length ≠ 2 * n)
    (h : sortPair a b ∈ t.preimages H) : a ∈ t.hashes H := by
  induction t with
  | leaf m =>
    simp [Tree.preimages] at h
    have : (sortPair a b).length = 2 * n := by rw [sortPair_length]; omega
    exact absurd (h ▸ this) (hleaf m (by simp [Tree.leaves]))
  | node l r ihl ihr =>
    have hl : ∀ h ∈ l.hashes H, h.length = n := fun h hh => hlen h (by simp [Tree.hashes, hh])
    have hr : ∀ h ∈ r.hashes H, h.length = n := fun h hh => hlen h (by simp [Tree.hashes, hh])
    have hlr := hl _ (root_mem_hashes H l)
    have hrr := hr _ (root_mem_hashes H r)
    simp only [Tree.preimages, List.mem_cons, List.mem_append] at h
    rcases h with h | h | h
    · have key : a = l.root H ∨ a = r.root H := by
        unfold sortPair at h
        split at h <;> split at h
        · have := List.append_inj h (by omega); left; exact this.1
        · have := List.append_inj h (by omega); right; exact this.1
        · have := List.append_inj' h (by omega); right; exact this.2
        · have := List.append_inj' h (by omega); left; exact this.2
      rcases key with k | k
      · simp [Tree.hashes, k, root_mem_hashes]
      · simp [Tree.hashes, k, root_mem_hashes]
    · have := ihl hl (fun m hm => hleaf m (by simp [Tree.leaves, hm])) h
      simp [Tree.hashes, this]
    · have := ihr hr (fun m hm => hleaf m (by simp [Tree.leaves, hm])) h
      simp [Tree.hashes, this]

theorem hashes_len (n : Nat) (Hlen : ∀ x, (H x).length = n) (t : Tree) :
    ∀ h ∈ t.hashes H, h.length = n := by
  induction t with
  | leaf m => intro h hh; simp [Tree.hashes] at hh; simp [hh, Hlen]
  | node l r ihl ihr =>
    intro h hh
    simp only [Tree.hashes, List.mem_cons, List.mem_append] at hh
    rcases hh with hh | hh | hh
    · simp [hh, Hlen]
    · exact ihl h hh
    · exact ihr h hh

theorem sound_hash (n : Nat) (Hlen : ∀ x, (H x).length = n) (t : Tree)
    (hleaf : ∀ m ∈ t.leaves, m.length ≠ 2 * n)
    (proof : List Bytes) (hp : ∀ p ∈ proof, p.length = n) (h0 : Bytes) (h0n : h0.length = n)
    (h : foldProof H h0 proof = t.root H) : h0 ∈ t.hashes H ∨ Collision H := by
  induction proof generalizing h0 with
  | nil => left; simp [foldProof] at h; rw [h]; exact root_mem_hashes H t
  | cons p ps ih =>
    have hpn : p.length = n := hp p (by simp)
    have h' : foldProof H (H (sortPair h0 p)) ps = t.root H := by
      simpa [foldProof] using h
    rcases ih (fun q hq => hp q (by simp [hq])) _ (Hlen _) h' with hm | hc
    · rcases hash_mem H t _ hm with hpre | hc
      · left
        exact inner_children H t h0 p n (hashes_len H n Hlen t) h0n hpn hleaf hpre
      · right; exact hc
    · right; exact hc

theorem preimage_cases (t : Tree) (x : Bytes) (n : Nat) (Hlen : ∀ x, (H x).length = n)
    (h : x ∈ t.preimages H) : x ∈ t.leaves ∨ x.length = 2 * n := by
  induction t with
  | leaf m => left; simpa [Tree.preimages, Tree.leaves] using h
  | node l r ihl ihr =>
    simp only [Tree.preimages, List.mem_cons, List.mem_append] at h
    rcases h with h | h | h
    · right; subst h
      have hl : (l.root H).length = n := by cases l <;> simp [Tree.root, Hlen]
      have hr : (r.root H).length = n := by cases r <;> simp [Tree.root, Hlen]
      rw [sortPair_length]; omega
    · rcases ihl h with h | h
      · left; simp [Tree.leaves, h]
      · right; exact h
    · rcases ihr h with h | h
      · left; simp [Tree.leaves, h]
      · right; exact h

/-- Soundness of the fold: an accepted string is a listed member, unless a collision is exhibited. -/
theorem sound (n : Nat) (Hlen : ∀ x, (H x).length = n) (t : Tree)
    (hleaf : ∀ m ∈ t.leaves, m.length ≠ 2 * n)
    (m : Bytes) (hm : m.length ≠ 2 * n)
    (proof : List Bytes) (hp : ∀ p ∈ proof, p.length = n)
    (h : foldProof H (H m) proof = t.root H) : m ∈ t.leaves ∨ Collision H := by
  rcases sound_hash H n Hlen t hleaf proof hp (H m) (Hlen m) h with hh | hc
  · rcases hash_mem H t m hh with hpre | hc
    · rcases preimage_cases H t m n Hlen hpre with hl | hl
      · left; exact hl
      · exact absurd hl hm
    · right; exact hc
  · right; exact hc

/-! ## soundness with the collision located (round 3)

`Collision H` is an existential over ALL byte strings; for a concrete hash with a fixed digest size it is provable by
pigeonhole, which would make a theorem `… ∨ Collision sha256` vacuous. `CollisionIn H S` restricts the colliding pair
to an explicit finite list `S` — below always "the node preimages of the committed tree and the strings this very query
hashed". Finding such a pair IS breaking the hash on inputs the attacker had to produce. -/

/-- a collision of `H` between two members of the list `S` -/
def CollisionIn (S : List Bytes) : Prop := ∃ x ∈ S, ∃ y ∈ S, x ≠ y ∧ H x = H y

theorem CollisionIn.mono {S T : List Bytes} (hsub : ∀ x ∈ S, x ∈ T) (h : CollisionIn H S) : CollisionIn H T := by
  obtain ⟨x, hx, y, hy, hne, heq⟩ := h
  exact ⟨x, hsub x hx, y, hsub y hy, hne, heq⟩

theorem CollisionIn.collision {S : List Bytes} (h : CollisionIn H S) : Collision H := by
  obtain ⟨x, _, y, _, hne, heq⟩ := h
  exact ⟨x, y, hne, heq⟩

/-- `hash_mem` with the partner located: if `H x` is a node hash, `x` is a node preimage or collides with one -/
theorem hash_mem_in (t : Tree) (x : Bytes) (h : H x ∈ t.hashes H) :
    x ∈ t.preimages H ∨ ∃ y ∈ t.preimages H, x ≠ y ∧ H x = H y := by
  induction t with
  | leaf m =>
    simp [Tree.hashes] at h
    by_cases hx : x = m
    · left; simp [Tree.preimages, hx]
    · right; exact ⟨m, by simp [Tree.preimages], hx, h⟩
  | node l r ihl ihr =>
    simp only [Tree.hashes, List.mem_cons, List.mem_append] at h
    rcases h with h | h | h
    · by_cases hx : x = sortPair (l.root H) (r.root H)
      · left; simp [Tree.preimages, hx]
      · right; exact ⟨_, by simp [Tree.preimages], hx, h⟩
    · rcases ihl h with h' | ⟨y, hy, h'⟩
      · left; simp [Tree.preimages, h']
      · right; exact ⟨y, by simp [Tree.preimages, hy], h'⟩
    · rcases ihr h with h' | ⟨y, hy, h'⟩
      · left; simp [Tree.preimages, h']
      · right; exact ⟨y, by simp [Tree.preimages, hy], h'⟩

/-- a node preimage is a listed entry or an inner concatenation -/
theorem preimage_leaf_or_inner (t : Tree) (x : Bytes) (h : x ∈ t.preimages H) : x ∈ t.leaves ∨ x ∈ t.inner H := by
  induction t with
  | leaf m => left; simpa [Tree.preimages, Tree.leaves] using h
  | node l r ihl ihr =>
    simp only [Tree.preimages, List.mem_cons, List.mem_append] at h
    rcases h with h | h | h
    · right; simp [Tree.inner, h]
    · rcases ihl h with h | h
      · left; simp [Tree.leaves, h]
      · right; simp [Tree.inner, h]
    · rcases ihr h with h | h
      · left; simp [Tree.leaves, h]
      · right; simp [Tree.inner, h]

theorem inner_mem_preimages (t : Tree) (x : Bytes) (h : x ∈ t.inner H) : x ∈ t.preimages H := by
  induction t with
  | leaf m => simp [Tree.inner] at h
  | node l r ihl ihr =>
    simp only [Tree.inner, List.mem_cons, List.mem_append] at h
    rcases h with h | h | h
    · simp [Tree.preimages, h]
    · simp [Tree.preimages, ihl h]
    · simp [Tree.preimages, ihr h]

theorem leaf_mem_preimages (t : Tree) (x : Bytes) (h : x ∈ t.leaves) : x ∈ t.preimages H := by
  induction t with
  | leaf m => simpa [Tree.leaves, Tree.preimages] using h
  | node l r ihl ihr =>
    simp only [Tree.leaves, List.mem_append] at h
    rcases h with h | h
    · simp [Tree.preimages, ihl h]
    · simp [Tree.preimages, ihr h]

/-- an inner preimage is the sorted concatenation of two node hashes of the tree -/
theorem inner_spec (t : Tree) (x : Bytes) (h : x ∈ t.inner H) :
    ∃ a b, a ∈ t.hashes H ∧ b ∈ t.hashes H ∧ x = sortPair a b := by
  induction t with
  | leaf m => simp [Tree.inner] at h
  | node l r ihl ihr =>
    simp only [Tree.inner, List.mem_cons, List.mem_append] at h
    rcases h with h | h | h
    · exact ⟨l.root H, r.root H, by simp [Tree.hashes, root_mem_hashes], by simp [Tree.hashes, root_mem_hashes], h⟩
    · obtain ⟨a, b, ha, hb, e⟩ := ihl h
      exact ⟨a, b, by simp [Tree.hashes, ha], by simp [Tree.hashes, hb], e⟩
    · obtain ⟨a, b, ha, hb, e⟩ := ihr h
      exact ⟨a, b, by simp [Tree.hashes, ha], by simp [Tree.hashes, hb], e⟩

theorem inner_length (n : Nat) (Hlen : ∀ x, (H x).length = n) (t : Tree) : ∀ x ∈ t.inner H, x.length = 2 * n := by
  intro x hx
  obtain ⟨a, b, ha, hb, rfl⟩ := inner_spec H t x hx
  rw [sortPair_length, hashes_len H n Hlen t a ha, hashes_len H n Hlen t b hb]; omega

/-- `inner_children` without the side condition on the leaves: a digest-sized `a` whose sorted concatenation with a
digest-sized `b` is an INNER preimage is a node hash -/
theorem inner_children_in (t : Tree) (a b : Bytes) (n : Nat)
    (hlen : ∀ h ∈ t.hashes H, h.length = n) (ha : a.length = n) (hb : b.length = n)
    (h : sortPair a b ∈ t.inner H) : a ∈ t.hashes H := by
  induction t with
  | leaf m => simp [Tree.inner] at h
  | node l r ihl ihr =>
    have hl : ∀ h ∈ l.hashes H, h.length = n := fun h hh => hlen h (by simp [Tree.hashes, hh])
    have hr : ∀ h ∈ r.hashes H, h.length = n := fun h hh => hlen h (by simp [Tree.hashes, hh])
    have hlr := hl _ (root_mem_hashes H l)
    have hrr := hr _ (root_mem_hashes H r)
    simp only [Tree.inner, List.mem_cons, List.mem_append] at h
    rcases h with h | h | h
    · have key : a = l.root H ∨ a = r.root H := by
        unfold sortPair at h
        split at h <;> split at h
        · have := List.append_inj h (by omega); left; exact this.1
        · have := List.append_inj h (by omega); right; exact this.1
        · have := List.append_inj' h (by omega); right; exact this.2
        · have := List.append_inj' h (by omega); left; exact this.2
      rcases key with k | k
      · simp [Tree.hashes, k, root_mem_hashes]
      · simp [Tree.hashes, k, root_mem_hashes]
    · have := ihl hl h
      simp [Tree.hashes, this]
    · have := ihr hr h
      simp [Tree.hashes, this]

theorem foldPreimages_length (n : Nat) (Hlen : ∀ x, (H x).length = n) (ps : List Bytes) (hp : ∀ p ∈ ps, p.length = n)
    (h0 : Bytes) (h0n : h0.length = n) : ∀ x ∈ foldPreimages H h0 ps, x.length = 2 * n := by
  induction ps generalizing h0 with
  | nil => simp [foldPreimages]
  | cons p ps ih =>
    intro x hx
    simp only [foldPreimages, List.mem_cons] at hx
    rcases hx with rfl | hx
    · rw [sortPair_length, h0n, hp p (by simp)]; omega
    · exact ih (fun q hq => hp q (by simp [hq])) _ (Hlen _) x hx

/-- The fold, walked back from the root. Either the start value is a node hash, or one of the strings the fold hashed
collides with a node preimage, or one of them IS a listed entry (a listed entry of `2n` bytes). -/
theorem sound_hash_in (n : Nat) (Hlen : ∀ x, (H x).length = n) (t : Tree)
    (proof : List Bytes) (hp : ∀ p ∈ proof, p.length = n) (h0 : Bytes) (h0n : h0.length = n)
    (h : foldProof H h0 proof = t.root H) :
    h0 ∈ t.hashes H
    ∨ (∃ x ∈ foldPreimages H h0 proof, ∃ y ∈ t.preimages H, x ≠ y ∧ H x = H y)
    ∨ (∃ x ∈ foldPreimages H h0 proof, x ∈ t.leaves) := by
  induction proof generalizing h0 with
  | nil => left; simp [foldProof] at h; rw [h]; exact root_mem_hashes H t
  | cons p ps ih =>
    have hpn : p.length = n := hp p (by simp)
    have h' : foldProof H (H (sortPair h0 p)) ps = t.root H := by simpa [foldProof] using h
    rcases ih (fun q hq => hp q (by simp [hq])) _ (Hlen _) h' with hm | ⟨x, hx, hc⟩ | ⟨x, hx, hl⟩
    · rcases hash_mem_in H t _ hm with hpre | ⟨y, hy, hc⟩
      · rcases preimage_leaf_or_inner H t _ hpre with hl | hi
        · right; right; exact ⟨_, by simp [foldPreimages], hl⟩
        · left; exact inner_children_in H t h0 p n (hashes_len H n Hlen t) h0n hpn hi
      · right; left; exact ⟨_, by simp [foldPreimages], y, hy, hc⟩
    · right; left; exact ⟨x, by simp [foldPreimages, hx], hc⟩
    · right; right; exact ⟨x, by simp [foldPreimages, hx], hl⟩

/-- **Soundness of the fold, every escape spelled out.** If the sorted-pair fold from `H m` over digest-sized proof
elements reaches the root of `t`, then
1. `m` is a listed entry, or
2. two DIFFERENT strings among {node preimages of `t`} ∪ {`m` and the strings this fold hashed} have the same hash, or
3. `m` is itself the preimage of an inner node (the code has no leaf/inner domain separation), or
4. a LISTED entry is byte-for-byte one of the concatenations the fold hashed (a listed entry of `2n` bytes). -/
theorem sound_explicit (n : Nat) (Hlen : ∀ x, (H x).length = n) (t : Tree) (m : Bytes)
    (proof : List Bytes) (hp : ∀ p ∈ proof, p.length = n)
    (h : foldProof H (H m) proof = t.root H) :
    m ∈ t.leaves
    ∨ CollisionIn H (t.preimages H ++ queryPreimages H m proof)
    ∨ m ∈ t.inner H
    ∨ (∃ x ∈ foldPreimages H (H m) proof, x ∈ t.leaves) := by
  rcases sound_hash_in H n Hlen t proof hp (H m) (Hlen m) h with hh | ⟨x, hx, y, hy, hne, heq⟩ | hl
  · rcases hash_mem_in H t m hh with hpre | ⟨y, hy, hne, heq⟩
    · rcases preimage_leaf_or_inner H t m hpre with hl | hi
      · left; exact hl
      · right; right; left; exact hi
    · right; left
      exact ⟨m, by simp [queryPreimages], y, by simp [hy], hne, heq⟩
  · right; left
    exact ⟨x, by simp [queryPreimages, hx], y, by simp [hy], hne, heq⟩
  · right; right; right; exact hl

/-- with the length side conditions (no listed entry and not the queried string has `2n` bytes) only 1 and 2 remain -/
theorem sound_in (n : Nat) (Hlen : ∀ x, (H x).length = n) (t : Tree)
    (hleaf : ∀ m ∈ t.leaves, m.length ≠ 2 * n) (m : Bytes) (hm : m.length ≠ 2 * n)
    (proof : List Bytes) (hp : ∀ p ∈ proof, p.length = n)
    (h : foldProof H (H m) proof = t.root H) :
    m ∈ t.leaves ∨ CollisionIn H (t.preimages H ++ queryPreimages H m proof) := by
  rcases sound_explicit H n Hlen t m proof hp h with h1 | h2 | h3 | ⟨x, hx, hl⟩
  · left; exact h1
  · right; exact h2
  · exact absurd (inner_length H n Hlen t m h3) hm
  · exact absurd (foldPreimages_length H n Hlen proof hp (H m) (Hlen m) x hx) (hleaf x hl)

/-! ## the layered builder -/

theorem pairUp_length (l : List Bytes) : (pairUp H l).length = (l.length + 1) / 2 := by
  fun_induction pairUp H l with
  | case1 a b rest ih => simp [ih]; omega
  | case2 a => simp
  | case3 => simp

theorem pairUpT_length (l : List Tree) : (pairUpT l).length = (l.length + 1) / 2 := by
  fun_induction pairUpT l with
  | case1 a b rest ih => simp [ih]; omega
  | case2 a => simp
  | case3 => simp

theorem pairUpT_roots (ts : List Tree) : (pairUpT ts).map (Tree.root H) = pairUp H (ts.map (Tree.root H)) := by
  fun_induction pairUpT ts with
  | case1 a b rest ih => simp [pairUp, Tree.root, ih]
  | case2 a => simp [pairUp]
  | case3 => simp [pairUp]

theorem pairUpT_leaves (ts : List Tree) : (pairUpT ts).flatMap Tree.leaves = ts.flatMap Tree.leaves := by
  fun_induction pairUpT ts with
  | case1 a b rest ih => simp [Tree.leaves, ih]
  | case2 a => simp
  | case3 => simp

/-- number of nodes `k` layers up -/
def halves : Nat → Nat → Nat
  | 0, n => n
  | k + 1, n => halves k ((n + 1) / 2)

theorem halves_one (k n : Nat) (h1 : 1 ≤ n) (h2 : n ≤ 2 ^ k) : halves k n = 1 := by
  induction k generalizing n with
  | zero => simp at h2; simp [halves]; omega
  | succ k ih =>
    simp only [halves]
    apply ih
    · omega
    · rw [Nat.pow_succ] at h2; omega

theorem lt_pow_bitLen (n : Nat) : n < 2 ^ bitLen n := by
  unfold bitLen
  split
  · next h => subst h; simp
  · exact Nat.lt_log2_self

theorem halves_bitLen (n : Nat) (h : 1 ≤ n) : halves (bitLen n) n = 1 :=
  halves_one _ _ h (Nat.le_of_lt (lt_pow_bitLen n))

/-- `treeFrom` computes a tree over exactly the given leaves whose root is `rootFrom` of the roots -/
theorem treeFrom_spec (k : Nat) (ts : List Tree) (h : halves k ts.length = 1) :
    ∃ t, treeFrom k ts = some t ∧ t.leaves = ts.flatMap Tree.leaves ∧
      rootFrom H k (ts.map (Tree.root H)) = some (t.root H) := by
  induction k generalizing ts with
  | zero =>
    simp only [halves] at h
    match ts, h with
    | [t], _ => exact ⟨t, by simp [treeFrom, rootFrom]⟩
  | succ k ih =>
    simp only [halves] at h
    have := ih (pairUpT ts) (by rw [pairUpT_length]; exact h)
    obtain ⟨t, h1, h2, h3⟩ := this
    refine ⟨t, by simpa [treeFrom] using h1, by rw [h2, pairUpT_leaves], ?_⟩
    simp only [rootFrom]
    rw [← pairUpT_roots]; exact h3

theorem layersFrom_getLast (k : Nat) (l : List Bytes) :
    layersRoot (layersFrom H k l) = rootFrom H k l := by
  induction k generalizing l with
  | zero => simp [layersFrom, layersRoot, rootFrom]
  | succ k ih =>
    have hne : layersFrom H k (pairUp H l) ≠ [] := by cases k <;> simp [layersFrom]
    have := ih (pairUp H l)
    simp only [layersRoot] at this ⊢
    simp only [layersFrom, rootFrom, List.getLast?_cons_of_ne_nil hne] at *
    exact this

theorem layeredRoot_eq (members : List Bytes) :
    layeredRoot H members = rootFrom H (bitLen members.length) (members.map H) := by
  simp [layeredRoot, treeLayers, layersFrom_getLast]

theorem sib_cons2 (a b : Bytes) (rest : List Bytes) (j : Nat) : sib (a :: b :: rest) (j + 2) = sib rest j := by
  unfold sib
  have : (j + 2) % 2 = j % 2 := by omega
  rw [this]
  split
  · simp
  · have : j + 2 - 1 = (j - 1) + 2 := by omega
    rw [this]; simp

/-- one layer: the parent of node `i` is the fold of node `i` with its sibling (if any) -/
theorem pairUp_get (l : List Bytes) (i : Nat) (x : Bytes) (hx : l[i]? = some x) :
    (pairUp H l)[i / 2]? = some (foldProof H x (sib l i).toList) := by
  fun_induction pairUp H l generalizing i with
  | case1 a b rest ih =>
    match i with
    | 0 => simp at hx; subst hx; simp [sib, foldProof]
    | 1 => simp at hx; subst hx; simp [sib, foldProof, sortPair_comm]
    | j + 2 =>
      have hx' : rest[j]? = some x := by simpa using hx
      have : (j + 2) / 2 = j / 2 + 1 := by omega
      rw [this, sib_cons2]
      simpa using ih j hx'
  | case2 a =>
    match i with
    | 0 => simp at hx; subst hx; simp [sib, foldProof]
    | j + 1 => simp at hx
  | case3 => simp at hx

/-- the layered proof of leaf `i` folds to the layered root -/
theorem layers_complete (k : Nat) (l : List Bytes) (i : Nat) (x : Bytes) (hx : l[i]? = some x)
    (h : halves k l.length = 1) :
    rootFrom H k l = some (foldProof H x (proofAt (layersFrom H k l) i)) := by
  induction k generalizing l i x with
  | zero =>
    simp only [halves] at h
    match l, h with
    | [y], _ =>
      match i with
      | 0 => simp at hx; subst hx; simp [rootFrom, layersFrom, proofAt, sib, foldProof]
      | j + 1 => simp at hx
  | succ k ih =>
    simp only [halves] at h
    have h' := ih (pairUp H l) (i / 2) _ (pairUp_get H l i x hx) (by rw [pairUp_length]; exact h)
    simp only [rootFrom, layersFrom, proofAt, foldProof_append]
    exact h'

/-! ## hex -/

theorem hexVal_hexDigit (n : Nat) (h : n < 16) : hexVal (hexDigit n) = some n := by
  unfold hexDigit hexVal
  split
  · have : 48 ≤ 48 + n ∧ 48 + n ≤ 57 := by omega
    simp [this]
  · have h1 : ¬ (48 ≤ 87 + n ∧ 87 + n ≤ 57) := by omega
    have h2 : 97 ≤ 87 + n ∧ 87 + n ≤ 102 := by omega
    simp [h1, h2]

theorem hexDecode_hexEncode (bs : Bytes) (h : ∀ b ∈ bs, b < 256) : hexDecode (hexEncode bs) = some bs := by
  induction bs with
  | nil => rfl
  | cons b bs ih =>
    have hb : b < 256 := h b (by simp)
    have ih' := ih (fun x hx => h x (by simp [hx]))
    simp only [hexEncode, hexDecode]
    rw [hexVal_hexDigit (b / 16) (by omega), hexVal_hexDigit (b % 16) (by omega), ih']
    simp; omega

theorem hexDigit_inj (a b : Nat) (h : hexDigit a = hexDigit b) : a = b := by
  unfold hexDigit at h; split at h <;> split at h <;> omega

theorem hexEncode_inj (a b : Bytes) (h : hexEncode a = hexEncode b) : a = b := by
  induction a generalizing b with
  | nil => cases b <;> simp [hexEncode] at h ⊢
  | cons x xs ih =>
    cases b with
    | nil => simp [hexEncode] at h
    | cons y ys =>
      simp only [hexEncode, List.cons.injEq] at h
      obtain ⟨h1, h2, h3⟩ := h
      have := hexDigit_inj _ _ h1
      have := hexDigit_inj _ _ h2
      rw [ih ys h3]
      congr 1; omega

theorem hexDecode_length : ∀ (s : List Nat) (p : Bytes), hexDecode s = some p → s.length = 2 * p.length
  | [], p, h => by simp [hexDecode] at h; subst h; rfl
  | [_], p, h => by simp [hexDecode] at h
  | a :: b :: rest, p, h => by
    simp only [hexDecode] at h
    split at h
    · next x y r h1 h2 h3 =>
      simp at h; subst h
      have := hexDecode_length rest r h3
      simp [this]; omega
    · simp at h

theorem hexDecode_chars : ∀ (s : List Nat) (p : Bytes), hexDecode s = some p → ∀ c ∈ s, (hexVal c).isSome
  | [], p, h => by simp
  | [_], p, h => by simp [hexDecode] at h
  | a :: b :: rest, p, h => by
    simp only [hexDecode] at h
    split at h
    · next x y r h1 h2 h3 =>
      intro c hc
      simp only [List.mem_cons] at hc
      rcases hc with rfl | rfl | hc
      · simp [h1]
      · simp [h2]
      · exact hexDecode_chars rest r h3 c hc
    · simp at h

theorem hexDecode_of_chars (s : List Nat) (k : Nat) (hl : s.length = 2 * k) (hc : ∀ c ∈ s, (hexVal c).isSome) :
    ∃ p, hexDecode s = some p ∧ p.length = k := by
  induction k generalizing s with
  | zero =>
    have : s = [] := List.eq_nil_of_length_eq_zero (by omega)
    subst this; exact ⟨[], rfl, rfl⟩
  | succ k ih =>
    match s, hl with
    | a :: b :: rest, hl =>
      have hr : rest.length = 2 * k := by simp at hl; omega
      obtain ⟨r, h3, h4⟩ := ih rest hr (fun c hcc => hc c (by simp [hcc]))
      obtain ⟨x, h1⟩ := Option.isSome_iff_exists.mp (hc a (by simp))
      obtain ⟨y, h2⟩ := Option.isSome_iff_exists.mp (hc b (by simp))
      exact ⟨(x * 16 + y) :: r, by simp [hexDecode, h1, h2, h3], by simp [h4]⟩

/-- `valid_hash_string` accepts exactly the strings of `2n` hex characters -/
theorem decodeN_isSome_iff (n : Nat) (s : List Nat) :
    (decodeN n s).isSome ↔ (s.length = 2 * n ∧ ∀ c ∈ s, (hexVal c).isSome) := by
  constructor
  · intro h
    unfold decodeN at h
    split at h
    · next p hp =>
      split at h
      · next hl => exact ⟨by rw [hexDecode_length s p hp, hl], hexDecode_chars s p hp⟩
      · simp at h
    · simp at h
  · rintro ⟨hl, hc⟩
    obtain ⟨p, h1, h2⟩ := hexDecode_of_chars s n hl hc
    simp [decodeN, h1, h2]

theorem decodeN_length (n : Nat) (s : List Nat) (p : Bytes) (h : decodeN n s = some p) : p.length = n := by
  unfold decodeN at h
  split at h
  · split at h
    · next hl => simp at h; subst h; exact hl
    · simp at h
  · simp at h

theorem decodeN_hexEncode (n : Nat) (b : Bytes) (hl : b.length = n) (hb : ∀ x ∈ b, x < 256) :
    decodeN n (hexEncode b) = some b := by
  simp [decodeN, hexDecode_hexEncode b hb, hl]

theorem mapM_decodeN_length (n : Nat) (ss : List (List Nat)) (ps : List Bytes)
    (h : ss.mapM (decodeN n) = some ps) : ∀ p ∈ ps, p.length = n := by
  induction ss generalizing ps with
  | nil => simp at h; subst h; simp
  | cons s ss ih =>
    simp only [List.mapM_cons, Option.bind_eq_bind, Option.bind_eq_some_iff] at h
    obtain ⟨p, hp, rest, hrest, hps⟩ := h
    simp at hps; subst hps
    intro q hq
    simp only [List.mem_cons] at hq
    rcases hq with rfl | hq
    · exact decodeN_length n s q hp
    · exact ih rest hrest q hq

theorem mapM_decodeN_hexEncode (n : Nat) (ps : List Bytes) (hl : ∀ p ∈ ps, p.length = n)
    (hb : ∀ p ∈ ps, ∀ x ∈ p, x < 256) : (ps.map hexEncode).mapM (decodeN n) = some ps := by
  induction ps with
  | nil => rfl
  | cons p ps ih =>
    simp only [List.map_cons, List.mapM_cons]
    rw [decodeN_hexEncode n p (hl p (by simp)) (hb p (by simp)),
      ih (fun q hq => hl q (by simp [hq])) (fun q hq => hb q (by simp [hq]))]
    rfl

theorem mapM_none_of_mem (n : Nat) (ss : List (List Nat)) (s : List Nat) (hs : s ∈ ss)
    (h : decodeN n s = none) : ss.mapM (decodeN n) = none := by
  induction ss with
  | nil => simp at hs
  | cons a ss ih =>
    simp only [List.mem_cons] at hs
    simp only [List.mapM_cons]
    rcases hs with rfl | hs
    · simp [h]
    · cases hda : decodeN n a with
      | none => simp
      | some pa => simp [ih hs]

/-! ## decimal strings and the leaf string -/

theorem decBytes_digits (n : Nat) : ∀ c ∈ decBytes n, isDigit c := by
  fun_induction decBytes n with
  | case1 n h => intro c hc; simp at hc; subst hc; unfold isDigit; omega
  | case2 n h ih =>
    intro c hc
    simp only [List.mem_append, List.mem_singleton] at hc
    rcases hc with hc | rfl
    · exact ih c hc
    · unfold isDigit; omega

theorem decBytes_ne_nil (n : Nat) : decBytes n ≠ [] := by
  unfold decBytes; split <;> simp

theorem decVal_append (l : List Nat) (c : Nat) : decVal (l ++ [c]) = decVal l * 10 + (c - 48) := by
  simp [decVal, List.foldl_append]

theorem decVal_decBytes (n : Nat) : decVal (decBytes n) = n := by
  fun_induction decBytes n with
  | case1 n h => simp [decVal]
  | case2 n h ih => rw [decVal_append, ih]; omega

theorem decBytes_inj (a b : Nat) (h : decBytes a = decBytes b) : a = b := by
  have := congrArg decVal h
  simpa [decVal_decBytes] using this

theorem optDec_digits (o : Option Nat) : ∀ c ∈ optDec o, isDigit c := by
  cases o with
  | none => simp [optDec]
  | some n => exact decBytes_digits n

theorem optDec_inj (a b : Option Nat) (h : optDec a = optDec b) : a = b := by
  cases a <;> cases b <;> simp only [optDec] at h
  · rfl
  · exact absurd h.symm (decBytes_ne_nil _)
  · exact absurd h (decBytes_ne_nil _)
  · rw [decBytes_inj _ _ h]

/-- a digit prefix in front of a string that starts with a non-digit is determined by the whole -/
theorem digit_prefix_unique (d d' x x' : List Nat) (hd : ∀ c ∈ d, isDigit c) (hd' : ∀ c ∈ d', isDigit c)
    (hx : ∃ c r, x = c :: r ∧ ¬ isDigit c) (hx' : ∃ c r, x' = c :: r ∧ ¬ isDigit c)
    (h : d ++ x = d' ++ x') : d = d' ∧ x = x' := by
  induction d generalizing d' with
  | nil =>
    cases d' with
    | nil => exact ⟨rfl, by simpa using h⟩
    | cons c' r' =>
      obtain ⟨c, r, rfl, hc⟩ := hx
      simp at h
      exact absurd (h.1 ▸ hd' c' (by simp)) hc
  | cons c r ih =>
    cases d' with
    | nil =>
      obtain ⟨c', r', rfl, hc'⟩ := hx'
      simp at h
      exact absurd (h.1 ▸ hd c (by simp)) hc'
    | cons c' r' =>
      simp only [List.cons_append, List.cons.injEq] at h
      obtain ⟨h1, h2⟩ := h
      have := ih r' (fun c hc => hd c (by simp [hc])) (fun c hc => hd' c (by simp [hc])) h2
      exact ⟨by rw [h1, this.1], this.2⟩

/-- a number below `10^(k+1)` has at most `k+1` decimal digits -/
theorem decBytes_length_le (k n : Nat) (h : n < 10 ^ (k + 1)) : (decBytes n).length ≤ k + 1 := by
  induction k generalizing n with
  | zero =>
    unfold decBytes
    have : n < 10 := by simpa using h
    simp [this]
  | succ k ih =>
    unfold decBytes
    split
    · simp
    · have : n / 10 < 10 ^ (k + 1) := by
        rw [Nat.pow_succ] at h; omega
      have := ih (n / 10) this
      simp only [List.length_append, List.length_singleton]; omega

/-- a `u32` prints in at most 10 characters -/
theorem optDec_length_le (a : Option Nat) (h : ∀ x, a = some x → x < 2 ^ 32) : (optDec a).length ≤ 10 := by
  cases a with
  | none => simp [optDec]
  | some x =>
    have hx : x < 10 ^ (9 + 1) := Nat.lt_trans (h x rfl) (by decide)
    exact decBytes_length_le 9 x hx

end LP.Merkle
