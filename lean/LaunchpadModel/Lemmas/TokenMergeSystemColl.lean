import LaunchpadModel.Lemmas.TokenMergeSystemInv2
/-!
# Token-merge SYSTEM composite: every collection contract of the system evolves by collection-contract steps

`collAt s a` = the collection contract at address `a` (the target, or a source).  `CoreReach c c'` = `c'` is reached from `c` by
ACCEPTED `Sg721.exec` calls (the entry point `CF.exec` runs on the core; sender, funds, block and message arbitrary).
`coll_step`: over one accepted system step every existing collection stays, its address / name / symbol / legacy item are kept,
and its core moves by `CoreReach` (0, 1 or — the source collection of a deposit — 2 calls).  `coll_born`: a collection that
appears was produced by `Sg721.instantiate`.
-/
namespace LP.SysTM
open LP

/-- the collection contract at address `a`: the target (`m.sg721`) or a source -/
def collAt (s : State) (a : Addr) : Option CF.Coll :=
  match s.mc with
  | some (m, tc) => if a = m.sg721 then some tc else lookup s.srcs a
  | none => lookup s.srcs a

inductive CoreReach : Sg721.State → Sg721.State → Prop
  | refl (c : Sg721.State) : CoreReach c c
  | step {c c' c'' : Sg721.State} (call : Sg721.Call) : CoreReach c c' → Sg721.exec c' call = .ok c'' → CoreReach c c''

theorem CoreReach.one {c c' : Sg721.State} {call : Sg721.Call} (h : Sg721.exec c call = .ok c') : CoreReach c c' :=
  .step call (.refl c) h

theorem CoreReach.trans {x y z : Sg721.State} (h1 : CoreReach x y) (h2 : CoreReach y z) : CoreReach x z := by
  induction h2 with
  | refl => exact h1
  | step call _ hx ih => exact .step call ih hx

/-- same contract (address, cw721 `ContractInfo`, legacy item), core reached by accepted calls -/
def Evolves (c c' : CF.Coll) : Prop :=
  CoreReach c.core c'.core ∧ c'.self = c.self ∧ c'.name = c.name ∧ c'.symbol = c.symbol ∧ c'.legacy = c.legacy

theorem Evolves.refl (c : CF.Coll) : Evolves c c := ⟨.refl _, rfl, rfl, rfl, rfl⟩

theorem Evolves.trans {a b c : CF.Coll} (h1 : Evolves a b) (h2 : Evolves b c) : Evolves a c := by
  obtain ⟨r1, a1, a2, a3, a4⟩ := h1
  obtain ⟨r2, b1, b2, b3, b4⟩ := h2
  exact ⟨r1.trans r2, by rw [b1, a1], by rw [b2, a2], by rw [b3, a3], by rw [b4, a4]⟩

theorem execOn_evolves {s : State} {bank bank' : MintPay.Bank} {c c' : CF.Coll} {sender : Addr} {funds : List Coin} {m : CF.ExecMsg}
    (h : execOn s bank c sender funds m = .ok (bank', c')) : Evolves c c' := by
  obtain ⟨core', hx, rfl⟩ := execOn_ok h
  exact ⟨.one hx, rfl, rfl, rfl, rfl⟩

theorem runSub_evolves {s : State} {bank bank' : MintPay.Bank} {minter : Addr} {c c' : CF.Coll} {msg : Option CF.ExecMsg}
    (h : Sys2.runSub s.block bank minter c msg = .ok (bank', c')) : Evolves c c' := by
  cases msg with
  | none => obtain ⟨_, rfl⟩ := runSub_none h; exact .refl _
  | some m => exact execOn_evolves (runSub_some h)

/-! ## the source table under `setColl` -/

theorem lookup_setColl (l : List (Addr × CF.Coll)) (a b : Addr) (c' : CF.Coll) :
    lookup (setColl l a c') b = if b = a then (lookup l a).map (fun _ => c') else lookup l b := by
  by_cases h : b = a
  · subst h
    simp only [if_true]
    cases hl : lookup l b with
    | none =>
      simp only [Option.map_none]
      induction l with
      | nil => rfl
      | cons x xs ih =>
        obtain ⟨d, e⟩ := x
        unfold lookup at hl
        unfold setColl
        by_cases hd : d = b
        · simp [hd] at hl
        · simp only [hd, if_false] at hl ⊢
          unfold lookup
          simp only [hd, if_false]
          exact ih hl
    | some c => simp only [Option.map_some]; exact lookup_setColl_same c' hl
  · simp only [h, if_false]; exact lookup_setColl_other l c' h

/-- replacing the source at `x` (present as `c`) by an evolved `c'`: every collection address still holds an evolved contract -/
theorem collAt_setSrc {s : State} {x : Addr} {c c' : CF.Coll} {bank : MintPay.Bank} (hx : lookup s.srcs x = some c)
    (he : Evolves c c') (a : Addr) (d : CF.Coll) (hd : collAt s a = some d) :
    ∃ d', collAt { s with bank := bank, srcs := setColl s.srcs x c' } a = some d' ∧ Evolves d d' := by
  unfold collAt at hd ⊢
  simp only
  cases hmc : s.mc with
  | none =>
    simp only [hmc] at hd ⊢
    rw [lookup_setColl]
    by_cases ha : a = x
    · subst ha
      rw [hx] at hd; cases hd
      simp only [if_true, hx, Option.map_some]
      exact ⟨c', rfl, he⟩
    · simp only [ha, if_false]; exact ⟨d, hd, .refl _⟩
  | some p =>
    obtain ⟨m, tc⟩ := p
    simp only [hmc] at hd ⊢
    by_cases ht : a = m.sg721
    · simp only [ht, if_true] at hd ⊢
      cases hd; exact ⟨_, rfl, .refl _⟩
    · simp only [ht, if_false] at hd ⊢
      rw [lookup_setColl]
      by_cases ha : a = x
      · subst ha
        rw [hx] at hd; cases hd
        simp only [if_true, hx, Option.map_some]
        exact ⟨c', rfl, he⟩
      · simp only [ha, if_false]; exact ⟨d, hd, .refl _⟩

/-- replacing the target by an evolved one (minter record arbitrary, `sg721` kept) -/
theorem collAt_setTarget {s s' : State} {m m' : Minter} {tc tc' : CF.Coll} (hmc : s.mc = some (m, tc))
    (hmc' : s'.mc = some (m', tc')) (hsg : m'.sg721 = m.sg721) (hsrc : s'.srcs = s.srcs) (he : Evolves tc tc')
    (a : Addr) (d : CF.Coll) (hd : collAt s a = some d) : ∃ d', collAt s' a = some d' ∧ Evolves d d' := by
  unfold collAt at hd ⊢
  simp only [hmc, hmc', hsg, hsrc] at hd ⊢
  by_cases ht : a = m.sg721
  · simp only [ht, if_true] at hd ⊢
    cases hd; exact ⟨_, rfl, he⟩
  · simp only [ht, if_false] at hd ⊢
    exact ⟨d, hd, .refl _⟩

/-! ## the pieces of `step` -/

theorem hookMinter_sg721 {now : Nat} {m m' : TMF.Minter} {caller sender : Addr} {recipient : Option Addr} {picked : Nat}
    {b : Bool} (h : hookMinter now m caller sender recipient picked = .ok (m', b)) : m'.sg721 = m.sg721 := by
  unfold hookMinter at h
  split at h
  · cases h
  · split at h
    · cases h
    · split at h
      · cases h
      · split at h
        · cases h
        · split at h
          · split at h
            · cases h
            · rename_i m1 hd
              cases h
              obtain ⟨sup, _, _, _, _, rfl⟩ := TMF.deliver_ok hd
              rfl
          · cases h; rfl

theorem hook_coll {s s' : State} {caller sender : Addr} {id : Nat} {recipient : Option Addr} {picked : Nat}
    (h : hook s caller sender id recipient picked = .ok s') (a : Addr) (d : CF.Coll) (hd : collAt s a = some d) :
    ∃ d', collAt s' a = some d' ∧ Evolves d d' := by
  obtain ⟨m, tc, vm', mints, msg, bank1, tc', c, bank2, c', hmc, hhm, _, hrs, hc, hb, rfl⟩ := hook_ok h
  -- first the target, then the source
  have e1 := runSub_evolves hrs
  have e2 := execOn_evolves hb
  let s1 : State := { s with mc := some (ofVm vm', tc') }
  have hsg : (ofVm vm').sg721 = m.sg721 := hookMinter_sg721 hhm
  obtain ⟨d1, hd1, ev1⟩ := collAt_setTarget (s' := s1) hmc rfl hsg rfl e1 a d hd
  obtain ⟨d2, hd2, ev2⟩ := collAt_setSrc (s := s1) (bank := bank2) (x := caller) (c' := c') hc e2 a d1 hd1
  exact ⟨d2, hd2, ev1.trans ev2⟩

theorem collExec_coll {s s' : State} {coll sender : Addr} {funds : List Coin} {msg : CF.ExecMsg}
    (h : collExec s coll sender funds msg = .ok s') (a : Addr) (d : CF.Coll) (hd : collAt s a = some d) :
    ∃ d', collAt s' a = some d' ∧ Evolves d d' := by
  unfold collExec at h
  split at h
  · cases h
  · split at h
    · rename_i mn tc hmc
      split at h
      · rename_i hcoll
        split at h
        · cases h
        · rename_i bank tc' hx
          cases h
          exact collAt_setTarget (s' := { s with bank := bank, mc := some (mn, tc') }) hmc rfl rfl rfl (execOn_evolves hx) a d hd
      · split at h
        · cases h
        · rename_i c hc
          split at h
          · cases h
          · rename_i bank c' hx
            cases h
            exact collAt_setSrc hc (execOn_evolves hx) a d hd
    · split at h
      · cases h
      · rename_i c hc
        split at h
        · cases h
        · rename_i bank c' hx
          cases h
          exact collAt_setSrc hc (execOn_evolves hx) a d hd

theorem tmStep_coll {s s' : State} {op : TMF.Op} (hf : foreignOp op = false) (h : tmStep s op = .ok s')
    (a : Addr) (d : CF.Coll) (hd : collAt s a = some d) : ∃ d', collAt s' a = some d' ∧ Evolves d d' := by
  unfold tmStep at h
  split at h
  · cases h
  · rename_i r hr
    split at h
    · rename_i hmc
      cases h
      refine ⟨d, ?_, .refl _⟩
      unfold collAt at hd ⊢
      simp only [hmc] at hd
      have : (setTm s r r.bank none).mc = none := by
        simp only [setTm]; split <;> simp_all
      simp only [this]
      exact hd
    · rename_i m c hmc
      split at h
      · cases h
      · rename_i msg hmsg
        split at h
        · cases h
        · rename_i bank c' hrs
          cases h
          have htm : (tmfOf s).minter = some (vmOf m c) := by simp [tmfOf, hmc]
          obtain ⟨vm', hvm', hsg, _⟩ := tmf_minter_step hf hr htm
          refine collAt_setTarget (s' := setTm s r bank (some c')) (m' := ofVm vm') (tc' := c') hmc ?_ hsg rfl
            (runSub_evolves hrs) a d hd
          simp only [setTm, hvm']

end LP.SysTM
