import LaunchpadModel.Lemmas.OpenEditionFull
import LaunchpadModel.Model.PriceRules
/-!
# Composite open edition ⟶ C07 aspect model (`LP.PriceRules`, `oe := true`): projection, op translation, forward simulation

As for the vending family the projection maps onto the WHITELIST-FREE part of the aspect world (the aspect model's whitelists
are immutable fixed-window records; the composite sees whitelists only through interface answers): public price, start time,
END time, "has a token cap", the factory's minimum / airdrop price and the clock.  An open edition has no discount: the
projected `discount` is `none` and `lastDiscount` is `0` (what `PriceRules.freshMinter` writes for `oe`).

EVERY message of the family is simulated (`UpdateEndTime` ↦ `PriceRules.Op.updateEnd`).
-/
namespace LP.OE
open LP

def priceVariant : PriceRules.Variant := { oe := true, checkCfgDenom := true, featured := false }

/-- all three crates project onto the same flags, which are those `PriceRules.variantOf` gives the three open-edition kinds -/
theorem priceVariant_eq (k : Nat) (h : 6 ≤ k ∧ k ≤ 8) : PriceRules.variantOf k = priceVariant := by
  obtain ⟨h1, h2⟩ := h
  have : k = 6 ∨ k = 7 ∨ k = 8 := by omega
  rcases this with rfl | rfl | rfl <;> rfl

/-- `feeBps` only enters the aspect model's `mint` op, which is not used; C02 owns the fee -/
def priceFactory (p : Params) : PriceRules.Factory :=
  { minPrice := p.minMintPrice, airdrop := p.airdropMintPrice, feeBps := 0 }

def priceMinter (m : Minter) : PriceRules.Minter :=
  { admin := m.admin, price := m.mintPrice, discount := none, lastDiscount := 0,
    start := m.startTime, stop := m.endTime, hasCap := m.numTokens.isSome, wl := none }

/-- projection onto the C07 aspect world -/
def priceOf (s : State) (m : Minter) : PriceRules.World :=
  { v := priceVariant, now := s.now, fac := priceFactory s.params, wls := [], m := some (priceMinter m) }

/-- the aspect world before the edition exists -/
def priceInit (s : State) : PriceRules.World :=
  { v := priceVariant, now := s.now, fac := priceFactory s.params, wls := [], m := none }

def sudoPriceOps (u : ParamsUpdate) : List PriceRules.Op :=
  (match u.minMintPrice with | some c => [PriceRules.Op.sudoMin c] | none => []) ++
  (match u.airdropMintPrice with | some c => [PriceRules.Op.sudoAirdrop c] | none => [])

/-- composite op ↦ C07 aspect ops -/
def priceOps (s : State) (op : Op) : List PriceRules.Op :=
  if accepted s op then
    match op with
    | .setTime t => [.setTime t]
    | .updateMintPrice sender funds p => [.updateMintPrice sender (!funds.isEmpty) p]
    | .updateStartTime sender funds t => [.updateStart sender (!funds.isEmpty) t]
    | .updateEndTime sender funds t => [.updateEnd sender (!funds.isEmpty) t]
    | .sudoParams u => sudoPriceOps u
    | _ => []
  else []

theorem price_step'_ok {w w' : PriceRules.World} {op : PriceRules.Op} (h : PriceRules.step w op = .ok w') :
    PriceRules.step' w op = w' := by simp [PriceRules.step', h]

theorem price_run_one (w : PriceRules.World) (op : PriceRules.Op) : PriceRules.run w [op] = PriceRules.step' w op := rfl

theorem price_adminOk (m : Minter) : PriceRules.adminOk (priceMinter m) m.admin false = true := by
  simp [PriceRules.adminOk, priceMinter]

/-! ## the admin messages: an accepted composite message is the accepted aspect op -/

theorem price_updateMintPrice {s : State} {m m' : Minter} {sender : Addr} {funds : List Coin} {p : Nat}
    (h : updateMintPrice s m sender funds p = .ok m') :
    PriceRules.step (priceOf s m) (.updateMintPrice sender (!funds.isEmpty) p) = .ok (priceOf s m') := by
  obtain ⟨hfu, hse, hend, hlow, hmin, hnz, rfl⟩ := updateMintPrice_ok h
  subst hfu hse
  have h3 : ¬ p < s.params.minMintPrice.amount := by omega
  cases he : m.endTime with
  | none =>
    cases hn : m.numTokens with
    | none =>
      have hp := hnz hn
      simp [PriceRules.step, PriceRules.updateMintPrice, priceOf, priceMinter, PriceRules.adminOk, priceVariant,
        priceFactory, PriceRules.setMinter, PriceRules.keepDiscount, he, hn, h3, hp]
      exact hlow
    | some n =>
      simp [PriceRules.step, PriceRules.updateMintPrice, priceOf, priceMinter, PriceRules.adminOk, priceVariant,
        priceFactory, PriceRules.setMinter, PriceRules.keepDiscount, he, hn, h3]
      exact hlow
  | some e =>
    have hlt : ¬ e ≤ s.now := by have := ended_false hend e he; omega
    cases hn : m.numTokens with
    | none =>
      have hp := hnz hn
      simp [PriceRules.step, PriceRules.updateMintPrice, priceOf, priceMinter, PriceRules.adminOk, priceVariant,
        priceFactory, PriceRules.setMinter, PriceRules.keepDiscount, he, hn, h3, hp, hlt]
      exact hlow
    | some n =>
      simp [PriceRules.step, PriceRules.updateMintPrice, priceOf, priceMinter, PriceRules.adminOk, priceVariant,
        priceFactory, PriceRules.setMinter, PriceRules.keepDiscount, he, hn, h3, hlt]
      exact hlow

theorem price_updateStart {s : State} {m m' : Minter} {sender : Addr} {funds : List Coin} {t : Nat}
    (h : updateStartTime s m sender funds t = .ok m') :
    PriceRules.step (priceOf s m) (.updateStart sender (!funds.isEmpty) t) = .ok (priceOf s m') := by
  obtain ⟨hfu, hse, hbefore, hnow, hend, rfl⟩ := updateStartTime_ok h
  subst hfu hse
  have h2 : ¬ m.startTime ≤ s.now := by omega
  have h3 : ¬ t < s.now := by omega
  cases he : m.endTime with
  | none =>
    simp [PriceRules.step, PriceRules.updateStart, priceOf, priceMinter, PriceRules.adminOk, priceVariant,
      PriceRules.setMinter, he, h2, h3]
  | some e =>
    have h4 : ¬ e < t := by have := hend e he; omega
    simp [PriceRules.step, PriceRules.updateStart, priceOf, priceMinter, PriceRules.adminOk, priceVariant,
      PriceRules.setMinter, he, h2, h3, h4]

/-- `UpdateEndTime`: an accepted composite message is the accepted aspect `updateEnd` -/
theorem price_updateEnd {s : State} {m m' : Minter} {sender : Addr} {funds : List Coin} {t : Nat}
    (h : updateEndTime s m sender funds t = .ok m') :
    PriceRules.step (priceOf s m) (.updateEnd sender (!funds.isEmpty) t) = .ok (priceOf s m') := by
  obtain ⟨e, hfu, hse, he, hlt, hnow, hst, rfl⟩ := updateEndTime_ok h
  subst hfu hse
  have h1 : ¬ e ≤ s.now := by omega
  have h2 : ¬ t < s.now := by omega
  have h3 : ¬ t < m.startTime := by omega
  simp [PriceRules.step, PriceRules.updateEnd, priceOf, priceMinter, PriceRules.adminOk, priceVariant,
    PriceRules.setMinter, he, h1, h2, h3]

/-- governance: an accepted `sudo UpdateParams` is the accepted `sudoMin` / `sudoAirdrop` ops for the fields it carries (the
open-edition factory does not insist on the native denom for the airdrop price) -/
theorem price_sudo {s : State} {m : Minter} {u : ParamsUpdate} {p : Params} (h : updateParams s.params u = .ok p) :
    PriceRules.run (priceOf s m) (sudoPriceOps u) = priceOf { s with params := p } m := by
  unfold updateParams at h
  peel h
  rename_i minp hminp
  cases h
  unfold VF.nativeOr at hminp
  unfold sudoPriceOps
  cases hu1 : u.minMintPrice with
  | none =>
    simp only [hu1] at hminp; cases hminp
    cases hu2 : u.airdropMintPrice with
    | none => simp [PriceRules.run, priceOf, priceFactory]
    | some c2 =>
      simp [PriceRules.run, PriceRules.step', PriceRules.step, PriceRules.sudoAirdrop, priceOf, priceFactory, priceVariant]
  | some c1 =>
    simp only [hu1] at hminp
    split at hminp
    · rename_i hn1
      cases hminp
      cases hu2 : u.airdropMintPrice with
      | none =>
        simp [PriceRules.run, PriceRules.step', PriceRules.step, PriceRules.sudoMin, priceOf, priceFactory, hn1]
      | some c2 =>
        simp [PriceRules.run, PriceRules.step', PriceRules.step, PriceRules.sudoMin, PriceRules.sudoAirdrop, priceOf,
          priceFactory, priceVariant, hn1]
    · cases hminp

/-- `CreateMinter`: an accepted composite creation is the accepted aspect `create` (price floor and denom, start strictly in
the future, end after start, and the open-edition rule "without a token cap the price and the airdrop price must be non-zero
and an end time given") -/
theorem price_create {s s' : State} {sender : Addr} {funds : List Coin} {msg : CreateMsg} {w : CreateWit}
    (h : step s (.create sender funds msg w) = .ok s') :
    ∃ m', s'.minter = some m' ∧
      PriceRules.step (priceInit s)
        (.create msg.creator msg.mintPrice msg.startTime msg.endTime msg.numTokens.isSome none) = .ok (priceOf s' m') := by
  simp only [step] at h
  obtain ⟨b1, ms, b2, v, m, _, _, hfac, _, hv, hinst, rfl⟩ := createMinter_ok h
  obtain ⟨wl, trading, ck, _, _, _, _, _, rfl⟩ := instantiateMinter_ok hinst
  refine ⟨_, rfl, ?_⟩
  obtain ⟨_, _, _, _, hval⟩ := factoryChecks_ok hfac
  obtain ⟨_, _, _, _, hstart, hend, hsome, hamt, hden, hpz, haz⟩ := validateInit_ok hval
  have hnow : s.now < msg.startTime := hstart
  have hok : PriceRules.createOk (priceInit s) msg.mintPrice msg.startTime msg.endTime msg.numTokens.isSome none = true := by
    cases he : msg.endTime with
    | none =>
      cases hn : msg.numTokens with
      | none => rw [he, hn] at hsome; simp at hsome
      | some n =>
        simp [PriceRules.createOk, priceInit, priceVariant, priceFactory, PriceRules.createWlOk, hden, hamt, hnow]
    | some e =>
      have hlt := hend e he
      cases hn : msg.numTokens with
      | none =>
        have h1 := hpz hn
        have h2 := haz hn
        simp [PriceRules.createOk, priceInit, priceVariant, priceFactory, PriceRules.createWlOk, hden, hamt, hnow, hlt, h1, h2]
      | some n =>
        simp [PriceRules.createOk, priceInit, priceVariant, priceFactory, PriceRules.createWlOk, hden, hamt, hnow, hlt]
  simp only [PriceRules.step, PriceRules.createMinter]
  rw [if_pos hok]
  simp [PriceRules.setMinter, PriceRules.freshMinter, priceInit, priceOf, priceMinter, priceVariant]

end LP.OE
