import LaunchpadModel.Lemmas.BaseFull
import LaunchpadModel.Model.GovWorld
/-!
# Base composite ⟶ C18 aspect model (`LP.Gov`, Model/Governance.lean + GovWorld.lean, factory kind `b`)

Projection `govOf` (the factory's params as `Gov.Params.b`, the minter — if any — in slot 0 with its CAPTURED price and its
status), translation `govOps` (`sudo UpdateParams` ↦ `upd`, `migrate` ↦ `mig`, `sudo UpdateStatus` ↦ `status`; an ACCEPTED
`CreateMinter` / `Mint` / `UpdateStartTradingTime` ↦ the aspect op evaluated against the params in force; a rejected one ↦
nothing: forward simulation with stuttering, because `Gov` deliberately leaves out the checks that do not read a governance
parameter — authorisation, URL syntax, collection ownership, the payer's balance).
-/
namespace LP.BF
open LP

def govParams (p : Params) : Gov.Params :=
  .b { codeId := p.codeId, allowed := p.allowed, frozen := p.frozen, creationFee := p.creationFee,
       minMintPrice := p.minMintPrice, mintFeeBps := p.mintFeeBps, maxTradingOffsetSecs := p.maxTradingOffsetSecs,
       ext := p.ext }

def govUpd (u : ParamsUpdate) : Gov.AnyUpd :=
  { codeId := u.codeId, addIds := u.addCodes, rmIds := u.rmCodes, frozen := u.frozen, creationFee := u.creationFee,
    minMintPrice := u.minMintPrice, mintFeeBps := u.mintFeeBps, maxTradingOffsetSecs := u.maxTradingOffsetSecs,
    extUnit := u.ext }

def govStatus (st : VF.Status) : Gov.Status := ⟨st.verified, st.blocked, st.explicit⟩

def govRec (m : Minter) : Gov.MinterRec :=
  { kind := .base, price := m.mintPrice, numTokens := none, mintable := none, pal := 0, start := m.createdAt,
    status := govStatus m.status }

def govOf (s : State) : Gov.World :=
  { params := govParams s.params,
    minters := match s.minter with
      | none => []
      | some m => [(0, govRec m)] }

def govCreateArgs (s : State) (funds : List Coin) (msg : CreateMsg) : Gov.CreateArgs :=
  { sg721 := msg.collCode, numTokens := none, pal := 0, price := ⟨NATIVE, 0⟩, funds := funds, start := 0, now := s.now,
    stt := msg.trading }

/-- composite op ↦ C18 aspect ops -/
def govOps (s : State) (op : Op) : List Gov.Op :=
  match op with
  | .sudoParams u => [.upd (govUpd u)]
  | .migrate _ u => if accepted s op then [.mig (u.map govUpd)] else []
  | .sudoStatus v b e => [.status 0 v b e]
  | .create _ funds msg _ => if accepted s op then [.create 0 (govCreateArgs s funds msg)] else []
  | .mint _ funds _ _ => if accepted s op then [.mint 0 s.now funds] else []
  | .updateStartTradingTime _ _ t => if accepted s op then [.ustt 0 s.now t] else []
  | _ => []

/-- the case's code tables as `Gov` sees them: `e.kindOf` says "base minter" exactly for the composite's base-minter codes, and
`e.colls` are exactly the codes the composite knows as collections -/
def EnvAgrees (e : Gov.Env) (c : VF.Codes) : Prop :=
  (∀ code, c.minters.contains code = true → e.kindOf code = some .base) ∧
  (∀ code, (variantOf c code).isSome = true → e.colls.contains code = true)

/-! ## the two transcriptions of `update_params` agree -/

theorem dedup_eq (l : List Nat) : Gov.dedup l = VF.dedupAdj l := by
  induction l using Gov.dedup.induct <;> simp_all [Gov.dedup, VF.dedupAdj]

theorem applyIds_eq (allowed : List Nat) (add rm : Option (List Nat)) :
    Gov.applyIds allowed add rm = VF.updateAllowed allowed add rm := by
  unfold Gov.applyIds Gov.removeEach VF.updateAllowed
  rw [dedup_eq]

theorem sudo_eq (p : Params) (u : ParamsUpdate) :
    (govParams p).sudo (govUpd u) = (updateParams p u).map govParams := by
  unfold govParams Gov.Params.sudo Gov.sudoBase Gov.updateParams updateParams VF.nativeOr Gov.nativeOrNone
  cases hmin : u.minMintPrice with
  | none => simp [govUpd, Gov.AnyUpd.toBase, Gov.AnyUpd.base, hmin, applyIds_eq, Except.map]
  | some c =>
    by_cases hd : c.denom = NATIVE
    · simp [govUpd, Gov.AnyUpd.toBase, Gov.AnyUpd.base, hmin, hd, applyIds_eq, Except.map]
    · simp [govUpd, Gov.AnyUpd.toBase, Gov.AnyUpd.base, hmin, hd, Except.map]

/-! ## fee messages: the amounts do not depend on the emitting contract, and an executed list has no zero amount -/

theorem fairBurn_amounts (a b : Addr) (fee : Nat) :
    (Sg1.fairBurn b fee none).map Msg.amount = (Sg1.fairBurn a fee none).map Msg.amount := by
  unfold Sg1.fairBurn
  simp only []
  generalize mulFloor fee (percent Gen.sg1_FEE_BURN_PERCENT) = B
  rfl

theorem checkedFairBurn_amounts (funds : List Coin) (a b : Addr) (fee : Nat) (ms : List Msg)
    (h : Sg1.checkedFairBurn funds a fee none = .ok ms) :
    ∃ ms', Sg1.checkedFairBurn funds b fee none = .ok ms' ∧ ms'.map Msg.amount = ms.map Msg.amount := by
  unfold Sg1.checkedFairBurn at h ⊢
  cases hp : mayPay funds NATIVE with
  | error e => simp [hp, bind, Except.bind] at h
  | ok pay =>
    simp only [hp, bind, Except.bind] at h ⊢
    by_cases hlt : pay < fee
    · simp [hlt, throw, throwThe, MonadExceptOf.throw] at h
    · simp only [hlt, if_false] at h ⊢
      by_cases h0 : pay ≠ 0
      · simp only [h0, ne_eq, not_false_eq_true, if_true, pure, Except.pure] at h ⊢
        cases h
        exact ⟨_, rfl, fairBurn_amounts a b fee⟩
      · simp only [h0, if_false, pure, Except.pure] at h ⊢
        cases h
        exact ⟨_, rfl, rfl⟩

theorem applyMsg_amount {self : Addr} {b b' : MintPay.Bank} {m : Msg} (h : MintPay.applyMsg self b m = some b') :
    m.amount ≠ 0 := by
  cases m with
  | burn c =>
    simp only [MintPay.applyMsg, MintPay.Bank.burn] at h
    intro h0; simp [Msg.amount] at h0; simp [h0] at h
  | send to c =>
    simp only [MintPay.applyMsg, MintPay.Bank.send] at h
    intro h0; simp [Msg.amount] at h0; simp [h0] at h
  | fundPool x c =>
    simp only [MintPay.applyMsg, MintPay.Bank.send] at h
    intro h0; simp [Msg.amount] at h0; simp [h0] at h

theorem applyMsgs_amounts {self : Addr} : ∀ {ms : List Msg} {b b' : MintPay.Bank},
    MintPay.applyMsgs self b ms = some b' → ∀ m ∈ ms, m.amount ≠ 0 := by
  intro ms
  induction ms with
  | nil => intro b b' _ m hm; cases hm
  | cons x xs ih =>
    intro b b' h m hm
    simp only [MintPay.applyMsgs] at h
    cases hx : MintPay.applyMsg self b x with
    | none => rw [hx] at h; cases h
    | some b1 =>
      rw [hx] at h
      rcases List.mem_cons.1 hm with rfl | hm'
      · exact applyMsg_amount hx
      · exact ih h m hm'

theorem bankOk_of_amounts {ms ms' : List Msg} (he : ms'.map Msg.amount = ms.map Msg.amount) (h : ∀ m ∈ ms, m.amount ≠ 0) :
    Gov.bankOk ms' = .ok ms' := by
  unfold Gov.bankOk
  have : ms'.all (fun m => m.amount != 0) = true := by
    rw [List.all_eq_true]
    intro m hm
    have : m.amount ∈ ms'.map Msg.amount := List.mem_map.2 ⟨m, hm, rfl⟩
    rw [he] at this
    obtain ⟨m0, hm0, e⟩ := List.mem_map.1 this
    have := h m0 hm0
    rw [e] at this
    simpa using this
  simp [this]

end LP.BF
