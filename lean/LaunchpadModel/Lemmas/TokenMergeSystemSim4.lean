import LaunchpadModel.Lemmas.TokenMergeSystemSim3
/-!
# Token-merge SYSTEM composite: `create_exact` (`CreateMinter`) and `srcCreate_exact` (one more source collection = `srcNew`)
-/
namespace LP.SysTM
open LP

theorem ttKind_cfKind (k : TT.CollKind) : Sys2.ttKind (Sys2.cfKind k) = k := by cases k <;> rfl

/-- `instantiate` of a collection without funds moves no coins -/
theorem instantiate_bank {q : CF.State} {b : Sg721.Block} {bank : MintPay.Bank} {k : Sg721.Kind} {sender : Addr} {name symbol : Nat}
    {m : Sg721.InstMsg} {self : Addr} (h : CF.instantiate ⟨b, bank, none⟩ k sender [] name symbol m self = .ok q) :
    q.bank = bank := by
  obtain ⟨b1, core, _, hb, _, rfl⟩ := CF.instantiate_ok h
  simp only [MintPay.Bank.sendFunds, Option.some.injEq] at hb
  exact hb.symm

/-- **the view is exact over `CreateMinter`**: with `collOk := true` — which the simplified interface took from outside and
which holds here BECAUSE the collection's own `instantiate` accepted — the `TMF` result is `tmfOf` of the system's post-state:
the empty token table and the record `TT.Coll.init` are the view of the freshly instantiated collection contract. -/
theorem create_exact {s s' : State} {sender : Addr} {funds : List Coin} {msg : TMF.CreateMsg} {w : TMF.CreateWit}
    {ci : Sys2.CollInit} (h : create s sender funds msg w ci = .ok s') :
    TMF.step (tmfOf s) (.create sender funds { msg with collOk := true } w) = .ok (tmfOf s') := by
  unfold create at h
  split at h
  · cases h
  · rename_i r hr
    rw [hr]
    congr 1
    split at h
    · cases h
    · rename_i vm hvm
      split at h
      · cases h
      · split at h
        · cases h
        · rename_i q hq
          cases h
          have hqb := instantiate_bank hq
          simp only [TMF.step] at hr
          obtain ⟨b1, ms, b2, m0, _, _, _, _, _, him, rfl⟩ := TMF.createMinter_ok hr
          simp only [Option.some.injEq] at hvm
          subst hvm
          obtain ⟨trading, sup, ck, _, _, _, _, _, hsup, _, _, rfl⟩ := TMF.instantiateMinter_ok him
          obtain ⟨_, rfl⟩ := Supply.Fixed.init_spec hsup
          obtain ⟨b3, core, _, _, hcore, rfl⟩ := CF.instantiate_ok hq
          simp only [Sg721.instantiate, Sg721.ensure_ok] at hcore
          obtain ⟨_, _, _, _, _, _, _, _, hc⟩ := hcore
          cases hc
          simp only at hqb
          simp only [tmfOf, setTm, Option.map_some, vmOf, ofVm, Sys2.tokView, Sys2.ttView, ttKind_cfKind, Sys2.instMsg,
            TT.Coll.init, Supply.Coll.empty, List.map_nil, List.reverse_nil, hqb]

/-- **one more source collection is `srcNew`**: the environment op of `TMF` "an address becomes a source sg721 contract" is the
instantiation of a fresh sg721 contract (no tokens, `num_tokens = 0`) -/
theorem srcCreate_exact {s s' : State} {k : Sg721.Kind} {sender : Addr} {name symbol : Nat} {m : Sg721.InstMsg} {self : Addr}
    (h : srcCreate s k sender name symbol m self = .ok s') : TMF.step (tmfOf s) (.srcNew self) = .ok (tmfOf s') := by
  have key : ∀ (hfresh : lookup s.srcs self = none) (q : CF.State) (c : CF.Coll),
      CF.instantiate ⟨s.block, s.bank, none⟩ k sender [] name symbol m self = .ok q → q.coll = some c →
      TMF.step (tmfOf s) (.srcNew self) = .ok (tmfOf { s with bank := q.bank, srcs := (self, c) :: s.srcs }) := by
    intro hfresh q c hq hqc
    have hqb := instantiate_bank hq
    obtain ⟨b3, core, _, _, hcore, rfl⟩ := CF.instantiate_ok hq
    simp only [Option.some.injEq] at hqc
    subst hqc
    simp only [Sg721.instantiate, Sg721.ensure_ok] at hcore
    obtain ⟨_, _, _, _, _, _, _, _, hc⟩ := hcore
    cases hc
    simp only at hqb
    simp only [TMF.step, tmfOf, hqb]
    congr 2
    unfold srcsView
    congr 1
    · funext a i
      simp only [lookup]
      by_cases ha : self = a
      · subst ha; simp [hfresh, ownerIn, Sg721.State.find?]
      · simp [ha]
    · funext a
      simp only [lookup]
      by_cases ha : self = a
      · subst ha; simp [hfresh]
      · simp [ha]
  unfold srcCreate at h
  cases hmc : s.mc with
  | none =>
    simp only [hmc] at h
    split at h
    · cases h
    · rename_i hfr
      simp only [Bool.false_eq_true, if_false] at h
      split at h
      · cases h
      · split at h
        · cases h
        · rename_i q hq
          split at h
          · cases h
          · rename_i c hqc
            cases h
            have hfr' : lookup s.srcs self = none := by
              cases hl : lookup s.srcs self with
              | none => rfl
              | some c => simp [hl] at hfr
            have hk := key hfr' q c hq hqc
            rw [hk]
            simp only [tmfOf, hmc]
  | some p =>
    obtain ⟨mn, tc⟩ := p
    simp only [hmc] at h
    split at h
    · cases h
    · rename_i hfr
      split at h
      · cases h
      · split at h
        · cases h
        · split at h
          · cases h
          · rename_i q hq
            split at h
            · cases h
            · rename_i c hqc
              cases h
              have hfr' : lookup s.srcs self = none := by
                cases hl : lookup s.srcs self with
                | none => rfl
                | some c => simp [hl] at hfr
              have hk := key hfr' q c hq hqc
              rw [hk]
              simp only [tmfOf, hmc]

end LP.SysTM
