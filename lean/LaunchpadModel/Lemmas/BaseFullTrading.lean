import LaunchpadModel.Lemmas.BaseFull
import LaunchpadModel.Props.C19
/-!
# Base composite ⟶ C19 aspect model (`LP.TT`, family `base`): projection, translation, simulation

The composite embeds `TT.Coll` (the collection's ownership / creator / frozen / trading-time record) and transcribes
`execute_update_start_trading_time` on its own (`BF.updateStartTradingTime`, `BF.tradingInPast`); the aspect model's
`TT.updTrading` with `family = base` is shown to compute the same thing — same verdict, same post-state — so the simulation is
FUNCTIONAL for every message (no stuttering except for a refused clock step / governance update, which have no aspect op).
-/
namespace LP.BF
open LP

/-- base-minter has no admin and no mint start of its own: `admin` = the creator named at creation (a constant, never read by
the aspect model for this family), `mintStart = 0` as `TT.mkMinter` does -/
def ttMinter (m : Minter) : TT.Minter := { admin := m.collAdmin, mintStart := 0, endTime := none }

def ttOf (s : State) (m : Minter) : TT.World :=
  { family := .base, now := s.now, offset := s.params.maxTradingOffsetSecs, minterAddr := m.addr,
    mc := some (ttMinter m, m.tt) }

def ttOps (s : State) (op : Op) : List TT.Op :=
  match op with
  | .setTime t => if accepted s op then [.setTime t] else []
  | .sudoParams u => if accepted s op then [.sudoOffset u.maxTradingOffsetSecs] else []
  | .migrate _ (some u) => if accepted s op then [.sudoOffset u.maxTradingOffsetSecs] else []
  | .updateStartTradingTime sender funds t => [.updTrading sender t funds.length]
  | .collTrading sender t => [.collTrading sender t]
  | .collCreator sender new => [.collCreator sender new]
  | .collFreeze sender => [.collFreeze sender]
  | .collOwn sender a => [.collOwn sender a]
  | _ => []

theorem tt_run_one (w : TT.World) (op : TT.Op) : TT.run w [op] = TT.step' w op := rfl

theorem tradingUpdateOk_base (now ms off : Nat) (t : Option Nat) :
    TT.tradingUpdateOk .base now ms off t = !tradingInPast now t := by
  unfold TT.tradingUpdateOk tradingInPast
  cases t with
  | none => rfl
  | some x => by_cases h : now > x <;> simp [h]

/-- `UpdateStartTradingTime`: the two transcriptions agree (verdict and post-state) -/
theorem tt_updTrading (s : State) (m : Minter) (sender : Addr) (funds : List Coin) (t : Option Nat) :
    TT.updTrading (ttOf s m) sender t funds.length =
      (updateStartTradingTime s m sender funds t).map (fun m' => ttOf s m') := by
  unfold TT.updTrading updateStartTradingTime ttOf
  simp only [TT.adminOf, if_true, tradingUpdateOk_base]
  cases funds with
  | cons c cs => simp [nonpayable, Except.map]
  | nil =>
    simp only [List.length_nil, ne_eq, not_true_eq_false, if_false, nonpayable, List.isEmpty_nil, if_true]
    by_cases hs : sender = m.tt.creator
    · simp only [hs, ne_eq, not_true_eq_false, if_false]
      cases hp : tradingInPast s.now t with
      | true => simp [Except.map]
      | false =>
        simp only [Bool.not_false, Bool.true_eq_false, if_false, Bool.false_eq_true]
        cases hu : m.tt.updateTrading m.addr t with
        | error e => simp [Except.map]
        | ok c => simp [Except.map, ttMinter]
    · simp [hs, Except.map]

theorem tt_onColl (s : State) (m : Minter) (hm : s.minter = some m) (f : TT.Coll → Except Err TT.Coll) :
    TT.onColl (ttOf s m) f = (onColl s f).map (fun s' => ttOf s' ((s'.minter).getD m)) := by
  unfold TT.onColl onColl withMinter ttOf
  simp only [hm]
  cases hf : f m.tt with
  | error e => simp [Except.map]
  | ok c => simp [Except.map, ttMinter]

/-- **simulation, every message** -/
theorem tt_sim (s : State) (m : Minter) (hm : s.minter = some m) (op : Op) :
    ∃ m', (step' s op).minter = some m' ∧ ttOf (step' s op) m' = TT.run (ttOf s m) (ttOps s op) := by
  cases op with
  | updateStartTradingTime sender funds t =>
    simp only [ttOps, tt_run_one]
    unfold TT.step' step'
    simp only [TT.step, step, withMinter, hm, tt_updTrading]
    cases hu : updateStartTradingTime s m sender funds t with
    | error e => exact ⟨m, hm, by simp [Except.map]⟩
    | ok m' => exact ⟨m', rfl, by simp [Except.map, ttOf]⟩
  | collTrading sender t =>
    simp only [ttOps, tt_run_one]
    unfold TT.step' step'
    simp only [TT.step, step, tt_onColl s m hm]
    cases hu : onColl s (fun c => c.updateTrading sender t) with
    | error e => exact ⟨m, hm, by simp [Except.map]⟩
    | ok s' =>
      obtain ⟨m0, c, hm0, _, rfl⟩ := onColl_ok hu
      exact ⟨_, rfl, by simp [Except.map]⟩
  | collCreator sender new =>
    simp only [ttOps, tt_run_one]
    unfold TT.step' step'
    simp only [TT.step, step, tt_onColl s m hm]
    cases hu : onColl s (fun c => c.updateCreator sender new) with
    | error e => exact ⟨m, hm, by simp [Except.map]⟩
    | ok s' =>
      obtain ⟨m0, c, hm0, _, rfl⟩ := onColl_ok hu
      exact ⟨_, rfl, by simp [Except.map]⟩
  | collFreeze sender =>
    simp only [ttOps, tt_run_one]
    unfold TT.step' step'
    simp only [TT.step, step, tt_onColl s m hm]
    cases hu : onColl s (fun c => c.freeze sender) with
    | error e => exact ⟨m, hm, by simp [Except.map]⟩
    | ok s' =>
      obtain ⟨m0, c, hm0, _, rfl⟩ := onColl_ok hu
      exact ⟨_, rfl, by simp [Except.map]⟩
  | collOwn sender a =>
    simp only [ttOps, tt_run_one]
    unfold TT.step' step'
    simp only [TT.step, step, tt_onColl s m hm]
    cases hu : onColl s (fun c => c.updateOwnership sender a) with
    | error e => exact ⟨m, hm, by simp [Except.map]⟩
    | ok s' =>
      obtain ⟨m0, c, hm0, _, rfl⟩ := onColl_ok hu
      exact ⟨_, rfl, by simp [Except.map]⟩
  | setTime t =>
    rcases step'_cases s (.setTime t) with ⟨s', hok, hs'⟩ | ⟨⟨e, herr⟩, hs'⟩
    · have hacc := accepted_of_ok hok
      simp only [step] at hok; split at hok <;> cases hok
      exact ⟨m, by rw [hs']; exact hm, by rw [hs']; simp [ttOps, hacc, TT.run, TT.step', TT.step, ttOf]⟩
    · have hacc := accepted_of_err herr
      exact ⟨m, by rw [hs']; exact hm, by rw [hs']; simp [ttOps, hacc, TT.run]⟩
  | sudoParams u =>
    rcases step'_cases s (.sudoParams u) with ⟨s', hok, hs'⟩ | ⟨⟨e, herr⟩, hs'⟩
    · have hacc := accepted_of_ok hok
      simp only [step] at hok
      obtain ⟨p, hp, rfl⟩ := sudoParams_ok hok
      obtain ⟨_, _, rfl⟩ := updateParams_ok hp
      exact ⟨m, by rw [hs']; exact hm, by rw [hs']; simp [ttOps, hacc, TT.run, TT.step', TT.step, ttOf]⟩
    · have hacc := accepted_of_err herr
      exact ⟨m, by rw [hs']; exact hm, by rw [hs']; simp [ttOps, hacc, TT.run]⟩
  | migrate a u =>
    rcases step'_cases s (.migrate a u) with ⟨s', hok, hs'⟩ | ⟨⟨e, herr⟩, hs'⟩
    · have hacc := accepted_of_ok hok
      simp only [step] at hok
      obtain ⟨_, hc⟩ := migrate_ok hok
      rcases hc with ⟨rfl, rfl⟩ | ⟨u', rfl, hs⟩
      · exact ⟨m, by rw [hs']; exact hm, by rw [hs']; simp [ttOps, TT.run]⟩
      · obtain ⟨p, hp, rfl⟩ := sudoParams_ok hs
        obtain ⟨_, _, rfl⟩ := updateParams_ok hp
        exact ⟨m, by rw [hs']; exact hm, by rw [hs']; simp [ttOps, hacc, TT.run, TT.step', TT.step, ttOf]⟩
    · have hacc := accepted_of_err herr
      refine ⟨m, by rw [hs']; exact hm, ?_⟩
      rw [hs']
      cases u <;> simp [ttOps, hacc, TT.run]
  | fund a c => exact ⟨m, by simp [step', step, hm], by simp [step', step, ttOps, TT.run, ttOf]⟩
  | instantiateDirect sender => exact ⟨m, by simp [step', step, hm], by simp [step', step, ttOps, TT.run]⟩
  | foreign sender => exact ⟨m, by simp [step', step, hm], by simp [step', step, ttOps, TT.run]⟩
  | create sender funds msg w =>
    have : step' s (.create sender funds msg w) = s := by
      simp [step', step, createMinter, hm]
    exact ⟨m, by rw [this]; exact hm, by rw [this]; simp [ttOps, TT.run]⟩
  | sudoStatus v b e =>
    exact ⟨_, by simp [step', step, withMinter, hm]; rfl, by simp [step', step, withMinter, hm, ttOps, TT.run, ttOf, ttMinter]⟩
  | mint sender funds uri uriOk =>
    rcases step'_cases s (.mint sender funds uri uriOk) with ⟨s', hok, hs'⟩ | ⟨_, hs'⟩
    · simp only [step] at hok
      obtain ⟨m0, hm0, hmint⟩ := withMinterS_ok hok
      rw [hm] at hm0; cases hm0
      obtain ⟨_, _, _, _, _, _, _, _, _, _, _, _, rfl⟩ := mint_ok hmint
      exact ⟨_, by rw [hs'], by rw [hs']; simp [ttOps, TT.run, ttOf, ttMinter]⟩
    · exact ⟨m, by rw [hs']; exact hm, by rw [hs']; simp [ttOps, TT.run]⟩
  | collTransfer sender id to =>
    rcases step'_cases s (.collTransfer sender id to) with ⟨s', hok, hs'⟩ | ⟨_, hs'⟩
    · simp only [step] at hok
      obtain ⟨m0, m', hm0, hf, rfl⟩ := withMinter_ok hok
      rw [hm] at hm0; cases hm0
      obtain ⟨c, _, _, _, rfl⟩ := collTransfer_ok hf
      exact ⟨_, by rw [hs'], by rw [hs']; simp [ttOps, TT.run, ttOf, ttMinter]⟩
    · exact ⟨m, by rw [hs']; exact hm, by rw [hs']; simp [ttOps, TT.run]⟩
  | collBurn sender id =>
    rcases step'_cases s (.collBurn sender id) with ⟨s', hok, hs'⟩ | ⟨_, hs'⟩
    · simp only [step] at hok
      obtain ⟨m0, m', hm0, hf, rfl⟩ := withMinter_ok hok
      rw [hm] at hm0; cases hm0
      obtain ⟨c, _, _, rfl⟩ := collBurn_ok hf
      exact ⟨_, by rw [hs'], by rw [hs']; simp [ttOps, TT.run, ttOf, ttMinter]⟩
    · exact ⟨m, by rw [hs']; exact hm, by rw [hs']; simp [ttOps, TT.run]⟩

/-- the `CreateMinter` step, seen from the aspect model: `TT.create` on the empty world of the new minter's address -/
theorem tt_create {s s' : State} {sender : Addr} {funds : List Coin} {msg : CreateMsg} {w : CreateWit}
    (h : createMinter s sender funds msg w = .ok s') :
    ∃ m creator, s'.minter = some m ∧ msg.creator = some creator ∧
      TT.step (TT.init .base s.now s.params.maxTradingOffsetSecs w.minterAddr)
        (.create m.v.coll creator 0 none msg.trading) = .ok (ttOf s' m) := by
  obtain ⟨b1, ms, b2, m, _, _, _, _, _, hinst, rfl⟩ := createMinter_ok h
  obtain ⟨creator, v, hcr, _, _, rfl⟩ := instantiateMinter_ok hinst
  refine ⟨_, creator, rfl, hcr, ?_⟩
  simp only [TT.step, TT.create, TT.init, TT.createTrading, ttOf, ttMinter, TT.mkMinter, createTrading]
  cases msg.trading <;> rfl

end LP.BF
