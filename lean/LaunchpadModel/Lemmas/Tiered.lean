import LaunchpadModel.Model.Tiered
/-!
# Helper lemmas for C13 (core Lean only)

* `Chain` — the stage-chain invariant, and that `windowsOk` (the double loop of `validate_stages` /
  `validate_update`) decides its window part.
* `SInv` — the state invariant (chain + member-map bookkeeping) and its preservation by every loop / message.
-/
namespace LP.Tiered
open LP

/-! ## Except plumbing -/

theorem ofBool_bind_ok {α : Type} {b : Bool} {e : Err} {f : Unit → Except Err α} {x : α} :
    ((ofBool b e) >>= f) = .ok x ↔ b = true ∧ f () = .ok x := by
  cases b <;> simp [ofBool, bind, Except.bind]

theorem bind_ok {α β : Type} {m : Except Err α} {f : α → Except Err β} {y : β} :
    (m >>= f) = .ok y ↔ ∃ x, m = .ok x ∧ f x = .ok y := by
  cases m <;> simp [bind, Except.bind]

theorem map_ok {α β : Type} {m : Except Err α} {f : α → β} {y : β} :
    (m.map f) = .ok y ↔ ∃ x, m = .ok x ∧ f x = y := by
  cases m <;> simp [Except.map]

theorem pure_ok {α : Type} {a x : α} : (pure a : Except Err α) = .ok x ↔ a = x := by
  simp [pure, Except.pure]

theorem listBased_bind_ok {α : Type} {v : Variant} {f : Unit → Except Err α} {x : α} :
    ((listBased v) >>= f) = .ok x ↔ v ≠ .merkle ∧ f () = .ok x := by
  cases v <;> simp [listBased, bind, Except.bind]

/-! ## The chain -/

/-- "never has more than three [stages], each with start before end and ordered so that a stage never starts
before the previous one ends" -/
def Chain (l : List Stage) : Prop :=
  l.length ≤ 3 ∧ (∀ s ∈ l, s.start < s.stop) ∧ l.Pairwise (fun a b => a.stop ≤ b.start)

theorem windowsOk_iff (l : List Stage) :
    windowsOk l = true ↔ (∀ s ∈ l, s.start < s.stop) ∧ l.Pairwise (fun a b => a.stop ≤ b.start) := by
  induction l with
  | nil => simp [windowsOk]
  | cons s rest ih =>
    simp only [windowsOk, Bool.and_eq_true, decide_eq_true_eq, List.all_eq_true, ih, List.mem_cons,
      List.pairwise_cons, forall_eq_or_imp, ge_iff_le]
    constructor
    · rintro ⟨⟨h1, h2⟩, h3, h4⟩; exact ⟨⟨h1, h3⟩, h2, h4⟩
    · rintro ⟨⟨h1, h3⟩, h2, h4⟩; exact ⟨⟨h1, h2⟩, h3, h4⟩

theorem commonOk_length {v : Variant} {l : List Stage} (h : commonOk v l = true) :
    1 ≤ l.length ∧ l.length ≤ 3 := by
  cases l with
  | nil => simp [commonOk] at h
  | cons s0 rest =>
    simp only [commonOk, Bool.and_eq_true, decide_eq_true_eq] at h
    have := h.1.1
    simp only [List.length_cons] at this ⊢
    omega

theorem validateUpdate_chain {v : Variant} {l : List Stage} (h : validateUpdate v l = true) :
    Chain l ∧ 1 ≤ l.length := by
  simp only [validateUpdate, Bool.and_eq_true] at h
  have hl := commonOk_length h.1
  exact ⟨⟨hl.2, (windowsOk_iff l).1 h.2⟩, hl.1⟩

theorem validateStages_spec {v : Variant} {now : Nat} {l : List Stage} (h : validateStages v now l = true) :
    Chain l ∧ 1 ≤ l.length ∧ firstFuture now l = true := by
  simp only [validateStages, Bool.and_eq_true] at h
  have hl := commonOk_length h.1.1
  exact ⟨⟨hl.2, (windowsOk_iff l).1 h.2⟩, hl.1, h.1.2⟩

theorem Chain.take {l : List Stage} (h : Chain l) (n : Nat) : Chain (l.take n) :=
  ⟨Nat.le_trans (List.length_take_le' n l) h.1,
   fun s hs => h.2.1 s (List.mem_of_mem_take hs),
   List.Pairwise.sublist (List.take_sublist n l) h.2.2⟩

/-! ## The member map -/

/-- keys of `WHITELIST_STAGES` -/
def keys (ms : List Entry) : List (Nat × Addr) := ms.map (fun m => (m.1, m.2.1))

theorem hasKey_iff {ms : List Entry} {k : Nat} {a : Addr} : hasKey ms k a = true ↔ (k, a) ∈ keys ms := by
  simp only [hasKey, keys, List.any_eq_true, Bool.and_eq_true, beq_iff_eq, List.mem_map, Prod.mk.injEq]

theorem hasKey_false_iff {ms : List Entry} {k : Nat} {a : Addr} : hasKey ms k a = false ↔ (k, a) ∉ keys ms := by
  rw [← hasKey_iff]; cases hasKey ms k a <;> simp

theorem filter_partition_length {α : Type} (p : α → Bool) (l : List α) :
    (l.filter p).length + (l.filter (fun x => !p x)).length = l.length := by
  induction l with
  | nil => simp
  | cons a l ih =>
    cases h : p a <;> simp [h] <;> omega

/-- removing a present key from a duplicate-free map removes exactly one entry -/
theorem filter_key_length {ms : List Entry} {k : Nat} {a : Addr}
    (hn : (keys ms).Nodup) (hk : hasKey ms k a = true) :
    (ms.filter (fun m => !(m.1 == k && m.2.1 == a))).length + 1 = ms.length := by
  induction ms with
  | nil => simp [hasKey] at hk
  | cons m tl ih =>
    simp only [keys, List.map_cons, List.nodup_cons] at hn
    cases hm : (m.1 == k && m.2.1 == a)
    · have hk' : hasKey tl k a = true := by
        simp only [hasKey, List.any_cons, Bool.or_eq_true] at hk
        rcases hk with h | h
        · rw [hm] at h; exact absurd h (by simp)
        · exact h
      have := ih hn.2 hk'
      rw [List.filter_cons_of_pos (by show (!(m.1 == k && m.2.1 == a)) = true; rw [hm]; rfl)]
      simp only [List.length_cons]
      omega
    · have hm' : (m.1, m.2.1) = (k, a) := by
        simp only [Bool.and_eq_true, beq_iff_eq] at hm; simp [hm.1, hm.2]
      have hnot : (k, a) ∉ keys tl := by rw [← hm']; exact hn.1
      have hall : tl.filter (fun m => !(m.1 == k && m.2.1 == a)) = tl := by
        rw [List.filter_eq_self]
        intro x hx
        have hne : hasKey [x] k a = false := by
          rw [hasKey_false_iff]
          intro hmem
          simp only [keys, List.map_cons, List.map_nil, List.mem_singleton] at hmem
          exact hnot (by rw [hmem]; exact List.mem_map_of_mem (f := fun m : Entry => (m.1, m.2.1)) hx)
        simp only [hasKey, List.any_cons, List.any_nil, Bool.or_false] at hne
        rw [hne]; rfl
      rw [List.filter_cons_of_neg (by show ¬ (!(m.1 == k && m.2.1 == a)) = true; rw [hm]; simp), hall]
      simp

/-- accumulator invariant of the member loops, relative to a stage count `L` -/
structure AInv (L : Nat) (acc : Acc) : Prop where
  bound : ∀ m ∈ acc.members, m.1 < L
  nodup : (keys acc.members).Nodup
  num : acc.num = acc.members.length

theorem AInv.push {L : Nat} {acc : Acc} (h : AInv L acc) {k : Nat} {a : Addr} (c : Nat) (hk : k < L)
    (hnew : hasKey acc.members k a = false) :
    AInv L { members := acc.members ++ [(k, a, c)], num := acc.num + 1, added := acc.added + 1 } := by
  refine ⟨?_, ?_, ?_⟩
  · intro m hm
    simp only [List.mem_append, List.mem_singleton] at hm
    rcases hm with hm | hm
    · exact h.bound m hm
    · subst hm; exact hk
  · simp only [keys, List.map_append, List.map_cons, List.map_nil]
    rw [List.nodup_append]
    refine ⟨h.nodup, by simp, ?_⟩
    intro x hx y hy
    simp only [List.mem_singleton] at hy
    subst hy
    intro e
    subst e
    exact (hasKey_false_iff.1 hnew) hx
  · simp [h.num]

theorem addLoop_inv {L limit : Nat} {whale : Option Nat} {k : Nat} (hk : k < L) :
    ∀ (l : List (Addr × Nat)) (acc acc' : Acc), AInv L acc → addLoop limit whale k l acc = .ok acc' → AInv L acc' := by
  intro l
  induction l with
  | nil => intro acc acc' h e; simp [addLoop] at e; subst e; exact h
  | cons p rest ih =>
    intro acc acc' h e
    obtain ⟨a, c⟩ := p
    simp only [addLoop] at e
    split at e
    · simp at e
    · split at e
      · simp at e
      · split at e
        · simp at e
        · split at e
          · exact ih acc acc' h e
          · rename_i hnew
            exact ih _ acc' (h.push c hk (by simpa using hnew)) e

theorem removeLoop_inv {L : Nat} {k : Nat} :
    ∀ (l : List Addr) (acc acc' : Acc), AInv L acc → removeLoop k l acc = .ok acc' → AInv L acc' := by
  intro l
  induction l with
  | nil => intro acc acc' h e; simp [removeLoop] at e; subst e; exact h
  | cons a rest ih =>
    intro acc acc' h e
    simp only [removeLoop] at e
    split at e
    · simp at e
    · split at e
      · simp at e
      · rename_i hpres
        refine ih _ acc' ⟨?_, ?_, ?_⟩ e
        · intro m hm; exact h.bound m (List.mem_filter.1 hm).1
        · exact List.Nodup.sublist (List.Sublist.map _ List.filter_sublist) h.nodup
        · have := filter_key_length (k := k) (a := a) h.nodup (by simpa using hpres)
          simp only
          rw [h.num]
          omega

/-! ### instantiate -/

theorem instLoop_inv {whale : Option Nat} {k : Nat} :
    ∀ (l : List (Addr × Nat)) (acc acc' : Acc), instLoop whale k l acc = .ok acc' →
      (∀ m ∈ acc.members, m.1 ≤ k) → (keys acc.members).Nodup →
      (∀ m ∈ acc'.members, m.1 ≤ k) ∧ (keys acc'.members).Nodup ∧
        acc'.members.length + acc.added = acc.members.length + acc'.added := by
  intro l
  induction l with
  | nil => intro acc acc' e hb hn; simp [instLoop] at e; subst e; exact ⟨hb, hn, rfl⟩
  | cons p rest ih =>
    intro acc acc' e hb hn
    obtain ⟨a, c⟩ := p
    simp only [instLoop] at e
    split at e
    · simp at e
    · split at e
      · simp at e
      · split at e
        · exact ih acc acc' e hb hn
        · rename_i hnew
          have hA : AInv (k + 1) { members := acc.members, num := acc.members.length, added := acc.added } :=
            ⟨fun m hm => Nat.lt_succ_of_le (hb m hm), hn, rfl⟩
          have hP := hA.push (k := k) (a := a) c (Nat.lt_succ_self k) (by simpa using hnew)
          have := ih _ acc' e (fun m hm => Nat.le_of_lt_succ (hP.bound m hm)) hP.nodup
          refine ⟨this.1, this.2.1, ?_⟩
          have h3 := this.2.2
          simp only [List.length_append, List.length_cons, List.length_nil] at h3
          omega

theorem instLoop_bound {whale : Option Nat} {k : Nat} :
    ∀ (l : List (Addr × Nat)) (acc acc' : Acc), instLoop whale k l acc = .ok acc' →
      (∀ m ∈ acc.members, m.1 ≤ k) → (∀ m ∈ acc'.members, m.1 ≤ k) := by
  intro l
  induction l with
  | nil => intro acc acc' e hb; simp [instLoop] at e; subst e; exact hb
  | cons p rest ih =>
    intro acc acc' e hb
    obtain ⟨a, c⟩ := p
    simp only [instLoop] at e
    split at e
    · simp at e
    · split at e
      · simp at e
      · split at e
        · exact ih acc acc' e hb
        · refine ih _ acc' e ?_
          intro m hm
          simp only [List.mem_append, List.mem_singleton] at hm
          rcases hm with hm | hm
          · exact hb m hm
          · subst hm; exact Nat.le_refl k

/-- with a duplicate-free address list none of which is present, the loop saves every entry -/
theorem instLoop_added {whale : Option Nat} {k : Nat} :
    ∀ (l : List (Addr × Nat)) (acc acc' : Acc), instLoop whale k l acc = .ok acc' →
      (l.map (·.1)).Nodup → (∀ a ∈ l.map (·.1), hasKey acc.members k a = false) →
      acc'.added = acc.added + l.length := by
  intro l
  induction l with
  | nil => intro acc acc' e _ _; simp [instLoop] at e; subst e; simp
  | cons p rest ih =>
    intro acc acc' e hn hfresh
    obtain ⟨a, c⟩ := p
    simp only [List.map_cons, List.nodup_cons] at hn
    simp only [instLoop] at e
    split at e
    · simp at e
    · split at e
      · simp at e
      · split at e
        · rename_i hpres
          have := hfresh a (by simp)
          simp [this] at hpres
        · have := ih _ acc' e hn.2 (by
            intro a' ha'
            have hne : a' ≠ a := fun e => hn.1 (e ▸ ha')
            have h0 := hfresh a' (by simp [ha'])
            rw [hasKey_false_iff] at h0 ⊢
            simp only [keys, List.map_append, List.map_cons, List.map_nil, List.mem_append, List.mem_singleton,
              Prod.mk.injEq, not_or, not_and]
            exact ⟨h0, fun _ => hne⟩)
          simp only [List.length_cons] at this ⊢
          omega

theorem instStages_inv {whale : Option Nat} :
    ∀ (n k : Nat) (lists : List (List (Addr × Nat))) (ms : List Entry) (cnt : Nat → Nat) (num : Nat)
      (ms' : List Entry) (cnt' : Nat → Nat) (num' : Nat),
      instStages whale n k lists ms cnt num = .ok (ms', cnt', num') →
      (∀ m ∈ ms, m.1 < k) → (keys ms).Nodup →
      (∀ m ∈ ms', m.1 < k + n) ∧ (keys ms').Nodup ∧ ms'.length + num = ms.length + num' := by
  intro n
  induction n with
  | zero =>
    intro k lists ms cnt num ms' cnt' num' e hb hn
    simp only [instStages, Except.ok.injEq, Prod.mk.injEq] at e
    obtain ⟨rfl, _, rfl⟩ := e
    exact ⟨by simpa using hb, hn, rfl⟩
  | succ n ih =>
    intro k lists ms cnt num ms' cnt' num' e hb hn
    cases lists with
    | nil => simp [instStages] at e
    | cons l rest =>
      simp only [instStages] at e
      split at e
      · simp at e
      · rename_i acc hacc
        have h1 := instLoop_inv l _ acc hacc (fun m hm => Nat.le_of_lt (hb m hm)) hn
        have h2 := ih (k + 1) rest acc.members _ _ ms' cnt' num' e
          (fun m hm => Nat.lt_succ_of_le (h1.1 m hm)) h1.2.1
        refine ⟨fun m hm => by have := h2.1 m hm; omega, h2.2.1, ?_⟩
        have h3 := h1.2.2
        simp only [Nat.add_zero] at h3
        omega

/-- plain: every list is duplicate-free ⇒ the recount equals the sum of the list lengths -/
theorem instStages_sum {whale : Option Nat} :
    ∀ (n k : Nat) (lists : List (List (Addr × Nat))) (ms : List Entry) (cnt : Nat → Nat) (num : Nat)
      (ms' : List Entry) (cnt' : Nat → Nat) (num' : Nat),
      instStages whale n k lists ms cnt num = .ok (ms', cnt', num') →
      lists.length = n → (∀ l ∈ lists, (l.map (·.1)).Nodup) → (∀ m ∈ ms, m.1 < k) →
      num' = num + (lists.map List.length).sum := by
  intro n
  induction n with
  | zero =>
    intro k lists ms cnt num ms' cnt' num' e hl _ _
    simp only [instStages, Except.ok.injEq, Prod.mk.injEq] at e
    obtain ⟨_, _, rfl⟩ := e
    have : lists = [] := List.eq_nil_of_length_eq_zero hl
    simp [this]
  | succ n ih =>
    intro k lists ms cnt num ms' cnt' num' e hl hnd hb
    cases lists with
    | nil => simp [instStages] at e
    | cons l rest =>
      simp only [instStages] at e
      split at e
      · simp at e
      · rename_i acc hacc
        have hadd := instLoop_added l _ acc hacc (hnd l (by simp)) (by
          intro a _
          rw [hasKey_false_iff]
          intro hmem
          simp only [keys, List.mem_map, Prod.mk.injEq] at hmem
          obtain ⟨m, hm, h1, _⟩ := hmem
          have := hb m hm
          omega)
        have hbnd := instLoop_bound l _ acc hacc (fun m hm => Nat.le_of_lt (hb m hm))
        have := ih (k + 1) rest acc.members _ _ ms' cnt' num' e (by simpa using hl)
          (fun l' hl' => hnd l' (by simp [hl'])) (fun m hm => Nat.lt_succ_of_le (hbnd m hm))
        simp only [List.map_cons, List.sum_cons]
        simp only [Nat.zero_add] at hadd
        omega

end LP.Tiered

namespace LP.Tiered
open LP

/-! ## `sort_unstable(); dedup()` yields a duplicate-free list -/

theorem nodup_eraseDups : ∀ (n : Nat) (l : List Nat), l.length ≤ n → l.eraseDups.Nodup
  | _, [], _ => by simp
  | 0, a :: as, h => by simp at h
  | n + 1, a :: as, h => by
    rw [List.eraseDups_cons, List.nodup_cons]
    refine ⟨?_, nodup_eraseDups n _ ?_⟩
    · rw [List.mem_eraseDups]; simp
    · have := List.length_filter_le (fun b => !b == a) as
      simp only [List.length_cons] at h
      omega

theorem sortDedup_nodup (l : List (Addr × Nat)) : ((sortDedup l).map (·.1)).Nodup := by
  simp only [sortDedup, List.map_map, Function.comp_def, List.map_id']
  exact nodup_eraseDups _ _ (Nat.le_refl _)

/-! ## The state invariant and its preservation -/

/-- chain of stages + bookkeeping of the member map (every entry belongs to an existing stage, keys are
unique, `num_members` counts the entries) -/
structure SInv (s : State) : Prop where
  chain : Chain s.stages
  bound : ∀ m ∈ s.members, m.1 < s.stages.length
  nodup : (keys s.members).Nodup
  num : s.num = s.members.length

def WInv : World → Prop
  | none => True
  | some s => SInv s

theorem SInv.toAInv {s : State} (h : SInv s) {L : Nat} (hL : s.stages.length ≤ L) :
    AInv L { members := s.members, num := s.num, added := 0 } :=
  ⟨fun m hm => Nat.lt_of_lt_of_le (h.bound m hm) hL, h.nodup, h.num⟩

theorem instantiate_inv {v : Variant} {now : Nat} {funds : List Coin} {limit : Nat} {whale : Option Nat}
    {admins : List Addr} {mutable : Bool} {stages : List Stage} {members : List (List (Addr × Nat))}
    {roots : List Nat} {uriBad : Bool} {s : State}
    (h : instantiate v now funds limit whale admins mutable stages members roots uriBad = .ok s) :
    SInv s ∧ 1 ≤ s.stages.length ∧ firstFuture now s.stages = true := by
  cases v
  · -- plain
    simp only [instantiate] at h
    simp only [↓ofBool_bind_ok, bind_ok, pure_ok] at h
    simp only [beq_self_eq_true, beq_iff_eq, reduceCtorEq, ↓reduceIte] at h
    obtain ⟨_, hv, hlen, pay, _, _, _, _, _, x, hst, hs⟩ := h
    obtain ⟨ms, cnt, num⟩ := x
    subst hs
    have hv' := validateStages_spec hv
    have hi := instStages_inv _ _ _ _ _ _ _ _ _ hst (by simp) (by simp [keys])
    have hsum := instStages_sum _ _ _ _ _ _ _ _ _ hst
      (by simpa using hlen)
      (by
        intro l hl
        simp only [List.mem_map] at hl
        obtain ⟨l0, _, rfl⟩ := hl
        exact sortDedup_nodup l0)
      (by simp)
    refine ⟨⟨hv'.1, ?_, hi.2.1, ?_⟩, hv'.2.1, hv'.2.2⟩
    · intro m hm; have := hi.1 m hm; simpa using this
    · have h3 := hi.2.2
      simp only [List.length_nil, Nat.add_zero, Nat.zero_add] at h3
      simp only [Nat.zero_add] at hsum
      show (List.map List.length (List.map sortDedup members)).sum = ms.length
      rw [← hsum, h3]
  · -- flex
    simp only [instantiate] at h
    simp only [↓ofBool_bind_ok, bind_ok, pure_ok] at h
    simp only [beq_self_eq_true, beq_iff_eq, reduceCtorEq, ↓reduceIte] at h
    obtain ⟨_, hv, hlen, pay, _, _, _, _, _, x, hst, hs⟩ := h
    obtain ⟨ms, cnt, num⟩ := x
    subst hs
    have hv' := validateStages_spec hv
    have hi := instStages_inv _ _ _ _ _ _ _ _ _ hst (by simp) (by simp [keys])
    refine ⟨⟨hv'.1, ?_, hi.2.1, ?_⟩, hv'.2.1, hv'.2.2⟩
    · intro m hm; have := hi.1 m hm; simpa using this
    · have h3 := hi.2.2
      simp only [List.length_nil, Nat.add_zero, Nat.zero_add] at h3
      simp [h3]
  · -- merkle
    simp only [instantiate] at h
    simp only [↓ofBool_bind_ok, bind_ok, pure_ok] at h
    obtain ⟨_, pay, _, _, hv, _, hs⟩ := h
    subst hs
    have hv' := validateStages_spec hv
    exact ⟨⟨hv'.1, by simp, by simp [keys], rfl⟩, hv'.2.1, hv'.2.2⟩

theorem addStage_spec {v : Variant} {s s' : State} {now : Nat} {sender : Addr} {st : Stage}
    {members : List (Addr × Nat)} (hI : SInv s) (h : addStage v s now sender st members = .ok s') :
    SInv s' ∧ firstFuture now s'.stages = true ∧ s'.stages = s.stages ++ [normStage v st] := by
  simp only [addStage] at h
  simp only [↓ofBool_bind_ok, bind_ok, pure_ok] at h
  obtain ⟨_, _, hv, acc, hacc, hs⟩ := h
  subst hs
  have hv' := validateStages_spec hv
  have hL : s.stages.length ≤ (s.stages ++ [normStage v st]).length := by simp
  have hk : (s.stages ++ [normStage v st]).length - 1 < (s.stages ++ [normStage v st]).length := by
    simp
  have hA := addLoop_inv hk _ _ acc (hI.toAInv hL) hacc
  exact ⟨⟨hv'.1, hA.bound, hA.nodup, hA.num⟩, hv'.2.2, rfl⟩

theorem removeStage_spec {s s' : State} {now : Nat} {sender : Addr} {id : Nat}
    (h : removeStage s now sender id = .ok s') :
    ∃ st, s.stages[id]? = some st ∧ now < st.start ∧ s'.stages = s.stages.take id ∧
      s'.members = s.members.filter (fun m => !(decide (id ≤ m.1) && decide (m.1 < s.stages.length))) ∧
      s'.num = s.num - (s.members.filter (fun m => decide (id ≤ m.1) && decide (m.1 < s.stages.length))).length := by
  simp only [removeStage] at h
  simp only [↓ofBool_bind_ok] at h
  obtain ⟨_, h⟩ := h
  split at h
  · simp at h
  · rename_i st hst
    simp only [↓ofBool_bind_ok, pure_ok, decide_eq_true_eq] at h
    obtain ⟨hnow, hs⟩ := h
    subst hs
    exact ⟨st, hst, hnow, rfl, rfl, rfl⟩

theorem removeStage_inv {s s' : State} {now : Nat} {sender : Addr} {id : Nat} (hI : SInv s)
    (h : removeStage s now sender id = .ok s') : SInv s' := by
  obtain ⟨st, hst, _, h1, h2, h3⟩ := removeStage_spec h
  have hid : id < s.stages.length := by
    rcases List.getElem?_eq_some_iff.1 hst with ⟨hlt, _⟩; exact hlt
  refine ⟨?_, ?_, ?_, ?_⟩
  · rw [h1]; exact hI.chain.take id
  · intro m hm
    rw [h2] at hm
    rw [h1, List.length_take, Nat.min_eq_left (Nat.le_of_lt hid)]
    have hm' := List.mem_filter.1 hm
    have hb := hI.bound m hm'.1
    have := hm'.2
    simp only [Bool.not_eq_true', Bool.and_eq_false_iff, decide_eq_false_iff_not, Nat.not_le, Nat.not_lt] at this
    omega
  · rw [h2]; exact List.Nodup.sublist (List.Sublist.map _ List.filter_sublist) hI.nodup
  · rw [h3, h2, hI.num]
    have := filter_partition_length (fun m : Entry => decide (id ≤ m.1) && decide (m.1 < s.stages.length)) s.members
    omega

theorem updateStage_inv {v : Variant} {s s' : State} {sender : Addr} {u : StageUpdate} (hI : SInv s)
    (h : updateStage v s sender u = .ok s') : SInv s' := by
  simp only [updateStage] at h
  simp only [↓ofBool_bind_ok] at h
  obtain ⟨_, h⟩ := h
  split at h
  · simp at h
  · simp only [↓ofBool_bind_ok, pure_ok] at h
    obtain ⟨hv, hs⟩ := h
    subst hs
    exact ⟨(validateUpdate_chain hv).1, by simpa using hI.bound, hI.nodup, hI.num⟩

theorem addMembers_inv {v : Variant} {s s' : State} {sender : Addr} {id : Nat} {members : List (Addr × Nat)}
    (hI : SInv s) (h : addMembers v s sender id members = .ok s') : SInv s' := by
  simp only [addMembers] at h
  simp only [↓ofBool_bind_ok, bind_ok, pure_ok, decide_eq_true_eq] at h
  obtain ⟨_, hid, acc, hacc, hs⟩ := h
  subst hs
  have hA := addLoop_inv hid _ _ acc (hI.toAInv (Nat.le_refl _)) hacc
  exact ⟨hI.chain, hA.bound, hA.nodup, hA.num⟩

theorem removeMembers_inv {s s' : State} {now : Nat} {sender : Addr} {id : Nat} {addrs : List Addr}
    (hI : SInv s) (h : removeMembers s now sender id addrs = .ok s') : SInv s' := by
  simp only [removeMembers] at h
  simp only [↓ofBool_bind_ok] at h
  obtain ⟨_, h⟩ := h
  split at h
  · simp at h
  · simp only [↓ofBool_bind_ok, bind_ok, pure_ok] at h
    obtain ⟨_, acc, hacc, hs⟩ := h
    subst hs
    have hA := removeLoop_inv (L := s.stages.length) _ _ acc (hI.toAInv (Nat.le_refl _)) hacc
    exact ⟨hI.chain, hA.bound, hA.nodup, hA.num⟩

theorem exec_inv {v : Variant} {s s' : State} {op : Op} (hI : SInv s) (h : exec v s op = .ok s') : SInv s' := by
  cases op with
  | inst => simp [exec] at h
  | addStage now sender st ms =>
    simp only [exec] at h
    simp only [↓listBased_bind_ok] at h
    exact (addStage_spec hI h.2).1
  | removeStage now sender id =>
    simp only [exec] at h
    simp only [↓listBased_bind_ok] at h
    exact removeStage_inv hI h.2
  | updateStage now sender u => exact updateStage_inv hI (by simpa [exec] using h)
  | addMembers now sender id ms =>
    simp only [exec] at h
    simp only [↓listBased_bind_ok] at h
    exact addMembers_inv hI h.2
  | removeMembers now sender id as =>
    simp only [exec] at h
    simp only [↓listBased_bind_ok] at h
    exact removeMembers_inv hI h.2
  | increaseLimit now sender funds limit =>
    simp only [exec, increaseLimit] at h
    simp only [↓listBased_bind_ok, ↓ofBool_bind_ok, bind_ok, pure_ok] at h
    obtain ⟨_, _, _, _, _, hs⟩ := h
    subst hs
    exact ⟨hI.chain, hI.bound, hI.nodup, hI.num⟩
  | updateAdmins now sender admins =>
    simp only [exec, updateAdmins] at h
    simp only [↓ofBool_bind_ok, pure_ok] at h
    obtain ⟨_, _, hs⟩ := h
    subst hs
    exact ⟨hI.chain, hI.bound, hI.nodup, hI.num⟩
  | freeze now sender =>
    simp only [exec, freeze] at h
    simp only [↓ofBool_bind_ok, pure_ok] at h
    obtain ⟨_, hs⟩ := h
    subst hs
    exact ⟨hI.chain, hI.bound, hI.nodup, hI.num⟩
  | migrate now sender =>
    simp only [exec] at h
    split at h
    · cases h; exact hI
    · simp at h
  | unknown now sender => simp [exec] at h

/-- what a successful execute message does to the STAGE LIST: only `AddStage` (append one), `RemoveStage`
(truncate to `take id`, only before `stages[id]` starts) and `UpdateStageConfig` (replace one element) touch it -/
theorem exec_stages {v : Variant} {s s' : State} {op : Op} (hI : SInv s) (h : exec v s op = .ok s') :
    match op with
    | .inst .. => False
    | .addStage _ _ st _ => s'.stages = s.stages ++ [normStage v st]
    | .removeStage now _ id => s'.stages = s.stages.take id ∧ ∃ st, s.stages[id]? = some st ∧ now < st.start
    | .updateStage _ _ u => ∃ st, s'.stages = s.stages.set u.id st
    | _ => s'.stages = s.stages := by
  cases op with
  | inst => simp [exec] at h
  | addStage now sender st ms =>
    simp only [exec] at h
    simp only [↓listBased_bind_ok] at h
    exact (addStage_spec hI h.2).2.2
  | removeStage now sender id =>
    simp only [exec] at h
    simp only [↓listBased_bind_ok] at h
    obtain ⟨st, hst, hnow, h1, _⟩ := removeStage_spec h.2
    exact ⟨h1, st, hst, hnow⟩
  | updateStage now sender u =>
    simp only [exec, updateStage] at h
    simp only [↓ofBool_bind_ok] at h
    obtain ⟨_, h⟩ := h
    split at h
    · simp at h
    · simp only [↓ofBool_bind_ok, pure_ok] at h
      obtain ⟨_, hs⟩ := h
      subst hs
      exact ⟨_, rfl⟩
  | addMembers now sender id ms =>
    simp only [exec, addMembers] at h
    simp only [↓listBased_bind_ok, ↓ofBool_bind_ok, bind_ok, pure_ok] at h
    obtain ⟨_, _, _, acc, _, hs⟩ := h
    subst hs; rfl
  | removeMembers now sender id as =>
    simp only [exec, removeMembers] at h
    simp only [↓listBased_bind_ok, ↓ofBool_bind_ok] at h
    obtain ⟨_, _, h⟩ := h
    split at h
    · simp at h
    · simp only [↓ofBool_bind_ok, bind_ok, pure_ok] at h
      obtain ⟨_, acc, _, hs⟩ := h
      subst hs; rfl
  | increaseLimit now sender funds limit =>
    simp only [exec, increaseLimit] at h
    simp only [↓listBased_bind_ok, ↓ofBool_bind_ok, bind_ok, pure_ok] at h
    obtain ⟨_, _, _, _, _, hs⟩ := h
    subst hs; rfl
  | updateAdmins now sender admins =>
    simp only [exec, updateAdmins] at h
    simp only [↓ofBool_bind_ok, pure_ok] at h
    obtain ⟨_, _, hs⟩ := h
    subst hs; rfl
  | freeze now sender =>
    simp only [exec, freeze] at h
    simp only [↓ofBool_bind_ok, pure_ok] at h
    obtain ⟨_, hs⟩ := h
    subst hs; rfl
  | migrate now sender =>
    simp only [exec] at h
    split at h
    · cases h; rfl
    · simp at h
  | unknown now sender => simp [exec] at h

/-- `may_load(..).is_some()` = `has(..)` -/
theorem lookup_isSome (ms : List Entry) (k : Nat) (a : Addr) : (lookup ms k a).isSome = hasKey ms k a := by
  induction ms with
  | nil => rfl
  | cons m tl ih =>
    simp only [lookup, hasKey, List.find?_cons, List.any_cons] at ih ⊢
    cases h : (m.1 == k && m.2.1 == a) <;> simp [ih]

theorem step_inv {v : Variant} {w w' : World} {op : Op} (hI : WInv w) (h : step v w op = .ok w') : WInv w' := by
  cases op with
  | inst now sender funds limit whale admins mutable stages members roots uriBad =>
    simp only [step, map_ok] at h
    obtain ⟨s, hs, rfl⟩ := h
    exact (instantiate_inv hs).1
  | _ =>
    all_goals
      cases w with
      | none => simp [step] at h
      | some s =>
        simp only [step, map_ok] at h
        obtain ⟨s', hs, rfl⟩ := h
        exact exec_inv hI hs

theorem step'_inv {v : Variant} {w : World} {op : Op} (hI : WInv w) : WInv (step' v w op) := by
  unfold step'
  split
  · rename_i w' h; exact step_inv hI h
  · exact hI

theorem run_inv {v : Variant} (ops : List Op) : ∀ {w : World}, WInv w → WInv (run v w ops) := by
  induction ops with
  | nil => intro w h; exact h
  | cons op rest ih => intro w h; exact ih (step'_inv h)

end LP.Tiered
