import LaunchpadModel.Lemmas.TokenMergeSystemInv
/-!
# Token-merge SYSTEM composite: `TInv` is kept by every step (`step_good`), holds along every history from `init` (`run_good`)
-/
namespace LP.SysTM
open LP

/-! ## what a minter-side `TMF` step does to the minter record -/

/-- the two shapes of an accepted minter-side step: it hands out a token (then the sub-message is that `Mint`), or the supply
log is untouched and no id becomes mintable that was not -/
def MRel (vm vm' : TMF.Minter) (op : TMF.Op) : Prop :=
  (∃ rcpt pk sup', subOf op = .mint rcpt pk ∧ VF.takeToken vm.supply pk rcpt = some sup' ∧ vm'.supply = sup' ∧
      vm'.addr = vm.addr) ∨
  ((∀ rcpt pk, subOf op ≠ .mint rcpt pk) ∧ vm'.addr = vm.addr ∧ vm'.supply.n = vm.supply.n ∧
      vm'.supply.minted = vm.supply.minted ∧ ∀ id ∈ vm'.supply.pos.map (·.2), id ∈ vm.supply.pos.map (·.2))

theorem MRel.same (vm : TMF.Minter) {op : TMF.Op} (h : ∀ rcpt pk, subOf op ≠ .mint rcpt pk) : MRel vm vm op :=
  .inr ⟨h, rfl, rfl, rfl, fun _ h => h⟩

theorem tmf_minter_step {t r : TMF.State} {op : TMF.Op} {vm : TMF.Minter} (hf : foreignOp op = false)
    (h : TMF.step t op = .ok r) (hm : t.minter = some vm) :
    ∃ vm', r.minter = some vm' ∧ vm'.sg721 = vm.sg721 ∧ MRel vm vm' op := by
  cases op <;> simp only [foreignOp, Bool.true_eq_false] at hf <;> simp only [TMF.step] at h
  case setTime tt =>
    split at h
    · cases h
    · cases h; exact ⟨vm, hm, rfl, MRel.same vm (by intro _ _; simp [subOf])⟩
  case fund a c => cases h; exact ⟨vm, hm, rfl, MRel.same vm (by intro _ _; simp [subOf])⟩
  case instantiateDirect sender => cases h
  case mintTo sender funds rcpt picked =>
    obtain ⟨m, hm', hx⟩ := TMF.withMinterS_ok h
    rw [hm] at hm'; cases hm'
    obtain ⟨b1, ms, m1, b2, _, _, _, _, hd, _, rfl⟩ := TMF.mintAdmin_ok hx
    obtain ⟨sup, _, _, _, hts, rfl⟩ := TMF.deliver_ok hd
    exact ⟨_, rfl, rfl, .inl ⟨rcpt, .at picked, sup, rfl, hts, rfl, rfl⟩⟩
  case mintFor sender funds id rcpt =>
    obtain ⟨m, hm', hx⟩ := TMF.withMinterS_ok h
    rw [hm] at hm'; cases hm'
    obtain ⟨b1, ms, m1, b2, _, _, _, _, hd, _, rfl⟩ := TMF.mintAdmin_ok hx
    obtain ⟨sup, _, _, _, hts, rfl⟩ := TMF.deliver_ok hd
    exact ⟨_, rfl, rfl, .inl ⟨rcpt, .id id, sup, rfl, hts, rfl, rfl⟩⟩
  case purge sender funds =>
    obtain ⟨m, m', hm', hx, rfl⟩ := TMF.withMinter_ok h
    rw [hm] at hm'; cases hm'
    obtain ⟨_, _, rfl⟩ := TMF.purge_ok hx
    exact ⟨_, rfl, rfl, .inr ⟨by intro _ _; simp [subOf], rfl, rfl, rfl, fun _ h => h⟩⟩
  case updateStartTime sender funds tt =>
    obtain ⟨m, m', hm', hx, rfl⟩ := TMF.withMinter_ok h
    rw [hm] at hm'; cases hm'
    obtain ⟨_, _, _, _, _, rfl⟩ := TMF.updateStartTime_ok hx
    exact ⟨_, rfl, rfl, .inr ⟨by intro _ _; simp [subOf], rfl, rfl, rfl, fun _ h => h⟩⟩
  case updateStartTradingTime sender funds tt =>
    obtain ⟨m, m', hm', hx, rfl⟩ := TMF.withMinter_ok h
    rw [hm] at hm'; cases hm'
    obtain ⟨c, _, _, _, _, rfl⟩ := TMF.updateStartTradingTime_ok hx
    exact ⟨_, rfl, rfl, .inr ⟨by intro _ _; simp [subOf], rfl, rfl, rfl, fun _ h => h⟩⟩
  case updatePerAddressLimit sender funds n =>
    obtain ⟨m, m', hm', hx, rfl⟩ := TMF.withMinter_ok h
    rw [hm] at hm'; cases hm'
    obtain ⟨_, _, _, _, _, rfl⟩ := TMF.updatePerAddressLimit_ok hx
    exact ⟨_, rfl, rfl, .inr ⟨by intro _ _; simp [subOf], rfl, rfl, rfl, fun _ h => h⟩⟩
  case shuffle sender funds perm =>
    obtain ⟨m, hm', hx⟩ := TMF.withMinterS_ok h
    rw [hm] at hm'; cases hm'
    obtain ⟨b1, ms, sup, b2, _, _, hsup, _, rfl⟩ := TMF.shuffle_ok hx
    obtain ⟨_, hp, rfl⟩ := Supply.Fixed.shuffle_spec hsup
    obtain ⟨_, hids, _⟩ := Supply.Fixed.shuffle_keys_ids hp
    refine ⟨_, rfl, rfl, .inr ⟨by intro _ _; simp [subOf], rfl, rfl, rfl, ?_⟩⟩
    intro id hid
    have : id ∈ perm := by
      have h2 : ({ vm.supply with pos := vm.supply.keys.zip perm } : Supply.Fixed).ids = perm := hids
      rw [← h2]; exact hid
    exact hp.mem_iff.1 this
  case burnRemaining sender funds =>
    obtain ⟨m, m', hm', hx, rfl⟩ := TMF.withMinter_ok h
    rw [hm] at hm'; cases hm'
    obtain ⟨sup, _, _, hb, rfl⟩ := TMF.burnRemaining_ok hx
    obtain ⟨_, rfl⟩ := Supply.Fixed.burnAll_spec hb
    exact ⟨_, rfl, rfl, .inr ⟨by intro _ _; simp [subOf], rfl, rfl, rfl, by intro id hid; simp at hid⟩⟩
  case sudoStatus v b e =>
    obtain ⟨m, m', hm', hx, rfl⟩ := TMF.withMinter_ok h
    rw [hm] at hm'; cases hm'
    cases hx
    exact ⟨_, rfl, rfl, .inr ⟨by intro _ _; simp [subOf], rfl, rfl, rfl, fun _ h => h⟩⟩
  case sudoParams u =>
    split at h
    · cases h
    · cases h; exact ⟨vm, hm, rfl, MRel.same vm (by intro _ _; simp [subOf])⟩

/-- a sub-message that is no `Mint` (nothing, or `UpdateStartTradingTime`) leaves the cw_ownable record and the ids alone -/
theorem sub_nonmint_frame {s : State} {pos : List (Nat × Nat)} {c c' : CF.Coll} {sub : Sys2.Sub} {msg : Option CF.ExecMsg}
    {bank bank' : MintPay.Bank} {minter : Addr} (hn : ∀ rcpt pk, sub ≠ .mint rcpt pk) (hmsg : subMsg pos c sub = .ok msg)
    (hrs : Sys2.runSub s.block bank minter c msg = .ok (bank', c')) :
    c'.core.ownership = c.core.ownership ∧ c'.core.ids = c.core.ids := by
  cases sub with
  | none =>
    simp only [subMsg] at hmsg
    cases hmsg
    obtain ⟨_, rfl⟩ := runSub_none hrs
    exact ⟨rfl, rfl⟩
  | mint rcpt pk => exact absurd rfl (hn rcpt pk)
  | trading t =>
    simp only [subMsg] at hmsg
    cases hmsg
    obtain ⟨core', hex, rfl⟩ := execOn_ok (runSub_some hrs)
    obtain ⟨_, e⟩ := Sg721.exec_eff hex
    simp only [CF.toExec] at e
    cases e with
    | ustt _ _ => exact ⟨rfl, rfl⟩

theorem tmStep_good {s s' : State} {op : TMF.Op} (hi : TInv s) (hf : foreignOp op = false) (h : tmStep s op = .ok s') :
    TInv s' := by
  unfold tmStep at h
  split at h
  · cases h
  · rename_i r hr
    split at h
    · rename_i hmc
      cases h
      intro m2 tc2 h2
      simp only [setTm] at h2
      split at h2 <;> simp_all
    · rename_i m c hmc
      split at h
      · cases h
      · rename_i msg hmsg
        split at h
        · cases h
        · rename_i bank c' hrs
          cases h
          have hg := hi m c hmc
          have htm : (tmfOf s).minter = some (vmOf m c) := by simp [tmfOf, hmc]
          obtain ⟨vm', hvm', _, hrel⟩ := tmf_minter_step hf hr htm
          intro m2 tc2 h2
          simp only [setTm, hvm', Option.some.injEq, Prod.mk.injEq] at h2
          obtain ⟨rfl, rfl⟩ := h2
          rcases hrel with ⟨rcpt, pk, sup', hsub, hts, hsup, ha⟩ | ⟨hn, ha, hnn, hmin, hpos⟩
          · rw [hsub] at hmsg
            exact SGood.mint hg hts hsup ha hmsg hrs
          · obtain ⟨ho, hids⟩ := sub_nonmint_frame hn hmsg hrs
            exact hg.frame ha hnn hmin hpos ho (by rw [hids]; exact fun _ h => h)

/-! ## `CreateMinter` -/

theorem create_good {s s' : State} {sender : Addr} {funds : List Coin} {msg : TMF.CreateMsg} {w : TMF.CreateWit}
    {ci : Sys2.CollInit} (h : create s sender funds msg w ci = .ok s') : TInv s' := by
  unfold create at h
  split at h
  · cases h
  · rename_i r hr
    split at h
    · cases h
    · rename_i vm hvm
      split at h
      · cases h
      · split at h
        · cases h
        · rename_i q hq
          cases h
          simp only [TMF.step] at hr
          obtain ⟨b1, ms, b2, m0, _, _, _, _, _, him, rfl⟩ := TMF.createMinter_ok hr
          simp only [Option.some.injEq] at hvm
          subst hvm
          obtain ⟨trading, sup, ck, _, _, _, _, _, hsup, _, _, rfl⟩ := TMF.instantiateMinter_ok him
          obtain ⟨hperm, rfl⟩ := Supply.Fixed.init_spec hsup
          obtain ⟨b3, core, _, _, hcore, rfl⟩ := CF.instantiate_ok hq
          intro m2 tc2 h2
          simp only [setTm, Option.some.injEq, Prod.mk.injEq] at h2
          obtain ⟨rfl, rfl⟩ := h2
          simp only [Sg721.instantiate, Sg721.ensure_ok] at hcore
          obtain ⟨_, _, _, _, _, _, _, _, hc⟩ := hcore
          cases hc
          refine ⟨rfl, ?_, ?_, ?_⟩
          · intro id hid; simp [Sg721.State.ids] at hid
          · intro id hid
            simp only [ofVm] at hid ⊢
            obtain ⟨e, he, rfl⟩ := List.mem_map.1 hid
            have h2 : e.2 ∈ w.perm := (List.of_mem_zip he).2
            have h3 := hperm.mem_iff.1 h2
            rw [List.mem_range'_1] at h3
            have h4 : 1 ≤ e.2 ∧ e.2 < 1 + msg.numTokens := h3
            show 1 ≤ e.2 ∧ e.2 ≤ msg.numTokens
            omega
          · intro id hid; simp [ofVm] at hid

/-! ## every step, every history -/

theorem srcCreate_mc {s s' : State} {k : Sg721.Kind} {sender : Addr} {name symbol : Nat} {m : Sg721.InstMsg} {self : Addr}
    (h : srcCreate s k sender name symbol m self = .ok s') : s'.mc = s.mc := by
  unfold srcCreate at h
  cases hmc : s.mc with
  | none =>
    simp only [hmc] at h
    split at h
    · cases h
    · simp only [Bool.false_eq_true, if_false] at h
      split at h
      · cases h
      · split at h
        · cases h
        · split at h
          · cases h
          · cases h; rfl
  | some p =>
    obtain ⟨mn, tc⟩ := p
    simp only [hmc] at h
    split at h
    · cases h
    · split at h
      · cases h
      · split at h
        · cases h
        · split at h
          · cases h
          · split at h
            · cases h
            · cases h; rfl

theorem step_good {s s' : State} {op : Op} (hi : TInv s) (hni : NoImp s op) (h : step s op = .ok s') : TInv s' := by
  cases op with
  | tm o =>
    cases o
    case receive caller sender id recipient msgOk picked =>
      simp only [step, receiveDirect] at h
      split at h
      · cases h
      · exact hook_good hi h
    all_goals
      simp only [step] at h
      first
        | (split at h
           · cases h
           · rename_i hf
             exact tmStep_good hi (by simpa using hf) h)
        | cases h
  | create sender funds msg w ci => exact create_good h
  | block hh t =>
    simp only [step] at h
    split at h
    · cases h
    · cases h; exact fun m tc h2 => hi m tc h2
  | srcCreate k sender name symbol m self =>
    simp only [step] at h
    have hmc : s'.mc = s.mc := srcCreate_mc h
    exact fun m tc h2 => hi m tc (hmc ▸ h2)
  | sendNft coll sender id contract recipient msgOk recvOk picked =>
    simp only [step, deposit] at h
    split at h
    · split at h
      · cases h
      · split at h
        · cases h
        · split at h
          · cases h
          · refine hook_good ?_ h
            exact fun m tc h2 => hi m tc h2
    · exact collExec_good hi hni h
  | collExec coll sender funds m =>
    simp only [step] at h
    exact collExec_good hi hni h

end LP.SysTM
