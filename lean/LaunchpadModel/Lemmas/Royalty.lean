import LaunchpadModel.Model.Royalty
/-!
Helper lemmas for C10: inversion / characterisation of `updateCollectionInfo`, `applyRoyalty`, `instantiate`.
-/
namespace LP.Royalty
open LP

theorem DAY_NS_eq : DAY_NS = 86400000000000 := by decide
theorem DEC_ONE_eq : DEC_ONE = 1000000000000000000 := by decide

theorem shareValidate_ok_iff (s s' : Nat) : shareValidate s = .ok s' ↔ s ≤ DEC_ONE ∧ s' = s := by
  unfold shareValidate
  by_cases h : s > DEC_ONE
  · simp [h]; omega
  · simp [h]; constructor
    · intro e; exact ⟨by omega, e.symm⟩
    · intro ⟨_, e⟩; exact e.symm

theorem shareValidate_err_iff (s : Nat) : (∃ e, shareValidate s = .error e) ↔ DEC_ONE < s := by
  unfold shareValidate
  by_cases h : s > DEC_ONE <;> simp [h]

/-- what `raiseOk` means -/
theorem raiseOk_iff (old : Option RoyaltyInfo) (s : Nat) :
    raiseOk old s = true ↔
      ∀ o, old = some o → o.share < s → s - o.share ≤ MAX_SHARE_DELTA ∧ s ≤ MAX_ROYALTY_SHARE := by
  unfold raiseOk
  cases old with
  | none => simp
  | some o =>
    simp only [Option.some.injEq, forall_eq']
    by_cases h1 : o.share < s
    · by_cases h2 : s - o.share > MAX_SHARE_DELTA
      · simp [h1, h2]; omega
      · by_cases h3 : s > MAX_ROYALTY_SHARE
        · simp [h1, h2, h3]
        · simp [h1, h2, h3]; omega
    · simp [h1]

/-- the royalty block of `update_collection_info` succeeds exactly when … and then stores exactly … -/
theorem applyRoyalty_ok_iff (c1 : Coll) (now : Nat) (r : RoyaltyInfo) (c' : Coll) :
    applyRoyalty c1 now r = .ok c' ↔
      c1.updatedAt + DAY_NS ≤ now ∧ addrValid r.addr = true ∧ r.share ≤ DEC_ONE ∧ raiseOk c1.royalty r.share = true ∧
      c' = { c1 with royalty := some ⟨r.addr, r.share⟩, updatedAt := now } := by
  unfold applyRoyalty
  by_cases ht : c1.updatedAt + DAY_NS > now
  · simp [ht]; omega
  · by_cases ha : addrValid r.addr = true
    · by_cases hs : r.share > DEC_ONE
      · simp [ht, ha, shareValidate, hs]; omega
      · by_cases hr : raiseOk c1.royalty r.share = true
        · simp [ht, ha, shareValidate, hs, hr]
          constructor
          · intro e; exact ⟨by omega, by omega, e.symm⟩
          · intro ⟨_, _, e⟩; exact e.symm
        · simp [ht, ha, shareValidate, hs, hr]
    · simp [ht, ha]

/-- the non-royalty part of the update: the collection with the message's other fields applied -/
def applyFields (c : Coll) (m : UpdMsg) : Coll :=
  { c with creator := m.creator.getD c.creator, descLen := m.desc.getD c.descLen, image := m.image.getD c.image,
           link := (match m.link with | .keep => c.link | .clear => c.link | .set l => some l),
           explicit := m.explicit }

/-- the guards of `update_collection_info` that precede the royalty block -/
def fieldsOk (c : Coll) (sender : Addr) (m : UpdMsg) : Prop :=
  c.frozen = false ∧ c.creator = sender ∧
  (∀ n, m.creator = some n → addrValid n = true) ∧
  m.desc.getD c.descLen ≤ MAX_DESCRIPTION_LENGTH ∧
  urlValid (m.image.getD c.image) = true ∧
  optUrlValid (applyFields c m).link = true

theorem update_eq (c : Coll) (now : Nat) (sender : Addr) (m : UpdMsg) :
    updateCollectionInfo c now sender m =
      if c.frozen then .error .frozen
      else if c.creator ≠ sender then .error .unauthorized
      else if !(match m.creator with | some n => addrValid n | none => true) then .error .invalid
      else if m.desc.getD c.descLen > MAX_DESCRIPTION_LENGTH then .error .invalid
      else if !urlValid (m.image.getD c.image) then .error .invalid
      else if !optUrlValid (applyFields c m).link then .error .invalid
      else match m.royalty with
        | .set r => applyRoyalty (applyFields c m) now r
        | _ => .ok (applyFields c m) := by
  unfold updateCollectionInfo applyFields
  rfl

theorem update_ok_iff (c : Coll) (now : Nat) (sender : Addr) (m : UpdMsg) (c' : Coll) :
    updateCollectionInfo c now sender m = .ok c' ↔
      fieldsOk c sender m ∧
      (match m.royalty with
       | .set r => applyRoyalty (applyFields c m) now r = .ok c'
       | _ => c' = applyFields c m) := by
  rw [update_eq]
  unfold fieldsOk
  by_cases h1 : c.frozen = true
  · simp [h1]
  · by_cases h2 : c.creator = sender
    · by_cases h3 : (match m.creator with | some n => addrValid n | none => true) = true
      · have h3' : ∀ n, m.creator = some n → addrValid n = true := by
          intro n hn; rw [hn] at h3; simpa using h3
        by_cases h4 : m.desc.getD c.descLen > MAX_DESCRIPTION_LENGTH
        · simp [h1, h2, h3, h4]; intro _ _ ; omega
        · by_cases h5 : urlValid (m.image.getD c.image) = true
          · by_cases h6 : optUrlValid (applyFields c m).link = true
            · have h4' : m.desc.getD c.descLen ≤ MAX_DESCRIPTION_LENGTH := by omega
              simp only [h1, h2, h3, h4, h5, h6, h4']
              simp only [Bool.false_eq_true, if_false, ne_eq, not_true_eq_false, Bool.not_true, true_and, and_true]
              have hall : (∀ n, m.creator = some n → addrValid n = true) ↔ True := ⟨fun _ => trivial, fun _ => h3'⟩
              rw [hall, true_and]
              cases hm : m.royalty with
              | set r => simp
              | keep => simp; exact ⟨fun h => h.symm, fun h => h.symm⟩
              | clear => simp; exact ⟨fun h => h.symm, fun h => h.symm⟩
            · simp [h1, h2, h3, h4, h5, h6]
          · simp [h1, h2, h3, h4, h5]
      · have : ¬ ∀ n, m.creator = some n → addrValid n = true := by
          intro hh
          apply h3
          cases hc : m.creator with
          | none => rfl
          | some n => simpa using hh n hc
        simp [h1, h2, h3, this]
    · simp [h1, h2]

/-- `instantiate` succeeds exactly when … and then stores exactly the message's collection info, unfrozen, anchored at `now` -/
theorem instantiate_ok_iff (now : Nat) (m : InstMsg) (c : Coll) :
    instantiate now m = .ok c ↔
      m.funds = 0 ∧ m.senderIsContract = true ∧ addrValid m.minter = true ∧ m.descLen ≤ MAX_DESCRIPTION_LENGTH ∧
      urlValid m.image = true ∧ optUrlValid m.link = true ∧
      (∀ r, m.royalty = some r → addrValid r.addr = true ∧ r.share ≤ DEC_ONE) ∧ addrValid m.creator = true ∧
      c = { kind := m.kind, name := m.kind, ver := curVer m.kind, creator := m.creator, descLen := m.descLen, image := m.image, link := m.link,
            explicit := m.explicit, startTrading := m.startTrading, royalty := m.royalty, frozen := false, updatedAt := now } := by
  unfold instantiate
  by_cases h1 : m.funds = 0
  · by_cases h2 : m.senderIsContract = true
    · by_cases h3 : addrValid m.minter = true
      · by_cases h4 : m.descLen > MAX_DESCRIPTION_LENGTH
        · simp [h1, h2, h3, h4]; intro _ _; omega
        · have h4' : m.descLen ≤ MAX_DESCRIPTION_LENGTH := by omega
          by_cases h5 : urlValid m.image = true
          · by_cases h6 : optUrlValid m.link = true
            · cases hr : m.royalty with
              | none =>
                by_cases h8 : addrValid m.creator = true
                · simp [h1, h2, h3, h4, h4', h5, h6, instRoyalty, h8]
                  exact ⟨fun h => h.symm, fun h => h.symm⟩
                · simp [h1, h2, h3, h4, h5, h6, instRoyalty, h8]
              | some r =>
                by_cases ha : addrValid r.addr = true
                · by_cases hs : r.share > DEC_ONE
                  · simp [h1, h2, h3, h4, h5, h6, instRoyalty, ha, shareValidate, hs]
                    intro _ _; omega
                  · have hs' : r.share ≤ DEC_ONE := by omega
                    by_cases h8 : addrValid m.creator = true
                    · simp [h1, h2, h3, h4, h4', h5, h6, instRoyalty, ha, shareValidate, hs, hs', h8]
                      exact ⟨fun h => h.symm, fun h => h.symm⟩
                    · simp [h1, h2, h3, h4, h5, h6, instRoyalty, ha, shareValidate, hs, h8]
                · simp [h1, h2, h3, h4, h5, h6, instRoyalty, ha]
            · simp [h1, h2, h3, h4, h5, h6]
          · simp [h1, h2, h3, h4, h5]
      · simp [h1, h2, h3]
    · simp [h1, h2]
  · simp [h1]

end LP.Royalty

namespace LP.Royalty
set_option linter.unusedSimpArgs false

/-- a migration the chain accepted: what the model lets it touch. Royalty, creator, frozen flag and the other collection
fields never; the cadence anchor only when it rewinds. -/
theorem migrate_ok (c : Coll) (now : Nat) (target : Kind) (c' : Coll) (h : migrate c now target = .ok c') :
    c'.royalty = c.royalty ∧ c'.frozen = c.frozen ∧ c'.creator = c.creator ∧
    c'.descLen = c.descLen ∧ c'.image = c.image ∧ c'.link = c.link ∧
    c'.updatedAt = (if rewinds c target then now - DAY_NS else c.updatedAt) ∧
    ((target = .updatable ∧ c'.name = .updatable ∧ c'.ver = curVer .updatable) ∨
     (target ≠ .updatable ∧ ((c'.name = c.name ∧ c'.ver = c.ver) ∨ c'.name = .onchain))) := by
  unfold migrate at h
  unfold rewinds
  cases target with
  | updatable =>
    simp only at h
    split at h
    · rename_i hn
      cases h
      cases hv : verLt c.ver V310 <;> simp [hn, hv]
    · cases h
  | onchain =>
    simp only at h
    split at h <;> (cases h; simp)
  | nt =>
    simp only at h
    split at h
    · cases h; simp
    · cases h
  | base => cases h

theorem rewinds_iff (c : Coll) (target : Kind) :
    rewinds c target = true ↔ target = .updatable ∧ (c.name = .base ∨ c.name = .updatable) ∧ verLt c.ver V310 = true := by
  unfold rewinds
  cases target <;> cases hk : c.name <;> simp [hk]

/-- what a successful `UpdateCollectionInfo` can and cannot touch -/
theorem update_untouched (c : Coll) (now : Nat) (sender : Addr) (m : UpdMsg) (c' : Coll)
    (h : updateCollectionInfo c now sender m = .ok c') :
    c'.name = c.name ∧ c'.ver = c.ver ∧ c'.frozen = c.frozen ∧ c'.startTrading = c.startTrading := by
  rw [update_ok_iff] at h
  obtain ⟨_, h2⟩ := h
  cases hm : m.royalty with
  | set r =>
    rw [hm] at h2; simp only at h2
    rw [applyRoyalty_ok_iff] at h2
    rw [h2.2.2.2.2]; exact ⟨rfl, rfl, rfl, rfl⟩
  | keep => rw [hm] at h2; simp only at h2; rw [h2]; exact ⟨rfl, rfl, rfl, rfl⟩
  | clear => rw [hm] at h2; simp only at h2; rw [h2]; exact ⟨rfl, rfl, rfl, rfl⟩

/-- **Shape of one successful step**: which message it was and what exactly it wrote. -/
theorem step_shape (c : Coll) (op : Op) (c' : Coll) (h : step c op = .ok c') :
    (∃ m, op.act = .update m ∧ updateCollectionInfo c op.now op.sender m = .ok c') ∨
    (op.act = .freeze ∧ c.creator = op.sender ∧ c' = { c with frozen := true }) ∨
    (∃ t, op.act = .startTrading t true ∧ c' = { c with startTrading := t }) ∨
    (op.act = .other true ∧ c' = c) ∨
    (∃ t, op.act = .migrate t true ∧ migrate c op.now t = .ok c') ∨
    (∃ v, op.act = .setver v ∧ c' = { c with ver := v }) := by
  unfold step at h
  cases hact : op.act with
  | update m => rw [hact] at h; exact Or.inl ⟨m, rfl, h⟩
  | freeze =>
    rw [hact] at h; simp only at h
    split at h
    · cases h
    · rename_i hc
      cases h
      exact Or.inr (Or.inl ⟨rfl, by simpa using hc, rfl⟩)
  | startTrading t ok =>
    rw [hact] at h; simp only at h
    split at h
    · rename_i hok; cases h; subst hok
      exact Or.inr (Or.inr (Or.inl ⟨t, rfl, rfl⟩))
    · cases h
  | other ok =>
    rw [hact] at h; simp only at h
    split at h
    · rename_i hok; cases h; subst hok
      exact Or.inr (Or.inr (Or.inr (Or.inl ⟨rfl, rfl⟩)))
    · cases h
  | migrate t ok =>
    rw [hact] at h; simp only at h
    split at h
    · rename_i hok; subst hok
      exact Or.inr (Or.inr (Or.inr (Or.inr (Or.inl ⟨t, rfl, h⟩))))
    · cases h
  | setver v =>
    rw [hact] at h; simp only at h
    cases h
    exact Or.inr (Or.inr (Or.inr (Or.inr (Or.inr ⟨v, rfl, rfl⟩))))

end LP.Royalty
