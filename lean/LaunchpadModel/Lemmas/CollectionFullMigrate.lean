import LaunchpadModel.Lemmas.CollectionFull
import LaunchpadModel.Lemmas.Migrate
/-!
# C20 refinement, lemmas: the composite's collection migrations against the migration aspect model `LP.Mig`

Projection `projMig` of a collection onto `Mig.St` (the typed storage items a `migrate` may touch: the cw2 record as
(name id, PRINTED version string), the two sg721-updatable flags — present only while the contract is an sg721-updatable —,
`royalty_updated_at`, the cw721-0.16 `minter` item, cw-ownable `ownership`), the three `Mig.Spec`s of the collection
codes built from the same generated constants, and the simulation of each composite migration by `Mig.migrate`.
-/
namespace LP.CF
open LP LP.Semver
open LP.Sg721 (Kind codeVersion validAddr)

/-- name ids: the `crates.io:` names of the four collections (11 / 12 stand for the legacy spellings `sg721-base` /
`sg721-updatable` that sg721-updatable also accepts; no collection of the composite carries them) -/
def nameId : Kind → Mig.NameId
  | .base => 1 | .updatable => 2 | .nt => 3 | .onchain => 4

def projMig (c : Coll) : Mig.St :=
  { cw2 := some ⟨nameId c.core.kind, print c.core.ver⟩,
    lastDiscount := none,
    frozenMeta := if c.core.kind = .updatable then some c.core.frozenMeta else none,
    enableUpd := if c.core.kind = .updatable then some c.core.updEnabled else none,
    royaltyAt := some c.core.royaltyUpdatedAt,
    legacyMinter := c.legacy,
    ownership := some ⟨c.core.ownership.owner, c.core.ownership.pending.isSome⟩,
    params := none,
    other := [] }

/-- what the sg721-updatable code knows about itself -/
def updSpec : Mig.Spec :=
  { kind := .updatable, own := 2, code := codeVersion .updatable, accepted := [11, 1, 12, 2], baseNames := [11, 1],
    earliest := Sg721.UPD_EARLIEST }

def onchainSpec : Mig.Spec :=
  { kind := .metaOnchain, own := 4, code := codeVersion .onchain, earliest := Sg721.ONCHAIN_EARLIEST,
    toVer := print Sg721.ONCHAIN_TO }

def ntSpec : Mig.Spec :=
  { kind := .nt, own := 3, code := codeVersion .nt, toVer := strOf Gen.sg721_nt_TO_VERSION,
    earliestStr := strOf Gen.sg721_nt_EARLIEST_VERSION }

/-- stored addresses are well-formed (the 0.16 `minter` item holds an `Addr`) -/
def LegacyValid (c : Coll) : Prop := ∀ a, c.legacy = some a → validAddr a = true

theorem day_eq : Mig.ROYALTY_BACKDATE_NS = Sg721.DAY_NS := by decide

theorem okOf_ok {α : Type} (a : α) : okOf (Except.ok a : Except Err α) = some a := rfl

open Classical in
/-- **sg721-updatable `_migrate`**: the composite migration IS `Mig.migrateUpdatable` on the projection -/
theorem migrateUpdatable_mig (c : Coll) (now : Nat) (hfit : Fits c.core.ver) (hlv : LegacyValid c) :
    okOf ((migrateUpdatable c now).map projMig) = okOf (Mig.migrateUpdatable updSpec now (projMig c)) := by
  have hp : parse (print c.core.ver) = some c.core.ver := parse_print _ hfit
  have aux := fun s' => Mig.migrateUpdatable_ok_aux updSpec now (projMig c) s' ⟨nameId c.core.kind, print c.core.ver⟩ c.core.ver rfl hp
  -- the right-hand side, by its characterisation
  have rhs : okOf (Mig.migrateUpdatable updSpec now (projMig c)) =
      if Mig.UpdOk updSpec now ⟨nameId c.core.kind, print c.core.ver⟩ c.core.ver (projMig c) then
        some (Mig.updResult updSpec now ⟨nameId c.core.kind, print c.core.ver⟩ c.core.ver (projMig c)) else none := by
    by_cases hU : Mig.UpdOk updSpec now ⟨nameId c.core.kind, print c.core.ver⟩ c.core.ver (projMig c)
    · rw [if_pos hU, (aux _).2 ⟨hU, rfl⟩]; rfl
    · rw [if_neg hU]
      cases hm : Mig.migrateUpdatable updSpec now (projMig c) with
      | ok s' => exact absurd ((aux s').1 hm).1 hU
      | error e => rfl
  rw [rhs]
  clear rhs aux hp hfit
  rcases c with ⟨⟨kind, toks, cnt, ops, own, info, fz, rua, fm, upd, ver⟩, self, nm, sym, leg⟩
  unfold migrateUpdatable upgradeRoyalty upgradeOwnership Mig.UpdOk Mig.updResult
  simp only [updSpec, projMig, le_def, day_eq, Mig.codeRecord]
  have e30 : Mig.V_3_0_0 = Sg721.V_3_0_0 := rfl
  have e31 : Mig.V_3_1_0 = Sg721.V_3_1_0 := rfl
  rw [e30, e31]
  generalize Sg721.UPD_EARLIEST = ue
  generalize codeVersion Kind.updatable = code
  generalize Sg721.V_3_0_0 = v30
  generalize Sg721.V_3_1_0 = v31
  generalize Sg721.DAY_NS = day
  unfold LegacyValid at hlv
  simp only at hlv
  by_cases h3 : ver = code
  · subst h3
    by_cases h1 : ver < ue <;> by_cases h2 : ver < ver <;> by_cases h4 : ver < v30 <;>
      by_cases h5 : ver < v31 <;> by_cases h6 : now < day <;> cases kind <;> rcases leg with _ | a <;>
      (try have hva := hlv a rfl) <;>
      simp [*, nameId, okOf, Except.map, Nat.not_le_of_lt, Nat.le_of_not_lt]
    all_goals first | rfl | simp [projMig]
  · by_cases h1 : ver < ue <;> by_cases h2 : code < ver <;> by_cases h4 : ver < v30 <;>
      by_cases h5 : ver < v31 <;> by_cases h6 : now < day <;> cases kind <;> rcases leg with _ | a <;>
      (try have hva := hlv a rfl) <;>
      simp [*, nameId, okOf, Except.map, Nat.not_le_of_lt, Nat.le_of_not_lt]
    all_goals first | rfl | simp [projMig]

/-- **sg721-metadata-onchain `migrate`** on its own collection IS `Mig.migrateMetaOnchain` on the projection -/
theorem migrateOnchain_mig (c : Coll) (hk : c.core.kind = .onchain) (hfit : Fits c.core.ver) (hlv : LegacyValid c) :
    okOf ((migrateOnchain c).map projMig) = okOf (Mig.migrateMetaOnchain onchainSpec (projMig c)) := by
  have hp : parse (print c.core.ver) = some c.core.ver := parse_print _ hfit
  rcases c with ⟨⟨kind, toks, cnt, ops, own, info, fz, rua, fm, upd, ver⟩, self, nm, sym, leg⟩
  simp only at hk hp; subst hk
  unfold LegacyValid at hlv
  simp only at hlv
  unfold migrateOnchain upgradeOwnership Mig.migrateMetaOnchain Mig.getCw2 Mig.parseVer Mig.upgradeOwnership
  simp only [projMig, onchainSpec, bind, Except.bind, hp, pure, Except.pure, throw, throwThe, MonadExceptOf.throw]
  have e30 : Mig.V_3_0_0 = Sg721.V_3_0_0 := rfl
  rw [e30]
  clear hfit hp
  generalize Sg721.ONCHAIN_EARLIEST = ue
  generalize codeVersion Kind.onchain = code
  generalize Sg721.V_3_0_0 = v30
  generalize Sg721.ONCHAIN_TO = to
  by_cases h3 : ver = code
  · subst h3
    by_cases h1 : ver < ue <;> by_cases h2 : ver < ver <;> by_cases h4 : ver < v30 <;> rcases leg with _ | a <;>
      (try have hva := hlv a rfl) <;> simp [*, okOf, Except.map]
    all_goals first | rfl | simp [projMig]
  · have h3' : ¬ code = ver := fun e => h3 e.symm
    by_cases h1 : ver < ue <;> by_cases h2 : code < ver <;> by_cases h4 : ver < v30 <;> rcases leg with _ | a <;>
      (try have hva := hlv a rfl) <;> simp [*, okOf, Except.map]
    all_goals first | rfl | simp [projMig]

/-- sg721-nt `migrate`: refused on both sides with the constants of the current tree -/
theorem migrateNt_mig (c : Coll) : okOf ((migrateNt c).map projMig) = okOf (Mig.migrateNt ntSpec (projMig c)) := by
  rw [migrateNt_err]
  have : Mig.migrateNt ntSpec (projMig c) = .error .version := by
    unfold Mig.migrateNt
    simp [ntSpec, strOf_nt_to, strOf_nt_earliest, Semver.print, Semver.printNum_small, Semver.printNum_big, codeVersion,
      Semver.ofTriple, Gen.sg721_nt_CRATE_VERSION_TRIPLE, Semver.DOT, Semver.strLt]
  rw [this]; rfl

/-- the `Mig.Spec` of the code a collection of kind `k` runs (sg721-base has no `migrate` entry point) -/
def specOf : Kind → Option Mig.Spec
  | .base => none
  | .updatable => some updSpec
  | .onchain => some onchainSpec
  | .nt => some ntSpec

/-- **`MsgMigrateContract` to the code the collection runs** IS `Mig.migrate` with that code's spec -/
theorem migrateSelf_mig (c : Coll) (now : Nat) (hfit : Fits c.core.ver) (hlv : LegacyValid c) :
    okOf ((migrateSelf c now).map projMig) =
      (match specOf c.core.kind with
       | some sp => okOf (Mig.migrate sp now none (projMig c))
       | none => none) := by
  unfold migrateSelf
  cases hk : c.core.kind with
  | base => rfl
  | updatable => exact migrateUpdatable_mig c now hfit hlv
  | onchain => exact migrateOnchain_mig c hk hfit hlv
  | nt => exact migrateNt_mig c

theorem migrateUpdatable_mig' (c : Coll) (now : Nat) (hfit : Fits c.core.ver) (hlv : LegacyValid c) :
    okOf ((migrateUpdatable c now).map projMig) = okOf (Mig.migrate updSpec now none (projMig c)) :=
  migrateUpdatable_mig c now hfit hlv

end LP.CF
