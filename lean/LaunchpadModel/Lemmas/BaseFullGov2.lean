import LaunchpadModel.Lemmas.BaseFullGov
/-!
# Base composite ⟶ C18 aspect model: the one-step simulation `govOf (step' s op) = Gov.run e (govOf s) (govOps s op)`
-/
namespace LP.BF
open LP

theorem gov_run_one (e : Gov.Env) (w : Gov.World) (op : Gov.Op) : Gov.run e w [op] = Gov.step' e w op := rfl

theorem gov_step'_ok {e : Gov.Env} {w w' : Gov.World} {op : Gov.Op} {ms : List Msg} (h : Gov.step e w op = .ok (w', ms)) :
    Gov.step' e w op = w' := by simp [Gov.step', h]

theorem govOf_minter {s : State} {m : Minter} (hm : s.minter = some m) : (govOf s).minter 0 = some (govRec m) := by
  simp [govOf, hm, Gov.World.minter]

theorem govOf_setMinter {s : State} {m : Minter} (hm : s.minter = some m) (r : Gov.MinterRec) :
    (govOf s).setMinter 0 r = { params := govParams s.params, minters := [(0, r)] } := by
  simp [govOf, hm, Gov.World.setMinter]

/-- `sudo UpdateParams`, accepted or refused: the same function of the params on both sides -/
theorem gov_upd (e : Gov.Env) (s : State) (u : ParamsUpdate) :
    Gov.step' e (govOf s) (.upd (govUpd u)) = govOf (step' s (.sudoParams u)) := by
  unfold Gov.step' step'
  simp only [Gov.step, step, sudoParams, bind, Except.bind, pure, Except.pure]
  have h := sudo_eq s.params u
  have hp : (govOf s).params = govParams s.params := rfl
  rw [hp, h]
  cases hu : updateParams s.params u with
  | error x => simp [Except.map]
  | ok p => simp [Except.map, govOf]

/-- the creation-fee branch in both descriptions: same verdict, same amounts -/
theorem payCreationFee_of {s : State} {funds : List Coin} {ms : List Msg} {paid : Nat}
    (hpay : mustPay funds s.params.creationFee.denom = .ok paid) (hms : creationFeeMsgs s funds = .ok ms) :
    ∃ ms', Gov.payCreationFee funds s.params.creationFee false = .ok ms' ∧ ms'.map Msg.amount = ms.map Msg.amount := by
  unfold creationFeeMsgs at hms
  unfold Gov.payCreationFee
  simp only [hpay, bind, Except.bind, Bool.false_and, Bool.false_eq_true, if_false]
  by_cases hd : s.params.creationFee.denom = NATIVE
  · rw [if_pos hd] at hms ⊢
    exact checkedFairBurn_amounts funds s.factoryAddr 0 _ ms hms
  · rw [if_neg hd] at hms ⊢
    exact ⟨ms, hms, rfl⟩

/-- an ACCEPTED composite `CreateMinter` is an accepted aspect `create` against the params in force, with the projected world -/
theorem gov_create (e : Gov.Env) {s s' : State} (he : EnvAgrees e s.codes) {sender : Addr} {funds : List Coin}
    {msg : CreateMsg} {w : CreateWit} (h : createMinter s sender funds msg w = .ok s') :
    Gov.step' e (govOf s) (.create 0 (govCreateArgs s funds msg)) = govOf s' := by
  obtain ⟨b1, ms, b2, m, hm, hb1, hfc, hb2, hcode, hinst, rfl⟩ := createMinter_ok h
  obtain ⟨⟨paid, hpay⟩, hal, hfr, hms⟩ := factoryChecks_ok hfc
  obtain ⟨creator, v, hcr, hv, hck, rfl⟩ := instantiateMinter_ok hinst
  obtain ⟨ms', hfee, hamt⟩ := payCreationFee_of hpay hms
  have hbank := bankOk_of_amounts hamt (applyMsgs_amounts hb2)
  have hkind : e.kindOf s.params.codeId = some .base := he.1 _ hcode
  have hcoll : e.colls.contains msg.collCode = true := he.2 _ (by rw [hv]; rfl)
  have hstep : Gov.step e (govOf s) (.create 0 (govCreateArgs s funds msg)) =
      .ok ({ params := govParams s.params, minters := [(0,
        { kind := .base, price := s.params.minMintPrice, numTokens := none, mintable := none, pal := 0, start := s.now,
          status := Gov.Status.default })] }, ms') := by
    have hp : (govOf s).params = govParams s.params := rfl
    have hmin : (govOf s).minters = [] := by simp [govOf, hm]
    have hcreate : Gov.create e (govParams s.params) (govCreateArgs s funds msg) =
        .ok ({ kind := .base, price := s.params.minMintPrice, numTokens := none, mintable := none, pal := 0, start := s.now,
               status := Gov.Status.default }, ms') := by
      unfold Gov.create govParams
      simp only [Gov.createCommon, Gov.Params.creationFee, Gov.Params.allowed, Gov.Params.frozen, govCreateArgs,
        bind, Except.bind, pure, Except.pure, hfee, hal, hfr, hcoll, hkind, Bool.not_true, Bool.false_eq_true, if_false,
        bne_self_eq_false]
    simp only [Gov.step, hp, hcreate, bind, Except.bind, pure, Except.pure, hbank, Gov.World.setMinter, hmin]
    rfl
  rw [gov_step'_ok hstep]
  rfl

/-- an ACCEPTED composite `Mint` is an accepted aspect `mint`: captured price × the fee rate in force -/
theorem gov_mint (e : Gov.Env) {s s' : State} {m : Minter} (hm : s.minter = some m) {sender : Addr} {funds : List Coin}
    {uri : Nat} {uriOk : Bool} (h : mint s m sender funds uri uriOk = .ok s') :
    Gov.step' e (govOf s) (.mint 0 s.now funds) = govOf s' := by
  obtain ⟨b1, ms, sq, b2, _, _, _, hms, _, _, _, hb2, rfl⟩ := mint_ok h
  obtain ⟨hpay, hburn⟩ := mintMsgs_ok hms
  obtain ⟨ms', hburn', hamt⟩ := checkedFairBurn_amounts funds m.addr 0 _ ms hburn
  have hbank := bankOk_of_amounts hamt (applyMsgs_amounts hb2)
  have hmint : Gov.mint (govParams s.params) (govRec m) s.now funds = .ok (govRec m, ms') := by
    unfold Gov.mint
    have hk : (govRec m).kind = .base := rfl
    rw [if_pos hk]
    have hfee : mulFloor (govRec m).price.amount (bps s.params.mintFeeBps) = networkFee s.params m := rfl
    simp only [govParams, Gov.Params.mintFeeBps, bind, Except.bind, pure, Except.pure, hpay, hfee, bne_self_eq_false,
      Bool.false_eq_true, if_false, hburn']
  have hstep : Gov.step e (govOf s) (.mint 0 s.now funds) = .ok ((govOf s).setMinter 0 (govRec m), ms') := by
    have hp : (govOf s).params = govParams s.params := rfl
    simp only [Gov.step, govOf_minter hm, hp, hmint, bind, Except.bind, pure, Except.pure, hbank]
  rw [gov_step'_ok hstep, govOf_setMinter hm]
  rfl

/-- an ACCEPTED `UpdateStartTradingTime` passes the aspect model's check (no offset bound in this family) -/
theorem gov_ustt (e : Gov.Env) {s : State} {m m' : Minter} (hm : s.minter = some m) {sender : Addr} {funds : List Coin}
    {t : Option Nat} (h : updateStartTradingTime s m sender funds t = .ok m') :
    Gov.step' e (govOf s) (.ustt 0 s.now t) = govOf { s with minter := some m' } := by
  obtain ⟨c, _, _, hpast, _, rfl⟩ := updateStartTradingTime_ok h
  have hu : Gov.updateStartTradingTime (govParams s.params) (govRec m) s.now t = .ok () := by
    unfold Gov.updateStartTradingTime
    cases t with
    | none => rfl
    | some x =>
      have := tradingInPast_false hpast x rfl
      have hn : ¬ s.now > x := by omega
      simp [hn, govRec]
  have hstep : Gov.step e (govOf s) (.ustt 0 s.now t) = .ok (govOf s, []) := by
    have hp : (govOf s).params = govParams s.params := rfl
    simp only [Gov.step, govOf_minter hm, hp, hu, bind, Except.bind, pure, Except.pure]
  rw [gov_step'_ok hstep]
  simp [govOf, hm, govRec]

/-- `sudo UpdateStatus`, accepted or refused -/
theorem gov_status (e : Gov.Env) (s : State) (v b x : Bool) :
    Gov.step' e (govOf s) (.status 0 v b x) = govOf (step' s (.sudoStatus v b x)) := by
  cases hm : s.minter with
  | none =>
    have h1 : (govOf s).minter 0 = none := by simp [govOf, hm, Gov.World.minter]
    have h2 : step' s (.sudoStatus v b x) = s := by simp [step', step, withMinter, hm]
    rw [h2]
    unfold Gov.step'
    simp [Gov.step, h1, throw, throwThe, MonadExceptOf.throw]
  | some m =>
    have h2 : step' s (.sudoStatus v b x) = { s with minter := some { m with status := ⟨v, b, x⟩ } } := by
      simp [step', step, withMinter, hm]
    rw [h2]
    have hstep : Gov.step e (govOf s) (.status 0 v b x) =
        .ok ((govOf s).setMinter 0 { govRec m with status := ⟨v, b, x⟩ }, []) := by
      simp only [Gov.step, govOf_minter hm, Gov.updateStatus, bind, Except.bind, pure, Except.pure]
    rw [gov_step'_ok hstep, govOf_setMinter hm]
    rfl

/-- **forward simulation with stuttering, every composite message** -/
theorem gov_sim (e : Gov.Env) (s : State) (he : EnvAgrees e s.codes) (op : Op) :
    govOf (step' s op) = Gov.run e (govOf s) (govOps s op) := by
  cases op with
  | sudoParams u => simp only [govOps, gov_run_one]; exact (gov_upd e s u).symm
  | sudoStatus v b x => simp only [govOps, gov_run_one]; exact (gov_status e s v b x).symm
  | migrate a u =>
    rcases step'_cases s (.migrate a u) with ⟨s', hok, hs'⟩ | ⟨⟨er, herr⟩, hs'⟩
    · have hacc := accepted_of_ok hok
      simp only [govOps, hacc, if_true, gov_run_one]
      simp only [step] at hok
      obtain ⟨_, hc⟩ := migrate_ok hok
      rcases hc with ⟨rfl, rfl⟩ | ⟨u', rfl, hs⟩
      · rw [hs']; rfl
      · have h1 := gov_upd e s u'
        have h2 : step' s (.sudoParams u') = s' := by simp [step', step, hs]
        rw [hs', ← h2, ← h1]
        rfl
    · have hacc := accepted_of_err herr
      simp only [govOps, hacc, Bool.false_eq_true, if_false, Gov.run, List.foldl_nil]
      rw [hs']
  | create sender funds msg w =>
    rcases step'_cases s (.create sender funds msg w) with ⟨s', hok, hs'⟩ | ⟨⟨er, herr⟩, hs'⟩
    · have hacc := accepted_of_ok hok
      simp only [govOps, hacc, if_true, gov_run_one]
      simp only [step] at hok
      rw [hs', gov_create e he hok]
    · have hacc := accepted_of_err herr
      simp only [govOps, hacc, Bool.false_eq_true, if_false, Gov.run, List.foldl_nil]
      rw [hs']
  | mint sender funds uri uriOk =>
    rcases step'_cases s (.mint sender funds uri uriOk) with ⟨s', hok, hs'⟩ | ⟨⟨er, herr⟩, hs'⟩
    · have hacc := accepted_of_ok hok
      simp only [govOps, hacc, if_true, gov_run_one]
      simp only [step] at hok
      obtain ⟨m, hm, hmint⟩ := withMinterS_ok hok
      rw [hs', gov_mint e hm hmint]
    · have hacc := accepted_of_err herr
      simp only [govOps, hacc, Bool.false_eq_true, if_false, Gov.run, List.foldl_nil]
      rw [hs']
  | updateStartTradingTime sender funds t =>
    rcases step'_cases s (.updateStartTradingTime sender funds t) with ⟨s', hok, hs'⟩ | ⟨⟨er, herr⟩, hs'⟩
    · have hacc := accepted_of_ok hok
      simp only [govOps, hacc, if_true, gov_run_one]
      simp only [step] at hok
      obtain ⟨m, m', hm, hf, rfl⟩ := withMinter_ok hok
      rw [hs', gov_ustt e hm hf]
    · have hacc := accepted_of_err herr
      simp only [govOps, hacc, Bool.false_eq_true, if_false, Gov.run, List.foldl_nil]
      rw [hs']
  | setTime t =>
    simp only [govOps, Gov.run, List.foldl_nil]
    rcases step'_cases s (.setTime t) with ⟨s', hok, hs'⟩ | ⟨_, hs'⟩
    · rw [hs']; simp only [step] at hok; split at hok <;> cases hok; rfl
    · rw [hs']
  | fund a c =>
    simp only [govOps, Gov.run, List.foldl_nil]
    simp [step', step, govOf]
  | instantiateDirect sender => simp [govOps, Gov.run, step', step]
  | foreign sender => simp [govOps, Gov.run, step', step]
  | collTransfer sender id to =>
    simp only [govOps, Gov.run, List.foldl_nil]
    rcases step'_cases s (.collTransfer sender id to) with ⟨s', hok, hs'⟩ | ⟨_, hs'⟩
    · rw [hs']; simp only [step] at hok
      obtain ⟨m, m', hm, hf, rfl⟩ := withMinter_ok hok
      obtain ⟨c, _, _, _, rfl⟩ := collTransfer_ok hf
      simp [govOf, hm, govRec]
    · rw [hs']
  | collBurn sender id =>
    simp only [govOps, Gov.run, List.foldl_nil]
    rcases step'_cases s (.collBurn sender id) with ⟨s', hok, hs'⟩ | ⟨_, hs'⟩
    · rw [hs']; simp only [step] at hok
      obtain ⟨m, m', hm, hf, rfl⟩ := withMinter_ok hok
      obtain ⟨c, _, _, rfl⟩ := collBurn_ok hf
      simp [govOf, hm, govRec]
    · rw [hs']
  | collTrading sender t =>
    simp only [govOps, Gov.run, List.foldl_nil]
    rcases step'_cases s (.collTrading sender t) with ⟨s', hok, hs'⟩ | ⟨_, hs'⟩
    · rw [hs']; simp only [step] at hok
      obtain ⟨m, c, hm, _, rfl⟩ := onColl_ok hok
      simp [govOf, hm, govRec]
    · rw [hs']
  | collCreator sender new =>
    simp only [govOps, Gov.run, List.foldl_nil]
    rcases step'_cases s (.collCreator sender new) with ⟨s', hok, hs'⟩ | ⟨_, hs'⟩
    · rw [hs']; simp only [step] at hok
      obtain ⟨m, c, hm, _, rfl⟩ := onColl_ok hok
      simp [govOf, hm, govRec]
    · rw [hs']
  | collFreeze sender =>
    simp only [govOps, Gov.run, List.foldl_nil]
    rcases step'_cases s (.collFreeze sender) with ⟨s', hok, hs'⟩ | ⟨_, hs'⟩
    · rw [hs']; simp only [step] at hok
      obtain ⟨m, c, hm, _, rfl⟩ := onColl_ok hok
      simp [govOf, hm, govRec]
    · rw [hs']
  | collOwn sender a =>
    simp only [govOps, Gov.run, List.foldl_nil]
    rcases step'_cases s (.collOwn sender a) with ⟨s', hok, hs'⟩ | ⟨_, hs'⟩
    · rw [hs']; simp only [step] at hok
      obtain ⟨m, c, hm, _, rfl⟩ := onColl_ok hok
      simp [govOf, hm, govRec]
    · rw [hs']

end LP.BF
