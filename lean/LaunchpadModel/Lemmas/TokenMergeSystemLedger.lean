import LaunchpadModel.Lemmas.TokenMergeSystemSim4
/-!
# Token-merge SYSTEM composite: the deposit ledger is bounded by the requirement list along every history (`LInv`)

`RECEIVED_TOKENS[recipient][collection] ≤` the amount the FIRST `mint_tokens` entry for that collection asks for (0 for an unlisted
collection) — for every system history, impersonation or not, whatever the collections do.
-/
namespace LP.SysTM
open LP

/-- the ledger `led` never exceeds the requirement list `req` -/
def LB (led : Addr → Addr → Nat) (req : List (Addr × Nat)) : Prop :=
  ∀ r c, led r c ≤ (TMF.requiredOf req c).getD 0

def LInv (s : State) : Prop := ∀ m tc, s.mc = some (m, tc) → LB m.ledger m.mintTokens

theorem requiredOf_mem {req : List (Addr × Nat)} {c : Addr} {amt : Nat} (h : TMF.requiredOf req c = some amt) :
    c ∈ req.map Prod.fst := by
  induction req with
  | nil => simp [TMF.requiredOf] at h
  | cons x xs ih =>
    obtain ⟨a, n⟩ := x
    unfold TMF.requiredOf at h
    by_cases ha : a = c
    · simp [ha]
    · simp only [ha, if_false] at h
      exact List.mem_cons_of_mem _ (ih h)

theorem hookMinter_lb {now : Nat} {m m' : TMF.Minter} {caller sender : Addr} {recipient : Option Addr} {picked : Nat} {b : Bool}
    (hl : LB m.ledger m.mintTokens) (h : hookMinter now m caller sender recipient picked = .ok (m', b)) :
    LB m'.ledger m'.mintTokens := by
  unfold hookMinter at h
  split at h
  · cases h
  · split at h
    · cases h
    · split at h
      · cases h
      · rename_i amt hreq
        split at h
        · cases h
        · rename_i hlt
          split at h
          · split at h
            · cases h
            · rename_i m1 hd
              cases h
              obtain ⟨sup, _, _, _, _, rfl⟩ := TMF.deliver_ok hd
              intro r c
              simp only [TMF.clearLedger, TMF.creditLedger]
              by_cases h1 : r = recipient.getD sender ∧ c ∈ m.mintTokens.map Prod.fst
              · simp [h1]
              · simp only [h1, if_false]
                by_cases h2 : r = recipient.getD sender ∧ c = caller
                · exfalso
                  apply h1
                  exact ⟨h2.1, by rw [h2.2]; exact requiredOf_mem hreq⟩
                · simp only [h2, if_false]; exact hl r c
          · cases h
            intro r c
            simp only [TMF.creditLedger]
            by_cases h2 : r = recipient.getD sender ∧ c = caller
            · obtain ⟨rfl, rfl⟩ := h2
              simp only [and_self, if_true, hreq, Option.getD_some]
              omega
            · simp only [h2, if_false]; exact hl r c

theorem hook_lb {s s' : State} {caller sender : Addr} {id : Nat} {recipient : Option Addr} {picked : Nat}
    (hi : LInv s) (h : hook s caller sender id recipient picked = .ok s') : LInv s' := by
  obtain ⟨m, tc, vm', mints, msg, bank1, tc', c, bank2, c', hmc, hhm, _, _, _, _, rfl⟩ := hook_ok h
  intro m2 tc2 h2
  simp only [Option.some.injEq, Prod.mk.injEq] at h2
  obtain ⟨rfl, rfl⟩ := h2
  exact hookMinter_lb (m := vmOf m tc) (hi m tc hmc) hhm

theorem collExec_mc {s s' : State} {coll sender : Addr} {funds : List Coin} {msg : CF.ExecMsg}
    (h : collExec s coll sender funds msg = .ok s') :
    (∀ m tc, s'.mc = some (m, tc) → ∃ tc0, s.mc = some (m, tc0)) := by
  unfold collExec at h
  split at h
  · cases h
  · split at h
    · rename_i mn tc hmc
      split at h
      · split at h
        · cases h
        · cases h
          intro m2 tc2 h2
          simp only [Option.some.injEq, Prod.mk.injEq] at h2
          obtain ⟨rfl, rfl⟩ := h2
          exact ⟨tc, hmc⟩
      · split at h
        · cases h
        · split at h
          · cases h
          · cases h
            intro m2 tc2 h2
            exact ⟨tc2, h2⟩
    · split at h
      · cases h
      · split at h
        · cases h
        · cases h
          intro m2 tc2 h2
          exact ⟨tc2, h2⟩

theorem tmStep_lb {s s' : State} {op : TMF.Op} (hi : LInv s) (hf : foreignOp op = false) (h : tmStep s op = .ok s') : LInv s' := by
  unfold tmStep at h
  split at h
  · cases h
  · rename_i r hr
    split at h
    · rename_i hmc
      cases h
      intro m2 tc2 h2
      simp only [setTm] at h2
      split at h2 <;> simp_all
    · rename_i m c hmc
      split at h
      · cases h
      · split at h
        · cases h
        · rename_i bank c' hrs
          cases h
          have htm : (tmfOf s).minter = some (vmOf m c) := by simp [tmfOf, hmc]
          obtain ⟨vm', hvm', _, _, hled, hmt, _⟩ := tmf_step_full hf hr htm
          intro m2 tc2 h2
          simp only [setTm, hvm', Option.some.injEq, Prod.mk.injEq] at h2
          obtain ⟨rfl, rfl⟩ := h2
          show LB vm'.ledger vm'.mintTokens
          rw [hled, hmt]
          exact hi m c hmc

theorem create_lb {s s' : State} {sender : Addr} {funds : List Coin} {msg : TMF.CreateMsg} {w : TMF.CreateWit}
    {ci : Sys2.CollInit} (h : create s sender funds msg w ci = .ok s') : LInv s' := by
  unfold create at h
  split at h
  · cases h
  · rename_i r hr
    split at h
    · cases h
    · rename_i vm hvm
      split at h
      · cases h
      · split at h
        · cases h
        · rename_i q hq
          cases h
          simp only [TMF.step] at hr
          obtain ⟨b1, ms, b2, m0, _, _, _, _, _, him, rfl⟩ := TMF.createMinter_ok hr
          simp only [Option.some.injEq] at hvm
          subst hvm
          obtain ⟨trading, sup, ck, _, _, _, _, _, _, _, _, rfl⟩ := TMF.instantiateMinter_ok him
          obtain ⟨b3, core, _, _, _, rfl⟩ := CF.instantiate_ok hq
          intro m2 tc2 h2
          simp only [setTm, Option.some.injEq, Prod.mk.injEq] at h2
          obtain ⟨rfl, rfl⟩ := h2
          intro r c
          simp [ofVm, MintLimits.zero]

theorem step_lb {s s' : State} {op : Op} (hi : LInv s) (h : step s op = .ok s') : LInv s' := by
  cases op with
  | tm o =>
    cases o
    case receive caller sender id recipient msgOk picked =>
      simp only [step, receiveDirect] at h
      split at h
      · cases h
      · exact hook_lb hi h
    all_goals
      simp only [step] at h
      first
        | (split at h
           · cases h
           · rename_i hf
             exact tmStep_lb hi (by simpa using hf) h)
        | cases h
  | create sender funds msg w ci => exact create_lb h
  | block hh t =>
    simp only [step] at h
    split at h
    · cases h
    · cases h; exact fun m tc h2 => hi m tc h2
  | srcCreate k sender name symbol m self =>
    simp only [step] at h
    have hmc : s'.mc = s.mc := srcCreate_mc h
    exact fun m tc h2 => hi m tc (hmc ▸ h2)
  | sendNft coll sender id contract recipient msgOk recvOk picked =>
    simp only [step, deposit] at h
    split at h
    · split at h
      · cases h
      · split at h
        · cases h
        · split at h
          · cases h
          · refine hook_lb ?_ h
            exact fun m tc h2 => hi m tc h2
    · intro m tc h2
      obtain ⟨tc0, h0⟩ := collExec_mc h m tc h2
      exact hi m tc0 h0
  | collExec coll sender funds m =>
    simp only [step] at h
    intro m2 tc h2
    obtain ⟨tc0, h0⟩ := collExec_mc h m2 tc h2
    exact hi m2 tc0 h0

theorem run_lb {s : State} (ops : List Op) (hi : LInv s) : LInv (run s ops) := by
  induction ops generalizing s with
  | nil => exact hi
  | cons op ops ih =>
    apply ih
    rcases step'_cases s op with ⟨s', hs, he⟩ | ⟨_, he⟩
    · rw [he]; exact step_lb hi hs
    · rw [he]; exact hi

end LP.SysTM
