import LaunchpadModel.Lemmas.BaseFull
import LaunchpadModel.Lemmas.MintPay
/-!
# Base composite ⟶ C02 aspect model (`LP.MintPay`, family `base`): projection, translation, simulation

The composite's payment code (`BF.networkFee`, `BF.mintMsgs`: `must_pay(NATIVE)`, fee = captured price × live bps, exact,
all of it fair-burned) is shown to agree with `MintPay.payBase` on the projected world.  The family has no whitelist, no
discount, no airdrop, no shuffle: EVERY message is simulated, by at most one aspect op.
-/
namespace LP.BF
open LP

/-! ## projection -/

def payVariant : MintPay.Variant := ⟨.base, false⟩

/-- only `mint_fee_bps` is read by a base mint; the other fields of the aspect record do not exist in this family -/
def payFactory (p : Params) : MintPay.Factory :=
  { mintFeeBps := p.mintFeeBps, airdropPrice := ⟨NATIVE, 0⟩, airdropFeeBps := 0, devAddr := LAUNCHPAD_DAO }

/-- base-minter has no admin and no payment address of its own (`admin` = the creator named at creation, a constant) -/
def payMinter (m : Minter) : MintPay.Minter :=
  { addr := m.addr, admin := m.collAdmin, paymentAddr := none, mintPrice := m.mintPrice, discount := none,
    whitelist := none, hasCap := false }

/-- projection onto the C02 aspect world -/
def payOf (s : State) (m : Minter) : MintPay.World :=
  { v := payVariant, f := payFactory s.params, m := payMinter m, bank := s.bank, now := s.now }

/-! ## the two descriptions of the payment agree -/

theorem payBase_eq (p : Params) (m : Minter) (funds : List Coin) :
    MintPay.payBase (payFactory p) (payMinter m) funds = MintPay.payBaseWith (networkFee p m) (payMinter m) funds := rfl

theorem payBaseWith_of (F : Nat) (m : Minter) (funds : List Coin) (ms : List Msg)
    (h1 : mustPay funds NATIVE = .ok F) (h2 : Sg1.checkedFairBurn funds m.addr F none = .ok ms) :
    MintPay.payBaseWith F (payMinter m) funds = .ok (⟨NATIVE, F⟩, ms) := by
  unfold MintPay.payBaseWith
  rw [h1]
  simp only [ne_eq, not_true_eq_false, if_false]
  have : (payMinter m).addr = m.addr := rfl
  rw [this, h2]

theorem mintMsgs_pay {p : Params} {m : Minter} {funds : List Coin} {ms : List Msg} (h : mintMsgs p m funds = .ok ms) :
    MintPay.payMint payVariant (payFactory p) (payMinter m) 0 false funds = .ok (⟨NATIVE, networkFee p m⟩, ms) := by
  obtain ⟨h1, h2⟩ := mintMsgs_ok h
  have : MintPay.payMint payVariant (payFactory p) (payMinter m) 0 false funds =
      MintPay.payBase (payFactory p) (payMinter m) funds := rfl
  rw [this, payBase_eq]
  exact payBaseWith_of _ m funds ms h1 h2

theorem payMint_now (v : MintPay.Variant) (f : MintPay.Factory) (m : MintPay.Minter) (now now' : Nat) (ad : Bool)
    (funds : List Coin) (hb : v.family = .base) :
    MintPay.payMint v f m now ad funds = MintPay.payMint v f m now' ad funds := by
  unfold MintPay.payMint
  simp [hb]

/-- an accepted composite `Mint` IS `MintPay.mint … true` on the projection -/
theorem mint_pay {s s' : State} {m : Minter} {sender : Addr} {funds : List Coin} {uri : Nat} {uriOk : Bool}
    (h : mint s m sender funds uri uriOk = .ok s') :
    MintPay.mint (payOf s m) sender false funds true = .ok { payOf s m with bank := s'.bank } := by
  obtain ⟨b1, ms, sq, b2, hb1, _, _, hms, _, _, _, hb2, rfl⟩ := mint_ok h
  have hp := mintMsgs_pay hms
  rw [payMint_now payVariant _ _ 0 s.now false funds rfl] at hp
  unfold MintPay.mint
  have e1 : (payOf s m).bank.sendFunds sender (payOf s m).m.addr funds = some b1 := hb1
  rw [e1]
  simp only [Bool.true_eq_false, if_false]
  have e2 : MintPay.payMint (payOf s m).v (payOf s m).f (payOf s m).m (payOf s m).now false funds =
      .ok (⟨NATIVE, networkFee s.params m⟩, ms) := hp
  rw [e2]
  have e3 : MintPay.applyMsgs (payOf s m).m.addr b1 ms = some b2 := hb2
  simp only [e3]

/-! ## op translation -/

def paramsOps (s : State) (u : ParamsUpdate) : List MintPay.Op :=
  match updateParams s.params u with
  | .ok p => [.sudoParams p.mintFeeBps ⟨NATIVE, 0⟩ 0 LAUNCHPAD_DAO true]
  | .error _ => []

/-- composite op ↦ C02 aspect ops (witness `allowed` = the composite's own verdict) -/
def payOps (s : State) (op : Op) : List MintPay.Op :=
  match op with
  | .setTime t => if accepted s op then [.time t] else []
  | .fund a c => [.fund a c]
  | .mint sender funds _ _ => [.mint sender false funds (accepted s op)]
  | .sudoParams u => paramsOps s u
  | .migrate _ (some u) => if accepted s op then paramsOps s u else []
  | _ => []

theorem pay_run_append (w : MintPay.World) (a b : List MintPay.Op) :
    MintPay.run w (a ++ b) = MintPay.run (MintPay.run w a) b := by
  simp [MintPay.run, List.foldl_append]

theorem pay_mint_rejected (w : MintPay.World) (sender : Addr) (ad : Bool) (funds : List Coin) :
    MintPay.step' w (.mint sender ad funds false) = w := by
  have h : ∃ e, MintPay.step w (.mint sender ad funds false) = .error e := by
    simp only [MintPay.step, MintPay.mint]
    split
    · exact ⟨_, rfl⟩
    · exact ⟨.other, by simp⟩
  obtain ⟨e, he⟩ := h
  simp [MintPay.step', he]

theorem pay_step'_ok {w w' : MintPay.World} {op : MintPay.Op} (h : MintPay.step w op = .ok w') :
    MintPay.step' w op = w' := by simp [MintPay.step', h]

theorem pay_run_one (w : MintPay.World) (op : MintPay.Op) : MintPay.run w [op] = MintPay.step' w op := rfl

theorem pay_sudo {s : State} {m : Minter} {u : ParamsUpdate} {p : Params} (hp : updateParams s.params u = .ok p) :
    MintPay.run (payOf s m) (paramsOps s u) = payOf { s with params := p } m := by
  simp [paramsOps, hp, MintPay.run, MintPay.step', MintPay.step, payOf, payFactory]

/-- a REJECTED composite message: the translated aspect ops are rejected too -/
theorem pay_sim_err {s : State} {m : Minter} {op : Op} {e : Err} (h : step s op = .error e) :
    MintPay.run (payOf s m) (payOps s op) = payOf s m := by
  have hacc := accepted_of_err h
  cases op with
  | setTime t => simp [payOps, hacc, MintPay.run]
  | fund a c => simp [step] at h
  | mint sender funds uri uriOk => simp only [payOps, hacc, pay_run_one]; exact pay_mint_rejected _ _ _ _
  | sudoParams u =>
    simp only [step, sudoParams] at h
    split at h
    · rename_i e' he'; simp [payOps, paramsOps, he', MintPay.run]
    · cases h
  | migrate a u => cases u <;> simp [payOps, hacc, MintPay.run]
  | _ => simp [payOps, MintPay.run]

/-- an ACCEPTED composite message acts on the projected world exactly as the translated aspect ops — EVERY message -/
theorem pay_sim_ok {s s' : State} {m : Minter} {op : Op} (hm : s.minter = some m) (h : step s op = .ok s') :
    ∃ m', s'.minter = some m' ∧ payOf s' m' = MintPay.run (payOf s m) (payOps s op) := by
  have hacc := accepted_of_ok h
  cases op with
  | setTime t =>
    simp only [step] at h; split at h <;> cases h
    exact ⟨m, hm, by simp [payOps, hacc, MintPay.run, MintPay.step', MintPay.step, payOf]⟩
  | fund a c =>
    simp only [step] at h; cases h
    exact ⟨m, hm, by simp [payOps, MintPay.run, MintPay.step', MintPay.step, payOf]⟩
  | sudoParams u =>
    simp only [step] at h
    obtain ⟨p, hp, rfl⟩ := sudoParams_ok h
    exact ⟨m, hm, by simp only [payOps]; rw [pay_sudo hp]⟩
  | migrate a u =>
    simp only [step] at h
    obtain ⟨_, hc⟩ := migrate_ok h
    rcases hc with ⟨rfl, rfl⟩ | ⟨u', rfl, hs⟩
    · exact ⟨m, hm, by simp [payOps, MintPay.run]⟩
    · obtain ⟨p, hp, rfl⟩ := sudoParams_ok hs
      exact ⟨m, hm, by simp only [payOps, hacc, if_true]; rw [pay_sudo hp]⟩
  | create sender funds msg w =>
    simp only [step] at h
    obtain ⟨_, _, _, _, hnone, _⟩ := createMinter_ok h
    rw [hm] at hnone; cases hnone
  | instantiateDirect sender => simp [step] at h
  | foreign sender => simp [step] at h
  | mint sender funds uri uriOk =>
    simp only [step] at h
    obtain ⟨m0, hm0, h⟩ := withMinterS_ok h
    rw [hm] at hm0; cases hm0
    have hpay := mint_pay h
    obtain ⟨b1, ms, sq, b2, _, _, _, _, _, _, _, _, rfl⟩ := mint_ok h
    refine ⟨_, rfl, ?_⟩
    simp only [payOps, hacc]
    rw [pay_run_one, pay_step'_ok (show MintPay.step (payOf s m) (.mint sender false funds true) = _ from hpay)]
    rfl
  | updateStartTradingTime sender funds t =>
    simp only [step] at h
    obtain ⟨m0, m', hm0, hf, rfl⟩ := withMinter_ok h
    rw [hm] at hm0; cases hm0
    obtain ⟨_, _, _, _, _, rfl⟩ := updateStartTradingTime_ok hf
    exact ⟨_, rfl, by simp [payOps, MintPay.run, payOf, payMinter]⟩
  | sudoStatus v b e =>
    simp only [step] at h
    obtain ⟨m0, m', hm0, hf, rfl⟩ := withMinter_ok h
    rw [hm] at hm0; cases hm0
    cases hf
    exact ⟨_, rfl, by simp [payOps, MintPay.run, payOf, payMinter]⟩
  | collTransfer sender id to =>
    simp only [step] at h
    obtain ⟨m0, m', hm0, hf, rfl⟩ := withMinter_ok h
    rw [hm] at hm0; cases hm0
    obtain ⟨c, _, _, _, rfl⟩ := collTransfer_ok hf
    exact ⟨_, rfl, by simp [payOps, MintPay.run, payOf, payMinter]⟩
  | collBurn sender id =>
    simp only [step] at h
    obtain ⟨m0, m', hm0, hf, rfl⟩ := withMinter_ok h
    rw [hm] at hm0; cases hm0
    obtain ⟨c, _, _, rfl⟩ := collBurn_ok hf
    exact ⟨_, rfl, by simp [payOps, MintPay.run, payOf, payMinter]⟩
  | collTrading sender t =>
    simp only [step] at h
    obtain ⟨m0, c, hm0, _, rfl⟩ := onColl_ok h
    rw [hm] at hm0; cases hm0
    exact ⟨_, rfl, by simp [payOps, MintPay.run, payOf, payMinter]⟩
  | collCreator sender new =>
    simp only [step] at h
    obtain ⟨m0, c, hm0, _, rfl⟩ := onColl_ok h
    rw [hm] at hm0; cases hm0
    exact ⟨_, rfl, by simp [payOps, MintPay.run, payOf, payMinter]⟩
  | collFreeze sender =>
    simp only [step] at h
    obtain ⟨m0, c, hm0, _, rfl⟩ := onColl_ok h
    rw [hm] at hm0; cases hm0
    exact ⟨_, rfl, by simp [payOps, MintPay.run, payOf, payMinter]⟩
  | collOwn sender a =>
    simp only [step] at h
    obtain ⟨m0, c, hm0, _, rfl⟩ := onColl_ok h
    rw [hm] at hm0; cases hm0
    exact ⟨_, rfl, by simp [payOps, MintPay.run, payOf, payMinter]⟩

end LP.BF
