import LaunchpadModel.Lemmas.VendingFullWindow3
/-!
# Composite ⟶ C04 aspect model (`LP.SaleWindow`), part 4: op translation and forward simulation
-/
namespace LP.VF
open LP
open LP.SaleWindow (Wl Stage Leaf ProofArg WlConfig)

/-- refresh the aspect world's whitelist at `a` from the interface (`Op.wlEnv` is the aspect model's own environment op) -/
def refreshOp (s : State) (a : Addr) (ms : List (Addr × Nat)) (ls : List Leaf) : SaleWindow.Op :=
  .wlEnv a (synthWl (s.wls a) s.now ms ls)

def refreshAttached (s : State) (m : Minter) (ms : List (Addr × Nat)) (ls : List Leaf) : List SaleWindow.Op :=
  match m.whitelist with
  | some a => [refreshOp s a ms ls]
  | none => []

/-- "any other minter message": the aspect model's `minterEnv` with the observable effect read off the post-state -/
def envOp (s' : State) (pp pw : Bool) : List SaleWindow.Op :=
  match s'.minter with
  | some m' => [.minterEnv (effPrice m').amount m'.perAddressLimit (some m'.supply.mintable) pp pw]
  | none => []

/-- composite op ↦ C04 aspect ops (forward simulation with stuttering: nothing for a rejected message) -/
def swOps (s : State) (m : Minter) (op : Op) : List SaleWindow.Op :=
  if accepted s op then
    match op with
    | .setTime t => [.setTime t]
    | .mint sender funds f sv _ =>
      refreshAttached s m (membersOf sender sv) (leavesOf sender f sv) ++ [.mint (mintArgsOf s m sender funds f sv)]
    | .mintTo sender funds rcpt _ => [.mintTo sender rcpt funds]
    | .mintFor sender funds _ rcpt => [.mintTo sender rcpt funds]
    | .setWhitelist sender _ wl _ => refreshAttached s m [] [] ++ [refreshOp s wl [] [], .setWhitelist sender wl]
    | .updateStartTime sender _ t => [.updateStart sender t]
    | .purge _ _ => envOp (step' s op) true m.v.isFlex
    | .updateMintPrice _ _ _ => envOp (step' s op) false false
    | .updateDiscountPrice _ _ _ => envOp (step' s op) false false
    | .removeDiscountPrice _ _ => envOp (step' s op) false false
    | .updatePerAddressLimit _ _ _ => envOp (step' s op) false false
    | .shuffle _ _ _ => envOp (step' s op) false false
    | .burnRemaining _ _ => envOp (step' s op) false false
    | _ => []
  else []

theorem sw_step'_ok {w w' : SaleWindow.State} {op : SaleWindow.Op} (h : SaleWindow.step w op = .ok w') :
    SaleWindow.step' w op = w' := by simp [SaleWindow.step', h]

theorem sw_run_cons (w : SaleWindow.State) (op : SaleWindow.Op) (ops : List SaleWindow.Op) :
    SaleWindow.run w (op :: ops) = SaleWindow.run (SaleWindow.step' w op) ops := rfl

theorem sw_run_nil (w : SaleWindow.State) : SaleWindow.run w [] = w := rfl

theorem sw_run_append (w : SaleWindow.State) (a b : List SaleWindow.Op) :
    SaleWindow.run w (a ++ b) = SaleWindow.run (SaleWindow.run w a) b := by
  simp [SaleWindow.run, List.foldl_append]

def setW (W : Nat → Option Wl) (k : Nat) (w : Wl) : Nat → Option Wl := fun i => if i = k then some w else W i

theorem sw_wlEnv (s : State) (m : Minter) (W : Nat → Option Wl) (k : Nat) (w : Wl) :
    SaleWindow.step' (swOf s m W) (.wlEnv k w) = swOf s m (setW W k w) := by
  simp only [SaleWindow.step', SaleWindow.step, swOf, setW]
  rfl

theorem sw_refreshAttached (s : State) (m : Minter) (W : Nat → Option Wl) (ms : List (Addr × Nat)) (ls : List Leaf) :
    ∃ W1, SaleWindow.run (swOf s m W) (refreshAttached s m ms ls) = swOf s m W1 ∧
      ∀ a, m.whitelist = some a → W1 a = some (synthWl (s.wls a) s.now ms ls) := by
  unfold refreshAttached
  cases hw : m.whitelist with
  | none => exact ⟨W, rfl, by intro a ha; cases ha⟩
  | some a =>
    refine ⟨setW W a (synthWl (s.wls a) s.now ms ls), ?_, ?_⟩
    · simp only [sw_run_cons, sw_run_nil, refreshOp, sw_wlEnv]
    · intro a' ha'; cases ha'; simp [setW]

theorem isPublicMint_cnt {s : State} {m : Minter} {sender : Addr} {f : MintLimits.Fields} {sv : SenderView} {sid cnt : Nat}
    (h : isPublicMint s m sender f sv = .ok (.wl sid cnt)) :
    cnt = if sid = 0 then m.wlc sender else m.stg sid sender := by
  unfold isPublicMint at h
  split at h
  · cases h
  · peel h
    rename_i i hi
    split at h
    · cases h
    · obtain ⟨leaf, cnt', sid', ent, _, hcnt, _, _, hg, _⟩ := wlMintChecks_ok h
      cases hg
      unfold whitelistMintCount at hcnt
      split at hcnt
      · split at hcnt
        · rename_i hr
          simp only [Except.ok.injEq, Prod.mk.injEq] at hcnt
          obtain ⟨h1, h2⟩ := hcnt
          subst h2
          have : i.stageId ≠ 0 := by omega
          simp [this, h1]
        · cases hcnt
      · simp only [Except.ok.injEq, Prod.mk.injEq] at hcnt
        obtain ⟨h1, h2⟩ := hcnt
        subst h2
        simp [h1]

theorem swKindOf_pub {g : MintKind} (h : swKindOf g = .pub) : g = .pub := by
  cases g with
  | pub => rfl
  | wl sid cnt => by_cases hs : sid = 0 <;> simp [swKindOf, hs] at h

theorem bookCount_discount (m : Minter) (sender : Addr) (g : MintKind) :
    (bookCount m sender g).discountPrice = m.discountPrice ∧ (bookCount m sender g).mintPrice = m.mintPrice := by
  cases g with
  | pub => simp [bookCount]
  | wl sid cnt => unfold bookCount; simp only; split <;> simp

/-- an accepted `Mint {…}`, as ONE accepted aspect-model `mint` in any world whose whitelist pool holds the synthesised
whitelist at the attached address -/
theorem sw_mint_step {s s' : State} {m : Minter} {sender : Addr} {funds : List Coin} {f : MintLimits.Fields}
    {sv : SenderView} {picked : Nat} (h : mintSender s m sender funds f sv picked = .ok s')
    (hic : ∀ a i, s.wls a = some i → InfoCoherent i) (W1 : Nat → Option Wl)
    (hW1 : ∀ a, m.whitelist = some a →
      W1 a = some (synthWl (s.wls a) s.now (membersOf sender sv) (leavesOf sender f sv))) :
    ∃ m', s'.minter = some m' ∧ m'.discountPrice = m.discountPrice ∧ m'.mintPrice = m.mintPrice ∧
      SaleWindow.step (swOf s m W1) (.mint (mintArgsOf s m sender funds f sv)) = .ok (swOf s' m' W1) := by
  obtain ⟨b1, g, _, _, hgate, hpub, hex⟩ := mintSender_ok h
  obtain ⟨price, ms, sup, b2, hz, hp, hpay, _, _, htake, _, rfl⟩ := executeMint_ok hex
  obtain ⟨hd1, hd2⟩ := bookCount_discount m sender g
  refine ⟨_, rfl, hd1, hd2, ?_⟩
  have hWm : ∀ a i, m.whitelist = some a → s.wls a = some i → W1 a = some (mintWl i s.now sender f sv) := by
    intro a i ha hi; rw [hW1 a ha, hi]; rfl
  have hk := sw_isPublicMint (funds := funds) W1 (fun a i _ hi => hic a i hi) hWm hgate
  have hprice := sw_mintPrice_sender W1 (fun a i ha hi => ⟨_, _, hWm a i ha hi⟩) hp
  obtain ⟨hz', hmt⟩ := takeToken_mintable htake
  have hmint : (swMinter m).mintable = some (sup.mintable + 1) := by
    simp only [swMinter]; congr 1; omega
  have hexA := sw_executeMint_intro (s := swOf s m W1) (m := swMinter m) (sender := sender) (funds := funds)
    (isAdmin := false) (kind := swKindOf g) hmint hprice hpay
  have hms := sw_mintSender_intro (s := swOf s m W1) (m := swMinter m) (a := mintArgsOf s m sender funds f sv)
    (kind := swKindOf g) rfl hk
    (by
      intro hkp
      have := hpub (swKindOf_pub hkp)
      exact this)
    hexA
  simp only [SaleWindow.step, SaleWindow.withMinter]
  show (match (swOf s m W1).minter with
    | none => Except.error Err.notFound
    | some m0 => (SaleWindow.mintSender (swOf s m W1) m0 (mintArgsOf s m sender funds f sv)).map
        fun m' => { swOf s m W1 with minter := some m' }) = _
  simp only [swOf] at hms ⊢
  rw [hms]
  simp only [Except.map]
  have hbk := swMinter_booked m sender g sup (if false = true then m.airdropCount + 1 else m.airdropCount)
    (MintLimits.upd m.received sender (m.received sender + 1))
    (fun sid cnt hg => by rw [hg] at hgate; exact isPublicMint_cnt hgate) sup.mintable rfl
  have hv : (bookCount m sender g).v = m.v := by
    cases g with
    | pub => rfl
    | wl sid cnt => unfold bookCount; simp only; split <;> rfl
  rw [hbk]
  simp only [hv]
  rfl

/-- … preceded by the refresh of the attached whitelist from the interface -/
theorem sw_mint_ok {s s' : State} {m : Minter} {sender : Addr} {funds : List Coin} {f : MintLimits.Fields}
    {sv : SenderView} {picked : Nat} (h : mintSender s m sender funds f sv picked = .ok s')
    (hic : ∀ a i, s.wls a = some i → InfoCoherent i) (W : Nat → Option Wl) :
    ∃ m' W', s'.minter = some m' ∧ m'.discountPrice = m.discountPrice ∧ m'.mintPrice = m.mintPrice ∧
      SaleWindow.run (swOf s m W)
        (refreshAttached s m (membersOf sender sv) (leavesOf sender f sv) ++ [.mint (mintArgsOf s m sender funds f sv)]) =
        swOf s' m' W' := by
  obtain ⟨W1, hrun1, hW1⟩ := sw_refreshAttached s m W (membersOf sender sv) (leavesOf sender f sv)
  obtain ⟨m', hm', hd1, hd2, hstep⟩ := sw_mint_step h hic W1 hW1
  refine ⟨m', W1, hm', hd1, hd2, ?_⟩
  rw [sw_run_append, hrun1, sw_run_cons, sw_run_nil]
  exact sw_step'_ok hstep

/-- an accepted `MintTo` / `MintFor` is the aspect model's `mintTo` (airdrop price, booked on the admin's public counter) -/
theorem sw_mintAdmin_ok {s s' : State} {m : Minter} {sender : Addr} {funds : List Coin} {rcpt : Addr} {pk : Pick}
    (h : mintAdmin s m sender funds rcpt pk = .ok s') (hpc : ParamsCoherent s) (W : Nat → Option Wl) :
    ∃ m', s'.minter = some m' ∧ m'.discountPrice = m.discountPrice ∧ m'.mintPrice = m.mintPrice ∧
      SaleWindow.run (swOf s m W) [.mintTo sender rcpt funds] = swOf s' m' W := by
  obtain ⟨b1, _, hadm, hex⟩ := mintAdmin_ok h
  obtain ⟨price, ms, sup, b2, hz, hp, hpay, _, _, htake, _, rfl⟩ := executeMint_ok hex
  refine ⟨_, rfl, rfl, rfl, ?_⟩
  rw [sw_run_cons, sw_run_nil]
  apply sw_step'_ok
  have hprice : SaleWindow.mintPrice (swOf s m W) (swMinter m) true = .ok price := by
    rw [sw_mintPrice_admin W hpc]
    simp only [mintPrice, if_true] at hp
    exact hp
  obtain ⟨hz', hmt⟩ := takeToken_mintable htake
  have hmint : (swMinter m).mintable = some (sup.mintable + 1) := by
    simp only [swMinter]; congr 1; omega
  have hexA := sw_executeMint_intro (s := swOf s m W) (m := swMinter m) (sender := sender) (funds := funds)
    (isAdmin := true) (kind := .pub) hmint hprice hpay
  have hmt' : SaleWindow.mintTo (swOf s m W) (swMinter m) sender rcpt funds =
      .ok { swMinter m with mintable := some sup.mintable, pubCount := SaleWindow.bump m.pub sender } := by
    unfold SaleWindow.mintTo
    have hne : ¬ sender ≠ (swMinter m).admin := by simp [swMinter, hadm]
    simp only [hne, bind, Except.bind, pure, Except.pure, swOf, swVariant]
    simp only [swOf, swVariant] at hexA
    simp only [if_false, reduceCtorEq]
    exact hexA
  simp only [SaleWindow.step, SaleWindow.withMinter]
  show (match (swOf s m W).minter with
    | none => Except.error Err.notFound
    | some m0 => (SaleWindow.mintTo (swOf s m W) m0 sender rcpt funds).map
        fun m' => { swOf s m W with minter := some m' }) = _
  simp only [swOf] at hmt' ⊢
  rw [hmt']
  simp only [Except.map]
  rfl

theorem sw_setWhitelist_intro {s : SaleWindow.State} {m : SaleWindow.Minter} {sender : Addr} {k : Nat} {w : Wl}
    (hv : s.v.family = .vending) (hadm : sender = m.admin) (hbefore : s.now < m.start)
    (hold : ∀ k0, m.wl = some k0 → ∃ w0, s.wls k0 = some w0 ∧ SaleWindow.configParses s.v.shape w0.kind = true ∧
      (w0.config s.now).isActive = false)
    (hw : s.wls k = some w) (hparse : SaleWindow.configParses s.v.shape w.kind = true)
    (hinact : (w.config s.now).isActive = false)
    (hden : s.v.shape = .flex ∨ (w.config s.now).price.denom = m.price.denom)
    (hmin : s.params.minPrice ≤ (w.config s.now).price.amount) (hfd : s.params.denom = (w.config s.now).price.denom) :
    SaleWindow.setWhitelist s m sender k = .ok { m with wl := some k } := by
  unfold SaleWindow.setWhitelist
  have h1 : ¬ sender ≠ m.admin := by simp [hadm]
  have h2 : decide (s.now < m.start) = true := by simp [hbefore]
  have h5 : ¬ s.params.minPrice > (w.config s.now).price.amount := by omega
  simp only [hv, h1, h2, bind, Except.bind, pure, Except.pure, hw, hparse, hinact]
  cases hwl : m.wl with
  | none =>
    simp only [hwl]
    rcases hden with hd | hd
    · simp [hd, h5, hfd]
    · simp [hd, h5, hfd]
  | some k0 =>
    obtain ⟨w0, hw0, hp0, hi0⟩ := hold k0 hwl
    simp only [hw0, hp0, hi0]
    rcases hden with hd | hd
    · simp [hd, h5, hfd]
    · simp [hd, h5, hfd]

theorem sw_updateStart_intro {s : SaleWindow.State} {m : SaleWindow.Minter} {sender : Addr} {t : Nat}
    (hv : s.v.family = .vending) (hadm : sender = m.admin) (hbefore : s.now < m.start) (hnow : s.now ≤ t)
    (hgen : SaleWindow.GENESIS ≤ t) : SaleWindow.updateStart s m sender t = .ok { m with start := t } := by
  unfold SaleWindow.updateStart
  have h1 : ¬ sender ≠ m.admin := by simp [hadm]
  have h2 : ¬ s.now ≥ m.start := by omega
  have h3 : ¬ s.now > t := by omega
  have h4 : ¬ t < SaleWindow.GENESIS := by omega
  simp [hv, h1, h2, h3, h4, bind, Except.bind, pure, Except.pure]

/-- the environment assumptions under which the C04 aspect model can follow the composite: the factory's minimum and
airdrop price share one denom (the aspect model has a single `Params.denom`), and every whitelist's answers are coherent -/
structure SwEnv (s : State) : Prop where
  params : ParamsCoherent s
  infos : ∀ a i, s.wls a = some i → InfoCoherent i

theorem GENESIS_sw : SaleWindow.GENESIS = GENESIS := rfl

/-- the aspect model's `minterEnv` reproduces the projection of a post-state whose schedule fields are untouched -/
theorem sw_env_step (s s' : State) (m m' : Minter) (W : Nat → Option Wl) (pp pw : Bool)
    (hnow : s'.now = s.now) (hpar : swParams s'.params = swParams s.params)
    (h1 : m'.v = m.v) (h2 : m'.admin = m.admin) (h3 : m'.startTime = m.startTime) (h4 : m'.whitelist = m.whitelist)
    (h5 : m'.stg = m.stg) (h6 : m'.tot = m.tot) (hden : (effPrice m').denom = (effPrice m).denom)
    (hpub : m'.pub = if pp then (fun _ => 0) else m.pub) (hwlc : m'.wlc = if pw then (fun _ => 0) else m.wlc) :
    SaleWindow.step' (swOf s m W)
      (.minterEnv (effPrice m').amount m'.perAddressLimit (some m'.supply.mintable) pp pw) = swOf s' m' W := by
  have hprice : (⟨(effPrice m).denom, (effPrice m').amount⟩ : Coin) = effPrice m' := by
    rw [← hden]
  simp only [SaleWindow.step', SaleWindow.step, SaleWindow.withMinter, swOf, swMinter, hprice, hnow, hpar, h1, h2, h3, h4,
    h5, h6, hpub, hwlc]
  cases pp <;> cases pw <;> rfl

theorem discDenom_of_eq {m m' : Minter} (h : DiscDenom m) (h1 : m'.discountPrice = m.discountPrice)
    (h2 : m'.mintPrice = m.mintPrice) : DiscDenom m' := by
  intro d hd; rw [h1] at hd; rw [h2]; exact h d hd

end LP.VF
