import LaunchpadModel.Lemmas.TokenMergeFull
import LaunchpadModel.Lemmas.MintPay
/-!
# Token-merge composite ⟶ C02 aspect model (`LP.MintPay`, family `tokenMerge`): projection, translation, simulation

The composite's airdrop price / fee / payout code (`TMF.networkFee`, `TMF.airdropMsgs`, written from the Rust independently:
`airdrop_mint_price`, `airdrop_mint_fee_bps`, `distribute_mint_fees(fee, false, None)`, the rest to the ADMIN) is shown to agree
with `MintPay.selectPrice` / `MintPay.splitMsgs` on the projected world.  A deposit (`SendNft` / a direct hook call) is the aspect
model's token-merge non-admin `mint` with no funds: no payment check, no bank message.  `Shuffle` (a fair-burn of the shuffle
fee by the minter) has no aspect op, exactly as for the vending family.
-/
namespace LP.TMF
open LP

/-! ## projection -/

def payVariant : MintPay.Variant := ⟨.tokenMerge, false⟩

/-- the token-merge factory has no `mint_fee_bps` and no developer address; neither is read on the token-merge paths -/
def payFactory (p : Params) : MintPay.Factory :=
  { mintFeeBps := 0, airdropPrice := p.airdropMintPrice, airdropFeeBps := p.airdropMintFeeBps, devAddr := LAUNCHPAD_DAO }

/-- no payment address, no price of its own, no discount, no whitelist -/
def payMinter (m : Minter) : MintPay.Minter :=
  { addr := m.addr, admin := m.admin, paymentAddr := none, mintPrice := ⟨NATIVE, 0⟩, discount := none, whitelist := none,
    hasCap := true }

/-- projection onto the C02 aspect world -/
def payOf (s : State) (m : Minter) : MintPay.World :=
  { v := payVariant, f := payFactory s.params, m := payMinter m, bank := s.bank, now := s.now }

/-! ## the two descriptions of price, fee and payout agree -/

theorem networkFee_eq (p : Params) :
    MintPay.networkFee (payFactory p) true p.airdropMintPrice = networkFee p := by
  unfold MintPay.networkFee MintPay.feeBps networkFee
  simp only [payFactory, if_true]

/-- `MintPay.splitMsgs` on the projection, written out -/
theorem splitMsgs_airdrop (p : Params) (m : Minter) :
    MintPay.splitMsgs payVariant (payFactory p) (payMinter m) true p.airdropMintPrice =
      (if p.airdropMintPrice.amount < networkFee p then .error .other
       else .ok ((if networkFee p = 0 then [] else Sg1.distributeMintFees ⟨p.airdropMintPrice.denom, networkFee p⟩ false none) ++
         (if p.airdropMintPrice.amount - networkFee p = 0 then []
          else [Msg.send m.admin ⟨p.airdropMintPrice.denom, p.airdropMintPrice.amount - networkFee p⟩]))) := by
  have hdev : MintPay.devOf payVariant (payFactory p) = none := rfl
  have hsel : MintPay.sellerOf payVariant (payMinter m) = m.admin := rfl
  have hft : MintPay.featuredOf payVariant = false := rfl
  unfold MintPay.splitMsgs MintPay.splitWith MintPay.feeMsgs MintPay.sellerMsgs
  rw [networkFee_eq, hdev, hsel, hft]

theorem splitMsgs_airdrop_ok {p : Params} {m : Minter} (hnot : ¬ p.airdropMintPrice.amount < networkFee p) :
    MintPay.splitMsgs payVariant (payFactory p) (payMinter m) true p.airdropMintPrice =
      .ok ((if networkFee p = 0 then [] else Sg1.distributeMintFees ⟨p.airdropMintPrice.denom, networkFee p⟩ false none) ++
         (if p.airdropMintPrice.amount - networkFee p = 0 then []
          else [Msg.send m.admin ⟨p.airdropMintPrice.denom, p.airdropMintPrice.amount - networkFee p⟩])) := by
  rw [splitMsgs_airdrop, if_neg hnot]

/-- (term-mode composition: rewriting with the equation for `ms` sends the kernel into the fee arithmetic) -/
theorem airdropMsgs_eq {p : Params} {m : Minter} {ms : List Msg} (h : airdropMsgs p m = .ok ms) :
    MintPay.splitMsgs payVariant (payFactory p) (payMinter m) true p.airdropMintPrice = .ok ms :=
  (splitMsgs_airdrop_ok (Nat.not_lt.mpr (airdropMsgs_ok h).1)).trans (congrArg Except.ok (airdropMsgs_ok h).2.symm)

theorem payMint_airdrop {p : Params} {m : Minter} {now : Nat} {funds : List Coin} {ms : List Msg}
    (hpay : mayPay funds p.airdropMintPrice.denom = .ok p.airdropMintPrice.amount)
    (hms : MintPay.splitMsgs payVariant (payFactory p) (payMinter m) true p.airdropMintPrice = .ok ms) :
    MintPay.payMint payVariant (payFactory p) (payMinter m) now true funds = .ok (p.airdropMintPrice, ms) := by
  have hsel : MintPay.selectPrice payVariant (payFactory p) (payMinter m) now true = .ok p.airdropMintPrice := by
    unfold MintPay.selectPrice
    simp [payVariant, payFactory]
  have hpm : MintPay.payMint payVariant (payFactory p) (payMinter m) now true funds =
      MintPay.paySale payVariant (payFactory p) (payMinter m) now true funds := by
    unfold MintPay.payMint
    simp [payVariant]
  rw [hpm]
  unfold MintPay.paySale
  rw [hsel]
  simp only
  rw [hpay]
  simp only [ne_eq, not_true_eq_false, if_false]
  rw [hms]

theorem mint_of_payMint {w : MintPay.World} {sender : Addr} {isAdmin : Bool} {funds : List Coin} {b1 b2 : MintPay.Bank}
    {price : Coin} {ms : List Msg} (hb1 : w.bank.sendFunds sender w.m.addr funds = some b1)
    (hp : MintPay.payMint w.v w.f w.m w.now isAdmin funds = .ok (price, ms))
    (hb2 : MintPay.applyMsgs w.m.addr b1 ms = some b2) :
    MintPay.mint w sender isAdmin funds true = .ok { w with bank := b2 } := by
  unfold MintPay.mint
  rw [hb1]
  simp only [Bool.true_eq_false, if_false]
  rw [hp]
  simp only
  rw [hb2]

/-- **an accepted composite airdrop IS an accepted aspect-model mint on the projected world**, with the projected bank -/
theorem mintAdmin_pay {s s' : State} {m : Minter} {sender : Addr} {funds : List Coin} {rcpt : Addr} {pk : VF.Pick}
    (h : mintAdmin s m sender funds rcpt pk = .ok s') :
    MintPay.mint (payOf s m) sender true funds true = .ok { payOf s m with bank := s'.bank } := by
  obtain ⟨b1, ms, m1, b2, hb1, _, hpay, hms0, _, hb2, hs'⟩ := mintAdmin_ok h
  have hbank : s'.bank = b2 := by rw [hs']
  rw [hbank]
  exact mint_of_payMint (w := payOf s m) hb1 (payMint_airdrop hpay (airdropMsgs_eq hms0)) hb2

/-- a deposit carries no funds, is not checked for payment and emits no bank message -/
theorem deposit_pay (s : State) (m : Minter) (c : Addr) :
    MintPay.mint (payOf s m) c false [] true = .ok (payOf s m) := by
  unfold MintPay.mint MintPay.payMint
  simp [payOf, payVariant, MintPay.Bank.sendFunds, MintPay.applyMsgs]

/-! ## op translation -/

/-- composite op ↦ C02 aspect ops (witness `allowed` = the composite's own verdict) -/
def payOps (s : State) (op : Op) : List MintPay.Op :=
  match op with
  | .setTime t => if accepted s op then [.time t] else []
  | .fund a c => [.fund a c]
  | .send _ coll _ _ _ _ _ => [.mint coll false [] (accepted s op)]
  | .receive caller _ _ _ _ _ => [.mint caller false [] (accepted s op)]
  | .mintTo sender funds _ _ => [.mint sender true funds (accepted s op)]
  | .mintFor sender funds _ _ => [.mint sender true funds (accepted s op)]
  | .sudoParams u =>
    match updateParams s.params u with
    | .ok p => [.sudoParams 0 p.airdropMintPrice p.airdropMintFeeBps LAUNCHPAD_DAO true]
    | .error _ => []
  | _ => []

theorem pay_run_append (w : MintPay.World) (a b : List MintPay.Op) :
    MintPay.run w (a ++ b) = MintPay.run (MintPay.run w a) b := by
  simp [MintPay.run, List.foldl_append]

theorem pay_mint_rejected (w : MintPay.World) (sender : Addr) (ad : Bool) (funds : List Coin) :
    MintPay.step' w (.mint sender ad funds false) = w := by
  have h : ∃ e, MintPay.step w (.mint sender ad funds false) = .error e := by
    simp only [MintPay.step, MintPay.mint]
    split
    · exact ⟨_, rfl⟩
    · exact ⟨.other, by simp⟩
  obtain ⟨e, he⟩ := h
  simp [MintPay.step', he]

theorem pay_step'_ok {w w' : MintPay.World} {op : MintPay.Op} (h : MintPay.step w op = .ok w') :
    MintPay.step' w op = w' := by simp [MintPay.step', h]

theorem pay_run_one (w : MintPay.World) (op : MintPay.Op) : MintPay.run w [op] = MintPay.step' w op := rfl
theorem pay_run_nil (w : MintPay.World) : MintPay.run w [] = w := rfl

/-- a REJECTED composite message: the translated aspect ops are rejected too -/
theorem pay_sim_err {s : State} {m : Minter} {op : Op} {e : Err} (h : step s op = .error e) :
    MintPay.run (payOf s m) (payOps s op) = payOf s m := by
  have hacc := accepted_of_err h
  cases op with
  | setTime t => simp [payOps, hacc, MintPay.run]
  | fund a c => simp [step] at h
  | send caller coll id contract recipient msgOk picked => simp only [payOps, hacc, pay_run_one]; exact pay_mint_rejected _ _ _ _
  | receive caller sender id recipient msgOk picked => simp only [payOps, hacc, pay_run_one]; exact pay_mint_rejected _ _ _ _
  | mintTo sender funds rcpt picked => simp only [payOps, hacc, pay_run_one]; exact pay_mint_rejected _ _ _ _
  | mintFor sender funds id rcpt => simp only [payOps, hacc, pay_run_one]; exact pay_mint_rejected _ _ _ _
  | sudoParams u =>
    simp only [step] at h
    split at h
    · rename_i e' he'; simp [payOps, he', MintPay.run]
    · cases h
  | _ => simp [payOps, MintPay.run]

/-- the bank, the clock and the projected minter / parameters after an accepted deposit are those before it -/
theorem receive_pay {s s' : State} {m : Minter} {caller sender : Addr} {tokenId : Nat} {recipient : Option Addr}
    {picked : Nat} (h : receiveNft s m caller sender tokenId recipient picked = .ok s') :
    ∃ m', s'.minter = some m' ∧ payOf s' m' = payOf s m := by
  obtain ⟨amt, _, _, _, _, hcase⟩ := receiveNft_ok h
  rcases hcase with ⟨_, m1, hd, hb⟩ | ⟨_, hb⟩
  · obtain ⟨sup, _, _, _, _, rfl⟩ := deliver_ok hd
    obtain ⟨x, _, rfl⟩ := burnDeposit_ok hb
    exact ⟨_, rfl, rfl⟩
  · obtain ⟨x, _, rfl⟩ := burnDeposit_ok hb
    exact ⟨_, rfl, rfl⟩

/-- an ACCEPTED composite message other than `Shuffle` acts on the projected world exactly as the translated aspect ops -/
theorem pay_sim_ok {s s' : State} {m : Minter} {op : Op} (hm : s.minter = some m) (h : step s op = .ok s')
    (hop : ∀ sender funds perm, op ≠ .shuffle sender funds perm) :
    ∃ m', s'.minter = some m' ∧ payOf s' m' = MintPay.run (payOf s m) (payOps s op) := by
  have hacc := accepted_of_ok h
  cases op with
  | setTime t =>
    simp only [step] at h; split at h <;> cases h
    exact ⟨m, hm, by simp only [payOps, hacc, if_true, pay_run_one]; rfl⟩
  | fund a c =>
    simp only [step] at h; cases h
    exact ⟨m, hm, by simp only [payOps, pay_run_one]; rfl⟩
  | srcNew c =>
    simp only [step] at h; cases h
    exact ⟨m, hm, by simp only [payOps, pay_run_nil]; rfl⟩
  | srcGive c id to =>
    simp only [step] at h
    obtain ⟨x, _, rfl⟩ := onSrcs_ok h
    exact ⟨m, hm, by simp only [payOps, pay_run_nil]; rfl⟩
  | srcTransfer caller c id to =>
    simp only [step] at h
    obtain ⟨x, _, rfl⟩ := onSrcs_ok h
    exact ⟨m, hm, by simp only [payOps, pay_run_nil]; rfl⟩
  | send caller coll id contract recipient msgOk picked =>
    simp only [step] at h
    obtain ⟨x, m0, _, hm0, _, _, hr⟩ := sendNft_ok h
    rw [hm] at hm0; cases hm0
    obtain ⟨m', hm', heq⟩ := receive_pay hr
    refine ⟨m', hm', ?_⟩
    simp only [payOps, hacc, pay_run_one]
    rw [pay_step'_ok (show MintPay.step (payOf s m) (.mint coll false [] true) = _ from deposit_pay s m coll), heq]
    rfl
  | receive caller sender id recipient msgOk picked =>
    simp only [step] at h
    obtain ⟨m0, hm0, h⟩ := withMinterS_ok h
    rw [hm] at hm0; cases hm0
    obtain ⟨_, hr⟩ := receiveDirect_ok h
    obtain ⟨m', hm', heq⟩ := receive_pay hr
    refine ⟨m', hm', ?_⟩
    simp only [payOps, hacc, pay_run_one]
    rw [pay_step'_ok (show MintPay.step (payOf s m) (.mint caller false [] true) = _ from deposit_pay s m caller), heq]
  | create sender funds msg w =>
    simp only [step] at h
    obtain ⟨_, _, _, _, hnone, _⟩ := createMinter_ok h
    rw [hm] at hnone; cases hnone
  | instantiateDirect sender => simp [step] at h
  | mintTo sender funds rcpt picked =>
    simp only [step] at h
    obtain ⟨m0, hm0, h⟩ := withMinterS_ok h
    rw [hm] at hm0; cases hm0
    have hpay := mintAdmin_pay h
    obtain ⟨b1, ms, m1, b2, _, _, _, _, hd, _, rfl⟩ := mintAdmin_ok h
    obtain ⟨sup, _, _, _, _, rfl⟩ := deliver_ok hd
    refine ⟨_, rfl, ?_⟩
    simp only [payOps, hacc, pay_run_one]
    rw [pay_step'_ok (show MintPay.step (payOf s m) (.mint sender true funds true) = _ from hpay)]
    rfl
  | mintFor sender funds id rcpt =>
    simp only [step] at h
    obtain ⟨m0, hm0, h⟩ := withMinterS_ok h
    rw [hm] at hm0; cases hm0
    have hpay := mintAdmin_pay h
    obtain ⟨b1, ms, m1, b2, _, _, _, _, hd, _, rfl⟩ := mintAdmin_ok h
    obtain ⟨sup, _, _, _, _, rfl⟩ := deliver_ok hd
    refine ⟨_, rfl, ?_⟩
    simp only [payOps, hacc, pay_run_one]
    rw [pay_step'_ok (show MintPay.step (payOf s m) (.mint sender true funds true) = _ from hpay)]
    rfl
  | purge sender funds =>
    simp only [step] at h
    obtain ⟨m0, m', hm0, hf, rfl⟩ := withMinter_ok h
    rw [hm] at hm0; cases hm0
    obtain ⟨_, _, rfl⟩ := purge_ok hf
    exact ⟨_, rfl, by simp only [payOps, pay_run_nil]; rfl⟩
  | updateStartTime sender funds t =>
    simp only [step] at h
    obtain ⟨m0, m', hm0, hf, rfl⟩ := withMinter_ok h
    rw [hm] at hm0; cases hm0
    obtain ⟨_, _, _, _, _, rfl⟩ := updateStartTime_ok hf
    exact ⟨_, rfl, by simp only [payOps, pay_run_nil]; rfl⟩
  | updateStartTradingTime sender funds t =>
    simp only [step] at h
    obtain ⟨m0, m', hm0, hf, rfl⟩ := withMinter_ok h
    rw [hm] at hm0; cases hm0
    obtain ⟨_, _, _, _, _, rfl⟩ := updateStartTradingTime_ok hf
    exact ⟨_, rfl, by simp only [payOps, pay_run_nil]; rfl⟩
  | updatePerAddressLimit sender funds n =>
    simp only [step] at h
    obtain ⟨m0, m', hm0, hf, rfl⟩ := withMinter_ok h
    rw [hm] at hm0; cases hm0
    obtain ⟨_, _, _, _, _, rfl⟩ := updatePerAddressLimit_ok hf
    exact ⟨_, rfl, by simp only [payOps, pay_run_nil]; rfl⟩
  | shuffle sender funds perm => exact absurd rfl (hop sender funds perm)
  | burnRemaining sender funds =>
    simp only [step] at h
    obtain ⟨m0, m', hm0, hf, rfl⟩ := withMinter_ok h
    rw [hm] at hm0; cases hm0
    obtain ⟨_, _, _, _, rfl⟩ := burnRemaining_ok hf
    exact ⟨_, rfl, by simp only [payOps, pay_run_nil]; rfl⟩
  | sudoStatus v b e =>
    simp only [step] at h
    obtain ⟨m0, m', hm0, hf, rfl⟩ := withMinter_ok h
    rw [hm] at hm0; cases hm0
    cases hf
    exact ⟨_, rfl, by simp only [payOps, pay_run_nil]; rfl⟩
  | sudoParams u =>
    simp only [step] at h
    split at h
    · cases h
    · rename_i p hp
      cases h
      refine ⟨m, hm, ?_⟩
      simp only [payOps, hp, pay_run_one]
      rfl
  | collTransfer sender id to =>
    simp only [step] at h
    obtain ⟨m0, m', hm0, hf, rfl⟩ := withMinter_ok h
    rw [hm] at hm0; cases hm0
    obtain ⟨_, _, _, _, rfl⟩ := collTransfer_ok hf
    exact ⟨_, rfl, by simp only [payOps, pay_run_nil]; rfl⟩
  | collBurn sender id =>
    simp only [step] at h
    obtain ⟨m0, m', hm0, hf, rfl⟩ := withMinter_ok h
    rw [hm] at hm0; cases hm0
    obtain ⟨_, _, _, rfl⟩ := collBurn_ok hf
    exact ⟨_, rfl, by simp only [payOps, pay_run_nil]; rfl⟩
  | collTrading sender t =>
    simp only [step] at h
    obtain ⟨m0, c, hm0, _, rfl⟩ := onColl_ok h
    rw [hm] at hm0; cases hm0
    exact ⟨_, rfl, by simp only [payOps, pay_run_nil]; rfl⟩
  | collCreator sender new =>
    simp only [step] at h
    obtain ⟨m0, c, hm0, _, rfl⟩ := onColl_ok h
    rw [hm] at hm0; cases hm0
    exact ⟨_, rfl, by simp only [payOps, pay_run_nil]; rfl⟩
  | collFreeze sender =>
    simp only [step] at h
    obtain ⟨m0, c, hm0, _, rfl⟩ := onColl_ok h
    rw [hm] at hm0; cases hm0
    exact ⟨_, rfl, by simp only [payOps, pay_run_nil]; rfl⟩
  | collOwn sender a =>
    simp only [step] at h
    obtain ⟨m0, c, hm0, _, rfl⟩ := onColl_ok h
    rw [hm] at hm0; cases hm0
    exact ⟨_, rfl, by simp only [payOps, pay_run_nil]; rfl⟩

end LP.TMF
