import LaunchpadModel.Lemmas.LaunchpadSystemOEMint
/-!
# Frame of the open-edition minter's whitelist counters (ported from `Lemmas/LaunchpadSystemCounters.lean`)

Only a buyer's `Mint` writes `WHITELIST_MINTER_ADDRS` / `WHITELIST_{FS,SS,TS}_MINTER_ADDRS` upwards: every other `OE` op leaves the
stage maps alone and leaves `WHITELIST_MINTER_ADDRS` alone or clears it (`Purge` of the -wl-flex crate); a fresh minter starts at zero.
-/
namespace LP.SysOE
open LP

theorem oe_counters_frame {c c' : OE.State} {op : OE.Op} {m m' : OE.Minter} (h : OE.step c op = .ok c')
    (hm : c.minter = some m) (hm' : c'.minter = some m')
    (hnm : ∀ sender funds f sv, op ≠ .mint sender funds f sv) :
    m'.stg = m.stg ∧ (m'.wlc = m.wlc ∨ m'.wlc = MintLimits.zero) := by
  cases op with
  | setTime t =>
    simp only [OE.step] at h
    split at h <;> cases h
    simp only at hm'; rw [hm] at hm'; cases hm'; exact ⟨rfl, Or.inl rfl⟩
  | fund a x =>
    simp only [OE.step] at h; cases h
    simp only at hm'; rw [hm] at hm'; cases hm'; exact ⟨rfl, Or.inl rfl⟩
  | wlEnv k i =>
    simp only [OE.step] at h; cases h
    simp only at hm'; rw [hm] at hm'; cases hm'; exact ⟨rfl, Or.inl rfl⟩
  | sudoParams u =>
    simp only [OE.step] at h
    split at h <;> cases h
    simp only at hm'; rw [hm] at hm'; cases hm'; exact ⟨rfl, Or.inl rfl⟩
  | instantiateDirect sender => simp [OE.step] at h
  | create sender funds msg w =>
    simp only [OE.step] at h
    obtain ⟨_, _, _, _, _, hnone, _⟩ := OE.createMinter_ok h
    rw [hm] at hnone; cases hnone
  | mint sender funds f sv => exact absurd rfl (hnm sender funds f sv)
  | mintTo sender funds rcpt =>
    simp only [OE.step] at h
    obtain ⟨m0, hm0, h⟩ := OE.withMinterS_ok h
    rw [hm] at hm0; cases hm0
    obtain ⟨_, _, _, _, h⟩ := OE.mintAdmin_ok h
    obtain ⟨_, _, _, _, _, _, _, _, _, _, _, rfl⟩ := OE.executeMint_ok h
    simp only [Option.some.injEq] at hm'; subst hm'
    exact ⟨rfl, Or.inl rfl⟩
  | setWhitelist sender funds wl valid =>
    simp only [OE.step] at h
    obtain ⟨m0, m1, hm0, hf, rfl⟩ := OE.withMinter_ok h
    rw [hm] at hm0
    cases hm0
    simp only [Option.some.injEq] at hm'
    subst hm'
    unfold OE.setWhitelist at hf
    repeat (first | cases hf | split at hf)
    all_goals exact ⟨rfl, Or.inl rfl⟩
  | purge sender funds =>
    simp only [OE.step] at h
    obtain ⟨m0, m1, hm0, hf, rfl⟩ := OE.withMinter_ok h
    rw [hm] at hm0
    cases hm0
    simp only [Option.some.injEq] at hm'
    subst hm'
    unfold OE.purge at hf
    repeat (first | cases hf | split at hf)
    all_goals (refine ⟨rfl, ?_⟩; cases m.v.isFlex <;> simp)
  | updateMintPrice sender funds p =>
    simp only [OE.step] at h
    obtain ⟨m0, m1, hm0, hf, rfl⟩ := OE.withMinter_ok h
    rw [hm] at hm0
    cases hm0
    simp only [Option.some.injEq] at hm'
    subst hm'
    unfold OE.updateMintPrice at hf
    repeat (first | cases hf | split at hf)
    all_goals exact ⟨rfl, Or.inl rfl⟩
  | updateStartTime sender funds t =>
    simp only [OE.step] at h
    obtain ⟨m0, m1, hm0, hf, rfl⟩ := OE.withMinter_ok h
    rw [hm] at hm0
    cases hm0
    simp only [Option.some.injEq] at hm'
    subst hm'
    unfold OE.updateStartTime at hf
    repeat (first | cases hf | split at hf)
    all_goals exact ⟨rfl, Or.inl rfl⟩
  | updateEndTime sender funds t =>
    simp only [OE.step] at h
    obtain ⟨m0, m1, hm0, hf, rfl⟩ := OE.withMinter_ok h
    rw [hm] at hm0
    cases hm0
    simp only [Option.some.injEq] at hm'
    subst hm'
    unfold OE.updateEndTime at hf
    repeat (first | cases hf | split at hf)
    all_goals exact ⟨rfl, Or.inl rfl⟩
  | updateStartTradingTime sender funds t =>
    simp only [OE.step] at h
    obtain ⟨m0, m1, hm0, hf, rfl⟩ := OE.withMinter_ok h
    rw [hm] at hm0
    cases hm0
    simp only [Option.some.injEq] at hm'
    subst hm'
    unfold OE.updateStartTradingTime at hf
    repeat (first | cases hf | split at hf)
    all_goals exact ⟨rfl, Or.inl rfl⟩
  | updatePerAddressLimit sender funds n =>
    simp only [OE.step] at h
    obtain ⟨m0, m1, hm0, hf, rfl⟩ := OE.withMinter_ok h
    rw [hm] at hm0
    cases hm0
    simp only [Option.some.injEq] at hm'
    subst hm'
    unfold OE.updatePerAddressLimit at hf
    repeat (first | cases hf | split at hf)
    all_goals exact ⟨rfl, Or.inl rfl⟩
  | burnRemaining sender funds =>
    simp only [OE.step] at h
    obtain ⟨m0, m1, hm0, hf, rfl⟩ := OE.withMinter_ok h
    rw [hm] at hm0
    cases hm0
    simp only [Option.some.injEq] at hm'
    subst hm'
    unfold OE.burnRemaining at hf
    repeat (first | cases hf | split at hf)
    all_goals exact ⟨rfl, Or.inl rfl⟩
  | sudoStatus v b e =>
    simp only [OE.step] at h
    obtain ⟨m0, m1, hm0, hf, rfl⟩ := OE.withMinter_ok h
    rw [hm] at hm0
    cases hm0
    simp only [Option.some.injEq] at hm'
    subst hm'
    cases hf
    exact ⟨rfl, Or.inl rfl⟩
  | collTransfer sender id to =>
    simp only [OE.step] at h
    obtain ⟨m0, m1, hm0, hf, rfl⟩ := OE.withMinter_ok h
    rw [hm] at hm0
    cases hm0
    simp only [Option.some.injEq] at hm'
    subst hm'
    unfold OE.collTransfer at hf
    repeat (first | cases hf | split at hf)
    all_goals exact ⟨rfl, Or.inl rfl⟩
  | collBurn sender id =>
    simp only [OE.step] at h
    obtain ⟨m0, m1, hm0, hf, rfl⟩ := OE.withMinter_ok h
    rw [hm] at hm0
    cases hm0
    simp only [Option.some.injEq] at hm'
    subst hm'
    unfold OE.collBurn at hf
    repeat (first | cases hf | split at hf)
    all_goals exact ⟨rfl, Or.inl rfl⟩
  | collTrading sender t =>
    simp only [OE.step] at h
    obtain ⟨m0, x, hm0, _, rfl⟩ := OE.onColl_ok h
    rw [hm] at hm0; cases hm0
    simp only [Option.some.injEq] at hm'; subst hm'
    exact ⟨rfl, Or.inl rfl⟩
  | collCreator sender new =>
    simp only [OE.step] at h
    obtain ⟨m0, x, hm0, _, rfl⟩ := OE.onColl_ok h
    rw [hm] at hm0; cases hm0
    simp only [Option.some.injEq] at hm'; subst hm'
    exact ⟨rfl, Or.inl rfl⟩
  | collFreeze sender =>
    simp only [OE.step] at h
    obtain ⟨m0, x, hm0, _, rfl⟩ := OE.onColl_ok h
    rw [hm] at hm0; cases hm0
    simp only [Option.some.injEq] at hm'; subst hm'
    exact ⟨rfl, Or.inl rfl⟩
  | collOwn sender a =>
    simp only [OE.step] at h
    obtain ⟨m0, x, hm0, _, rfl⟩ := OE.onColl_ok h
    rw [hm] at hm0; cases hm0
    simp only [Option.some.injEq] at hm'; subst hm'
    exact ⟨rfl, Or.inl rfl⟩

/-- a minter appears only through `CreateMinter`, with every whitelist counter at zero -/
theorem oe_counters_fresh {c c' : OE.State} {op : OE.Op} {m' : OE.Minter} (h : OE.step c op = .ok c')
    (hm : c.minter = none) (hm' : c'.minter = some m') :
    m'.stg = (fun _ => MintLimits.zero) ∧ m'.wlc = MintLimits.zero := by
  cases op with
  | setTime t =>
    simp only [OE.step] at h
    split at h <;> cases h
    simp only at hm'; rw [hm] at hm'; cases hm'
  | fund a x => simp only [OE.step] at h; cases h; simp only at hm'; rw [hm] at hm'; cases hm'
  | wlEnv k i => simp only [OE.step] at h; cases h; simp only at hm'; rw [hm] at hm'; cases hm'
  | sudoParams u =>
    simp only [OE.step] at h
    split at h <;> cases h
    simp only at hm'; rw [hm] at hm'; cases hm'
  | instantiateDirect sender => simp [OE.step] at h
  | create sender funds msg w =>
    simp only [OE.step] at h
    obtain ⟨_, _, _, _, m, _, _, _, _, _, hi, rfl⟩ := OE.createMinter_ok h
    simp only [Option.some.injEq] at hm'; subst hm'
    obtain ⟨_, _, _, _, _, _, _, _, rfl⟩ := OE.instantiateMinter_ok hi
    exact ⟨rfl, rfl⟩
  | mint sender funds f sv =>
    simp only [OE.step] at h; obtain ⟨_, hm0, _⟩ := OE.withMinterS_ok h; rw [hm] at hm0; cases hm0
  | mintTo sender funds rcpt =>
    simp only [OE.step] at h; obtain ⟨_, hm0, _⟩ := OE.withMinterS_ok h; rw [hm] at hm0; cases hm0
  | setWhitelist sender funds wl valid =>
    simp only [OE.step] at h; obtain ⟨_, _, hm0, _⟩ := OE.withMinter_ok h; rw [hm] at hm0; cases hm0
  | purge sender funds =>
    simp only [OE.step] at h; obtain ⟨_, _, hm0, _⟩ := OE.withMinter_ok h; rw [hm] at hm0; cases hm0
  | updateMintPrice sender funds p =>
    simp only [OE.step] at h; obtain ⟨_, _, hm0, _⟩ := OE.withMinter_ok h; rw [hm] at hm0; cases hm0
  | updateStartTime sender funds t =>
    simp only [OE.step] at h; obtain ⟨_, _, hm0, _⟩ := OE.withMinter_ok h; rw [hm] at hm0; cases hm0
  | updateEndTime sender funds t =>
    simp only [OE.step] at h; obtain ⟨_, _, hm0, _⟩ := OE.withMinter_ok h; rw [hm] at hm0; cases hm0
  | updateStartTradingTime sender funds t =>
    simp only [OE.step] at h; obtain ⟨_, _, hm0, _⟩ := OE.withMinter_ok h; rw [hm] at hm0; cases hm0
  | updatePerAddressLimit sender funds n =>
    simp only [OE.step] at h; obtain ⟨_, _, hm0, _⟩ := OE.withMinter_ok h; rw [hm] at hm0; cases hm0
  | burnRemaining sender funds =>
    simp only [OE.step] at h; obtain ⟨_, _, hm0, _⟩ := OE.withMinter_ok h; rw [hm] at hm0; cases hm0
  | sudoStatus v b e =>
    simp only [OE.step] at h; obtain ⟨_, _, hm0, _⟩ := OE.withMinter_ok h; rw [hm] at hm0; cases hm0
  | collTransfer sender id to =>
    simp only [OE.step] at h; obtain ⟨_, _, hm0, _⟩ := OE.withMinter_ok h; rw [hm] at hm0; cases hm0
  | collBurn sender id =>
    simp only [OE.step] at h; obtain ⟨_, _, hm0, _⟩ := OE.withMinter_ok h; rw [hm] at hm0; cases hm0
  | collTrading sender t =>
    simp only [OE.step] at h; obtain ⟨_, _, hm0, _⟩ := OE.onColl_ok h; rw [hm] at hm0; cases hm0
  | collCreator sender new =>
    simp only [OE.step] at h; obtain ⟨_, _, hm0, _⟩ := OE.onColl_ok h; rw [hm] at hm0; cases hm0
  | collFreeze sender =>
    simp only [OE.step] at h; obtain ⟨_, _, hm0, _⟩ := OE.onColl_ok h; rw [hm] at hm0; cases hm0
  | collOwn sender a =>
    simp only [OE.step] at h; obtain ⟨_, _, hm0, _⟩ := OE.onColl_ok h; rw [hm] at hm0; cases hm0

/-- no `OE` op removes the minter -/
theorem oe_minter_stays {c c' : OE.State} {op : OE.Op} {m : OE.Minter} (h : OE.step c op = .ok c') (hm : c.minter = some m) :
    ∃ m', c'.minter = some m' := by
  cases hc : c'.minter with
  | some m' => exact ⟨m', rfl⟩
  | none =>
    exfalso
    cases op with
    | setTime t => simp only [OE.step] at h; split at h <;> cases h; simp only at hc; rw [hm] at hc; cases hc
    | fund a x => simp only [OE.step] at h; cases h; simp only at hc; rw [hm] at hc; cases hc
    | wlEnv k i => simp only [OE.step] at h; cases h; simp only at hc; rw [hm] at hc; cases hc
    | sudoParams u => simp only [OE.step] at h; split at h <;> cases h; simp only at hc; rw [hm] at hc; cases hc
    | instantiateDirect sender => simp [OE.step] at h
    | create sender funds msg w =>
      simp only [OE.step] at h
      obtain ⟨_, _, _, _, _, _, _, _, _, _, _, rfl⟩ := OE.createMinter_ok h
      cases hc
    | mint sender funds f sv =>
      simp only [OE.step] at h
      obtain ⟨_, _, h⟩ := OE.withMinterS_ok h
      obtain ⟨_, _, _, _, _, _, _, h⟩ := OE.mintSender_ok h
      obtain ⟨_, _, _, _, _, _, _, _, _, _, _, rfl⟩ := OE.executeMint_ok h
      cases hc
    | mintTo sender funds rcpt =>
      simp only [OE.step] at h
      obtain ⟨_, _, h⟩ := OE.withMinterS_ok h
      obtain ⟨_, _, _, _, h⟩ := OE.mintAdmin_ok h
      obtain ⟨_, _, _, _, _, _, _, _, _, _, _, rfl⟩ := OE.executeMint_ok h
      cases hc
    | setWhitelist sender funds wl valid => simp only [OE.step] at h; obtain ⟨_, _, _, _, rfl⟩ := OE.withMinter_ok h; cases hc
    | purge sender funds => simp only [OE.step] at h; obtain ⟨_, _, _, _, rfl⟩ := OE.withMinter_ok h; cases hc
    | updateMintPrice sender funds p => simp only [OE.step] at h; obtain ⟨_, _, _, _, rfl⟩ := OE.withMinter_ok h; cases hc
    | updateStartTime sender funds t => simp only [OE.step] at h; obtain ⟨_, _, _, _, rfl⟩ := OE.withMinter_ok h; cases hc
    | updateEndTime sender funds t => simp only [OE.step] at h; obtain ⟨_, _, _, _, rfl⟩ := OE.withMinter_ok h; cases hc
    | updateStartTradingTime sender funds t => simp only [OE.step] at h; obtain ⟨_, _, _, _, rfl⟩ := OE.withMinter_ok h; cases hc
    | updatePerAddressLimit sender funds n => simp only [OE.step] at h; obtain ⟨_, _, _, _, rfl⟩ := OE.withMinter_ok h; cases hc
    | burnRemaining sender funds => simp only [OE.step] at h; obtain ⟨_, _, _, _, rfl⟩ := OE.withMinter_ok h; cases hc
    | sudoStatus v b e => simp only [OE.step] at h; obtain ⟨_, _, _, _, rfl⟩ := OE.withMinter_ok h; cases hc
    | collTransfer sender id to => simp only [OE.step] at h; obtain ⟨_, _, _, _, rfl⟩ := OE.withMinter_ok h; cases hc
    | collBurn sender id => simp only [OE.step] at h; obtain ⟨_, _, _, _, rfl⟩ := OE.withMinter_ok h; cases hc
    | collTrading sender t => simp only [OE.step] at h; obtain ⟨_, _, _, _, rfl⟩ := OE.onColl_ok h; cases hc
    | collCreator sender new => simp only [OE.step] at h; obtain ⟨_, _, _, _, rfl⟩ := OE.onColl_ok h; cases hc
    | collFreeze sender => simp only [OE.step] at h; obtain ⟨_, _, _, _, rfl⟩ := OE.onColl_ok h; cases hc
    | collOwn sender a => simp only [OE.step] at h; obtain ⟨_, _, _, _, rfl⟩ := OE.onColl_ok h; cases hc

end LP.SysOE
