import LaunchpadModel.Model.Migrate
import LaunchpadModel.Lemmas.Semver
/-!
# Helper lemmas for C20: exact success conditions and results of each `migrate` class
-/
set_option linter.unusedSimpArgs false
namespace LP.Mig
open LP LP.Semver

/-- the kinds C20 speaks about (factories, minters, splits, Merkle whitelists, sg721-updatable) -/
def InScope : Kind → Prop
  | .factory _ | .plain | .vending | .updatable => True
  | _ => False

instance (k : Kind) : Decidable (InScope k) := by cases k <;> unfold InScope <;> exact inferInstance

/-- the stored identities a kind accepts -/
def Spec.names (sp : Spec) : List NameId :=
  match sp.kind with
  | .updatable => sp.accepted
  | _ => [sp.own]

theorem getCw2_ok_iff (s : St) (c : Cw2) : getCw2 s = .ok c ↔ s.cw2 = some c := by
  unfold getCw2; cases s.cw2 <;> simp

theorem parseVer_ok_iff (cs : List Nat) (v : Version) : parseVer cs = .ok v ↔ parse cs = some v := by
  unfold parseVer; cases parse cs <;> simp

theorem minusNs_ok_iff (now d t : Nat) : minusNs now d = .ok t ↔ d ≤ now ∧ t = now - d := by
  unfold minusNs; split <;> simp <;> omega

/-- shared prefix of the `plain` and `vending` classes -/
theorem checkOwn_ok_iff (sp : Spec) (s : St) (v : Version) :
    checkOwn sp s = .ok v ↔ ∃ c, s.cw2 = some c ∧ c.name = sp.own ∧ parse c.ver = some v ∧ v ≤ sp.code := by
  unfold checkOwn getCw2 parseVer
  cases hc : s.cw2 with
  | none => simp [bind, Except.bind]
  | some c =>
    by_cases hn : c.name = sp.own
    · cases hp : parse c.ver with
      | none => simp [bind, Except.bind, hn, hp, pure, Except.pure, throw, throwThe, MonadExceptOf.throw]
      | some w =>
        by_cases hl : sp.code < w
        · simp [bind, Except.bind, hn, hp, hl, pure, Except.pure, throw, throwThe, MonadExceptOf.throw]
          intro e; subst e; exact fun h => h hl
        · simp [bind, Except.bind, hn, hp, hl, pure, Except.pure, throw, throwThe, MonadExceptOf.throw]
          intro e; subst e; exact hl
    · simp [bind, Except.bind, hn, pure, Except.pure, throw, throwThe, MonadExceptOf.throw]

theorem checkOwn_err_or_ok (sp : Spec) (s : St) :
    (∃ e, checkOwn sp s = .error e) ∨ ∃ v, checkOwn sp s = .ok v := by
  cases checkOwn sp s with
  | error e => exact .inl ⟨e, rfl⟩
  | ok v => exact .inr ⟨v, rfl⟩

/-! ### plain -/

theorem migratePlain_eq (sp : Spec) (s : St) :
    migratePlain sp s =
      match checkOwn sp s with
      | .error e => .error e
      | .ok v => if v = sp.code then .ok s else .ok { s with cw2 := some (codeRecord sp) } := by
  unfold migratePlain
  cases checkOwn sp s with
  | error e => rfl
  | ok v => by_cases h : v = sp.code <;> simp [bind, Except.bind, h, pure, Except.pure]

/-! ### vending -/

theorem migrateVending_eq (sp : Spec) (now : Nat) (s : St) :
    migrateVending sp now s =
      match checkOwn sp s with
      | .error e => .error e
      | .ok v =>
        if v = sp.code then .ok s
        else if v < V_3_9_0 then
          (if now < DISCOUNT_BACKDATE_NS then .error .other
           else .ok { s with lastDiscount := some (now - DISCOUNT_BACKDATE_NS), cw2 := some (codeRecord sp) })
        else .ok { s with cw2 := some (codeRecord sp) } := by
  unfold migrateVending
  cases checkOwn sp s with
  | error e => rfl
  | ok v =>
    by_cases h : v = sp.code
    · simp [bind, Except.bind, h, pure, Except.pure]
    · by_cases h2 : v < V_3_9_0
      · by_cases h3 : now < DISCOUNT_BACKDATE_NS <;>
          simp [bind, Except.bind, h, h2, h3, minusNs, pure, Except.pure]
      · simp [bind, Except.bind, h, h2, pure, Except.pure]

end LP.Mig

namespace LP.Mig
open LP LP.Semver

/-! ### sg721-updatable -/

/-- the state a successful sg721-updatable migration produces, from stored record `c` (parsed version `v`) -/
def updResult (sp : Spec) (now : Nat) (c : Cw2) (v : Version) (s : St) : St :=
  { cw2 := some (codeRecord sp)
    lastDiscount := s.lastDiscount
    frozenMeta := if c.name ∈ sp.baseNames then some false else s.frozenMeta
    enableUpd := if c.name ∈ sp.baseNames then some false else s.enableUpd
    royaltyAt := if v < V_3_1_0 then some (now - ROYALTY_BACKDATE_NS) else s.royaltyAt
    legacyMinter := if v < V_3_0_0 then none else s.legacyMinter
    ownership := if v < V_3_0_0 then some ⟨s.legacyMinter, false⟩ else s.ownership
    params := s.params
    other := s.other }

/-- the guard of a sg721-updatable migration -/
def UpdOk (sp : Spec) (now : Nat) (c : Cw2) (v : Version) (s : St) : Prop :=
  c.name ∈ sp.accepted ∧ sp.earliest ≤ v ∧ v ≤ sp.code ∧ ¬ (v = sp.code ∧ c.name = sp.own) ∧
  (v < V_3_0_0 → s.legacyMinter ≠ none) ∧ (v < V_3_1_0 → ROYALTY_BACKDATE_NS ≤ now)

theorem migrateUpdatable_ok_aux (sp : Spec) (now : Nat) (s s' : St) (c : Cw2) (v : Version)
    (hc : s.cw2 = some c) (hp : parse c.ver = some v) :
    migrateUpdatable sp now s = .ok s' ↔ UpdOk sp now c v s ∧ s' = updResult sp now c v s := by
  unfold migrateUpdatable getCw2 parseVer UpdOk
  cases s with
  | mk cw2 ld fm eu ra lm ow pa ot =>
  simp only at hc
  subst hc
  simp only [bind, Except.bind, hp, pure, Except.pure, throw, throwThe, MonadExceptOf.throw]
  by_cases h1 : c.name ∈ sp.accepted
  · by_cases h2 : v < sp.earliest
    · simp [h1, h2, le_def]
    · by_cases h3 : sp.code < v
      · simp [h1, h2, h3, le_def]
      · by_cases h4 : v = sp.code ∧ c.name = sp.own
        · simp [h1, h2, h3, h4, le_def]; split <;> simp
        · by_cases hb : c.name ∈ sp.baseNames <;> by_cases h5 : v < V_3_0_0 <;> by_cases h6 : v < V_3_1_0 <;>
            by_cases h7 : now < ROYALTY_BACKDATE_NS <;> cases lm <;>
            simp [h1, h2, h3, h4, hb, h5, h6, h7, le_def, upgradeOwnership, upgradeRoyalty, minusNs, updResult,
              bind, Except.bind, pure, Except.pure, eq_comm, Nat.not_le_of_lt, Nat.le_of_not_lt]
  · simp [h1]

theorem migrateUpdatable_ok_iff (sp : Spec) (now : Nat) (s s' : St) :
    migrateUpdatable sp now s = .ok s' ↔
      ∃ c v, s.cw2 = some c ∧ parse c.ver = some v ∧ UpdOk sp now c v s ∧ s' = updResult sp now c v s := by
  constructor
  · intro h
    rcases Option.eq_none_or_eq_some s.cw2 with hc | ⟨c, hc⟩
    · simp [migrateUpdatable, getCw2, hc, bind, Except.bind] at h
    · cases hp : parse c.ver with
      | none => simp [migrateUpdatable, getCw2, parseVer, hc, hp, bind, Except.bind] at h
      | some v => exact ⟨c, v, hc, hp, (migrateUpdatable_ok_aux sp now s s' c v hc hp).mp h⟩
  · rintro ⟨c, v, hc, hp, h⟩
    exact (migrateUpdatable_ok_aux sp now s s' c v hc hp).mpr h

end LP.Mig

namespace LP.Mig
open LP LP.Semver

/-! ### factories -/

def nativeOk (m : Option Coin) : Bool :=
  match m with
  | none => true
  | some c => c.denom == NATIVE

theorem nativeOr_eq (cur : Coin) (m : Option Coin) :
    nativeOr cur m = if nativeOk m then .ok (m.getD cur) else .error .invalid := by
  unfold nativeOr nativeOk
  cases m with
  | none => simp
  | some c => by_cases h : c.denom = NATIVE <;> simp [h]

/-- which supplied coins a factory insists on being native -/
def msgOk (k : FKind) (m : FMsg) : Bool :=
  match k with
  | .base => nativeOk m.minMintPrice
  | .vending => nativeOk m.minMintPrice && nativeOk m.airdropPrice && nativeOk m.shuffleFee
  | .openEdition => nativeOk m.minMintPrice
  | .tokenMerge => nativeOk m.airdropPrice && nativeOk m.shuffleFee

/-- the parameters after a successful update: every field is the supplied value, else the old one -/
def applied (k : FKind) (p : FParams) (m : FMsg) : FParams :=
  let base : FParams :=
    { p with codeId := m.codeId.getD p.codeId, frozen := m.frozen.getD p.frozen,
             creationFee := m.creationFee.getD p.creationFee, ids := updIds p.ids m.addIds m.rmIds,
             offset := m.offset.getD p.offset }
  match k with
  | .base =>
    { base with minMintPrice := m.minMintPrice.getD p.minMintPrice, mintFeeBps := m.mintFeeBps.getD p.mintFeeBps }
  | .vending =>
    { base with minMintPrice := m.minMintPrice.getD p.minMintPrice, mintFeeBps := m.mintFeeBps.getD p.mintFeeBps,
                maxTokenLimit := m.maxTokenLimit.getD p.maxTokenLimit, maxPerAddr := m.maxPerAddr.getD p.maxPerAddr,
                airdropPrice := m.airdropPrice.getD p.airdropPrice, airdropBps := m.airdropBps.getD p.airdropBps,
                shuffleFee := m.shuffleFee.getD p.shuffleFee }
  | .openEdition =>
    { base with minMintPrice := m.minMintPrice.getD p.minMintPrice, mintFeeBps := m.mintFeeBps.getD p.mintFeeBps,
                maxTokenLimit := m.maxTokenLimit.getD p.maxTokenLimit, maxPerAddr := m.maxPerAddr.getD p.maxPerAddr,
                airdropPrice := m.airdropPrice.getD p.airdropPrice, airdropBps := m.airdropBps.getD p.airdropBps,
                devFeeAddr := m.devFeeAddr.getD p.devFeeAddr }
  | .tokenMerge =>
    { base with maxTokenLimit := m.maxTokenLimit.getD p.maxTokenLimit, maxPerAddr := m.maxPerAddr.getD p.maxPerAddr,
                airdropPrice := m.airdropPrice.getD p.airdropPrice, airdropBps := m.airdropBps.getD p.airdropBps,
                shuffleFee := m.shuffleFee.getD p.shuffleFee }

theorem applyMsg_eq (k : FKind) (p : FParams) (m : FMsg) :
    applyMsg k p m = if msgOk k m then .ok (applied k p m) else .error .invalid := by
  cases k <;> simp only [applyMsg, msgOk, applied, nativeOr_eq]
  · by_cases h1 : nativeOk m.minMintPrice = true <;> simp [h1, bind, Except.bind, pure, Except.pure]
  · by_cases h1 : nativeOk m.minMintPrice = true <;> by_cases h2 : nativeOk m.airdropPrice = true <;>
      by_cases h3 : nativeOk m.shuffleFee = true <;> simp [h1, h2, h3, bind, Except.bind, pure, Except.pure]
  · by_cases h1 : nativeOk m.minMintPrice = true <;> simp [h1, bind, Except.bind, pure, Except.pure]
  · by_cases h2 : nativeOk m.airdropPrice = true <;>
      by_cases h3 : nativeOk m.shuffleFee = true <;> simp [h2, h3, bind, Except.bind, pure, Except.pure]

/-- guard shared by the four factories: identity and no-downgrade -/
def FacOk (sp : Spec) (c : Cw2) (v : Version) : Prop := c.name = sp.own ∧ v ≤ sp.code

theorem migrateFactory_ok_aux (k : FKind) (sp : Spec) (msg : Option FMsg) (s s' : St) (c : Cw2) (v : Version)
    (hc : s.cw2 = some c) (hp : parse c.ver = some v) :
    migrateFactory k sp msg s = .ok s' ↔
      FacOk sp c v ∧
        match msg with
        | none => s' = s
        | some m => ∃ p, s.params = some p ∧ msgOk k m = true ∧ s' = { s with params := some (applied k p m) } := by
  unfold migrateFactory getCw2 parseVer FacOk
  simp only [hc, hp, bind, Except.bind, pure, Except.pure, throw, throwThe, MonadExceptOf.throw]
  by_cases h1 : c.name = sp.own
  · by_cases h2 : sp.code < v
    · simp [h1, h2, le_def]
    · cases msg with
      | none => simp [h1, h2, le_def, eq_comm]
      | some m =>
        cases hpar : s.params with
        | none => simp [h1, h2, le_def]
        | some p =>
          by_cases h3 : msgOk k m = true
          · simp [h1, h2, h3, le_def, applyMsg_eq, eq_comm]
          · simp [h1, h2, h3, le_def, applyMsg_eq]
  · simp [h1]

theorem migrateFactory_ok_iff (k : FKind) (sp : Spec) (msg : Option FMsg) (s s' : St) :
    migrateFactory k sp msg s = .ok s' ↔
      ∃ c v, s.cw2 = some c ∧ parse c.ver = some v ∧ FacOk sp c v ∧
        match msg with
        | none => s' = s
        | some m => ∃ p, s.params = some p ∧ msgOk k m = true ∧ s' = { s with params := some (applied k p m) } := by
  constructor
  · intro h
    rcases Option.eq_none_or_eq_some s.cw2 with hc | ⟨c, hc⟩
    · simp [migrateFactory, getCw2, hc, bind, Except.bind] at h
    · cases hp : parse c.ver with
      | none => simp [migrateFactory, getCw2, parseVer, hc, hp, bind, Except.bind] at h
      | some v => exact ⟨c, v, hc, hp, (migrateFactory_ok_aux k sp msg s s' c v hc hp).mp h⟩
  · rintro ⟨c, v, hc, hp, h⟩
    exact (migrateFactory_ok_aux k sp msg s s' c v hc hp).mpr h

end LP.Mig
