import LaunchpadModel.Model.LaunchpadSystem
import LaunchpadModel.Lemmas.VendingFull
import LaunchpadModel.Lemmas.WhitelistFull
/-!
# Basic lemmas about the SYSTEM composite `LP.Sys`: the table, inversion of `step`, the two projections

* minter side: `vfOf (step' s op) = VF.run { vfOf s with bank := … } (vfOps s op)` — a system step is, for the minter, the `VF`
  op with its `SenderView` computed by `senderViewOf`, followed by `wlEnv` ops carrying `wlInfoOf` of the whitelist states; a
  whitelist transaction is a bank movement outside the `VF` family plus that refresh;
* whitelist side: `wfOf (step' s op) k` is `WF.step' (wfOf s k) wop` for the messages addressed to `k` (and clock / `fund`),
  and a pure bank movement otherwise.

Core tactics only.
-/
namespace LP.Sys
open LP

/-! ## table -/

theorem find_nil (a : Addr) : find [] a = none := rfl

theorem find_cons (k : Addr) (w : WF.Wl) (rest : List (Addr × WF.Wl)) (a : Addr) :
    find ((k, w) :: rest) a = if a = k then some w else find rest a := rfl

theorem find_replace (tbl : List (Addr × WF.Wl)) (k : Addr) (w w0 : WF.Wl) (h : find tbl k = some w0) (a : Addr) :
    find (replace tbl k w) a = if a = k then some w else find tbl a := by
  induction tbl with
  | nil => simp [find] at h
  | cons x rest ih =>
    obtain ⟨k', w'⟩ := x
    simp only [replace]
    by_cases hk : k = k'
    · subst hk
      simp only [if_true, find_cons]
      by_cases ha : a = k <;> simp [ha]
    · simp only [hk, if_false, find_cons]
      rw [find_cons, if_neg hk] at h
      rw [ih h]
      by_cases ha : a = k'
      · subst ha
        have : ¬ a = k := fun hx => hk hx.symm
        simp [this]
      · simp [ha]

theorem find_replace_none (tbl : List (Addr × WF.Wl)) (k : Addr) (w : WF.Wl) (a : Addr)
    (h : find (replace tbl k w) a = none) : find tbl a = none := by
  induction tbl with
  | nil => rfl
  | cons x rest ih =>
    obtain ⟨k', w'⟩ := x
    simp only [replace] at h
    by_cases hk : k = k'
    · simp only [hk, if_true, find_cons] at h
      rw [find_cons]
      by_cases ha : a = k'
      · simp [ha] at h
      · simp only [ha, if_false] at h ⊢; exact h
    · simp only [hk, if_false, find_cons] at h
      rw [find_cons]
      by_cases ha : a = k'
      · simp [ha] at h
      · simp only [ha, if_false] at h ⊢; exact ih h

/-! ## `step'`, `run` -/

theorem step'_ok {s s' : State} {op : Op} (h : step s op = .ok s') : step' s op = s' := by simp [step', h]
theorem step'_err {s : State} {op : Op} {e : Err} (h : step s op = .error e) : step' s op = s := by simp [step', h]

theorem step'_cases (s : State) (op : Op) :
    (∃ s', step s op = .ok s' ∧ step' s op = s') ∨ ((∃ e, step s op = .error e) ∧ step' s op = s) := by
  cases h : step s op with
  | ok s' => exact Or.inl ⟨s', rfl, step'_ok h⟩
  | error e => exact Or.inr ⟨⟨e, rfl⟩, step'_err h⟩

theorem run_nil (s : State) : run s [] = s := rfl
theorem run_cons (s : State) (op : Op) (ops : List Op) : run s (op :: ops) = run (step' s op) ops := rfl
theorem run_append (s : State) (a b : List Op) : run s (a ++ b) = run (run s a) b := by simp [run, List.foldl_append]

theorem run_inv (P : State → Prop) (hstep : ∀ s op, P s → P (step' s op)) (s : State) (h0 : P s) (ops : List Op) :
    P (run s ops) := by
  induction ops generalizing s with
  | nil => exact h0
  | cons op ops ih => rw [run_cons]; exact ih _ (hstep s op h0)

/-! ## inversion of `step` -/

theorem step_minter_ok {s s' : State} {op : VF.Op} (h : step s (.minter op) = .ok s') :
    witnessed op = false ∧ ∃ c, VF.step (vfOf s) op = .ok c ∧ s' = setVf s c := by
  simp only [step] at h
  split at h
  · cases h
  · rename_i hw
    split at h
    · rename_i c hc
      cases h
      exact ⟨by simpa using hw, c, hc, rfl⟩
    · cases h

theorem step_mint_ok {s s' : State} {sender : Addr} {funds : List Coin} {stage alloc : Option Nat}
    {proof : Option (List (List Nat))} {picked : Nat} (h : step s (.mint sender funds stage alloc proof picked) = .ok s') :
    ∃ c, VF.step (vfOf s) (mintOp s sender funds stage alloc proof picked) = .ok c ∧ s' = setVf s c := by
  simp only [step] at h
  split at h
  · rename_i c hc
    cases h
    exact ⟨c, hc, rfl⟩
  · cases h

theorem step_wlInst_ok {s s' : State} {v : WF.Variant} {sender : Addr} {funds : List Coin} {self : Addr} {m : WF.InstMsg}
    (h : step s (.wlInst v sender funds self m) = .ok s') :
    taken s self = false ∧ ∃ r w, WF.step ⟨s.now, s.bank, none⟩ (.instantiate v sender funds self m) = .ok r ∧
      r.wl = some w ∧ r.now = s.now ∧ s' = { s with bank := r.bank, wls := (self, w) :: s.wls } := by
  simp only [step] at h
  split at h
  · cases h
  · rename_i ht
    split at h
    · cases h
    · rename_i r hr
      split at h
      · cases h
      · rename_i w hw
        cases h
        refine ⟨by simpa using ht, r, w, hr, hw, ?_, rfl⟩
        simp only [WF.step] at hr
        obtain ⟨_, _, _, _, _, _, _, rfl⟩ := WF.instantiateTx_ok hr
        rfl

theorem step_wlExec_ok {s s' : State} {k sender : Addr} {funds : List Coin} {m : WF.ExecMsg}
    (h : step s (.wlExec k sender funds m) = .ok s') :
    ∃ w r w', find s.wls k = some w ∧ WF.step ⟨s.now, s.bank, some w⟩ (.exec sender funds m) = .ok r ∧
      r.wl = some w' ∧ r.now = s.now ∧ s' = { s with bank := r.bank, wls := replace s.wls k w' } := by
  simp only [step] at h
  split at h
  · cases h
  · rename_i w hw
    split at h
    · cases h
    · rename_i r hr
      split at h
      · cases h
      · rename_i w' hw'
        cases h
        refine ⟨w, r, w', hw, hr, hw', ?_, rfl⟩
        simp only [WF.step] at hr
        obtain ⟨_, _, _, _, _, _, _, _, _, rfl⟩ := WF.execute_ok hr
        rfl

/-- an accepted `WF` instantiate always leaves a contract behind -/
theorem wf_inst_some {s r : WF.State} {v : WF.Variant} {sender : Addr} {funds : List Coin} {self : Addr} {m : WF.InstMsg}
    (h : WF.step s (.instantiate v sender funds self m) = .ok r) : ∃ w, r.wl = some w ∧ r.now = s.now := by
  simp only [WF.step] at h
  obtain ⟨_, w, _, _, _, _, _, rfl⟩ := WF.instantiateTx_ok h
  exact ⟨w, rfl, rfl⟩

theorem wf_exec_some {s r : WF.State} {sender : Addr} {funds : List Coin} {m : WF.ExecMsg}
    (h : WF.step s (.exec sender funds m) = .ok r) : ∃ w w', s.wl = some w ∧ r.wl = some w' ∧ r.now = s.now := by
  simp only [WF.step] at h
  obtain ⟨w, _, w', _, _, hw, _, _, _, rfl⟩ := WF.execute_ok h
  exact ⟨w, w', hw, rfl, rfl⟩

/-! ## `vfOf` / `setVf` -/

theorem vfOf_setVf (s : State) (c : VF.State) (h : c.wls = viewOf c.now s.wls) : vfOf (setVf s c) = c := by
  cases c
  simp only [vfOf, setVf] at h ⊢
  simp only [h]

@[simp] theorem setVf_wls (s : State) (c : VF.State) : (setVf s c).wls = s.wls := rfl
@[simp] theorem setVf_now (s : State) (c : VF.State) : (setVf s c).now = c.now := rfl
@[simp] theorem setVf_bank (s : State) (c : VF.State) : (setVf s c).bank = c.bank := rfl
@[simp] theorem setVf_minter (s : State) (c : VF.State) : (setVf s c).minter = c.minter := rfl
@[simp] theorem setVf_params (s : State) (c : VF.State) : (setVf s c).params = c.params := rfl
@[simp] theorem vfOf_now (s : State) : (vfOf s).now = s.now := rfl
@[simp] theorem vfOf_bank (s : State) : (vfOf s).bank = s.bank := rfl
@[simp] theorem vfOf_minter (s : State) : (vfOf s).minter = s.minter := rfl
@[simp] theorem vfOf_params (s : State) : (vfOf s).params = s.params := rfl
@[simp] theorem vfOf_wls (s : State) (a : Addr) : (vfOf s).wls a = (find s.wls a).map (wlInfoOf s.now) := rfl

/-! ## the interface refresh -/

/-- running the refresh ops overwrites exactly the table's addresses with `wlInfoOf` of the table's states -/
theorem refresh_run (now : Nat) (tbl : List (Addr × WF.Wl)) (c : VF.State) :
    VF.run c (refreshOps now tbl) =
      { c with wls := fun a => match find tbl a with
                               | some w => some (wlInfoOf now w)
                               | none => c.wls a } := by
  induction tbl with
  | nil => simp [refreshOps, VF.run, find]
  | cons x rest ih =>
    obtain ⟨k, w⟩ := x
    simp only [refreshOps, VF.run_append, ih]
    simp only [VF.run, List.foldl, VF.step', VF.step]
    congr 1
    funext a
    by_cases ha : a = k
    · simp [ha, find_cons]
    · simp [ha, find_cons]

/-- a `VF` state whose interface is the view of a table with the same (or fewer) addresses refreshes to the view -/
theorem refresh_to_view (s' : State) (c : VF.State)
    (hnow : c.now = s'.now) (hcodes : c.codes = s'.codes) (hfac : c.factoryAddr = s'.factoryAddr) (hpar : c.params = s'.params)
    (hbank : c.bank = s'.bank) (hmin : c.minter = s'.minter)
    (hw : ∀ a, find s'.wls a = none → c.wls a = none) :
    VF.run c (refreshOps s'.now s'.wls) = vfOf s' := by
  rw [refresh_run]
  cases c
  simp only at hnow hcodes hfac hpar hbank hmin hw
  subst hnow hcodes hfac hpar hbank hmin
  simp only [vfOf, VF.State.mk.injEq, true_and, and_true]
  funext a
  simp only [viewOf]
  cases hf : find s'.wls a with
  | none => simp [hw a hf]
  | some w => simp

end LP.Sys
