import LaunchpadModel.Model.WlMembers
/-!
# Helper lemmas for C11: ordered member maps, the handler loops, stage lists, fee arithmetic (core Lean only)
-/
namespace LP.WlMembers
open LP

/-- the container invariant of a member map: keys strictly ascending (hence pairwise distinct) -/
def SortedKeys (l : List Member) : Prop := (keys l).Pairwise (· < ·)

theorem sortedKeys_nil : SortedKeys [] := by simp [SortedKeys, keys]

theorem SortedKeys.nodup {l : List Member} (h : SortedKeys l) : (keys l).Nodup := by
  unfold SortedKeys at h
  exact h.imp (fun hlt => Nat.ne_of_lt hlt)

theorem keys_cons (x : Member) (xs : List Member) : keys (x :: xs) = x.1 :: keys xs := rfl
theorem keys_length (l : List Member) : (keys l).length = l.length := by simp [keys]

theorem sortedKeys_cons {x : Member} {xs : List Member} :
    SortedKeys (x :: xs) ↔ (∀ a ∈ keys xs, x.1 < a) ∧ SortedKeys xs := by
  simp [SortedKeys, keys_cons, List.pairwise_cons]

/-! ## hasM / getM -/

theorem hasM_iff (a : Addr) (l : List Member) : hasM a l = true ↔ a ∈ keys l := by
  induction l with
  | nil => simp [hasM, keys]
  | cons x xs ih =>
    simp only [hasM, List.any_cons, keys_cons, List.mem_cons, Bool.or_eq_true, beq_iff_eq] at *
    constructor
    · rintro (h | h)
      · exact Or.inl h.symm
      · exact Or.inr (ih.mp h)
    · rintro (h | h)
      · exact Or.inl h.symm
      · exact Or.inr (ih.mpr h)

theorem hasM_false_iff (a : Addr) (l : List Member) : hasM a l = false ↔ a ∉ keys l := by
  rw [← hasM_iff]; cases hasM a l <;> simp

theorem getM_isSome_iff (a : Addr) (l : List Member) : (getM a l).isSome = true ↔ a ∈ keys l := by
  induction l with
  | nil => simp [getM, keys]
  | cons x xs ih =>
    unfold getM at *
    simp only [List.find?_cons, keys_cons, List.mem_cons]
    by_cases h : x.1 = a
    · simp [h]
    · have h' : (x.1 == a) = false := by simpa using h
      have h2 : ¬ a = x.1 := fun e => h e.symm
      simp [h', h2, ih]

/-! ## saveM -/

theorem mem_keys_saveM (m : Member) (l : List Member) (a : Addr) :
    a ∈ keys (saveM m l) ↔ a = m.1 ∨ a ∈ keys l := by
  induction l with
  | nil => simp [saveM, keys]
  | cons x xs ih =>
    unfold saveM
    by_cases h1 : m.1 < x.1
    · simp [h1, keys_cons]
    · by_cases h2 : m.1 = x.1
      · simp [h1, h2, keys_cons]
      · simp only [h1, h2, if_false, keys_cons, List.mem_cons, ih]
        constructor
        · rintro (h | h | h)
          · exact Or.inr (Or.inl h)
          · exact Or.inl h
          · exact Or.inr (Or.inr h)
        · rintro (h | h | h)
          · exact Or.inr (Or.inl h)
          · exact Or.inl h
          · exact Or.inr (Or.inr h)

theorem sorted_saveM (m : Member) {l : List Member} (h : SortedKeys l) : SortedKeys (saveM m l) := by
  induction l with
  | nil => simp [saveM, SortedKeys, keys]
  | cons x xs ih =>
    have hx := sortedKeys_cons.mp h
    unfold saveM
    by_cases h1 : m.1 < x.1
    · simp only [h1, if_true]
      refine sortedKeys_cons.mpr ⟨?_, h⟩
      intro a ha
      rw [keys_cons, List.mem_cons] at ha
      rcases ha with ha | ha
      · omega
      · have := hx.1 a ha; omega
    · by_cases h2 : m.1 = x.1
      · simp only [h1, h2, if_false, if_true]
        refine sortedKeys_cons.mpr ⟨?_, hx.2⟩
        intro a ha; rw [h2]; exact hx.1 a ha
      · simp only [h1, h2, if_false]
        refine sortedKeys_cons.mpr ⟨?_, ih hx.2⟩
        intro a ha
        rcases (mem_keys_saveM m xs a).mp ha with ha | ha
        · omega
        · exact hx.1 a ha

theorem length_saveM_new (m : Member) (l : List Member) (h : m.1 ∉ keys l) :
    (saveM m l).length = l.length + 1 := by
  induction l with
  | nil => simp [saveM]
  | cons x xs ih =>
    rw [keys_cons, List.mem_cons, not_or] at h
    unfold saveM
    by_cases h1 : m.1 < x.1
    · simp [h1]
    · simp [h1, h.1, ih h.2]

theorem length_saveM_old (m : Member) {l : List Member} (hs : SortedKeys l) (h : m.1 ∈ keys l) :
    (saveM m l).length = l.length := by
  induction l with
  | nil => simp [keys] at h
  | cons x xs ih =>
    have hx := sortedKeys_cons.mp hs
    rw [keys_cons, List.mem_cons] at h
    unfold saveM
    by_cases h1 : m.1 < x.1
    · exfalso
      rcases h with h | h
      · omega
      · have := hx.1 _ h; omega
    · by_cases h2 : m.1 = x.1
      · simp [h1, h2]
      · simp only [h1, h2, if_false, List.length_cons]
        rcases h with h | h
        · exact absurd h h2
        · rw [ih hx.2 h]

theorem getM_saveM_other (m : Member) (l : List Member) (a : Addr) (h : a ≠ m.1) :
    getM a (saveM m l) = getM a l := by
  induction l with
  | nil =>
    have : (m.1 == a) = false := by simpa using fun e => h e.symm
    simp [saveM, getM, List.find?_cons, this]
  | cons x xs ih =>
    have hm : (m.1 == a) = false := by simpa using fun e => h e.symm
    unfold saveM
    by_cases h1 : m.1 < x.1
    · simp [h1, getM, List.find?_cons, hm]
    · by_cases h2 : m.1 = x.1
      · have hx : (x.1 == a) = false := by rw [← h2]; exact hm
        simp [h1, h2, getM, List.find?_cons, hx]
        rw [← h2]; simp [hm]
      · simp only [h1, h2, if_false]
        unfold getM at ih ⊢
        simp only [List.find?_cons]
        cases hxa : (x.1 == a) <;> simp [ih]

/-! ## eraseM -/

theorem mem_keys_eraseM (a : Addr) (l : List Member) (b : Addr) :
    b ∈ keys (eraseM a l) ↔ b ≠ a ∧ b ∈ keys l := by
  induction l with
  | nil => simp [eraseM, keys]
  | cons x xs ih =>
    unfold eraseM at ih ⊢
    simp only [List.filter_cons]
    by_cases h : x.1 = a
    · have : (x.1 != a) = false := by simp [h]
      simp only [this, keys_cons, List.mem_cons, ih]
      constructor
      · rintro ⟨h1, h2⟩; exact ⟨h1, Or.inr h2⟩
      · rintro ⟨h1, h2 | h2⟩
        · exact absurd (h2.trans h) h1
        · exact ⟨h1, h2⟩
    · have : (x.1 != a) = true := by simp [h]
      simp only [this, if_true, keys_cons, List.mem_cons, ih]
      constructor
      · rintro (h1 | ⟨h1, h2⟩)
        · exact ⟨by rw [h1]; exact h, Or.inl h1⟩
        · exact ⟨h1, Or.inr h2⟩
      · rintro ⟨h1, h2 | h2⟩
        · exact Or.inl h2
        · exact Or.inr ⟨h1, h2⟩

theorem sorted_eraseM (a : Addr) {l : List Member} (h : SortedKeys l) : SortedKeys (eraseM a l) := by
  induction l with
  | nil => simp [eraseM, SortedKeys, keys]
  | cons x xs ih =>
    have hx := sortedKeys_cons.mp h
    have ih' := ih hx.2
    unfold eraseM at ih' ⊢
    simp only [List.filter_cons]
    cases hc : (x.1 != a)
    · simpa using ih'
    · simp only [if_true]
      refine sortedKeys_cons.mpr ⟨?_, ih'⟩
      intro b hb
      exact hx.1 b ((mem_keys_eraseM a xs b).mp hb).2

theorem eraseM_of_not_mem (a : Addr) (l : List Member) (h : a ∉ keys l) : eraseM a l = l := by
  induction l with
  | nil => simp [eraseM]
  | cons x xs ih =>
    rw [keys_cons, List.mem_cons, not_or] at h
    unfold eraseM at ih ⊢
    have : (x.1 != a) = true := by simpa using fun e => h.1 e.symm
    simp [List.filter_cons, this, ih h.2]

theorem length_eraseM {a : Addr} {l : List Member} (hs : SortedKeys l) (h : a ∈ keys l) :
    (eraseM a l).length + 1 = l.length := by
  induction l with
  | nil => simp [keys] at h
  | cons x xs ih =>
    have hx := sortedKeys_cons.mp hs
    rw [keys_cons, List.mem_cons] at h
    by_cases hxa : x.1 = a
    · have hn : a ∉ keys xs := fun hm => by have := hx.1 a hm; omega
      have e : eraseM a (x :: xs) = eraseM a xs := by
        unfold eraseM; simp [List.filter_cons, hxa]
      rw [e, eraseM_of_not_mem a xs hn]; simp
    · have hm : a ∈ keys xs := by
        rcases h with h | h
        · exact absurd h.symm hxa
        · exact h
      have e : eraseM a (x :: xs) = x :: eraseM a xs := by
        unfold eraseM; simp [List.filter_cons, hxa]
      rw [e]; simp only [List.length_cons]; rw [ih hx.2 hm]

/-! ## sortDedup / prep -/

theorem mem_insertU (a : Addr) (l : List Addr) (b : Addr) : b ∈ insertU a l ↔ b = a ∨ b ∈ l := by
  induction l with
  | nil => simp [insertU]
  | cons x xs ih =>
    unfold insertU
    by_cases h1 : a < x
    · simp [h1]
    · by_cases h2 : a = x
      · simp [h1, h2]
      · simp only [h1, h2, if_false, List.mem_cons, ih]
        constructor
        · rintro (h | h | h)
          · exact Or.inr (Or.inl h)
          · exact Or.inl h
          · exact Or.inr (Or.inr h)
        · rintro (h | h | h)
          · exact Or.inr (Or.inl h)
          · exact Or.inl h
          · exact Or.inr (Or.inr h)

theorem sorted_insertU (a : Addr) {l : List Addr} (h : l.Pairwise (· < ·)) : (insertU a l).Pairwise (· < ·) := by
  induction l with
  | nil => simp [insertU]
  | cons x xs ih =>
    have hx := List.pairwise_cons.mp h
    unfold insertU
    by_cases h1 : a < x
    · simp only [h1, if_true]
      refine List.pairwise_cons.mpr ⟨?_, h⟩
      intro b hb
      rcases List.mem_cons.mp hb with hb | hb
      · omega
      · have := hx.1 b hb; omega
    · by_cases h2 : a = x
      · simp only [h1, h2, if_false, if_true]; exact h
      · simp only [h1, h2, if_false]
        refine List.pairwise_cons.mpr ⟨?_, ih hx.2⟩
        intro b hb
        rcases (mem_insertU a xs b).mp hb with hb | hb
        · omega
        · exact hx.1 b hb

theorem mem_sortDedup (l : List Addr) (b : Addr) : b ∈ sortDedup l ↔ b ∈ l := by
  induction l with
  | nil => simp [sortDedup]
  | cons x xs ih =>
    have : sortDedup (x :: xs) = insertU x (sortDedup xs) := rfl
    rw [this, mem_insertU, ih]; simp

theorem sorted_sortDedup (l : List Addr) : (sortDedup l).Pairwise (· < ·) := by
  induction l with
  | nil => simp [sortDedup]
  | cons x xs ih =>
    have : sortDedup (x :: xs) = insertU x (sortDedup xs) := rfl
    rw [this]; exact sorted_insertU x ih

theorem keys_map_zero (l : List Addr) : keys (l.map (fun a => ((a, 0) : Member))) = l := by
  induction l with
  | nil => rfl
  | cons x xs ih => simp [keys] at ih ⊢; exact ih

/-- plain kinds iterate over a strictly ascending, repetition-free list -/
theorem sorted_prep {k : Kind} (hk : k.isFlex = false) (ms : List Member) : SortedKeys (prep k ms) := by
  unfold prep SortedKeys; simp only [hk]
  rw [keys_map_zero]; exact sorted_sortDedup _

theorem mem_keys_prep (k : Kind) (ms : List Member) (a : Addr) : a ∈ keys (prep k ms) ↔ a ∈ keys ms := by
  unfold prep
  cases k.isFlex
  · simp only [Bool.false_eq_true, if_false]; rw [keys_map_zero, mem_sortDedup]
  · simp

/-! ## The add loop -/

/-- What a successful `addLoop` did. -/
structure AddSpec (cfg : LoopCfg) (limit : Nat) (l : List Member) (n : Nat) (st : List Member) (a : Nat)
    (n' : Nat) (st' : List Member) (a' : Nat) : Prop where
  sorted : SortedKeys st'
  /-- the counter grew by exactly the number of new map entries -/
  count : n' + st.length = n + st'.length
  added : a' + st.length = a + st'.length
  /-- afterwards exactly the old and the listed addresses are stored -/
  mem : ∀ x, x ∈ keys st' ↔ x ∈ keys st ∨ x ∈ keys l
  /-- an already stored member keeps its stored value -/
  kept : ∀ x, x ∈ keys st → getM x st' = getM x st
  mono : n ≤ n'
  cap : cfg.checkLimit = true → n ≤ limit → n' ≤ limit
  /-- with `rejectDup`, success means no listed address was stored or repeated -/
  fresh : cfg.rejectDup = true → (∀ x ∈ keys l, x ∉ keys st) ∧ (keys l).Nodup

theorem addLoop_spec (cfg : LoopCfg) (limit : Nat) :
    ∀ (l : List Member) (n : Nat) (st : List Member) (a n' : Nat) (st' : List Member) (a' : Nat),
      SortedKeys st → addLoop cfg limit l (n, st, a) = .ok (n', st', a') →
      AddSpec cfg limit l n st a n' st' a' := by
  intro l
  induction l with
  | nil =>
    intro n st a n' st' a' hs h
    simp only [addLoop, Except.ok.injEq, Prod.mk.injEq] at h
    obtain ⟨rfl, rfl, rfl⟩ := h
    exact ⟨hs, rfl, rfl, by simp [keys], fun _ _ => rfl, Nat.le_refl _, fun _ h => h, fun _ => ⟨by simp [keys], by simp [keys]⟩⟩
  | cons m ms ih =>
    intro n st a n' st' a' hs h
    unfold addLoop at h
    split at h
    · exact absurd h (by simp)
    · rename_i hlim
      split at h
      · exact absurd h (by simp)
      · split at h
        · exact absurd h (by simp)
        · split at h
          · rename_i hhas
            split at h
            · exact absurd h (by simp)
            · rename_i hrej
              have r := ih n st a n' st' a' hs h
              have hin : m.1 ∈ keys st := (hasM_iff _ _).mp hhas
              refine ⟨r.sorted, r.count, r.added, ?_, r.kept, r.mono, r.cap, ?_⟩
              · intro x; rw [r.mem x, keys_cons, List.mem_cons]
                constructor
                · rintro (h1 | h1)
                  · exact Or.inl h1
                  · exact Or.inr (Or.inr h1)
                · rintro (h1 | h1 | h1)
                  · exact Or.inl h1
                  · exact Or.inl (h1 ▸ hin)
                  · exact Or.inr h1
              · intro hr; exact absurd hr hrej
          · rename_i hhas
            have hnot : m.1 ∉ keys st := (hasM_false_iff _ _).mp (by simpa using hhas)
            have r := ih (n + 1) (saveM m st) (a + 1) n' st' a' (sorted_saveM m hs) h
            have hl := length_saveM_new m st hnot
            refine ⟨r.sorted, ?_, ?_, ?_, ?_, ?_, ?_, ?_⟩
            · have := r.count; omega
            · have := r.added; omega
            · intro x; rw [r.mem x, mem_keys_saveM, keys_cons, List.mem_cons]
              constructor
              · rintro ((h1 | h1) | h1)
                · exact Or.inr (Or.inl h1)
                · exact Or.inl h1
                · exact Or.inr (Or.inr h1)
              · rintro (h1 | h1 | h1)
                · exact Or.inl (Or.inr h1)
                · exact Or.inl (Or.inl h1)
                · exact Or.inr h1
            · intro x hx
              have hne : x ≠ m.1 := fun e => hnot (e ▸ hx)
              rw [r.kept x ((mem_keys_saveM m st x).mpr (Or.inr hx)), getM_saveM_other m st x hne]
            · have := r.mono; omega
            · intro hc hn
              have hlt : n < limit := by
                simp only [hc, Bool.true_and, decide_eq_true_eq] at hlim; omega
              exact r.cap hc (by omega)
            · intro hr
              have f := r.fresh hr
              refine ⟨?_, ?_⟩
              · intro x hx
                rw [keys_cons, List.mem_cons] at hx
                rcases hx with hx | hx
                · exact hx ▸ hnot
                · intro hxs; exact f.1 x hx ((mem_keys_saveM m st x).mpr (Or.inr hxs))
              · rw [keys_cons, List.nodup_cons]
                refine ⟨?_, f.2⟩
                intro hm; exact f.1 m.1 hm ((mem_keys_saveM m st m.1).mpr (Or.inl rfl))

/-- into an empty map, a repetition-free list is stored completely -/
theorem addLoop_fresh_length {cfg : LoopCfg} {limit : Nat} {l : List Member} {n a n' : Nat} {st' : List Member} {a' : Nat}
    (h : addLoop cfg limit l (n, [], a) = .ok (n', st', a')) (hl : SortedKeys l) :
    st'.length = l.length := by
  have r := addLoop_spec cfg limit l n [] a n' st' a' sortedKeys_nil h
  have h1 : ∀ x, x ∈ keys st' ↔ x ∈ keys l := by intro x; rw [r.mem x]; simp [keys]
  have p : (keys st').Perm (keys l) := (List.perm_ext_iff_of_nodup r.sorted.nodup hl.nodup).mpr h1
  have := p.length_eq
  rwa [keys_length, keys_length] at this

/-! ## saveAll -/

theorem saveAll_spec : ∀ (l st st' : List Member), SortedKeys st → saveAll l st = .ok st' →
    SortedKeys st' ∧ (∀ x, x ∈ keys st' ↔ x ∈ keys st ∨ x ∈ keys l) := by
  intro l
  induction l with
  | nil =>
    intro st st' hs h
    simp only [saveAll, Except.ok.injEq] at h; subst h
    exact ⟨hs, by simp [keys]⟩
  | cons m ms ih =>
    intro st st' hs h
    unfold saveAll at h
    split at h
    · exact absurd h (by simp)
    · have r := ih (saveM m st) st' (sorted_saveM m hs) h
      refine ⟨r.1, ?_⟩
      intro x; rw [r.2 x, mem_keys_saveM, keys_cons, List.mem_cons]
      constructor
      · rintro ((h1 | h1) | h1)
        · exact Or.inr (Or.inl h1)
        · exact Or.inl h1
        · exact Or.inr (Or.inr h1)
      · rintro (h1 | h1 | h1)
        · exact Or.inl (Or.inr h1)
        · exact Or.inl (Or.inl h1)
        · exact Or.inr h1

theorem saveAll_fresh_length {l st' : List Member} (h : saveAll l [] = .ok st') (hl : SortedKeys l) :
    SortedKeys st' ∧ st'.length = l.length ∧ ∀ x, x ∈ keys st' ↔ x ∈ keys l := by
  have r := saveAll_spec l [] st' sortedKeys_nil h
  have h1 : ∀ x, x ∈ keys st' ↔ x ∈ keys l := by intro x; rw [r.2 x]; simp [keys]
  have p : (keys st').Perm (keys l) := (List.perm_ext_iff_of_nodup r.1.nodup hl.nodup).mpr h1
  have := p.length_eq
  rw [keys_length, keys_length] at this
  exact ⟨r.1, this, h1⟩

/-- `l.foldl (fun st x => saveM x st) st0` (whitelist-immutable's `update_whitelist`) -/
theorem foldl_saveM_spec : ∀ (l st : List Member), SortedKeys st →
    SortedKeys (l.foldl (fun st x => saveM x st) st) ∧
    (∀ x, x ∈ keys (l.foldl (fun st x => saveM x st) st) ↔ x ∈ keys st ∨ x ∈ keys l) := by
  intro l
  induction l with
  | nil => intro st hs; exact ⟨hs, by simp [keys]⟩
  | cons m ms ih =>
    intro st hs
    have r := ih (saveM m st) (sorted_saveM m hs)
    simp only [List.foldl_cons]
    refine ⟨r.1, ?_⟩
    intro x; rw [r.2 x, mem_keys_saveM, keys_cons, List.mem_cons]
    constructor
    · rintro ((h1 | h1) | h1)
      · exact Or.inr (Or.inl h1)
      · exact Or.inl h1
      · exact Or.inr (Or.inr h1)
    · rintro (h1 | h1 | h1)
      · exact Or.inl (Or.inr h1)
      · exact Or.inl (Or.inl h1)
      · exact Or.inr h1

theorem foldl_saveM_fresh_length {l : List Member} (hl : SortedKeys l) :
    (l.foldl (fun st x => saveM x st) []).length = l.length := by
  have r := foldl_saveM_spec l [] sortedKeys_nil
  have h1 : ∀ x, x ∈ keys (l.foldl (fun st x => saveM x st) []) ↔ x ∈ keys l := by intro x; rw [r.2 x]; simp [keys]
  have p := (List.perm_ext_iff_of_nodup r.1.nodup hl.nodup).mpr h1
  have := p.length_eq
  rwa [keys_length, keys_length] at this

/-! ## The remove loop -/

structure RemoveSpec (as : List Addr) (n : Nat) (st : List Member) (r : Nat) (n' : Nat) (st' : List Member) (r' : Nat) : Prop where
  sorted : SortedKeys st'
  count : n' + st.length = n + st'.length
  removed : r' + st'.length = r + st.length
  shrink : st'.length + as.length = st.length
  /-- every listed address was a stored member, and none is listed twice -/
  wasMember : ∀ x ∈ as, x ∈ keys st
  distinct : as.Nodup
  mem : ∀ x, x ∈ keys st' ↔ x ∈ keys st ∧ x ∉ as

theorem removeLoop_spec : ∀ (as : List Addr) (n : Nat) (st : List Member) (r n' : Nat) (st' : List Member) (r' : Nat),
    SortedKeys st → removeLoop as (n, st, r) = .ok (n', st', r') → RemoveSpec as n st r n' st' r' := by
  intro as
  induction as with
  | nil =>
    intro n st r n' st' r' hs h
    simp only [removeLoop, Except.ok.injEq, Prod.mk.injEq] at h
    obtain ⟨rfl, rfl, rfl⟩ := h
    exact ⟨hs, rfl, rfl, by simp, by simp, by simp, by simp⟩
  | cons a as ih =>
    intro n st r n' st' r' hs h
    unfold removeLoop at h
    split at h
    · exact absurd h (by simp)
    · split at h
      · exact absurd h (by simp)
      · rename_i hhas
        split at h
        · exact absurd h (by simp)
        · rename_i hn
          have hin : a ∈ keys st := (hasM_iff _ _).mp (by simpa using hhas)
          have q := ih (n - 1) (eraseM a st) (r + 1) n' st' r' (sorted_eraseM a hs) h
          have hl := length_eraseM hs hin
          refine ⟨q.sorted, ?_, ?_, ?_, ?_, ?_, ?_⟩
          · have := q.count; omega
          · have := q.removed; omega
          · have := q.shrink; simp only [List.length_cons]; omega
          · intro x hx
            rcases List.mem_cons.mp hx with hx | hx
            · exact hx ▸ hin
            · exact ((mem_keys_eraseM a st x).mp (q.wasMember x hx)).2
          · rw [List.nodup_cons]
            refine ⟨?_, q.distinct⟩
            intro hm
            exact ((mem_keys_eraseM a st a).mp (q.wasMember a hm)).1 rfl
          · intro x; rw [q.mem x, mem_keys_eraseM, List.mem_cons]
            constructor
            · rintro ⟨⟨h1, h2⟩, h3⟩
              exact ⟨h2, fun h4 => h4.elim h1 h3⟩
            · rintro ⟨h1, h2⟩
              exact ⟨⟨fun e => h2 (Or.inl e), h1⟩, fun h3 => h2 (Or.inr h3)⟩

/-! ## Stage lists -/

theorem stageTotal_nil : stageTotal [] = 0 := rfl
theorem stageTotal_cons (g : Stage) (gs : List Stage) : stageTotal (g :: gs) = g.members.length + stageTotal gs := by
  simp [stageTotal]

theorem stageTotal_append (xs ys : List Stage) : stageTotal (xs ++ ys) = stageTotal xs + stageTotal ys := by
  simp [stageTotal]

theorem stageTotal_take_drop (ss : List Stage) (i : Nat) :
    stageTotal (ss.take i) + stageTotal (ss.drop i) = stageTotal ss := by
  rw [← stageTotal_append, List.take_append_drop]

theorem stageTotal_set : ∀ (ss : List Stage) (i : Nat) (g g' : Stage), ss[i]? = some g →
    stageTotal (ss.set i g') + g.members.length = stageTotal ss + g'.members.length := by
  intro ss
  induction ss with
  | nil => intro i g g' h; simp at h
  | cons x xs ih =>
    intro i g g' h
    cases i with
    | zero =>
      simp only [List.getElem?_cons_zero, Option.some.injEq] at h; subst h
      simp only [List.set_cons_zero, stageTotal_cons]; omega
    | succ j =>
      simp only [List.getElem?_cons_succ] at h
      simp only [List.set_cons_succ, stageTotal_cons]
      have := ih j g g' h; omega

theorem mem_set_imp {α : Type} : ∀ (l : List α) (i : Nat) (x y : α), y ∈ l.set i x → y = x ∨ y ∈ l := by
  intro l
  induction l with
  | nil => intro i x y h; simp at h
  | cons a as ih =>
    intro i x y h
    cases i with
    | zero =>
      simp only [List.set_cons_zero, List.mem_cons] at h
      rcases h with h | h
      · exact Or.inl h
      · exact Or.inr (List.mem_cons_of_mem _ h)
    | succ j =>
      simp only [List.set_cons_succ, List.mem_cons] at h
      rcases h with h | h
      · exact Or.inr (h ▸ List.mem_cons_self)
      · rcases ih j x y h with h | h
        · exact Or.inl h
        · exact Or.inr (List.mem_cons_of_mem _ h)

/-- `setTimes` changes windows only -/
theorem setTimes_spec : ∀ (ss : List Stage) (ts : List (Nat × Nat)),
    stageTotal (setTimes ss ts) = stageTotal ss ∧ (setTimes ss ts).length = ss.length ∧
    ∀ g ∈ setTimes ss ts, ∃ g0 ∈ ss, g.members = g0.members ∧ g.count = g0.count := by
  intro ss
  induction ss with
  | nil => intro ts; cases ts <;> simp [setTimes, stageTotal]
  | cons x xs ih =>
    intro ts
    cases ts with
    | nil => simp only [setTimes]; exact ⟨rfl, rfl, fun g hg => ⟨g, hg, rfl, rfl⟩⟩
    | cons t ts =>
      have r := ih ts
      simp only [setTimes, stageTotal_cons, List.length_cons]
      refine ⟨by rw [r.1], by rw [r.2.1], ?_⟩
      intro g hg
      rcases List.mem_cons.mp hg with hg | hg
      · exact ⟨x, List.mem_cons_self, by rw [hg], by rw [hg]⟩
      · obtain ⟨g0, h0, h1⟩ := r.2.2 g hg
        exact ⟨g0, List.mem_cons_of_mem _ h0, h1⟩

/-! ## Fee arithmetic -/

theorem tiers_mono {a b : Nat} (h : a ≤ b) : tiers a ≤ tiers b := by unfold tiers; omega

/-- the upgrade fee is the difference of the creation fees: the sum of all fees telescopes -/
theorem upgradeFee_telescope (k : Kind) {old new : Nat} (h : old ≤ new) :
    creationFee k old + upgradeFee k old new = creationFee k new := by
  have hm := tiers_mono h
  unfold upgradeFee creationFee
  split
  · rw [← Nat.add_mul]; congr 1; omega
  · have : tiers new = tiers old := by omega
    rw [this]; rfl

/-- `fair_burn` moves exactly the fee out of the contract: `fee/2` burned (floor), the rest to the pool -/
theorem applyMsgs_fairBurn (b : Bank) (self : Addr) (fee : Nat) (h : fee ≤ b.bal) :
    applyMsgs b (Sg1.fairBurn self fee none) =
      .ok { bal := b.bal - fee, burned := b.burned + mulFloor fee (percent Gen.sg1_FEE_BURN_PERCENT),
            pool := b.pool + (fee - mulFloor fee (percent Gen.sg1_FEE_BURN_PERCENT)) } := by
  have hb : mulFloor fee (percent Gen.sg1_FEE_BURN_PERCENT) ≤ fee := by
    unfold mulFloor percent Gen.sg1_FEE_BURN_PERCENT; omega
  unfold Sg1.fairBurn
  simp only [applyMsgs, applyMsg, NATIVE, true_and]
  have h1 : mulFloor fee (percent Gen.sg1_FEE_BURN_PERCENT) ≤ b.bal := by omega
  simp only [h1, if_true]
  have h2 : fee - mulFloor fee (percent Gen.sg1_FEE_BURN_PERCENT) ≤ b.bal - mulFloor fee (percent Gen.sg1_FEE_BURN_PERCENT) := by omega
  simp only [h2, if_true]
  congr 2
  omega

end LP.WlMembers
