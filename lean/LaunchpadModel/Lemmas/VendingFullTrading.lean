import LaunchpadModel.Lemmas.VendingFull
/-!
# Composite ⟶ C19 aspect model (`LP.TT`): projection, op translation, forward simulation

The composite holds the collection's ownership / trading-time record as a `TT.Coll` and calls `TT.tradingUpdateOk`,
`TT.boundedOrDefault`, `TT.Coll.updateTrading/…` itself, so the simulation is close to definitional; what is checked here is that
the composite wires them exactly as `TT.create` / `TT.updTrading` / `TT.updStart` do (admin, `nonpayable`, the offset and mint
start IN FORCE at the time of the message, the minter's own address as the sub-message sender).
-/
namespace LP.VF
open LP

def ttMinter (m : Minter) : TT.Minter := { admin := m.admin, mintStart := m.startTime, endTime := none }

/-- projection onto the C19 aspect world -/
def ttOf (s : State) (m : Minter) : TT.World :=
  { family := .vending, now := s.now, offset := s.params.maxTradingOffsetSecs, minterAddr := m.addr,
    mc := some (ttMinter m, m.tt) }

/-- the aspect world before the minter exists -/
def ttInit (s : State) (minterAddr : Addr) : TT.World :=
  { family := .vending, now := s.now, offset := s.params.maxTradingOffsetSecs, minterAddr := minterAddr, mc := none }

/-- composite op ↦ C19 aspect ops (forward simulation with stuttering) -/
def ttOps (s : State) (op : Op) : List TT.Op :=
  if accepted s op then
    match op with
    | .setTime t => [.setTime t]
    | .sudoParams u => [.sudoOffset u.maxTradingOffsetSecs]
    | .updateStartTradingTime sender _ t => [.updTrading sender t 0]
    | .updateStartTime sender _ t => [.updStart sender t 0]
    | .collTrading sender t => [.collTrading sender t]
    | .collCreator sender new => [.collCreator sender new]
    | .collFreeze sender => [.collFreeze sender]
    | .collOwn sender a => [.collOwn sender a]
    | _ => []
  else []

theorem tt_step'_ok {w w' : TT.World} {op : TT.Op} (h : TT.step w op = .ok w') : TT.step' w op = w' := by
  simp [TT.step', h]

theorem tt_run_one (w : TT.World) (op : TT.Op) : TT.run w [op] = TT.step' w op := rfl

theorem tt_updTrading {s : State} {m m' : Minter} {sender : Addr} {funds : List Coin} {t : Option Nat}
    (h : updateStartTradingTime s m sender funds t = .ok m') :
    TT.step (ttOf s m) (.updTrading sender t 0) = .ok (ttOf s m') := by
  obtain ⟨c, _, hadm, hok, hc, rfl⟩ := updateStartTradingTime_ok h
  simp only [TT.step, TT.updTrading, ttOf, ttMinter, TT.adminOf]
  simp [hadm, hok, hc]

theorem tt_updStart {s : State} {m m' : Minter} {sender : Addr} {funds : List Coin} {t : Nat}
    (h : updateStartTime s m sender funds t = .ok m') :
    TT.step (ttOf s m) (.updStart sender t 0) = .ok (ttOf s m') := by
  obtain ⟨_, hadm, hbefore, hnow, hgen, rfl⟩ := updateStartTime_ok h
  simp only [TT.step, TT.updStart, ttOf, ttMinter]
  have h1 : ¬ s.now ≥ m.startTime := by omega
  have h2 : ¬ s.now > t := by omega
  have h3 : ¬ t < TT.GENESIS := by
    have : TT.GENESIS = GENESIS := rfl
    rw [this]; omega
  simp [hadm, h1, h2, h3]

theorem tt_onColl {s : State} {m : Minter} {f : TT.Coll → Except Err TT.Coll} {c : TT.Coll} (h : f m.tt = .ok c) :
    TT.onColl (ttOf s m) f = .ok (ttOf s { m with tt := c }) := by
  simp [TT.onColl, ttOf, h, ttMinter]

/-- `CreateMinter`: the accepted composite creation is the accepted aspect `create` (trading-time bound and default against the
offset in force, ownership of the new collection) -/
theorem tt_create {s s' : State} {sender : Addr} {funds : List Coin} {msg : CreateMsg} {w : CreateWit}
    (h : step s (.create sender funds msg w) = .ok s') :
    ∃ ck m', s.codes.collKindOf msg.collCode = some ck ∧ s'.minter = some m' ∧
      TT.step (ttInit s w.minterAddr) (.create ck msg.creator msg.startTime none msg.trading) = .ok (ttOf s' m') := by
  simp only [step] at h
  obtain ⟨b1, ms, b2, v, m, _, _, _, _, _, hinst, rfl⟩ := createMinter_ok h
  obtain ⟨wl, trading, sup, ck, _, _, hgen, hnow, _, htr, _, _, hck, _, rfl⟩ := instantiateMinter_ok hinst
  refine ⟨ck, _, hck, rfl, ?_⟩
  unfold createTrading at htr
  simp only [TT.step, TT.create, ttInit, TT.createTrading]
  have h1 : ¬ msg.startTime < TT.GENESIS := by
    have : TT.GENESIS = GENESIS := rfl
    rw [this]; omega
  have h2 : ¬ s.now > msg.startTime := by omega
  simp only [h1, h2, if_false, htr]
  simp [ttOf, ttMinter, TT.mkMinter]

end LP.VF
