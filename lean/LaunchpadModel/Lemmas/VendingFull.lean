import LaunchpadModel.Model.VendingFull
/-!
# Inversion lemmas for the composite model `LP.VF` (one per handler)

`handler … = .ok r → (every gate that was passed) ∧ r = (the state written)`.  They expose the composite's mechanism to the
refinement proofs in `Props/CompositeVending.lean` without unfolding the handlers there.  Core tactics only.
-/
namespace LP.VF
open LP

/-- peel one `match`/`if` layer of an `Except`-valued handler and discard the failing branch -/
macro "peel " h:ident : tactic => `(tactic| (split at $h:ident <;> try contradiction))

theorem step'_ok {s s' : State} {op : Op} (h : step s op = .ok s') : step' s op = s' := by simp [step', h]
theorem step'_err {s : State} {op : Op} {e : Err} (h : step s op = .error e) : step' s op = s := by simp [step', h]

theorem step'_cases (s : State) (op : Op) : (∃ s', step s op = .ok s' ∧ step' s op = s') ∨ ((∃ e, step s op = .error e) ∧ step' s op = s) := by
  cases h : step s op with
  | ok s' => exact Or.inl ⟨s', rfl, step'_ok h⟩
  | error e => exact Or.inr ⟨⟨e, rfl⟩, step'_err h⟩

/-- did the composite accept the message?  (the witness every aspect op's "all other checks passed" flag receives) -/
def accepted (s : State) (op : Op) : Bool :=
  match step s op with
  | .ok _ => true
  | .error _ => false

theorem accepted_true {s : State} {op : Op} (h : accepted s op = true) : ∃ s', step s op = .ok s' := by
  unfold accepted at h
  split at h
  · rename_i s' hs; exact ⟨s', hs⟩
  · cases h

theorem accepted_false {s : State} {op : Op} (h : accepted s op = false) : step' s op = s := by
  unfold accepted at h
  split at h
  · cases h
  · rename_i e he; exact step'_err he

theorem accepted_of_ok {s s' : State} {op : Op} (h : step s op = .ok s') : accepted s op = true := by
  simp [accepted, h]

theorem accepted_of_err {s : State} {op : Op} {e : Err} (h : step s op = .error e) : accepted s op = false := by
  simp [accepted, h]

theorem run_cons (s : State) (op : Op) (ops : List Op) : run s (op :: ops) = run (step' s op) ops := rfl
theorem run_nil (s : State) : run s [] = s := rfl
theorem run_append (s : State) (a b : List Op) : run s (a ++ b) = run (run s a) b := by simp [run, List.foldl_append]

/-- invariants lift from steps to runs -/
theorem run_inv (P : State → Prop) (hstep : ∀ s op, P s → P (step' s op)) (s : State) (h0 : P s) (ops : List Op) :
    P (run s ops) := by
  induction ops generalizing s with
  | nil => exact h0
  | cons op ops ih => exact ih _ (hstep s op h0)

theorem nonpayable_ok {funds : List Coin} (h : nonpayable funds = .ok ()) : funds = [] := by
  unfold nonpayable at h
  split at h
  · rename_i he; simpa using he
  · cases h

theorem adminOnly_ok {m : Minter} {sender : Addr} {funds : List Coin} (h : adminOnly m sender funds = .ok ()) :
    funds = [] ∧ sender = m.admin := by
  unfold adminOnly at h
  peel h
  rename_i hn
  peel h
  rename_i hs
  exact ⟨nonpayable_ok hn, by simpa using hs⟩

theorem withMinter_ok {s s' : State} {f : Minter → Except Err Minter} (h : withMinter s f = .ok s') :
    ∃ m m', s.minter = some m ∧ f m = .ok m' ∧ s' = { s with minter := some m' } := by
  unfold withMinter at h
  peel h
  rename_i m hm
  peel h
  rename_i m' hf
  cases h
  exact ⟨m, m', hm, hf, rfl⟩

theorem withMinterS_ok {s s' : State} {f : Minter → Except Err State} (h : withMinterS s f = .ok s') :
    ∃ m, s.minter = some m ∧ f m = .ok s' := by
  unfold withMinterS at h
  peel h
  rename_i m hm
  exact ⟨m, hm, h⟩

theorem onColl_ok {s s' : State} {f : TT.Coll → Except Err TT.Coll} (h : onColl s f = .ok s') :
    ∃ m c, s.minter = some m ∧ f m.tt = .ok c ∧ s' = { s with minter := some { m with tt := c } } := by
  unfold onColl at h
  obtain ⟨m, m', hm, hf, rfl⟩ := withMinter_ok h
  peel hf
  rename_i c hc
  cases hf
  exact ⟨m, c, hm, hc, rfl⟩

/-! ## mint -/

theorem wlConfig_ok {s : State} {v : Variant} {a : Addr} {i : WlInfo} (h : wlConfig s v a = .ok i) :
    s.wls a = some i ∧ MintLimits.configOk v.flavor i.kind = true := by
  unfold wlConfig at h
  peel h
  rename_i i' hi
  peel h
  rename_i hc
  cases h
  exact ⟨hi, hc⟩

theorem wlMintChecks_ok {m : Minter} {i : WlInfo} {sender : Addr} {f : MintLimits.Fields} {sv : SenderView} {g : MintKind}
    (h : wlMintChecks m i sender f sv = .ok g) :
    ∃ leaf cnt sid ent,
      hasMember m.v i f sv = .ok (true, leaf) ∧ whitelistMintCount m i sender = .ok (cnt, sid) ∧
      wlEntitlement m.v i f sv leaf = .ok ent ∧ cnt < ent ∧ g = .wl sid cnt ∧
      (sid ≠ 0 → MintLimits.stageOk m.v.flavor i.kind = true ∧ ∀ L, i.stageLimit = some L → m.tot sid < L) := by
  unfold wlMintChecks at h
  split at h
  · cases h
  · cases h
  · rename_i leaf hmem
    peel h
    rename_i cnt sid hcnt
    peel h
    rename_i ent hent
    peel h
    rename_i hlt
    have hlt' : cnt < ent := Decidable.byContradiction fun hc => hlt hc
    split at h
    · rename_i hs0
      cases h
      exact ⟨leaf, cnt, sid, ent, hmem, hcnt, hent, hlt', by rw [hs0], fun hne => absurd hs0 hne⟩
    · rename_i hs0
      peel h
      rename_i hst
      have hst' : MintLimits.stageOk m.v.flavor i.kind = true := by
        cases hx : MintLimits.stageOk m.v.flavor i.kind <;> simp_all
      split at h
      · rename_i hl
        cases h
        exact ⟨leaf, cnt, sid, ent, hmem, hcnt, hent, hlt', rfl, fun _ => ⟨hst', fun L hL => by rw [hl] at hL; cases hL⟩⟩
      · rename_i L hl
        peel h
        rename_i htot
        cases h
        exact ⟨leaf, cnt, sid, ent, hmem, hcnt, hent, hlt', rfl,
          fun _ => ⟨hst', fun L' hL' => by rw [hl] at hL'; cases hL'; exact htot⟩⟩


theorem executeMint_ok {s s' : State} {m : Minter} {b1 : MintPay.Bank} {sender : Addr} {funds : List Coin}
    {isAdmin : Bool} {rcpt : Addr} {pk : Pick} {g : MintKind}
    (h : executeMint s m b1 sender funds isAdmin rcpt pk g = .ok s') :
    ∃ price ms sup b2,
      m.supply.mintable ≠ 0 ∧ mintPrice s m isAdmin = .ok price ∧ mayPay funds price.denom = .ok price.amount ∧
      mintMsgs s.params m isAdmin price = .ok ms ∧ m.tt.owner = some m.addr ∧
      takeToken m.supply pk rcpt = some sup ∧ MintPay.applyMsgs m.addr b1 ms = some b2 ∧
      s' = { s with bank := b2,
                    minter := some { bookCount m sender g with
                      supply := sup,
                      airdropCount := if isAdmin then m.airdropCount + 1 else m.airdropCount,
                      received := MintLimits.upd m.received rcpt (m.received rcpt + 1) } } := by
  unfold executeMint at h
  peel h
  rename_i hz
  peel h
  rename_i price hp
  peel h
  rename_i payment hpay
  peel h
  rename_i heq
  peel h
  rename_i ms hms
  peel h
  rename_i how
  peel h
  rename_i _hmeta
  peel h
  rename_i sup hsup
  peel h
  rename_i b2 hb2
  refine ⟨price, ms, sup, b2, hz, hp, ?_, hms, ?_, hsup, hb2, ?_⟩
  · have : payment = price.amount := by simpa using heq
    rw [← this]; exact hpay
  · simpa using how
  · cases h; rfl

theorem mintSender_ok {s s' : State} {m : Minter} {sender : Addr} {funds : List Coin} {f : MintLimits.Fields}
    {sv : SenderView} {picked : Nat} (h : mintSender s m sender funds f sv picked = .ok s') :
    ∃ b1 g,
      (m.v.flavor = .merkle ∨ f = MintLimits.Fields.empty) ∧
      s.bank.sendFunds sender m.addr funds = some b1 ∧ isPublicMint s m sender f sv = .ok g ∧
      (g = .pub → m.startTime ≤ s.now ∧ m.pub sender < m.perAddressLimit) ∧
      executeMint s m b1 sender funds false sender (.at picked) g = .ok s' := by
  unfold mintSender at h
  peel h
  rename_i hf
  peel h
  rename_i b1 hb1
  peel h
  rename_i g hg
  peel h
  rename_i h1
  peel h
  rename_i h2
  refine ⟨b1, g, ?_, hb1, hg, ?_, h⟩
  · by_cases hm : m.v.flavor = .merkle
    · exact Or.inl hm
    · right
      by_cases hfe : f = MintLimits.Fields.empty
      · exact hfe
      · exact absurd ⟨hm, hfe⟩ hf
  · intro hp
    constructor
    · have : ¬ s.now < m.startTime := fun hlt => h1 ⟨hp, hlt⟩
      omega
    · exact Decidable.byContradiction fun hlt => h2 ⟨hp, hlt⟩

theorem mintAdmin_ok {s s' : State} {m : Minter} {sender : Addr} {funds : List Coin} {rcpt : Addr} {pk : Pick}
    (h : mintAdmin s m sender funds rcpt pk = .ok s') :
    ∃ b1, s.bank.sendFunds sender m.addr funds = some b1 ∧ sender = m.admin ∧
      executeMint s m b1 sender funds true rcpt pk .pub = .ok s' := by
  unfold mintAdmin at h
  peel h
  rename_i b1 hb1
  peel h
  rename_i hs
  exact ⟨b1, hb1, by simpa using hs, h⟩

/-! ## configuration messages -/

theorem setWhitelist_ok {s : State} {m m' : Minter} {sender : Addr} {funds : List Coin} {wl : Addr} {valid : Bool}
    (h : setWhitelist s m sender funds wl valid = .ok m') :
    ∃ i, funds = [] ∧ sender = m.admin ∧ s.now < m.startTime ∧
      (∀ a0, m.whitelist = some a0 → ∃ i0, wlConfig s m.v a0 = .ok i0 ∧ i0.active = false) ∧
      valid = true ∧ wlConfig s m.v wl = .ok i ∧ i.active = false ∧
      (m.v.isFlex = false → i.price.denom = m.mintPrice.denom) ∧
      s.params.minMintPrice.amount ≤ i.price.amount ∧ s.params.minMintPrice.denom = i.price.denom ∧
      m' = { m with whitelist := some wl } := by
  unfold setWhitelist at h
  peel h
  rename_i ha
  obtain ⟨hfu, hse⟩ := adminOnly_ok ha
  peel h
  rename_i hst
  peel h
  rename_i hold
  peel h
  rename_i hv
  peel h
  rename_i i hi
  peel h
  rename_i hact
  peel h
  rename_i hden
  peel h
  rename_i hmin
  peel h
  rename_i hfd
  refine ⟨i, hfu, hse, ?_, ?_, ?_, hi, ?_, ?_, ?_, ?_, ?_⟩
  · exact Decidable.byContradiction fun hc => hst hc
  · intro a0 ha0
    rw [ha0] at hold
    simp only at hold
    peel hold
    rename_i i0 hi0
    peel hold
    rename_i hact0
    exact ⟨i0, hi0, by simpa using hact0⟩
  · cases valid <;> simp_all
  · simpa using hact
  · intro hfl
    exact Decidable.byContradiction fun hc => hden ⟨hfl, hc⟩
  · omega
  · exact Decidable.byContradiction fun hc => hfd hc
  · cases h; rfl

theorem purge_ok {m m' : Minter} {funds : List Coin} (h : purge m funds = .ok m') :
    funds = [] ∧ m.supply.mintable = 0 ∧
      m' = { m with pub := MintLimits.zero, wlc := if m.v.isFlex then MintLimits.zero else m.wlc } := by
  unfold purge at h
  peel h
  rename_i hn
  peel h
  rename_i x hp
  refine ⟨nonpayable_ok hn, ?_, by cases h; rfl⟩
  unfold Supply.Fixed.purge at hp
  split at hp
  · assumption
  · cases hp

theorem updateMintPrice_ok {s : State} {m m' : Minter} {sender : Addr} {funds : List Coin} {price : Nat}
    (h : updateMintPrice s m sender funds price = .ok m') :
    funds = [] ∧ sender = m.admin ∧ (m.startTime ≤ s.now → price < m.mintPrice.amount) ∧
      s.params.minMintPrice.amount ≤ price ∧
      m' = { m with mintPrice := ⟨m.mintPrice.denom, price⟩, discountPrice := keepDiscount m.discountPrice price } := by
  unfold updateMintPrice at h
  peel h
  rename_i ha
  obtain ⟨hfu, hse⟩ := adminOnly_ok ha
  peel h
  rename_i h1
  peel h
  rename_i h2
  refine ⟨hfu, hse, ?_, by omega, by cases h; rfl⟩
  intro hst
  exact Decidable.byContradiction fun hc => h1 ⟨hst, by omega⟩

theorem updateStartTime_ok {s : State} {m m' : Minter} {sender : Addr} {funds : List Coin} {t : Nat}
    (h : updateStartTime s m sender funds t = .ok m') :
    funds = [] ∧ sender = m.admin ∧ s.now < m.startTime ∧ s.now ≤ t ∧ GENESIS ≤ t ∧ m' = { m with startTime := t } := by
  unfold updateStartTime at h
  peel h
  rename_i ha
  obtain ⟨hfu, hse⟩ := adminOnly_ok ha
  peel h
  rename_i h1
  peel h
  rename_i h2
  peel h
  rename_i h3
  exact ⟨hfu, hse, by omega, by omega, by omega, by cases h; rfl⟩

theorem updateStartTradingTime_ok {s : State} {m m' : Minter} {sender : Addr} {funds : List Coin} {t : Option Nat}
    (h : updateStartTradingTime s m sender funds t = .ok m') :
    ∃ c, funds = [] ∧ sender = m.admin ∧
      TT.tradingUpdateOk .vending s.now m.startTime s.params.maxTradingOffsetSecs t = true ∧
      m.tt.updateTrading m.addr t = .ok c ∧ m' = { m with tt := c } := by
  unfold updateStartTradingTime at h
  peel h
  rename_i ha
  obtain ⟨hfu, hse⟩ := adminOnly_ok ha
  peel h
  rename_i h1
  peel h
  rename_i c hc
  exact ⟨c, hfu, hse, by simpa using h1, hc, by cases h; rfl⟩

theorem updatePerAddressLimit_ok {s : State} {m m' : Minter} {sender : Addr} {funds : List Coin} {n : Nat}
    (h : updatePerAddressLimit s m sender funds n = .ok m') :
    funds = [] ∧ sender = m.admin ∧ n ≠ 0 ∧ n ≤ s.params.maxPerAddressLimit ∧
      (m.v.isFlex = false → MintLimits.dynOk n m.supply.n s.params.maxPerAddressLimit = true) ∧
      m' = { m with perAddressLimit := n } := by
  unfold updatePerAddressLimit at h
  peel h
  rename_i ha
  obtain ⟨hfu, hse⟩ := adminOnly_ok ha
  peel h
  rename_i h1
  peel h
  rename_i h2
  refine ⟨hfu, hse, by omega, by omega, ?_, by cases h; rfl⟩
  intro hfl
  cases hd : MintLimits.dynOk n m.supply.n s.params.maxPerAddressLimit with
  | true => rfl
  | false => exact absurd ⟨hfl, hd⟩ h2

theorem shuffle_ok {s s' : State} {m : Minter} {sender : Addr} {funds : List Coin} {perm : List Nat}
    (h : shuffle s m sender funds perm = .ok s') :
    ∃ b1 ms sup b2, s.bank.sendFunds sender m.addr funds = some b1 ∧
      Sg1.checkedFairBurn funds m.addr s.params.shuffleFee.amount none = .ok ms ∧
      m.supply.shuffle perm = some sup ∧ MintPay.applyMsgs m.addr b1 ms = some b2 ∧
      s' = { s with bank := b2, minter := some { m with supply := sup } } := by
  unfold shuffle at h
  peel h
  rename_i b1 hb1
  peel h
  rename_i ms hms
  peel h
  rename_i sup hsup
  peel h
  rename_i b2 hb2
  exact ⟨b1, ms, sup, b2, hb1, hms, hsup, hb2, by cases h; rfl⟩

theorem burnRemaining_ok {m m' : Minter} {sender : Addr} {funds : List Coin} (h : burnRemaining m sender funds = .ok m') :
    ∃ sup, funds = [] ∧ sender = m.admin ∧ m.supply.burnAll = some sup ∧ m' = { m with supply := sup } := by
  unfold burnRemaining at h
  peel h
  rename_i ha
  obtain ⟨hfu, hse⟩ := adminOnly_ok ha
  peel h
  rename_i sup hsup
  exact ⟨sup, hfu, hse, hsup, by cases h; rfl⟩

theorem updateDiscountPrice_ok {s : State} {m m' : Minter} {sender : Addr} {funds : List Coin} {price : Nat}
    (h : updateDiscountPrice s m sender funds price = .ok m') :
    funds = [] ∧ sender = m.admin ∧ m.startTime ≤ s.now ∧ m.lastDiscount + H12 ≤ s.now ∧ price ≤ m.mintPrice.amount ∧
      s.params.minMintPrice.amount ≤ price ∧
      m' = { m with discountPrice := some ⟨m.mintPrice.denom, price⟩, lastDiscount := s.now } := by
  unfold updateDiscountPrice at h
  peel h
  rename_i ha
  obtain ⟨hfu, hse⟩ := adminOnly_ok ha
  peel h
  rename_i h1
  peel h
  rename_i h2
  peel h
  rename_i h3
  peel h
  rename_i h4
  exact ⟨hfu, hse, by omega, by omega, by omega, by omega, by cases h; rfl⟩

theorem removeDiscountPrice_ok {s : State} {m m' : Minter} {sender : Addr} {funds : List Coin}
    (h : removeDiscountPrice s m sender funds = .ok m') :
    funds = [] ∧ sender = m.admin ∧ m.lastDiscount + HOUR ≤ s.now ∧
      m' = { m with discountPrice := none, lastDiscount := s.now } := by
  unfold removeDiscountPrice at h
  peel h
  rename_i ha
  obtain ⟨hfu, hse⟩ := adminOnly_ok ha
  peel h
  rename_i h1
  exact ⟨hfu, hse, by omega, by cases h; rfl⟩

theorem collTransfer_ok {m m' : Minter} {sender : Addr} {id : Nat} {to : Addr} (h : collTransfer m sender id to = .ok m') :
    ∃ c, m.tt.kind ≠ .nt ∧ m.supply.coll.ownerOf id = some sender ∧ m.supply.coll.transfer id to = some c ∧
      m' = { m with supply := { m.supply with coll := c } } := by
  unfold collTransfer at h
  peel h
  rename_i h1
  peel h
  rename_i h2
  peel h
  rename_i c hc
  exact ⟨c, h1, by simpa using h2, hc, by cases h; rfl⟩

theorem collBurn_ok {m m' : Minter} {sender : Addr} {id : Nat} (h : collBurn m sender id = .ok m') :
    ∃ c, m.supply.coll.ownerOf id = some sender ∧ m.supply.coll.burn id = some c ∧
      m' = { m with supply := { m.supply with coll := c } } := by
  unfold collBurn at h
  peel h
  rename_i h2
  peel h
  rename_i c hc
  exact ⟨c, by simpa using h2, hc, by cases h; rfl⟩

/-! ## creation -/

theorem instantiateMinter_ok {s : State} {v : Variant} {msg : CreateMsg} {w : CreateWit} {m : Minter}
    (h : instantiateMinter s v msg w = .ok m) :
    ∃ wl trading sup ck,
      (v.isFlex = false → MintLimits.dynOk msg.perAddressLimit msg.numTokens s.params.maxPerAddressLimit = true) ∧
      msg.uriOk = true ∧ GENESIS ≤ msg.startTime ∧ s.now ≤ msg.startTime ∧
      createWhitelist s v msg = .ok wl ∧ createTrading s msg = .ok trading ∧ H12 ≤ s.now ∧
      Supply.Fixed.init msg.numTokens w.perm = some sup ∧ s.codes.collKindOf msg.collCode = some ck ∧ msg.collOk = true ∧
      m = { v := v, addr := w.minterAddr, factory := s.factoryAddr, collectionCodeId := msg.collCode,
            mintPrice := msg.mintPrice, admin := msg.creator, paymentAddress := msg.paymentAddress,
            whitelist := wl, startTime := msg.startTime, perAddressLimit := msg.perAddressLimit,
            discountPrice := none, sg721 := w.collAddr, supply := sup,
            pub := MintLimits.zero, wlc := MintLimits.zero, stg := fun _ => MintLimits.zero,
            tot := MintLimits.zero, airdropCount := 0, lastDiscount := s.now - H12, status := {},
            received := MintLimits.zero,
            tt := TT.Coll.init ck w.minterAddr msg.creator trading } := by
  unfold instantiateMinter at h
  peel h
  rename_i h1
  peel h
  rename_i h2
  peel h
  rename_i h3
  peel h
  rename_i h4
  peel h
  rename_i wl hwl
  peel h
  rename_i trading htr
  peel h
  rename_i h5
  peel h
  rename_i sup hsup
  peel h
  rename_i ck hck
  peel h
  rename_i h6
  refine ⟨wl, trading, sup, ck, ?_, ?_, by omega, by omega, hwl, htr, by omega, hsup, hck, ?_, by cases h; rfl⟩
  · intro hfl
    cases hd : MintLimits.dynOk msg.perAddressLimit msg.numTokens s.params.maxPerAddressLimit with
    | true => rfl
    | false => exact absurd ⟨hfl, hd⟩ h1
  · cases hu : msg.uriOk <;> simp_all
  · cases hu : msg.collOk <;> simp_all

theorem factoryChecks_ok {s : State} {funds : List Coin} {msg : CreateMsg} {ms : List Msg}
    (h : factoryChecks s funds msg = .ok ms) :
    (∃ n, mustPay funds s.params.creationFee.denom = .ok n) ∧ s.params.allowed.contains msg.collCode = true ∧
      s.params.frozen = false ∧ creationFeeMsgs s funds = .ok ms ∧
      msg.numTokens ≠ 0 ∧ msg.numTokens ≤ s.params.maxTokenLimit ∧
      msg.perAddressLimit ≠ 0 ∧ msg.perAddressLimit ≤ s.params.maxPerAddressLimit ∧
      s.params.minMintPrice.denom = msg.mintPrice.denom ∧ s.params.minMintPrice.amount ≤ msg.mintPrice.amount := by
  unfold factoryChecks at h
  peel h
  rename_i n hn
  peel h
  rename_i hal
  peel h
  rename_i hfr
  peel h
  rename_i ms' hms
  peel h
  rename_i hnt
  peel h
  rename_i hpl
  peel h
  rename_i hd
  peel h
  rename_i ha
  cases h
  refine ⟨⟨n, hn⟩, ?_, ?_, hms, by omega, by omega, by omega, by omega, ?_, by omega⟩
  · cases hx : s.params.allowed.contains msg.collCode <;> simp_all
  · cases hx : s.params.frozen <;> simp_all
  · exact Decidable.byContradiction fun hc => hd hc

theorem createMinter_ok {s s' : State} {sender : Addr} {funds : List Coin} {msg : CreateMsg} {w : CreateWit}
    (h : createMinter s sender funds msg w = .ok s') :
    ∃ b1 ms b2 v m, s.minter = none ∧ s.bank.sendFunds sender s.factoryAddr funds = some b1 ∧
      factoryChecks s funds msg = .ok ms ∧ MintPay.applyMsgs s.factoryAddr b1 ms = some b2 ∧
      s.codes.variantOf s.params.codeId = some v ∧ instantiateMinter s v msg w = .ok m ∧
      s' = { s with bank := b2, minter := some m } := by
  unfold createMinter at h
  peel h
  rename_i h0
  peel h
  rename_i b1 hb1
  peel h
  rename_i ms hms
  peel h
  rename_i b2 hb2
  peel h
  rename_i v hv
  peel h
  rename_i m hm
  refine ⟨b1, ms, b2, v, m, ?_, hb1, hms, hb2, hv, hm, by cases h; rfl⟩
  cases hmi : s.minter with
  | none => rfl
  | some x => simp [hmi] at h0

/-! ## frame: which top-level components a message can change -/

theorem step_frame {s s' : State} {op : Op} (h : step s op = .ok s') :
    s'.codes = s.codes ∧ s'.factoryAddr = s.factoryAddr ∧
    ((∃ u, op = .sudoParams u) ∨ s'.params = s.params) ∧
    ((∃ k i, op = .wlEnv k i) ∨ s'.wls = s.wls) ∧
    ((∃ t, op = .setTime t) ∨ s'.now = s.now) := by
  cases op with
  | setTime t =>
    simp only [step] at h; split at h <;> cases h
    exact ⟨rfl, rfl, Or.inr rfl, Or.inr rfl, Or.inl ⟨t, rfl⟩⟩
  | fund a c => simp only [step] at h; cases h; exact ⟨rfl, rfl, Or.inr rfl, Or.inr rfl, Or.inr rfl⟩
  | wlEnv k i => simp only [step] at h; cases h; exact ⟨rfl, rfl, Or.inr rfl, Or.inl ⟨k, i, rfl⟩, Or.inr rfl⟩
  | sudoParams u =>
    simp only [step] at h; split at h <;> cases h
    exact ⟨rfl, rfl, Or.inl ⟨u, rfl⟩, Or.inr rfl, Or.inr rfl⟩
  | instantiateDirect sender => simp [step] at h
  | create sender funds msg w =>
    simp only [step] at h
    obtain ⟨_, _, _, _, _, _, _, _, _, _, _, rfl⟩ := createMinter_ok h
    exact ⟨rfl, rfl, Or.inr rfl, Or.inr rfl, Or.inr rfl⟩
  | mint sender funds f sv picked =>
    simp only [step] at h
    obtain ⟨m, _, h⟩ := withMinterS_ok h
    obtain ⟨_, _, _, _, _, _, h⟩ := mintSender_ok h
    obtain ⟨_, _, _, _, _, _, _, _, _, _, _, rfl⟩ := executeMint_ok h
    exact ⟨rfl, rfl, Or.inr rfl, Or.inr rfl, Or.inr rfl⟩
  | mintTo sender funds rcpt picked =>
    simp only [step] at h
    obtain ⟨m, _, h⟩ := withMinterS_ok h
    obtain ⟨_, _, _, h⟩ := mintAdmin_ok h
    obtain ⟨_, _, _, _, _, _, _, _, _, _, _, rfl⟩ := executeMint_ok h
    exact ⟨rfl, rfl, Or.inr rfl, Or.inr rfl, Or.inr rfl⟩
  | mintFor sender funds id rcpt =>
    simp only [step] at h
    obtain ⟨m, _, h⟩ := withMinterS_ok h
    obtain ⟨_, _, _, h⟩ := mintAdmin_ok h
    obtain ⟨_, _, _, _, _, _, _, _, _, _, _, rfl⟩ := executeMint_ok h
    exact ⟨rfl, rfl, Or.inr rfl, Or.inr rfl, Or.inr rfl⟩
  | shuffle sender funds perm =>
    simp only [step] at h
    obtain ⟨m, _, h⟩ := withMinterS_ok h
    obtain ⟨_, _, _, _, _, _, _, _, rfl⟩ := shuffle_ok h
    exact ⟨rfl, rfl, Or.inr rfl, Or.inr rfl, Or.inr rfl⟩
  | setWhitelist sender funds wl valid =>
    simp only [step] at h
    obtain ⟨_, _, _, _, rfl⟩ := withMinter_ok h
    exact ⟨rfl, rfl, Or.inr rfl, Or.inr rfl, Or.inr rfl⟩
  | purge sender funds =>
    simp only [step] at h
    obtain ⟨_, _, _, _, rfl⟩ := withMinter_ok h
    exact ⟨rfl, rfl, Or.inr rfl, Or.inr rfl, Or.inr rfl⟩
  | updateMintPrice sender funds p =>
    simp only [step] at h
    obtain ⟨_, _, _, _, rfl⟩ := withMinter_ok h
    exact ⟨rfl, rfl, Or.inr rfl, Or.inr rfl, Or.inr rfl⟩
  | updateStartTime sender funds t =>
    simp only [step] at h
    obtain ⟨_, _, _, _, rfl⟩ := withMinter_ok h
    exact ⟨rfl, rfl, Or.inr rfl, Or.inr rfl, Or.inr rfl⟩
  | updateStartTradingTime sender funds t =>
    simp only [step] at h
    obtain ⟨_, _, _, _, rfl⟩ := withMinter_ok h
    exact ⟨rfl, rfl, Or.inr rfl, Or.inr rfl, Or.inr rfl⟩
  | updatePerAddressLimit sender funds n =>
    simp only [step] at h
    obtain ⟨_, _, _, _, rfl⟩ := withMinter_ok h
    exact ⟨rfl, rfl, Or.inr rfl, Or.inr rfl, Or.inr rfl⟩
  | burnRemaining sender funds =>
    simp only [step] at h
    obtain ⟨_, _, _, _, rfl⟩ := withMinter_ok h
    exact ⟨rfl, rfl, Or.inr rfl, Or.inr rfl, Or.inr rfl⟩
  | updateDiscountPrice sender funds p =>
    simp only [step] at h
    obtain ⟨_, _, _, _, rfl⟩ := withMinter_ok h
    exact ⟨rfl, rfl, Or.inr rfl, Or.inr rfl, Or.inr rfl⟩
  | removeDiscountPrice sender funds =>
    simp only [step] at h
    obtain ⟨_, _, _, _, rfl⟩ := withMinter_ok h
    exact ⟨rfl, rfl, Or.inr rfl, Or.inr rfl, Or.inr rfl⟩
  | sudoStatus v b e =>
    simp only [step] at h
    obtain ⟨_, _, _, _, rfl⟩ := withMinter_ok h
    exact ⟨rfl, rfl, Or.inr rfl, Or.inr rfl, Or.inr rfl⟩
  | collTransfer sender id to =>
    simp only [step] at h
    obtain ⟨_, _, _, _, rfl⟩ := withMinter_ok h
    exact ⟨rfl, rfl, Or.inr rfl, Or.inr rfl, Or.inr rfl⟩
  | collBurn sender id =>
    simp only [step] at h
    obtain ⟨_, _, _, _, rfl⟩ := withMinter_ok h
    exact ⟨rfl, rfl, Or.inr rfl, Or.inr rfl, Or.inr rfl⟩
  | collTrading sender t =>
    simp only [step] at h
    obtain ⟨_, _, _, _, rfl⟩ := onColl_ok h
    exact ⟨rfl, rfl, Or.inr rfl, Or.inr rfl, Or.inr rfl⟩
  | collCreator sender new =>
    simp only [step] at h
    obtain ⟨_, _, _, _, rfl⟩ := onColl_ok h
    exact ⟨rfl, rfl, Or.inr rfl, Or.inr rfl, Or.inr rfl⟩
  | collFreeze sender =>
    simp only [step] at h
    obtain ⟨_, _, _, _, rfl⟩ := onColl_ok h
    exact ⟨rfl, rfl, Or.inr rfl, Or.inr rfl, Or.inr rfl⟩
  | collOwn sender a =>
    simp only [step] at h
    obtain ⟨_, _, _, _, rfl⟩ := onColl_ok h
    exact ⟨rfl, rfl, Or.inr rfl, Or.inr rfl, Or.inr rfl⟩

end LP.VF
