import LaunchpadModel.Model.BaseFull
import LaunchpadModel.Model.Proto
/-!
Driver for the composite model of the base family (`LP.BF`, Model/BaseFull.lean). Same conventions as `Driver/Comp.lean` /
`Driver/CompOe.lean`: one output line per input line, every answer is `<case|ok|err|bad-op> <obs>` with `<obs>` =
`F … M … C … B …` (the complete observable state, see `docs/COMPOSITE_BASE.md`).

* `case now= fac= fadmin=<a|-> mcodes=<base-minter code ids> ccodes=<4> accts= probe= code= allowed= frozen= cfee= minp= feebps= offset= ext=`
* `t now=` · `fund a= d= amt=`
* `create sender= funds= init=<0|1> code= creator=<a|x> trading=<ns|-> desc=<bytes> image=<0|1> link=<-|0|1> roy=<-|share:pay|share:x> maddr= caddr=`
* `inst_direct sender=` · `raw sender= …` (a message kind the family does not have)
* `mint sender= funds= uri=<id> uriok=<0|1>` · `upd_trading sender= funds= t=<ns|->`
* `sudo_status v= b= e=` · `sudo_params [code= addc= rmc= frozen= cfee= minp= feebps= offset= ext=]`
* `migrate sender= none=<0|1> [fields of sudo_params]`
* `c_transfer sender= id= to=` · `c_burn sender= id=` · `c_trading sender= t=` · `c_creator sender= new=` ·
  `c_freeze sender=` · `c_own sender= act=<transfer|accept|renounce> new=`
-/
open LP LP.Proto LP.BF

structure Drv where
  s : State
  accts : List Nat
  probe : List Nat

def coinKv (ws : List String) (key : String) : Option Coin :=
  match pairListKv ws key with
  | some [(d, a)] => some ⟨d, a⟩
  | _ => none

def optCoinKv (ws : List String) (key : String) : Option (Option Coin) :=
  match kv ws key with
  | none => some none
  | some _ => (coinKv ws key).map some

def fundsKv (ws : List String) : List Coin :=
  ((pairListKv ws "funds").getD []).map fun (d, a) => ⟨d, a⟩

/-- `x` / `-` = none -/
def optX (s : String) : Option (Option Nat) :=
  if s == "x" || s == "-" then some none else (nat? s).map some

def rc (c : Coin) : String := s!"{c.denom}:{c.amount}"
def rb (b : Bool) : String := if b then "1" else "0"

def sortPairs (l : List (Nat × Nat)) : List (Nat × Nat) :=
  (l.toArray.qsort (fun a b => a.1 < b.1)).toList

def obsFactory (d : Drv) : String :=
  let p := queryParams d.s
  s!"F code={p.codeId} allowed={renderNats (queryAllowedIds d.s)} frozen={rb p.frozen} cfee={rc p.creationFee} minp={rc p.minMintPrice} feebps={p.mintFeeBps} offset={p.maxTradingOffsetSecs} ext={rb p.ext} probe={String.join (d.probe.map fun c => rb (queryAllowed d.s c))}"

def obsMinter (d : Drv) : String :=
  match d.s.minter with
  | none => "M -"
  | some m =>
    let c := queryConfig m
    let st := queryStatus m
    s!"M addr={m.addr} fac={c.factory} ccode={c.collectionCodeId} price={rc c.mintPrice} sg721={c.collectionAddress} st={rb st.verified}{rb st.blocked}{rb st.explicit} idx={m.seq.tokenIndex} wcode={m.codeId} wcreator={m.factory} wadmin={m.wasmAdmin}"

def uriOf (m : Minter) (id : Nat) : String :=
  match m.uris.find? (fun e => e.1 == id) with
  | some e => toString e.2
  | none => "-"

def renderRoy (r : Option (Nat × Nat)) : String :=
  match r with
  | some (s, p) => s!"{s}:{p}"
  | none => "-"

def obsColl (d : Drv) : String :=
  match d.s.minter with
  | none => "C -"
  | some m =>
    let toks := (sortPairs m.seq.coll.toks).map fun (id, o) => s!"{id}:{o}:{uriOf m id}"
    let ts := if toks.isEmpty then "-" else String.intercalate "," toks
    s!"C n={m.seq.coll.count} toks={ts} trading={renderOpt m.tt.trading} creator={m.tt.creator} owner={renderOpt m.tt.owner} pending={renderOpt m.tt.pending} frozen={rb m.tt.frozen} roy={renderRoy m.royalty} rupd={m.createdAt} wcode={m.collectionCodeId} wcreator={m.addr} wadmin={m.collAdmin}"

def obsBank (d : Drv) : String :=
  let extra := match d.s.minter with
    | none => []
    | some m => [m.addr, m.sg721]
  let as := d.accts ++ [d.s.factoryAddr] ++ extra
  let b := d.s.bank
  let bal := String.intercalate "," (as.map fun a => s!"{a}:{b.bal a 0}:{b.bal a 1}")
  s!"B {bal} sup={b.supply 0}:{b.supply 1}"

def obs (d : Drv) : String := s!"{obsFactory d} {obsMinter d} {obsColl d} {obsBank d}"

def parseOwnAction (ws : List String) : Option TT.OwnAction :=
  match kv ws "act" with
  | some "transfer" => (natKv ws "new").map TT.OwnAction.transfer
  | some "accept" => some .accept
  | some "renounce" => some .renounce
  | _ => none

def parseUpdate (ws : List String) : Option ParamsUpdate := do
  let cfee ← optCoinKv ws "cfee"; let minp ← optCoinKv ws "minp"
  pure { codeId := natKv ws "code", addCodes := natListKv ws "addc", rmCodes := natListKv ws "rmc",
         frozen := boolKv ws "frozen", creationFee := cfee, minMintPrice := minp, mintFeeBps := natKv ws "feebps",
         maxTradingOffsetSecs := natKv ws "offset", ext := (boolKv ws "ext").getD false }

def parseParams (ws : List String) : Option Params := do
  let code ← natKv ws "code"; let allowed ← natListKv ws "allowed"; let frozen ← boolKv ws "frozen"
  let cfee ← coinKv ws "cfee"; let minp ← coinKv ws "minp"; let feebps ← natKv ws "feebps"
  let offset ← natKv ws "offset"; let ext ← boolKv ws "ext"
  pure { codeId := code, allowed := allowed, frozen := frozen, creationFee := cfee, minMintPrice := minp,
         mintFeeBps := feebps, maxTradingOffsetSecs := offset, ext := ext }

/-- `roy=-` | `roy=<share atomics>:<payment address id|x>` -/
def parseRoy (ws : List String) : Option (Option (Nat × Option Nat)) :=
  match kv ws "roy" with
  | none => none
  | some "-" => some none
  | some v =>
    match v.splitOn ":" with
    | [s, p] => do let s ← nat? s; let p ← optX p; pure (some (s, p))
    | _ => none

def parseLink (ws : List String) : Option (Option Bool) :=
  match kv ws "link" with
  | some "-" => some none
  | some "1" => some (some true)
  | some "0" => some (some false)
  | _ => none

def parseOp (ws : List String) : Option Op :=
  let sender := (natKv ws "sender").getD 0
  let funds := fundsKv ws
  match ws.head? with
  | some "t" => (natKv ws "now").map Op.setTime
  | some "fund" => do
    let a ← natKv ws "a"; let dn ← natKv ws "d"; let amt ← natKv ws "amt"
    pure (.fund a ⟨dn, amt⟩)
  | some "create" => do
    let code ← natKv ws "code"; let creator ← (kv ws "creator").bind optX; let trading ← optNatKv ws "trading"
    let desc ← natKv ws "desc"; let image ← boolKv ws "image"; let link ← parseLink ws; let roy ← parseRoy ws
    let maddr ← natKv ws "maddr"; let caddr ← natKv ws "caddr"
    pure (.create sender funds
      { initExt := (boolKv ws "init").getD false, collCode := code, creator := creator, trading := trading,
        descLen := desc, imageOk := image, linkOk := link, royalty := roy }
      { minterAddr := maddr, collAddr := caddr })
  | some "inst_direct" => some (.instantiateDirect sender)
  | some "raw" => some (.foreign sender)
  | some "mint" => do
    let uri ← natKv ws "uri"; let ok ← boolKv ws "uriok"
    pure (.mint sender funds uri ok)
  | some "upd_trading" => (optNatKv ws "t").map (Op.updateStartTradingTime sender funds)
  | some "sudo_status" => do
    let v ← boolKv ws "v"; let b ← boolKv ws "b"; let e ← boolKv ws "e"
    pure (.sudoStatus v b e)
  | some "sudo_params" => (parseUpdate ws).map Op.sudoParams
  | some "migrate" => do
    let none_ ← boolKv ws "none"
    if none_ then pure (.migrate sender none)
    else (parseUpdate ws).map fun u => Op.migrate sender (some u)
  | some "c_transfer" => do
    let id ← natKv ws "id"; let to ← natKv ws "to"
    pure (.collTransfer sender id to)
  | some "c_burn" => (natKv ws "id").map (Op.collBurn sender)
  | some "c_trading" => (optNatKv ws "t").map (Op.collTrading sender)
  | some "c_creator" => (natKv ws "new").map (Op.collCreator sender)
  | some "c_freeze" => some (.collFreeze sender)
  | some "c_own" => (parseOwnAction ws).map (Op.collOwn sender)
  | _ => none

def compLine (d : Drv) (line : String) : Drv × String :=
  let ws := words line
  match ws.head? with
  | some "case" =>
    let r : Option Drv := do
      let now ← natKv ws "now"; let fac ← natKv ws "fac"; let fadmin ← optNatKv ws "fadmin"
      let mcodes ← natListKv ws "mcodes"; let ccodes ← natListKv ws "ccodes"
      let accts ← natListKv ws "accts"; let probe ← natListKv ws "probe"
      let p ← parseParams ws
      pure { s := init now ⟨mcodes, ccodes⟩ fac fadmin p, accts := accts, probe := probe }
    match r with
    | some d' => (d', s!"case {obs d'}")
    | none => (d, "bad-case")
  | _ =>
    match parseOp ws with
    | none => (d, "bad-op")
    | some op =>
      match step d.s op with
      | .ok s2 => let d' := { d with s := s2 }; (d', s!"ok {obs d'}")
      | .error _ => (d, s!"err {obs d}")

def main : IO Unit :=
  runDriverRaw
    { s := init 0 ⟨[], []⟩ 0 none
        { codeId := 0, allowed := [], frozen := false, creationFee := ⟨0, 0⟩, minMintPrice := ⟨0, 0⟩, mintFeeBps := 0,
          maxTradingOffsetSecs := 0, ext := false },
      accts := [], probe := [] }
    compLine
