import LaunchpadModel.Model.MintPay
import LaunchpadModel.Model.Proto
/-!
Driver for C02 (mint payments, all 11 minters). One output line per input line.

Header (generator fields, then witnesses appended by the harness after the real contracts were created):
`case v=<0..10> d=<denom> price=<n> pay=<a|-> cap=<0|1> fee_bps=<n> air=<d:n> air_bps=<n> dev=<a> wl=<-|d:n:start:end> now=<ns>
      accts=<a,…> denoms=<d,…> … xaccts=<contract a,…> minter=<a> admin=<a> init=<a:d:n,…|-> sup0=<d:n,…|->`   ⇒ `case`

Ops:
* `t at=<ns>`
* `fund a=<a> cs=<d:n,…>`
* `mint who=<a> admin=<0|1> funds=<d:n,…|-> … allowed=<0|1>`       (allowed = witness: every non-payment check passed)
* `set_price p=<n> acc=<0|1>` / `set_discount p=<n> acc=` / `rm_discount acc=` / `set_wl price=<d:n> start=<ns> end=<ns> acc=`
* `sudo fee_bps=<n> air=<d:n> air_bps=<n> dev=<a> acc=<0|1>`          (acc = witness: the implementation accepted the update)

Answer: `<ok|err> bal=<a:d:n,…> sup=<d:n,…> px=<price view>`.
-/
open LP LP.Proto LP.MintPay

structure St where
  w : World
  accts : List Addr
  denoms : List Denom

def triples? (s : String) : Option (List (Nat × Nat × Nat)) :=
  if s == "-" || s == "" then some []
  else (s.splitOn ",").mapM fun p =>
    match p.splitOn ":" with
    | [a, b, c] => do let x ← nat? a; let y ← nat? b; let z ← nat? c; pure (x, y, z)
    | _ => none

def coin? (s : String) : Option Coin :=
  match s.splitOn ":" with
  | [a, b] => do let d ← nat? a; let n ← nat? b; pure ⟨d, n⟩
  | _ => none

def coinKv (ws : List String) (key : String) : Option Coin := (kv ws key).bind coin?

def wl? (s : String) : Option (Option Whitelist) :=
  if s == "-" then some none
  else match s.splitOn ":" with
    | [a, b, c, d] => do
      let dn ← nat? a; let n ← nat? b; let st ← nat? c; let en ← nat? d
      pure (some ⟨⟨dn, n⟩, st, en⟩)
    | _ => none

def lookup3 (l : List (Nat × Nat × Nat)) (a d : Nat) : Nat :=
  match l.find? fun (x, y, _) => x == a && y == d with
  | some (_, _, n) => n
  | none => 0

def lookup2 (l : List (Nat × Nat)) (d : Nat) : Nat :=
  match l.find? fun (x, _) => x == d with
  | some (_, n) => n
  | none => 0

def parseHeader (ws : List String) : Option St := do
  let vi ← natKv ws "v"
  let v ← variants[vi]?
  let d ← natKv ws "d"; let price ← natKv ws "price"; let pay ← optNatKv ws "pay"; let cap ← boolKv ws "cap"
  let feeBps ← natKv ws "fee_bps"; let air ← coinKv ws "air"; let airBps ← natKv ws "air_bps"; let dev ← natKv ws "dev"
  let wl ← (kv ws "wl").bind wl?
  let now ← natKv ws "now"
  let accts0 ← natListKv ws "accts"; let xaccts ← natListKv ws "xaccts"; let denoms ← natListKv ws "denoms"
  let accts := accts0 ++ xaccts
  let minter ← natKv ws "minter"; let admin ← natKv ws "admin"
  let init ← (kv ws "init").bind triples?
  let sup0 ← pairListKv ws "sup0"
  let bank : Bank := { bal := fun a dn => lookup3 init a dn, minted := fun dn => lookup2 sup0 dn, burned := fun _ => 0 }
  pure {
    w := { v := v,
           f := { mintFeeBps := feeBps, airdropPrice := air, airdropFeeBps := airBps, devAddr := dev },
           m := { addr := minter, admin := admin, paymentAddr := pay, mintPrice := ⟨d, price⟩, discount := none,
                  whitelist := wl, hasCap := cap },
           bank := bank, now := now },
    accts := accts, denoms := denoms }

def renderCoin (c : Coin) : String := s!"{c.denom}:{c.amount}"
def renderOptCoin : Option Coin → String
  | none => "-"
  | some c => renderCoin c

def renderBal (s : St) : String :=
  let es := s.accts.flatMap fun a => s.denoms.filterMap fun d =>
    let n := s.w.bank.bal a d
    if n = 0 then none else some s!"{a}:{d}:{n}"
  if es.isEmpty then "-" else String.intercalate "," es

def renderSup (s : St) : String :=
  let es := s.denoms.map fun d => s!"{d}:{s.w.bank.supply d}"
  if es.isEmpty then "-" else String.intercalate "," es

/-- what the minter's `MintPrice {}` query reports (vending / open edition) -/
def renderPx (w : World) : String :=
  match w.v.family with
  | .vending | .openEdition =>
    let disc := match w.v.family with
      | .vending => renderOptCoin w.m.discount
      | _ => "-"
    s!"{renderCoin w.m.mintPrice}/{renderCoin (senderPrice w.v w.m w.now)}/{disc}/{renderOptCoin (w.m.whitelist.map (·.price))}/{w.f.airdropPrice.amount}"
  | _ => "-"

def obs (s : St) : String := s!"bal={renderBal s} sup={renderSup s} px={renderPx s.w}"

def coinsOf (l : List (Nat × Nat)) : List Coin := l.map fun (d, a) => ⟨d, a⟩

def parseOp (ws : List String) : Option Op :=
  match ws.head? with
  | some "t" => do let t ← natKv ws "at"; pure (.time t)
  | some "mint" => do
    let who ← natKv ws "who"; let ad ← boolKv ws "admin"; let fu ← pairListKv ws "funds"; let al ← boolKv ws "allowed"
    pure (.mint who ad (coinsOf fu) al)
  | some "set_price" => do let p ← natKv ws "p"; let acc ← boolKv ws "acc"; pure (.setPrice p acc)
  | some "set_discount" => do let p ← natKv ws "p"; let acc ← boolKv ws "acc"; pure (.setDiscount p acc)
  | some "rm_discount" => do let acc ← boolKv ws "acc"; pure (.rmDiscount acc)
  | some "set_wl" => do
    let c ← coinKv ws "price"; let st ← natKv ws "start"; let en ← natKv ws "end"; let acc ← boolKv ws "acc"
    pure (.setWhitelist ⟨c, st, en⟩ acc)
  | some "sudo" => do
    let fb ← natKv ws "fee_bps"; let air ← coinKv ws "air"; let ab ← natKv ws "air_bps"; let dev ← natKv ws "dev"
    let acc ← boolKv ws "acc"
    pure (.sudoParams fb air ab dev acc)
  | _ => none

def c02Line (st : Option St) (line : String) : Option St × String :=
  let ws := words line
  if ws.head? == some "case" then
    match parseHeader ws with
    | some s => (some s, "case")
    | none => (none, "bad-header")
  else
    match st, parseOp ws with
    | some s, none =>
      if ws.head? == some "fund" then
        match natKv ws "a", pairListKv ws "cs" with
        | some a, some cs =>
          -- several `Op.fund` steps, one per coin
          let w' := run s.w (cs.map fun (d, n) => Op.fund a ⟨d, n⟩)
          let s' := { s with w := w' }
          (some s', s!"ok {obs s'}")
        | _, _ => (st, "bad-op")
      else (st, "bad-op")
    | some s, some op =>
      match step s.w op with
      | .ok w' => let s' := { s with w := w' }; (some s', s!"ok {obs s'}")
      | .error _ => (some s, s!"err {obs s}")
    | _, _ => (st, "bad-op")

def main : IO Unit := runDriverRaw (none : Option St) c02Line
