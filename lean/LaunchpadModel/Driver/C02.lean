import LaunchpadModel.Model.MintPayStaged
import LaunchpadModel.Model.Proto
/-!
Driver for C02 (mint payments, all 11 minters, single-stage and tiered whitelists). One output line per input line.

Header (generator fields, then witnesses appended by the harness after the real contracts were created):
`case v=<0..10> d=<denom> price=<n> pay=<a|-> cap=<0|1> fee_bps=<n> air=<d:n> air_bps=<n> dev=<a> wl=<sched|-> wlb=<sched|-> now=<ns>
      accts=<a,…> denoms=<d,…> feeaccts=<a,…> … xaccts=<contract a,…> minter=<a> admin=<a> init=<a:d:n,…|-> sup0=<d:n,…|->`   ⇒ `case`
`<sched>` = `<i|x>@d:n:start:end+d:n:start:end…` (`i` = tiered kind, end-inclusive windows; `x` = single-stage kind, end-exclusive).
Whitelist `a` (`wl=`) is attached at instantiation; `b` (`wlb=`) exists and can be attached later.

Ops:
* `t at=<ns>`
* `fund a=<a> cs=<d:n,…>`
* `mint who=<a> admin=<0|1> funds=<d:n,…|-> … allowed=<0|1>`       (allowed = witness: the call went through — it is CHECKED:
                                                                   with allowed=1 the model still applies every payment rule)
* `set_price p=<n> acc=<0|1>` / `set_discount p=<n> acc=` / `rm_discount acc=` / `set_wl which=<a|b> acc=`
* `wl_edit which=<a|b> … acc=<0|1> stages=<sched>`                    (stages = the whitelist's table re-read after the edit)
* `sudo fee_bps=<n> air=<d:n> air_bps=<n> dev=<a> … acc=<0|1>`          (acc = witness: the implementation accepted the update)
* `other who=<a> … acc=<0|1> moves=<send:a:d:n,burn:d:n,…|->`           (any other ExecuteMsg; moves = observed net bank effect)

Answer: `<ok|err> bal=<a:d:n,… accounts outside feeaccts> ## fb=<fee-recipient balances> sup=<d:n,…> px=<price view> why=<-|diagnostic>`.
Only the part before ` ## ` decides agreement (the fee split among the protocol recipients, the burnt share, the `MintPrice`
query and the rejection reason are observations owned by other properties).
-/
open LP LP.Proto LP.MintPay

structure St where
  s : SWorld
  accts : List Addr
  feeAccts : List Addr
  denoms : List Denom

def triples? (s : String) : Option (List (Nat × Nat × Nat)) :=
  if s == "-" || s == "" then some []
  else (s.splitOn ",").mapM fun p =>
    match p.splitOn ":" with
    | [a, b, c] => do let x ← nat? a; let y ← nat? b; let z ← nat? c; pure (x, y, z)
    | _ => none

def coin? (s : String) : Option Coin :=
  match s.splitOn ":" with
  | [a, b] => do let d ← nat? a; let n ← nat? b; pure ⟨d, n⟩
  | _ => none

def coinKv (ws : List String) (key : String) : Option Coin := (kv ws key).bind coin?

def stage? (s : String) : Option Stage :=
  match s.splitOn ":" with
  | [a, b, c, d] => do
    let dn ← nat? a; let n ← nat? b; let st ← nat? c; let en ← nat? d
    pure ⟨⟨dn, n⟩, st, en⟩
  | _ => none

/-- `-` ⇒ no such whitelist; `i@…` / `x@…` -/
def sched? (s : String) : Option (Option Sched) :=
  if s == "-" then some none
  else match s.splitOn "@" with
    | [k, body] => do
      let incl ← (if k == "i" then some true else if k == "x" then some false else none)
      let stages ← (if body == "" then some [] else (body.splitOn "+").mapM stage?)
      pure (some ⟨stages, incl⟩)
    | _ => none

def msg? (s : String) : Option Msg :=
  match s.splitOn ":" with
  | ["burn", d, n] => do let d ← nat? d; let n ← nat? n; pure (.burn ⟨d, n⟩)
  | ["send", a, d, n] => do let a ← nat? a; let d ← nat? d; let n ← nat? n; pure (.send a ⟨d, n⟩)
  | _ => none

def msgs? (s : String) : Option (List Msg) :=
  if s == "-" || s == "" then some [] else (s.splitOn ",").mapM msg?

def lookup3 (l : List (Nat × Nat × Nat)) (a d : Nat) : Nat :=
  match l.find? fun (x, y, _) => x == a && y == d with
  | some (_, _, n) => n
  | none => 0

def lookup2 (l : List (Nat × Nat)) (d : Nat) : Nat :=
  match l.find? fun (x, _) => x == d with
  | some (_, n) => n
  | none => 0

def wlId (which : String) : Option Nat := if which == "a" then some 0 else if which == "b" then some 1 else none

def parseHeader (ws : List String) : Option St := do
  let vi ← natKv ws "v"
  let v ← variants[vi]?
  let d ← natKv ws "d"; let price ← natKv ws "price"; let pay ← optNatKv ws "pay"; let cap ← boolKv ws "cap"
  let feeBps ← natKv ws "fee_bps"; let air ← coinKv ws "air"; let airBps ← natKv ws "air_bps"; let dev ← natKv ws "dev"
  let wla ← (kv ws "wl").bind sched?
  let wlb ← (kv ws "wlb").bind sched?
  let now ← natKv ws "now"
  let accts0 ← natListKv ws "accts"; let xaccts ← natListKv ws "xaccts"; let denoms ← natListKv ws "denoms"
  let feeAccts ← natListKv ws "feeaccts"
  let accts := accts0 ++ xaccts
  let minter ← natKv ws "minter"; let admin ← natKv ws "admin"
  let init ← (kv ws "init").bind triples?
  let sup0 ← pairListKv ws "sup0"
  let bank : Bank := { bal := fun a dn => lookup3 init a dn, minted := fun dn => lookup2 sup0 dn, burned := fun _ => 0 }
  let wls := (match wla with | some sc => [(0, sc)] | none => []) ++ (match wlb with | some sc => [(1, sc)] | none => [])
  pure {
    s := { w := { v := v,
                  f := { mintFeeBps := feeBps, airdropPrice := air, airdropFeeBps := airBps, devAddr := dev },
                  m := { addr := minter, admin := admin, paymentAddr := pay, mintPrice := ⟨d, price⟩, discount := none,
                         whitelist := none, hasCap := cap },
                  bank := bank, now := now },
           wls := wls,
           att := wla.map fun _ => 0 },
    accts := accts, feeAccts := feeAccts, denoms := denoms }

def renderCoin (c : Coin) : String := s!"{c.denom}:{c.amount}"
def renderOptCoin : Option Coin → String
  | none => "-"
  | some c => renderCoin c

def renderBalOf (st : St) (accts : List Addr) : String :=
  let es := accts.flatMap fun a => st.denoms.filterMap fun d =>
    let n := st.s.w.bank.bal a d
    if n = 0 then none else some s!"{a}:{d}:{n}"
  if es.isEmpty then "-" else String.intercalate "," es

def renderSup (st : St) : String :=
  let es := st.denoms.map fun d => s!"{d}:{st.s.w.bank.supply d}"
  if es.isEmpty then "-" else String.intercalate "," es

/-- what the minter's `MintPrice {}` query reports (vending / open edition): public / current / discount / airdrop -/
def renderPx (w : World) : String :=
  match w.v.family with
  | .vending | .openEdition =>
    let disc := match w.v.family with
      | .vending => renderOptCoin w.m.discount
      | _ => "-"
    s!"{renderCoin w.m.mintPrice}/{renderCoin (senderPrice w.v w.m w.now)}/{disc}/{w.f.airdropPrice.amount}"
  | _ => "-"

def obs (st : St) (why : String) : String :=
  let prim := st.accts.filter fun a => !st.feeAccts.contains a
  let fee := st.accts.filter fun a => st.feeAccts.contains a
  s!"bal={renderBalOf st prim} ## fb={renderBalOf st fee} sup={renderSup st} px={renderPx st.s.refresh} why={why}"

def coinsOf (l : List (Nat × Nat)) : List Coin := l.map fun (d, a) => ⟨d, a⟩

def parseOp (ws : List String) : Option SOp :=
  match ws.head? with
  | some "t" => do let t ← natKv ws "at"; pure (.base (.time t))
  | some "mint" => do
    let who ← natKv ws "who"; let ad ← boolKv ws "admin"; let fu ← pairListKv ws "funds"; let al ← boolKv ws "allowed"
    pure (.base (.mint who ad (coinsOf fu) al))
  | some "set_price" => do let p ← natKv ws "p"; let acc ← boolKv ws "acc"; pure (.base (.setPrice p acc))
  | some "set_discount" => do let p ← natKv ws "p"; let acc ← boolKv ws "acc"; pure (.base (.setDiscount p acc))
  | some "rm_discount" => do let acc ← boolKv ws "acc"; pure (.base (.rmDiscount acc))
  | some "set_wl" => do
    let id ← (kv ws "which").bind wlId; let acc ← boolKv ws "acc"
    pure (.attach id acc)
  | some "wl_edit" => do
    let id ← (kv ws "which").bind wlId; let acc ← boolKv ws "acc"
    let sc ← (kv ws "stages").bind sched?
    pure (.wlEdit id (sc.getD ⟨[], false⟩) acc)
  | some "sudo" => do
    let fb ← natKv ws "fee_bps"; let air ← coinKv ws "air"; let ab ← natKv ws "air_bps"; let dev ← natKv ws "dev"
    let acc ← boolKv ws "acc"
    pure (.base (.sudoParams fb air ab dev acc))
  | some "other" => do
    let who ← natKv ws "who"; let acc ← boolKv ws "acc"; let mv ← (kv ws "moves").bind msgs?
    pure (.ext who mv acc)
  | _ => none

/-- diagnostic part only: the implementation rejected a mint with what looks like a payment / price error (`pay=1`, taken from
its error text) although the model's payment rules accept that payment -/
def whyOf (s : SWorld) (op : SOp) (pay : Bool) : String :=
  match op with
  | .base (.mint who ad fu _) =>
    if pay then
      match step s.refresh (.mint who ad fu true) with
      | .ok _ => "payment-error-on-a-payment-the-model-accepts"
      | .error _ => "-"
    else "-"
  | _ => "-"

def c02Line (st : Option St) (line : String) : Option St × String :=
  let ws := words line
  if ws.head? == some "case" then
    match parseHeader ws with
    | some s => (some s, "case")
    | none => (none, "bad-header")
  else
    match st, parseOp ws with
    | some s, none =>
      if ws.head? == some "fund" then
        match natKv ws "a", pairListKv ws "cs" with
        | some a, some cs =>
          -- several `Op.fund` steps, one per coin
          let s2 := srun s.s (cs.map fun (d, n) => SOp.base (Op.fund a ⟨d, n⟩))
          let s' := { s with s := s2 }
          (some s', s!"ok {obs s' "-"}")
        | _, _ => (st, "bad-op")
      else (st, "bad-op")
    | some s, some op =>
      match sstep s.s op with
      | .ok s2 => let s' := { s with s := s2 }; (some s', s!"ok {obs s' "-"}")
      | .error _ => (some s, s!"err {obs s (whyOf s.s op ((boolKv ws "pay").getD false))}")
    | _, _ => (st, "bad-op")

def main : IO Unit := runDriverRaw (none : Option St) c02Line
