import LaunchpadModel.Model.WlMembers
import LaunchpadModel.Model.Proto
/-!
Driver for C11 (list-based whitelists: membership accounting, capacity, fees). One output line per input line.

Header: `case kind=<plain|flex|tiered|tflex|immutable> uni=<a,b,…> …` → `case`
  (`uni` = the addresses every observation probes with `HasMember` & co.)

Ops (`pg` = page size used to walk the `Members` query to exhaustion for the observation; `tip` / `tip2` = ustars / coins
of another denom attached to a message that charges nothing):
* `inst sender= now= funds=<d:a,…|-> limit= whale=<n|-> admins=<a,…> start= end= members=<a:c,…|->
        stages=<s:e,…|-> smembers=<list|list|…  or ~ for no list> pg=`      (always starts from a fresh world)
* `add sender= now= tip= tip2= stage= members=<a:c,…|-> pg=`
* `rm sender= now= tip= tip2= stage= addrs=<a,…|-> pg=`
* `addstage sender= now= tip= tip2= start= end= members= pg=`
* `rmstage sender= now= tip= tip2= stage= pg=`
* `inc sender= now= funds= limit= pg=`
* `env … now= tip= tip2= pg=` / `raw … now= tip= tip2= pg=`   any other message (the model only sees the attached funds)
* `q now= pg=`                                   observation only
* `page stage= after=<a|-> limit=<n|->`          one raw `Members` query → `ok <a:c,…>` / `err`

Witness fields appended by the harness to every line but `page` (what the implementation did / reports afterwards):
`w_res=<1|0>` the call succeeded, `w_adm=<a,…|->` admin list, `w_t=<s:e,…|->` flat: (start,end); tiered: stage windows,
`w_act=<i|->` index of the active stage (`ActiveStageId`).

## What the model takes from the implementation, and what it checks

The C11 model has no notion of admins or time: every message carries `allowed` (all checks owned by C05/C12/C13 passed).
This driver PREDICTS `allowed` with a small admin/schedule table of its own (current-code semantics, fed by `w_adm`/`w_t`)
and runs the model with it. If ok/err then differs from `w_res`, it tries a short, fixed list of alternatives — each one a
design point C11 does not constrain — and adopts the first that reproduces the implementation's outcome, naming it in the
DRIFT part of the answer (`adopt=`):
  more permissive: `gate` (the implementation accepted although the prediction said a non-C11 check fails), `hasfirst`
  (existing member re-added to a full list accepted), `distinct` (flex instantiate accepted a list whose raw length exceeds
  the limit but whose distinct members fit);
  more restrictive: `gate` on `rm`/`rmstage` (their outcome, given valid arguments, is the schedule's), `auth` on `inc` by a
  non-admin, `whale` on `add` with a mint count above the cap.
Everything else — capacity, counting, duplicates, membership, fees — must agree exactly or the primary answers differ.
`HasMember` / `Member` of the tiered kinds are rendered for the stage the implementation says is active (`w_act`); the
driver's own idea of the active stage goes to the DRIFT part (`act=`).

Answer: `ok <obs>` / `err <obs>`; `<obs>` = `none` while no contract exists, else
`n= lim= mem=<map|map…> cnt=<c,…|-> cntl=<c,…|-> has=<1|0|e|- per uni> sm=<bits|bits…|-> asm=<bits,…|-> mc=<count|x|-,…|-> bal= bal2= paid= out=`
` ## burned= pool= act= inv= smx= adopt=`.
-/
open LP LP.Proto LP.WlMembers

structure D where
  kind : Kind := .plain
  uni : List Nat := []
  st : Option WL := none
  admins : List Nat := []
  /-- flat kinds: `[(start, end)]`; tiered kinds: the stage windows -/
  times : List (Nat × Nat) := []

def parseKind (s : String) : Option Kind :=
  match s with
  | "plain" => some .plain
  | "flex" => some .flex
  | "tiered" => some .tiered
  | "tflex" => some .tieredFlex
  | "immutable" => some .immutable
  | _ => none

def coinsOf (l : List (Nat × Nat)) : List Coin := l.map fun (d, a) => ⟨d, a⟩

/-- `list|list|…`, `~` = no list at all -/
def parseLists (s : String) : Option (List (List (Nat × Nat))) :=
  if s == "~" then some [] else (s.splitOn "|").mapM pairList?

def bit (o : Option Bool) : String := match o with | some true => "1" | some false => "0" | none => "e"

/-! ### the driver's own admin / schedule table (prediction of `allowed` only; no theorem depends on it) -/

def GENESIS : Nat := Gen.sg_utils_GENESIS_MINT_START_TIME

def stagesChain : List (Nat × Nat) → Bool
  | [] => true
  | s :: rest => decide (s.1 < s.2) && rest.all (fun o => decide (s.2 ≤ o.1)) && stagesChain rest

def validateStages (now : Nat) (ts : List (Nat × Nat)) : Bool :=
  match ts with
  | [] => false
  | s :: _ => decide (ts.length < 4) && decide (s.1 > now) && stagesChain ts

def activeIdx (now : Nat) (ts : List (Nat × Nat)) : Option Nat :=
  let i := ts.findIdx (fun g => decide (g.1 ≤ now) && decide (now ≤ g.2))
  if i < ts.length then some i else none

def startOf (d : D) (stage : Nat) : Option Nat :=
  if d.kind.isTiered then (d.times[stage]?).map (·.1) else (d.times[0]?).map (·.1)

/-! ### observation -/

def validFor (k : Kind) (a : Nat) : Bool := k == .immutable || validAddr a

def bitsOr (s : String) : String := if s.isEmpty then "." else s

def renderObs (d : D) (s : WL) (now pg : Nat) (act : Option Nat) (adopt : String) : String :=
  let k := s.kind
  let nst := s.stages.length
  let maps : List (List Member) :=
    if k == .immutable then [s.members]
    else if k.isTiered then (List.range nst).map (fun i => walkPages s i pg 100000 none [])
    else [walkPages s 0 pg 100000 none []]
  let mem := if maps.isEmpty then "-" else String.intercalate "|" (maps.map renderPairs)
  let cnt := if k.isTiered then renderNats ((List.range nst).map fun i => (queryStageCount s i).getD 0) else "-"
  let cntl := if k.isTiered then renderNats (queryStagesCounts s) else "-"
  let has := String.join (d.uni.map fun a => if validFor k a then bit (queryHasMember s act a) else "-")
  let row (i : Nat) (only : Nat → Bool) : String :=
    String.join ((d.uni.filter only).map fun a => bit (queryStageMember s i a))
  let sm := if k.isTiered && nst > 0 then String.intercalate "|" ((List.range nst).map fun i => row i (validFor k)) else "-"
  let asm := if k.isTiered then
      String.intercalate "," (d.uni.map fun a =>
        if validFor k a then (match queryAllStageMember s a with
          | some bs => bitsOr (String.join (bs.map fun b => if b then "1" else "0"))
          | none => "e") else "-")
    else "-"
  let mcOf (a : Nat) : String := match queryMember s act a with | some c => toString c | none => "x"
  let mc := if k.isFlex then String.intercalate "," (d.uni.map fun a => if validFor k a then mcOf a else "-") else "-"
  -- outside the projection
  let myAct := if k.isTiered then renderOpt (activeIdx now d.times) else "-"
  let invs := d.uni.filter (fun a => !validFor k a)
  let inv := if invs.isEmpty then "-" else String.intercalate "," (invs.map fun a =>
      bit (queryHasMember s act a) ++ (if k.isTiered then String.join ((List.range nst).map fun i => bit (queryStageMember s i a)) ++
        (match queryAllStageMember s a with | some _ => "a" | none => "e") else "") ++ (if k.isFlex then mcOf a else ""))
  let smx := if k.isTiered then bitsOr (row nst (fun _ => true)) else "-"
  s!"n={s.numMembers} lim={s.memberLimit} mem={mem} cnt={cnt} cntl={cntl} has={has} sm={sm} asm={asm} mc={mc} bal={s.bank.bal} bal2={s.otherBal} paid={s.feesPaid + s.stray} out={s.bank.burned + s.bank.pool}" ++
  s!" ## burned={s.bank.burned} pool={s.bank.pool} act={myAct} inv={inv} smx={smx} adopt={adopt}"

def obsOf (d : D) (now pg : Nat) (act : Option Nat) (adopt : String) : String :=
  match d.st with
  | none => "none"
  | some s => renderObs d s now pg act adopt

/-- run the candidates in order; adopt the first whose outcome equals the implementation's (`res`), else the first -/
def choose (s : WL) (res : Bool) (cands : List (Op × String)) : Except Err WL × String :=
  let outs := cands.map fun (op, why) => (exec s op, why)
  let okOf (r : Except Err WL) : Bool := match r with | .ok _ => true | .error _ => false
  match outs.find? (fun (r, _) => okOf r == res) with
  | some x => x
  | none => outs.headD (.error .other, "-")

def finishOp (d : D) (now pg : Nat) (act : Option Nat) (r : Except Err WL × String) : D × String :=
  match r.1 with
  | .ok s' => let d' := { d with st := some s' }; (d', s!"ok {obsOf d' now pg act r.2}")
  | .error _ => (d, s!"err {obsOf d now pg act r.2}")

def stepLine (d : D) (line : String) : D × String :=
  let ws := words line
  let r : Option (D × String) :=
    match ws.head? with
    | some "case" => do
      let k ← (kv ws "kind").bind parseKind
      let u ← natListKv ws "uni"
      pure ({ kind := k, uni := u, st := none }, "case")
    | some "page" => do
      let sg ← natKv ws "stage"; let af ← optNatKv ws "after"; let li ← optNatKv ws "limit"
      match d.st with
      | none => pure (d, "err")
      | some s =>
        if s.kind == .immutable then pure (d, "err")
        else
          let out := match queryMembers s sg af li with
            | some l => s!"ok {renderPairs l}"
            | none => "err"
          -- an invalid `start_after` string: error today; what it should answer is not C11's business
          match af with
          | some a => if validAddr a then pure (d, out) else pure (d, s!"page ## {out}")
          | none => pure (d, out)
    | some op => do
      let now ← natKv ws "now"; let pg ← natKv ws "pg"
      let res := (boolKv ws "w_res").getD false
      let wadm := (natListKv ws "w_adm").getD []
      let wt := (pairListKv ws "w_t").getD []
      let act := ((optNatKv ws "w_act").getD none)
      let sender := (natKv ws "sender").getD 0
      let tip : Tip := ⟨(natKv ws "tip").getD 0, (natKv ws "tip2").getD 0⟩
      let isAdmin := d.admins.contains sender
      -- the table is refreshed AFTER the op has been decided with the old one
      let upd (x : D × String) : D × String := ({ x.1 with admins := wadm, times := wt }, x.2)
      match op with
      | "inst" =>
        let fu ← pairListKv ws "funds"; let lim ← natKv ws "limit"; let wh ← optNatKv ws "whale"
        let ad ← natListKv ws "admins"; let st ← natKv ws "start"; let en ← natKv ws "end"
        let ms ← pairListKv ws "members"; let tg ← pairListKv ws "stages"
        let sm ← (kv ws "smembers").bind parseLists
        let k := d.kind
        let whaleOk := match k.isFlex, wh with | true, some c => decide (c > lim) | _, _ => true
        let sched := if k.isTiered then validateStages now tg
                     else !(decide (st > en) || decide (now ≥ st) || decide (st < GENESIS))
        let a := ad.all validAddr && whaleOk && sched
        let mk (al dc : Bool) : InstMsg :=
          { self := 1000, funds := coinsOf fu, memberLimit := lim, whaleCap := wh, allowed := al, members := ms,
            nStages := tg.length, stageMembers := sm, distinctCap := dc }
        let cands : List (InstMsg × String) :=
          [(mk a false, "-")] ++ (if res then (if a then [] else [(mk true false, "gate")]) ++ [(mk a true, "distinct")] ++
            (if a then [] else [(mk true true, "gate+distinct")]) else [])
        let outs := cands.map fun (m, why) => (instantiate k m, why)
        let okOf (r : Except Err WL) : Bool := match r with | .ok _ => true | .error _ => false
        let pick := (outs.find? (fun (r, _) => okOf r == res)).getD (outs.headD (.error .other, "-"))
        let d0 := { d with st := none, admins := wadm, times := wt }
        match pick.1 with
        | .ok s => let d' := { d0 with st := some s }; pure (d', s!"ok {obsOf d' now pg act pick.2}")
        | .error _ => pure (d0, "err none")
      | "q" => pure (upd (d, s!"ok {obsOf { d with times := wt } now pg act "-"}"))
      | _ =>
        match d.st with
        | none => pure (upd (d, "err none"))
        | some s =>
          -- the observation is rendered against the refreshed table (`act=` in the drift part)
          let fin (r : Except Err WL × String) : D × String := finishOp { d with admins := wadm, times := wt } now pg act r
          match op with
          | "add" =>
            let sg ← natKv ws "stage"; let ms ← pairListKv ws "members"
            let over := match s.whaleCap with | some c => ms.any (fun m => decide (m.2 > c)) | none => false
            let cands : List (Op × String) :=
              [(.addMembers isAdmin false tip sg ms, "-")] ++
              (if res then (if isAdmin then [] else [(.addMembers true false tip sg ms, "gate")]) ++
                  [(.addMembers isAdmin true tip sg ms, "hasfirst")] ++
                  (if isAdmin then [] else [(.addMembers true true tip sg ms, "gate+hasfirst")])
               else if over then [(.addMembers false false tip sg ms, "whale")] else [])
            pure (fin (choose s res cands))
          | "rm" =>
            let sg ← natKv ws "stage"; let as ← natListKv ws "addrs"
            let a := isAdmin && (match startOf d sg with | some t => decide (now < t) | none => true)
            pure (fin (choose s res [(.removeMembers a tip sg as, "-"), (.removeMembers (!a) tip sg as, "gate")]))
          | "addstage" =>
            let st ← natKv ws "start"; let en ← natKv ws "end"; let ms ← pairListKv ws "members"
            let a := isAdmin && decide (d.times.length < 3) && validateStages now (d.times ++ [(st, en)])
            let cands : List (Op × String) :=
              [(.addStage a false tip ms, "-")] ++
              (if res then (if a then [] else [(.addStage true false tip ms, "gate")]) ++ [(.addStage a true tip ms, "hasfirst")] ++
                  (if a then [] else [(.addStage true true tip ms, "gate+hasfirst")]) else [])
            pure (fin (choose s res cands))
          | "rmstage" =>
            let sg ← natKv ws "stage"
            let a := isAdmin && (match startOf d sg with | some t => decide (now < t) | none => true)
            pure (fin (choose s res [(.removeStage a tip sg, "-"), (.removeStage (!a) tip sg, "gate")]))
          | "inc" =>
            let fu ← pairListKv ws "funds"; let lim ← natKv ws "limit"
            let cands : List (Op × String) :=
              [(.increaseLimit true (coinsOf fu) lim, "-")] ++
              (if !res && !isAdmin then [(.increaseLimit false (coinsOf fu) lim, "auth")] else [])
            pure (fin (choose s res cands))
          | "env" => pure (fin (exec s (.other res tip), "-"))
          | "raw" => pure (fin (exec s (.other res tip), "-"))
          | _ => none
    | none => none
  r.getD (d, "bad-op")

def main : IO Unit := runDriverRaw ({} : D) stepLine
