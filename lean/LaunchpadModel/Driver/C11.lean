import LaunchpadModel.Model.WlMembers
import LaunchpadModel.Model.Proto
/-!
Driver for C11 (list-based whitelists: membership accounting, capacity, fees). One output line per input line.

Header: `case kind=<plain|flex|tiered|tflex|immutable> uni=<a,b,…>` → `case`
  (`uni` = the addresses every observation probes with `HasMember` & co.)

Ops (`pg` = page size used to walk the `Members` query to exhaustion for the observation):
* `inst sender= now= funds=<d:a,…|-> limit= whale=<n|-> admins=<a,…> start= end= members=<a:c,…|->
        stages=<s:e,…|-> smembers=<list|list|…  or ~ for no list> pg=`      (always starts from a fresh world)
* `add sender= now= tip= stage= members=<a:c,…|-> pg=`
* `rm sender= now= tip= stage= addrs=<a,…|-> pg=`
* `addstage sender= now= tip= start= end= members= pg=`
* `rmstage sender= now= tip= stage= pg=`
* `inc sender= now= funds= limit= pg=`
* `env … now= pg= w_admins=<a,…|-> w_start= w_end= w_times=<s:e,…|->`   (witness fields read back from the contract)
* `q now= pg=`                                   observation only
* `page stage= after=<a|-> limit=<n|->`          one raw `Members` query → `ok <a:c,…>` / `err`

Answer: `ok <obs>` / `err <obs>`; `<obs>` = `none` while no contract exists, else
`n= lim= mem=<map|map…> cnt=<c,…|-> has=<1|0|e per uni> sm=<bits|bits…|-> mc=<count|x,…|-> bal= paid= burned= pool=`.
-/
open LP LP.Proto LP.WlMembers

structure D where
  kind : Kind := .plain
  uni : List Nat := []
  st : Option WL := none

def parseKind (s : String) : Option Kind :=
  match s with
  | "plain" => some .plain
  | "flex" => some .flex
  | "tiered" => some .tiered
  | "tflex" => some .tieredFlex
  | "immutable" => some .immutable
  | _ => none

def coinsOf (l : List (Nat × Nat)) : List Coin := l.map fun (d, a) => ⟨d, a⟩

/-- `list|list|…`, `~` = no list at all -/
def parseLists (s : String) : Option (List (List (Nat × Nat))) :=
  if s == "~" then some [] else (s.splitOn "|").mapM pairList?

def bit (o : Option Bool) : String := match o with | some true => "1" | some false => "0" | none => "e"

def renderObs (d : D) (s : WL) (now pg : Nat) : String :=
  let k := s.kind
  let nst := s.stages.length
  let maps : List (List Member) :=
    if k == .immutable then [s.members]
    else if k.isTiered then (List.range nst).map (fun i => walkPages s i pg 100000 none [])
    else [walkPages s 0 pg 100000 none []]
  let mem := if maps.isEmpty then "-" else String.intercalate "|" (maps.map renderPairs)
  let cnt := if k.isTiered then renderNats ((List.range nst).map fun i => (queryStageCount s i).getD 0) else "-"
  let has := String.join (d.uni.map fun a => bit (queryHasMember s now a))
  let sm := if k.isTiered then
      String.intercalate "|" ((List.range (nst + 1)).map fun i => String.join (d.uni.map fun a => bit (queryStageMember s i a)))
    else "-"
  let mc := if k.isFlex then
      String.intercalate "," (d.uni.map fun a => match queryMember s now a with | some c => toString c | none => "x")
    else "-"
  s!"n={s.numMembers} lim={s.memberLimit} mem={mem} cnt={cnt} has={has} sm={sm} mc={mc} bal={s.bank.bal} paid={s.feesPaid + s.stray} burned={s.bank.burned} pool={s.bank.pool}"

def obsOf (d : D) (now pg : Nat) : String :=
  match d.st with
  | none => "none"
  | some s => renderObs d s now pg

def execOp (d : D) (op : Op) (now pg : Nat) : D × String :=
  match d.st with
  | none => (d, "err none")
  | some s =>
    match exec s op with
    | .ok s' => let d' := { d with st := some s' }; (d', s!"ok {obsOf d' now pg}")
    | .error _ => (d, s!"err {obsOf d now pg}")

def stepLine (d : D) (line : String) : D × String :=
  let ws := words line
  let r : Option (D × String) :=
    match ws.head? with
    | some "case" => do
      let k ← (kv ws "kind").bind parseKind
      let u ← natListKv ws "uni"
      pure ({ kind := k, uni := u, st := none }, "case")
    | some "inst" => do
      let now ← natKv ws "now"; let pg ← natKv ws "pg"
      let fu ← pairListKv ws "funds"; let lim ← natKv ws "limit"; let wh ← optNatKv ws "whale"
      let ad ← natListKv ws "admins"; let st ← natKv ws "start"; let en ← natKv ws "end"
      let ms ← pairListKv ws "members"; let tg ← pairListKv ws "stages"
      let sm ← (kv ws "smembers").bind parseLists
      let m : InstMsg := { self := 1000, now := now, funds := coinsOf fu, memberLimit := lim, whaleCap := wh, admins := ad,
                           start := st, stop := en, members := ms, stageTimes := tg, stageMembers := sm }
      match instantiate d.kind m with
      | .ok s => let d' := { d with st := some s }; pure (d', s!"ok {obsOf d' now pg}")
      | .error _ => let d' := { d with st := none }; pure (d', "err none")
    | some "add" => do
      let se ← natKv ws "sender"; let now ← natKv ws "now"; let tip ← natKv ws "tip"; let sg ← natKv ws "stage"
      let ms ← pairListKv ws "members"; let pg ← natKv ws "pg"
      pure (execOp d (.addMembers se now tip sg ms) now pg)
    | some "rm" => do
      let se ← natKv ws "sender"; let now ← natKv ws "now"; let tip ← natKv ws "tip"; let sg ← natKv ws "stage"
      let as ← natListKv ws "addrs"; let pg ← natKv ws "pg"
      pure (execOp d (.removeMembers se now tip sg as) now pg)
    | some "addstage" => do
      let se ← natKv ws "sender"; let now ← natKv ws "now"; let tip ← natKv ws "tip"
      let st ← natKv ws "start"; let en ← natKv ws "end"
      let ms ← pairListKv ws "members"; let pg ← natKv ws "pg"
      pure (execOp d (.addStage se now tip st en ms) now pg)
    | some "rmstage" => do
      let se ← natKv ws "sender"; let now ← natKv ws "now"; let tip ← natKv ws "tip"; let sg ← natKv ws "stage"
      let pg ← natKv ws "pg"
      pure (execOp d (.removeStage se now tip sg) now pg)
    | some "inc" => do
      let se ← natKv ws "sender"; let now ← natKv ws "now"; let fu ← pairListKv ws "funds"; let lim ← natKv ws "limit"
      let pg ← natKv ws "pg"
      pure (execOp d (.increaseLimit se now (coinsOf fu) lim) now pg)
    | some "env" => do
      let now ← natKv ws "now"; let pg ← natKv ws "pg"
      match d.st with
      | none => pure (d, "env none")
      | some s =>
        if s.kind == .immutable then pure (d, s!"env {obsOf d now pg}")
        else
          let ad ← natListKv ws "w_admins"; let st ← natKv ws "w_start"; let en ← natKv ws "w_end"
          let tm ← pairListKv ws "w_times"
          match exec s (.env ad st en tm) with
          | .ok s' => let d' := { d with st := some s' }; pure (d', s!"env {obsOf d' now pg}")
          | .error _ => pure (d, s!"env {obsOf d now pg}")
    | some "q" => do
      let now ← natKv ws "now"; let pg ← natKv ws "pg"
      pure (d, s!"ok {obsOf d now pg}")
    | some "page" => do
      let sg ← natKv ws "stage"; let af ← optNatKv ws "after"; let li ← optNatKv ws "limit"
      match d.st with
      | none => pure (d, "err")
      | some s =>
        if s.kind == .immutable then pure (d, "err")
        else match queryMembers s sg af li with
          | some l => pure (d, s!"ok {renderPairs l}")
          | none => pure (d, "err")
    | _ => none
  r.getD (d, "bad-op")

def main : IO Unit := runDriverRaw ({} : D) stepLine
