import LaunchpadModel.Model.WlSchedule
import LaunchpadModel.Model.Proto
/-!
Driver for C12 (whitelist schedules). One output line per input line.

* `case v=<0 plain|1 flex|2 merkle> now=<ns> …`                          → `case`
* `t <ns>`                                                              set the block time
* `inst sender=<a> start=<ns> end=<ns> pal=<n> admins=<a,…|-> mut=<0|1> … envok=<0|1>`
        instantiate (replaces the observed contract on success). `envok` = witness: the same message with a canonical
        valid schedule instantiates (all non-schedule checks pass). Other fields of the line (limit, members, funds,
        root/uri kinds, …) are the environment's and are ignored here.
* `start sender=<a> t=<ns>` / `end sender=<a> t=<ns>`                    UpdateStartTime / UpdateEndTime
* `remove sender=<a> members=<…> present=<0|1>`                          RemoveMembers (`present` = environment witness)
* `pal sender=<a> n=<n> res=<0|1>`                                       UpdatePerAddressLimit (outcome = environment)
* `admins sender=<a> list=<a,…|->` / `freeze sender=<a>`                 UpdateAdmins / Freeze
* `add … res=` / `inclimit … res=` / `x name=<variant> … res=` / `migrate … res=`
        AddMembers / IncreaseMemberLimit / any other ExecuteMsg variant (raw JSON) / migrate: outcome = environment;
        the schedule must not move
* `can a=<a>`                                                            CanExecute query

Answer: `<ok|err> <obs>` with `obs` = `none` before a successful instantiate, otherwise
`now= s= e= act= st= en= cact= adm=<sorted set|-> mut= ## pal=<n|->`. Only the part before ` ## ` is the property's
projection (schedule, clock, the four activity flags, and the admin set that gates the schedule updates); the part
after it is compared as DRIFT only. `can` answers `ok ## can=<0|1>`.
-/
open LP LP.Proto LP.WlSchedule

structure D where
  v : Variant := .plain
  now : Nat := 0
  st : Option State := none

def b2s (b : Bool) : String := if b then "1" else "0"

def insertNat (x : Nat) : List Nat → List Nat
  | [] => [x]
  | y :: ys => if x < y then x :: y :: ys else if x = y then y :: ys else y :: insertNat x ys

/-- the admin list as a set (`is_admin` only asks for membership) -/
def sortDedup (l : List Nat) : List Nat := l.foldr insertNat []

def obs (d : D) : String :=
  match d.st with
  | none => "none"
  | some s =>
    let pal := if d.v = .flex then "-" else toString s.perAddr
    s!"now={s.now} s={s.start} e={s.end_} act={b2s (isActive s)} st={b2s (hasStarted s)} en={b2s (hasEnded s)} cact={b2s (configIsActive s)} adm={renderNats (sortDedup s.admins)} mut={b2s s.adminsMutable} ## pal={pal}"

def variantOf (n : Nat) : Variant := if n = 1 then .flex else if n = 2 then .merkle else .plain

def parseOp (ws : List String) : Option Op :=
  match ws.head? with
  | some "start" => do let a ← natKv ws "sender"; let t ← natKv ws "t"; pure (.updateStart a t)
  | some "end" => do let a ← natKv ws "sender"; let t ← natKv ws "t"; pure (.updateEnd a t)
  | some "remove" => do let a ← natKv ws "sender"; let p ← boolKv ws "present"; pure (.removeMembers a p)
  | some "pal" => do let n ← natKv ws "n"; let r ← boolKv ws "res"; pure (.updatePerAddr n r)
  | some "admins" => do let a ← natKv ws "sender"; let l ← natListKv ws "list"; pure (.updateAdmins a l)
  | some "freeze" => do let a ← natKv ws "sender"; pure (.freeze a)
  | some "add" => do let r ← boolKv ws "res"; pure (.env r)
  | some "inclimit" => do let r ← boolKv ws "res"; pure (.env r)
  | some "x" => do let r ← boolKv ws "res"; pure (.env r)
  | some "migrate" => do let r ← boolKv ws "res"; pure (.env r)
  | _ => none

def parseInst (ws : List String) : Option (Bool × InstMsg) := do
  let start ← natKv ws "start"; let end_ ← natKv ws "end"
  let pal ← natKv ws "pal"
  let admins ← natListKv ws "admins"; let mut_ ← boolKv ws "mut"
  let envok ← boolKv ws "envok"
  pure (envok, { start := start, end_ := end_, perAddr := pal, admins := admins, adminsMutable := mut_ })

def c12Step (d : D) (line : String) : D × String :=
  let ws := words line
  match ws.head? with
  | some "case" =>
    let d' : D := { v := variantOf ((natKv ws "v").getD 0), now := (natKv ws "now").getD 0, st := none }
    (d', "case")
  | some "t" =>
    match ws.drop 1 |>.head? |>.bind nat? with
    | none => (d, "bad-op")
    | some t =>
      let d' : D := { d with now := t, st := d.st.map (fun s => step' d.v s (.setTime t)) }
      (d', s!"ok {obs d'}")
  | some "inst" =>
    match parseInst ws with
    | none => (d, "bad-op")
    | some (envOk, m) =>
      match instantiate d.v d.now envOk m with
      | .ok s => let d' := { d with st := some s }; (d', s!"ok {obs d'}")
      | .error _ => (d, s!"err {obs d}")
  | some "can" =>
    match d.st, natKv ws "a" with
    | some s, some a => (d, s!"ok ## can={b2s (isAdmin s a)}")
    | _, _ => (d, "err none")
  | _ =>
    match parseOp ws with
    | none => (d, "bad-op")
    | some op =>
      match d.st with
      | none => (d, "err none")
      | some s =>
        match step d.v s op with
        | .ok s' => let d' := { d with st := some s' }; (d', s!"ok {obs d'}")
        | .error _ => (d, s!"err {obs d}")

def main : IO Unit := runDriverRaw ({} : D) c12Step
