import LaunchpadModel.Model.WlSchedule
import LaunchpadModel.Model.Proto
/-!
Driver for C12 (whitelist schedules). One output line per input line.

* `case v=<0 plain|1 flex|2 merkle> now=<ns> …`                          → `case`
* `t <ns>`                                                              set the block time
* `inst sender=<a> start=<ns> end=<ns> limit=<n> pal=<n> members=<a,…|-> counts=<n,…|-> whale=<n|->
        admins=<a,…|-> mut=<0|1> funds=<d:a,…|-> root=<0|1> uri=<0|1>`   instantiate (replaces the observed contract on success)
* `start sender=<a> t=<ns>` / `end sender=<a> t=<ns>`                    UpdateStartTime / UpdateEndTime
* `remove sender=<a> members=<…> present=<0|1>`                          RemoveMembers (`present` = environment witness)
* `pal sender=<a> n=<n>`                                                 UpdatePerAddressLimit
* `admins sender=<a> list=<a,…|->` / `freeze sender=<a>`                 UpdateAdmins / Freeze
* `add … res=<0|1>` / `inclimit … res=<0|1>`                             AddMembers / IncreaseMemberLimit (outcome = environment)
* `can a=<a>`                                                            CanExecute query

Answer: `<ok|err> <obs>` with `obs` = `none` before a successful instantiate, otherwise
`now= s= e= pal=<n|-> act= st= en= cact= adm=<a,…|-> mut=`; `can` answers `ok can=<0|1>`.
-/
open LP LP.Proto LP.WlSchedule

structure D where
  v : Variant := .plain
  now : Nat := 0
  st : Option State := none

def b2s (b : Bool) : String := if b then "1" else "0"

def obs (d : D) : String :=
  match d.st with
  | none => "none"
  | some s =>
    let pal := if d.v = .flex then "-" else toString s.perAddr
    s!"now={s.now} s={s.start} e={s.end_} pal={pal} act={b2s (isActive s)} st={b2s (hasStarted s)} en={b2s (hasEnded s)} cact={b2s (configIsActive s)} adm={renderNats s.admins} mut={b2s s.adminsMutable}"

def variantOf (n : Nat) : Variant := if n = 1 then .flex else if n = 2 then .merkle else .plain

def parseOp (ws : List String) : Option Op :=
  match ws.head? with
  | some "start" => do let a ← natKv ws "sender"; let t ← natKv ws "t"; pure (.updateStart a t)
  | some "end" => do let a ← natKv ws "sender"; let t ← natKv ws "t"; pure (.updateEnd a t)
  | some "remove" => do let a ← natKv ws "sender"; let p ← boolKv ws "present"; pure (.removeMembers a p)
  | some "pal" => do let a ← natKv ws "sender"; let n ← natKv ws "n"; pure (.updatePerAddr a n)
  | some "admins" => do let a ← natKv ws "sender"; let l ← natListKv ws "list"; pure (.updateAdmins a l)
  | some "freeze" => do let a ← natKv ws "sender"; pure (.freeze a)
  | some "add" => do let r ← boolKv ws "res"; pure (.env r)
  | some "inclimit" => do let r ← boolKv ws "res"; pure (.env r)
  | _ => none

def parseInst (ws : List String) : Option (List Coin × InstMsg) := do
  let start ← natKv ws "start"; let end_ ← natKv ws "end"
  let limit ← natKv ws "limit"; let pal ← natKv ws "pal"
  let members ← natListKv ws "members"; let counts ← natListKv ws "counts"
  let whale ← optNatKv ws "whale"
  let admins ← natListKv ws "admins"; let mut_ ← boolKv ws "mut"
  let funds ← pairListKv ws "funds"
  let root ← boolKv ws "root"; let uri ← boolKv ws "uri"
  -- a member without a listed count gets count 1 (the harness does the same)
  let ms := members.zipIdx.map fun (a, i) => (a, counts.getD i 1)
  pure (funds.map (fun (d, a) => ⟨d, a⟩),
        { start := start, end_ := end_, memberLimit := limit, perAddr := pal, members := ms, whaleCap := whale,
          admins := admins, adminsMutable := mut_, rootOk := root, uriOk := uri })

def c12Step (d : D) (line : String) : D × String :=
  let ws := words line
  match ws.head? with
  | some "case" =>
    let d' : D := { v := variantOf ((natKv ws "v").getD 0), now := (natKv ws "now").getD 0, st := none }
    (d', "case")
  | some "t" =>
    match ws.drop 1 |>.head? |>.bind nat? with
    | none => (d, "bad-op")
    | some t =>
      let d' : D := { d with now := t, st := d.st.map (fun s => step' d.v s (.setTime t)) }
      (d', s!"ok {obs d'}")
  | some "inst" =>
    match parseInst ws with
    | none => (d, "bad-op")
    | some (funds, m) =>
      match instantiate d.v d.now funds m with
      | .ok s => let d' := { d with st := some s }; (d', s!"ok {obs d'}")
      | .error _ => (d, s!"err {obs d}")
  | some "can" =>
    match d.st, natKv ws "a" with
    | some s, some a => (d, s!"ok can={b2s (isAdmin s a)}")
    | _, _ => (d, "err none")
  | _ =>
    match parseOp ws with
    | none => (d, "bad-op")
    | some op =>
      match d.st with
      | none => (d, "err none")
      | some s =>
        match step d.v s op with
        | .ok s' => let d' := { d with st := some s' }; (d', s!"ok {obs d'}")
        | .error _ => (d, s!"err {obs d}")

def main : IO Unit := runDriverRaw ({} : D) c12Step
