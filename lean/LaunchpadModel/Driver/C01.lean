import LaunchpadModel.Model.Supply
import LaunchpadModel.Model.Proto
/-!
Driver for C01 (supply accounting). One output line per input line. Words the model does not know (`who=`, `pay=`,
`via=`, `what=`, `arg=` …) are harness-side parameters and are ignored here; the model reads the *witness* fields the
harness appends.

Header:  `case fam=fixed kind=<0..9> n=<n> … init=<id,id,…>`            (init = initial `mt` dump, checked to be a permutation of 1..n)
         `case fam=seq kind=<6|7|8|10> num=<n|-> fmax=<k> end=<0|1> …`
         answer `case ok <obs>` | `case err`
Ops (fixed): `mint|mint_to … gate= pos= owner=`, `deposit … eff=<0|1> gate= pos= owner=`, `mint_for … gate= id= owner=`,
         `shuffle … gate= perm=`, `purge … gate=`, `burn_remaining … gate=`, `coll_burn … gate= id=`,
         `coll_transfer|coll_send … gate= id= to=`, `noise … gate=` (ANY other message: what=setwl|price|start|end|tstart|pal|
         disc|rmdisc|status|migrate|fmax|coll_mint|coll_own|coll_accept|x:<unknown ExecuteMsg variant>|sx:<unknown SudoMsg variant>), `t …`
Ops (seq):   `mint|mint_to … gate= owner=`, `burn_remaining`, `purge`, `coll_burn`, `coll_transfer|coll_send`, `noise`, `t`
Answer: `ok [id=<minted id> to=<its owner>] <obs>` | `err <obs>`  (the state after a failed op is printed too: it must be unchanged)

PROJECTION (round 3). `<obs>` = `<primary> ## <drift>`; only `<primary>` decides agreement:
  primary (fixed): `m=<MintableNumTokens> pos=<position:id,…> cnt=<NumTokens> ids=<token ids in the collection, ascending>`
  primary (seq):   `idx=<TOKEN_INDEX> total=<TotalMintCount|-> m=<MintableNumTokens|-> cnt=… ids=…`
  drift: `own=<id:owner,…>` (who holds which token after transfers: cw721's business), `rep=<token_id attribute of the minter's
  own response|->` (event attribute names are not part of the property), `sup=<-|0|1>` (for an op that failed with the gate
  closed: would the SUPPLY guards have rejected it? the harness prints whether the error TEXT looked like a supply error — a
  spurious "sold out" shows up as DRIFT, never as a failure, and nothing else depends on error texts).
-/
open LP LP.Proto LP.Supply

inductive St where
  | none
  | fixed (s : Fixed)
  | seq (s : Seq)

def sortedToks (c : Coll) : List (Nat × Nat) := c.toks.mergeSort (fun a b => a.1 ≤ b.1)

/-- primary part: `NumTokens` and the SET of token ids -/
def renderColl (c : Coll) : String :=
  s!"cnt={c.count} ids={renderNats ((sortedToks c).map (·.1))}"

/-- drift part: owners, the minter's reported id, the supply-guard verdict for a gate-closed failure -/
def renderDrift (c : Coll) (rep sup : String) : String :=
  s!"own={renderPairs (sortedToks c)} rep={rep} sup={sup}"

def obsFixed (s : Fixed) (rep sup : String) : String :=
  s!"m={s.queryMintable} pos={renderPairs s.pos} {renderColl s.coll} ## {renderDrift s.coll rep sup}"

def obsSeq (s : Seq) (rep sup : String) : String :=
  let total := if s.kind = .base then "-" else toString s.totalMint
  s!"idx={s.tokenIndex} total={total} m={renderOpt s.mintable} {renderColl s.coll} ## {renderDrift s.coll rep sup}"

def supField (gate : Option Bool) (rejects : Bool) : String :=
  match gate with
  | some false => if rejects then "1" else "0"
  | _ => "-"

def seqKindOf : Nat → Option SeqKind
  | 6 => some .openEdition
  | 7 => some .openEditionFlex
  | 8 => some .openEditionMerkle
  | 10 => some .base
  | _ => none

def header (ws : List String) : St × String :=
  match kv ws "fam" with
  | some "fixed" =>
    match (do let n ← natKv ws "n"; let init ← natListKv ws "init"; Fixed.init n init) with
    | some s => (.fixed s, s!"case ok {obsFixed s "-" "-"}")
    | none => (.none, "case err")
  | some "seq" =>
    match (do
      let k ← (natKv ws "kind").bind seqKindOf
      let num ← optNatKv ws "num"; let fmax ← natKv ws "fmax"; let e ← boolKv ws "end"
      pure (Seq.create k num fmax e)) with
    | some s => (.seq s, s!"case ok {obsSeq s "-" "-"}")
    | none => (.none, "case err")
  | _ => (.none, "case err")

def fixedOp (ws : List String) : Option FOp :=
  match ws.head? with
  | some "mint" | some "mint_to" => do
    let g ← boolKv ws "gate"; let p ← natKv ws "pos"; let o ← natKv ws "owner"; pure (.mint g p o)
  | some "deposit" => do
    let g ← boolKv ws "gate"; let eff ← boolKv ws "eff"
    if eff then do let p ← natKv ws "pos"; let o ← natKv ws "owner"; pure (.mint g p o) else pure (.noise g)
  | some "mint_for" => do
    let g ← boolKv ws "gate"; let id ← natKv ws "id"; let o ← natKv ws "owner"; pure (.mintFor g id o)
  | some "shuffle" => do let g ← boolKv ws "gate"; let perm ← natListKv ws "perm"; pure (.shuffle g perm)
  | some "purge" => do let g ← boolKv ws "gate"; pure (.purge g)
  | some "burn_remaining" => do let g ← boolKv ws "gate"; pure (.burnRemaining g)
  | some "coll_burn" => do let g ← boolKv ws "gate"; let id ← natKv ws "id"; pure (.collBurn g id)
  | some "coll_transfer" | some "coll_send" => do
    let g ← boolKv ws "gate"; let id ← natKv ws "id"; let to ← natKv ws "to"; pure (.collTransfer g id to)
  | some "noise" => do let g ← boolKv ws "gate"; pure (.noise g)
  | some "t" => pure (.noise true)
  | _ => none

def seqOp (ws : List String) : Option QOp :=
  match ws.head? with
  | some "mint" | some "mint_to" => do let g ← boolKv ws "gate"; let o ← natKv ws "owner"; pure (.mint g o)
  | some "purge" => do let g ← boolKv ws "gate"; pure (.purge g)
  | some "burn_remaining" => do let g ← boolKv ws "gate"; pure (.burnRemaining g)
  | some "coll_burn" => do let g ← boolKv ws "gate"; let id ← natKv ws "id"; pure (.collBurn g id)
  | some "coll_transfer" | some "coll_send" => do
    let g ← boolKv ws "gate"; let id ← natKv ws "id"; let to ← natKv ws "to"; pure (.collTransfer g id to)
  | some "noise" => do let g ← boolKv ws "gate"; pure (.noise g)
  | some "t" => pure (.noise true)
  | _ => none

def c01Step (st : St) (line : String) : St × String :=
  let ws := words line
  if ws.head? == some "case" then header ws
  else
    let gate := boolKv ws "gate"
    match st with
    | .none => (st, "no-case")
    | .fixed s =>
      match fixedOp ws with
      | none => (st, "bad-op")
      | some op =>
        match s.step op with
        | none => (st, s!"err {obsFixed s "-" (supField gate (s.supplyRejects op))}")
        | some s' =>
          if op.isMint then
            let id := s'.minted.headD 0
            (.fixed s', s!"ok id={id} to={renderOpt (s'.coll.ownerOf id)} {obsFixed s' (toString id) "-"}")
          else (.fixed s', s!"ok {obsFixed s' "-" "-"}")
    | .seq s =>
      match seqOp ws with
      | none => (st, "bad-op")
      | some op =>
        match s.step op with
        | none => (st, s!"err {obsSeq s "-" (supField gate (s.supplyRejects op))}")
        | some s' =>
          if op.isMint then
            let id := s'.issued.headD 0
            let rep := if s.kind = .base then "-" else toString id
            (.seq s', s!"ok id={id} to={renderOpt (s'.coll.ownerOf id)} {obsSeq s' rep "-"}")
          else (.seq s', s!"ok {obsSeq s' "-" "-"}")

def main : IO Unit := runDriverRaw St.none c01Step
