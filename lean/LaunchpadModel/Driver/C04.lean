import LaunchpadModel.Model.SaleWindow
import LaunchpadModel.Model.SaleWindowX
import LaunchpadModel.Model.Proto
/-!
Driver for C04 (sale window and entitlement). One output line per input line.

* `case v=<0..9> now=<ns> denom=<d> minp=<n> airp=<n> maxtok=<n>`                         → `case`
* `wl k=<id> kind=<0..6> denom=<d> st=<start>:<end>:<price>:<peraddr>:<cntlim|x>;… mem=<a>:<c>,…;… lv=<stage|x>:<a>:<alloc|x>,…;…` → `env`
* `noop` (a whitelist the harness failed to create)                                        → `env`
* `t now=<ns>`                                                                            → `ok` | `err`
* `create sender=<a> start=<ns> end=<ns|-> wl=<k|-> price=<n> limit=<n> ntok=<n|->`       → `ok <obs>` | `err`
* `mint sender=<a> funds=<d:a|-> stage=<n|-> alloc=<n|-> proof=<-|b|j|e|p.k.i.stage.addr.alloc>` → `ok <obs> cnt=<n>` | `err`
* `mint_to sender=<a> rcpt=<a> funds=<…>` / `deposit sender=<a> rcpt=<a|->`               → `ok <obs> cnt=<n>` | `err`
* `upd_start sender=<a> t=<ns>` / `upd_end sender=<a> t=<ns>` / `set_wl sender=<a> wl=<k>` → `ok <obs>` | `err`
* `mint_for sender=<a> rcpt=<a> funds=<…> free=<0|1>` (`free`: the chosen id is in range and unminted, read from the collection) → like `mint_to`
* `menv price=<n> limit=<n> left=<n|-> pp=<0|1> pw=<0|1>` (any other minter message incl. `migrate` and variants unknown
  to this check, observed)                                                                → `env <obs>`
* `fsudo minp=<n> airp=<n>` (factory governance `sudo UpdateParams`, observed)            → `env <obs>`
* `price`                                                                                 → `ok ## cur=<d>:<a> wlp=<d>:<a>|-` | `err`

`<obs>` = `st=<start> en=<end|-> wl=<k|-> ## left=<n|->` (mints: `… ## left=<n|-> cnt=<n>`). Everything after ` ## ` is OUTSIDE
the projection of C04 (supply and per-address counters are C01's / C03's, the `MintPrice` answer is C07's): a difference there
is reported as DRIFT and never fails this check. The schedule (`st`, `en`, `wl`) and ok/err are what C04 constrains.
-/
open LP LP.Proto LP.SaleWindow

def optX (s : String) : Option (Option Nat) :=
  if s == "x" || s == "-" then some none else (nat? s).map some

def groups (s : String) : List String := if s == "-" || s == "" then [] else s.splitOn ";"

def parseStageHdr (s : String) : Option (Nat × Nat × Nat × Nat × Option Nat) :=
  match s.splitOn ":" with
  | [a, b, c, d, e] => do
    let a ← nat? a; let b ← nat? b; let c ← nat? c; let d ← nat? d; let e ← optX e
    pure (a, b, c, d, e)
  | _ => none

def parseLeaf (s : String) : Option Leaf :=
  match s.splitOn ":" with
  | [a, b, c] => do
    let a ← optX a; let b ← nat? b; let c ← optX c
    pure ⟨a, b, c⟩
  | _ => none

def parseLeaves (s : String) : Option (List Leaf) :=
  if s == "-" || s == "" then some [] else (s.splitOn ",").mapM parseLeaf

def parseWl (ws : List String) : Option (Nat × Wl) := do
  let k ← natKv ws "k"
  let kind ← natKv ws "kind"
  let denom ← natKv ws "denom"
  let hdrs ← (groups ((kv ws "st").getD "-")).mapM parseStageHdr
  let mems ← (groups ((kv ws "mem").getD "-")).mapM pairList?
  let lvs ← (groups ((kv ws "lv").getD "-")).mapM parseLeaves
  let stages : List Stage := hdrs.zipIdx.map fun ((a, b, c, d, e), i) =>
    { start := a, stop := b, price := c, perAddr := d, countLimit := e,
      members := mems.getD i [], leaves := lvs.getD i [] }
  pure (k, { kind := WlKind.ofIdx kind, denom := denom, stages := stages })

def parseProof (s : String) : Option ProofArg :=
  if s == "-" then some .absent
  else if s == "b" then some .malformed
  else if s == "j" then some .junk
  else if s == "e" then some .junk   -- an EMPTY path: folds to the leaf itself, never the root of a tree with ≥ 2 leaves
  else match s.splitOn "." with
    | ["p", k, i, st, a, al] => do
      let k ← nat? k; let i ← nat? i; let st ← optX st; let a ← nat? a; let al ← optX al
      pure (.forLeaf k i ⟨st, a, al⟩)
    | _ => none

def coinsOf (l : List (Nat × Nat)) : List Coin := l.map fun (d, a) => ⟨d, a⟩

def obs (s : State) : String :=
  match s.minter with
  | none => "st=- en=- wl=- ## left=-"
  | some m => s!"st={m.start} en={renderOpt m.stop} wl={renderOpt m.wl} ## left={renderOpt m.mintable}"

def cntOf (s : State) (a : Addr) : String :=
  match s.minter with
  | none => "cnt=-"
  | some m => s!"cnt={m.totalCount a}"

def answerX (s : State) (op : OpX) (cnt : Option Addr) : State × String :=
  match stepX s op with
  | .ok s' => (s', s!"ok {obs s'}" ++ (match cnt with | some a => " " ++ cntOf s' a | none => ""))
  | .error _ => (s, "err")

def answer (s : State) (op : Op) (cnt : Option Addr) : State × String := answerX s (.base op) cnt

def c04Line (s : State) (line : String) : State × String :=
  let ws := words line
  let r : Option (State × String) :=
    match ws.head? with
    | some "case" => do
      let v ← natKv ws "v"; let now ← natKv ws "now"; let d ← natKv ws "denom"
      let mp ← natKv ws "minp"; let ap ← natKv ws "airp"; let mt ← natKv ws "maxtok"
      pure (init (Variant.ofIdx v) now ⟨d, mp, ap, mt⟩, "case")
    | some "noop" => some (s, "env")
    | some "wl" => do
      let (k, w) ← parseWl ws
      pure (stepX' s (.base (.wlEnv k w)), "env")
    | some "t" => do
      let t ← natKv ws "now"
      match stepX s (.base (.setTime t)) with
      | .ok s' => pure (s', "ok")
      | .error _ => pure (s, "err")
    | some "create" => do
      let a ← natKv ws "sender"; let st ← natKv ws "start"; let en ← optNatKv ws "end"; let wl ← optNatKv ws "wl"
      let p ← natKv ws "price"; let l ← natKv ws "limit"; let n ← optNatKv ws "ntok"
      pure (answer s (.create a st en wl p l n) none)
    | some "mint" => do
      let a ← natKv ws "sender"; let fu ← pairListKv ws "funds"
      let stg := ((optNatKv ws "stage").getD none); let al := ((optNatKv ws "alloc").getD none)
      let pf ← parseProof ((kv ws "proof").getD "-")
      pure (answer s (.mint { sender := a, funds := coinsOf fu, stage := stg, alloc := al, proof := pf }) (some a))
    | some "mint_to" => do
      let a ← natKv ws "sender"; let r ← natKv ws "rcpt"; let fu ← pairListKv ws "funds"
      pure (answer s (.mintTo a r (coinsOf fu)) (some (if s.v.family = .tokenMerge then r else a)))
    | some "mint_for" => do
      let a ← natKv ws "sender"; let r ← natKv ws "rcpt"; let fu ← pairListKv ws "funds"; let fr ← boolKv ws "free"
      pure (answerX s (.mintFor a r (coinsOf fu) fr) (some (if s.v.family = .tokenMerge then r else a)))
    | some "fsudo" => do
      let mp ← natKv ws "minp"; let ap ← natKv ws "airp"
      let s' := stepX' s (.paramsEnv mp ap)
      pure (s', s!"env {obs s'}")
    | some "deposit" => do
      let a ← natKv ws "sender"; let r ← optNatKv ws "rcpt"
      pure (answer s (.deposit a r) (some (r.getD a)))
    | some "upd_start" => do
      let a ← natKv ws "sender"; let t ← natKv ws "t"
      pure (answer s (.updateStart a t) none)
    | some "upd_end" => do
      let a ← natKv ws "sender"; let t ← natKv ws "t"
      pure (answer s (.updateEnd a t) none)
    | some "set_wl" => do
      let a ← natKv ws "sender"; let k ← natKv ws "wl"
      pure (answer s (.setWhitelist a k) none)
    | some "menv" => do
      let p ← natKv ws "price"; let l ← natKv ws "limit"; let n ← optNatKv ws "left"
      let pp ← boolKv ws "pp"; let pw ← boolKv ws "pw"
      match stepX s (.base (.minterEnv p l n pp pw)) with
      | .ok s' => pure (s', s!"env {obs s'}")
      | .error _ => pure (s, s!"env {obs s}")
    | some "price" =>
      match queryMintPrice s with
      | .ok (cur, wlp) =>
        let w := match wlp with | some c => s!"{c.denom}:{c.amount}" | none => "-"
        some (s, s!"ok ## cur={cur.denom}:{cur.amount} wlp={w}")
      | .error _ => some (s, "err")
    | _ => none
  r.getD (s, "bad-op")

def main : IO Unit := runDriverRaw (init (Variant.ofIdx 0) 0 ⟨0, 0, 0, 0⟩) c04Line
