import LaunchpadModel.Model.FactoryCreate
import LaunchpadModel.Model.Proto
/-!
Driver for C08 (factory creation). One output line per input line; `case …` resets the world.

* `time t=<ns>`                                                                        → `ok`
* `fund who=<a> denom=<d> amt=<n>`                                                     → `ok`
* `mkfactory kind=<0 vending|1 open-edition|2 token-merge|3 base> code=<id> allowed=<ids|-> frozen=<0|1>
     fee=<d:a> minp=<d:a> off=<secs> maxtok=<n> maxper=<n> airp=<d:a>`                 → `ok f=<a> <params>`
* `params f=<a> code=<n|-> add=<ids|-|x> rm=<ids|-|x> frozen=<0|1|-> fee=<d:a|-> minp=<d:a|-> off=<n|->
     maxtok=<n|-> maxper=<n|-> airp=<d:a|->`   (`x` = field omitted, `-` = empty list) → `ok|err <params>`
* `mkwl flex=<0|1> start=<ns> end=<ns> ok=<0|1> poold=<n> supd=<n>`  (last three = environment witnesses) → `ok wl=<a>` | `err`
* `create f=<a> sender=<a> funds=<d:a,…|-> sg721=<code> creator=<a|x> n=<n|-> per=<n> start=<ns> end=<ns|->
     price=<d:a> pay=<a|-|x> wl=<a|-|x> trade=<ns|-> roys=<atomics|-> royp=<a|x> desc=<len> img=<0|1>
     link=<0|1|-> uri=<0|1> nft=<0|1>`                       → `ok m= c= mi= ci= cfg= col= <bank> ## cfgx= colx= <bankx>` | `err <bank> ## <bankx>`
* `setlimit m=<a> sender=<a> funds=<…> limit=<n>`                                      → `ok|err per=<n|->`
* `probe m=<contract> sender=<a> variant=<name> [funds=…]`  (any other message of the contract's schema: changes nothing the
     model tracks)                                                                     → `per=<n|-> next=<n>`
* `migrate m=<contract> sender=<a>`  (wasm-level migration: allowed for the registry's admin only)          → `admin=<0|1>`

Projection (`primary ## drift`, only `primary` decides agreement):
`<params>` = `code= allowed=<SORTED SET> frozen= fee= minp= off= maxtok= maxper= airp= ## allowedraw=<stored list>`;
`cfg=` = minter `factory,admin,sg721,sg721 code,num_tokens,per_address_limit`; `cfgx=` = `start,end,price,whitelist,payment address`;
`col=` = collection `owner (= minter),creator`; `colx=` = `start_trading_time,royalty share,royalty address`;
`<bank>` = `bal=<sender fee-denom>,<sender native>,<factory fee-denom>,<factory native>,<dao fee-denom>,<dao native>
net=<native supply − fair-burn pool> supfd=<fee-denom supply, - if native> next=<number of contracts>`; `<bankx>` = `pool= sup=`
(`net` falls by exactly the fee whatever the burn/pool split is; the split itself belongs to C06).
-/
open LP LP.Proto LP.FC

def b2s (b : Bool) : String := if b then "1" else "0"
def coinS (c : Coin) : String := s!"{c.denom}:{c.amount}"
def optS (o : Option Nat) : String := renderOpt o

def coin? (s : String) : Option Coin :=
  match s.splitOn ":" with
  | [a, b] => do let d ← nat? a; let x ← nat? b; pure ⟨d, x⟩
  | _ => none

def coinKv (ws : List String) (k : String) : Option Coin := (kv ws k).bind coin?

/-- `-` ⇒ none -/
def optCoinKv (ws : List String) (k : String) : Option (Option Coin) :=
  match kv ws k with
  | none => none
  | some "-" => some none
  | some v => (coin? v).map some

def optBoolKv (ws : List String) (k : String) : Option (Option Bool) :=
  match kv ws k with
  | some "-" => some none
  | some "1" => some (some true)
  | some "0" => some (some false)
  | _ => none

/-- `x` ⇒ omitted, `-` ⇒ empty list -/
def optListKv (ws : List String) (k : String) : Option (Option (List Nat)) :=
  match kv ws k with
  | none => none
  | some "x" => some none
  | some v => (natList? v).map some

/-- address-like field: `-` none, `x` invalid string, otherwise an id -/
inductive AField where
  | absent | bad | id (a : Nat)

def aField (ws : List String) (k : String) : Option AField :=
  match kv ws k with
  | none => none
  | some "-" => some .absent
  | some "x" => some .bad
  | some v => (nat? v).map .id

def fkindOf (n : Nat) : FKind :=
  match n with
  | 0 => .vending | 1 => .openEdition | 2 => .tokenMerge | _ => .base

def sortedSet (l : List Nat) : List Nat := (l.eraseDups).mergeSort

def paramsS (p : Params) : String :=
  s!"code={p.codeId} allowed={renderNats (sortedSet p.allowed)} frozen={b2s p.frozen} fee={coinS p.fee} minp={coinS p.minPrice} off={p.offset} maxtok={p.maxTokens} maxper={p.maxPerAddr} airp={coinS p.airdropPrice} ## allowedraw={renderNats p.allowed}"

def coinsOf (l : List (Nat × Nat)) : List Coin := l.map fun (d, a) => ⟨d, a⟩

/-- (primary, drift) -/
def bankS (w : World) (f sender : Addr) : String × String :=
  let fd := match w.factory? f with | some x => x.p.fee.denom | none => 0
  let supfd := if fd = 0 then "-" else toString (w.supply fd)
  (s!"bal={w.bal sender fd},{w.bal sender 0},{w.bal f fd},{w.bal f 0},{w.bal LAUNCHPAD_DAO fd},{w.bal LAUNCHPAD_DAO 0} net={w.supply 0 - w.bal FAIRBURN_POOL 0} supfd={supfd} next={w.next}",
   s!"pool={w.bal FAIRBURN_POOL 0} sup={w.supply 0}")

def infoS (w : World) (a : Addr) : String :=
  match w.contract? a with
  | none => "-"
  | some c => s!"{c.code}:{c.instantiator}:{optS c.admin}"

/-- (primary, drift) -/
def minterS (w : World) (a : Addr) : String × String :=
  match w.minter? a with
  | none => ("-", "-")
  | some m =>
    let price := match m.price with | some c => coinS c | none => "-"
    (s!"{m.factory},{optS m.admin},{m.sg721},{m.sg721Code},{optS m.numTokens},{optS m.perAddr}",
     s!"{optS m.start},{optS m.endTime},{price},{optS m.wl},{optS m.payAddr}")

/-- (primary, drift) -/
def collS (w : World) (a : Addr) : String × String :=
  match w.collection? a with
  | none => ("-", "-")
  | some c =>
    let (rs, rp) := match c.royalty with | some (s, p) => (toString s, toString p) | none => ("-", "-")
    (s!"{c.owner},{c.creator}", s!"{optS c.trade},{rs},{rp}")

def parseCreate (ws : List String) : Option (Addr × CreateMsg) := do
  let f ← natKv ws "f"; let sender ← natKv ws "sender"; let funds ← pairListKv ws "funds"
  let sg721 ← natKv ws "sg721"; let creator ← aField ws "creator"
  let n ← optNatKv ws "n"; let per ← natKv ws "per"; let start ← natKv ws "start"; let end_ ← optNatKv ws "end"
  let price ← coinKv ws "price"; let pay ← aField ws "pay"; let wl ← aField ws "wl"; let trade ← optNatKv ws "trade"
  let roys ← optNatKv ws "roys"; let royp ← aField ws "royp"
  let desc ← natKv ws "desc"; let img ← boolKv ws "img"; let link ← optBoolKv ws "link"
  let uri ← boolKv ws "uri"; let nft ← boolKv ws "nft"
  let creatorO : Option Addr := match creator with | .id a => some a | _ => none
  let payO : Option (Option Addr) := match pay with | .absent => none | .bad => some none | .id a => some (some a)
  let wlR : WlRef := match wl with | .absent => .none | .bad => .bad | .id a => .addr a
  let roy : Option (Nat × Option Addr) :=
    match roys with
    | none => none
    | some s => some (s, match royp with | .id a => some a | _ => none)
  pure (f, { sender := sender, funds := coinsOf funds, sg721Code := sg721, creator := creatorO, numTokens := n,
             perAddr := per, start := start, endTime := end_, price := price, payAddr := payO, wl := wlR,
             trade := trade, royalty := roy, descLen := desc, imageOk := img, linkOk := link, uriOk := uri, nftOk := nft })

def parseParams (ws : List String) : Option Params := do
  let k ← natKv ws "kind"; let code ← natKv ws "code"; let allowed ← natListKv ws "allowed"
  let frozen ← boolKv ws "frozen"; let fee ← coinKv ws "fee"; let minp ← coinKv ws "minp"
  let off ← natKv ws "off"; let maxtok ← natKv ws "maxtok"; let maxper ← natKv ws "maxper"; let airp ← coinKv ws "airp"
  pure { kind := fkindOf k, codeId := code, allowed := allowed, frozen := frozen, fee := fee, minPrice := minp,
         offset := off, maxTokens := maxtok, maxPerAddr := maxper, airdropPrice := airp }

def parseUpdate (ws : List String) : Option (Addr × Update) := do
  let f ← natKv ws "f"
  let code ← optNatKv ws "code"; let add ← optListKv ws "add"; let rm ← optListKv ws "rm"
  let frozen ← optBoolKv ws "frozen"; let fee ← optCoinKv ws "fee"; let minp ← optCoinKv ws "minp"
  let off ← optNatKv ws "off"; let maxtok ← optNatKv ws "maxtok"; let maxper ← optNatKv ws "maxper"
  let airp ← optCoinKv ws "airp"
  pure (f, { code := code, add := add, rm := rm, frozen := frozen, fee := fee, minPrice := minp, offset := off,
             maxTokens := maxtok, maxPerAddr := maxper, airdropPrice := airp })

def c08Step (w : World) (line : String) : World × String :=
  let ws := words line
  let bad := (w, "bad-op")
  match ws.head? with
  | some "time" =>
    match natKv ws "t" with
    | some t => (step' w (.time t), "ok")
    | none => bad
  | some "fund" =>
    match natKv ws "who", natKv ws "denom", natKv ws "amt" with
    | some a, some d, some n => (step' w (.fund a d n), "ok")
    | _, _, _ => bad
  | some "mkfactory" =>
    match parseParams ws with
    | some p =>
      let a := 1000 + w.next
      let w' := step' w (.mkFactory p)
      (w', match w'.factory? a with | some f => s!"ok f={a} {paramsS f.p}" | none => "err")
    | none => bad
  | some "params" =>
    match parseUpdate ws with
    | some (f, u) =>
      let r := step w (.updateParams f u)
      let w' := step' w (.updateParams f u)
      let ps := match w'.factory? f with | some x => paramsS x.p | none => "-"
      (w', (match r with | .ok _ => "ok " | .error _ => "err ") ++ ps)
    | none => bad
  | some "mkwl" =>
    match boolKv ws "flex", natKv ws "start", natKv ws "end", boolKv ws "ok", natKv ws "poold", natKv ws "supd" with
    | some fl, some s, some e, some ok, some pd, some sd =>
      let a := 1000 + w.next
      (step' w (.mkWl fl s e ok pd sd), if ok then s!"ok wl={a}" else "err")
    | _, _, _, _, _, _ => bad
  | some "create" =>
    match parseCreate ws with
    | some (f, m) =>
      match step w (.create f m) with
      | .ok w' =>
        let ma := minterAddr w
        let ca := collectionAddr w
        let (bp, bd) := bankS w' f m.sender
        let (mp, md) := minterS w' ma
        let (cp, cd) := collS w' ca
        (w', s!"ok m={ma} c={ca} mi={infoS w' ma} ci={infoS w' ca} cfg={mp} col={cp} {bp} ## cfgx={md} colx={cd} {bd}")
      | .error _ =>
        let (bp, bd) := bankS w f m.sender
        (w, s!"err {bp} ## {bd}")
    | none => bad
  | some "setlimit" =>
    match natKv ws "m", natKv ws "sender", pairListKv ws "funds", natKv ws "limit" with
    | some ma, some s, some fu, some l =>
      let op := Op.setLimit ma s (coinsOf fu) l
      let r := step w op
      let w' := step' w op
      let per := match w'.minter? ma with | some m => optS m.perAddr | none => "-"
      (w', (match r with | .ok _ => "ok" | .error _ => "err") ++ s!" per={per}")
    | _, _, _, _ => bad
  | some "probe" =>
    -- any other message of a minter's / factory's schema: nothing the model tracks changes
    match natKv ws "m" with
    | some ma =>
      let per := match w.minter? ma with | some m => optS m.perAddr | none => "-"
      (w, s!"per={per} next={w.next}")
    | none => bad
  | some "migrate" =>
    match natKv ws "m", natKv ws "sender" with
    | some ma, some s => (w, s!"admin={b2s (mayMigrate w ma s)}")
    | _, _ => bad
  | _ => bad

def main : IO Unit := runDriver ({} : World) c08Step
