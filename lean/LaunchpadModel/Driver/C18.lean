import LaunchpadModel.Model.GovWorld
import LaunchpadModel.Model.Proto
/-!
Driver for C18 (governance updates). One output line per input line.

* `case f=<V|O|T|B> codes=<11 minter code ids> colls=<sg721 code ids> <params>`        → `case`
  params: `code= ids=<a,…|-> frozen=<0|1> cfee=<d:a> minp=<d:a> bps= off= mtl= mpal= adp=<d:a> adbps= shuf=<d:a> dev= ext=<0|1>`
  (fields a factory does not have are ignored)
* `upd [code=] [add=<a,…|->] [rm=<a,…|->] [frozen=] [cfee=] [minp=] [bps=] [off=] [mtl=] [mpal=] [adp=] [adbps=] [shuf=]
       [xminp=<d:a>] [dev=] [ext=<0|1>]`   a field that is absent is an omitted (`None`) field      → `ok` | `err`
* `qp` → the Params query, `qids` → AllowedCollectionCodeIds, `qid x=<n>` → AllowedCollectionCodeId(n)
* `create m=<slot> sg721= num=<n|-> pal= price=<d:a> funds=<d:a|-> start=<ns> now=<ns> stt=<ns|->`
* `mint m= now= buyer= funds=` · `airdrop m= funds=` · `pal m= limit=` · `shuffle m= buyer= funds=`
* `ustt m= now= t=<ns|->` · `price m= now= p=` · `status m= v= b= e=` · `qs m=` · `qm m=`

* `upd … [via=<s|m>] acc=<0|1>`: `via=m` = the same message through the factory's `migrate`; `acc` = the implementation's
  verdict, a CHECKED witness (`LP.Gov.updW`): accepted by both → `ok`; refused by both → `err`; refused by the code only →
  `err ## refusal-not-in-model` (params unchanged, DRIFT); accepted by the code only → `err` (disagrees with the code's `ok`)
* `mignone` = `migrate` with a `null` message → `ok`, nothing changes
* `setwl m= now= wlp=<d:a>` → `ok` | `err`
* `xexec v=<variant>` → `noise` (a factory ExecuteMsg variant found in the schema at run time that the model does not know)

Output lines are `primary ## outside-projection`. Money-moving ops answer `ok fee=<everything that did not go to the seller>
seller=<seller's share> ## dev= liq= lp= burn= pool=` (the split between the fee recipients belongs to C06/C02), `qm` answers
`minter kind= price= pal= ## mintable=` (the running supply belongs to C01); the others `ok`; failures `err`.
-/
open LP LP.Proto LP.Gov

def b2s (b : Bool) : String := if b then "1" else "0"

def coin? (s : String) : Option Coin :=
  match s.splitOn ":" with
  | [a, b] => do let d ← nat? a; let x ← nat? b; pure ⟨d, x⟩
  | _ => none

/-- absent key ⇒ `some none` (omitted field); present ⇒ must parse -/
def optField {α : Type} (ws : List String) (key : String) (parse : String → Option α) : Option (Option α) :=
  match kv ws key with
  | none => some none
  | some v => (parse v).map some

def bool? (s : String) : Option Bool := if s == "1" then some true else if s == "0" then some false else none

def coinKv (ws : List String) (key : String) : Option Coin := (kv ws key).bind coin?

def coinsKv (ws : List String) (key : String) : Option (List Coin) :=
  (pairListKv ws key).map fun l => l.map fun (d, a) => ⟨d, a⟩

def parseUpd (ws : List String) : Option AnyUpd := do
  let code ← optField ws "code" nat?
  let add ← optField ws "add" natList?
  let rm ← optField ws "rm" natList?
  let frozen ← optField ws "frozen" bool?
  let cfee ← optField ws "cfee" coin?
  let minp ← optField ws "minp" coin?
  let bpsV ← optField ws "bps" nat?
  let off ← optField ws "off" nat?
  let mtl ← optField ws "mtl" nat?
  let mpal ← optField ws "mpal" nat?
  let adp ← optField ws "adp" coin?
  let adbps ← optField ws "adbps" nat?
  let shuf ← optField ws "shuf" coin?
  let xminp ← optField ws "xminp" coin?
  let dev ← optField ws "dev" nat?
  let ext ← optField ws "ext" bool?
  pure { codeId := code, addIds := add, rmIds := rm, frozen := frozen, creationFee := cfee, minMintPrice := minp,
         mintFeeBps := bpsV, maxTradingOffsetSecs := off, maxTokenLimit := mtl, maxPerAddressLimit := mpal,
         airdropMintPrice := adp, airdropMintFeeBps := adbps, shuffleFee := shuf, extMinMintPrice := xminp,
         devFeeAddress := dev, extUnit := ext.getD false }

def parseParams (ws : List String) : Option Params := do
  let f ← kv ws "f"
  let code ← natKv ws "code"; let ids ← natListKv ws "ids"; let frozen ← boolKv ws "frozen"
  let cfee ← coinKv ws "cfee"; let off ← natKv ws "off"
  let minp := (coinKv ws "minp").getD ⟨0, 0⟩
  let bpsV := (natKv ws "bps").getD 0
  let mtl := (natKv ws "mtl").getD 0; let mpal := (natKv ws "mpal").getD 0
  let adp := (coinKv ws "adp").getD ⟨0, 0⟩; let adbps := (natKv ws "adbps").getD 0
  let shuf := (coinKv ws "shuf").getD ⟨0, 0⟩; let dev := (natKv ws "dev").getD 0
  let ext := (boolKv ws "ext").getD false
  let mk {ε : Type} (x : ε) : MinterParams ε :=
    { codeId := code, allowed := ids, frozen := frozen, creationFee := cfee, minMintPrice := minp, mintFeeBps := bpsV,
      maxTradingOffsetSecs := off, ext := x }
  match f with
  | "V" => pure (.v (mk { maxTokenLimit := mtl, maxPerAddressLimit := mpal, airdropMintPrice := adp,
                          airdropMintFeeBps := adbps, shuffleFee := shuf }))
  | "O" => pure (.o (mk { maxTokenLimit := mtl, maxPerAddressLimit := mpal, airdropMintFeeBps := adbps,
                          airdropMintPrice := adp, devFeeAddress := dev }))
  | "T" => pure (.t { codeId := code, allowed := ids, frozen := frozen, creationFee := cfee,
                      maxTradingOffsetSecs := off, maxTokenLimit := mtl, maxPerAddressLimit := mpal,
                      airdropMintPrice := adp, airdropMintFeeBps := adbps, shuffleFee := shuf })
  | "B" => pure (.b (mk ext))
  | _ => none

def rc (c : Coin) : String := s!"{c.denom}:{c.amount}"

def renderParams (p : Params) : String :=
  let head := s!"code={p.codeId} ids={renderNats p.allowed} frozen={b2s p.frozen} cfee={rc p.creationFee}"
  let o {α : Type} (name : String) (x : Option α) (r : α → String) : String :=
    match x with | some v => s!" {name}={r v}" | none => ""
  let tail := match p with | .b q => s!" ext={b2s q.ext}" | _ => ""
  head ++ o "minp" p.minMintPrice rc ++ o "bps" p.mintFeeBps toString ++ s!" off={p.offset}"
    ++ o "mtl" p.maxTokenLimit toString ++ o "mpal" p.maxPal toString ++ o "adp" p.airdropPrice rc
    ++ o "adbps" p.airdropBps toString ++ o "shuf" p.shuffleFee rc ++ o "dev" p.dev toString ++ tail

def isDev (a : Addr) : Bool := 60 ≤ a && a ≤ 69

def money (ms : List Msg) : String :=
  let sumTo (f : Addr → Bool) : Nat :=
    (ms.map fun m => match m with | .send to c => if f to then c.amount else 0 | _ => 0).sum
  let burn := (ms.map fun m => match m with | .burn c => c.amount | _ => 0).sum
  let pool := (ms.map fun m => match m with | .fundPool _ c => c.amount | _ => 0).sum
  let devs := ms.filterMap fun m => match m with | .send to c => if isDev to then some (to, c.amount) else none | _ => none
  let seller := sumTo (· == ADMIN)
  let all := (ms.map fun m => m.amount).sum
  s!"fee={all - seller} seller={seller} ## dev={renderPairs devs} liq={sumTo (· == LIQUIDITY_DAO)} lp={sumTo (· == LAUNCHPAD_DAO)} burn={burn} pool={pool}"

structure D where
  env : Env := ⟨[], []⟩
  w : Option World := none

def parseOp (ws : List String) : Option (Op × Bool) :=
  match ws.head? with
  | some "create" => do
    let m ← natKv ws "m"; let sg ← natKv ws "sg721"; let num ← optNatKv ws "num"; let pal ← natKv ws "pal"
    let price ← coinKv ws "price"; let funds ← coinsKv ws "funds"; let start ← natKv ws "start"
    let now ← natKv ws "now"; let stt ← optNatKv ws "stt"
    pure (.create m { sg721 := sg, numTokens := num, pal := pal, price := price, funds := funds, start := start,
                      now := now, stt := stt }, true)
  | some "mint" => do
    let m ← natKv ws "m"; let now ← natKv ws "now"; let funds ← coinsKv ws "funds"; pure (.mint m now funds, true)
  | some "airdrop" => do let m ← natKv ws "m"; let funds ← coinsKv ws "funds"; pure (.airdrop m funds, true)
  | some "pal" => do let m ← natKv ws "m"; let l ← natKv ws "limit"; pure (.setPal m l, false)
  | some "shuffle" => do let m ← natKv ws "m"; let funds ← coinsKv ws "funds"; pure (.shuffle m funds, true)
  | some "ustt" => do
    let m ← natKv ws "m"; let now ← natKv ws "now"; let t ← optNatKv ws "t"; pure (.ustt m now t, false)
  | some "price" => do
    let m ← natKv ws "m"; let now ← natKv ws "now"; let p ← natKv ws "p"; pure (.setPrice m now p, false)
  | some "status" => do
    let m ← natKv ws "m"; let v ← boolKv ws "v"; let b ← boolKv ws "b"; let e ← boolKv ws "e"
    pure (.status m v b e, false)
  | some "setwl" => do
    let m ← natKv ws "m"; let now ← natKv ws "now"; let p ← coinKv ws "wlp"; pure (.setWl m now p, false)
  | some "mignone" => pure (.mig none, false)
  | _ => none

def c18Line (d : D) (line : String) : D × String :=
  let ws := words line
  match ws.head? with
  | some "case" =>
    match parseParams ws, natListKv ws "codes", natListKv ws "colls" with
    | some p, some codes, some colls => ({ env := ⟨codes, colls⟩, w := some ⟨p, []⟩ }, "case")
    | _, _, _ => ({ d with w := none }, "bad-case")
  | some h =>
    match d.w with
    | none => (d, "no-case")
    | some w =>
      match h with
      | "qp" => (d, "params " ++ renderParams w.params)
      | "qids" => (d, s!"list ids={renderNats w.params.allowed}")
      | "qid" =>
        match natKv ws "x" with
        | some x => (d, s!"allowed={b2s (allowedQuery w.params.allowed x)}")
        | none => (d, "bad-op")
      | "qs" =>
        match (natKv ws "m").bind w.minter with
        | some r => (d, s!"status v={b2s r.status.isVerified} b={b2s r.status.isBlocked} e={b2s r.status.isExplicit}")
        | none => (d, "err")
      | "qm" =>
        match (natKv ws "m").bind w.minter with
        | some r => (d, s!"minter kind={r.kind.idx} price={rc r.price} pal={r.pal} ## mintable={renderOpt r.mintable}")
        | none => (d, "err")
      | "xexec" => (d, "noise")   -- an execute variant the model has no operation for: must change nothing (monitored)
      | "upd" =>
        -- governance update (sudo or migrate: the same function of the params) with the implementation's verdict
        match parseUpd ws, (kv ws "acc").bind bool? with
        | some u, some acc =>
          match updW w.params u acc with
          | (p, .applied) => ({ d with w := some { w with params := p } }, "ok")
          | (_, .refused) => (d, "err")
          | (_, .refusedByCodeOnly) => (d, "err ## refusal-not-in-model")
          | (_, .acceptedByCodeOnly) => (d, "err")
        | _, _ => (d, "bad-op")
      | _ =>
        match parseOp ws with
        | none => (d, "bad-op")
        | some (op, isMoney) =>
          match step d.env w op with
          | .ok (w', ms) => ({ d with w := some w' }, if isMoney then s!"ok {money ms}" else "ok")
          | .error _ => (d, "err")
  | none => (d, "bad-op")

def main : IO Unit := runDriverRaw ({} : D) c18Line
