import LaunchpadModel.Model.LaunchpadSystemOE2
import LaunchpadModel.Model.Proto
/-!
Driver for the open-edition SYSTEM composite 2 `LP.SysOE2` (Model/LaunchpadSystemOE2.lean): open-edition factory + open-edition
minter (three flavours) + whitelist contracts + the REAL collection model (`LP.CF`). One output line per input line; every answer
to a state-changing line is `<case|ok|err|bad-op> <obs>`, `<obs>` = the complete observable state of all of them:

`T <height>/<time>` | `F …` factory | `M …` minter (every query, raw counters; computed on `SysOE.oeOf (SysOE2.sysOf s)`) |
`C=…` the collection contract exactly as `drv_compcoll` / `drv_compsys2` print it | `B …` bank | `W …` one block per whitelist.

Lines: everything of `drv_compsysoe` (docs/COMPOSITE_SYSTEM_OE.md) with these changes —
* `case h= now= …` (block height added); `blk h= t=` sets height and time;
* `create … nm= sym= desc=<id:len> image= ext=<id|-> ec=<-|0|1> roy=<pay:share|-> turi=<n> text=<n>  + iv= ev= maddr= caddr=` carries the
  real `collection_params` and the interned `nft_data` payloads (`collok=` is ignored);
* collection messages by ANY sender `x_*`, `x_migrate_upd`, `x_migrate_self`, `x_setver`, collection queries `q_*` exactly as
  `drv_compsys2` (docs/COMPOSITE_SYSTEM2.md §2).
-/
open LP LP.Proto

namespace CompSysOe2
open LP.Sg721 (Kind Block Exp Approval Token Royalty Desc Url Info Ownership Operator Action)

structure Drv where
  s : SysOE2.State
  accts : List Nat
  uni : List Nat
  probe : List Nat

def sysS (d : Drv) : SysOE.State := SysOE2.sysOf d.s

def coinKv (ws : List String) (key : String) : Option Coin :=
  match pairListKv ws key with
  | some [(d, a)] => some ⟨d, a⟩
  | _ => none

def optCoinKv (ws : List String) (key : String) : Option (Option Coin) :=
  match kv ws key with
  | none => some none
  | some _ => (coinKv ws key).map some

def fundsKv (ws : List String) : List Coin :=
  ((pairListKv ws "funds").getD []).map fun (d, a) => ⟨d, a⟩

def rc (c : Coin) : String := s!"{c.denom}:{c.amount}"
def roc (c : Option Coin) : String := match c with | some c => rc c | none => "-"
def rb (b : Bool) : String := if b then "1" else "0"
def rob (o : Option Bool) : String := match o with | some b => rb b | none => "e"
def ron (o : Option Nat) : String := match o with | some n => toString n | none => "e"

def strBytes (s : String) : List Nat := s.toUTF8.toList.map (·.toNat)
def bytesStr (b : List Nat) : String := String.ofList (b.map Char.ofNat)
def strList (v : String) : List (List Nat) := if v == "-" then [] else (v.splitOn ",").map strBytes
def renderStrs (l : List (List Nat)) : String := if l.isEmpty then "-" else String.intercalate "," (l.map bytesStr)

def sortPairs (l : List (Nat × Nat)) : List (Nat × Nat) :=
  (l.toArray.qsort (fun a b => a.1 < b.1)).toList

def counts (accts : List Nat) (f : Nat → Nat) : String :=
  renderPairs ((accts.filter fun a => f a != 0).map fun a => (a, f a))

def optX (s : String) : Option (Option Nat) :=
  if s == "x" || s == "-" then some none else (nat? s).map some


/-! ### minter-side observation (as `drv_compoe`, on `SysOE.oeOf`) -/

section MinterSide
open LP.OE

def rdev (o : Option Nat) : String := match o with | some a => toString a | none => "x"

def obsFactory (d : Drv) : String :=
  let s := SysOE.oeOf (sysS d)
  let p := s.params
  s!"F code={p.codeId} allowed={renderNats p.allowed} frozen={rb p.frozen} cfee={rc p.creationFee} minp={rc p.minMintPrice} feebps={p.mintFeeBps} offset={p.maxTradingOffsetSecs} maxtok={p.maxTokenLimit} maxper={p.maxPerAddressLimit} airp={rc p.airdropMintPrice} airbps={p.airdropMintFeeBps} dev={rdev p.dev} probe={String.join (d.probe.map fun c => rb (queryAllowed s c))}"

def obsMinter (d : Drv) : String :=
  let s := SysOE.oeOf (sysS d)
  match s.minter with
  | none => "M -"
  | some m =>
    let mp := match queryMintPrice s m with
      | .ok r => s!"{rc r.publicPrice}/{rc r.airdropPrice}/{roc r.whitelistPrice}/{rc r.currentPrice}"
      | .error _ => "err"
    let cnt := String.intercalate "," (d.accts.map fun a =>
      s!"{a}:{queryMintCount m a}:{renderOpt (queryWlCount m a)}")
    s!"M addr={m.addr} admin={m.admin} pay={renderOpt m.paymentAddress} ntok={renderOpt m.numTokens} limit={m.perAddressLimit} start={m.startTime} end={renderOpt m.endTime} price={rc m.mintPrice} wl={renderOpt m.whitelist} fac={m.factory} ccode={m.collectionCodeId} sg721={m.sg721} oc={rb m.onChain} left={renderOpt (queryMintable m)} mp={mp} st={rb m.status.verified}{rb m.status.blocked}{rb m.status.explicit} idx={m.seq.tokenIndex} total={queryTotalMint m} ma={counts d.accts m.pub} wlma={counts d.accts m.wlc} fs={counts d.accts (m.stg 1)} ss={counts d.accts (m.stg 2)} ts={counts d.accts (m.stg 3)} tot={m.tot 1},{m.tot 2},{m.tot 3} air={m.airdropCount} cnt={cnt}"

end MinterSide

def wlKeys (d : Drv) : List Nat :=
  ((d.s.wls.map (·.1)).toArray.qsort (· < ·)).toList.eraseDups

def obsBank (d : Drv) : String :=
  let extra := match d.s.mc with
    | none => []
    | some (m, _) => [m.addr, m.sg721]
  let as := d.accts ++ [d.s.factoryAddr] ++ extra ++ wlKeys d
  let b := d.s.bank
  let bal := String.intercalate "," (as.map fun a => s!"{a}:{b.bal a 0}:{b.bal a 1}")
  s!"B {bal} sup={b.supply 0}:{b.supply 1}"

/-! ### whitelist-side observation (as `drv_compwl`) -/

section WlSide
open LP.WF

def renderStage (s : Stage) : String :=
  s!"{s.name}:{s.start}:{s.stop}:{s.denom}:{s.price}:{s.pal}:{renderOpt s.mcl}"

def stage? (s : String) : Option Stage :=
  match s.splitOn ":" with
  | [n, a, b, d, p, l, m] => do
    let n ← nat? n; let a ← nat? a; let b ← nat? b; let d ← nat? d; let p ← nat? p; let l ← nat? l
    let m ← (if m == "-" then some none else (nat? m).map some)
    pure { name := n, start := a, stop := b, denom := d, price := p, pal := l, mcl := m }
  | _ => none

def stages? (v : String) : Option (List Stage) := if v == "-" then some [] else (v.splitOn ";").mapM stage?

/-- `list|list|…`, `~` = no list at all -/
def parseLists (s : String) : Option (List (List (Nat × Nat))) :=
  if s == "~" then some [] else (s.splitOn "|").mapM pairList?

/-- all pages of `Members` with page size 100, as the harness walks them -/
def walk (w : Wl) (stage : Nat) : Nat → Option Nat → List Member → Option (List Member)
  | 0, _, acc => some acc
  | fuel + 1, after, acc =>
    match qMembers w stage after (some 100) with
    | none => none
    | some [] => some acc
    | some page => walk w stage fuel (page.getLast?.map (·.1)) (acc ++ page)

def renderMap (o : Option (List Member)) : String :=
  match o with
  | none => "e"
  | some l => renderPairs l

def renderCfg (o : Option ConfigR) : String :=
  match o with
  | none => "e"
  | some c =>
    let pal := match c.pal with | some n => toString n | none => "-"
    let whale := match c.whale with | none => "-" | some none => "n" | some (some n) => toString n
    s!"{c.num}:{pal}:{c.limit}:{c.start}:{c.stop}:{c.price.denom}:{c.price.amount}:{rb c.active}:{whale}"

def stageIds : List Nat := [0, 1, 2, 3]

def obsWl (d : Drv) (w : Wl) : String :=
  let now := d.s.now
  let v := w.v
  let vi := (List.range 7).find? (fun i => Variant.ofIdx i == some v)
  let adm := match qAdminList w with
    | some (l, m) => s!"adm={renderNats l} mut={rb m}"
    | none => "adm=e mut=e"
  let flags := s!"hs={rob (qHasStarted w now)} he={rob (qHasEnded w now)} ia={rob (qIsActive w now)}"
  let cfg := s!"cfg={renderCfg (qConfig w now)}"
  let tier :=
    if v.tiered && !v.isImmutable then
      let as := match qActiveStage w now with
        | none => "e" | some none => "n" | some (some st) => renderStage st
      let st := String.intercalate "|" (stageIds.map fun k =>
        if v.isMerkle then (match qStageMerkle w k with | some (s, r) => s!"{renderStage s}/{bytesStr r}" | none => "e")
        else (match qStage w k with | some (s, c) => s!"{renderStage s}/{c}" | none => "e"))
      let sts :=
        if v.isMerkle then (match qStagesMerkle w with
          | some l => String.intercalate ";" (l.map fun (s, r) => s!"{renderStage s}/{bytesStr r}") | none => "e")
        else (match qStages w with
          | some l => String.intercalate ";" (l.map fun (s, c) => s!"{renderStage s}/{c}") | none => "e")
      s!"asid={ron (qActiveStageId w now)} as={as} st={st} sts={sts}"
    else "asid=- as=- st=- sts=-"
  let mem :=
    if v.isList && v.tiered then String.intercalate "|" (stageIds.map fun k => renderMap (walk w k 1000 none []))
    else renderMap (walk w 0 1000 none [])
  let has := String.join (d.uni.map fun a => rob (qHasMember w now a))
  let mc := String.intercalate "," (d.uni.map fun a => match qMember w now a with | some c => toString c | none => "x")
  let smi :=
    if v.isList && v.tiered then
      String.intercalate "|" (stageIds.map fun k => String.intercalate "," (d.uni.map fun a =>
        match qStageMemberInfo w k a with | some (b, n) => s!"{rb b}:{n}" | none => "e"))
    else "-"
  let asmi :=
    if v.isList && v.tiered then
      String.intercalate "," (d.uni.map fun a =>
        match qAllStageMemberInfo w a with
        | some l => if l.isEmpty then "." else String.intercalate "+" (l.map fun (b, n) => s!"{rb b}:{n}")
        | none => "e")
    else "-"
  let mk :=
    if v.isMerkle then
      let roots := match qMerkleRoots w with | some l => renderStrs l | none => "e"
      let uris := match qMerkleTreeUris w with | some none => "n" | some (some l) => renderNats l | none => "e"
      s!"roots={roots} uris={uris}"
    else "roots=- uris=-"
  let can := String.join (d.uni.map fun a => rob (qCanExecute w a))
  let im :=
    if v.isImmutable then
      let c := match qImConfig w with | some (a, p, b) => s!"{a}:{p}:{match b with | some n => toString n | none => "n"}" | none => "e"
      let inc := String.join (d.uni.map fun a => rob (qIncludesAddress w a))
      s!"im={c} inc={inc} iadm={ron (qImAdmin w)} cnt={ron (qAddressCount w)} ipal={ron (qPerAddressLimit w)}"
    else "im=-"
  let raw := if v.isMerkle then "-" else s!"{w.members.length + WlMembers.stageTotal w.smembers}/{w.smembers.length}"
  s!"W v={renderOpt vi} self={w.self} {adm} {flags} {cfg} {tier} mem={mem} raw={raw} has={has} mc={mc} smi={smi} asmi={asmi} {mk} can={can} {im}"

def parseInst (ws : List String) : Option (Variant × Addr × InstMsg) := do
  let vi ← natKv ws "v"; let v ← Variant.ofIdx vi
  let self ← natKv ws "self"
  let admins ← natListKv ws "admins"; let mu ← boolKv ws "mut"
  let start ← natKv ws "start"; let en ← natKv ws "end"; let price ← coinKv ws "price"
  let pal ← natKv ws "pal"; let limit ← natKv ws "limit"; let whale ← optNatKv ws "whale"
  let members ← pairListKv ws "members"
  let stages ← (kv ws "stages").bind stages?
  let sm ← (kv ws "smembers").bind parseLists
  let roots ← (kv ws "roots").map strList
  let uriok ← boolKv ws "uriok"
  let uris ← (match kv ws "uris" with
    | some "none" => some none
    | some v => (natList? v).map some
    | none => none)
  let dbps ← optNatKv ws "dbps"
  pure (v, self,
    { admins := admins, adminsMutable := mu, start := start, end_ := en, mintPrice := price, perAddr := pal,
      memberLimit := limit, whaleCap := whale, members := members, stages := stages, stageMembers := sm,
      roots := roots, uriOk := uriok, uris := uris, discountBps := dbps })

def parseExec (ws : List String) : Option ExecMsg :=
  match ws.head? with
  | some "w_upd_start" => (natKv ws "t").map ExecMsg.updateStartTime
  | some "w_upd_end" => (natKv ws "t").map ExecMsg.updateEndTime
  | some "w_add" => do
    let sg ← natKv ws "stage"; let ms ← pairListKv ws "members"
    pure (.addMembers sg ms)
  | some "w_rm" => do
    let sg ← natKv ws "stage"; let as ← natListKv ws "addrs"
    pure (.removeMembers sg as)
  | some "w_upd_pal" => (natKv ws "n").map ExecMsg.updatePerAddressLimit
  | some "w_inc" => (natKv ws "limit").map ExecMsg.increaseMemberLimit
  | some "w_upd_admins" => (natListKv ws "admins").map ExecMsg.updateAdmins
  | some "w_freeze" => some .freeze
  | some "w_add_stage" => do
    let st ← (kv ws "stage").bind stage?; let ms ← pairListKv ws "members"
    pure (.addStage st ms)
  | some "w_rm_stage" => (natKv ws "id").map ExecMsg.removeStage
  | some "w_upd_stage" => do
    let id ← natKv ws "id"; let name ← optNatKv ws "name"; let start ← optNatKv ws "start"; let en ← optNatKv ws "end"
    let price ← (match kv ws "price" with
      | some "-" => some none
      | some _ => (coinKv ws "price").map fun c => some (c.denom, c.amount)
      | none => none)
    let pal ← optNatKv ws "pal"; let mcl ← optNatKv ws "mcl"
    pure (.updateStageConfig { id := id, name := name, start := start, stop := en, price := price, pal := pal,
                               mcl := mcl.map some })
  | some "w_unknown" => some .unknown
  | _ => none

end WlSide

/-! ### collection-side observation, parsing and queries (as `drv_compcoll`) -/

section CollSide
open LP.CF

def parseKind (s : String) : Option Kind :=
  match s with
  | "base" => some .base
  | "nt" => some .nt
  | "updatable" => some .updatable
  | "onchain" => some .onchain
  | _ => none

def kindStr : Kind → String
  | .base => "base" | .nt => "nt" | .updatable => "updatable" | .onchain => "onchain"

/-- `-` (None) | `n` | `h<N>` | `t<N>` -/
def parseOptExp (s : String) : Option (Option Exp) :=
  if s == "-" then some none
  else if s == "n" then some (some .never)
  else if s.startsWith "h" then (nat? (s.drop 1).toString).map fun n => some (.atHeight n)
  else if s.startsWith "t" then (nat? (s.drop 1).toString).map fun n => some (.atTime n)
  else none

def expStr : Exp → String
  | .never => "n"
  | .atHeight h => s!"h{h}"
  | .atTime t => s!"t{t}"

def coinsOf (l : List (Nat × Nat)) : List Coin := l.map fun (d, a) => ⟨d, a⟩

def pair? (s : String) : Option (Nat × Nat) :=
  match s.splitOn ":" with
  | [a, b] => do let x ← nat? a; let y ← nat? b; pure (x, y)
  | _ => none

def joinOr (sep : String) (l : List String) : String := if l.isEmpty then "-" else String.intercalate sep l

def b01 (b : Bool) : String := if b then "1" else "0"

def renderOptBool : Option Bool → String
  | none => "-" | some true => "1" | some false => "0"

def verStr (v : Semver.Version) : String := s!"{v.major}.{v.minor}.{v.patch}"

def natLt (a b : Nat) : Bool := decide (a < b)

def renderApprovals (l : List Approval) : String :=
  joinOr "+" ((sortBy (fun (a b : Approval) => natLt a.spender b.spender) l).map fun a => s!"{a.spender}@{expStr a.expires}")

def renderSpenders (l : List Approval) : String :=
  joinOr "+" ((sortBy natLt (l.map (·.spender))).map toString)

/-- `<id>/<owner>/<uri>/<ext>/<all approvals>/<spenders whose approval has not expired in the current block>` -/
def renderToken (b : Block) (t : Token) : String :=
  s!"{t.id}/{t.owner}/{renderOpt t.uri}/{t.ext}/{renderApprovals t.approvals}/{renderSpenders (liveApprovals t b false)}"

def renderColl (b : Block) (c : Coll) : String :=
  let s := c.core
  let o := s.ownership
  let own := s!"{renderOpt o.owner}/{renderOpt o.pending}/{match o.pendingExpiry with | some e => expStr e | none => "-"}"
  let i := s.info
  let roy := match i.royalty with | some r => s!"{r.payment}:{r.share}" | none => "-"
  let ext := match i.externalLink with | some u => toString u.id | none => "-"
  let toks := joinOr ";" ((sortBy (fun (x y : Token) => natLt x.id y.id) s.tokens).map (renderToken b))
  let ops := joinOr "," ((sortBy (fun (x y : Operator) => natLt (x.owner * 1000000 + x.operator) (y.owner * 1000000 + y.operator))
    s.operators).map fun x => s!"{x.owner}>{x.operator}@{expStr x.expires}/{b01 (!x.expires.isExpired b)}")
  let upd := decide (s.kind = .updatable)
  s!"C={c.self} k={kindStr s.kind} v={verStr s.ver} nm={c.name}/{c.symbol} own={own} leg={renderOpt c.legacy} " ++
  s!"fz={b01 s.frozenInfo} rua={s.royaltyUpdatedAt} cr={i.creator} desc={i.description.id}:{i.description.len} img={i.image.id} " ++
  s!"ext={ext} ec={renderOptBool i.explicitContent} stt={renderOpt i.startTradingTime} roy={roy} n={s.count} toks={toks} " ++
  s!"ops={ops} fm={b01 (upd && s.frozenMeta)} ue={b01 (upd && s.updEnabled)}"

def optBoolKv (ws : List String) (key : String) : Option (Option Bool) :=
  match kv ws key with
  | some "-" => some none
  | some "1" => some (some true)
  | some "0" => some (some false)
  | _ => none

def optRoyKv (ws : List String) : Option (Option Royalty) :=
  match kv ws "roy" with
  | some "-" => some none
  | some v => (pair? v).map fun (p, sh) => some (⟨p, sh⟩ : Royalty)
  | none => none

def parseUci (ws : List String) : Option UpdateInfo := do
  let iv ← boolKv ws "iv"
  let ev ← boolKv ws "ev"
  let desc ← match kv ws "desc" with
    | some "-" => some none
    | some v => (pair? v).map fun (a, b) => some (⟨a, b⟩ : Desc)
    | none => none
  let image ← (optNatKv ws "image").map fun o => o.map fun i => (⟨i, iv⟩ : Url)
  let ext ← (optNatKv ws "ext").map fun o => o.map fun i => (⟨i, ev⟩ : Url)
  let ec ← optBoolKv ws "ec"
  let roy ← optRoyKv ws
  let creator ← optNatKv ws "creator"
  pure ⟨desc, image, ext, ec, roy, creator⟩

def parseMsg (ws : List String) : Option ExecMsg :=
  match ws.head? with
  | some "transfer" => do pure (.transferNft (← natKv ws "to") (← natKv ws "id"))
  | some "send" => do pure (.sendNft (← natKv ws "to") (← natKv ws "id") (← boolKv ws "recv"))
  | some "approve" => do pure (.approve (← natKv ws "sp") (← natKv ws "id") (← (kv ws "exp").bind parseOptExp))
  | some "revoke" => do pure (.revoke (← natKv ws "sp") (← natKv ws "id"))
  | some "approve_all" => do pure (.approveAll (← natKv ws "op") (← (kv ws "exp").bind parseOptExp))
  | some "revoke_all" => do pure (.revokeAll (← natKv ws "op"))
  | some "mint" => do pure (.mint (← natKv ws "id") (← natKv ws "owner") (← optNatKv ws "uri") (← natKv ws "ext"))
  | some "burn" => do pure (.burn (← natKv ws "id"))
  | some "extension" => some .extension
  | some "uci" => do pure (.updateCollectionInfo (← parseUci ws))
  | some "ustt" => do pure (.updateStartTradingTime (← optNatKv ws "t"))
  | some "freeze" => some .freezeCollectionInfo
  | some "own_transfer" => do pure (.updateOwnership (.transfer (← natKv ws "to") (← (kv ws "exp").bind parseOptExp)))
  | some "own_accept" => some (.updateOwnership .accept)
  | some "own_renounce" => some (.updateOwnership .renounce)
  | some "freeze_meta" => some .freezeTokenMetadata
  | some "utm" => do pure (.updateTokenMetadata (← natKv ws "id") (← optNatKv ws "uri"))
  | some "enable" => some .enableUpdatable
  | _ => none

def parseVer (str : String) : Option Semver.Version :=
  match str.splitOn "." with
  | [a, b, c] => do pure ⟨← nat? a, ← nat? b, ← nat? c⟩
  | _ => none

def qAns {α : Type} (r : Except Err α) (f : α → String) : String :=
  match r with
  | .ok a => "q ok " ++ f a
  | .error _ => "q err"

def renderAccess (x : Addr × List Approval) : String := s!"{x.1}/{renderApprovals x.2}"
def renderNft (x : Option Nat × Nat) : String := s!"{renderOpt x.1}/{x.2}"

def runQuery (c : Coll) (b : Block) (ws : List String) : Option String :=
    match ws.head? with
    | some "q_owner_of" => do
      pure (qAns (qOwnerOf c b (← natKv ws "id") (← boolKv ws "ie")) renderAccess)
    | some "q_approval" => do
      pure (qAns (qApproval c b (← natKv ws "id") (← natKv ws "sp") (← boolKv ws "ie")) fun a => s!"{a.spender}@{expStr a.expires}")
    | some "q_approvals" => do
      pure (qAns (qApprovals c b (← natKv ws "id") (← boolKv ws "ie")) renderApprovals)
    | some "q_operators" => do
      pure (qAns (qAllOperators c b (← natKv ws "owner") (← boolKv ws "ie") (← optNatKv ws "after") (← optNatKv ws "limit"))
        fun l => joinOr "," (l.map fun (a, e) => s!"{a}@{expStr e}"))
    | some "q_nft_info" => do pure (qAns (qNftInfo c (← natKv ws "id")) renderNft)
    | some "q_all_nft_info" => do
      pure (qAns (qAllNftInfo c b (← natKv ws "id") (← boolKv ws "ie")) fun x => s!"{renderAccess x.1}/{renderNft x.2}")
    | some "q_tokens" => do
      pure (qAns (qTokens c (← natKv ws "owner") (← optNatKv ws "after") (← optNatKv ws "limit")) renderNats)
    | some "q_all_tokens" => do
      pure ("q ok " ++ renderNats (qAllTokens c (← optNatKv ws "after") (← optNatKv ws "limit")))
    | some "q_ownership" =>
      some (qAns (qOwnership c) fun o =>
        s!"{renderOpt o.owner}/{renderOpt o.pending}/{match o.pendingExpiry with | some e => expStr e | none => "-"}")
    | some "q_upd" =>
      match qEnableUpdatable c, qFrozenTokenMetadata c, qEnableUpdatableFee c with
      | .ok e, .ok f, .ok fee => some s!"q ok e={b01 e} f={b01 f} fee={fee}"
      | _, _, _ => some "q err"
    | some "q_payout" => do
      pure (qAns (royaltyPayout c (← natKv ws "pay") (← natKv ws "fee") (← optNatKv ws "fin")) fun (r, ms) => s!"{r} {renderMsgs ms}")
    | _ => none

end CollSide

def obs (d : Drv) : String :=
  let ws := (wlKeys d).filterMap fun k => (Sys.find d.s.wls k).map (obsWl d)
  let wtxt := if ws.isEmpty then "W -" else String.intercalate " " ws
  let c := match d.s.mc with
    | some (_, c) => renderColl d.s.block c
    | none => "C=-"
  s!"T {d.s.height}/{d.s.now} {obsFactory d} {obsMinter d} {c} {obsBank d} {wtxt}"

/-! ### minter-side parsing (as `drv_compoe`) -/

section Parse
open LP.OE

def parseOwnAction (ws : List String) : Option TT.OwnAction :=
  match kv ws "act" with
  | some "transfer" => (natKv ws "new").map TT.OwnAction.transfer
  | some "accept" => some .accept
  | some "renounce" => some .renounce
  | _ => none

/-- `dev=<a>` / `dev=x` (a string `addr_validate` rejects); absent = not part of the update -/
def devKv (ws : List String) : Option (Option Nat) :=
  match kv ws "dev" with
  | none => none
  | some "x" => some none
  | some v => (nat? v).map some

def parseUpdate (ws : List String) : Option ParamsUpdate := do
  let cfee ← optCoinKv ws "cfee"; let minp ← optCoinKv ws "minp"; let airp ← optCoinKv ws "airp"
  pure { codeId := natKv ws "code", addCodes := natListKv ws "addc", rmCodes := natListKv ws "rmc",
         frozen := boolKv ws "frozen", creationFee := cfee, minMintPrice := minp, mintFeeBps := natKv ws "feebps",
         maxTradingOffsetSecs := natKv ws "offset", maxTokenLimit := natKv ws "maxtok",
         maxPerAddressLimit := natKv ws "maxper", airdropMintFeeBps := natKv ws "airbps", airdropMintPrice := airp,
         dev := devKv ws }

def parseParams (ws : List String) : Option Params := do
  let code ← natKv ws "code"; let allowed ← natListKv ws "allowed"; let frozen ← boolKv ws "frozen"
  let cfee ← coinKv ws "cfee"; let minp ← coinKv ws "minp"; let feebps ← natKv ws "feebps"
  let offset ← natKv ws "offset"; let maxtok ← natKv ws "maxtok"; let maxper ← natKv ws "maxper"
  let airp ← coinKv ws "airp"; let airbps ← natKv ws "airbps"; let dev ← devKv ws
  pure { codeId := code, allowed := allowed, frozen := frozen, creationFee := cfee, minMintPrice := minp,
         mintFeeBps := feebps, maxTradingOffsetSecs := offset, maxTokenLimit := maxtok, maxPerAddressLimit := maxper,
         airdropMintFeeBps := airbps, airdropMintPrice := airp, dev := dev }

def parseMinterOp (ws : List String) : Option OE.Op :=
  let sender := (natKv ws "sender").getD 0
  let funds := fundsKv ws
  match ws.head? with
  | some "t" => (natKv ws "now").map Op.setTime
  | some "fund" => do
    let a ← natKv ws "a"; let dn ← natKv ws "d"; let amt ← natKv ws "amt"
    pure (.fund a ⟨dn, amt⟩)
  | some "create" => do
    let code ← natKv ws "code"; let creator ← natKv ws "creator"; let trading ← optNatKv ws "trading"
    let nftok ← boolKv ws "nftok"; let onchain ← boolKv ws "onchain"; let uri ← boolKv ws "uri"
    let pay ← optNatKv ws "pay"; let start ← natKv ws "start"; let en ← optNatKv ws "end"; let ntok ← optNatKv ws "ntok"
    let price ← coinKv ws "price"; let limit ← natKv ws "limit"; let wl ← optNatKv ws "wl"
    let wlvalid := (boolKv ws "wlvalid").getD true; let collok := (boolKv ws "collok").getD true
    let maddr ← natKv ws "maddr"; let caddr ← natKv ws "caddr"
    pure (.create sender funds
      { collCode := code, creator := creator, trading := trading, nftValid := nftok, onChain := onchain, uriOk := uri,
        paymentAddress := pay, startTime := start, endTime := en, numTokens := ntok, mintPrice := price,
        perAddressLimit := limit, whitelist := wl, whitelistValid := wlvalid, collOk := collok }
      { minterAddr := maddr, collAddr := caddr })
  | some "inst_direct" => some (.instantiateDirect sender)
  | some "mint_to" => (natKv ws "rcpt").map (Op.mintTo sender funds)
  | some "set_wl" => do
    let wl ← natKv ws "wl"
    pure (.setWhitelist sender funds wl ((boolKv ws "valid").getD true))
  | some "purge" => some (.purge sender funds)
  | some "upd_price" => (natKv ws "price").map (Op.updateMintPrice sender funds)
  | some "upd_start" => (natKv ws "t").map (Op.updateStartTime sender funds)
  | some "upd_end" => (natKv ws "t").map (Op.updateEndTime sender funds)
  | some "upd_trading" => (optNatKv ws "t").map (Op.updateStartTradingTime sender funds)
  | some "upd_limit" => (natKv ws "n").map (Op.updatePerAddressLimit sender funds)
  | some "burn" => some (.burnRemaining sender funds)
  | some "sudo_status" => do
    let v ← boolKv ws "v"; let b ← boolKv ws "b"; let e ← boolKv ws "e"
    pure (.sudoStatus v b e)
  | some "sudo_params" => (parseUpdate ws).map Op.sudoParams
  | some "c_transfer" => do
    let id ← natKv ws "id"; let to ← natKv ws "to"
    pure (.collTransfer sender id to)
  | some "c_burn" => (natKv ws "id").map (Op.collBurn sender)
  | some "c_trading" => (optNatKv ws "t").map (Op.collTrading sender)
  | some "c_creator" => (natKv ws "new").map (Op.collCreator sender)
  | some "c_freeze" => some (.collFreeze sender)
  | some "c_own" => (parseOwnAction ws).map (Op.collOwn sender)
  | _ => none

end Parse

/-- `proof=~` absent, `proof=-` the empty list, else the strings -/
def parseProof (ws : List String) : Option (List (List Nat)) :=
  match kv ws "proof" with
  | some "~" | none => none
  | some v => some (strList v)

def parseOp (ws : List String) : Option SysOE.Op :=
  let sender := (natKv ws "sender").getD 0
  let funds := fundsKv ws
  match ws.head? with
  | some "mint" =>
    let stage := (optNatKv ws "stage").getD none; let alloc := (optNatKv ws "alloc").getD none
    some (.mint sender funds stage alloc (parseProof ws))
  | some "w_inst" => (parseInst ws).map fun (v, self, m) => .wlInst v sender funds self m
  | some h =>
    if h.startsWith "w_" then do
      let k ← natKv ws "k"; let m ← parseExec ws
      pure (.wlExec k sender funds m)
    else (parseMinterOp ws).map SysOE.Op.minter
  | none => none

/-- the real `collection_params` of a `create` line -/
def parseCollInit (ws : List String) : Option Sys2.CollInit := do
  let nm ← natKv ws "nm"; let sym ← natKv ws "sym"
  let (did, dlen) ← (kv ws "desc").bind pair?
  let img ← natKv ws "image"; let iv ← boolKv ws "iv"; let ev ← boolKv ws "ev"
  let ext ← optNatKv ws "ext"
  let ec ← optBoolKv ws "ec"
  let roy ← optRoyKv ws
  pure { name := nm, symbol := sym, description := ⟨did, dlen⟩, image := ⟨img, iv⟩, externalLink := ext.map fun e => ⟨e, ev⟩,
         explicitContent := ec, royalty := roy }

def stripX (ws : List String) : List String :=
  match ws with
  | [] => []
  | w :: rest => (w.drop 2).toString :: rest

def parseOp2 (ws : List String) : Option SysOE2.Op :=
  match ws.head? with
  | some "blk" => do pure (.block (← natKv ws "h") (← natKv ws "t"))
  | some "create" =>
    match parseMinterOp ws, parseCollInit ws, natKv ws "turi", natKv ws "text" with
    | some (.create sender funds msg w), some ci, some uri, some ext => some (.create sender funds msg w ci uri ext)
    | _, _, _, _ => none
  | some "x_migrate_upd" => some .collMigrateUpdatable
  | some "x_migrate_self" => some .collMigrateSelf
  | some "x_setver" => ((kv ws "v").bind parseVer).map SysOE2.Op.collSetVersion
  | some h =>
    if h.startsWith "x_" then
      match parseMsg (stripX ws), natKv ws "s", pairListKv ws "funds" with
      | some m, some sender, some fu => some (.collExec sender (coinsOf fu) m)
      | _, _, _ => none
    else (parseOp ws).map SysOE2.Op.sys
  | none => none

def compLine (d : Drv) (line : String) : Drv × String :=
  let ws := words line
  match ws.head? with
  | some "case" =>
    let r : Option Drv := do
      let h ← natKv ws "h"
      let now ← natKv ws "now"; let fac ← natKv ws "fac"
      let mcodes ← natListKv ws "mcodes"; let ccodes ← natListKv ws "ccodes"
      let accts ← natListKv ws "accts"; let uni ← natListKv ws "uni"; let probe ← natListKv ws "probe"
      let p ← parseParams ws
      pure { s := SysOE2.init h now ⟨mcodes, ccodes⟩ fac p, accts := accts, uni := uni, probe := probe }
    match r with
    | some d' => (d', s!"case {obs d'}")
    | none => (d, "bad-case")
  | some "q_has" =>
    match (natKv ws "k").bind (Sys.find d.s.wls), (kv ws "m").bind (fun v => Merkle.hexDecode (strBytes v)),
          (kv ws "proof").map strList with
    | some w, some m, some proof =>
      (d, match WF.qHasMemberMerkle w d.s.now m proof with | some b => s!"ok {rb b}" | none => "err")
    | none, _, _ => (d, "err")
    | _, _, _ => (d, "bad-op")
  | some "x_raw" => (d, s!"err {obs d}")
  | some h =>
    if h.startsWith "q_" then
      match d.s.mc with
      | none => (d, "q err")
      | some (_, c) => (d, (runQuery c d.s.block ws).getD "bad-op")
    else
      match parseOp2 ws with
      | none => (d, "bad-op")
      | some op =>
        match SysOE2.step d.s op with
        | .ok s2 => let d' := { d with s := s2 }; (d', s!"ok {obs d'}")
        | .error _ => (d, s!"err {obs d}")
  | none => (d, "bad-op")

end CompSysOe2

def main : IO Unit :=
  runDriverRaw
    ({ s := SysOE2.init 0 0 ⟨[], []⟩ 0
        { codeId := 0, allowed := [], frozen := false, creationFee := ⟨0, 0⟩, minMintPrice := ⟨0, 0⟩, mintFeeBps := 0,
          maxTradingOffsetSecs := 0, maxTokenLimit := 0, maxPerAddressLimit := 0, airdropMintFeeBps := 0,
          airdropMintPrice := ⟨0, 0⟩, dev := none },
       accts := [], uni := [], probe := [] } : CompSysOe2.Drv)
    CompSysOe2.compLine
