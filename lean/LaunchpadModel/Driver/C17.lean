import LaunchpadModel.Model.TokenMerge
import LaunchpadModel.Model.Proto
/-!
Driver for C17 (token-merge minter). One output line per input line.

Header: `case <name> self=<a> tgt=<a> admin=<a> colls=<a,…> req=<c:n,…|-> start=<ns> limit=<n> n=<numTokens>
         maxlim=<n> price=<airdrop price> now=<ns>`   → `case`

Ops (see `LP.TM.Op`):
* `t now=<ns>`                                                         → `ok`
* `give coll=<c> to=<a> id=<n|->`                                      → `ok <id>` | `err`
* `xfer caller=<a> coll=<c> id=<n> to=<a>`                             → `ok|err own=<a|0>`
* `approve caller=<a> coll=<c> id=<n> spender=<a> until=<ns|->`, `revoke caller=<a> coll=<c> id=<n> spender=<a>`,
  `approve_all caller=<a> coll=<c> operator=<a> until=<ns|->`, `revoke_all caller=<a> coll=<c> operator=<a>`
                                                                         → `ok|err own=<a|0>` (`own=0` for the `_all` ops)
* `send caller=<a> coll=<c> id=<n> to=<a> rcpt=<a|-> bad=<0|1|2> picked=<n|->`
* `recv caller=<a> sender=<a> id=<n> rcpt=<a|-> bad=<0|1|2> picked=<n|->`
      → `ok|err m=<minted id|-> dep=<c:n,…> cnt=<n> left=<n> own=<a|0> num=<n> tnum=<n> town=<a|0>`
* `mint_to caller=<a> rcpt=<a> pay=<n> w=<0|1> picked=<n|->`, `mint_for caller=<a> id=<n> rcpt=<a> pay=<n> w=<0|1>`
      → same shape (own/num are `0`) ` ## exp=<ok|err>`
* `set_start caller=<a> t=<ns> w=<0|1>` → `ok|err start=<ns> ## exp=…`;  `set_limit caller=<a> limit=<n> w=<0|1>` → `ok|err limit=<n> ## exp=…`
* `purge caller=<a> w=<0|1>`, `burn_remaining caller=<a> w=<0|1>` → `ok|err left=<n> ## exp=…`
* `noise what=<free text> … w=<0|1>` → `ok|err start=<ns> limit=<n> left=<n> tnum=<n>`
* `shuffle caller=<a> w=<0|1> perm=<ids in position order afterwards|->` → `ok|err left=<n>` (`LP.TM.OpX.shuffle`: `perm` must be a
  permutation of the model's mintable ids)
* `tgt_xfer caller=<a> id=<n> to=<a> w=<0|1>`, `tgt_burn caller=<a> id=<n> w=<0|1>` (holder ops on the minter's OWN collection)
      → `ok|err town=<a|0> tnum=<n>`
* `govern maxlim=<n> price=<n> denom=<0|1> w=<0|1>` (factory sudo UpdateParams) → `ok|err maxlim=<n> price=<n>`
* `obs users=<a,…> maxid=<n>` → full dump ` ## ids=<mintable ids>`

`w` = the implementation's outcome (checked witness, see `Model/TokenMerge.lean`); the part after ` ## ` is outside the
projection of C17 (`LP.TM.expected`: the verdict of the rules owned by C02/C04/C05/C01) — differences there are DRIFT.
-/
open LP LP.Proto LP.TM

def oaddr (o : Option Nat) : String := match o with | none => "0" | some a => toString a

def okS (b : Bool) : String := if b then "ok" else "err"

/-- observations around a (possible) deposit / mint for recipient `r` -/
def touched (s : State) (r : Addr) (src : Option (Addr × Nat)) (m : Option Nat) : String :=
  let (own, num) := match src with
    | some (c, id) => (oaddr (s.srcOwner c id), s.srcNum c)
    | none => ("0", 0)
  let town := match m with | some id => oaddr (s.tgtOwner id) | none => "0"
  s!"dep={renderPairs (deposited s r)} cnt={s.mintCount r} left={s.mintable.length} own={own} num={num} tnum={s.tgtNum} town={town}"

/-- did the step mint a token of the target collection, and which -/
def mintedId (s s' : State) (picked : Option Nat) : Option Nat :=
  if s'.tgtNum = s.tgtNum then none else
    match picked with
    | some id => some id
    | none => none

def range1 (n : Nat) : List Nat := (List.range n).map (· + 1)

def obsLine (s : State) (users : List Nat) (maxid : Nat) : String :=
  let us := users.map fun u => s!"u{u}={s.mintCount u}/{renderPairs (deposited s u)}"
  let cs := s.colls.map fun c => s!"c{c}={s.srcNum c}/{renderNats ((range1 maxid).map fun id => (s.srcOwner c id).getD 0)}"
  let tg := renderNats ((range1 s.numTokens).map fun id => (s.tgtOwner id).getD 0)
  s!"obs start={s.start} limit={s.perAddressLimit} left={s.mintable.length} tnum={s.tgtNum} {String.intercalate " " us} {String.intercalate " " cs} tgt={tg} ## ids={renderNats (sortDedup s.mintable)}"

def parseHeader (ws : List String) : Option State := do
  let self ← natKv ws "self"
  let admin ← natKv ws "admin"
  let colls ← natListKv ws "colls"
  let req ← pairListKv ws "req"
  let start ← natKv ws "start"
  let limit ← natKv ws "limit"
  let n ← natKv ws "n"
  let maxlim ← natKv ws "maxlim"
  let price ← natKv ws "price"
  let now ← natKv ws "now"
  pure (init self admin colls req start limit n maxlim price now)

/-- ` ## exp=…`: what the rules outside C17's projection say about this op (nothing for ops they do not cover) -/
def expS (s : State) (op : Op) : String :=
  match expected s op with
  | some b => s!" ## exp={okS b}"
  | none => ""

def depositLike (s : State) (op : Op) (r : Addr) (src : Option (Addr × Nat)) (picked : Option Nat) : State × String :=
  match step s op with
  | .ok s' =>
    let m := mintedId s s' picked
    (s', s!"ok m={renderOpt m} {touched s' r src m}{expS s op}")
  | .error _ => (s, s!"err m=- {touched s r src picked}{expS s op}")

def expKv (ws : List String) : Option (Option Nat) := optNatKv ws "until"

def c17Step (st : Option State) (line : String) : Option State × String :=
  let ws := words line
  if line.startsWith "case" then
    match parseHeader ws with
    | some s => (some s, "case")
    | none => (none, "bad-header")
  else match st with
  | none => (none, "no-case")
  | some s =>
    let r : Option (State × String) :=
      match ws.head? with
      | some "t" => do
        let t ← natKv ws "now"
        pure (step' s (.setTime t), "ok")
      | some "give" => do
        let c ← natKv ws "coll"; let to ← natKv ws "to"; let id ← optNatKv ws "id"
        match id with
        | none => pure (s, "err")
        | some id =>
          match step s (.give c id to) with
          | .ok s' => pure (s', s!"ok {id}")
          | .error _ => pure (s, "err")
      | some "xfer" => do
        let a ← natKv ws "caller"; let c ← natKv ws "coll"; let id ← natKv ws "id"; let to ← natKv ws "to"
        match step s (.transfer a c id to) with
        | .ok s' => pure (s', s!"ok own={oaddr (s'.srcOwner c id)}")
        | .error _ => pure (s, s!"err own={oaddr (s.srcOwner c id)}")
      | some "approve" => do
        let a ← natKv ws "caller"; let c ← natKv ws "coll"; let id ← natKv ws "id"; let sp ← natKv ws "spender"
        let ex ← expKv ws
        match step s (.approve a c id sp ex) with
        | .ok s' => pure (s', s!"ok own={oaddr (s'.srcOwner c id)}")
        | .error _ => pure (s, s!"err own={oaddr (s.srcOwner c id)}")
      | some "revoke" => do
        let a ← natKv ws "caller"; let c ← natKv ws "coll"; let id ← natKv ws "id"; let sp ← natKv ws "spender"
        match step s (.revoke a c id sp) with
        | .ok s' => pure (s', s!"ok own={oaddr (s'.srcOwner c id)}")
        | .error _ => pure (s, s!"err own={oaddr (s.srcOwner c id)}")
      | some "approve_all" => do
        let a ← natKv ws "caller"; let c ← natKv ws "coll"; let o ← natKv ws "operator"; let ex ← expKv ws
        match step s (.approveAll a c o ex) with
        | .ok s' => pure (s', "ok own=0")
        | .error _ => pure (s, "err own=0")
      | some "revoke_all" => do
        let a ← natKv ws "caller"; let c ← natKv ws "coll"; let o ← natKv ws "operator"
        match step s (.revokeAll a c o) with
        | .ok s' => pure (s', "ok own=0")
        | .error _ => pure (s, "err own=0")
      | some "send" => do
        let a ← natKv ws "caller"; let c ← natKv ws "coll"; let id ← natKv ws "id"; let to ← natKv ws "to"
        let rc ← optNatKv ws "rcpt"; let bad ← natKv ws "bad"; let pk ← optNatKv ws "picked"
        pure (depositLike s (.send a c id to rc (bad == 0) pk) (rc.getD a) (some (c, id)) pk)
      | some "recv" => do
        let a ← natKv ws "caller"; let sd ← natKv ws "sender"; let id ← natKv ws "id"
        let rc ← optNatKv ws "rcpt"; let bad ← natKv ws "bad"; let pk ← optNatKv ws "picked"
        pure (depositLike s (.receive a sd id rc (bad == 0) pk) (rc.getD sd) (some (a, id)) pk)
      | some "mint_to" => do
        let a ← natKv ws "caller"; let rc ← natKv ws "rcpt"; let pay ← natKv ws "pay"; let pk ← optNatKv ws "picked"
        let w ← natKv ws "w"
        pure (depositLike s (.mintTo a rc pay (w != 0) pk) rc none pk)
      | some "mint_for" => do
        let a ← natKv ws "caller"; let id ← natKv ws "id"; let rc ← natKv ws "rcpt"; let pay ← natKv ws "pay"
        let w ← natKv ws "w"
        pure (depositLike s (.mintFor a id rc pay (w != 0)) rc none (some id))
      | some "set_start" => do
        let a ← natKv ws "caller"; let t ← natKv ws "t"; let w ← natKv ws "w"
        let op := Op.setStart a t (w != 0)
        match step s op with
        | .ok s' => pure (s', s!"ok start={s'.start}{expS s op}")
        | .error _ => pure (s, s!"err start={s.start}{expS s op}")
      | some "set_limit" => do
        let a ← natKv ws "caller"; let n ← natKv ws "limit"; let w ← natKv ws "w"
        let op := Op.setLimit a n (w != 0)
        match step s op with
        | .ok s' => pure (s', s!"ok limit={s'.perAddressLimit}{expS s op}")
        | .error _ => pure (s, s!"err limit={s.perAddressLimit}{expS s op}")
      | some "purge" => do
        let a ← natKv ws "caller"; let w ← natKv ws "w"
        let op := Op.purge a (w != 0)
        match step s op with
        | .ok s' => pure (s', s!"ok left={s'.mintable.length}{expS s op}")
        | .error _ => pure (s, s!"err left={s.mintable.length}{expS s op}")
      | some "burn_remaining" => do
        let a ← natKv ws "caller"; let w ← natKv ws "w"
        let op := Op.burnRemaining a (w != 0)
        match step s op with
        | .ok s' => pure (s', s!"ok left={s'.mintable.length}{expS s op}")
        | .error _ => pure (s, s!"err left={s.mintable.length}{expS s op}")
      | some "noise" => do
        let w ← natKv ws "w"
        let s' := step' s (.noise (w != 0))
        pure (s', s!"{okS (w != 0)} start={s'.start} limit={s'.perAddressLimit} left={s'.mintable.length} tnum={s'.tgtNum}")
      | some "shuffle" => do
        let w ← natKv ws "w"
        let perm := (natListKv ws "perm").getD s.mintable
        match stepX s (.shuffle (w != 0) perm) with
        | .ok s' => pure (s', s!"ok left={s'.mintable.length}")
        | .error _ => pure (s, s!"err left={s.mintable.length}")
      | some "tgt_xfer" => do
        let a ← natKv ws "caller"; let id ← natKv ws "id"; let to ← natKv ws "to"; let w ← natKv ws "w"
        let s' := stepX' s (.tgtTransfer a id to (w != 0))
        pure (s', s!"{okS (stepX s (.tgtTransfer a id to (w != 0))).isOk} town={oaddr (s'.tgtOwner id)} tnum={s'.tgtNum}")
      | some "tgt_burn" => do
        let a ← natKv ws "caller"; let id ← natKv ws "id"; let w ← natKv ws "w"
        let s' := stepX' s (.tgtBurn a id (w != 0))
        pure (s', s!"{okS (stepX s (.tgtBurn a id (w != 0))).isOk} town={oaddr (s'.tgtOwner id)} tnum={s'.tgtNum}")
      | some "govern" => do
        let m ← natKv ws "maxlim"; let pr ← natKv ws "price"; let w ← natKv ws "w"
        let s' := stepX' s (.govern m pr (w != 0))
        pure (s', s!"{okS (w != 0)} maxlim={s'.maxPerAddressLimit} price={s'.airdropPrice}")
      | some "obs" => do
        let us ← natListKv ws "users"; let mx ← natKv ws "maxid"
        pure (s, obsLine s us mx)
      | _ => none
    match r with
    | some (s', o) => (some s', o)
    | none => (some s, "bad-op")

def main : IO Unit := runDriverRaw (none : Option State) c17Step
