import LaunchpadModel.Model.TokenMerge
import LaunchpadModel.Model.Proto
/-!
Driver for C17 (token-merge minter). One output line per input line.

Header: `case <name> self=<a> tgt=<a> admin=<a> colls=<a,…> req=<c:n,…|-> start=<ns> limit=<n> n=<numTokens>
         maxlim=<n> price=<airdrop price> now=<ns>`   → `case`

Ops (see `LP.TM.Op`):
* `t now=<ns>`                                                         → `ok`
* `give coll=<c> to=<a> id=<n|->`                                      → `ok <id>` | `err`
* `xfer caller=<a> coll=<c> id=<n> to=<a>`                             → `ok|err own=<a|0>`
* `approve caller=<a> coll=<c> id=<n> spender=<a>`                     → `ok|err own=<a|0>`
* `send caller=<a> coll=<c> id=<n> to=<a> rcpt=<a|-> bad=<0|1|2> picked=<n|->`
* `recv caller=<a> sender=<a> id=<n> rcpt=<a|-> bad=<0|1|2> picked=<n|->`
      → `ok|err m=<minted id|-> dep=<c:n,…> cnt=<n> left=<n> own=<a|0> num=<n> tnum=<n> town=<a|0>`
* `mint_to caller=<a> rcpt=<a> pay=<n> picked=<n|->`, `mint_for caller=<a> id=<n> rcpt=<a> pay=<n>`
      → same shape (own/num are `0`)
* `set_start caller=<a> t=<ns>` → `ok|err start=<ns>`;  `set_limit caller=<a> limit=<n>` → `ok|err limit=<n>`
* `purge caller=<a>`, `burn_remaining caller=<a>` → `ok|err left=<n>`
* `obs users=<a,…> maxid=<n>` → full dump
-/
open LP LP.Proto LP.TM

def oaddr (o : Option Nat) : String := match o with | none => "0" | some a => toString a

def okS (b : Bool) : String := if b then "ok" else "err"

/-- observations around a (possible) deposit / mint for recipient `r` -/
def touched (s : State) (r : Addr) (src : Option (Addr × Nat)) (m : Option Nat) : String :=
  let (own, num) := match src with
    | some (c, id) => (oaddr (s.srcOwner c id), s.srcNum c)
    | none => ("0", 0)
  let town := match m with | some id => oaddr (s.tgtOwner id) | none => "0"
  s!"dep={renderPairs (deposited s r)} cnt={s.mintCount r} left={s.mintable.length} own={own} num={num} tnum={s.tgtNum} town={town}"

/-- did the step mint a token of the target collection, and which -/
def mintedId (s s' : State) (picked : Option Nat) : Option Nat :=
  if s'.tgtNum = s.tgtNum then none else
    match picked with
    | some id => some id
    | none => none

def range1 (n : Nat) : List Nat := (List.range n).map (· + 1)

def obsLine (s : State) (users : List Nat) (maxid : Nat) : String :=
  let us := users.map fun u => s!"u{u}={s.mintCount u}/{renderPairs (deposited s u)}"
  let cs := s.colls.map fun c => s!"c{c}={s.srcNum c}/{renderNats ((range1 maxid).map fun id => (s.srcOwner c id).getD 0)}"
  let tg := renderNats ((range1 s.numTokens).map fun id => (s.tgtOwner id).getD 0)
  s!"obs start={s.start} limit={s.perAddressLimit} left={s.mintable.length} ids={renderNats (sortDedup s.mintable)} tnum={s.tgtNum} {String.intercalate " " us} {String.intercalate " " cs} tgt={tg}"

def parseHeader (ws : List String) : Option State := do
  let self ← natKv ws "self"
  let admin ← natKv ws "admin"
  let colls ← natListKv ws "colls"
  let req ← pairListKv ws "req"
  let start ← natKv ws "start"
  let limit ← natKv ws "limit"
  let n ← natKv ws "n"
  let maxlim ← natKv ws "maxlim"
  let price ← natKv ws "price"
  let now ← natKv ws "now"
  pure (init self admin colls req start limit n maxlim price now)

def depositLike (s : State) (op : Op) (r : Addr) (src : Option (Addr × Nat)) (picked : Option Nat) : State × String :=
  match step s op with
  | .ok s' =>
    let m := mintedId s s' picked
    (s', s!"ok m={renderOpt m} {touched s' r src m}")
  | .error _ => (s, s!"err m=- {touched s r src picked}")

def c17Step (st : Option State) (line : String) : Option State × String :=
  let ws := words line
  if line.startsWith "case" then
    match parseHeader ws with
    | some s => (some s, "case")
    | none => (none, "bad-header")
  else match st with
  | none => (none, "no-case")
  | some s =>
    let r : Option (State × String) :=
      match ws.head? with
      | some "t" => do
        let t ← natKv ws "now"
        pure (step' s (.setTime t), "ok")
      | some "give" => do
        let c ← natKv ws "coll"; let to ← natKv ws "to"; let id ← optNatKv ws "id"
        match id with
        | none => pure (s, "err")
        | some id =>
          match step s (.give c id to) with
          | .ok s' => pure (s', s!"ok {id}")
          | .error _ => pure (s, "err")
      | some "xfer" => do
        let a ← natKv ws "caller"; let c ← natKv ws "coll"; let id ← natKv ws "id"; let to ← natKv ws "to"
        match step s (.transfer a c id to) with
        | .ok s' => pure (s', s!"ok own={oaddr (s'.srcOwner c id)}")
        | .error _ => pure (s, s!"err own={oaddr (s.srcOwner c id)}")
      | some "approve" => do
        let a ← natKv ws "caller"; let c ← natKv ws "coll"; let id ← natKv ws "id"; let sp ← natKv ws "spender"
        match step s (.approve a c id sp) with
        | .ok s' => pure (s', s!"ok own={oaddr (s'.srcOwner c id)}")
        | .error _ => pure (s, s!"err own={oaddr (s.srcOwner c id)}")
      | some "send" => do
        let a ← natKv ws "caller"; let c ← natKv ws "coll"; let id ← natKv ws "id"; let to ← natKv ws "to"
        let rc ← optNatKv ws "rcpt"; let bad ← natKv ws "bad"; let pk ← optNatKv ws "picked"
        pure (depositLike s (.send a c id to rc (bad == 0) pk) (rc.getD a) (some (c, id)) pk)
      | some "recv" => do
        let a ← natKv ws "caller"; let sd ← natKv ws "sender"; let id ← natKv ws "id"
        let rc ← optNatKv ws "rcpt"; let bad ← natKv ws "bad"; let pk ← optNatKv ws "picked"
        pure (depositLike s (.receive a sd id rc (bad == 0) pk) (rc.getD sd) (some (a, id)) pk)
      | some "mint_to" => do
        let a ← natKv ws "caller"; let rc ← natKv ws "rcpt"; let pay ← natKv ws "pay"; let pk ← optNatKv ws "picked"
        pure (depositLike s (.mintTo a rc pay pk) rc none pk)
      | some "mint_for" => do
        let a ← natKv ws "caller"; let id ← natKv ws "id"; let rc ← natKv ws "rcpt"; let pay ← natKv ws "pay"
        pure (depositLike s (.mintFor a id rc pay) rc none (some id))
      | some "set_start" => do
        let a ← natKv ws "caller"; let t ← natKv ws "t"
        match step s (.setStart a t) with
        | .ok s' => pure (s', s!"ok start={s'.start}")
        | .error _ => pure (s, s!"err start={s.start}")
      | some "set_limit" => do
        let a ← natKv ws "caller"; let n ← natKv ws "limit"
        match step s (.setLimit a n) with
        | .ok s' => pure (s', s!"ok limit={s'.perAddressLimit}")
        | .error _ => pure (s, s!"err limit={s.perAddressLimit}")
      | some "purge" => do
        let a ← natKv ws "caller"
        match step s (.purge a) with
        | .ok s' => pure (s', s!"ok left={s'.mintable.length}")
        | .error _ => pure (s, s!"err left={s.mintable.length}")
      | some "burn_remaining" => do
        let a ← natKv ws "caller"
        match step s (.burnRemaining a) with
        | .ok s' => pure (s', s!"ok left={s'.mintable.length}")
        | .error _ => pure (s, s!"err left={s.mintable.length}")
      | some "obs" => do
        let us ← natListKv ws "users"; let mx ← natKv ws "maxid"
        pure (s, obsLine s us mx)
      | _ => none
    match r with
    | some (s', o) => (some s', o)
    | none => (some s, "bad-op")

def main : IO Unit := runDriverRaw (none : Option State) c17Step
