import LaunchpadModel.Model.Migrate
import LaunchpadModel.Model.Proto
import LaunchpadModel.Generated.Constants
/-!
Driver for C20 (migrations). One output line per input line.

* `case c=<contract> … <state fields>` — selects the `Spec` of the contract (kind, `CONTRACT_NAME`, crate version,
  all from `Generated/Constants.lean`) and sets the abstract storage from the witness fields. Answer: `case`.
* `mig t=<ns> name=<str|*|-> ver=<str|~> msg=<0|1> [update fields]` — optionally rewrite the cw2 record
  (`*` keep, `-` delete; version `~` = empty string), then run `LP.Mig.migrate`.
  Answer: `err` or `ok <state fields> ch=<changed storage keys> ## params=<all 13 parameters>`.
  PROJECTION: in the primary part the parameters *supplied* by the line's update message are masked (`*`): C20 only
  constrains the parameters that were NOT supplied (they must keep their value); what a supplied parameter becomes is
  governance-update semantics (C18) and is compared behind ` ## ` only (DRIFT, never a failure).
* any other line (`act …`, `put …`, `sync`) — an environment step performed on the real contract; the line carries the
  resulting state fields, the model adopts them. Answer: `ok`. (`sync` is available to re-synchronise by hand; it is not
  needed: an accepted message-carrying `mig` line carries the witness `rp=<the implementation's parameters afterwards>`, from
  which the model adopts the SUPPLIED parameters only, so a drift there does not leak into later primary comparisons.)

Case header witnesses for sg721-updatable (read by the harness from the contract's source, where the constants are
private): `acc=<names>` = `COMPATIBLE_CONTRACT_NAMES_FOR_MIGRATION`, `bn=<names>` = the inline sg721-base names whose
records get the flags initialised. `Spec.accepted` / `Spec.baseNames` are parameters of every theorem, so any value is
covered by the proofs. Absent ⇒ the four / two names of the snapshot.

State fields: `cw2n=<name|-> cw2v=<ver|~> ld=<n|-> fz=<0|1|-> eu=<0|1|-> ru=<n|-> lm=<id|-> own=<-|id:p|-:p> params=<-|…>`.
-/
open LP LP.Proto LP.Mig LP.Semver

def chars (s : String) : List Nat := s.toList.map Char.toNat
def unchars (l : List Nat) : String := String.ofList (l.map Char.ofNat)

def verOfTok (s : String) : List Nat := if s == "~" then [] else chars s
def tokOfVer (l : List Nat) : String := if l.isEmpty then "~" else unchars l

/-- name table: index = `NameId` -/
def baseNames : List String :=
  [ "sg721-base", Gen.sg721_base_CONTRACT_NAME, "sg721-updatable", Gen.sg721_updatable_CONTRACT_NAME ]

def internIn (tbl : List String) (s : String) : List String × Nat :=
  match tbl.idxOf? s with
  | some i => (tbl, i)
  | none => (tbl ++ [s], tbl.length)

structure DSt where
  names : List String
  spec : Spec
  st : St

def emptySt : St :=
  { cw2 := none, lastDiscount := none, frozenMeta := none, enableUpd := none, royaltyAt := none,
    legacyMinter := none, ownership := none, params := none, other := [] }

def parseOr0 (s : String) : Version := (parse (chars s)).getD ⟨0, 0, 0⟩

/-- contract key ↦ (kind, CONTRACT_NAME, crate version) -/
def specTable : List (String × Kind × String × (Nat × Nat × Nat)) :=
  [ ("base-factory", .factory .base, Gen.base_factory_CONTRACT_NAME, Gen.base_factory_CRATE_VERSION_TRIPLE),
    ("vending-factory", .factory .vending, Gen.vending_factory_CONTRACT_NAME, Gen.vending_factory_CRATE_VERSION_TRIPLE),
    ("open-edition-factory", .factory .openEdition, Gen.open_edition_factory_CONTRACT_NAME, Gen.open_edition_factory_CRATE_VERSION_TRIPLE),
    ("token-merge-factory", .factory .tokenMerge, Gen.token_merge_factory_CONTRACT_NAME, Gen.token_merge_factory_CRATE_VERSION_TRIPLE),
    ("vending-minter", .vending, Gen.vending_minter_CONTRACT_NAME, Gen.vending_minter_CRATE_VERSION_TRIPLE),
    ("vending-minter-featured", .vending, Gen.vending_minter_featured_CONTRACT_NAME, Gen.vending_minter_featured_CRATE_VERSION_TRIPLE),
    ("vending-minter-wl-flex", .vending, Gen.vending_minter_wl_flex_CONTRACT_NAME, Gen.vending_minter_wl_flex_CRATE_VERSION_TRIPLE),
    ("vending-minter-wl-flex-featured", .vending, Gen.vending_minter_wl_flex_featured_CONTRACT_NAME, Gen.vending_minter_wl_flex_featured_CRATE_VERSION_TRIPLE),
    ("vending-minter-merkle-wl", .vending, Gen.vending_minter_merkle_wl_CONTRACT_NAME, Gen.vending_minter_merkle_wl_CRATE_VERSION_TRIPLE),
    ("vending-minter-merkle-wl-featured", .vending, Gen.vending_minter_merkle_wl_featured_CONTRACT_NAME, Gen.vending_minter_merkle_wl_featured_CRATE_VERSION_TRIPLE),
    ("open-edition-minter", .plain, Gen.open_edition_minter_CONTRACT_NAME, Gen.open_edition_minter_CRATE_VERSION_TRIPLE),
    ("open-edition-minter-wl-flex", .plain, Gen.open_edition_minter_wl_flex_CONTRACT_NAME, Gen.open_edition_minter_wl_flex_CRATE_VERSION_TRIPLE),
    ("open-edition-minter-merkle-wl", .plain, Gen.open_edition_minter_merkle_wl_CONTRACT_NAME, Gen.open_edition_minter_merkle_wl_CRATE_VERSION_TRIPLE),
    ("token-merge-minter", .plain, Gen.token_merge_minter_CONTRACT_NAME, Gen.token_merge_minter_CRATE_VERSION_TRIPLE),
    ("sg-splits", .plain, Gen.sg_splits_CONTRACT_NAME, Gen.sg_splits_CRATE_VERSION_TRIPLE),
    ("whitelist-merkletree", .plain, Gen.whitelist_mtree_CONTRACT_NAME, Gen.whitelist_mtree_CRATE_VERSION_TRIPLE),
    ("tiered-whitelist-merkletree", .plain, Gen.tiered_whitelist_merkletree_CONTRACT_NAME, Gen.tiered_whitelist_merkletree_CRATE_VERSION_TRIPLE),
    ("sg721-updatable", .updatable, Gen.sg721_updatable_CONTRACT_NAME, Gen.sg721_updatable_CRATE_VERSION_TRIPLE),
    ("sg721-metadata-onchain", .metaOnchain, Gen.sg721_metadata_onchain_CONTRACT_NAME, Gen.sg721_metadata_onchain_CRATE_VERSION_TRIPLE),
    ("sg721-nt", .nt, Gen.sg721_nt_CONTRACT_NAME, Gen.sg721_nt_CRATE_VERSION_TRIPLE),
    ("sg721-base", .base721, Gen.sg721_base_CONTRACT_NAME, Gen.sg721_base_CRATE_VERSION_TRIPLE) ]

def internAll (tbl : List String) (xs : List String) : List String × List Nat :=
  xs.foldl (fun (acc : List String × List Nat) x => let (t, i) := internIn acc.1 x; (t, acc.2 ++ [i])) (tbl, [])

def nameList? (s : Option String) : Option (List String) :=
  s.map fun v => if v == "-" then [] else v.splitOn ","

def mkSpec (names : List String) (key : String) (acc bn : Option (List String)) : Option (List String × Spec) :=
  match specTable.find? (·.1 == key) with
  | none => none
  | some (_, kind, cname, triple) =>
    let (names, own) := internIn names cname
    let code := ofTriple triple
    match kind with
    | .updatable =>
      -- COMPATIBLE_CONTRACT_NAMES_FOR_MIGRATION and the inline base-name array are private / not extracted: the
      -- harness reads them from the source and passes them in the header (default: the snapshot's values)
      let (names, accepted) := match acc with | some l => internAll names l | none => (names, [0, 1, 2, 3])
      let (names, baseNs) := match bn with | some l => internAll names l | none => (names, [0, 1])
      some (names, { kind, own, code, accepted := accepted, baseNames := baseNs,
                     earliest := parseOr0 Gen.sg721_updatable_EARLIEST_COMPATIBLE_VERSION })
    | .metaOnchain =>
      some (names, { kind, own, code, earliest := parseOr0 Gen.sg721_metadata_onchain_EARLIEST_VERSION,
                     toVer := chars Gen.sg721_metadata_onchain_TO_VERSION })
    | .nt =>
      some (names, { kind, own, code, earliestStr := chars Gen.sg721_nt_EARLIEST_VERSION,
                     toVer := chars Gen.sg721_nt_TO_VERSION })
    | _ => some (names, { kind, own, code })

/-! ## parsing / rendering of the state fields -/

def coin? (s : String) : Option Coin :=
  match s.splitOn ":" with
  | [d, a] => do let d ← nat? d; let a ← nat? a; pure ⟨d, a⟩
  | _ => none

def renderCoin (c : Coin) : String := s!"{c.denom}:{c.amount}"

def params? (s : String) : Option (Option FParams) :=
  if s == "-" then some none else
  match s.splitOn ";" with
  | [cid, ids, fr, cf, mmp, bps, off, mtl, mpa, ap, abps, sf, dev] => do
    let p : FParams := {
      codeId := ← nat? cid, ids := ← natList? ids, frozen := (← nat? fr) != 0,
      creationFee := ← coin? cf, minMintPrice := ← coin? mmp, mintFeeBps := ← nat? bps, offset := ← nat? off,
      maxTokenLimit := ← nat? mtl, maxPerAddr := ← nat? mpa, airdropPrice := ← coin? ap, airdropBps := ← nat? abps,
      shuffleFee := ← coin? sf, devFeeAddr := ← nat? dev }
    pure (some p)
  | _ => none

def paramFields (p : FParams) : List String :=
  [toString p.codeId, renderNats p.ids, (if p.frozen then "1" else "0"), renderCoin p.creationFee,
   renderCoin p.minMintPrice, toString p.mintFeeBps, toString p.offset, toString p.maxTokenLimit, toString p.maxPerAddr,
   renderCoin p.airdropPrice, toString p.airdropBps, renderCoin p.shuffleFee, toString p.devFeeAddr]

/-- the 13 parameters; those whose index is in `mask` (supplied by the update message) are printed as `*` -/
def renderParamsMasked (p : Option FParams) (mask : List Nat) : String :=
  match p with
  | none => "-"
  | some p =>
    let fs := paramFields p
    String.intercalate ";" ((List.range fs.length).map fun i => if mask.contains i then "*" else fs.getD i "?")

def renderParams (p : Option FParams) : String := renderParamsMasked p []

/-- which of the 13 parameters the update message of a `mig` line supplies (same table as `supplied_idx` in c20.rs) -/
def suppliedIdx (ws : List String) : List Nat :=
  let has (k : String) : Bool := match kv ws k with | some "x" => false | some _ => true | none => false
  if kv ws "msg" != some "1" then [] else
  (if has "code_id" then [0] else []) ++ (if has "add" || has "rm" then [1] else []) ++ (if has "frozen" then [2] else []) ++
  (if has "cf" then [3] else []) ++ (if has "mmp" then [4] else []) ++ (if has "bps" then [5] else []) ++
  (if has "off" then [6] else []) ++ (if has "mtl" then [7] else []) ++ (if has "mpa" then [8] else []) ++
  (if has "ap" then [9] else []) ++ (if has "abps" then [10] else []) ++ (if has "sf" then [11] else []) ++
  (if has "dev" then [12] else [])

def optBool? (s : String) : Option (Option Bool) :=
  if s == "-" then some none else if s == "1" then some (some true) else if s == "0" then some (some false) else none

def renderOptBool (b : Option Bool) : String :=
  match b with | none => "-" | some true => "1" | some false => "0"

def own? (s : String) : Option (Option Own) :=
  if s == "-" then some none else
  match s.splitOn ":" with
  | [o, p] =>
    let owner : Option (Option Nat) := if o == "-" then some none else (nat? o).map some
    owner.map fun ow => some ⟨ow, p == "1"⟩
  | _ => none

def renderOwn (o : Option Own) : String :=
  match o with
  | none => "-"
  | some o => s!"{renderOpt o.owner}:{if o.pending then "1" else "0"}"

/-- adopt every state field present on the line -/
def readState (d : DSt) (ws : List String) : DSt :=
  let (names, cw2) : List String × Option Cw2 :=
    match kv ws "cw2n" with
    | none => (d.names, d.st.cw2)
    | some "-" => (d.names, none)
    | some n =>
      let (names, id) := internIn d.names (if n == "~" then "" else n)
      (names, some ⟨id, verOfTok ((kv ws "cw2v").getD "~")⟩)
  let s := d.st
  let s : St := { s with
    cw2 := cw2,
    lastDiscount := ((kv ws "ld").bind fun v => if v == "-" then some none else (nat? v).map some).getD s.lastDiscount,
    frozenMeta := ((kv ws "fz").bind optBool?).getD s.frozenMeta,
    enableUpd := ((kv ws "eu").bind optBool?).getD s.enableUpd,
    royaltyAt := ((kv ws "ru").bind fun v => if v == "-" then some none else (nat? v).map some).getD s.royaltyAt,
    legacyMinter := ((kv ws "lm").bind fun v => if v == "-" then some none else (nat? v).map some).getD s.legacyMinter,
    ownership := ((kv ws "own").bind own?).getD s.ownership,
    params := ((kv ws "params").bind params?).getD s.params }
  { d with names := names, st := s }

def renderStateMasked (names : List String) (s : St) (mask : List Nat) : String :=
  let cw2 := match s.cw2 with
    | none => "cw2n=- cw2v=~"
    | some c =>
      let n := names.getD c.name "?"
      s!"cw2n={if n.isEmpty then "~" else n} cw2v={tokOfVer c.ver}"
  s!"{cw2} ld={renderOpt s.lastDiscount} fz={renderOptBool s.frozenMeta} eu={renderOptBool s.enableUpd} ru={renderOpt s.royaltyAt} lm={renderOpt s.legacyMinter} own={renderOwn s.ownership} params={renderParamsMasked s.params mask}"

def renderState (names : List String) (s : St) : String := renderStateMasked names s []

def keyName (k : Nat) : String :=
  if k == K_CW2 then "contract_info"
  else if k == K_LAST_DISCOUNT then "last_discount_time"
  else if k == K_FROZEN_META then "frozen_token_metadata"
  else if k == K_ENABLE_UPD then "enable_updatable"
  else if k == K_ROYALTY_AT then "royalty_updated_at"
  else if k == K_LEGACY_MINTER then "minter"
  else if k == K_OWNERSHIP then "ownership"
  else "sudo-params"

def insertSorted (x : String) : List String → List String
  | [] => [x]
  | y :: ys => if x < y then x :: y :: ys else y :: insertSorted x ys

/-- `dropParams`: on a message-carrying factory migration whether `sudo-params` changed at all depends on the SUPPLIED values
(outside C20's projection; the unsupplied parameters are compared one by one in `params=`), so the key is reported behind ` ## ` -/
def renderChanged (a b : St) (dropParams : Bool := false) : String :=
  let ks := ((changedKeys a b).filter fun k => !(dropParams && k == K_PARAMS)).map keyName
  let ks := ks.foldl (fun acc k => insertSorted k acc) []
  if ks.isEmpty then "-" else String.intercalate "," ks

/-! ## the update message of a factory migration (`x` = not supplied) -/

def optField {α} (ws : List String) (key : String) (f : String → Option α) : Option (Option α) :=
  match kv ws key with
  | none => some none
  | some "x" => some none
  | some v => (f v).map some

def msg? (ws : List String) : Option (Option FMsg) :=
  match kv ws "msg" with
  | some "1" => do
    let m : FMsg := {
      codeId := ← optField ws "code_id" nat?, addIds := ← optField ws "add" natList?, rmIds := ← optField ws "rm" natList?,
      frozen := ← optField ws "frozen" (fun v => (nat? v).map (· != 0)), creationFee := ← optField ws "cf" coin?,
      minMintPrice := ← optField ws "mmp" coin?, mintFeeBps := ← optField ws "bps" nat?, offset := ← optField ws "off" nat?,
      maxTokenLimit := ← optField ws "mtl" nat?, maxPerAddr := ← optField ws "mpa" nat?,
      airdropPrice := ← optField ws "ap" coin?, airdropBps := ← optField ws "abps" nat?,
      shuffleFee := ← optField ws "sf" coin?, devFeeAddr := ← optField ws "dev" nat? }
    pure (some m)
  | _ => some none

/-- the parameters whose index is in `mask` (supplied by the message; outside C20's projection) are taken from the
implementation's witness `w`, all others stay as the model computed them -/
def adoptSupplied (p w : FParams) (mask : List Nat) : FParams :=
  let c (i : Nat) : Bool := mask.contains i
  { codeId := if c 0 then w.codeId else p.codeId, ids := if c 1 then w.ids else p.ids,
    frozen := if c 2 then w.frozen else p.frozen, creationFee := if c 3 then w.creationFee else p.creationFee,
    minMintPrice := if c 4 then w.minMintPrice else p.minMintPrice, mintFeeBps := if c 5 then w.mintFeeBps else p.mintFeeBps,
    offset := if c 6 then w.offset else p.offset, maxTokenLimit := if c 7 then w.maxTokenLimit else p.maxTokenLimit,
    maxPerAddr := if c 8 then w.maxPerAddr else p.maxPerAddr, airdropPrice := if c 9 then w.airdropPrice else p.airdropPrice,
    airdropBps := if c 10 then w.airdropBps else p.airdropBps, shuffleFee := if c 11 then w.shuffleFee else p.shuffleFee,
    devFeeAddr := if c 12 then w.devFeeAddr else p.devFeeAddr }

def stepLine (d : DSt) (line : String) : DSt × String :=
  let ws := words line
  match ws.head? with
  | some "case" =>
    let names := baseNames
    match (kv ws "c").bind (fun c => mkSpec names c (nameList? (kv ws "acc")) (nameList? (kv ws "bn"))) with
    | none => (d, "bad-case")
    | some (names, sp) =>
      (readState { names, spec := sp, st := emptySt } ws, "case")
  | some "mig" =>
    let r : Option (DSt × String) := do
      let t ← natKv ws "t"
      let msg ← msg? ws
      -- optional rewrite of the cw2 record before the call
      let d1 : DSt :=
        match kv ws "name" with
        | none => d
        | some "*" => d
        | some "-" => { d with st := { d.st with cw2 := none } }
        | some n =>
          let (names, id) := internIn d.names (if n == "~" then "" else n)
          { d with names := names, st := { d.st with cw2 := some ⟨id, verOfTok ((kv ws "ver").getD "~")⟩ } }
      match migrate d1.spec t msg d1.st with
      | .error _ => pure (d1, "err")
      | .ok s' =>
        let hasMsg := match d1.spec.kind with | .factory _ => msg.isSome | _ => false
        let mask := suppliedIdx ws
        -- witness `rp=`: the implementation's parameters after the migration; only the SUPPLIED ones are adopted (for the
        -- following steps), the printed line below still shows what the model computed
        let next : St := match s'.params, (kv ws "rp").bind params? with
          | some p, some (some w) => { s' with params := some (adoptSupplied p w mask) }
          | _, _ => s'
        pure ({ d1 with st := next },
          s!"ok {renderStateMasked d1.names s' (suppliedIdx ws)} ch={renderChanged d1.st s' hasMsg} ## params={renderParams s'.params} pch={if (changedKeys d1.st s').contains K_PARAMS then "1" else "0"}")
    r.getD (d, "bad-op")
  | some _ => (readState d ws, "ok")
  | none => (d, "bad-op")

def main : IO Unit :=
  runDriverRaw ({ names := baseNames, spec := { kind := .plain, own := 0, code := ⟨0, 0, 0⟩ }, st := emptySt } : DSt) stepLine
