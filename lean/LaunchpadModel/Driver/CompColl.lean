import LaunchpadModel.Model.CollectionFull
import LaunchpadModel.Model.Proto
/-!
Driver for the composite model of the SG-721 collection family (`LP.CF`). One output line per input line; every answer
to an op is `<case|blk|fund|ok|err|env|bad-op> <obs>` where `<obs>` is the COMPLETE observable state, and every answer
to a query line is `q ok <answer>` / `q err` (see `docs/COMPOSITE_COLLECTION.md`, section 3).

* `case accts=<a,b,…> h=<n> t=<ns>`
* `block h= t=` · `fund a= d= amt=`
* `inst kind=<base|nt|updatable|onchain> s= funds= nm= sym= minter= creator= desc=<id:len> image=<id> ext=<id|-> ec=<-|0|1>
   stt=<n|-> roy=<pay:share|->` + witnesses `iv= ev=` (`Url::parse`) `self=<address the chain allocated>`
* messages (`s=<sender> funds=<d:a,…|->`): `transfer to= id=` · `send to= id= payload=` + `recv=<0|1>` · `approve sp= id= exp=` ·
  `revoke sp= id=` · `approve_all op= exp=` · `revoke_all op=` · `mint id= owner= uri= ext=` · `burn id=` · `extension` ·
  `uci desc=<id:len|-> image=<id|-> ext=<id|-> ec=<-|0|1> roy=<pay:share|-> creator=<a|->` + `iv= ev=` ·
  `ustt t=<n|->` · `freeze` · `own_transfer to= exp=` · `own_accept` · `own_renounce` · `freeze_meta` · `utm id= uri=` · `enable`
* `raw v=<variant> …`  a message variant the model does not know: refused, nothing changes
* `migrate_upd` · `migrate_self` · `setver v=<a.b.c>` · `setlegacy a=<id|->`
* queries: `q_owner_of id= ie=` · `q_approval id= sp= ie=` · `q_approvals id= ie=` · `q_operators owner= ie= after= limit=` ·
  `q_nft_info id=` · `q_all_nft_info id= ie=` · `q_tokens owner= after= limit=` · `q_all_tokens after= limit=` · `q_upd` · `q_ownership` ·
  `q_payout pay= fee= fin=<n|->`
-/
open LP LP.Proto LP.CF
open LP.Sg721 (Kind Block Exp Approval Token Royalty Desc Url Info Ownership Operator Action InstMsg)

structure Drv where
  s : State
  accts : List Nat

def parseKind (s : String) : Option Kind :=
  match s with
  | "base" => some .base
  | "nt" => some .nt
  | "updatable" => some .updatable
  | "onchain" => some .onchain
  | _ => none

def kindStr : Kind → String
  | .base => "base" | .nt => "nt" | .updatable => "updatable" | .onchain => "onchain"

/-- `-` (None) | `n` | `h<N>` | `t<N>` -/
def parseOptExp (s : String) : Option (Option Exp) :=
  if s == "-" then some none
  else if s == "n" then some (some .never)
  else if s.startsWith "h" then (nat? (s.drop 1).toString).map fun n => some (.atHeight n)
  else if s.startsWith "t" then (nat? (s.drop 1).toString).map fun n => some (.atTime n)
  else none

def expStr : Exp → String
  | .never => "n"
  | .atHeight h => s!"h{h}"
  | .atTime t => s!"t{t}"

def coinsOf (l : List (Nat × Nat)) : List Coin := l.map fun (d, a) => ⟨d, a⟩

def pair? (s : String) : Option (Nat × Nat) :=
  match s.splitOn ":" with
  | [a, b] => do let x ← nat? a; let y ← nat? b; pure (x, y)
  | _ => none

def joinOr (sep : String) (l : List String) : String := if l.isEmpty then "-" else String.intercalate sep l

def b01 (b : Bool) : String := if b then "1" else "0"

def renderOptBool : Option Bool → String
  | none => "-" | some true => "1" | some false => "0"

def verStr (v : Semver.Version) : String := s!"{v.major}.{v.minor}.{v.patch}"

def natLt (a b : Nat) : Bool := decide (a < b)

def renderApprovals (l : List Approval) : String :=
  joinOr "+" ((sortBy (fun (a b : Approval) => natLt a.spender b.spender) l).map fun a => s!"{a.spender}@{expStr a.expires}")

def renderSpenders (l : List Approval) : String :=
  joinOr "+" ((sortBy natLt (l.map (·.spender))).map toString)

/-- `<id>/<owner>/<uri>/<ext>/<all approvals>/<spenders whose approval has not expired in the current block>` -/
def renderToken (b : Block) (t : Token) : String :=
  s!"{t.id}/{t.owner}/{renderOpt t.uri}/{t.ext}/{renderApprovals t.approvals}/{renderSpenders (liveApprovals t b false)}"

def renderColl (b : Block) (c : Coll) : String :=
  let s := c.core
  let o := s.ownership
  let own := s!"{renderOpt o.owner}/{renderOpt o.pending}/{match o.pendingExpiry with | some e => expStr e | none => "-"}"
  let i := s.info
  let roy := match i.royalty with | some r => s!"{r.payment}:{r.share}" | none => "-"
  let ext := match i.externalLink with | some u => toString u.id | none => "-"
  let toks := joinOr ";" ((sortBy (fun (x y : Token) => natLt x.id y.id) s.tokens).map (renderToken b))
  let ops := joinOr "," ((sortBy (fun (x y : Operator) => natLt (x.owner * 1000000 + x.operator) (y.owner * 1000000 + y.operator))
    s.operators).map fun x => s!"{x.owner}>{x.operator}@{expStr x.expires}/{b01 (!x.expires.isExpired b)}")
  let upd := decide (s.kind = .updatable)
  s!"C={c.self} k={kindStr s.kind} v={verStr s.ver} nm={c.name}/{c.symbol} own={own} leg={renderOpt c.legacy} " ++
  s!"fz={b01 s.frozenInfo} rua={s.royaltyUpdatedAt} cr={i.creator} desc={i.description.id}:{i.description.len} img={i.image.id} " ++
  s!"ext={ext} ec={renderOptBool i.explicitContent} stt={renderOpt i.startTradingTime} roy={roy} n={s.count} toks={toks} " ++
  s!"ops={ops} fm={b01 (upd && s.frozenMeta)} ue={b01 (upd && s.updEnabled)}"

def obs (d : Drv) : String :=
  let s := d.s
  let c := match s.coll with | some c => renderColl s.block c | none => "C=-"
  let bal := String.intercalate "," (d.accts.map fun a => s!"{a}:{s.bank.bal a 0}:{s.bank.bal a 1}")
  s!"B={s.block.height}/{s.block.time} {c} bal={bal} sup={s.bank.supply 0}:{s.bank.supply 1}"

def optBoolKv (ws : List String) (key : String) : Option (Option Bool) :=
  match kv ws key with
  | some "-" => some none
  | some "1" => some (some true)
  | some "0" => some (some false)
  | _ => none

def optRoyKv (ws : List String) : Option (Option Royalty) :=
  match kv ws "roy" with
  | some "-" => some none
  | some v => (pair? v).map fun (p, sh) => some (⟨p, sh⟩ : Royalty)
  | none => none

def parseInst (ws : List String) : Option (Kind × Addr × List Coin × Nat × Nat × InstMsg × Addr) := do
  let k ← (kv ws "kind").bind parseKind
  let s ← natKv ws "s"
  let fu ← pairListKv ws "funds"
  let nm ← natKv ws "nm"
  let sym ← natKv ws "sym"
  let minter ← natKv ws "minter"
  let creator ← natKv ws "creator"
  let (did, dlen) ← (kv ws "desc").bind pair?
  let img ← natKv ws "image"
  let iv ← boolKv ws "iv"
  let ev ← boolKv ws "ev"
  let ext ← optNatKv ws "ext"
  let ec ← optBoolKv ws "ec"
  let stt ← optNatKv ws "stt"
  let roy ← optRoyKv ws
  let self ← natKv ws "self"
  pure (k, s, coinsOf fu, nm, sym, ⟨minter, ⟨creator, ⟨did, dlen⟩, ⟨img, iv⟩, ext.map (fun e => ⟨e, ev⟩), ec, stt, roy⟩⟩, self)

def parseUpdate (ws : List String) : Option UpdateInfo := do
  let iv ← boolKv ws "iv"
  let ev ← boolKv ws "ev"
  let desc ← match kv ws "desc" with
    | some "-" => some none
    | some v => (pair? v).map fun (a, b) => some (⟨a, b⟩ : Desc)
    | none => none
  let image ← (optNatKv ws "image").map fun o => o.map fun i => (⟨i, iv⟩ : Url)
  let ext ← (optNatKv ws "ext").map fun o => o.map fun i => (⟨i, ev⟩ : Url)
  let ec ← optBoolKv ws "ec"
  let roy ← optRoyKv ws
  let creator ← optNatKv ws "creator"
  pure ⟨desc, image, ext, ec, roy, creator⟩

def parseMsg (ws : List String) : Option ExecMsg :=
  match ws.head? with
  | some "transfer" => do pure (.transferNft (← natKv ws "to") (← natKv ws "id"))
  | some "send" => do pure (.sendNft (← natKv ws "to") (← natKv ws "id") (← boolKv ws "recv"))
  | some "approve" => do pure (.approve (← natKv ws "sp") (← natKv ws "id") (← (kv ws "exp").bind parseOptExp))
  | some "revoke" => do pure (.revoke (← natKv ws "sp") (← natKv ws "id"))
  | some "approve_all" => do pure (.approveAll (← natKv ws "op") (← (kv ws "exp").bind parseOptExp))
  | some "revoke_all" => do pure (.revokeAll (← natKv ws "op"))
  | some "mint" => do pure (.mint (← natKv ws "id") (← natKv ws "owner") (← optNatKv ws "uri") (← natKv ws "ext"))
  | some "burn" => do pure (.burn (← natKv ws "id"))
  | some "extension" => some .extension
  | some "uci" => do pure (.updateCollectionInfo (← parseUpdate ws))
  | some "ustt" => do pure (.updateStartTradingTime (← optNatKv ws "t"))
  | some "freeze" => some .freezeCollectionInfo
  | some "own_transfer" => do pure (.updateOwnership (.transfer (← natKv ws "to") (← (kv ws "exp").bind parseOptExp)))
  | some "own_accept" => some (.updateOwnership .accept)
  | some "own_renounce" => some (.updateOwnership .renounce)
  | some "freeze_meta" => some .freezeTokenMetadata
  | some "utm" => do pure (.updateTokenMetadata (← natKv ws "id") (← optNatKv ws "uri"))
  | some "enable" => some .enableUpdatable
  | _ => none

def parseVer (str : String) : Option Semver.Version :=
  match str.splitOn "." with
  | [a, b, c] => do pure ⟨← nat? a, ← nat? b, ← nat? c⟩
  | _ => none

def runOp (d : Drv) (op : Op) (okTag : String := "ok") : Drv × String :=
  match step d.s op with
  | .ok s' => let d' := { d with s := s' }; (d', s!"{okTag} {obs d'}")
  | .error _ => (d, s!"err {obs d}")

def qAns {α : Type} (r : Except Err α) (f : α → String) : String :=
  match r with
  | .ok a => "q ok " ++ f a
  | .error _ => "q err"

def renderAccess (x : Addr × List Approval) : String := s!"{x.1}/{renderApprovals x.2}"
def renderNft (x : Option Nat × Nat) : String := s!"{renderOpt x.1}/{x.2}"

def runQuery (d : Drv) (ws : List String) : Option String :=
  match d.s.coll with
  | none => some "q err"
  | some c =>
    let b := d.s.block
    match ws.head? with
    | some "q_owner_of" => do
      pure (qAns (qOwnerOf c b (← natKv ws "id") (← boolKv ws "ie")) renderAccess)
    | some "q_approval" => do
      pure (qAns (qApproval c b (← natKv ws "id") (← natKv ws "sp") (← boolKv ws "ie")) fun a => s!"{a.spender}@{expStr a.expires}")
    | some "q_approvals" => do
      pure (qAns (qApprovals c b (← natKv ws "id") (← boolKv ws "ie")) renderApprovals)
    | some "q_operators" => do
      pure (qAns (qAllOperators c b (← natKv ws "owner") (← boolKv ws "ie") (← optNatKv ws "after") (← optNatKv ws "limit"))
        fun l => joinOr "," (l.map fun (a, e) => s!"{a}@{expStr e}"))
    | some "q_nft_info" => do pure (qAns (qNftInfo c (← natKv ws "id")) renderNft)
    | some "q_all_nft_info" => do
      pure (qAns (qAllNftInfo c b (← natKv ws "id") (← boolKv ws "ie")) fun x => s!"{renderAccess x.1}/{renderNft x.2}")
    | some "q_tokens" => do
      pure (qAns (qTokens c (← natKv ws "owner") (← optNatKv ws "after") (← optNatKv ws "limit")) renderNats)
    | some "q_all_tokens" => do
      pure ("q ok " ++ renderNats (qAllTokens c (← optNatKv ws "after") (← optNatKv ws "limit")))
    | some "q_ownership" =>
      some (qAns (qOwnership c) fun o =>
        s!"{renderOpt o.owner}/{renderOpt o.pending}/{match o.pendingExpiry with | some e => expStr e | none => "-"}")
    | some "q_upd" =>
      match qEnableUpdatable c, qFrozenTokenMetadata c, qEnableUpdatableFee c with
      | .ok e, .ok f, .ok fee => some s!"q ok e={b01 e} f={b01 f} fee={fee}"
      | _, _, _ => some "q err"
    | some "q_payout" => do
      pure (qAns (royaltyPayout c (← natKv ws "pay") (← natKv ws "fee") (← optNatKv ws "fin")) fun (r, ms) => s!"{r} {renderMsgs ms}")
    | _ => none

def ccStep (d : Drv) (line : String) : Drv × String :=
  let ws := words line
  match ws.head? with
  | some "case" =>
    let h := (natKv ws "h").getD 1
    let t := (natKv ws "t").getD 1
    ({ s := State.init ⟨h, t⟩, accts := (natListKv ws "accts").getD [] }, "case")
  | some "block" =>
    match natKv ws "h", natKv ws "t" with
    | some h, some t => runOp d (.block ⟨h, t⟩) "blk"
    | _, _ => (d, "bad-op")
  | some "fund" =>
    match natKv ws "a", natKv ws "d", natKv ws "amt" with
    | some a, some dn, some amt => runOp d (.fund a ⟨dn, amt⟩) "fund"
    | _, _, _ => (d, "bad-op")
  | some "inst" =>
    match parseInst ws with
    | some (k, s, fu, nm, sym, m, self) => runOp d (.instantiate k s fu nm sym m self)
    | none => (d, "bad-op")
  | some "migrate_upd" => runOp d .migrateUpdatable
  | some "migrate_self" => runOp d .migrateSelf
  | some "setver" =>
    match (kv ws "v").bind parseVer with
    | some v => runOp d (.setVersion v) "env"
    | none => (d, "bad-op")
  | some "setlegacy" =>
    match optNatKv ws "a" with
    | some a => runOp d (.setLegacy a) "env"
    | none => (d, "bad-op")
  | some "raw" => (d, s!"err {obs d}")
  | some w =>
    if w.startsWith "q_" then
      (d, (runQuery d ws).getD "bad-op")
    else
      match parseMsg ws, natKv ws "s", pairListKv ws "funds" with
      | some m, some sender, some fu => runOp d (.exec sender (coinsOf fu) m)
      | _, _, _ => (d, "bad-op")
  | none => (d, "bad-op")

def main : IO Unit := runDriverRaw ({ s := State.init ⟨1, 1⟩, accts := [] } : Drv) ccStep
