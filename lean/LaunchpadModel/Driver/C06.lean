import LaunchpadModel.Model.Sg1
import LaunchpadModel.Model.Proto
import LaunchpadModel.Model.Protobuf
/-!
Driver for C06. Lines (one output line per input line):

* `fair_burn sender=<a> fee=<n> dev=<a|->`
* `checked funds=<d:a,…|-> self=<a> fee=<n> dev=<a|->`
* `dist denom=<d> fee=<n> featured=<0|1> dev=<a|->`
* `ibc denom=<d> fee=<n> dev=<a|->`
* `dao funds=<…> fee=<n> denom=<d>`
* `mintfee kind=<0..8> price=<n> bps=<n> dev=<a>` — integration: one public mint on a real minter of that kind
* `createfee fk=<0..3> fd=<0|1> md=<0|1> fee=<n> pay=<n> factory=<a>` — integration: CreateMinter on a real factory (creation fee in denom fd, minimum price in denom md)
* `wlfee kind=<0..3> ml=<n> nml=<n> wl=<a>` — integration: whitelist creation fee and IncreaseMemberLimit fee (exact payments)
* `shufflefee kind=<0..5> fee=<n> pay=<n> minter=<a>` — integration: Shuffle paying `pay` on a factory whose shuffle fee is `fee`
* `pb via=<fb|checked> sender=<hex|-> fee=<n>` — the Stargate message of `fair_burn(sender, fee, None)` (via=fb) or of
  `checked_fair_burn` with `env.contract.address = sender` and an exact payment (via=checked): `ok url=<type_url> hex=<bytes> dec=<s>:<d>:<a>`
  (the model's `Pb.encodeFundFairburnPool` bytes, and what the model's decoder reads back from them), `ok none` when no Stargate message
* `pbenc sender=<hex|-> denom=<hex|-> amount=<hex|->` — encoder level (any denom / amount string): `ok hex=<bytes|-> dec=…`

Output: `ok <msgs>` or `err`.
-/
open LP LP.Proto

def coinsOf (l : List (Nat × Nat)) : List Coin := l.map fun (d, a) => ⟨d, a⟩

def hexDigit (n : Nat) : Char := if n < 10 then Char.ofNat (48 + n) else Char.ofNat (87 + n)
def toHex (bs : List Nat) : String :=
  if bs.isEmpty then "-" else String.ofList (bs.flatMap fun b => [hexDigit (b / 16), hexDigit (b % 16)])
def hexVal (c : Char) : Option Nat :=
  let n := c.toNat
  if 48 ≤ n && n ≤ 57 then some (n - 48) else if 97 ≤ n && n ≤ 102 then some (n - 87) else none
def fromHexChars : List Char → Option (List Nat)
  | [] => some []
  | [_] => none
  | h :: l :: rest => do let a ← hexVal h; let b ← hexVal l; let r ← fromHexChars rest; pure ((a * 16 + b) :: r)
def fromHex (s : String) : Option (List Nat) := if s == "-" then some [] else fromHexChars s.toList
def hexKv (ws : List String) (key : String) : Option (List Nat) := (kv ws key).bind fromHex

/-- what the model's decoder reads back: `<sender>:<denom>:<amount>` per coin, `<sender>:none` without a coin, `undecodable` -/
def renderDecoded (bs : List Nat) : String :=
  match Pb.decodeFundFairburnPool bs with
  | none => "undecodable"
  | some (s, []) => s!"{toHex s}:none"
  | some (s, cs) => ",".intercalate (cs.map fun c => s!"{toHex s}:{toHex c.1}:{toHex c.2}")

def pbTypeUrl : String := "/publicawesome.stargaze.alloc.v1beta1.MsgFundFairburnPool"

def c06Line (line : String) : String :=
  let ws := words line
  let r : Option String :=
    match ws.head? with
    | some "fair_burn" => do
      let s ← natKv ws "sender"; let f ← natKv ws "fee"; let d ← optNatKv ws "dev"
      pure s!"ok {renderMsgs (Sg1.fairBurn s f d)}"
    | some "checked" => do
      let fu ← pairListKv ws "funds"; let s ← natKv ws "self"; let f ← natKv ws "fee"; let d ← optNatKv ws "dev"
      match Sg1.checkedFairBurn (coinsOf fu) s f d with
      | .ok ms => pure s!"ok {renderMsgs ms}"
      | .error _ => pure "err"
    | some "dist" => do
      let dn ← natKv ws "denom"; let f ← natKv ws "fee"; let ft ← boolKv ws "featured"; let d ← optNatKv ws "dev"
      pure s!"ok {renderMsgs (Sg1.distributeMintFees ⟨dn, f⟩ ft d)}"
    | some "ibc" => do
      let dn ← natKv ws "denom"; let f ← natKv ws "fee"; let d ← optNatKv ws "dev"
      pure s!"ok {renderMsgs (Sg1.ibcDenomFairBurn ⟨dn, f⟩ d)}"
    | some "dao" => do
      let fu ← pairListKv ws "funds"; let f ← natKv ws "fee"; let dn ← natKv ws "denom"
      match Sg1.transferFundsToLaunchpadDao (coinsOf fu) f dn with
      | .ok ms => pure s!"ok {renderMsgs ms}"
      | .error _ => pure "err"
    | some "mintfee" => do
      -- one public mint on a real minter of kind k (created through its factory): who received how much of the network fee
      let k ← natKv ws "kind"; let p ← natKv ws "price"; let b ← natKv ws "bps"; let d ← natKv ws "dev"
      let devbad := (boolKv ws "devbad").getD false
      let ms := Sg1.mintFeeMsgs k p b d
      -- a configured developer address that does not validate: `addr_validate(dev_fee_address)?` refuses the mint when a fee is due
      if devbad && Sg1.callerHasDev k && mulFloor p (bps b) != 0 then pure "err"
      else if !Sg1.allNonzero ms then pure "err"
      else pure s!"ok fee={mulFloor p (bps b)} dev={Sg1.sentTo d ms} liq={Sg1.sentTo LIQUIDITY_DAO ms} lp={Sg1.sentTo LAUNCHPAD_DAO ms} burned={Sg1.burnedBy ms} pool={Sg1.sentTo FAIRBURN_POOL ms}"
    | some "shufflefee" => do
      -- Shuffle on a vending-family minter: `checked_fair_burn(shuffle_fee, None)` on behalf of the minter contract
      let f ← natKv ws "fee"; let pay ← natKv ws "pay"; let m ← natKv ws "minter"
      match Sg1.checkedFairBurn (if pay = 0 then [] else [⟨NATIVE, pay⟩]) m f none with
      | .ok ms => if !Sg1.allNonzero ms then pure "err" else
          pure s!"ok burned={Sg1.burnedBy ms} pool={Sg1.sentTo FAIRBURN_POOL ms} dev=0 liq={Sg1.sentTo LIQUIDITY_DAO ms} lp={Sg1.sentTo LAUNCHPAD_DAO ms}"
      | .error _ => pure "err"
    | some "createfee" => do
      -- integration: CreateMinter on a real factory whose creation fee is `fee` of denom `fd`, paying exactly `pay` of that denom
      let fd ← natKv ws "fd"; let f ← natKv ws "fee"; let pay ← natKv ws "pay"; let self ← natKv ws "factory"
      match Sg1.creationFeeMsgs self fd f (if pay = 0 then [] else [⟨fd, pay⟩]) with
      | .ok ms => if !Sg1.allNonzero ms then pure "err" else
          pure s!"ok burned={Sg1.burnedBy ms} pool={Sg1.sentTo FAIRBURN_POOL ms} lp={Sg1.sentTo LAUNCHPAD_DAO ms}"
      | .error _ => pure "err"
    | some "wlfee" => do
      -- integration: a real list whitelist created with member limit `ml` (exact fee), then IncreaseMemberLimit to `nml` (exact fee)
      let k ← natKv ws "kind"; let ml ← natKv ws "ml"; let nml ← natKv ws "nml"; let self ← natKv ws "wl"
      let per := match k with
        | 0 => Gen.sg_whitelist_PRICE_PER_1000_MEMBERS | 1 => Gen.sg_whitelist_flex_PRICE_PER_1000_MEMBERS
        | 2 => Gen.sg_tiered_whitelist_PRICE_PER_1000_MEMBERS | _ => Gen.sg_tiered_whitelist_flex_PRICE_PER_1000_MEMBERS
      let f1 := Sg1.wlCreationFee per ml; let f2 := Sg1.wlUpgradeFee per ml nml
      let m1 := Sg1.wlFeeMsgs self f1; let m2 := Sg1.wlFeeMsgs self f2
      pure s!"ok fee1={f1} burned1={Sg1.burnedBy m1} pool1={Sg1.sentTo FAIRBURN_POOL m1} fee2={f2} burned2={Sg1.burnedBy m2} pool2={Sg1.sentTo FAIRBURN_POOL m2} held=0"
    | some "pb" => do
      -- the Stargate message the REAL `fair_burn` / `checked_fair_burn` builds for the pool, byte for byte
      let via ← kv ws "via"; let sb ← hexKv ws "sender"; let f ← natKv ws "fee"
      let msgs : Option (List Msg) :=
        if via == "fb" then some (Sg1.fairBurn 0 f none)
        else match Sg1.checkedFairBurn (if f = 0 then [] else [⟨NATIVE, f⟩]) 0 f none with
          | .ok ms => some ms
          | .error _ => none
      match msgs with
      | none => pure "err"
      | some ms =>
        match Pb.firstStargate (fun _ => sb) (fun d => if d = NATIVE then Pb.ustars else []) ms with
        | none => pure "ok none"
        | some bs => pure s!"ok url={pbTypeUrl} hex={toHex bs} dec={renderDecoded bs}"
    | some "pbenc" => do
      let sb ← hexKv ws "sender"; let d ← hexKv ws "denom"; let a ← hexKv ws "amount"
      let bs := Pb.encodeFundFairburnPool sb [(d, a)]
      pure s!"ok hex={toHex bs} dec={renderDecoded bs}"
    | _ => none
  r.getD "bad-op"

def main : IO Unit := runDriver () (fun _ l => ((), c06Line l))
