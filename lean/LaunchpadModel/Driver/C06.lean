import LaunchpadModel.Model.Sg1
import LaunchpadModel.Model.Proto
/-!
Driver for C06. Lines (one output line per input line):

* `fair_burn sender=<a> fee=<n> dev=<a|->`
* `checked funds=<d:a,…|-> self=<a> fee=<n> dev=<a|->`
* `dist denom=<d> fee=<n> featured=<0|1> dev=<a|->`
* `ibc denom=<d> fee=<n> dev=<a|->`
* `dao funds=<…> fee=<n> denom=<d>`

Output: `ok <msgs>` or `err`.
-/
open LP LP.Proto

def coinsOf (l : List (Nat × Nat)) : List Coin := l.map fun (d, a) => ⟨d, a⟩

def c06Line (line : String) : String :=
  let ws := words line
  let r : Option String :=
    match ws.head? with
    | some "fair_burn" => do
      let s ← natKv ws "sender"; let f ← natKv ws "fee"; let d ← optNatKv ws "dev"
      pure s!"ok {renderMsgs (Sg1.fairBurn s f d)}"
    | some "checked" => do
      let fu ← pairListKv ws "funds"; let s ← natKv ws "self"; let f ← natKv ws "fee"; let d ← optNatKv ws "dev"
      match Sg1.checkedFairBurn (coinsOf fu) s f d with
      | .ok ms => pure s!"ok {renderMsgs ms}"
      | .error _ => pure "err"
    | some "dist" => do
      let dn ← natKv ws "denom"; let f ← natKv ws "fee"; let ft ← boolKv ws "featured"; let d ← optNatKv ws "dev"
      pure s!"ok {renderMsgs (Sg1.distributeMintFees ⟨dn, f⟩ ft d)}"
    | some "ibc" => do
      let dn ← natKv ws "denom"; let f ← natKv ws "fee"; let d ← optNatKv ws "dev"
      pure s!"ok {renderMsgs (Sg1.ibcDenomFairBurn ⟨dn, f⟩ d)}"
    | some "dao" => do
      let fu ← pairListKv ws "funds"; let f ← natKv ws "fee"; let dn ← natKv ws "denom"
      match Sg1.transferFundsToLaunchpadDao (coinsOf fu) f dn with
      | .ok ms => pure s!"ok {renderMsgs ms}"
      | .error _ => pure "err"
    | _ => none
  r.getD "bad-op"

def main : IO Unit := runDriver () (fun _ l => ((), c06Line l))
