import LaunchpadModel.Model.OpenEditionFull
import LaunchpadModel.Model.Proto
/-!
Driver for the composite model of the open-edition minter family (`LP.OE`). Same conventions as `Driver/Comp.lean`: one output
line per input line, every answer is `<case|ok|err|env|bad-op> <obs>` with `<obs>` = `F … M … C … B …` (complete observable
state, see `docs/COMPOSITE_OPEN_EDITION.md`); any line may carry `W=` (whitelist interface refresh, applied before the op) and
`pool=`.

* `case now= fac= mcodes=<3> ccodes=<4> accts= probe= code= allowed= frozen= cfee= minp= feebps= offset= maxtok= maxper= airp= airbps= dev=<a|x>`
* `env` · `t now=` · `fund a= d= amt=`
* `create sender= funds= code= creator= trading= nftok= onchain= uri= pay= start= end=<ns|-> ntok=<n|-> price= limit= wl= wlvalid= collok= maddr= caddr=`
* `inst_direct sender=`
* `mint sender= funds= stage= alloc= proof= mem= leaf= mcnt=` · `mint_to sender= funds= rcpt=`
* `set_wl sender= funds= wl= valid=` · `purge` · `upd_price price=` · `upd_start t=` · `upd_end t=` · `upd_trading t=` ·
  `upd_limit n=` · `burn` (all with `sender= funds=`)
* `sudo_status v= b= e=` · `sudo_params [code= addc= rmc= frozen= cfee= minp= feebps= offset= maxtok= maxper= airp= airbps= dev=<a|x>]`
  (an `xminp=` key = the ignored `extension.min_mint_price` is accepted and has no effect)
* `c_transfer sender= id= to=` · `c_burn sender= id=` · `c_trading sender= t=` · `c_creator sender= new=` ·
  `c_freeze sender=` · `c_own sender= act=<transfer|accept|renounce> new=`
-/
open LP LP.Proto LP.OE
open LP.VF (WlInfo SenderView)

structure Drv where
  s : State
  accts : List Nat
  probe : List Nat

def coinKv (ws : List String) (key : String) : Option Coin :=
  match pairListKv ws key with
  | some [(d, a)] => some ⟨d, a⟩
  | _ => none

def optCoinKv (ws : List String) (key : String) : Option (Option Coin) :=
  match kv ws key with
  | none => some none
  | some _ => (coinKv ws key).map some

def fundsKv (ws : List String) : List Coin :=
  ((pairListKv ws "funds").getD []).map fun (d, a) => ⟨d, a⟩

def optX (s : String) : Option (Option Nat) :=
  if s == "x" || s == "-" then some none else (nat? s).map some

def rc (c : Coin) : String := s!"{c.denom}:{c.amount}"
def roc (c : Option Coin) : String := match c with | some c => rc c | none => "-"
def rb (b : Bool) : String := if b then "1" else "0"

def parseWlEntry (e : String) : Option (Nat × Option WlInfo) :=
  match e.splitOn ":" with
  | [k, "x"] => do let k ← nat? k; pure (k, none)
  | [k, kind, act, pd, pa, lim, mcfg, sid, slim] => do
    let k ← nat? k; let kind ← nat? kind; let wk ← MintLimits.WlKind.ofIdx kind
    let act ← nat? act; let pd ← nat? pd; let pa ← nat? pa; let lim ← nat? lim; let mcfg ← nat? mcfg
    let sid ← nat? sid; let slim ← optX slim
    pure (k, some { kind := wk, active := act != 0, price := ⟨pd, pa⟩, limit := lim, merkleCfg := mcfg != 0,
                    stageId := sid, stageLimit := slim })
  | _ => none

/-- the interface refresh carried by a line, as composite ops -/
def envOps (ws : List String) : List Op :=
  let w : List Op :=
    match kv ws "W" with
    | none => []
    | some v => ((v.splitOn ";").filterMap parseWlEntry).map fun (k, i) => Op.wlEnv k i
  let p : List Op :=
    match natKv ws "pool" with
    | some n => if n = 0 then [] else [Op.fund FAIRBURN_POOL ⟨NATIVE, n⟩]
    | none => []
  w ++ p

def sortPairs (l : List (Nat × Nat)) : List (Nat × Nat) :=
  (l.toArray.qsort (fun a b => a.1 < b.1)).toList

def counts (accts : List Nat) (f : Nat → Nat) : String :=
  renderPairs ((accts.filter fun a => f a != 0).map fun a => (a, f a))

def rdev (o : Option Nat) : String := match o with | some a => toString a | none => "x"

def obsFactory (d : Drv) : String :=
  let p := d.s.params
  s!"F code={p.codeId} allowed={renderNats p.allowed} frozen={rb p.frozen} cfee={rc p.creationFee} minp={rc p.minMintPrice} feebps={p.mintFeeBps} offset={p.maxTradingOffsetSecs} maxtok={p.maxTokenLimit} maxper={p.maxPerAddressLimit} airp={rc p.airdropMintPrice} airbps={p.airdropMintFeeBps} dev={rdev p.dev} probe={String.join (d.probe.map fun c => rb (queryAllowed d.s c))}"

def obsMinter (d : Drv) : String :=
  match d.s.minter with
  | none => "M -"
  | some m =>
    let mp := match queryMintPrice d.s m with
      | .ok r => s!"{rc r.publicPrice}/{rc r.airdropPrice}/{roc r.whitelistPrice}/{rc r.currentPrice}"
      | .error _ => "err"
    let cnt := String.intercalate "," (d.accts.map fun a =>
      s!"{a}:{queryMintCount m a}:{renderOpt (queryWlCount m a)}")
    s!"M addr={m.addr} admin={m.admin} pay={renderOpt m.paymentAddress} ntok={renderOpt m.numTokens} limit={m.perAddressLimit} start={m.startTime} end={renderOpt m.endTime} price={rc m.mintPrice} wl={renderOpt m.whitelist} fac={m.factory} ccode={m.collectionCodeId} sg721={m.sg721} oc={rb m.onChain} left={renderOpt (queryMintable m)} mp={mp} st={rb m.status.verified}{rb m.status.blocked}{rb m.status.explicit} idx={m.seq.tokenIndex} total={queryTotalMint m} ma={counts d.accts m.pub} wlma={counts d.accts m.wlc} fs={counts d.accts (m.stg 1)} ss={counts d.accts (m.stg 2)} ts={counts d.accts (m.stg 3)} tot={m.tot 1},{m.tot 2},{m.tot 3} air={m.airdropCount} cnt={cnt}"

def obsColl (d : Drv) : String :=
  match d.s.minter with
  | none => "C -"
  | some m =>
    s!"C n={m.seq.coll.count} toks={renderPairs (sortPairs m.seq.coll.toks)} trading={renderOpt m.tt.trading} creator={m.tt.creator} owner={renderOpt m.tt.owner} pending={renderOpt m.tt.pending}"

def obsBank (d : Drv) : String :=
  let extra := match d.s.minter with
    | none => []
    | some m => [m.addr, m.sg721]
  let as := d.accts ++ [d.s.factoryAddr] ++ extra
  let b := d.s.bank
  let bal := String.intercalate "," (as.map fun a => s!"{a}:{b.bal a 0}:{b.bal a 1}")
  s!"B {bal} sup={b.supply 0}:{b.supply 1}"

def obs (d : Drv) : String := s!"{obsFactory d} {obsMinter d} {obsColl d} {obsBank d}"

def parseOwnAction (ws : List String) : Option TT.OwnAction :=
  match kv ws "act" with
  | some "transfer" => (natKv ws "new").map TT.OwnAction.transfer
  | some "accept" => some .accept
  | some "renounce" => some .renounce
  | _ => none

/-- `dev=<a>` / `dev=x` (a string `addr_validate` rejects); absent = not part of the update -/
def devKv (ws : List String) : Option (Option Nat) :=
  match kv ws "dev" with
  | none => none
  | some "x" => some none
  | some v => (nat? v).map some

def parseUpdate (ws : List String) : Option ParamsUpdate := do
  let cfee ← optCoinKv ws "cfee"; let minp ← optCoinKv ws "minp"; let airp ← optCoinKv ws "airp"
  pure { codeId := natKv ws "code", addCodes := natListKv ws "addc", rmCodes := natListKv ws "rmc",
         frozen := boolKv ws "frozen", creationFee := cfee, minMintPrice := minp, mintFeeBps := natKv ws "feebps",
         maxTradingOffsetSecs := natKv ws "offset", maxTokenLimit := natKv ws "maxtok",
         maxPerAddressLimit := natKv ws "maxper", airdropMintFeeBps := natKv ws "airbps", airdropMintPrice := airp,
         dev := devKv ws }

def parseParams (ws : List String) : Option Params := do
  let code ← natKv ws "code"; let allowed ← natListKv ws "allowed"; let frozen ← boolKv ws "frozen"
  let cfee ← coinKv ws "cfee"; let minp ← coinKv ws "minp"; let feebps ← natKv ws "feebps"
  let offset ← natKv ws "offset"; let maxtok ← natKv ws "maxtok"; let maxper ← natKv ws "maxper"
  let airp ← coinKv ws "airp"; let airbps ← natKv ws "airbps"; let dev ← devKv ws
  pure { codeId := code, allowed := allowed, frozen := frozen, creationFee := cfee, minMintPrice := minp,
         mintFeeBps := feebps, maxTradingOffsetSecs := offset, maxTokenLimit := maxtok, maxPerAddressLimit := maxper,
         airdropMintFeeBps := airbps, airdropMintPrice := airp, dev := dev }

def parseOp (ws : List String) : Option Op :=
  let sender := (natKv ws "sender").getD 0
  let funds := fundsKv ws
  match ws.head? with
  | some "t" => (natKv ws "now").map Op.setTime
  | some "fund" => do
    let a ← natKv ws "a"; let dn ← natKv ws "d"; let amt ← natKv ws "amt"
    pure (.fund a ⟨dn, amt⟩)
  | some "create" => do
    let code ← natKv ws "code"; let creator ← natKv ws "creator"; let trading ← optNatKv ws "trading"
    let nftok ← boolKv ws "nftok"; let onchain ← boolKv ws "onchain"; let uri ← boolKv ws "uri"
    let pay ← optNatKv ws "pay"; let start ← natKv ws "start"; let en ← optNatKv ws "end"; let ntok ← optNatKv ws "ntok"
    let price ← coinKv ws "price"; let limit ← natKv ws "limit"; let wl ← optNatKv ws "wl"
    let wlvalid := (boolKv ws "wlvalid").getD true; let collok := (boolKv ws "collok").getD true
    let maddr ← natKv ws "maddr"; let caddr ← natKv ws "caddr"
    pure (.create sender funds
      { collCode := code, creator := creator, trading := trading, nftValid := nftok, onChain := onchain, uriOk := uri,
        paymentAddress := pay, startTime := start, endTime := en, numTokens := ntok, mintPrice := price,
        perAddressLimit := limit, whitelist := wl, whitelistValid := wlvalid, collOk := collok }
      { minterAddr := maddr, collAddr := caddr })
  | some "inst_direct" => some (.instantiateDirect sender)
  | some "mint" => do
    let stage := (optNatKv ws "stage").getD none; let alloc := (optNatKv ws "alloc").getD none
    let proof := match kv ws "proof" with | some "-" | none => false | some _ => true
    let sv : SenderView := { memberPlain := (boolKv ws "mem").getD false, leafOk := (boolKv ws "leaf").getD false,
                             memberCount := (natKv ws "mcnt").getD 0 }
    pure (.mint sender funds { stage := stage, proof := proof, alloc := alloc } sv)
  | some "mint_to" => (natKv ws "rcpt").map (Op.mintTo sender funds)
  | some "set_wl" => do
    let wl ← natKv ws "wl"
    pure (.setWhitelist sender funds wl ((boolKv ws "valid").getD true))
  | some "purge" => some (.purge sender funds)
  | some "upd_price" => (natKv ws "price").map (Op.updateMintPrice sender funds)
  | some "upd_start" => (natKv ws "t").map (Op.updateStartTime sender funds)
  | some "upd_end" => (natKv ws "t").map (Op.updateEndTime sender funds)
  | some "upd_trading" => (optNatKv ws "t").map (Op.updateStartTradingTime sender funds)
  | some "upd_limit" => (natKv ws "n").map (Op.updatePerAddressLimit sender funds)
  | some "burn" => some (.burnRemaining sender funds)
  | some "sudo_status" => do
    let v ← boolKv ws "v"; let b ← boolKv ws "b"; let e ← boolKv ws "e"
    pure (.sudoStatus v b e)
  | some "sudo_params" => (parseUpdate ws).map Op.sudoParams
  | some "c_transfer" => do
    let id ← natKv ws "id"; let to ← natKv ws "to"
    pure (.collTransfer sender id to)
  | some "c_burn" => (natKv ws "id").map (Op.collBurn sender)
  | some "c_trading" => (optNatKv ws "t").map (Op.collTrading sender)
  | some "c_creator" => (natKv ws "new").map (Op.collCreator sender)
  | some "c_freeze" => some (.collFreeze sender)
  | some "c_own" => (parseOwnAction ws).map (Op.collOwn sender)
  | _ => none

def compLine (d : Drv) (line : String) : Drv × String :=
  let ws := words line
  match ws.head? with
  | some "case" =>
    let r : Option Drv := do
      let now ← natKv ws "now"; let fac ← natKv ws "fac"
      let mcodes ← natListKv ws "mcodes"; let ccodes ← natListKv ws "ccodes"
      let accts ← natListKv ws "accts"; let probe ← natListKv ws "probe"
      let p ← parseParams ws
      pure { s := init now ⟨mcodes, ccodes⟩ fac p, accts := accts, probe := probe }
    match r with
    | some d' => (d', s!"case {obs d'}")
    | none => (d, "bad-case")
  | some "env" =>
    let d' := { d with s := run d.s (envOps ws) }
    (d', s!"env {obs d'}")
  | _ =>
    let s1 := run d.s (envOps ws)
    match parseOp ws with
    | none => (d, "bad-op")
    | some op =>
      match step s1 op with
      | .ok s2 => let d' := { d with s := s2 }; (d', s!"ok {obs d'}")
      | .error _ => let d' := { d with s := s1 }; (d', s!"err {obs d'}")

def main : IO Unit :=
  runDriverRaw
    { s := init 0 ⟨[], []⟩ 0
        { codeId := 0, allowed := [], frozen := false, creationFee := ⟨0, 0⟩, minMintPrice := ⟨0, 0⟩, mintFeeBps := 0,
          maxTradingOffsetSecs := 0, maxTokenLimit := 0, maxPerAddressLimit := 0, airdropMintFeeBps := 0,
          airdropMintPrice := ⟨0, 0⟩, dev := none },
      accts := [], probe := [] }
    compLine
