import LaunchpadModel.Model.TokenMergeSystem
import LaunchpadModel.Model.Proto
/-!
Driver for the token-merge SYSTEM composite `LP.SysTM` (token-merge factory + minter + REAL `CF` collection contracts for the
source collections and the target collection).  One output line per input line; every answer to a state-changing line is
`<case|ok|err|bad-op> <obs>` with `<obs>` = `T <height>/<time> F … M … <target collection block | C=-> S <source blocks> B …`:
the `F M B` blocks of `drv_comptm`, and EVERY collection contract exactly as `drv_compcoll` prints it.  See
`docs/COMPOSITE_SYSTEM_TM.md`.

* `case h= now= fac= mcodes=<1> ccodes=<4> accts= probe= srcs=<observed source addresses> code= allowed= frozen= cfee= offset=
   maxtok= maxper= airp= airbps= shuf=`
* `t now=` (keeps the height) · `blk h= t=` · `fund a= d= amt=`
* `src_new coll= kind=<base|updatable|onchain|nt> s=<instantiator> minter=` (instantiate of one more source collection)
* `src_give coll= id= to= [s=]` (= `Mint` by the source's own minter) · `src_transfer sender= coll= id= to=` (= `TransferNft`)
* `send sender= coll= id= contract= rcpt=<a|-> msgok= recv= picked=` · `receive sender=<caller> from=<cw721 sender> id= rcpt= msgok= picked=`
* `create sender= funds= code= creator= trading= uri= start= ntok= limit= mtok= collok= maddr= caddr= perm=`
* `inst_direct`, `mint_to`, `mint_for`, `purge`, `upd_start`, `upd_trading`, `upd_limit`, `shuffle`, `burn`, `sudo_status`,
  `sudo_params` as `drv_comptm`
* `c_transfer | c_burn | c_trading | c_creator | c_freeze | c_own` as `drv_comptm` (executed as the `CF` message on the target)
* `x_<message> coll=<collection address> s=<sender> funds= …`: any collection message, fields as `drv_compcoll`
-/
open LP LP.Proto

namespace CompSysTm
open LP.CF
open LP.Sg721 (Kind Block Exp Approval Token Royalty Desc Url Info Ownership Operator Action InstMsg)

structure Drv where
  s : SysTM.State
  accts : List Nat
  probe : List Nat
  srcs : List Nat

def coinKv (ws : List String) (key : String) : Option Coin :=
  match pairListKv ws key with
  | some [(d, a)] => some ⟨d, a⟩
  | _ => none

def optCoinKv (ws : List String) (key : String) : Option (Option Coin) :=
  match kv ws key with
  | none => some none
  | some _ => (coinKv ws key).map some

def fundsKv (ws : List String) : List Coin :=
  ((pairListKv ws "funds").getD []).map fun (d, a) => ⟨d, a⟩

def rc (c : Coin) : String := s!"{c.denom}:{c.amount}"
def rb (b : Bool) : String := if b then "1" else "0"

def counts (accts : List Nat) (f : Nat → Nat) : String :=
  renderPairs ((accts.filter fun a => f a != 0).map fun a => (a, f a))

/-! ### collection rendering (as `Driver/CompColl.lean`) -/

def parseKind (s : String) : Option Kind :=
  match s with
  | "base" => some .base
  | "nt" => some .nt
  | "updatable" => some .updatable
  | "onchain" => some .onchain
  | _ => none

def kindStr : Kind → String
  | .base => "base" | .nt => "nt" | .updatable => "updatable" | .onchain => "onchain"

def parseOptExp (s : String) : Option (Option Exp) :=
  if s == "-" then some none
  else if s == "n" then some (some .never)
  else if s.startsWith "h" then (nat? (s.drop 1).toString).map fun n => some (.atHeight n)
  else if s.startsWith "t" then (nat? (s.drop 1).toString).map fun n => some (.atTime n)
  else none

def expStr : Exp → String
  | .never => "n"
  | .atHeight h => s!"h{h}"
  | .atTime t => s!"t{t}"

def coinsOf (l : List (Nat × Nat)) : List Coin := l.map fun (d, a) => ⟨d, a⟩

def pair? (s : String) : Option (Nat × Nat) :=
  match s.splitOn ":" with
  | [a, b] => do let x ← nat? a; let y ← nat? b; pure (x, y)
  | _ => none

def joinOr (sep : String) (l : List String) : String := if l.isEmpty then "-" else String.intercalate sep l

def b01 (b : Bool) : String := if b then "1" else "0"

def renderOptBool : Option Bool → String
  | none => "-" | some true => "1" | some false => "0"

def verStr (v : Semver.Version) : String := s!"{v.major}.{v.minor}.{v.patch}"

def natLt (a b : Nat) : Bool := decide (a < b)

def renderApprovals (l : List Approval) : String :=
  joinOr "+" ((sortBy (fun (a b : Approval) => natLt a.spender b.spender) l).map fun a => s!"{a.spender}@{expStr a.expires}")

def renderSpenders (l : List Approval) : String :=
  joinOr "+" ((sortBy natLt (l.map (·.spender))).map toString)

def renderToken (b : Block) (t : Token) : String :=
  s!"{t.id}/{t.owner}/{renderOpt t.uri}/{t.ext}/{renderApprovals t.approvals}/{renderSpenders (liveApprovals t b false)}"

def renderColl (b : Block) (c : Coll) : String :=
  let s := c.core
  let o := s.ownership
  let own := s!"{renderOpt o.owner}/{renderOpt o.pending}/{match o.pendingExpiry with | some e => expStr e | none => "-"}"
  let i := s.info
  let roy := match i.royalty with | some r => s!"{r.payment}:{r.share}" | none => "-"
  let ext := match i.externalLink with | some u => toString u.id | none => "-"
  let toks := joinOr ";" ((sortBy (fun (x y : Token) => natLt x.id y.id) s.tokens).map (renderToken b))
  let ops := joinOr "," ((sortBy (fun (x y : Operator) => natLt (x.owner * 1000000 + x.operator) (y.owner * 1000000 + y.operator))
    s.operators).map fun x => s!"{x.owner}>{x.operator}@{expStr x.expires}/{b01 (!x.expires.isExpired b)}")
  let upd := decide (s.kind = .updatable)
  s!"C={c.self} k={kindStr s.kind} v={verStr s.ver} nm={c.name}/{c.symbol} own={own} leg={renderOpt c.legacy} " ++
  s!"fz={b01 s.frozenInfo} rua={s.royaltyUpdatedAt} cr={i.creator} desc={i.description.id}:{i.description.len} img={i.image.id} " ++
  s!"ext={ext} ec={renderOptBool i.explicitContent} stt={renderOpt i.startTradingTime} roy={roy} n={s.count} toks={toks} " ++
  s!"ops={ops} fm={b01 (upd && s.frozenMeta)} ue={b01 (upd && s.updEnabled)}"

def optBoolKv (ws : List String) (key : String) : Option (Option Bool) :=
  match kv ws key with
  | some "-" => some none
  | some "1" => some (some true)
  | some "0" => some (some false)
  | _ => none

def optRoyKv (ws : List String) : Option (Option Royalty) :=
  match kv ws "roy" with
  | some "-" => some none
  | some v => (pair? v).map fun (p, sh) => some (⟨p, sh⟩ : Royalty)
  | none => none

def parseUci (ws : List String) : Option UpdateInfo := do
  let iv ← boolKv ws "iv"
  let ev ← boolKv ws "ev"
  let desc ← match kv ws "desc" with
    | some "-" => some none
    | some v => (pair? v).map fun (a, b) => some (⟨a, b⟩ : Desc)
    | none => none
  let image ← (optNatKv ws "image").map fun o => o.map fun i => (⟨i, iv⟩ : Url)
  let ext ← (optNatKv ws "ext").map fun o => o.map fun i => (⟨i, ev⟩ : Url)
  let ec ← optBoolKv ws "ec"
  let roy ← optRoyKv ws
  let creator ← optNatKv ws "creator"
  pure ⟨desc, image, ext, ec, roy, creator⟩

def parseMsg (ws : List String) : Option ExecMsg :=
  match ws.head? with
  | some "transfer" => do pure (.transferNft (← natKv ws "to") (← natKv ws "id"))
  | some "send" => do pure (.sendNft (← natKv ws "to") (← natKv ws "id") (← boolKv ws "recv"))
  | some "approve" => do pure (.approve (← natKv ws "sp") (← natKv ws "id") (← (kv ws "exp").bind parseOptExp))
  | some "revoke" => do pure (.revoke (← natKv ws "sp") (← natKv ws "id"))
  | some "approve_all" => do pure (.approveAll (← natKv ws "op") (← (kv ws "exp").bind parseOptExp))
  | some "revoke_all" => do pure (.revokeAll (← natKv ws "op"))
  | some "mint" => do pure (.mint (← natKv ws "id") (← natKv ws "owner") (← optNatKv ws "uri") (← natKv ws "ext"))
  | some "burn" => do pure (.burn (← natKv ws "id"))
  | some "extension" => some .extension
  | some "uci" => do pure (.updateCollectionInfo (← parseUci ws))
  | some "ustt" => do pure (.updateStartTradingTime (← optNatKv ws "t"))
  | some "freeze" => some .freezeCollectionInfo
  | some "own_transfer" => do pure (.updateOwnership (.transfer (← natKv ws "to") (← (kv ws "exp").bind parseOptExp)))
  | some "own_accept" => some (.updateOwnership .accept)
  | some "own_renounce" => some (.updateOwnership .renounce)
  | some "freeze_meta" => some .freezeTokenMetadata
  | some "utm" => do pure (.updateTokenMetadata (← natKv ws "id") (← optNatKv ws "uri"))
  | some "enable" => some .enableUpdatable
  | _ => none

/-! ### observation -/

open LP.TMF (Params ParamsUpdate)

def obsFactory (d : Drv) : String :=
  let p := d.s.params
  s!"F code={p.codeId} allowed={renderNats p.allowed} frozen={rb p.frozen} cfee={rc p.creationFee} offset={p.maxTradingOffsetSecs} maxtok={p.maxTokenLimit} maxper={p.maxPerAddressLimit} airp={rc p.airdropMintPrice} airbps={p.airdropMintFeeBps} shuf={rc p.shuffleFee} probe={String.join (d.probe.map fun c => rb (p.allowed.contains c))}"

def deposited (m : SysTM.Minter) (a : Addr) (colls : List Addr) : List (Addr × Nat) :=
  colls.filterMap fun c => if m.ledger a c = 0 then none else some (c, m.ledger a c)

def obsMinter (d : Drv) : String :=
  match d.s.mc with
  | none => "M -"
  | some (m, _) =>
    let dep := String.intercalate "," ((d.accts.map fun a =>
      (deposited m a d.srcs).map fun (c, n) => s!"{a}:{c}:{n}").flatten)
    let dep := if dep.isEmpty then "-" else dep
    s!"M addr={m.addr} admin={m.admin} ntok={m.supply.n} limit={m.perAddressLimit} start={m.startTime} fac={m.factory} ccode={m.collectionCodeId} sg721={m.sg721} mtok={renderPairs m.mintTokens} left={m.supply.mintable} st={rb m.status.verified}{rb m.status.blocked}{rb m.status.explicit} pos={renderPairs m.supply.pos} ma={counts d.accts m.mintCount} dep={dep}"

def obsTarget (d : Drv) : String :=
  match d.s.mc with
  | none => "C=-"
  | some (_, c) => renderColl d.s.block c

def obsSrcs (d : Drv) : String :=
  let one (a : Nat) : String :=
    match SysTM.lookup d.s.srcs a with
    | some c => renderColl d.s.block c
    | none => s!"C={a}:-"
  "S " ++ (if d.srcs.isEmpty then "-" else String.intercalate " | " (d.srcs.map one))

def obsBank (d : Drv) : String :=
  let extra := match d.s.mc with
    | none => []
    | some (m, _) => [m.addr, m.sg721]
  let deployed := d.srcs.filter fun a => (SysTM.lookup d.s.srcs a).isSome
  let as := d.accts ++ [d.s.factoryAddr] ++ extra ++ deployed
  let b := d.s.bank
  let bal := String.intercalate "," (as.map fun a => s!"{a}:{b.bal a 0}:{b.bal a 1}")
  s!"B {bal} sup={b.supply 0}:{b.supply 1}"

def obs (d : Drv) : String :=
  s!"T {d.s.height}/{d.s.now} {obsFactory d} {obsMinter d} {obsTarget d} {obsSrcs d} {obsBank d}"

/-! ### parsing -/

def parseUpdate (ws : List String) : Option ParamsUpdate := do
  let cfee ← optCoinKv ws "cfee"; let airp ← optCoinKv ws "airp"; let shuf ← optCoinKv ws "shuf"
  pure { codeId := natKv ws "code", addCodes := natListKv ws "addc", rmCodes := natListKv ws "rmc",
         frozen := boolKv ws "frozen", creationFee := cfee, maxTradingOffsetSecs := natKv ws "offset",
         maxTokenLimit := natKv ws "maxtok", maxPerAddressLimit := natKv ws "maxper", airdropMintPrice := airp,
         airdropMintFeeBps := natKv ws "airbps", shuffleFee := shuf }

def parseParams (ws : List String) : Option Params := do
  let code ← natKv ws "code"; let allowed ← natListKv ws "allowed"; let frozen ← boolKv ws "frozen"
  let cfee ← coinKv ws "cfee"; let offset ← natKv ws "offset"; let maxtok ← natKv ws "maxtok"
  let maxper ← natKv ws "maxper"; let airp ← coinKv ws "airp"; let airbps ← natKv ws "airbps"; let shuf ← coinKv ws "shuf"
  pure { codeId := code, allowed := allowed, frozen := frozen, creationFee := cfee, maxTradingOffsetSecs := offset,
         maxTokenLimit := maxtok, maxPerAddressLimit := maxper, airdropMintPrice := airp, airdropMintFeeBps := airbps,
         shuffleFee := shuf }

def firstKey (s : SysTM.State) : Nat :=
  match s.mc with
  | some (m, _) => (m.supply.pos.head?.map (·.1)).getD 0
  | none => 0

def currentIds (s : SysTM.State) : List Nat :=
  match s.mc with
  | some (m, _) => m.supply.pos.map (·.2)
  | none => []

def targetAddr (s : SysTM.State) : Nat :=
  match s.mc with
  | some (m, _) => m.sg721
  | none => 0

/-- the fixed `collection_params` the harness sends with `CreateMinter` (name "Collection", symbol "COL", description
"a collection" (12 bytes), image and external link two valid URLs, `explicit_content: false`); `collok=0` adds a royalty of 200 % -/
def targetInit (creator : Nat) (collok : Bool) : Sys2.CollInit :=
  { name := 0, symbol := 0, description := ⟨0, 12⟩, image := ⟨0, true⟩, externalLink := some ⟨1, true⟩,
    explicitContent := some false, royalty := if collok then none else some ⟨creator, 2 * DEC_ONE⟩ }

/-- the fixed `InstantiateMsg` of a source collection (description "a source collection", 19 bytes) -/
def srcInit (minter : Nat) : InstMsg :=
  ⟨minter, ⟨minter, ⟨0, 19⟩, ⟨0, true⟩, none, some false, none, none⟩⟩

def parseOwnAction (ws : List String) : Option Action :=
  match kv ws "act" with
  | some "transfer" => (natKv ws "new").map fun n => Action.transfer n none
  | some "accept" => some .accept
  | some "renounce" => some .renounce
  | _ => none

def stripX (ws : List String) : List String :=
  match ws with
  | [] => []
  | w :: rest => (w.drop 2).toString :: rest

def parseOp (s : SysTM.State) (ws : List String) : Option SysTM.Op :=
  let sender := (natKv ws "sender").getD 0
  let funds := fundsKv ws
  let tgt := targetAddr s
  match ws.head? with
  | some "t" => (natKv ws "now").map fun t => .tm (.setTime t)
  | some "blk" => do pure (.block (← natKv ws "h") (← natKv ws "t"))
  | some "fund" => do
    let a ← natKv ws "a"; let dn ← natKv ws "d"; let amt ← natKv ws "amt"
    pure (.tm (.fund a ⟨dn, amt⟩))
  | some "src_new" => do
    let c ← natKv ws "coll"; let k ← (kv ws "kind").bind parseKind; let snd ← natKv ws "s"; let mn ← natKv ws "minter"
    pure (.srcCreate k snd 0 0 (srcInit mn) c)
  | some "src_give" => do
    let c ← natKv ws "coll"; let id ← natKv ws "id"; let to ← natKv ws "to"
    pure (.collExec c ((natKv ws "s").getD 91) [] (.mint id to none 0))
  | some "src_transfer" => do
    let c ← natKv ws "coll"; let id ← natKv ws "id"; let to ← natKv ws "to"
    pure (.collExec c sender [] (.transferNft to id))
  | some "send" => do
    let c ← natKv ws "coll"; let id ← natKv ws "id"; let ct ← natKv ws "contract"; let r ← optNatKv ws "rcpt"
    let ok := (boolKv ws "msgok").getD true
    let recv := (boolKv ws "recv").getD false
    pure (.sendNft c sender id ct r ok recv ((natKv ws "picked").getD (firstKey s)))
  | some "receive" => do
    let frm ← natKv ws "from"; let id ← natKv ws "id"; let r ← optNatKv ws "rcpt"
    let ok := (boolKv ws "msgok").getD true
    pure (.tm (.receive sender frm id r ok ((natKv ws "picked").getD (firstKey s))))
  | some "create" => do
    let code ← natKv ws "code"; let creator ← natKv ws "creator"; let trading ← optNatKv ws "trading"
    let uri ← boolKv ws "uri"; let start ← natKv ws "start"; let ntok ← natKv ws "ntok"
    let limit ← natKv ws "limit"; let mtok ← pairListKv ws "mtok"
    let collok := (boolKv ws "collok").getD true
    let maddr ← natKv ws "maddr"; let caddr ← natKv ws "caddr"
    let perm := match kv ws "perm" with
      | some "-" | none => List.range' 1 ntok
      | some v => (natList? v).getD []
    pure (.create sender funds
      { collCode := code, creator := creator, trading := trading, uriOk := uri, startTime := start, numTokens := ntok,
        mintTokens := mtok, perAddressLimit := limit, collOk := true }
      { minterAddr := maddr, collAddr := caddr, perm := perm } (targetInit creator collok))
  | some "inst_direct" => some (.tm (.instantiateDirect sender))
  | some "mint_to" => do
    let r ← natKv ws "rcpt"
    pure (.tm (.mintTo sender funds r ((natKv ws "picked").getD (firstKey s))))
  | some "mint_for" => do
    let r ← natKv ws "rcpt"; let id ← natKv ws "id"
    pure (.tm (.mintFor sender funds id r))
  | some "purge" => some (.tm (.purge sender funds))
  | some "upd_start" => (natKv ws "t").map fun t => .tm (.updateStartTime sender funds t)
  | some "upd_trading" => (optNatKv ws "t").map fun t => .tm (.updateStartTradingTime sender funds t)
  | some "upd_limit" => (natKv ws "n").map fun n => .tm (.updatePerAddressLimit sender funds n)
  | some "shuffle" =>
    let perm := match kv ws "perm" with
      | some "-" | none => currentIds s
      | some v => (natList? v).getD []
    some (.tm (.shuffle sender funds perm))
  | some "burn" => some (.tm (.burnRemaining sender funds))
  | some "sudo_status" => do
    let v ← boolKv ws "v"; let b ← boolKv ws "b"; let e ← boolKv ws "e"
    pure (.tm (.sudoStatus v b e))
  | some "sudo_params" => (parseUpdate ws).map fun u => .tm (.sudoParams u)
  | some "c_transfer" => do
    let id ← natKv ws "id"; let to ← natKv ws "to"
    pure (.collExec tgt sender [] (.transferNft to id))
  | some "c_burn" => (natKv ws "id").map fun id => .collExec tgt sender [] (.burn id)
  | some "c_trading" => (optNatKv ws "t").map fun t => .collExec tgt sender [] (.updateStartTradingTime t)
  | some "c_creator" => (natKv ws "new").map fun n =>
      .collExec tgt sender [] (.updateCollectionInfo ⟨none, none, none, none, none, some n⟩)
  | some "c_freeze" => some (.collExec tgt sender [] .freezeCollectionInfo)
  | some "c_own" => (parseOwnAction ws).map fun a => .collExec tgt sender [] (.updateOwnership a)
  | some h =>
    if h.startsWith "x_" then
      match parseMsg (stripX ws), natKv ws "coll", natKv ws "s", pairListKv ws "funds" with
      | some m, some c, some snd, some fu => some (.collExec c snd (coinsOf fu) m)
      | _, _, _, _ => none
    else none
  | none => none

def compLine (d : Drv) (line : String) : Drv × String :=
  let ws := words line
  match ws.head? with
  | some "case" =>
    let r : Option Drv := do
      let h ← natKv ws "h"
      let now ← natKv ws "now"; let fac ← natKv ws "fac"
      let mcodes ← natListKv ws "mcodes"; let ccodes ← natListKv ws "ccodes"
      let accts ← natListKv ws "accts"; let probe ← natListKv ws "probe"
      let srcs ← natListKv ws "srcs"
      let p ← parseParams ws
      pure { s := SysTM.init h now ⟨mcodes, ccodes⟩ fac p, accts := accts, probe := probe, srcs := srcs }
    match r with
    | some d' => (d', s!"case {obs d'}")
    | none => (d, "bad-case")
  | some "x_raw" => (d, s!"err {obs d}")
  | _ =>
    match parseOp d.s ws with
    | none => (d, "bad-op")
    | some op =>
      match SysTM.step d.s op with
      | .ok s2 => let d' := { d with s := s2 }; (d', s!"ok {obs d'}")
      | .error _ => (d, s!"err {obs d}")

end CompSysTm

def main : IO Unit :=
  runDriverRaw
    ({ s := SysTM.init 0 0 ⟨[], []⟩ 0
        { codeId := 0, allowed := [], frozen := false, creationFee := ⟨0, 0⟩, maxTradingOffsetSecs := 0, maxTokenLimit := 0,
          maxPerAddressLimit := 0, airdropMintPrice := ⟨0, 0⟩, airdropMintFeeBps := 0, shuffleFee := ⟨0, 0⟩ },
       accts := [], probe := [], srcs := [] } : CompSysTm.Drv)
    CompSysTm.compLine
