import LaunchpadModel.Model.TokenMergeFull
import LaunchpadModel.Model.Proto
/-!
Driver for the composite model of the token-merge family (`LP.TMF`). Same conventions as `Driver/Comp.lean`: one output line per
input line, every answer is `<case|ok|err|env|bad-op> <obs>` with `<obs>` = `F … M … C … S … B …` (complete observable state, see
`docs/COMPOSITE_TOKEN_MERGE.md`); any line may carry `pool=` (outside-family bank effect, applied before the op).

* `case now= fac= mcodes=<1> ccodes=<4> accts= probe= srcs=<observed source contracts> ids=<highest observed source token id>
  code= allowed= frozen= cfee= offset= maxtok= maxper= airp= airbps= shuf=`
* `env` · `t now=` · `fund a= d= amt=`
* `src_new coll=` · `src_give coll= id= to=` · `src_transfer sender= coll= id= to=`
* `send sender= coll= id= contract= rcpt=<a|-> msgok= picked=` · `receive sender=<caller> from=<cw721 sender> id= rcpt=<a|-> msgok= picked=`
* `create sender= funds= code= creator= trading= uri= start= ntok= limit= mtok=<coll:amount,…|-> collok= maddr= caddr= perm=`
* `inst_direct sender=`
* `mint_to sender= funds= rcpt= picked=` · `mint_for sender= funds= id= rcpt=`
* `purge` · `upd_start t=` · `upd_trading t=` · `upd_limit n=` · `shuffle perm=` · `burn` (all with `sender= funds=`)
* `sudo_status v= b= e=` · `sudo_params [code= addc= rmc= frozen= cfee= offset= maxtok= maxper= airp= airbps= shuf=]`
* `c_transfer sender= id= to=` · `c_burn sender= id=` · `c_trading sender= t=` · `c_creator sender= new=` ·
  `c_freeze sender=` · `c_own sender= act=<transfer|accept|renounce> new=`
-/
open LP LP.Proto LP.TMF

structure Drv where
  s : State
  accts : List Nat
  probe : List Nat
  srcs : List Nat
  ids : Nat

def coinKv (ws : List String) (key : String) : Option Coin :=
  match pairListKv ws key with
  | some [(d, a)] => some ⟨d, a⟩
  | _ => none

def optCoinKv (ws : List String) (key : String) : Option (Option Coin) :=
  match kv ws key with
  | none => some none
  | some _ => (coinKv ws key).map some

def fundsKv (ws : List String) : List Coin :=
  ((pairListKv ws "funds").getD []).map fun (d, a) => ⟨d, a⟩

def rc (c : Coin) : String := s!"{c.denom}:{c.amount}"
def rb (b : Bool) : String := if b then "1" else "0"

/-- the outside-family bank effect carried by a line -/
def envOps (ws : List String) : List Op :=
  match natKv ws "pool" with
  | some n => if n = 0 then [] else [Op.fund FAIRBURN_POOL ⟨NATIVE, n⟩]
  | none => []

def sortPairs (l : List (Nat × Nat)) : List (Nat × Nat) :=
  (l.toArray.qsort (fun a b => a.1 < b.1)).toList

def counts (accts : List Nat) (f : Nat → Nat) : String :=
  renderPairs ((accts.filter fun a => f a != 0).map fun a => (a, f a))

def obsFactory (d : Drv) : String :=
  let p := d.s.params
  s!"F code={p.codeId} allowed={renderNats p.allowed} frozen={rb p.frozen} cfee={rc p.creationFee} offset={p.maxTradingOffsetSecs} maxtok={p.maxTokenLimit} maxper={p.maxPerAddressLimit} airp={rc p.airdropMintPrice} airbps={p.airdropMintFeeBps} shuf={rc p.shuffleFee} probe={String.join (d.probe.map fun c => rb (queryAllowed d.s c))}"

def obsMinter (d : Drv) : String :=
  match d.s.minter with
  | none => "M -"
  | some m =>
    let dep := String.intercalate "," ((d.accts.map fun a =>
      (queryDeposited m a d.srcs).map fun (c, n) => s!"{a}:{c}:{n}").flatten)
    let dep := if dep.isEmpty then "-" else dep
    s!"M addr={m.addr} admin={m.admin} ntok={m.supply.n} limit={m.perAddressLimit} start={m.startTime} fac={m.factory} ccode={m.collectionCodeId} sg721={m.sg721} mtok={renderPairs m.mintTokens} left={queryMintable m} st={rb m.status.verified}{rb m.status.blocked}{rb m.status.explicit} pos={renderPairs m.supply.pos} ma={counts d.accts (queryMintCount m)} dep={dep}"

def obsColl (d : Drv) : String :=
  match d.s.minter with
  | none => "C -"
  | some m =>
    s!"C n={m.supply.coll.count} toks={renderPairs (sortPairs m.supply.coll.toks)} trading={renderOpt m.tt.trading} creator={m.tt.creator} owner={renderOpt m.tt.owner} pending={renderOpt m.tt.pending}"

/-- the observed source contracts: `num_tokens` and the owner of every id `1..ids` that exists -/
def obsSrcs (d : Drv) : String :=
  let one (c : Nat) : String :=
    let toks := (List.range' 1 d.ids).filterMap fun id => (d.s.srcs.owner c id).map fun o => (id, o)
    s!"{c}/{rb (d.s.srcs.colls.contains c)}/{d.s.srcs.num c}/{renderPairs toks}"
  "S " ++ (if d.srcs.isEmpty then "-" else String.intercalate ";" (d.srcs.map one))

def obsBank (d : Drv) : String :=
  let extra := match d.s.minter with
    | none => []
    | some m => [m.addr, m.sg721]
  let as := d.accts ++ [d.s.factoryAddr] ++ extra
  let b := d.s.bank
  let bal := String.intercalate "," (as.map fun a => s!"{a}:{b.bal a 0}:{b.bal a 1}")
  s!"B {bal} sup={b.supply 0}:{b.supply 1}"

def obs (d : Drv) : String := s!"{obsFactory d} {obsMinter d} {obsColl d} {obsSrcs d} {obsBank d}"

def parseOwnAction (ws : List String) : Option TT.OwnAction :=
  match kv ws "act" with
  | some "transfer" => (natKv ws "new").map TT.OwnAction.transfer
  | some "accept" => some .accept
  | some "renounce" => some .renounce
  | _ => none

def parseUpdate (ws : List String) : Option ParamsUpdate := do
  let cfee ← optCoinKv ws "cfee"; let airp ← optCoinKv ws "airp"; let shuf ← optCoinKv ws "shuf"
  pure { codeId := natKv ws "code", addCodes := natListKv ws "addc", rmCodes := natListKv ws "rmc",
         frozen := boolKv ws "frozen", creationFee := cfee, maxTradingOffsetSecs := natKv ws "offset",
         maxTokenLimit := natKv ws "maxtok", maxPerAddressLimit := natKv ws "maxper", airdropMintPrice := airp,
         airdropMintFeeBps := natKv ws "airbps", shuffleFee := shuf }

def parseParams (ws : List String) : Option Params := do
  let code ← natKv ws "code"; let allowed ← natListKv ws "allowed"; let frozen ← boolKv ws "frozen"
  let cfee ← coinKv ws "cfee"; let offset ← natKv ws "offset"; let maxtok ← natKv ws "maxtok"
  let maxper ← natKv ws "maxper"; let airp ← coinKv ws "airp"; let airbps ← natKv ws "airbps"; let shuf ← coinKv ws "shuf"
  pure { codeId := code, allowed := allowed, frozen := frozen, creationFee := cfee, maxTradingOffsetSecs := offset,
         maxTokenLimit := maxtok, maxPerAddressLimit := maxper, airdropMintPrice := airp, airdropMintFeeBps := airbps,
         shuffleFee := shuf }

/-- lowest remaining position (the default `picked` when a line carries none) -/
def firstKey (s : State) : Nat :=
  match s.minter with
  | some m => (m.supply.pos.head?.map (·.1)).getD 0
  | none => 0

def currentIds (s : State) : List Nat :=
  match s.minter with
  | some m => m.supply.ids
  | none => []

def parseOp (s : State) (ws : List String) : Option Op :=
  let sender := (natKv ws "sender").getD 0
  let funds := fundsKv ws
  match ws.head? with
  | some "t" => (natKv ws "now").map Op.setTime
  | some "fund" => do
    let a ← natKv ws "a"; let dn ← natKv ws "d"; let amt ← natKv ws "amt"
    pure (.fund a ⟨dn, amt⟩)
  | some "src_new" => (natKv ws "coll").map Op.srcNew
  | some "src_give" => do
    let c ← natKv ws "coll"; let id ← natKv ws "id"; let to ← natKv ws "to"
    pure (.srcGive c id to)
  | some "src_transfer" => do
    let c ← natKv ws "coll"; let id ← natKv ws "id"; let to ← natKv ws "to"
    pure (.srcTransfer sender c id to)
  | some "send" => do
    let c ← natKv ws "coll"; let id ← natKv ws "id"; let ct ← natKv ws "contract"; let r ← optNatKv ws "rcpt"
    let ok := (boolKv ws "msgok").getD true
    pure (.send sender c id ct r ok ((natKv ws "picked").getD (firstKey s)))
  | some "receive" => do
    let frm ← natKv ws "from"; let id ← natKv ws "id"; let r ← optNatKv ws "rcpt"
    let ok := (boolKv ws "msgok").getD true
    pure (.receive sender frm id r ok ((natKv ws "picked").getD (firstKey s)))
  | some "create" => do
    let code ← natKv ws "code"; let creator ← natKv ws "creator"; let trading ← optNatKv ws "trading"
    let uri ← boolKv ws "uri"; let start ← natKv ws "start"; let ntok ← natKv ws "ntok"
    let limit ← natKv ws "limit"; let mtok ← pairListKv ws "mtok"
    let collok := (boolKv ws "collok").getD true
    let maddr ← natKv ws "maddr"; let caddr ← natKv ws "caddr"
    let perm := match kv ws "perm" with
      | some "-" | none => List.range' 1 ntok
      | some v => (natList? v).getD []
    pure (.create sender funds
      { collCode := code, creator := creator, trading := trading, uriOk := uri, startTime := start, numTokens := ntok,
        mintTokens := mtok, perAddressLimit := limit, collOk := collok }
      { minterAddr := maddr, collAddr := caddr, perm := perm })
  | some "inst_direct" => some (.instantiateDirect sender)
  | some "mint_to" => do
    let r ← natKv ws "rcpt"
    pure (.mintTo sender funds r ((natKv ws "picked").getD (firstKey s)))
  | some "mint_for" => do
    let r ← natKv ws "rcpt"; let id ← natKv ws "id"
    pure (.mintFor sender funds id r)
  | some "purge" => some (.purge sender funds)
  | some "upd_start" => (natKv ws "t").map (Op.updateStartTime sender funds)
  | some "upd_trading" => (optNatKv ws "t").map (Op.updateStartTradingTime sender funds)
  | some "upd_limit" => (natKv ws "n").map (Op.updatePerAddressLimit sender funds)
  | some "shuffle" =>
    let perm := match kv ws "perm" with
      | some "-" | none => currentIds s
      | some v => (natList? v).getD []
    some (.shuffle sender funds perm)
  | some "burn" => some (.burnRemaining sender funds)
  | some "sudo_status" => do
    let v ← boolKv ws "v"; let b ← boolKv ws "b"; let e ← boolKv ws "e"
    pure (.sudoStatus v b e)
  | some "sudo_params" => (parseUpdate ws).map Op.sudoParams
  | some "c_transfer" => do
    let id ← natKv ws "id"; let to ← natKv ws "to"
    pure (.collTransfer sender id to)
  | some "c_burn" => (natKv ws "id").map (Op.collBurn sender)
  | some "c_trading" => (optNatKv ws "t").map (Op.collTrading sender)
  | some "c_creator" => (natKv ws "new").map (Op.collCreator sender)
  | some "c_freeze" => some (.collFreeze sender)
  | some "c_own" => (parseOwnAction ws).map (Op.collOwn sender)
  | _ => none

def compLine (d : Drv) (line : String) : Drv × String :=
  let ws := words line
  match ws.head? with
  | some "case" =>
    let r : Option Drv := do
      let now ← natKv ws "now"; let fac ← natKv ws "fac"
      let mcodes ← natListKv ws "mcodes"; let ccodes ← natListKv ws "ccodes"
      let accts ← natListKv ws "accts"; let probe ← natListKv ws "probe"
      let srcs ← natListKv ws "srcs"; let ids ← natKv ws "ids"
      let p ← parseParams ws
      pure { s := init now ⟨mcodes, ccodes⟩ fac p, accts := accts, probe := probe, srcs := srcs, ids := ids }
    match r with
    | some d' => (d', s!"case {obs d'}")
    | none => (d, "bad-case")
  | some "env" =>
    let d' := { d with s := run d.s (envOps ws) }
    (d', s!"env {obs d'}")
  | _ =>
    let s1 := run d.s (envOps ws)
    match parseOp s1 ws with
    | none => (d, "bad-op")
    | some op =>
      match step s1 op with
      | .ok s2 => let d' := { d with s := s2 }; (d', s!"ok {obs d'}")
      | .error _ => let d' := { d with s := s1 }; (d', s!"err {obs d'}")

def main : IO Unit :=
  runDriverRaw
    { s := init 0 ⟨[], []⟩ 0
        { codeId := 0, allowed := [], frozen := false, creationFee := ⟨0, 0⟩, maxTradingOffsetSecs := 0, maxTokenLimit := 0,
          maxPerAddressLimit := 0, airdropMintPrice := ⟨0, 0⟩, airdropMintFeeBps := 0, shuffleFee := ⟨0, 0⟩ },
      accts := [], probe := [], srcs := [], ids := 0 }
    compLine
