import LaunchpadModel.Model.Airdrop
import LaunchpadModel.Model.Keccak
import LaunchpadModel.Model.AirdropCrypto
import LaunchpadModel.Model.Proto
/-!
Driver for C16 (ETH airdrop). Byte strings travel as `x<lower-case hex>` (`x` = empty string); lists of byte
strings as `x..,x..` or `-`. One output line per input line.

Output lines are `primary ## outside-projection` (core.rs): only `primary` decides agreement.

World lines
* `case <name> nwl=<0|1|2> wl=<0|1> wlimit=<n> wlimit2=<n> admin=<x> now=<t> wlstart=<t> [strict=…]`
      reset; `nwl` collection whitelists exist (ids 1, 2; member limits `wlimit`, `wlimit2`; that single admin, mutable,
      start time `wlstart`); `wl=1`: the minter points to whitelist 1; block time `now`
* `fund to=<x> amt=<n>`                                 → `ok s=<bal to>`
* `inst sender=<x> funds=<d:a,…|-> amount=<n> limit=<n> tpl=<x> addrs=<xs> self=<x|->`
                                                        → `ok b=<bal self> ## s=<bal sender>` | `err ## s=<bal sender>`
* `claim sender=<x> eth=<x> sig=<x> h=<x|-> rs=<x|-> rec=<n|-> pk=<x|-> ver=<0|1|->`
      (`h … ver` are the harness's independently computed primitive results = the `Crypto` witness; Keccak is
      computed here, so a wrong claim text / envelope / digest makes the witness lookup fail)
                                                        → `ok|err b=<bal self> s=<bal sender> m=<sender on the attached
                                                           collection wl> e=<eligible> rc=<0|1> ## c=<count eth> n=<#members>`
      `rc=1`: the same claim evaluated with `realCrypto` (Lean Keccak + Lean secp256k1, from the raw signature bytes, no
      witness) gives the same ok/err, contract balance and counter as the witnessed evaluation (round 5). The optional
      field `rce=0` (chosen by the harness, see `c16.rs`) skips that evaluation for this line (`rc=1` printed): sampling
* `cwl_add|cwl_rm sender=<x> who=<x> res=<ok|err>`, `cwl_admins sender=<x> admins=<xs> res=…`, `cwl_freeze sender=<x> res=…`
      administration of the ATTACHED collection whitelist (environment of this property; the rules are sg-whitelist's).
      `res` = what the implementation did: the state follows it (through `EnvOp.setCwl` where the model's own rule
      would have decided otherwise); the model's own verdict is printed outside the projection
                                                        → `m=<who member>` (`cwl_admins`/`cwl_freeze`: `a=<#admins>`) `## ok|err n=<#members>`
* `set_wl id=<k> res=<ok|err>`                          minter `SetWhitelist` to whitelist `k` → `wl=<attached id, 0 none>`
* `time t=<nanos>`                                      → `ok`
* `exec_raw kind=<exec|sudo|migrate> target=<airdrop|immutable> sender=<x> json=<x>`
      any message other than `ClaimAirdrop` (`Op.other`)  → `raw b=<bal self> el=<distinct listed, all eligible> x=0 cnt=<AddressCount>
                                                           lim=<limit> ## err`
* `q_elig eth=<x>`                                      → `ok 0|1` | `err`
* `q_imm`                                               → `ok count=<distinct listed> limit=<per-address limit>` | `err`
* `q_minter`                                            → `ok 1` (GetMinter returns the configured minter) | `err`

Function-level lines
* `repl tpl=<x> w=<x>` → `ok <x>`; `replp pat=<x> rep=<x> s=<x>` → `ok <x>`; `contains tpl=<x>` → `ok 0|1`
* `keccak d=<x>` → `ok <x>`; `envelope text=<x>` → `ok <x>`; `hexdec s=<x>` → `ok <x>|err`
* `decode a=<x>` → `ok <x>|err`; `recparam v=<n>` → `ok <n>|err`
* `verify text=<x> sig=<x> signer=<x>` + the same witness fields → `ok 0|1 rc=<0|1>` | `err rc=<0|1>`
      (`rc=1`: `verifyEthereumText realCrypto` on the raw bytes agrees with the witnessed evaluation)
* `secp hash=<x> sig=<x> pk=<x|->`   (round 5: secp256k1 computed in Lean, `LP.Secp`, compared with `deps.api`)
      `sig` = `r ‖ s ‖ v` of any length; recovery id = `get_recovery_param v`, or `v` itself where that fails
      → `err` (empty `sig`) | `rec=err addr=- ver=- vp=<0|1|err|->` | `rec=ok key=<x 65 bytes> addr=<x 20 bytes> ver=<0|1|err> vp=<0|1|err|->`
      `ver` = `secp256k1_verify` with the recovered key, `vp` = `secp256k1_verify` with the key `pk` (33 or 65 bytes)
-/
open LP LP.Proto LP.Airdrop

def hexDigit (n : Nat) : Char := if n < 10 then Char.ofNat (48 + n) else Char.ofNat (87 + n)

def renderBytes (b : Bytes) : String :=
  "x" ++ String.ofList (b.flatMap fun n => [hexDigit (n / 16 % 16), hexDigit (n % 16)])

def parseBytes (s : String) : Option Bytes :=
  match s.toList with
  | 'x' :: rest => hexDecode (rest.map Char.toNat)
  | _ => none

def bytesKv (ws : List String) (key : String) : Option Bytes := (kv ws key).bind parseBytes

def optBytesKv (ws : List String) (key : String) : Option (Option Bytes) :=
  match kv ws key with
  | none => none
  | some "-" => some none
  | some v => (parseBytes v).map some

def bytesListKv (ws : List String) (key : String) : Option (List Bytes) :=
  match kv ws key with
  | none => none
  | some "-" => some []
  | some v => (v.splitOn ",").mapM parseBytes

def optBoolKv (ws : List String) (key : String) : Option (Option Bool) :=
  match kv ws key with
  | some "-" => some none
  | some "1" => some (some true)
  | some "0" => some (some false)
  | _ => none

def b01 (b : Bool) : String := if b then "1" else "0"

/-- the per-line `Crypto`: Keccak computed in Lean, the two secp256k1 calls answered from the witness -/
def witnessCrypto (h rs : Option Bytes) (rec : Option Nat) (pk : Option Bytes) (ver : Option Bool) : Crypto :=
  { keccak := Keccak.keccak256
    recover := fun h' rs' rec' => if some h' = h ∧ some rs' = rs ∧ some rec' = rec then pk else none
    verify := fun h' rs' pk' => if some h' = h ∧ some rs' = rs ∧ some pk' = pk then ver else none }

def cryptoOf (ws : List String) : Option Crypto := do
  let h ← optBytesKv ws "h"; let rs ← optBytesKv ws "rs"; let rec ← optNatKv ws "rec"
  let pk ← optBytesKv ws "pk"; let ver ← optBoolKv ws "ver"
  pure (witnessCrypto h rs rec pk ver)

structure DS where
  env : Env
  st : Option State
  /-- the collection whitelists by id (the attached one's current state lives in `env.cwl`; its entry here is stale) -/
  store : List (Nat × CollWl) := []
  /-- id of the whitelist the minter points to (0 = none) -/
  cur : Nat := 0

def optBoolStr : Option Bool → String
  | some true => "1"
  | some false => "0"
  | none => "err"

/-- the `secp` line: everything from the bytes, by `LP.Secp` -/
def secpLine (hash sig : Bytes) (pk : Option Bytes) : String :=
  if sig = [] then "err"
  else
    let v := sig.getLast?.getD 0
    let rs := sig.dropLast
    let rid := (getRecoveryParam v).getD v
    let vp := match pk with
      | none => "-"
      | some k => optBoolStr (LP.Secp.verifyBytes hash rs k)
    match LP.Secp.recoverBytes hash rs rid with
    | none => s!"rec=err addr=- ver=- vp={vp}"
    | some key =>
      let addr := match ethereumAddressRaw realCrypto key with
        | some a => renderBytes a
        | none => "-"
      s!"rec=ok key={renderBytes key} addr={addr} ver={optBoolStr (LP.Secp.verifyBytes hash rs key)} vp={vp}"

def DS.init : DS := { env := { bal := fun _ => 0, cwl := none }, st := none }

def storeGet (l : List (Nat × CollWl)) (k : Nat) : Option CollWl := (l.find? (·.1 == k)).map (·.2)
def storePut (l : List (Nat × CollWl)) (k : Nat) (w : CollWl) : List (Nat × CollWl) := (k, w) :: l.filter (·.1 != k)

def DS.curEnv (d : DS) : Env := match d.st with | some s => s.env | none => d.env

def members (e : Env) : List Bytes := match e.cwl with | some w => w.members | none => []

def noCrypto : Crypto := { keccak := id, recover := fun _ _ _ => none, verify := fun _ _ _ => none }

def envStep (d : DS) (op : EnvOp) : DS × Bool :=
  match d.st with
  | some s => match step noCrypto s (.env op) with
    | .ok s' => ({ d with st := some s' }, true)
    | .error _ => (d, false)
  | none => match d.env.step op with
    | .ok e' => ({ d with env := e' }, true)
    | .error _ => (d, false)

/-- administration of the attached whitelist: the model's own rule gives `mok`; the state follows what the
implementation did (`res`), through `EnvOp.setCwl` with the forced effect where the two differ -/
def envStepWitnessed (d : DS) (res : Bool) (op : EnvOp) (force : CollWl → CollWl) : DS × Bool :=
  let (d', mok) := envStep d op
  if mok == res then (d', mok)
  else if res then ((envStep d (.setCwl (d.curEnv.cwl.map force))).1, mok)
  else (d, mok)

def okKv (ws : List String) : Option Bool :=
  match kv ws "res" with
  | some "ok" => some true
  | some "err" => some false
  | _ => none

def coinsOf (l : List (Nat × Nat)) : List Coin := l.map fun (d, a) => ⟨d, a⟩

def c16Line (d : DS) (line : String) : DS × String :=
  let ws := words line
  let r : Option (DS × String) :=
    match ws.head? with
    | some "case" => do
      let wl ← boolKv ws "wl"; let lim ← natKv ws "wlimit"; let adm ← bytesKv ws "admin"
      let nwl := (natKv ws "nwl").getD (if wl then 1 else 0)
      let lim2 := (natKv ws "wlimit2").getD lim
      let now := (natKv ws "now").getD 0
      let start := (natKv ws "wlstart").getD (now + 1)
      let mk (l : Nat) : CollWl := { members := [], memberLimit := l, admins := [adm], mutable := true, start := start }
      let store := (if nwl ≥ 1 then [(1, mk lim)] else []) ++ (if nwl ≥ 2 then [(2, mk lim2)] else [])
      let att := wl && nwl ≥ 1
      pure ({ env := { bal := fun _ => 0, cwl := if att then some (mk lim) else none, now := now }, st := none,
              store := store, cur := if att then 1 else 0 }, "case")
    | some "fund" => do
      let to ← bytesKv ws "to"; let amt ← natKv ws "amt"
      let (d', _) := envStep d (.fund to amt)
      pure (d', s!"ok s={d'.curEnv.bal to}")
    | some "inst" => do
      let sender ← bytesKv ws "sender"; let funds ← pairListKv ws "funds"; let amount ← natKv ws "amount"
      let limit ← natKv ws "limit"; let tpl ← bytesKv ws "tpl"; let addrs ← bytesListKv ws "addrs"
      let self ← optBytesKv ws "self"
      match d.st with
      | some _ => none
      | none =>
        -- on failure the implementation creates no contract: `self=-`; the model must fail on its own
        match instantiate d.env (self.getD []) sender (coinsOf funds)
                { template := tpl, amount := amount, addresses := addrs, perAddressLimit := limit } with
        | .ok s => pure ({ d with st := some s }, s!"ok b={s.env.bal s.self} ## s={s.env.bal sender}")
        | .error _ => pure (d, s!"err ## s={d.env.bal sender}")
    | some "claim" => do
      let sender ← bytesKv ws "sender"; let eth ← bytesKv ws "eth"; let sig ← bytesKv ws "sig"
      let C ← cryptoOf ws
      match d.st with
      | none => pure (d, "err")
      | some s =>
        let (s', okk) := match step C s (.claim sender eth sig) with
          | .ok s' => (s', true)
          | .error _ => (s, false)
        -- the same claim decided from the raw bytes alone (Lean Keccak + Lean secp256k1)
        let (sr, okr) :=
          if (natKv ws "rce").getD 1 == 0 then (s', okk)
          else match step realCrypto s (.claim sender eth sig) with
            | .ok s' => (s', true)
            | .error _ => (s, false)
        let rc := okr == okk && sr.env.bal sr.self == s'.env.bal s'.self && sr.counts eth == s'.counts eth
          && sr.env.bal sender == s'.env.bal sender
        pure ({ d with st := some s' },
          s!"{if okk then "ok" else "err"} b={s'.env.bal s'.self} s={s'.env.bal sender} m={b01 ((members s'.env).contains sender)} e={b01 (airdropEligible s' eth)} rc={b01 rc} ## c={s'.counts eth} n={(members s'.env).length}")
    | some "cwl_add" => do
      let sender ← bytesKv ws "sender"; let who ← bytesKv ws "who"; let res ← okKv ws
      let (d', mok) := envStepWitnessed d res (.cwlAdd sender who)
        (fun w => if w.members.contains who then w else { w with members := who :: w.members })
      pure (d', s!"m={b01 ((members d'.curEnv).contains who)} ## {if mok then "ok" else "err"} n={(members d'.curEnv).length}")
    | some "cwl_rm" => do
      let sender ← bytesKv ws "sender"; let who ← bytesKv ws "who"; let res ← okKv ws
      let (d', mok) := envStepWitnessed d res (.cwlRemove sender who)
        (fun w => { w with members := w.members.filter (· != who) })
      pure (d', s!"m={b01 ((members d'.curEnv).contains who)} ## {if mok then "ok" else "err"} n={(members d'.curEnv).length}")
    | some "cwl_admins" => do
      let sender ← bytesKv ws "sender"; let admins ← bytesListKv ws "admins"; let res ← okKv ws
      let (d', mok) := envStepWitnessed d res (.cwlAdmins sender admins) (fun w => { w with admins := admins })
      let na := match d'.curEnv.cwl with | some w => w.admins.length | none => 0
      pure (d', s!"a={na} ## {if mok then "ok" else "err"}")
    | some "cwl_freeze" => do
      let sender ← bytesKv ws "sender"; let res ← okKv ws
      let (d', mok) := envStepWitnessed d res (.cwlFreeze sender) (fun w => { w with mutable := false })
      let na := match d'.curEnv.cwl with | some w => w.admins.length | none => 0
      pure (d', s!"a={na} ## {if mok then "ok" else "err"}")
    | some "set_wl" => do
      let k ← natKv ws "id"; let res ← okKv ws
      if ¬ res then pure (d, s!"wl={d.cur}")
      else
        match (if k == d.cur then d.curEnv.cwl else storeGet d.store k) with
        | none => none
        | some w =>
          -- park the state of the whitelist that is being detached, attach the other one
          let store := match d.curEnv.cwl with
            | some wc => if d.cur != 0 then storePut d.store d.cur wc else d.store
            | none => d.store
          let (d', _) := envStep { d with store := store } (.setCwl (some w))
          pure ({ d' with cur := k }, s!"wl={k}")
    | some "time" => do
      let t ← natKv ws "t"
      let (d', _) := envStep d (.time t)
      pure (d', "ok")
    | some "exec_raw" => do
      let sender ← bytesKv ws "sender"
      match d.st with
      | none => pure (d, "raw b=0 el=0 x=0 cnt=0 lim=0 ## err")
      | some s =>
        let (s', okk) := match step noCrypto s (.other sender) with
          | .ok s' => (s', true)
          | .error _ => (s, false)
        pure ({ d with st := some s' },
          s!"raw b={s'.env.bal s'.self} el={addressCount s'} x=0 cnt={addressCount s'} lim={s'.perAddressLimit} ## {if okk then "ok" else "err"}")
    | some "q_elig" => do
      let eth ← bytesKv ws "eth"
      match d.st with
      | none => pure (d, "err")
      | some s => pure (d, s!"ok {b01 (airdropEligible s eth)}")
    | some "q_imm" =>
      match d.st with
      | none => pure (d, "err")
      | some s => pure (d, s!"ok count={addressCount s} limit={s.perAddressLimit}")
    | some "q_minter" => pure (d, if d.st.isSome then "ok 1" else "err")
    -- function level
    | some "repl" => do
      let tpl ← bytesKv ws "tpl"; let w ← bytesKv ws "w"
      pure (d, s!"ok {renderBytes (claimText tpl w)}")
    | some "replp" => do
      let pat ← bytesKv ws "pat"; let rep ← bytesKv ws "rep"; let s ← bytesKv ws "s"
      pure (d, s!"ok {renderBytes (replaceAll pat rep s)}")
    | some "contains" => do
      let tpl ← bytesKv ws "tpl"
      pure (d, s!"ok {b01 (containsPat WALLET tpl)}")
    | some "keccak" => do
      let x ← bytesKv ws "d"
      pure (d, s!"ok {renderBytes (Keccak.keccak256 x)}")
    | some "envelope" => do
      let x ← bytesKv ws "text"
      pure (d, s!"ok {renderBytes (envelope x)}")
    | some "hexdec" => do
      let x ← bytesKv ws "s"
      pure (d, match hexDecode x with | some b => s!"ok {renderBytes b}" | none => "err")
    | some "decode" => do
      let x ← bytesKv ws "a"
      pure (d, match decodeAddress x with | some b => s!"ok {renderBytes b}" | none => "err")
    | some "recparam" => do
      let v ← natKv ws "v"
      pure (d, match getRecoveryParam v with | some r => s!"ok {r}" | none => "err")
    | some "verify" => do
      let text ← bytesKv ws "text"; let sig ← bytesKv ws "sig"; let signer ← bytesKv ws "signer"
      let C ← cryptoOf ws
      let w := verifyEthereumText C text sig signer
      let rc := b01 (verifyEthereumText realCrypto text sig signer == w)
      pure (d, match w with | some b => s!"ok {b01 b} rc={rc}" | none => s!"err rc={rc}")
    | some "secp" => do
      let hash ← bytesKv ws "hash"; let sig ← bytesKv ws "sig"; let pk ← optBytesKv ws "pk"
      pure (d, secpLine hash sig pk)
    | _ => none
  r.getD (d, "bad-op")

def main : IO Unit := runDriverRaw DS.init c16Line
