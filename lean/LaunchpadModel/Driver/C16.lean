import LaunchpadModel.Model.Airdrop
import LaunchpadModel.Model.Keccak
import LaunchpadModel.Model.Proto
/-!
Driver for C16 (ETH airdrop). Byte strings travel as `x<lower-case hex>` (`x` = empty string); lists of byte
strings as `x..,x..` or `-`. One output line per input line.

World lines
* `case <name> wl=<0|1> wlimit=<n> admin=<x>`          reset; the minter has (wl=1) a collection whitelist with
                                                        that member limit and that single admin, mutable
* `fund to=<x> amt=<n>`                                 → `ok s=<bal to>`
* `inst sender=<x> funds=<d:a,…|-> amount=<n> limit=<n> tpl=<x> addrs=<xs> self=<x|->`
                                                        → `ok b=<bal self> s=<bal sender>` | `err s=<bal sender>`
* `claim sender=<x> eth=<x> sig=<x> h=<x|-> rs=<x|-> rec=<n|-> pk=<x|-> ver=<0|1|->`
      (`h … ver` are the harness's independently computed primitive results = the `Crypto` witness; Keccak is
      computed here, so a wrong claim text / envelope / digest makes the witness lookup fail)
                                                        → `ok|err b=<bal self> s=<bal sender> c=<count eth>
                                                           m=<sender on collection wl> n=<#members> e=<eligible>`
* `cwl_add sender=<x> who=<x>` / `cwl_rm sender=<x> who=<x>`   → `ok|err n=<#members> m=<who member>`
* `cwl_admins sender=<x> admins=<xs>`                   → `ok|err`
* `q_elig eth=<x>`                                      → `ok 0|1` | `err`
* `q_imm`                                               → `ok count=<distinct listed> limit=<per-address limit>` | `err`
* `q_minter`                                            → `ok 1` (GetMinter returns the configured minter) | `err`

Function-level lines
* `repl tpl=<x> w=<x>` → `ok <x>`; `replp pat=<x> rep=<x> s=<x>` → `ok <x>`; `contains tpl=<x>` → `ok 0|1`
* `keccak d=<x>` → `ok <x>`; `envelope text=<x>` → `ok <x>`; `hexdec s=<x>` → `ok <x>|err`
* `decode a=<x>` → `ok <x>|err`; `recparam v=<n>` → `ok <n>|err`
* `verify text=<x> sig=<x> signer=<x>` + the same witness fields → `ok 0|1` | `err`
-/
open LP LP.Proto LP.Airdrop

def hexDigit (n : Nat) : Char := if n < 10 then Char.ofNat (48 + n) else Char.ofNat (87 + n)

def renderBytes (b : Bytes) : String :=
  "x" ++ String.ofList (b.flatMap fun n => [hexDigit (n / 16 % 16), hexDigit (n % 16)])

def parseBytes (s : String) : Option Bytes :=
  match s.toList with
  | 'x' :: rest => hexDecode (rest.map Char.toNat)
  | _ => none

def bytesKv (ws : List String) (key : String) : Option Bytes := (kv ws key).bind parseBytes

def optBytesKv (ws : List String) (key : String) : Option (Option Bytes) :=
  match kv ws key with
  | none => none
  | some "-" => some none
  | some v => (parseBytes v).map some

def bytesListKv (ws : List String) (key : String) : Option (List Bytes) :=
  match kv ws key with
  | none => none
  | some "-" => some []
  | some v => (v.splitOn ",").mapM parseBytes

def optBoolKv (ws : List String) (key : String) : Option (Option Bool) :=
  match kv ws key with
  | some "-" => some none
  | some "1" => some (some true)
  | some "0" => some (some false)
  | _ => none

def b01 (b : Bool) : String := if b then "1" else "0"

/-- the per-line `Crypto`: Keccak computed in Lean, the two secp256k1 calls answered from the witness -/
def witnessCrypto (h rs : Option Bytes) (rec : Option Nat) (pk : Option Bytes) (ver : Option Bool) : Crypto :=
  { keccak := Keccak.keccak256
    recover := fun h' rs' rec' => if some h' = h ∧ some rs' = rs ∧ some rec' = rec then pk else none
    verify := fun h' rs' pk' => if some h' = h ∧ some rs' = rs ∧ some pk' = pk then ver else none }

def cryptoOf (ws : List String) : Option Crypto := do
  let h ← optBytesKv ws "h"; let rs ← optBytesKv ws "rs"; let rec ← optNatKv ws "rec"
  let pk ← optBytesKv ws "pk"; let ver ← optBoolKv ws "ver"
  pure (witnessCrypto h rs rec pk ver)

structure DS where
  env : Env
  st : Option State

def DS.init : DS := { env := { bal := fun _ => 0, cwl := none }, st := none }

def DS.curEnv (d : DS) : Env := match d.st with | some s => s.env | none => d.env

def members (e : Env) : List Bytes := match e.cwl with | some w => w.members | none => []

def envStep (d : DS) (op : EnvOp) : DS × Bool :=
  match d.st with
  | some s => match step { keccak := id, recover := fun _ _ _ => none, verify := fun _ _ _ => none } s (.env op) with
    | .ok s' => ({ d with st := some s' }, true)
    | .error _ => (d, false)
  | none => match d.env.step op with
    | .ok e' => ({ d with env := e' }, true)
    | .error _ => (d, false)

def coinsOf (l : List (Nat × Nat)) : List Coin := l.map fun (d, a) => ⟨d, a⟩

def c16Line (d : DS) (line : String) : DS × String :=
  let ws := words line
  let r : Option (DS × String) :=
    match ws.head? with
    | some "case" => do
      let wl ← boolKv ws "wl"; let lim ← natKv ws "wlimit"; let adm ← bytesKv ws "admin"
      let cwl := if wl then some { members := [], memberLimit := lim, admins := [adm], mutable := true : CollWl } else none
      pure ({ env := { bal := fun _ => 0, cwl := cwl }, st := none }, "case")
    | some "fund" => do
      let to ← bytesKv ws "to"; let amt ← natKv ws "amt"
      let (d', _) := envStep d (.fund to amt)
      pure (d', s!"ok s={d'.curEnv.bal to}")
    | some "inst" => do
      let sender ← bytesKv ws "sender"; let funds ← pairListKv ws "funds"; let amount ← natKv ws "amount"
      let limit ← natKv ws "limit"; let tpl ← bytesKv ws "tpl"; let addrs ← bytesListKv ws "addrs"
      let self ← optBytesKv ws "self"
      match d.st with
      | some _ => none
      | none =>
        -- on failure the implementation creates no contract: `self=-`; the model must fail on its own
        match instantiate d.env (self.getD []) sender (coinsOf funds)
                { template := tpl, amount := amount, addresses := addrs, perAddressLimit := limit } with
        | .ok s => pure ({ d with st := some s }, s!"ok b={s.env.bal s.self} s={s.env.bal sender}")
        | .error _ => pure (d, s!"err s={d.env.bal sender}")
    | some "claim" => do
      let sender ← bytesKv ws "sender"; let eth ← bytesKv ws "eth"; let sig ← bytesKv ws "sig"
      let C ← cryptoOf ws
      match d.st with
      | none => pure (d, "err")
      | some s =>
        let (s', okk) := match step C s (.claim sender eth sig) with
          | .ok s' => (s', true)
          | .error _ => (s, false)
        pure ({ d with st := some s' },
          s!"{if okk then "ok" else "err"} b={s'.env.bal s'.self} s={s'.env.bal sender} c={s'.counts eth} m={b01 ((members s'.env).contains sender)} n={(members s'.env).length} e={b01 (airdropEligible s' eth)}")
    | some "cwl_add" => do
      let sender ← bytesKv ws "sender"; let who ← bytesKv ws "who"
      let (d', okk) := envStep d (.cwlAdd sender who)
      pure (d', s!"{if okk then "ok" else "err"} n={(members d'.curEnv).length} m={b01 ((members d'.curEnv).contains who)}")
    | some "cwl_rm" => do
      let sender ← bytesKv ws "sender"; let who ← bytesKv ws "who"
      let (d', okk) := envStep d (.cwlRemove sender who)
      pure (d', s!"{if okk then "ok" else "err"} n={(members d'.curEnv).length} m={b01 ((members d'.curEnv).contains who)}")
    | some "cwl_admins" => do
      let sender ← bytesKv ws "sender"; let admins ← bytesListKv ws "admins"
      let (d', okk) := envStep d (.cwlAdmins sender admins)
      pure (d', if okk then "ok" else "err")
    | some "q_elig" => do
      let eth ← bytesKv ws "eth"
      match d.st with
      | none => pure (d, "err")
      | some s => pure (d, s!"ok {b01 (airdropEligible s eth)}")
    | some "q_imm" =>
      match d.st with
      | none => pure (d, "err")
      | some s => pure (d, s!"ok count={addressCount s} limit={s.perAddressLimit}")
    | some "q_minter" => pure (d, if d.st.isSome then "ok 1" else "err")
    -- function level
    | some "repl" => do
      let tpl ← bytesKv ws "tpl"; let w ← bytesKv ws "w"
      pure (d, s!"ok {renderBytes (claimText tpl w)}")
    | some "replp" => do
      let pat ← bytesKv ws "pat"; let rep ← bytesKv ws "rep"; let s ← bytesKv ws "s"
      pure (d, s!"ok {renderBytes (replaceAll pat rep s)}")
    | some "contains" => do
      let tpl ← bytesKv ws "tpl"
      pure (d, s!"ok {b01 (containsPat WALLET tpl)}")
    | some "keccak" => do
      let x ← bytesKv ws "d"
      pure (d, s!"ok {renderBytes (Keccak.keccak256 x)}")
    | some "envelope" => do
      let x ← bytesKv ws "text"
      pure (d, s!"ok {renderBytes (envelope x)}")
    | some "hexdec" => do
      let x ← bytesKv ws "s"
      pure (d, match hexDecode x with | some b => s!"ok {renderBytes b}" | none => "err")
    | some "decode" => do
      let x ← bytesKv ws "a"
      pure (d, match decodeAddress x with | some b => s!"ok {renderBytes b}" | none => "err")
    | some "recparam" => do
      let v ← natKv ws "v"
      pure (d, match getRecoveryParam v with | some r => s!"ok {r}" | none => "err")
    | some "verify" => do
      let text ← bytesKv ws "text"; let sig ← bytesKv ws "sig"; let signer ← bytesKv ws "signer"
      let C ← cryptoOf ws
      pure (d, match verifyEthereumText C text sig signer with | some b => s!"ok {b01 b}" | none => "err")
    | _ => none
  r.getD (d, "bad-op")

def main : IO Unit := runDriverRaw DS.init c16Line
