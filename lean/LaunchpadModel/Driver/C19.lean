import LaunchpadModel.Model.TradingTime
import LaunchpadModel.Model.Proto
/-!
Driver for C19 (trading start time). One output line per input line.

* `case kind=<0..10 minter crate> now=<ns> offset=<secs> minter=<addr id the chain will assign>`  → `case`
* `time t=<ns>`                                                        next block time
* `sudo_offset v=<secs|->`                                             factory sudo UpdateParams{max_trading_offset_secs}
* `create coll=<0 base|1 updatable|2 nt|3 metadata> creator=<a> start=<ns> end=<ns|-> trading=<ns|->`
* `upd_trading sender=<a> t=<ns|-> funds=<n>`                          minter UpdateStartTradingTime
* `upd_start sender=<a> t=<ns> funds=<n>` / `upd_end …`                minter UpdateStartTime / UpdateEndTime
* `coll_trading sender=<a> t=<ns|->`                                   UpdateStartTradingTime sent to the collection
* `coll_creator sender=<a> new=<a>` / `coll_freeze sender=<a>`         UpdateCollectionInfo{creator} / FreezeCollectionInfo
* `coll_own sender=<a> act=<0 transfer|1 accept|2 renounce> new=<a>`   UpdateOwnership

Answer: `<ok|err> now= off= tr=<none|-|ns> start=<ns|-> end=<ns|-> creator=<a|-> owner=<a|-> pend=<a|->`
(`tr=none`: no collection yet; `tr=-`: collection without trading time).
-/
open LP LP.Proto LP.TT

def familyOf (k : Nat) : Family :=
  if k ≤ 5 then .vending else if k ≤ 8 then .openEdition else if k = 9 then .tokenMerge else .base

def collOf (k : Nat) : CollKind :=
  if k = 1 then .updatable else if k = 2 then .nt else if k = 3 then .metadata else .base

def obs (w : World) : String :=
  match w.mc with
  | none => s!"now={w.now} off={w.offset} tr=none start=- end=- creator=- owner=- pend=-"
  | some (m, c) =>
    let st := if w.family = .base then "-" else toString m.mintStart
    s!"now={w.now} off={w.offset} tr={renderOpt c.trading} start={st} end={renderOpt m.endTime} creator={c.creator} owner={renderOpt c.owner} pend={renderOpt c.pending}"

def parseOp (ws : List String) : Option Op :=
  match ws.head? with
  | some "time" => do let t ← natKv ws "t"; pure (.setTime t)
  | some "sudo_offset" => do let v ← optNatKv ws "v"; pure (.sudoOffset v)
  | some "create" => do
    let k ← natKv ws "coll"; let c ← natKv ws "creator"; let s ← natKv ws "start"
    let e ← optNatKv ws "end"; let t ← optNatKv ws "trading"
    pure (.create (collOf k) c s e t)
  | some "upd_trading" => do let s ← natKv ws "sender"; let t ← optNatKv ws "t"; let f ← natKv ws "funds"; pure (.updTrading s t f)
  | some "upd_start" => do let s ← natKv ws "sender"; let t ← natKv ws "t"; let f ← natKv ws "funds"; pure (.updStart s t f)
  | some "upd_end" => do let s ← natKv ws "sender"; let t ← natKv ws "t"; let f ← natKv ws "funds"; pure (.updEnd s t f)
  | some "coll_trading" => do let s ← natKv ws "sender"; let t ← optNatKv ws "t"; pure (.collTrading s t)
  | some "coll_creator" => do let s ← natKv ws "sender"; let n ← natKv ws "new"; pure (.collCreator s n)
  | some "coll_freeze" => do let s ← natKv ws "sender"; pure (.collFreeze s)
  | some "coll_own" => do
    let s ← natKv ws "sender"; let a ← natKv ws "act"; let n ← natKv ws "new"
    pure (.collOwn s (if a = 0 then .transfer n else if a = 1 then .accept else .renounce))
  | _ => none

def c19Step (w : World) (line : String) : World × String :=
  let ws := words line
  match ws.head? with
  | some "case" =>
    (init (familyOf ((natKv ws "kind").getD 0)) ((natKv ws "now").getD 0) ((natKv ws "offset").getD 0) ((natKv ws "minter").getD 0), "case")
  | _ =>
    match parseOp ws with
    | none => (w, "bad-op")
    | some op =>
      match step w op with
      | .ok w' => (w', s!"ok {obs w'}")
      | .error _ => (w, s!"err {obs w}")

def main : IO Unit := runDriverRaw (init .vending 0 0 0) c19Step
