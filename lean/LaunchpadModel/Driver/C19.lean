import LaunchpadModel.Model.TradingTime
import LaunchpadModel.Model.TradingTimeX
import LaunchpadModel.Model.Proto
/-!
Driver for C19 (trading start time). One output line per input line. Runs `LP.TT.stepX` (= `LP.TT.step` on every `Op`).

* `case … kind=<0..10 minter crate> now=<ns> offset=<secs> minter=<id the harness uses for the minter contract>`  → `case`
* `time t=<ns>`                                                        next block time
* `sudo_offset v=<secs|-> [bps=… extra=…]`                             factory sudo UpdateParams{max_trading_offset_secs} (other
                                                                       fields of a partial update are not part of the model)
* `mig_factory v=<secs|-> msg=<0|1>`                                   factory migrate; msg=0: `null` message (inert)
* `create coll=<0 base|1 updatable|2 nt|3 metadata> creator=<a> start=<ns> end=<ns|-> trading=<ns|-> [acc=<0|1>]`
* `upd_trading sender=<a> t=<ns|-> funds=<n>`                          minter UpdateStartTradingTime
* `upd_start sender=<a> t=<ns> funds=<n> [acc=]` / `upd_end …`         minter UpdateStartTime / UpdateEndTime
* `coll_trading sender=<a> t=<ns|->`                                   UpdateStartTradingTime sent to the collection
* `coll_creator sender=<a> new=<a> [acc=]` / `coll_freeze sender=<a> [acc=]`
* `coll_own sender=<a> act=<0 transfer|1 accept|2 renounce> new=<a>`   UpdateOwnership
* `mig_minter …`, `mig_coll …`, `coll_raw …`, `minter_raw …`, `minter_sudo …`, `factory_raw …`   inert for this property

Answers (`<obs>` = `now= off= tr=<none|-|ns> start=<ns|-> creator=<a|-> owner=<a|-> pend=<a|-> ## end=<ns|->`):
* ops C19 owns:                      `<ok|err> <obs>`
* `create` with the witness `acc=`:  `<ok|err> <obs> dec=<ok|err>`   (dec = the unwitnessed `LP.TT.step` decision, DRIFT only)
* witnessed env ops (`acc=`):        `env <obs> dec=<ok|err>`
* inert ops:                         `any <obs>`
(`tr=none`: no collection yet; `tr=-`: collection without trading time). Everything after ` ## ` is outside the projection.
-/
open LP LP.Proto LP.TT

def familyOf (k : Nat) : Family :=
  if k ≤ 5 then .vending else if k ≤ 8 then .openEdition else if k = 9 then .tokenMerge else .base

def collOf (k : Nat) : CollKind :=
  if k = 1 then .updatable else if k = 2 then .nt else if k = 3 then .metadata else .base

/-- (primary, drift) -/
def obs (w : World) : String × String :=
  match w.mc with
  | none => (s!"now={w.now} off={w.offset} tr=none start=- creator=- owner=- pend=-", "end=-")
  | some (m, c) =>
    let st := if w.family = .base then "-" else toString m.mintStart
    (s!"now={w.now} off={w.offset} tr={renderOpt c.trading} start={st} creator={c.creator} owner={renderOpt c.owner} pend={renderOpt c.pending}",
     s!"end={renderOpt m.endTime}")

def parseOp (ws : List String) : Option Op :=
  match ws.head? with
  | some "time" => do let t ← natKv ws "t"; pure (.setTime t)
  | some "sudo_offset" => do let v ← optNatKv ws "v"; pure (.sudoOffset v)
  | some "create" => do
    let k ← natKv ws "coll"; let c ← natKv ws "creator"; let s ← natKv ws "start"
    let e ← optNatKv ws "end"; let t ← optNatKv ws "trading"
    pure (.create (collOf k) c s e t)
  | some "upd_trading" => do let s ← natKv ws "sender"; let t ← optNatKv ws "t"; let f ← natKv ws "funds"; pure (.updTrading s t f)
  | some "upd_start" => do let s ← natKv ws "sender"; let t ← natKv ws "t"; let f ← natKv ws "funds"; pure (.updStart s t f)
  | some "upd_end" => do let s ← natKv ws "sender"; let t ← natKv ws "t"; let f ← natKv ws "funds"; pure (.updEnd s t f)
  | some "coll_trading" => do let s ← natKv ws "sender"; let t ← optNatKv ws "t"; pure (.collTrading s t)
  | some "coll_creator" => do let s ← natKv ws "sender"; let n ← natKv ws "new"; pure (.collCreator s n)
  | some "coll_freeze" => do let s ← natKv ws "sender"; pure (.collFreeze s)
  | some "coll_own" => do
    let s ← natKv ws "sender"; let a ← natKv ws "act"; let n ← natKv ws "new"
    pure (.collOwn s (if a = 0 then .transfer n else if a = 1 then .accept else .renounce))
  | _ => none

/-- the witnessed form of an `Op` (the implementation's verdict `acc` as environment input), if it has one -/
def witnessed (op : Op) (acc : Bool) : Option OpX :=
  match op with
  | .create k c s e r => some (.createW k c s e r acc)
  | .updStart _ t _ => some (if acc then .env (.startSet t) else .inert)
  | .updEnd _ t _ => some (if acc then .env (.endSet t) else .inert)
  | .collCreator _ n => some (if acc then .env (.creatorSet n) else .inert)
  | .collFreeze _ => some (if acc then .env .frozenSet else .inert)
  | _ => none

def inertOps : List String := ["mig_minter", "mig_coll", "coll_raw", "minter_raw", "minter_sudo", "factory_raw"]

def render (word : String) (w : World) (extra : String) : String :=
  let (p, d) := obs w
  s!"{word} {p} ## {d}{extra}"

def word (r : Except Err World) : String := match r with | .ok _ => "ok" | .error _ => "err"

def c19Step (w : World) (line : String) : World × String :=
  let ws := words line
  match ws.head? with
  | some "case" =>
    (init (familyOf ((natKv ws "kind").getD 0)) ((natKv ws "now").getD 0) ((natKv ws "offset").getD 0) ((natKv ws "minter").getD 0), "case")
  | some "mig_factory" =>
    match boolKv ws "msg", optNatKv ws "v" with
    | some true, some v => let w' := stepX' w (.migFactory v); (w', render "ok" w' "")
    | some false, _ => (w, render "ok" w "")
    | _, _ => (w, "bad-op")
  | some h =>
    if inertOps.contains h then (stepX' w .inert, render "any" w "")
    else
      match parseOp ws with
      | none => (w, "bad-op")
      | some op =>
        match (boolKv ws "acc").bind (witnessed op) with
        | some opx =>
          let dec := word (step w op)
          let r := stepX w opx
          let w' := stepX' w opx
          match op with
          | .create .. => (w', render (word r) w' s!" dec={dec}")
          | _ => (w', render "env" w' s!" dec={dec}")
        | none =>
          let r := stepX w (.base op)
          let w' := stepX' w (.base op)
          (w', render (word r) w' "")
  | none => (w, "bad-op")

def main : IO Unit := runDriverRaw (init .vending 0 0 0) c19Step
