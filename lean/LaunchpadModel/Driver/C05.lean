import LaunchpadModel.Model.Priv
import LaunchpadModel.Model.Proto
/-!
Driver for C05 (runs `LP.Priv.step`, `LP.Priv.principal`, `LP.Priv.authorised` — the definitions the theorems are about).

Lines (one output line per input line):

* `case <label…> now=<n> adm=<a> own=<a|-> pend=<a|-> pex=<n|-> cr=<a> fz=<0|1> wa=<list> wm=<0|1> sa=<a|->
   mem=<list> ga=<a|-> ms=<list> pv=<n> st=<n>` — initial authorisation state as observed on the real contracts
  → `case <obs>`
* `t now=<n>` → `ok <obs>`
* `x k=<kind> m=<msg> c=<addr> ct=<0|1> [nc=<a|->] [no=<a>] [ex=<n|->] [al=<list>] [na=<a|->] [add=<list>] [rm=<list>] w=<0|1>`
  → `ok <obs>` / `err <obs>`
* `i k=<kind> c=<addr> [mt=<addr>] ct=<0|1> w=<0|1>` → the same (`mt` = the address NAMED in the `minter` field of a collection's
  instantiate message: ignored by the model on purpose — only the SENDER decides)
* `s k=<kind> m=<msg> v=<n> w=<0|1>` → the same
* `row k=<kind> m=<msg>` → `cls=<principal class>`; `irow k=<kind>` → `cls=<instantiate principal class>`
* `cover k=<kind> m=<msg> …` → `n=<b> g=<b> gp=<b>`: the coverage the table demands of the row (`reservable`, `handsOver`)
* `m=other` = a message kind the table does not list (default-deny, `MsgKind.other`); the real name rides along as `mn=`

`<obs>` = `adm= own= pend= pex= cr= fz= wa= wm= sa= mem= ga= pv= st= ## wa_stored=` (members and admins sorted numerically;
after ` ## `: the stored order of the admin list — outside the property's projection).
-/
open LP LP.Proto LP.Priv

def b01 (b : Bool) : String := if b then "1" else "0"

def sortNats (l : List Nat) : List Nat := l.mergeSort (fun a b => decide (a ≤ b))

/-- `primary ## drift`: the whitelist admin list is compared as a set (sorted, duplicates removed) — the property constrains
who is an admin, not the stored order; the stored order is outside the projection -/
def renderObs (s : AuthState) : String :=
  s!"adm={s.minterAdmin} own={renderOpt s.collOwner} pend={renderOpt s.collPending} pex={renderOpt s.collPendingExpiry} " ++
  s!"cr={s.creator} fz={b01 s.collFrozen} wa={renderNats (sortNats s.wlAdmins).eraseDups} wm={b01 s.wlMutable} sa={renderOpt s.splitsAdmin} " ++
  s!"mem={renderNats (sortNats s.members)} ga={renderOpt s.groupAdmin} pv={s.params} st={s.status} ## wa_stored={renderNats s.wlAdmins}"

def emptyState : AuthState :=
  { now := 0, minterAdmin := 0, collOwner := none, collPending := none, collPendingExpiry := none, creator := 0,
    collFrozen := false, wlAdmins := [], wlMutable := false, splitsAdmin := none, members := [], groupAdmin := none,
    mergeSources := [], params := 0, status := 0 }

def parseState (ws : List String) : Option AuthState := do
  let now ← natKv ws "now"; let adm ← natKv ws "adm"; let own ← optNatKv ws "own"; let pend ← optNatKv ws "pend"
  let pex ← optNatKv ws "pex"; let cr ← natKv ws "cr"; let fz ← boolKv ws "fz"; let wa ← natListKv ws "wa"
  let wm ← boolKv ws "wm"; let sa ← optNatKv ws "sa"; let mem ← natListKv ws "mem"; let ga ← optNatKv ws "ga"
  let ms ← natListKv ws "ms"; let pv ← natKv ws "pv"; let st ← natKv ws "st"
  pure { now := now, minterAdmin := adm, collOwner := own, collPending := pend, collPendingExpiry := pex, creator := cr,
         collFrozen := fz, wlAdmins := wa, wlMutable := wm, splitsAdmin := sa, members := mem, groupAdmin := ga,
         mergeSources := ms, params := pv, status := st }

def parseArgs (ws : List String) : Args :=
  { newCreator := ((optNatKv ws "nc").getD none),
    newOwner := (natKv ws "no").getD 0,
    expiry := (optNatKv ws "ex").getD none,
    admins := (natListKv ws "al").getD [],
    newAdmin := (optNatKv ws "na").getD none,
    add := (natListKv ws "add").getD [],
    remove := (natListKv ws "rm").getD [] }

def parseOp (ws : List String) : Option Op :=
  match ws.head? with
  | some "t" => do let n ← natKv ws "now"; pure (.tick n)
  | some "x" => do
    let k ← (kv ws "k").bind Kind.parse; let m ← (kv ws "m").bind MsgKind.parse
    let c ← natKv ws "c"; let ct ← boolKv ws "ct"; let w ← boolKv ws "w"
    pure (.exec ⟨c, ct⟩ k m (parseArgs ws) w)
  | some "i" => do
    let k ← (kv ws "k").bind Kind.parse; let c ← natKv ws "c"; let ct ← boolKv ws "ct"; let w ← boolKv ws "w"
    pure (.inst ⟨c, ct⟩ k w)
  | some "s" => do
    let k ← (kv ws "k").bind Kind.parse; let m ← (kv ws "m").bind MsgKind.parse
    let v ← natKv ws "v"; let w ← boolKv ws "w"
    pure (.sudo k m v w)
  | _ => none

def c05Line (s : AuthState) (line : String) : AuthState × String :=
  let ws := words line
  match ws.head? with
  | some "case" =>
    match parseState ws with
    | some s0 => (s0, s!"case {renderObs s0}")
    | none => (emptyState, "bad-case")
  | some "row" =>
    match (kv ws "k").bind Kind.parse, (kv ws "m").bind MsgKind.parse with
    | some k, some m => (s, s!"cls={(principal k m).name}")
    | _, _ => (s, "bad-op")
  | some "irow" =>
    match (kv ws "k").bind Kind.parse with
    | some k => (s, s!"cls={(instPrincipal k).name}")
    | none => (s, "bad-op")
  | some "cover" =>
    -- which coverage the LEAN table demands of a row: n = the principal passed once, g = the guard was reached,
    -- gp = the guard was reached after the principal had been handed over
    match (kv ws "k").bind Kind.parse, (kv ws "m").bind MsgKind.parse with
    | some k, some m =>
      let p := principal k m
      (s, s!"n={b01 (reservable p)} g={b01 (reservable p)} gp={b01 (reservable p && handsOver p)}")
    | _, _ => (s, "bad-op")
  | _ =>
    match parseOp ws with
    | none => (s, "bad-op")
    | some op =>
      match step s op with
      | some s' => (s', s!"ok {renderObs s'}")
      | none => (s, s!"err {renderObs s}")

def main : IO Unit := runDriverRaw emptyState c05Line
