import LaunchpadModel.Model.PriceRules
import LaunchpadModel.Model.Proto
/-!
Driver for C07 (price rules). One output line per input line.

* `case kind=<0..8> now=<ns> fd=<denom> fmin=<amt> air=<amt> bps=<n>`  → `case`   (fresh factory, no minter)
* `t now=<ns>`                                                         next block time
* `wl d=<denom> p=<amt> s=<ns> e=<ns>`                                 instantiate a whitelist (index = creation order)
* `create by=<a> d=<denom> p=<amt> s=<ns> e=<ns|-> cap=<0|1> wl=<k|->`  CreateMinter through the factory
* `ump by=<a> paid=<0|1> p=<amt>`                                      UpdateMintPrice
* `udp by=<a> paid=<0|1> p=<amt>` / `rdp by=<a> paid=<0|1>`            UpdateDiscountPrice / RemoveDiscountPrice
* `swl by=<a> paid=<0|1> k=<k>`                                        SetWhitelist
* `ust by=<a> paid=<0|1> t=<ns>`                                       UpdateStartTime
* `sudomin d=<denom> a=<amt>` / `sudoair d=<denom> a=<amt>`            governance UpdateParams
* `mint buyer=<a> funds=<d:a,…|->`                                     Mint {} by an eligible buyer
* `migrate va=<n> vb=<n> vc=<n>`                                       migrate with stored version va.vb.vc
* `probe`                                                              mint attempts with current_price −1 / ±0 / +1 / wrong denom

Answer: `<ok|err> <obs>`; `probe` answers `probe cur=<d:a> lo=<0|1|-> eq=<0|1> hi=<0|1> wd=<0|1>` (or `probe none`).
`obs` = `fmin=<d:a> air=<d:a> nwl=<n> m=none` or
`fmin= air= nwl= pub=<d:a> disc=<d:a|-> last=<ns|-> start=<ns> stop=<ns|-> wl=<k|-> qpub= qair= qwl=<d:a|-> qcur= qdisc=<d:a|->`.
-/
open LP LP.Proto LP.PriceRules

def rc (c : Coin) : String := s!"{c.denom}:{c.amount}"
def roc (c : Option Coin) : String := match c with | some c => rc c | none => "-"
def b2s (b : Bool) : String := if b then "1" else "0"

def obs (w : World) : String :=
  let head := s!"fmin={rc w.fac.minPrice} air={rc w.fac.airdrop} nwl={w.wls.length}"
  match w.m with
  | none => s!"{head} m=none"
  | some m =>
    let q := queryMintPrice w m
    let last := if w.v.oe then "-" else toString m.lastDiscount
    s!"{head} pub={rc m.price} disc={roc m.discount} last={last} start={m.start} stop={renderOpt m.stop} wl={renderOpt m.wl} qpub={rc q.publicPrice} qair={rc q.airdropPrice} qwl={roc q.whitelistPrice} qcur={rc q.currentPrice} qdisc={roc q.discountPrice}"

def coinKv (ws : List String) (d a : String) : Option Coin := do
  let dn ← natKv ws d; let am ← natKv ws a; pure ⟨dn, am⟩

def parseOp (ws : List String) : Option Op :=
  match ws.head? with
  | some "t" => do let t ← natKv ws "now"; pure (.setTime t)
  | some "wl" => do let c ← coinKv ws "d" "p"; let s ← natKv ws "s"; let e ← natKv ws "e"; pure (.newWl c s e)
  | some "create" => do
    let by_ ← natKv ws "by"; let c ← coinKv ws "d" "p"; let s ← natKv ws "s"; let e ← optNatKv ws "e"
    let cap ← boolKv ws "cap"; let wl ← optNatKv ws "wl"
    pure (.create by_ c s e cap wl)
  | some "ump" => do let a ← natKv ws "by"; let pd ← boolKv ws "paid"; let p ← natKv ws "p"; pure (.updateMintPrice a pd p)
  | some "udp" => do let a ← natKv ws "by"; let pd ← boolKv ws "paid"; let p ← natKv ws "p"; pure (.updateDiscount a pd p)
  | some "rdp" => do let a ← natKv ws "by"; let pd ← boolKv ws "paid"; pure (.removeDiscount a pd)
  | some "swl" => do let a ← natKv ws "by"; let pd ← boolKv ws "paid"; let k ← natKv ws "k"; pure (.setWhitelist a pd k)
  | some "ust" => do let a ← natKv ws "by"; let pd ← boolKv ws "paid"; let t ← natKv ws "t"; pure (.updateStart a pd t)
  | some "sudomin" => do let c ← coinKv ws "d" "a"; pure (.sudoMin c)
  | some "sudoair" => do let c ← coinKv ws "d" "a"; pure (.sudoAirdrop c)
  | some "mint" => do let f ← pairListKv ws "funds"; pure (.mint (f.map fun (d, a) => ⟨d, a⟩))
  | _ => none

/-- funds the harness attaches for an amount in a denom (a zero coin is never sent) -/
def fundsFor (d a : Nat) : List Coin := if a = 0 then [] else [⟨d, a⟩]

def okS (r : Except Err Unit) : String := match r with | .ok _ => "1" | .error _ => "0"

def probe (w : World) : String :=
  match w.m with
  | none => "probe none"
  | some m =>
    let cur := currentPrice w m
    let lo := if cur.amount = 0 then "-" else okS (mintCheck w m (fundsFor cur.denom (cur.amount - 1)))
    let eq := okS (mintCheck w m (fundsFor cur.denom cur.amount))
    let hi := okS (mintCheck w m (fundsFor cur.denom (cur.amount + 1)))
    let wd := okS (mintCheck w m (fundsFor (cur.denom + 7) (if cur.amount = 0 then 1 else cur.amount)))
    s!"probe cur={rc cur} lo={lo} eq={eq} hi={hi} wd={wd}"

def c07Step (w : World) (line : String) : World × String :=
  let ws := words line
  match ws.head? with
  | some "case" =>
    let k := (natKv ws "kind").getD 0
    let fd := (natKv ws "fd").getD 0
    let w' := init (variantOf k) ((natKv ws "now").getD 0)
      { minPrice := ⟨fd, (natKv ws "fmin").getD 0⟩, airdrop := ⟨0, (natKv ws "air").getD 0⟩, feeBps := (natKv ws "bps").getD 0 }
    (w', "case")
  | some "probe" => (w, probe w)
  | some "migrate" =>
    match natKv ws "va", natKv ws "vb", natKv ws "vc" with
    | some a, some b, some c =>
      match migrate w (a, b, c) with
      | .ok w' => (w', s!"ok {obs w'}")
      | .error _ => (w, s!"err {obs w}")
    | _, _, _ => (w, "bad-op")
  | _ =>
    match parseOp ws with
    | none => (w, "bad-op")
    | some op =>
      match step w op with
      | .ok w' => (w', s!"ok {obs w'}")
      | .error _ => (w, s!"err {obs w}")

def main : IO Unit :=
  runDriverRaw (init (variantOf 0) 0 { minPrice := ⟨0, 0⟩, airdrop := ⟨0, 0⟩, feeBps := 0 }) c07Step
