import LaunchpadModel.Model.PriceRules
import LaunchpadModel.Model.PriceRulesT
import LaunchpadModel.Model.Proto
/-!
Driver for C07 (price rules). One output line per input line. The state is `LP.PriceRulesT.WorldT`; every message of the
aspect model runs through `LP.PriceRules.step` on `sync w` (the functions the theorems are about).

* `case kind=<0..8> now=<ns> fd=<denom> fmin=<amt> air=<amt> bps=<n> …`  → `case`   (fresh factory, no minter)
* `t now=<ns>`                                                         next block time
* `wlset k=<idx> kind=p d=<denom> p=<amt> s=<ns> e=<ns>`               whitelist contract k now has this content (plain kinds)
* `wlset k=<idx> kind=t d=<denom> p=<a,b,c> s=<..> e=<..>`             … tiered kinds (one entry per stage)
* `noop`                                                               an environment step that changed nothing
* `create by=<a> d=<denom> p=<amt> s=<ns> e=<ns|-> cap=<0|1> wl=<k|->`  CreateMinter through the factory
* `ump by=<a> paid=<0|1> p=<amt>`                                      UpdateMintPrice
* `udp by=<a> paid=<0|1> p=<amt>` / `rdp by=<a> paid=<0|1>`            UpdateDiscountPrice / RemoveDiscountPrice
* `swl by=<a> paid=<0|1> k=<k>`                                        SetWhitelist
* `ust by=<a> paid=<0|1> t=<ns>`                                       UpdateStartTime
* `sudomin d=<denom> a=<amt>` / `sudoair d=<denom> a=<amt>`            governance UpdateParams
* `uet by=<a> paid=<0|1> t=<ns>`                                       UpdateEndTime (open edition; `PriceRules.updateEnd`)
* `setstop e=<ns|->`                                                   (environment form, no longer generated) the open-edition end_time is now this
* `sudofee bps=<n>`                                                    governance UpdateParams{mint_fee_bps}
* `facmig d=<denom|-> a=<amt|-> bps=<n|->`                             factory migrate (with / without an UpdateParamsMsg)
* `mint buyer=<a> funds=<d:a,…|->`                                     Mint {} by an eligible buyer
* `migrate va=<n> vb=<n> vc=<n>`                                       minter migrate with stored version va.vb.vc
* `surface`                                                            every other ExecuteMsg variant of the minter, from a stranger and from the admin
* `probe`                                                              mint attempts with current_price −1 / ±0 / +1 / wrong denom

Answer: `<tag> <P> ## <D>`. Only the part before ` ## ` decides agreement (the property's projection); `D` holds what
other properties own. `tag` = `ok|err` for the operations of the property; `env` for environment steps (whitelist
contracts, fee rate, airdrop price, other messages) whose acceptance is not C07's business; `dust` for a mint that pays
exactly the advertised price while the network fee is dust (whether sg1 can split it is C06's business).
`P` = `fmin=<d:a> m=none` or `fmin= pub=<d:a> disc=<d:a|-> last=<ns|-> start=<ns> wl=<k|-> qpub= qwl=<d:a|-> qcur= qdisc=<d:a|->`;
`D` = `[st=<ok|err>] air=<d:a> nwl=<n> [stop=<ns|-> qair=<d:a>]`.
`probe` answers `probe cur=<d:a> lo=<0|1|-> eq=<0|1|*> hi=<0|1> wd=<0|1> ## eqd=<0|1|->` (or `probe none`).
-/
open LP LP.Proto LP.PriceRules LP.PriceRulesT

def rc (c : Coin) : String := s!"{c.denom}:{c.amount}"
def roc (c : Option Coin) : String := match c with | some c => rc c | none => "-"
def b2s (b : Bool) : String := if b then "1" else "0"

/-- the projection: what C07 constrains, and the mechanism state its theorems use -/
def obsP (w : World) : String :=
  match w.m with
  | none => s!"fmin={rc w.fac.minPrice} m=none"
  | some m =>
    let q := queryMintPrice w m
    let last := if w.v.oe then "-" else toString m.lastDiscount
    s!"fmin={rc w.fac.minPrice} pub={rc m.price} disc={roc m.discount} last={last} start={m.start} wl={renderOpt m.wl} qpub={rc q.publicPrice} qwl={roc q.whitelistPrice} qcur={rc q.currentPrice} qdisc={roc q.discountPrice}"

/-- outside the projection -/
def obsD (w : World) : String :=
  let head := s!"air={rc w.fac.airdrop} nwl={w.wls.length}"
  match w.m with
  | none => head
  | some m => s!"{head} stop={renderOpt m.stop} qair={rc (queryMintPrice w m).airdropPrice}"

def answer (tag : String) (st : Option Bool) (w : WorldT) : String :=
  let sw := sync w
  let stS := match st with | some true => "st=ok " | some false => "st=err " | none => ""
  s!"{tag} {obsP sw} ## {stS}{obsD sw}"

def coinKv (ws : List String) (d a : String) : Option Coin := do
  let dn ← natKv ws d; let am ← natKv ws a; pure ⟨dn, am⟩

def parseOp (ws : List String) : Option Op :=
  match ws.head? with
  | some "t" => do let t ← natKv ws "now"; pure (.setTime t)
  | some "create" => do
    let by_ ← natKv ws "by"; let c ← coinKv ws "d" "p"; let s ← natKv ws "s"; let e ← optNatKv ws "e"
    let cap ← boolKv ws "cap"; let wl ← optNatKv ws "wl"
    pure (.create by_ c s e cap wl)
  | some "ump" => do let a ← natKv ws "by"; let pd ← boolKv ws "paid"; let p ← natKv ws "p"; pure (.updateMintPrice a pd p)
  | some "udp" => do let a ← natKv ws "by"; let pd ← boolKv ws "paid"; let p ← natKv ws "p"; pure (.updateDiscount a pd p)
  | some "rdp" => do let a ← natKv ws "by"; let pd ← boolKv ws "paid"; pure (.removeDiscount a pd)
  | some "swl" => do let a ← natKv ws "by"; let pd ← boolKv ws "paid"; let k ← natKv ws "k"; pure (.setWhitelist a pd k)
  | some "ust" => do let a ← natKv ws "by"; let pd ← boolKv ws "paid"; let t ← natKv ws "t"; pure (.updateStart a pd t)
  | some "uet" => do let a ← natKv ws "by"; let pd ← boolKv ws "paid"; let t ← natKv ws "t"; pure (.updateEnd a pd t)
  | some "sudomin" => do let c ← coinKv ws "d" "a"; pure (.sudoMin c)
  | some "sudoair" => do let c ← coinKv ws "d" "a"; pure (.sudoAirdrop c)
  | some "mint" => do let f ← pairListKv ws "funds"; pure (.mint (f.map fun (d, a) => ⟨d, a⟩))
  | _ => none

def zip3 : List Nat → List Nat → List Nat → List (Nat × Nat × Nat)
  | a :: as, b :: bs, c :: cs => (a, b, c) :: zip3 as bs cs
  | _, _, _ => []

def parseWlC (ws : List String) : Option WlC := do
  let d ← natKv ws "d"
  match kv ws "kind" with
  | some "p" => do
    let p ← natKv ws "p"; let s ← natKv ws "s"; let e ← natKv ws "e"
    pure (.plain ⟨⟨d, p⟩, s, e⟩)
  | some "t" => do
    let ps ← natListKv ws "p"; let ss ← natListKv ws "s"; let es ← natListKv ws "e"
    pure (.tiered ((zip3 ps ss es).map fun (p, s, e) => ⟨⟨d, p⟩, s, e⟩))
  | _ => none

/-- funds the harness attaches for an amount in a denom (a zero coin is never sent) -/
def fundsFor (d a : Nat) : List Coin := if a = 0 then [] else [⟨d, a⟩]

def okS (r : Except Err Unit) : String := match r with | .ok _ => "1" | .error _ => "0"

def probe (w : World) : String :=
  match w.m with
  | none => "probe none"
  | some m =>
    let cur := currentPrice w m
    let lo := if cur.amount = 0 then "-" else okS (mintCheck w m (fundsFor cur.denom (cur.amount - 1)))
    let eq := okS (mintCheck w m (fundsFor cur.denom cur.amount))
    let hi := okS (mintCheck w m (fundsFor cur.denom (cur.amount + 1)))
    let wd := okS (mintCheck w m (fundsFor (cur.denom + 7) (if cur.amount = 0 then 1 else cur.amount)))
    if dusty w cur then s!"probe cur={rc cur} lo={lo} eq=* hi={hi} wd={wd} ## eqd={eq}"
    else s!"probe cur={rc cur} lo={lo} eq={eq} hi={hi} wd={wd} ## eqd=-"

/-- a mint that pays exactly the advertised price while the network fee is dust -/
def dustMint (w : World) (funds : List Coin) : Bool :=
  match w.m with
  | none => false
  | some m => let cur := currentPrice w m; dusty w cur && decide (funds = [cur])

def runOp (w : WorldT) (op : OpT) (tag : Option String) (showSt : Bool) : WorldT × String :=
  match stepT w op with
  | .ok w' => (w', answer (tag.getD "ok") (if showSt then some true else none) w')
  | .error _ => (w, answer (tag.getD "err") (if showSt then some false else none) w)

def c07Step (w : WorldT) (line : String) : WorldT × String :=
  let ws := words line
  match ws.head? with
  | some "case" =>
    let k := (natKv ws "kind").getD 0
    let fd := (natKv ws "fd").getD 0
    let w' := initT (variantOf k) ((natKv ws "now").getD 0)
      { minPrice := ⟨fd, (natKv ws "fmin").getD 0⟩, airdrop := ⟨0, (natKv ws "air").getD 0⟩, feeBps := (natKv ws "bps").getD 0 }
    (w', "case")
  | some "probe" => (w, probe (sync w))
  | some "noop" => runOp w .other (some "env") false
  | some "surface" => runOp w .other (some "env") false
  | some "wlset" =>
    match natKv ws "k", parseWlC ws with
    | some k, some c => runOp w (.wlSet k c) (some "env") false
    | _, _ => (w, "bad-op")
  | some "setstop" =>
    match optNatKv ws "e" with
    | some e => runOp w (.envStop e) (some "env") false
    | none => (w, "bad-op")
  | some "sudofee" =>
    match natKv ws "bps" with
    | some b => runOp w (.sudoFee b) (some "env") false
    | none => (w, "bad-op")
  | some "facmig" =>
    match optNatKv ws "d", optNatKv ws "a", optNatKv ws "bps" with
    | some d, some a, some b =>
      let min : Option Coin := match d, a with | some d, some a => some ⟨d, a⟩ | _, _ => none
      runOp w (.facMigrate min b) none false
    | _, _, _ => (w, "bad-op")
  | some "migrate" =>
    match natKv ws "va", natKv ws "vb", natKv ws "vc" with
    | some a, some b, some c => runOp w (.migrate (a, b, c)) none false
    | _, _, _ => (w, "bad-op")
  | _ =>
    match parseOp ws with
    | none => (w, "bad-op")
    | some op =>
      match op with
      | .sudoAirdrop _ => runOp w (.base op) (some "env") true
      | .mint f => if dustMint (sync w) f then runOp w (.base op) (some "dust") true else runOp w (.base op) none false
      | .setTime _ => runOp w (.base op) (some "env") false
      | _ => runOp w (.base op) none false

def main : IO Unit :=
  runDriverRaw ({ base := init (variantOf 0) 0 { minPrice := ⟨0, 0⟩, airdrop := ⟨0, 0⟩, feeBps := 0 }, wlcs := [] } : WorldT) c07Step
