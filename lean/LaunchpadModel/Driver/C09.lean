import LaunchpadModel.Model.Sg721
import LaunchpadModel.Model.Proto
/-!
Driver for C09 (collections). One output line per input line.

* `case kind=<base|nt|updatable|onchain> …`                                   → `case`
* `block h=<n> t=<ns>`                                                        → `blk`
* `inst s=<a> funds=<d:a,…|-> minter=<a> creator=<a> desc=<id:len> image=<id> ext=<id|-> ec=<-|0|1> stt=<n|->
   roy=<pay:share|->` + witnesses `iv=<0|1> ev=<0|1>` (does `Url::parse` accept image / external link)
* messages (all carry `s=<sender> funds=<…>`):
  `transfer to= id=` · `send to= id= payload=` + witness `recv=<0|1>` · `approve sp= id= exp=<-|n|h<N>|t<N>>` ·
  `revoke sp= id=` · `approve_all op= exp=` · `revoke_all op=` · `mint id= owner= uri=<n|-> ext=<n>` · `burn id=` ·
  `extension` · `uci desc=<id:len|-> image=<id|-> ext=<-|none|id> ec=<-|0|1> roy=<-|none|pay:share> creator=<a|->`
  + witnesses `iv= ev=` and `racc=<0|1>` (did the royalty rules — C10's — accept the requested royalty) ·
  `ustt t=<n|->` · `freeze` · `own_transfer to= exp=` · `own_accept` · `own_renounce` ·
  `freeze_meta` · `utm id= uri=<n|->` · `enable`
* `raw v=<variant> k=<n> s= funds=`  a message variant the protocol has no name for (found in the crate's JSON schema
  at run time): the model knows no such message: the state is unchanged; output `raw <state> res=<ok|err>` with the
  outcome of the call behind ` ## `
* `migrate to=<base|nt|updatable|onchain>`  (chain-level migrate to that collection's code; `to` defaults to updatable)
* `setver v=<a.b.c> [drop=1]`  (environment: the stored cw2 version; `drop=1` also removes the `royalty_updated_at` item =
  the faithful storage layout of a release below 3.1.0, `XOp.dropRoyaltyStamp`)

Output: `ok <primary> ## <drift>` / `err …` (state after the line; `-` when no collection exists), see `renderState`.
`primary` = what C09 constrains + the mechanism state of the theorems (kind, ownership, freeze flags, creator-editable
info, count, per token id/owner/uri, metadata flags). Behind ` ## ` (never decides agreement): stored version,
royalty timestamp, start-trading time, token extensions, approvals, operators, and the model's own verdict on the
royalty rules for this line.
-/
open LP LP.Proto LP.Sg721

structure D where
  kind : Kind := .base
  blk : Block := ⟨1, 1⟩
  st : Option State := none
  /-- pre-3.1.0 storage layout: the `royalty_updated_at` item is absent (`XState.ruaAbsent`) -/
  absent : Bool := false

def parseKind (s : String) : Option Kind :=
  match s with
  | "base" => some .base
  | "nt" => some .nt
  | "updatable" => some .updatable
  | "onchain" => some .onchain
  | _ => none

def kindStr : Kind → String
  | .base => "base" | .nt => "nt" | .updatable => "updatable" | .onchain => "onchain"

/-- `-` (None) | `n` | `h<N>` | `t<N>` -/
def parseOptExp (s : String) : Option (Option Exp) :=
  if s == "-" then some none
  else if s == "n" then some (some .never)
  else if s.startsWith "h" then (nat? (s.drop 1).toString).map fun n => some (.atHeight n)
  else if s.startsWith "t" then (nat? (s.drop 1).toString).map fun n => some (.atTime n)
  else none

def expStr : Exp → String
  | .never => "n"
  | .atHeight h => s!"h{h}"
  | .atTime t => s!"t{t}"

def coinsOf (l : List (Nat × Nat)) : List Coin := l.map fun (d, a) => ⟨d, a⟩

def pair? (s : String) : Option (Nat × Nat) :=
  match s.splitOn ":" with
  | [a, b] => do let x ← nat? a; let y ← nat? b; pure (x, y)
  | _ => none

/-- insertion sort by a natural key -/
def insertBy {α : Type} (key : α → Nat) (x : α) : List α → List α
  | [] => [x]
  | y :: ys => if key x ≤ key y then x :: y :: ys else y :: insertBy key x ys

def sortBy {α : Type} (key : α → Nat) (l : List α) : List α := l.foldl (fun acc x => insertBy key x acc) []

def joinOr (sep : String) (l : List String) : String := if l.isEmpty then "-" else String.intercalate sep l

def renderToken (t : Token) : String :=
  s!"{t.id}/{t.owner}/{renderOpt t.uri}"

/-- outside the projection: extension tag and approvals (sorted by spender) -/
def renderTokenX (t : Token) : String :=
  let aps := joinOr "+" ((sortBy (fun (a : Approval) => a.spender) t.approvals).map fun a => s!"{a.spender}@{expStr a.expires}")
  s!"{t.id}/{t.ext}/{aps}"

def renderOptBool : Option Bool → String
  | none => "-" | some true => "1" | some false => "0"

def b01 (b : Bool) : String := if b then "1" else "0"

def verStr (v : Semver.Version) : String := s!"{v.major}.{v.minor}.{v.patch}"

/-- `racc`: the model's own reading of the royalty rules for the line just executed (`-` when not applicable) -/
def renderState (s : State) (racc : String := "-") (absent : Bool := false) : String :=
  let o := s.ownership
  let own := s!"{renderOpt o.owner}/{renderOpt o.pending}/{match o.pendingExpiry with | some e => expStr e | none => "-"}"
  let i := s.info
  let roy := match i.royalty with | some r => s!"{r.payment}:{r.share}" | none => "-"
  let ext := match i.externalLink with | some u => toString u.id | none => "-"
  let sorted := sortBy (·.id) s.tokens
  let toks := joinOr ";" (sorted.map renderToken)
  let toksX := joinOr ";" (sorted.map renderTokenX)
  let ops := joinOr "," ((sortBy (fun (x : Operator) => x.owner * 1000000 + x.operator) s.operators).map
    fun x => s!"{x.owner}>{x.operator}@{expStr x.expires}")
  s!"k={kindStr s.kind} own={own} fz={b01 s.frozenInfo} cr={i.creator} " ++
  s!"desc={i.description.id}:{i.description.len} img={i.image.id} ext={ext} ec={renderOptBool i.explicitContent} " ++
  s!"roy={roy} n={s.count} toks={toks} fm={b01 s.frozenMeta} ue={b01 s.updEnabled}" ++
  s!" ## ver={verStr s.ver} rua={if absent then "-" else toString s.royaltyUpdatedAt} stt={renderOpt i.startTradingTime} tx={toksX} ops={ops} racc={racc}"

def optBoolKv (ws : List String) (key : String) : Option (Option Bool) :=
  match kv ws key with
  | some "-" => some none
  | some "1" => some (some true)
  | some "0" => some (some false)
  | _ => none

def parseInfoCommon (ws : List String) : Option (Desc × Url × Option Url × Option Bool × Option Royalty) := do
  let (did, dlen) ← (kv ws "desc").bind pair?
  let img ← natKv ws "image"
  let iv ← boolKv ws "iv"
  let ev ← boolKv ws "ev"
  let ext ← optNatKv ws "ext"
  let ec ← optBoolKv ws "ec"
  let roy ← match kv ws "roy" with
    | some "-" => some none
    | some v => (pair? v).map fun (p, sh) => some (⟨p, sh⟩ : Royalty)
    | none => none
  pure (⟨did, dlen⟩, ⟨img, iv⟩, ext.map (fun e => ⟨e, ev⟩), ec, roy)

def parseUpdate (ws : List String) : Option UpdateInfo := do
  let iv ← boolKv ws "iv"
  let ev ← boolKv ws "ev"
  let desc ← match kv ws "desc" with
    | some "-" => some none
    | some v => (pair? v).map fun (a, b) => some (⟨a, b⟩ : Desc)
    | none => none
  let image ← (optNatKv ws "image").map fun o => o.map fun i => (⟨i, iv⟩ : Url)
  let ext ← match kv ws "ext" with
    | some "-" => some none
    | some "none" => some (some none)
    | some v => (nat? v).map fun i => some (some (⟨i, ev⟩ : Url))
    | none => none
  let ec ← optBoolKv ws "ec"
  let roy ← match kv ws "roy" with
    | some "-" => some none
    | some "none" => some (some none)
    | some v => (pair? v).map fun (p, sh) => some (some (⟨p, sh⟩ : Royalty))
    | none => none
  let creator ← optNatKv ws "creator"
  pure ⟨desc, image, ext, ec, roy, creator⟩

def parseMsg (ws : List String) : Option ExecMsg :=
  match ws.head? with
  | some "transfer" => do pure (.transferNft (← natKv ws "to") (← natKv ws "id"))
  | some "send" => do pure (.sendNft (← natKv ws "to") (← natKv ws "id") (← boolKv ws "recv"))
  | some "approve" => do pure (.approve (← natKv ws "sp") (← natKv ws "id") (← (kv ws "exp").bind parseOptExp))
  | some "revoke" => do pure (.revoke (← natKv ws "sp") (← natKv ws "id"))
  | some "approve_all" => do pure (.approveAll (← natKv ws "op") (← (kv ws "exp").bind parseOptExp))
  | some "revoke_all" => do pure (.revokeAll (← natKv ws "op"))
  | some "mint" => do pure (.mint (← natKv ws "id") (← natKv ws "owner") (← optNatKv ws "uri") (← natKv ws "ext"))
  | some "burn" => do pure (.burn (← natKv ws "id"))
  | some "extension" => some .extension
  | some "uci" => do pure (.updateCollectionInfo (← parseUpdate ws) (← boolKv ws "racc"))
  | some "ustt" => do pure (.updateStartTradingTime (← optNatKv ws "t"))
  | some "freeze" => some .freezeCollectionInfo
  | some "own_transfer" => do pure (.updateOwnership (.transfer (← natKv ws "to") (← (kv ws "exp").bind parseOptExp)))
  | some "own_accept" => some (.updateOwnership .accept)
  | some "own_renounce" => some (.updateOwnership .renounce)
  | some "freeze_meta" => some .freezeTokenMetadata
  | some "utm" => do pure (.updateTokenMetadata (← natKv ws "id") (← optNatKv ws "uri"))
  | some "enable" => some .enableUpdatable
  | _ => none

def answer (ok : Bool) (st : Option State) (racc : String := "-") (absent : Bool := false) : String :=
  (if ok then "ok " else "err ") ++ (match st with | some s => renderState s racc absent | none => "-")

def parseVer (str : String) : Option Semver.Version :=
  match str.splitOn "." with
  | [a, b, c] => do pure ⟨← nat? a, ← nat? b, ← nat? c⟩
  | _ => none

/-- the model's own verdict on the royalty rules for an `UpdateCollectionInfo` that reaches the royalty block -/
def raccOf (s : State) (absent : Bool) (b : Block) (sender : Addr) (m : ExecMsg) : String :=
  match m with
  | .updateCollectionInfo u _ =>
    match u.royalty with
    | some (some r) => if uciOtherChecksOk s sender u then b01 (!absent && royaltyRulesOk s b r) else "-"
    | _ => "-"
  | _ => "-"

/-- one `xstep` of the environment layer (`XState` = the state + "royalty_updated_at is absent") -/
def runX (d : D) (xo : XOp) (racc : String := "-") : D × String :=
  match d.st with
  | none => (d, answer false none)
  | some s =>
    match xstep ⟨s, d.absent⟩ xo with
    | .ok x' => ({ d with st := some x'.core, absent := x'.ruaAbsent }, answer true (some x'.core) racc x'.ruaAbsent)
    | .error _ => (d, answer false d.st racc d.absent)

def runOp (d : D) (op : Op) (racc : String := "-") : D × String := runX d (.op op) racc

def c09Step (d : D) (line : String) : D × String :=
  let ws := words line
  match ws.head? with
  | some "case" =>
    let k := ((kv ws "kind").bind parseKind).getD .base
    ({ kind := k }, "case")
  | some "block" =>
    match natKv ws "h", natKv ws "t" with
    | some h, some t => ({ d with blk := ⟨h, t⟩ }, "blk")
    | _, _ => (d, "bad-op")
  | some "inst" =>
    let r : Option (Except Err State) := do
      let s ← natKv ws "s"
      let fu ← pairListKv ws "funds"
      let minter ← natKv ws "minter"
      let creator ← natKv ws "creator"
      let stt ← optNatKv ws "stt"
      let (desc, img, ext, ec, roy) ← parseInfoCommon ws
      pure (instantiate d.kind d.blk s (coinsOf fu) ⟨minter, ⟨creator, desc, img, ext, ec, stt, roy⟩⟩)
    match r with
    | some (.ok s) => ({ d with st := some s, absent := false }, answer true (some s))
    | some (.error _) => (d, answer false d.st "-" d.absent)
    | none => (d, "bad-op")
  | some "migrate" =>
    match ((kv ws "to").getD "updatable" |> parseKind) with
    | some k => runOp d (.migrate k d.blk.time)
    | none => (d, "bad-op")
  | some "setver" =>
    match (kv ws "v").bind parseVer with
    | some v =>
      -- `drop=1`: faithful pre-3.1.0 layout, the `royalty_updated_at` item is removed as well
      if kv ws "drop" == some "1" then
        let (d1, _) := runOp d (.setVersion v)
        runX d1 .dropRoyaltyStamp
      else runOp d (.setVersion v)
    | none => (d, "bad-op")
  | some "raw" =>
    -- a message variant unknown to the model: it changes nothing the property constrains. Whether the call itself
    -- succeeds is outside the projection (`res=` behind ` ## `): a new harmless message is DRIFT, not a failure.
    (d, "raw " ++ (match d.st with | some s => renderState s "-" d.absent ++ " res=err" | none => "-"))
  | _ =>
    match parseMsg ws, natKv ws "s", pairListKv ws "funds" with
    | some m, some sender, some fu =>
      let racc := match d.st with | some s => raccOf s d.absent d.blk sender m | none => "-"
      runOp d (.exec ⟨d.blk, sender, coinsOf fu, m⟩) racc
    | _, _, _ => (d, "bad-op")

def main : IO Unit := runDriverRaw ({} : D) c09Step
