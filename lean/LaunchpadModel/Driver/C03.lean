import LaunchpadModel.Model.MintLimits
import LaunchpadModel.Model.Proto
/-!
Driver for C03 (mint limits). One output line per input line. `|` below separates what the generator writes
from the witness fields the harness appends after reading the real contracts (both parts are plain `k=v` words).

* `case t0=<ns> addrs=<a,…>`                                              → `case`
* `compat mk=<0..8> wk=<0..6>`                                           → `ok <0|1|2>` (`LP.MintLimits.compatible`)
* `t <ns>`                                                               clock (environment)
* `newwl id=<k> kind=<0..6> … | res=<0|1>`                               a whitelist contract was created (environment)
* `wlop wl=<k> … | res=<0|1>`                                            whitelist-side edit (environment)
* `create mk=<0..8> wl=<k|-> lim=<n> ntok=<n|-> maxpal=<n> admin=<a> … | wlact=<0|1> pre=<0|1>`
* `mint sender=<a> funds=<n> stage=<n|-> proof=<-|…> alloc=<n|-> |
        act= mem= leaf= wlim= mcnt= mcfg= sid= slim=<n|-> started= pre=`
* `mintto sender=<a> to=<b> funds=<n> | pre=`   /   `mintfor sender=<a> to=<b> id=<n> funds=<n> | pre=`
* `setlim sender=<a> n=<n> funds=<0|1>`
* `setwl sender=<a> wl=<k> funds=<0|1> | started= oldact= newact= pre=`
* `purge sender=<a> funds=<0|1> | pre=`

Answer: `<ok|err> <obs>`; `obs` = `none` before a successful `create`, otherwise
`lim= wl=<k|-> mc=<a:n,…> mw=<a:n,…|-> pub= wlm= fs= ss= ts= tot=<f,s,t> own=` (maps: non-zero entries only).
-/
open LP LP.Proto LP.MintLimits

structure D where
  univ : List Nat := []
  wls : List (Nat × WlKind) := []
  st : Option State := none

def nz (univ : List Nat) (f : Nat → Nat) : String :=
  renderPairs ((univ.map fun a => (a, f a)).filter fun p => p.2 != 0)

def obs (d : D) : String :=
  match d.st with
  | none => "none"
  | some s =>
    let wl := match s.wl with | none => "-" | some (k, _) => toString k
    let mc := renderPairs (d.univ.map fun a => (a, reportCount s a))
    let mw := if s.kind.flavor = .flex then renderPairs (d.univ.map fun a => (a, reportWl s a)) else "-"
    s!"lim={s.limit} wl={wl} mc={mc} mw={mw} pub={nz d.univ s.pub} wlm={nz d.univ s.wlc} fs={nz d.univ (s.stg 1)} ss={nz d.univ (s.stg 2)} ts={nz d.univ (s.stg 3)} tot={s.tot 1},{s.tot 2},{s.tot 3} own={nz d.univ s.owned}"

def parseView (ws : List String) : Option View := do
  let act ← boolKv ws "act"; let mem ← boolKv ws "mem"; let leaf ← boolKv ws "leaf"
  let wlim ← natKv ws "wlim"; let mcnt ← natKv ws "mcnt"; let mcfg ← boolKv ws "mcfg"
  let sid ← natKv ws "sid"; let slim ← optNatKv ws "slim"
  pure { active := act, memberPlain := mem, leafOk := leaf, limit := wlim, memberCount := mcnt, merkleCfg := mcfg,
         stageId := sid, stageLimit := slim }

def parseOp (d : D) (ws : List String) : Option Op :=
  match ws.head? with
  | some "mint" => do
    let a ← natKv ws "sender"
    let stage ← optNatKv ws "stage"; let alloc ← optNatKv ws "alloc"
    let proof ← kv ws "proof"
    let v ← parseView ws
    let started ← boolKv ws "started"; let pre ← boolKv ws "pre"
    pure (.mint a { stage := stage, proof := proof != "-", alloc := alloc } v started pre)
  | some "mintto" => do
    let a ← natKv ws "sender"; let b ← natKv ws "to"; let pre ← boolKv ws "pre"
    pure (.mintTo a b false pre)
  | some "mintfor" => do
    let a ← natKv ws "sender"; let b ← natKv ws "to"; let pre ← boolKv ws "pre"
    pure (.mintTo a b true pre)
  | some "setlim" => do
    let a ← natKv ws "sender"; let n ← natKv ws "n"; let fu ← boolKv ws "funds"
    pure (.setLimit a n fu)
  | some "setwl" => do
    let a ← natKv ws "sender"; let k ← natKv ws "wl"; let fu ← boolKv ws "funds"
    let started ← boolKv ws "started"; let oa ← boolKv ws "oldact"; let na ← boolKv ws "newact"; let pre ← boolKv ws "pre"
    -- an id that was never created: address validation / the Config query fails
    match d.wls.lookup k with
    | some wk => pure (.setWhitelist a k wk fu started oa na pre)
    | none => pure (.setWhitelist a k .immutable fu started oa na false)
  | some "purge" => do
    let fu ← boolKv ws "funds"; let pre ← boolKv ws "pre"
    pure (.purge fu pre)
  | _ => none

def parseCreate (d : D) (ws : List String) : Option (Except Err State) := do
  let mk ← (natKv ws "mk").bind MinterKind.ofIdx
  let wl ← optNatKv ws "wl"
  let lim ← natKv ws "lim"; let ntok ← optNatKv ws "ntok"; let maxpal ← natKv ws "maxpal"; let admin ← natKv ws "admin"
  let wlact ← boolKv ws "wlact"; let pre ← boolKv ws "pre"
  match wl with
  | none => pure (create mk admin lim (ntok.getD 0) maxpal ntok.isNone none wlact pre)
  | some k =>
    match d.wls.lookup k with
    | some wk => pure (create mk admin lim (ntok.getD 0) maxpal ntok.isNone (some (k, wk)) wlact pre)
    | none => pure (.error .invalid)

def c03Step (d : D) (line : String) : D × String :=
  let ws := words line
  match ws.head? with
  | some "case" => ({ univ := (natListKv ws "addrs").getD [], wls := [], st := none }, "case")
  | some "compat" =>
    match (natKv ws "mk").bind MinterKind.ofIdx, (natKv ws "wk").bind WlKind.ofIdx with
    | some k, some wk => (d, s!"ok {compatible k wk}")
    | _, _ => (d, "bad-op")
  | some "t" => (d, s!"ok {obs d}")
  | some "newwl" =>
    match natKv ws "id", (natKv ws "kind").bind WlKind.ofIdx, boolKv ws "res" with
    | some id, some wk, some true => let d' := { d with wls := (id, wk) :: d.wls }; (d', s!"ok {obs d'}")
    | some _, some _, some false => (d, s!"err {obs d}")
    | _, _, _ => (d, "bad-op")
  | some "wlop" =>
    match boolKv ws "res" with
    | some true => (d, s!"ok {obs d}")
    | some false => (d, s!"err {obs d}")
    | none => (d, "bad-op")
  | some "create" =>
    match d.st with
    | some _ => (d, s!"err {obs d}")
    | none =>
      match parseCreate d ws with
      | none => (d, "bad-op")
      | some (.ok s) => let d' := { d with st := some s }; (d', s!"ok {obs d'}")
      | some (.error _) => (d, s!"err {obs d}")
  | _ =>
    match parseOp d ws with
    | none => (d, "bad-op")
    | some op =>
      match d.st with
      | none => (d, "err none")
      | some s =>
        match step s op with
        | .ok (s', _) => let d' := { d with st := some s' }; (d', s!"ok {obs d'}")
        | .error _ => (d, s!"err {obs d}")

def main : IO Unit := runDriverRaw ({} : D) c03Step
