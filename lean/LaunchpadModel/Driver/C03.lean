import LaunchpadModel.Model.MintLimits
import LaunchpadModel.Model.MintLimitsX
import LaunchpadModel.Model.Proto
/-!
Driver for C03 (mint limits). One output line per input line. `|` below separates what the generator writes
from the witness fields the harness appends after reading the real contracts (both parts are plain `k=v` words).
Runs `LP.MintLimits.stepX` (= `step` + the ghost `closed`, the leaf `stage‖sender‖allocation` and the stage record).

* `case t0=<ns> addrs=<a,…>`                                              → `case`
* `compat mk=<0..8> wk=<0..6>`                                           → `ok <0|1|2>` (`LP.MintLimits.compatible`)
* `t <ns>`                                                               clock (environment)
* `newwl id=<k> kind=<0..6> … | res=<0|1>`                               a whitelist contract was created (environment)
* `wlop wl=<k> … | res=` / `other v=<variant> … | res=` / `migrate … | res=`   environment (`XOp.env`): nothing C03 owns may move
* `govern max=<n> | res=`                                                  factory sudo `UpdateParams {max_per_address_limit}` (`XOp.govern`)
* `create mk=<0..8> wl=<k|-> lim=<n> ntok=<n|-> maxpal=<n> admin=<a> … | wlact=<0|1> pre=<0|1> res=`
* `mint sender=<a> funds=<n> stage=<n|-> proof=<-|…> alloc=<n|-> |
        act= mem= leaf= wlim= mcnt= mcfg= sid= slim=<n|-> se=<n|-> sb=<bytes> lq=<bytes|-> started= pre= res=`
  (`sb` = the sender's address string, `lq` = the leaf string the harness asked the whitelist about, `leaf` = its answer:
  the model builds `leafOf fields sb` ITSELF and only accepts the answer if that is the string that was asked;
  `se` = what the record of stage `sid` itself grants the sender)
* `mintto sender=<a> to=<b> funds=<n> | pre= res=`   /   `mintfor sender=<a> to=<b> id=<n> funds=<n> | pre= res=`
* `setlim sender=<a> n=<n> funds=<0|1>`
* `setwl sender=<a> wl=<k> funds=<0|1> | started= oldact= newact= pre= res=`
* `purge sender=<a> funds=<0|1> | pre= res=`

`started` / `pre` are gates OTHER properties own (clock, price, supply, token ids). They are the harness' *prediction*;
`res` is what the real contract did. If the model's verdict under the predicted gates differs from `res` but some other value
of the gate bits explains `res`, the model uses those bits and reports them behind ` ## ` (`g=`): a wrong prediction is DRIFT,
not a C03 disagreement. What no value of the gate bits can explain (e.g. an accepted mint at `count ≥ limit`) stays a disagreement.

Answer: `<ok|err> <primary> ## <drift>`; `primary` = `none` before a successful `create`, otherwise
`lim= wl=<k|-> mc=<a:n,…> mw=<a:n,…|-> coh=<1|0|->`; drift = `g=<gate bits used|-> pub= wlm= fs= ss= ts= tot=<f,s,t> own=`
(raw counter maps — storage layout — and token ownership; maps: non-zero entries only).
-/
open LP LP.Proto LP.MintLimits

structure D where
  univ : List Nat := []
  wls : List (Nat × WlKind) := []
  st : Option XState := none

def nz (univ : List Nat) (f : Nat → Nat) : String :=
  renderPairs ((univ.map fun a => (a, f a)).filter fun p => p.2 != 0)

def bit (b : Bool) : String := if b then "1" else "0"

/-- `coh` = the coherence verdict of the last op (`-` = not applicable), `g` = the gate bits used -/
def obs (d : D) (coh g : String) : String :=
  match d.st with
  | none => s!"none ## g={g}"
  | some x =>
    let s := x.base
    let wl := match s.wl with | none => "-" | some (k, _) => toString k
    let mc := renderPairs (d.univ.map fun a => (a, reportCount s a))
    let mw := if s.kind.flavor = .flex then renderPairs (d.univ.map fun a => (a, reportWl s a)) else "-"
    s!"lim={s.limit} wl={wl} mc={mc} mw={mw} coh={coh} ## g={g} pub={nz d.univ s.pub} wlm={nz d.univ s.wlc} fs={nz d.univ (s.stg 1)} ss={nz d.univ (s.stg 2)} ts={nz d.univ (s.stg 3)} tot={s.tot 1},{s.tot 2},{s.tot 3} own={nz d.univ s.owned}"

def parseView (ws : List String) : Option View := do
  let act ← boolKv ws "act"; let mem ← boolKv ws "mem"
  let wlim ← natKv ws "wlim"; let mcnt ← natKv ws "mcnt"; let mcfg ← boolKv ws "mcfg"
  let sid ← natKv ws "sid"; let slim ← optNatKv ws "slim"
  pure { active := act, memberPlain := mem, leafOk := false, limit := wlim, memberCount := mcnt, merkleCfg := mcfg,
         stageId := sid, stageLimit := slim }

def optBytes (ws : List String) (key : String) : Option (Option (List Nat)) :=
  match kv ws key with
  | none => none
  | some "-" => some none
  | some s => (natList? s).map some

def parseOracle (ws : List String) : Option Oracle := do
  let v ← parseView ws
  let leaf ← boolKv ws "leaf"
  let lq ← optBytes ws "lq"
  let se ← optNatKv ws "se"
  pure { view := v, verify := fun l => leaf && (lq == some l), stageEnt := se }

/-- an operation with its gate bits left open: (has a `started` bit, predicted started, predicted pre, the op) -/
structure Gated where
  hasSt : Bool
  st : Bool
  pre : Bool
  build : Bool → Bool → XOp

def parseOp (d : D) (ws : List String) : Option Gated :=
  match ws.head? with
  | some "mint" => do
    let a ← natKv ws "sender"
    let stage ← optNatKv ws "stage"; let alloc ← optNatKv ws "alloc"
    let proof ← kv ws "proof"
    let o ← parseOracle ws
    let sb ← natListKv ws "sb"
    let started ← boolKv ws "started"; let pre ← boolKv ws "pre"
    pure ⟨true, started, pre, fun st p => .mint a sb { stage := stage, proof := proof != "-", alloc := alloc } o st p⟩
  | some "mintto" => do
    let a ← natKv ws "sender"; let b ← natKv ws "to"; let pre ← boolKv ws "pre"
    pure ⟨false, false, pre, fun _ p => .mintTo a b false p⟩
  | some "mintfor" => do
    let a ← natKv ws "sender"; let b ← natKv ws "to"; let pre ← boolKv ws "pre"
    pure ⟨false, false, pre, fun _ p => .mintTo a b true p⟩
  | some "setwl" => do
    let a ← natKv ws "sender"; let k ← natKv ws "wl"; let fu ← boolKv ws "funds"
    let started ← boolKv ws "started"; let oa ← boolKv ws "oldact"; let na ← boolKv ws "newact"; let pre ← boolKv ws "pre"
    -- an id that was never created: address validation / the Config query fails
    match d.wls.lookup k with
    | some wk => pure ⟨true, started, pre, fun st p => .setWhitelist a k wk fu st oa na p⟩
    | none => pure ⟨true, started, pre, fun st _ => .setWhitelist a k .immutable fu st oa na false⟩
  | some "purge" => do
    let fu ← boolKv ws "funds"; let pre ← boolKv ws "pre"
    pure ⟨false, false, pre, fun _ p => .purge fu p⟩
  | _ => none

def isOk {α : Type} : Except Err α → Bool
  | .ok _ => true
  | .error _ => false

/-- the gate bits to run with: the prediction if it explains `res` (or nothing does), else the first explanation -/
def chooseGates (x : XState) (g : Gated) (res : Bool) : Bool × Bool :=
  let cands := if g.hasSt then [(g.st, g.pre), (g.st, !g.pre), (!g.st, g.pre), (!g.st, !g.pre)]
               else [(g.st, g.pre), (g.st, !g.pre)]
  match cands.find? (fun c => isOk (stepX x (g.build c.1 c.2)) == res) with
  | some c => c
  | none => (g.st, g.pre)

def gateStr (g : Gated) (c : Bool × Bool) : String := (if g.hasSt then bit c.1 else "") ++ bit c.2

def parseCreate (d : D) (ws : List String) (pre : Bool) : Option (Except Err State) := do
  let mk ← (natKv ws "mk").bind MinterKind.ofIdx
  let wl ← optNatKv ws "wl"
  let lim ← natKv ws "lim"; let ntok ← optNatKv ws "ntok"; let maxpal ← natKv ws "maxpal"; let admin ← natKv ws "admin"
  let wlact ← boolKv ws "wlact"
  match wl with
  | none => pure (create mk admin lim (ntok.getD 0) maxpal ntok.isNone none wlact pre)
  | some k =>
    match d.wls.lookup k with
    | some wk => pure (create mk admin lim (ntok.getD 0) maxpal ntok.isNone (some (k, wk)) wlact pre)
    | none => pure (.error .invalid)

/-- coherence verdict of a successful step: only for whitelist mints booked under a tiered stage -/
def cohOf (x : XState) (op : XOp) (e : Event) : String :=
  match op, e with
  | .mint _ _ _ o _ _, .wlMint _ sid _ _ _ _ =>
    if sid = 0 then "-" else
      match o.stageEnt with
      | none => "-"
      | some _ => bit (o.coherent x.base.kind.flavor)
  | _, _ => "-"

def c03Step (d : D) (line : String) : D × String :=
  let ws := words line
  match ws.head? with
  | some "case" => ({ univ := (natListKv ws "addrs").getD [], wls := [], st := none }, "case")
  | some "compat" =>
    match (natKv ws "mk").bind MinterKind.ofIdx, (natKv ws "wk").bind WlKind.ofIdx with
    | some k, some wk => (d, s!"ok {compatible k wk}")
    | _, _ => (d, "bad-op")
  | some "t" => (d, s!"ok {obs d "-" "-"}")
  | some "newwl" =>
    match natKv ws "id", (natKv ws "kind").bind WlKind.ofIdx, boolKv ws "res" with
    | some id, some wk, some true => let d' := { d with wls := (id, wk) :: d.wls }; (d', s!"ok {obs d' "-" "-"}")
    | some _, some _, some false => (d, s!"err {obs d "-" "-"}")
    | _, _, _ => (d, "bad-op")
  | some "create" =>
    match d.st, boolKv ws "pre", boolKv ws "res" with
    | some _, _, _ => (d, s!"err {obs d "-" "-"}")
    | none, some pre, some res =>
      match parseCreate d ws pre, parseCreate d ws (!pre) with
      | some r, some r' =>
        let (r, used) := if isOk r == res then (r, pre) else if isOk r' == res then (r', !pre) else (r, pre)
        match r with
        | .ok s => let d' := { d with st := some { base := s } }; (d', s!"ok {obs d' "-" (bit used)}")
        | .error _ => (d, s!"err {obs d "-" (bit used)}")
      | _, _ => (d, "bad-op")
    | _, _, _ => (d, "bad-op")
  | some "setlim" =>
    match natKv ws "sender", natKv ws "n", boolKv ws "funds", d.st with
    | some a, some n, some fu, some x =>
      match stepX x (.setLimit a n fu) with
      | .ok (x', _) => let d' := { d with st := some x' }; (d', s!"ok {obs d' "-" "-"}")
      | .error _ => (d, s!"err {obs d "-" "-"}")
    | some _, some _, some _, none => (d, "err none ## g=-")
    | _, _, _, _ => (d, "bad-op")
  | some "govern" =>
    -- factory sudo UpdateParams{max_per_address_limit}: environment; when it went through the model's factory maximum follows
    match natKv ws "max", boolKv ws "res", d.st with
    | some mp, some true, some x =>
      match stepX x (.govern mp) with
      | .ok (x', _) => let d' := { d with st := some x' }; (d', s!"ok {obs d' "-" "-"}")
      | .error _ => (d, "bad-op")
    | some _, some res, _ => (d, s!"{if res then "ok" else "err"} {obs d "-" "-"}")
    | _, _, _ => (d, "bad-op")
  | some w =>
    if w == "wlop" || w == "other" || w == "migrate" then
      -- environment: whatever the real contract answered, nothing in the C03 state may move
      match boolKv ws "res", d.st with
      | some res, some x =>
        match stepX x .env with
        | .ok (x', _) => let d' := { d with st := some x' }; (d', s!"{if res then "ok" else "err"} {obs d' "-" "-"}")
        | .error _ => (d, "bad-op")
      | some res, none => (d, s!"{if res then "ok" else "err"} {obs d "-" "-"}")
      | none, _ => (d, "bad-op")
    else
    match parseOp d ws, boolKv ws "res" with
    | some g, some res =>
      match d.st with
      | none => (d, s!"err none ## g={gateStr g (g.st, g.pre)}")
      | some x =>
        let c := chooseGates x g res
        let op := g.build c.1 c.2
        match stepX x op with
        | .ok (x', e) => let d' := { d with st := some x' }; (d', s!"ok {obs d' (cohOf x op e) (gateStr g c)}")
        | .error _ => (d, s!"err {obs d "-" (gateStr g c)}")
    | _, _ => (d, "bad-op")
  | none => (d, "bad-op")

def main : IO Unit := runDriverRaw ({} : D) c03Step
