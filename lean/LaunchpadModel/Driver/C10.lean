import LaunchpadModel.Model.Royalty
import LaunchpadModel.Model.Proto
/-!
Driver for C10 (royalties of sg721-base / -nt / -updatable / -metadata-onchain). One output line per input line.
State = the collection (none before `inst`).

* `inst kind=<base|nt|updatable|onchain> at=<ns> via=<0|1> funds=<n> minter=<a> creator=<a> desc=<len> image=<u> link=<-|u> explicit=<-|0|1> stt=<-|ns> roy=<-|a:share>`
* `upd at=<ns> sender=<a> desc=<-|len> image=<-|u> link=<keep|clear|u> explicit=<-|0|1> roy=<keep|clear|a:share> creator=<-|a>`
* `freeze at=<ns> sender=<a>`
* `stt at=<ns> sender=<a> time=<-|ns> ok=<0|1>`                (ok = witness from the implementation)
* `other at=<ns> sender=<a> v=<variant> tok=<n> ok=<0|1>`      (any other ExecuteMsg variant, named or found in the schema; ok = witness)
* `migrate at=<ns> to=<kind> ok=<0|1>`                         (MsgMigrateContract by the admin; ok = witness, C20 owns acceptance)
* `setver v=<a.b.c>`                                           (harness fabrication: rewrite the stored cw2 version)
* `cpay at=<ns> pay=<n> fee=<n> finders=<-|n>`                 (royalty_payout on the collection's own CollectionInfo)
* `payout roy=<-|a:share> pay=<n> fee=<n> finders=<-|n>`       (royalty_payout, pure)

Answers: state ops `ok <obs>` / `err <obs>` with `<obs>` = `roy=… upd=… frozen=… creator=… ## kind=… name=… ver=… desc=… image=… link=… explicit=… stt=…`
(after ` ## `: observations outside C10's projection — differences there are DRIFT, not disagreement);
payout ops `ok <amount> <msgs>` / `err`.
-/
open LP LP.Proto LP.Royalty

def optBoolKv (ws : List String) (key : String) : Option (Option Bool) :=
  match kv ws key with
  | some "-" => some none
  | some "0" => some (some false)
  | some "1" => some (some true)
  | _ => none

def roy? (s : String) : Option RoyaltyInfo :=
  match s.splitOn ":" with
  | [a, b] => do let x ← nat? a; let y ← nat? b; pure ⟨x, y⟩
  | _ => none

/-- `-` ⇒ none -/
def optRoyKv (ws : List String) (key : String) : Option (Option RoyaltyInfo) :=
  match kv ws key with
  | none => none
  | some "-" => some none
  | some v => (roy? v).map some

def roy2Kv (ws : List String) (key : String) : Option (Opt2 RoyaltyInfo) :=
  match kv ws key with
  | none => none
  | some "keep" => some .keep
  | some "clear" => some .clear
  | some v => (roy? v).map .set

def nat2Kv (ws : List String) (key : String) : Option (Opt2 Nat) :=
  match kv ws key with
  | none => none
  | some "keep" => some .keep
  | some "clear" => some .clear
  | some v => (nat? v).map .set

def renderOptBool : Option Bool → String
  | none => "-" | some true => "1" | some false => "0"

def renderRoy : Option RoyaltyInfo → String
  | none => "-" | some r => s!"{r.addr}:{r.share}"

def renderKind : Kind → String
  | .base => "base" | .nt => "nt" | .updatable => "updatable" | .onchain => "onchain"

def kind? : String → Option Kind
  | "base" => some .base | "nt" => some .nt | "updatable" => some .updatable | "onchain" => some .onchain
  | _ => none

def ver? (s : String) : Option Ver :=
  match s.splitOn "." with
  | [a, b, c] => do let x ← nat? a; let y ← nat? b; let z ← nat? c; pure (x, y, z)
  | _ => none

def obs : Option Coll → String
  | none => "none"
  | some c =>
    s!"roy={renderRoy c.royalty} upd={c.updatedAt} frozen={if c.frozen then 1 else 0} creator={c.creator} ## kind={renderKind c.kind} name={renderKind c.name} ver={c.ver.1}.{c.ver.2.1}.{c.ver.2.2} desc={c.descLen} image={c.image} link={renderOpt c.link} explicit={renderOptBool c.explicit} stt={renderOpt c.startTrading}"

def answer (old : Option Coll) (r : Except Err Coll) : Option Coll × String :=
  match r with
  | .ok c => (some c, s!"ok {obs (some c)}")
  | .error _ => (old, s!"err {obs old}")

def payoutLine (info : Option RoyaltyInfo) (ws : List String) : Option String := do
  let pay ← natKv ws "pay"; let fee ← natKv ws "fee"; let fi ← optNatKv ws "finders"
  match royaltyPayout info pay fee fi with
  | .ok (amt, ms) => pure s!"ok {amt} {renderMsgs ms}"
  | .error _ => pure "err"

def execOn (st : Option Coll) (ws : List String) (act : Action) : Option (Option Coll × String) := do
  let now ← natKv ws "at"; let sender ← natKv ws "sender"
  match st with
  | none => pure (none, "err none")
  | some c => pure (answer st (step c ⟨now, sender, act⟩))

def c10Line (st : Option Coll) (line : String) : Option Coll × String :=
  let ws := words line
  let r : Option (Option Coll × String) :=
    match ws.head? with
    | some "inst" => do
      let kind ← (kv ws "kind").bind kind?
      let now ← natKv ws "at"; let via ← boolKv ws "via"; let funds ← natKv ws "funds"
      let minter ← natKv ws "minter"; let creator ← natKv ws "creator"; let desc ← natKv ws "desc"
      let image ← natKv ws "image"; let link ← optNatKv ws "link"; let explicit ← optBoolKv ws "explicit"
      let stt ← optNatKv ws "stt"; let roy ← optRoyKv ws "roy"
      match st with
      | some _ => pure (st, s!"err {obs st}")       -- protocol convention: one collection per case
      | none =>
        pure (answer none (instantiate now
          { kind := kind, senderIsContract := via, funds := funds, minter := minter, creator := creator, descLen := desc,
            image := image, link := link, explicit := explicit, startTrading := stt, royalty := roy }))
    | some "upd" => do
      let desc ← optNatKv ws "desc"; let image ← optNatKv ws "image"; let link ← nat2Kv ws "link"
      let explicit ← optBoolKv ws "explicit"; let roy ← roy2Kv ws "roy"; let creator ← optNatKv ws "creator"
      execOn st ws (.update { desc := desc, image := image, link := link, explicit := explicit, royalty := roy, creator := creator })
    | some "freeze" => execOn st ws .freeze
    | some "stt" => do
      let t ← optNatKv ws "time"; let ok ← boolKv ws "ok"
      execOn st ws (.startTrading t ok)
    | some "other" => do
      let ok ← boolKv ws "ok"
      execOn st ws (.other ok)
    | some "migrate" => do
      let now ← natKv ws "at"; let to ← (kv ws "to").bind kind?; let ok ← boolKv ws "ok"
      match st with
      | none => pure (none, "err none")
      | some c => pure (answer st (step c ⟨now, 0, .migrate to ok⟩))
    | some "setver" => do
      let v ← (kv ws "v").bind ver?
      match st with
      | none => pure (none, "err none")
      | some c => pure (answer st (step c ⟨0, 0, .setver v⟩))
    | some "cpay" =>
      match st with
      | none => some (st, "err")
      | some c => (payoutLine c.royalty ws).map fun s => (st, s)
    | some "payout" => do
      let roy ← optRoyKv ws "roy"
      let s ← payoutLine roy ws
      pure (st, s)
    | _ => none
  r.getD (st, "bad-op")

def main : IO Unit := runDriver (none : Option Coll) c10Line
