import LaunchpadModel.Model.Tiered
import LaunchpadModel.Model.Proto
/-!
Driver for C13 (tiered whitelists: plain / flex / Merkle). One output line per input line.

Header: `case v=<plain|flex|merkle> …` → `case`.

Ops (every line carries the block time `now=` and is executable from its text alone):
* `inst now= sender= funds=<d:a,…|-> limit= whale=<n|-> admins=<a,…|-> mutable=<0|1> stages=<S;S;…|-> members=<L/L/…|none> roots=<hex,…|-> uribad=<0|1>`
  with `S = name:start:stop:denom:price:pal:mcl` (`mcl` = `-` or n) and `L = a:c,a:c | -`
* `add_stage now= sender= stage=<S> members=<L>`
* `remove_stage now= sender= id=`
* `update_stage now= sender= id= name=<n|-> start=<n|-> stop=<n|-> price=<d:a|-> pal=<n|-> mcl=<-|none|n>`
* `add_members now= sender= id= members=<L>`
* `remove_members now= sender= id= addrs=<a,…|->`
* `increase_limit now= sender= funds= limit=`
* `update_admins now= sender= admins=` / `freeze now= sender=`
* `q now= probes=<a,…|-> mk=<…> folded=<n|-,…>`   (`folded` = witness: proof folded over the leaf hash, computed outside the model)

Answers: `err`, or `ok <state summary>` for messages, `ok <observation vector>` for `q`.
-/
open LP LP.Proto LP.Tiered

def parseVariant (ws : List String) : Variant :=
  match kv ws "v" with
  | some "flex" => .flex
  | some "merkle" => .merkle
  | _ => .plain

def optNat? (s : String) : Option (Option Nat) := if s == "-" then some none else (nat? s).map some

def parseStage (s : String) : Option Stage :=
  match s.splitOn ":" with
  | [n, a, b, d, p, l, m] => do
    pure { name := ← nat? n, start := ← nat? a, stop := ← nat? b, denom := ← nat? d, price := ← nat? p,
           pal := ← nat? l, mcl := ← optNat? m }
  | _ => none

def parseStages (s : String) : Option (List Stage) :=
  if s == "-" || s == "" then some [] else (s.splitOn ";").mapM parseStage

def parseMemberLists (s : String) : Option (List (List (Nat × Nat))) :=
  if s == "none" || s == "" then some [] else (s.splitOn "/").mapM pairList?

def hexDigit? (c : Char) : Option Nat :=
  if '0' ≤ c ∧ c ≤ '9' then some (c.toNat - '0'.toNat)
  else if 'a' ≤ c ∧ c ≤ 'f' then some (c.toNat - 'a'.toNat + 10)
  else none

/-- a Merkle root: exactly 32 lower-case hex digits (16 bytes); anything else is rejected by `verify_merkle_root` -/
def parseRoot (s : String) : Option Nat :=
  if s.length != 32 then none
  else s.toList.foldlM (fun acc c => (hexDigit? c).map (fun d => acc * 16 + d)) 0

def parseRoots (s : String) : Option (List Nat) :=
  if s == "-" || s == "" then some [] else (s.splitOn ",").mapM parseRoot

def renderStage (s : Stage) : String :=
  s!"{s.name}:{s.start}:{s.stop}:{s.denom}:{s.price}:{s.pal}:{renderOpt s.mcl}"

def b01 (b : Bool) : String := if b then "1" else "0"

def joinOr (sep : String) (l : List String) : String := if l.isEmpty then "-" else String.intercalate sep l

def renderStageQ (v : Variant) (s : State) (id : Nat) : String :=
  match stageQ v s id with
  | .ok (st, c) => s!"{renderStage st}@{c}"
  | .error _ => "e"

/-- summary printed after every successful message -/
def summary (v : Variant) (s : State) : String :=
  let st := String.intercalate ";" ((List.range 4).map (renderStageQ v s))
  let n := if v == .merkle then 0 else s.num
  let lim := if v == .merkle then 0 else s.limit
  s!"ok st={st} n={n} lim={lim} adm={renderNats s.admins}:{b01 s.mutable}"

def parseOp (v : Variant) (ws : List String) : Option (Option Op) :=
  -- outer none = malformed line; inner none = a line the contract rejects before the model sees it (bad root)
  match ws.head? with
  | some "inst" => do
    let now ← natKv ws "now"; let sender ← natKv ws "sender"; let funds ← pairListKv ws "funds"
    let limit ← natKv ws "limit"; let whale ← optNatKv ws "whale"; let admins ← natListKv ws "admins"
    let mutable ← boolKv ws "mutable"; let stages ← (kv ws "stages").bind parseStages
    let members ← (kv ws "members").bind parseMemberLists
    let uribad ← boolKv ws "uribad"
    let rootsS ← kv ws "roots"
    match (if v == .merkle then parseRoots rootsS else some []) with
    | none => pure none
    | some roots =>
      pure (some (.inst now sender (funds.map fun (d, a) => ⟨d, a⟩) limit whale admins mutable stages members roots uribad))
  | some "add_stage" => do
    let now ← natKv ws "now"; let sender ← natKv ws "sender"
    let st ← (kv ws "stage").bind parseStage; let ms ← pairListKv ws "members"
    pure (some (.addStage now sender st ms))
  | some "remove_stage" => do
    let now ← natKv ws "now"; let sender ← natKv ws "sender"; let id ← natKv ws "id"
    pure (some (.removeStage now sender id))
  | some "update_stage" => do
    let now ← natKv ws "now"; let sender ← natKv ws "sender"; let id ← natKv ws "id"
    let name ← optNatKv ws "name"; let start ← optNatKv ws "start"; let stop ← optNatKv ws "stop"
    let pal ← optNatKv ws "pal"
    let price ← match kv ws "price" with
      | some "-" => some none
      | some p => (pairList? p).bind fun l => match l with | [x] => some (some x) | _ => none
      | none => none
    let mcl ← match kv ws "mcl" with
      | some "-" => some none
      | some "none" => some (some none)
      | some m => (nat? m).map fun n => some (some n)
      | none => none
    pure (some (.updateStage now sender { id, name, start, stop, price, pal, mcl }))
  | some "add_members" => do
    let now ← natKv ws "now"; let sender ← natKv ws "sender"; let id ← natKv ws "id"
    let ms ← pairListKv ws "members"
    pure (some (.addMembers now sender id ms))
  | some "remove_members" => do
    let now ← natKv ws "now"; let sender ← natKv ws "sender"; let id ← natKv ws "id"
    let as ← natListKv ws "addrs"
    pure (some (.removeMembers now sender id as))
  | some "increase_limit" => do
    let now ← natKv ws "now"; let sender ← natKv ws "sender"; let funds ← pairListKv ws "funds"
    let limit ← natKv ws "limit"
    pure (some (.increaseLimit now sender (funds.map fun (d, a) => ⟨d, a⟩) limit))
  | some "update_admins" => do
    let now ← natKv ws "now"; let sender ← natKv ws "sender"; let admins ← natListKv ws "admins"
    pure (some (.updateAdmins now sender admins))
  | some "freeze" => do
    let now ← natKv ws "now"; let sender ← natKv ws "sender"
    pure (some (.freeze now sender))
  | _ => none

def exB (r : Except Err Bool) : String := match r with | .ok b => b01 b | .error _ => "e"

def renderSmi (r : Except Err (Bool × Nat)) : String :=
  match r with | .ok (b, p) => s!"{b01 b}:{p}" | .error _ => "e"

def query (v : Variant) (s : State) (ws : List String) : Option String := do
  let now ← natKv ws "now"
  let probes ← natListKv ws "probes"
  let folded : List (Option Nat) ← match kv ws "folded" with
    | none => some []
    | some "-" => some []
    | some f => (f.splitOn ",").mapM optNat?
  let lb := v != .merkle
  let c := configQ s now
  let cfg := s!"{if lb then c.num else 0}:{c.pal}:{if lb then c.limit else 0}:{c.start}:{c.stop}:{c.denom}:{c.price}:{b01 c.active}:{renderOpt c.whale}"
  let as := match activeStage s.stages now with | some st => renderStage st | none => "-"
  let sl := match stagesQ v s with
    | .ok l => joinOr ";" (l.map fun (p : Stage × Nat) => s!"{renderStage p.1}@{p.2}")
    | .error _ => "e"
  let st := String.intercalate ";" ((List.range 4).map (renderStageQ v s))
  let hm := if lb then joinOr "," (probes.map fun a => exB (hasMember s now a)) else "x"
  let mb := if v == .flex then joinOr "," (probes.map fun a => match memberQ s now a with | .ok n => toString n | .error _ => "e") else "x"
  let smi := if lb then
      joinOr "," (probes.map fun a => String.intercalate "+" ((List.range 4).map fun id => renderSmi (stageMemberInfo v s id a)))
    else "x"
  let asmi := if lb then
      joinOr "," (probes.map fun a =>
        if !validAddr a then "e"
        else joinOr "+" ((List.range s.stages.length).map fun id => renderSmi (stageMemberInfo v s id a)))
    else "x"
  let ms := if lb then String.intercalate "/" ((List.range 4).map fun k => renderPairs (membersOf s k)) else "x"
  let ce := joinOr "," (probes.map fun a => if validAddr a then b01 (isAdmin s a) else "e")
  let mk := if lb then "x" else joinOr "," (folded.map fun f => exB (hasMemberMerkle s now f))
  let roots := if lb then "x" else renderNats s.roots
  pure s!"ok act={activeStageId s now} is={b01 (isActive s now)} hs={b01 (hasStarted s now)} he={b01 (hasEnded s now)} cfg={cfg} as={as} sl={sl} st={st} hm={hm} mb={mb} smi={smi} asmi={asmi} ms={ms} adm={renderNats s.admins}:{b01 s.mutable} ce={ce} mk={mk} roots={roots}"

def c13Step (σ : Variant × World) (line : String) : (Variant × World) × String :=
  let ws := words line
  let (v, w) := σ
  match ws.head? with
  | some "case" => ((parseVariant ws, none), "case")
  | some "q" =>
    match w with
    | none => (σ, "err")
    | some s => (σ, (query v s ws).getD "bad-op")
  | _ =>
    match parseOp v ws with
    | none => (σ, "bad-op")
    | some none => (σ, "err")
    | some (some op) =>
      match step v w op with
      | .ok (some s) => ((v, some s), summary v s)
      | .ok none => (σ, "err")
      | .error _ => (σ, "err")

def main : IO Unit := runDriverRaw ((Variant.plain, (none : World))) c13Step
