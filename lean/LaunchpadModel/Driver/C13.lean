import LaunchpadModel.Model.Tiered
import LaunchpadModel.Model.Proto
/-!
Driver for C13 (tiered whitelists: plain / flex / Merkle). One output line per input line.

Header: `case v=<plain|flex|merkle> …` → `case`.

Ops (every line carries the block time `now=` and is executable from its text alone):
* `inst now= sender= funds=<d:a,…|-> limit= whale=<n|-> admins=<a,…|-> mutable=<0|1> stages=<S;S;…|-> members=<L/L/…|none> roots=<hex,…|-> uribad=<0|1>`
  with `S = name:start:stop:denom:price:pal:mcl` (`mcl` = `-` or n) and `L = a:c,a:c | -`
* `add_stage now= sender= stage=<S> members=<L>`
* `remove_stage now= sender= id=`
* `update_stage now= sender= id= name=<n|-> start=<n|-> stop=<n|-> price=<d:a|-> pal=<n|-> mcl=<-|none|n>`
* `add_members now= sender= id= members=<L>`
* `remove_members now= sender= id= addrs=<a,…|->`
* `increase_limit now= sender= funds= limit=`
* `update_admins now= sender= admins=` / `freeze now= sender=`
* `migrate now= sender=` (to the same code) / `unk now= sender= name=<variant> arg=<n>` (a message outside `ExecuteMsg`)
* `q now= probes=<a,…|-> mk=<…> folded=<n|-,…>`   (`folded` = witness: proof folded over the leaf hash, computed outside the model)

Witnesses appended by the harness (what the implementation decided in areas C13 does not own):
* `inst … envok=0` — the real instantiate failed AND the same message with a canonical valid schedule failed too, i.e. it
  was rejected for a non-schedule reason (fee, member limit, whale cap, member lists, admin addresses): the model follows.
* `add_stage … menv=0` — the real add_stage failed but the same stage with an empty member list is accepted, i.e. it was
  rejected because of the member list (limit, invalid address, whale cap): the model follows.
* `add_members|remove_members|increase_limit|update_admins|freeze … res=<0|1>` — the implementation's verdict; on `res=0`
  the model skips the message (its own opinion goes behind ` ## `), on `res=1` it must accept and reach the same state.

Answers are `primary ## drift`. PRIMARY = what C13 constrains + the mechanism state of its theorems: accept/reject of the stage
messages, stage windows / denom / price / per-address limit, `num_members`, the stored member map, Merkle roots, and every
"active stage" / membership answer. DRIFT (reported, never decides): stage names, mint-count limits, `member_count`, member
limit, whale cap, admin list, `CanExecute`, `HasStarted`/`HasEnded`, the `Config` fields while NO stage is active, the
per-address-limit half of `StageMemberInfo`, answers for stage ids beyond the list, and the verdicts named above.
-/
open LP LP.Proto LP.Tiered

def parseVariant (ws : List String) : Variant :=
  match kv ws "v" with
  | some "flex" => .flex
  | some "merkle" => .merkle
  | _ => .plain

def optNat? (s : String) : Option (Option Nat) := if s == "-" then some none else (nat? s).map some

def parseStage (s : String) : Option Stage :=
  match s.splitOn ":" with
  | [n, a, b, d, p, l, m] => do
    pure { name := ← nat? n, start := ← nat? a, stop := ← nat? b, denom := ← nat? d, price := ← nat? p,
           pal := ← nat? l, mcl := ← optNat? m }
  | _ => none

def parseStages (s : String) : Option (List Stage) :=
  if s == "-" || s == "" then some [] else (s.splitOn ";").mapM parseStage

def parseMemberLists (s : String) : Option (List (List (Nat × Nat))) :=
  if s == "none" || s == "" then some [] else (s.splitOn "/").mapM pairList?

def hexDigit? (c : Char) : Option Nat :=
  if '0' ≤ c ∧ c ≤ '9' then some (c.toNat - '0'.toNat)
  else if 'a' ≤ c ∧ c ≤ 'f' then some (c.toNat - 'a'.toNat + 10)
  else none

/-- a Merkle root: exactly 32 lower-case hex digits (16 bytes); anything else is rejected by `verify_merkle_root` -/
def parseRoot (s : String) : Option Nat :=
  if s.length != 32 then none
  else s.toList.foldlM (fun acc c => (hexDigit? c).map (fun d => acc * 16 + d)) 0

def parseRoots (s : String) : Option (List Nat) :=
  if s == "-" || s == "" then some [] else (s.splitOn ",").mapM parseRoot

/-- primary projection of a stage: window, mint price, per-address limit -/
def renderP (s : Stage) : String := s!"{s.start}:{s.stop}:{s.denom}:{s.price}:{s.pal}"

/-- drift part of a stage: name and mint-count limit -/
def renderX (s : Stage) : String := s!"{s.name}:{renderOpt s.mcl}"

def b01 (b : Bool) : String := if b then "1" else "0"

def joinOr (sep : String) (l : List String) : String := if l.isEmpty then "-" else String.intercalate sep l

/-- `Stage{stage_id}`: (primary, drift) -/
def renderStageQ (v : Variant) (s : State) (id : Nat) : String × String :=
  match stageQ v s id with
  | .ok (st, c) => if v == .merkle then (s!"{renderP st}@{c}", renderX st) else (renderP st, s!"{renderX st}@{c}")
  | .error _ => ("e", "e")

/-- (primary, drift) summary printed after every successful message -/
def summary (v : Variant) (s : State) : String × String :=
  let qs := (List.range 4).map (renderStageQ v s)
  let n := if v == .merkle then 0 else s.num
  let lim := if v == .merkle then 0 else s.limit
  (s!"st={String.intercalate ";" (qs.map (·.1))} n={n}",
   s!"sx={String.intercalate ";" (qs.map (·.2))} lim={lim} whale={renderOpt s.whale} adm={renderNats s.admins}:{b01 s.mutable}")

def parseOp (v : Variant) (ws : List String) : Option (Option Op) :=
  -- outer none = malformed line; inner none = a line the contract rejects before the model sees it (bad root)
  match ws.head? with
  | some "inst" => do
    let now ← natKv ws "now"; let sender ← natKv ws "sender"; let funds ← pairListKv ws "funds"
    let limit ← natKv ws "limit"; let whale ← optNatKv ws "whale"; let admins ← natListKv ws "admins"
    let mutable ← boolKv ws "mutable"; let stages ← (kv ws "stages").bind parseStages
    let members ← (kv ws "members").bind parseMemberLists
    let uribad ← boolKv ws "uribad"
    let rootsS ← kv ws "roots"
    match (if v == .merkle then parseRoots rootsS else some []) with
    | none => pure none
    | some roots =>
      pure (some (.inst now sender (funds.map fun (d, a) => ⟨d, a⟩) limit whale admins mutable stages members roots uribad))
  | some "add_stage" => do
    let now ← natKv ws "now"; let sender ← natKv ws "sender"
    let st ← (kv ws "stage").bind parseStage; let ms ← pairListKv ws "members"
    pure (some (.addStage now sender st ms))
  | some "remove_stage" => do
    let now ← natKv ws "now"; let sender ← natKv ws "sender"; let id ← natKv ws "id"
    pure (some (.removeStage now sender id))
  | some "update_stage" => do
    let now ← natKv ws "now"; let sender ← natKv ws "sender"; let id ← natKv ws "id"
    let name ← optNatKv ws "name"; let start ← optNatKv ws "start"; let stop ← optNatKv ws "stop"
    let pal ← optNatKv ws "pal"
    let price ← match kv ws "price" with
      | some "-" => some none
      | some p => (pairList? p).bind fun l => match l with | [x] => some (some x) | _ => none
      | none => none
    let mcl ← match kv ws "mcl" with
      | some "-" => some none
      | some "none" => some (some none)
      | some m => (nat? m).map fun n => some (some n)
      | none => none
    pure (some (.updateStage now sender { id, name, start, stop, price, pal, mcl }))
  | some "add_members" => do
    let now ← natKv ws "now"; let sender ← natKv ws "sender"; let id ← natKv ws "id"
    let ms ← pairListKv ws "members"
    pure (some (.addMembers now sender id ms))
  | some "remove_members" => do
    let now ← natKv ws "now"; let sender ← natKv ws "sender"; let id ← natKv ws "id"
    let as ← natListKv ws "addrs"
    pure (some (.removeMembers now sender id as))
  | some "increase_limit" => do
    let now ← natKv ws "now"; let sender ← natKv ws "sender"; let funds ← pairListKv ws "funds"
    let limit ← natKv ws "limit"
    pure (some (.increaseLimit now sender (funds.map fun (d, a) => ⟨d, a⟩) limit))
  | some "update_admins" => do
    let now ← natKv ws "now"; let sender ← natKv ws "sender"; let admins ← natListKv ws "admins"
    pure (some (.updateAdmins now sender admins))
  | some "freeze" => do
    let now ← natKv ws "now"; let sender ← natKv ws "sender"
    pure (some (.freeze now sender))
  | some "migrate" => do
    let now ← natKv ws "now"; let sender ← natKv ws "sender"
    pure (some (.migrate now sender))
  | some "unk" => do
    let now ← natKv ws "now"; let sender ← natKv ws "sender"
    pure (some (.unknown now sender))
  | _ => none

def exB (r : Except Err Bool) : String := match r with | .ok b => b01 b | .error _ => "e"

def smiB (r : Except Err (Bool × Nat)) : String := match r with | .ok (b, _) => b01 b | .error _ => "e"
def smiP (r : Except Err (Bool × Nat)) : String := match r with | .ok (_, p) => toString p | .error _ => "e"

def query (v : Variant) (s : State) (ws : List String) : Option String := do
  let now ← natKv ws "now"
  let probes ← natListKv ws "probes"
  let folded : List (Option Nat) ← match kv ws "folded" with
    | none => some []
    | some "-" => some []
    | some f => (f.splitOn ",").mapM optNat?
  let lb := v != .merkle
  let nst := s.stages.length
  let c := configQ s now
  let cfg := if c.active then s!"1:{c.start}:{c.stop}:{c.denom}:{c.price}:{c.pal}" else "0"
  let cfgx := s!"{if lb then c.num else 0}:{c.pal}:{if lb then c.limit else 0}:{c.start}:{c.stop}:{c.denom}:{c.price}:{b01 c.active}:{renderOpt c.whale}"
  let as := match activeStage s.stages now with | some st => (renderP st, renderX st) | none => ("-", "-")
  let sl := match stagesQ v s with
    | .ok l =>
      (joinOr ";" (l.map fun (p : Stage × Nat) => if lb then renderP p.1 else s!"{renderP p.1}@{p.2}"),
       joinOr ";" (l.map fun (p : Stage × Nat) => if lb then s!"{renderX p.1}@{p.2}" else renderX p.1))
    | .error _ => ("e", "e")
  let qs := (List.range 4).map (renderStageQ v s)
  let st := String.intercalate ";" (qs.map (·.1))
  let sx := String.intercalate ";" (qs.map (·.2))
  let hm := if lb then joinOr "," (probes.map fun a => exB (hasMember s now a)) else "x"
  let mb := if v == .flex then joinOr "," (probes.map fun a => match memberQ s now a with | .ok n => toString n | .error _ => "e") else "x"
  -- StageMemberInfo: `is_member` of the existing stages is primary; the limit half and ids beyond the list are drift
  let smiOf (f : Except Err (Bool × Nat) → String) (ids : List Nat) : String :=
    joinOr "," (probes.map fun a => joinOr "+" (ids.map fun id => f (stageMemberInfo v s id a)))
  let smi := if lb then smiOf smiB (List.range nst) else "x"
  let smip := if lb then smiOf smiP (List.range nst) else "x"
  let smio := if lb then smiOf (fun r => s!"{smiB r}:{smiP r}") ((List.range 4).drop nst) else "x"
  let asmiOf (f : Bool × Nat → String) : String :=
    joinOr "," (probes.map fun a => match allStageMemberInfo v s a with
      | .ok l => joinOr "+" (l.map f)
      | .error _ => "e")
  let asmi := if lb then asmiOf (fun r => b01 r.1) else "x"
  let asmip := if lb then asmiOf (fun r => toString r.2) else "x"
  let ms := if lb then String.intercalate "/" ((List.range 4).map fun k => renderPairs (membersOf s k)) else "x"
  let n := if lb then c.num else 0
  let ce := joinOr "," (probes.map fun a => if validAddr a then b01 (isAdmin s a) else "e")
  let mk := if lb then "x" else joinOr "," (folded.map fun f => exB (hasMemberMerkle s now f))
  let roots := if lb then "x" else renderNats s.roots
  pure (s!"ok act={activeStageId s now} is={b01 (isActive s now)} cfg={cfg} as={as.1} sl={sl.1} st={st} hm={hm} mb={mb} smi={smi} asmi={asmi} ms={ms} n={n} mk={mk} roots={roots}" ++
    s!" ## hs={b01 (hasStarted s now)} he={b01 (hasEnded s now)} cfgx={cfgx} asx={as.2} slx={sl.2} sx={sx} smip={smip} smio={smio} asmip={asmip} lim={if lb then c.limit else 0} adm={renderNats s.admins}:{b01 s.mutable} ce={ce}")

/-- a valid schedule of `n` stages in the future of `now` (used to ask "would this instantiate pass the NON-schedule checks?") -/
def canonStages (now n : Nat) : List Stage :=
  (List.range n).map fun k =>
    { name := k, start := now + 10 + 20 * k, stop := now + 20 + 20 * k, denom := 0, price := 0, pal := 1, mcl := none }

def isOk {α : Type} (r : Except Err α) : Bool := match r with | .ok _ => true | .error _ => false

/-- the model's own opinion on the non-schedule checks of an `inst` line (`-` when the stage count itself is out of range) -/
def envOpinion (v : Variant) (op : Op) : String :=
  match op with
  | .inst now sender funds limit whale admins mutable stages members roots uriBad =>
    if stages.length == 0 || stages.length > 3 then "-"
    else b01 (isOk (step v none (.inst now sender funds limit whale admins mutable (canonStages now stages.length) members roots uriBad)))
  | _ => "-"

def okLine (v : Variant) (s : State) (extra : String) : String :=
  let (p, d) := summary v s
  s!"ok {p} ## {d}{extra}"

def c13Step (σ : Variant × World) (line : String) : (Variant × World) × String :=
  let ws := words line
  let (v, w) := σ
  match ws.head? with
  | some "case" => ((parseVariant ws, none), "case")
  | some "q" =>
    match w with
    | none => (σ, "err")
    | some s => (σ, (query v s ws).getD "bad-op")
  | some kind =>
    match parseOp v ws with
    | none => (σ, "bad-op")
    | some none =>
      -- a Merkle root that is not 16-byte hex: rejected before the model (a non-schedule reason)
      let n := ((kv ws "stages").bind parseStages).map List.length |>.getD 0
      (σ, if n == 0 || n > 3 then "err ## env=-" else "err ## env=0")
    | some (some op) =>
      let r := step v w op
      if kind == "inst" then
        if kv ws "envok" == some "0" then (σ, s!"err ## env={envOpinion v op}")
        else match r with
          | .ok (some s) => ((v, some s), okLine v s " env=1")
          | _ => (σ, s!"err ## env={envOpinion v op}")
      else if kind == "add_stage" then
        let opinion : String := match r with
          | .ok _ => "1"
          | .error _ => match op with
            | .addStage now sender st _ => if isOk (step v w (.addStage now sender st [])) then "0" else "-"
            | _ => "-"
        if kv ws "menv" == some "0" then (σ, s!"err ## menv={opinion}")
        else match r with
          | .ok (some s) => ((v, some s), okLine v s " menv=1")
          | _ => (σ, s!"err ## menv={opinion}")
      else if kind == "migrate" || kind == "unk" then
        -- outside `ExecuteMsg` / no state change expected: the verdict is drift, the resulting state is primary
        match w with
        | none => (σ, "err")
        | some s0 =>
          let s := match r with | .ok (some s1) => s1 | _ => s0
          let (p, d) := summary v s
          ((v, some s), s!"fr {p} ## {d} res={b01 (isOk r)}")
      else if kind == "remove_stage" || kind == "update_stage" then
        match r with
        | .ok (some s) => ((v, some s), okLine v s "")
        | _ => (σ, "err")
      else
        -- member / limit / admin messages: the implementation's verdict is a witness (`res=`)
        match kv ws "res" with
        | some "0" => (σ, s!"err ## res={b01 (isOk r)}")
        | _ => match r with
          | .ok (some s) => ((v, some s), okLine v s " res=1")
          | _ => (σ, "err ## res=0")
  | none => (σ, "bad-op")

def main : IO Unit := runDriverRaw ((Variant.plain, (none : World))) c13Step
