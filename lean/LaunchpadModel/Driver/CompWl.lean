import LaunchpadModel.Model.WhitelistFull
import LaunchpadModel.Model.Proto
/-!
Driver for the composite model of the whitelist family (`LP.WF`, Model/WhitelistFull.lean). One output line per input
line. Every answer to a state-changing line is `<case|ok|err> <obs>` with `<obs>` = the COMPLETE observable state
(`W …` every public query of the observed contract, `B …` bank balances and supplies); see docs/COMPOSITE_WHITELIST.md §3.

* `case now= accts=<ids> uni=<ids>`
* `t now=` · `fund a= d= amt=`
* `inst v=<0..6> sender= funds= admins= mut= start= end= price=d:a pal= limit= whale=<n|-> members=<a:c,…|->
   stages=<name:start:end:denom:price:pal:mcl;…|-> smembers=<list|list|…  or ~> roots=<s,s|-> uriok= uris=<none|-|ids> dbps=<n|->`
   + witness `self=` (the address the chain gave / would give the new contract)
* `upd_start t=` · `upd_end t=` · `add stage= members=` · `rm stage= addrs=` · `upd_pal n=` · `inc limit=` ·
  `upd_admins admins=` · `freeze` · `add_stage stage=<…> members=` · `rm_stage id=` ·
  `upd_stage id= name= start= end= price= pal= mcl=` · `unknown name=`        (all with `sender= funds=`)
* `q_has m=<hex of the member bytes> proof=<s,s,…|->` → `ok 1|0` / `err`     (Merkle kinds)
* `q_page stage= after=<a|-> limit=<n|->` → `ok <a:c,…>` / `err`
* `surface v=` → `ok exec=<names> query=<names>`  (the message surface the model knows for crate `v`)
-/
open LP LP.Proto LP.WF

structure Drv where
  s : State
  accts : List Nat
  uni : List Nat

def coinKv (ws : List String) (key : String) : Option Coin :=
  match pairListKv ws key with
  | some [(d, a)] => some ⟨d, a⟩
  | _ => none

def fundsKv (ws : List String) : List Coin :=
  ((pairListKv ws "funds").getD []).map fun (d, a) => ⟨d, a⟩

def rb (b : Bool) : String := if b then "1" else "0"
def rob (o : Option Bool) : String := match o with | some b => rb b | none => "e"
def ron (o : Option Nat) : String := match o with | some n => toString n | none => "e"

def strBytes (s : String) : List Nat := s.toUTF8.toList.map (·.toNat)
def bytesStr (b : List Nat) : String := String.ofList (b.map Char.ofNat)
def strList (v : String) : List (List Nat) := if v == "-" then [] else (v.splitOn ",").map strBytes
def renderStrs (l : List (List Nat)) : String := if l.isEmpty then "-" else String.intercalate "," (l.map bytesStr)

def renderStage (s : Stage) : String :=
  s!"{s.name}:{s.start}:{s.stop}:{s.denom}:{s.price}:{s.pal}:{renderOpt s.mcl}"

def stage? (s : String) : Option Stage :=
  match s.splitOn ":" with
  | [n, a, b, d, p, l, m] => do
    let n ← nat? n; let a ← nat? a; let b ← nat? b; let d ← nat? d; let p ← nat? p; let l ← nat? l
    let m ← (if m == "-" then some none else (nat? m).map some)
    pure { name := n, start := a, stop := b, denom := d, price := p, pal := l, mcl := m }
  | _ => none

def stages? (v : String) : Option (List Stage) := if v == "-" then some [] else (v.splitOn ";").mapM stage?

/-- `list|list|…`, `~` = no list at all -/
def parseLists (s : String) : Option (List (List (Nat × Nat))) :=
  if s == "~" then some [] else (s.splitOn "|").mapM pairList?

/-! ### observation -/

/-- all pages of `Members` with page size 100, as the harness walks them -/
def walk (w : Wl) (stage : Nat) : Nat → Option Nat → List Member → Option (List Member)
  | 0, _, acc => some acc
  | fuel + 1, after, acc =>
    match qMembers w stage after (some 100) with
    | none => none
    | some [] => some acc
    | some page => walk w stage fuel (page.getLast?.map (·.1)) (acc ++ page)

def renderMap (o : Option (List Member)) : String :=
  match o with
  | none => "e"
  | some l => renderPairs l

def renderCfg (o : Option ConfigR) : String :=
  match o with
  | none => "e"
  | some c =>
    let pal := match c.pal with | some n => toString n | none => "-"
    let whale := match c.whale with | none => "-" | some none => "n" | some (some n) => toString n
    s!"{c.num}:{pal}:{c.limit}:{c.start}:{c.stop}:{c.price.denom}:{c.price.amount}:{rb c.active}:{whale}"

def stageIds : List Nat := [0, 1, 2, 3]

def obsWl (d : Drv) : String :=
  match d.s.wl with
  | none => "W -"
  | some w =>
    let now := d.s.now
    let v := w.v
    let vi := (List.range 7).find? (fun i => Variant.ofIdx i == some v)
    let adm := match qAdminList w with
      | some (l, m) => s!"adm={renderNats l} mut={rb m}"
      | none => "adm=e mut=e"
    let flags := s!"hs={rob (qHasStarted w now)} he={rob (qHasEnded w now)} ia={rob (qIsActive w now)}"
    let cfg := s!"cfg={renderCfg (qConfig w now)}"
    let tier :=
      if v.tiered && !v.isImmutable then
        let as := match qActiveStage w now with
          | none => "e" | some none => "n" | some (some st) => renderStage st
        let st := String.intercalate "|" (stageIds.map fun k =>
          if v.isMerkle then (match qStageMerkle w k with | some (s, r) => s!"{renderStage s}/{bytesStr r}" | none => "e")
          else (match qStage w k with | some (s, c) => s!"{renderStage s}/{c}" | none => "e"))
        let sts :=
          if v.isMerkle then (match qStagesMerkle w with
            | some l => String.intercalate ";" (l.map fun (s, r) => s!"{renderStage s}/{bytesStr r}") | none => "e")
          else (match qStages w with
            | some l => String.intercalate ";" (l.map fun (s, c) => s!"{renderStage s}/{c}") | none => "e")
        s!"asid={ron (qActiveStageId w now)} as={as} st={st} sts={sts}"
      else "asid=- as=- st=- sts=-"
    let mem :=
      if v.isList && v.tiered then String.intercalate "|" (stageIds.map fun k => renderMap (walk w k 1000 none []))
      else renderMap (walk w 0 1000 none [])
    let has := String.join (d.uni.map fun a => rob (qHasMember w now a))
    let mc := String.intercalate "," (d.uni.map fun a => match qMember w now a with | some c => toString c | none => "x")
    let smi :=
      if v.isList && v.tiered then
        String.intercalate "|" (stageIds.map fun k => String.intercalate "," (d.uni.map fun a =>
          match qStageMemberInfo w k a with | some (b, n) => s!"{rb b}:{n}" | none => "e"))
      else "-"
    let asmi :=
      if v.isList && v.tiered then
        String.intercalate "," (d.uni.map fun a =>
          match qAllStageMemberInfo w a with
          | some l => if l.isEmpty then "." else String.intercalate "+" (l.map fun (b, n) => s!"{rb b}:{n}")
          | none => "e")
      else "-"
    let mk :=
      if v.isMerkle then
        let roots := match qMerkleRoots w with | some l => renderStrs l | none => "e"
        let uris := match qMerkleTreeUris w with | some none => "n" | some (some l) => renderNats l | none => "e"
        s!"roots={roots} uris={uris}"
      else "roots=- uris=-"
    let can := String.join (d.uni.map fun a => rob (qCanExecute w a))
    let im :=
      if v.isImmutable then
        let c := match qImConfig w with | some (a, p, b) => s!"{a}:{p}:{match b with | some n => toString n | none => "n"}" | none => "e"
        let inc := String.join (d.uni.map fun a => rob (qIncludesAddress w a))
        s!"im={c} inc={inc} iadm={ron (qImAdmin w)} cnt={ron (qAddressCount w)} ipal={ron (qPerAddressLimit w)}"
      else "im=-"
    -- raw storage: number of member-map entries / number of MEMBER_COUNT entries
    let raw := if v.isMerkle then "-" else s!"{w.members.length + WlMembers.stageTotal w.smembers}/{w.smembers.length}"
    s!"W v={renderOpt vi} self={w.self} {adm} {flags} {cfg} {tier} mem={mem} raw={raw} has={has} mc={mc} smi={smi} asmi={asmi} {mk} can={can} {im}"

def obsBank (d : Drv) : String :=
  let extra := match d.s.wl with | some w => [w.self] | none => []
  let as := d.accts ++ extra
  let b := d.s.bank
  let bal := String.intercalate "," (as.map fun a => s!"{a}:{b.bal a 0}:{b.bal a 1}")
  s!"B {bal} sup={b.supply 0}:{b.supply 1}"

def obs (d : Drv) : String := s!"{obsWl d} {obsBank d}"

/-! ### parsing -/

def parseInst (ws : List String) : Option (Variant × Addr × InstMsg) := do
  let vi ← natKv ws "v"; let v ← Variant.ofIdx vi
  let self ← natKv ws "self"
  let admins ← natListKv ws "admins"; let mu ← boolKv ws "mut"
  let start ← natKv ws "start"; let en ← natKv ws "end"; let price ← coinKv ws "price"
  let pal ← natKv ws "pal"; let limit ← natKv ws "limit"; let whale ← optNatKv ws "whale"
  let members ← pairListKv ws "members"
  let stages ← (kv ws "stages").bind stages?
  let sm ← (kv ws "smembers").bind parseLists
  let roots ← (kv ws "roots").map strList
  let uriok ← boolKv ws "uriok"
  let uris ← (match kv ws "uris" with
    | some "none" => some none
    | some v => (natList? v).map some
    | none => none)
  let dbps ← optNatKv ws "dbps"
  pure (v, self,
    { admins := admins, adminsMutable := mu, start := start, end_ := en, mintPrice := price, perAddr := pal,
      memberLimit := limit, whaleCap := whale, members := members, stages := stages, stageMembers := sm,
      roots := roots, uriOk := uriok, uris := uris, discountBps := dbps })

def parseExec (ws : List String) : Option ExecMsg :=
  match ws.head? with
  | some "upd_start" => (natKv ws "t").map ExecMsg.updateStartTime
  | some "upd_end" => (natKv ws "t").map ExecMsg.updateEndTime
  | some "add" => do
    let sg ← natKv ws "stage"; let ms ← pairListKv ws "members"
    pure (.addMembers sg ms)
  | some "rm" => do
    let sg ← natKv ws "stage"; let as ← natListKv ws "addrs"
    pure (.removeMembers sg as)
  | some "upd_pal" => (natKv ws "n").map ExecMsg.updatePerAddressLimit
  | some "inc" => (natKv ws "limit").map ExecMsg.increaseMemberLimit
  | some "upd_admins" => (natListKv ws "admins").map ExecMsg.updateAdmins
  | some "freeze" => some .freeze
  | some "add_stage" => do
    let st ← (kv ws "stage").bind stage?; let ms ← pairListKv ws "members"
    pure (.addStage st ms)
  | some "rm_stage" => (natKv ws "id").map ExecMsg.removeStage
  | some "upd_stage" => do
    let id ← natKv ws "id"; let name ← optNatKv ws "name"; let start ← optNatKv ws "start"; let en ← optNatKv ws "end"
    let price ← (match kv ws "price" with
      | some "-" => some none
      | some _ => (coinKv ws "price").map fun c => some (c.denom, c.amount)
      | none => none)
    let pal ← optNatKv ws "pal"; let mcl ← optNatKv ws "mcl"
    pure (.updateStageConfig { id := id, name := name, start := start, stop := en, price := price, pal := pal,
                               mcl := mcl.map some })
  | some "unknown" => some .unknown
  | _ => none

def execNames : List (String × ExecMsg) :=
  [("update_start_time", .updateStartTime 0), ("update_end_time", .updateEndTime 0), ("add_members", .addMembers 0 []),
   ("remove_members", .removeMembers 0 []), ("update_per_address_limit", .updatePerAddressLimit 0),
   ("increase_member_limit", .increaseMemberLimit 0), ("update_admins", .updateAdmins []), ("freeze", .freeze),
   ("add_stage", .addStage ⟨0, 0, 0, 0, 0, 0, none⟩ []), ("remove_stage", .removeStage 0),
   ("update_stage_config", .updateStageConfig ⟨0, none, none, none, none, none, none⟩)]

/-- the `QueryMsg` variant names of crate `v`, as the query functions of the model answer them -/
def queryNames (v : Variant) : List String :=
  if v.isImmutable then ["address_count", "admin", "config", "includes_address", "per_address_limit"]
  else
    let base := ["admin_list", "can_execute", "config", "has_ended", "has_member", "has_started", "is_active"]
    let list := if v.isList then ["members"] else []
    let flex := if v.isList && v.flex then ["member"] else []
    let tier := if v.tiered then ["active_stage", "active_stage_id", "stage", "stages"] else []
    let tl := if v.isList && v.tiered then ["all_stage_member_info", "stage_member_info"] else []
    let mk := if v.isMerkle then (if v.tiered then ["merkle_roots", "merkle_tree_u_r_is"] else ["merkle_root", "merkle_tree_u_r_i"]) else []
    base ++ list ++ flex ++ tier ++ tl ++ mk

def sortStrs (l : List String) : List String := (l.toArray.qsort (· < ·)).toList

def surfaceLine (v : Variant) : String :=
  let ex := sortStrs ((execNames.filter fun (_, m) => supports v m).map (·.1))
  let q := sortStrs (queryNames v)
  let r (l : List String) : String := if l.isEmpty then "-" else String.intercalate "," l
  s!"ok exec={r ex} query={r q}"

def compLine (d : Drv) (line : String) : Drv × String :=
  let ws := words line
  let sender := (natKv ws "sender").getD 0
  let funds := fundsKv ws
  let fin (d : Drv) (op : Op) : Drv × String :=
    match step d.s op with
    | .ok s2 => let d' := { d with s := s2 }; (d', s!"ok {obs d'}")
    | .error _ => (d, s!"err {obs d}")
  match ws.head? with
  | some "case" =>
    let r : Option Drv := do
      let now ← natKv ws "now"; let accts ← natListKv ws "accts"; let uni ← natListKv ws "uni"
      pure { s := init now, accts := accts, uni := uni }
    match r with
    | some d' => (d', s!"case {obs d'}")
    | none => (d, "bad-case")
  | some "t" =>
    match natKv ws "now" with
    | some t => fin d (.setTime t)
    | none => (d, "bad-op")
  | some "fund" =>
    match natKv ws "a", natKv ws "d", natKv ws "amt" with
    | some a, some dn, some amt => fin d (.fund a ⟨dn, amt⟩)
    | _, _, _ => (d, "bad-op")
  | some "inst" =>
    match parseInst ws with
    | some (v, self, m) => fin d (.instantiate v sender funds self m)
    | none => (d, "bad-op")
  | some "surface" =>
    match (natKv ws "v").bind Variant.ofIdx with
    | some v => (d, surfaceLine v)
    | none => (d, "bad-op")
  | some "q_has" =>
    match d.s.wl, (kv ws "m").bind (fun v => Merkle.hexDecode (strBytes v)), (kv ws "proof").map strList with
    | some w, some m, some proof =>
      (d, match qHasMemberMerkle w d.s.now m proof with | some b => s!"ok {rb b}" | none => "err")
    | none, _, _ => (d, "err")
    | _, _, _ => (d, "bad-op")
  | some "q_page" =>
    match d.s.wl, natKv ws "stage", optNatKv ws "after", optNatKv ws "limit" with
    | some w, some sg, some af, some li =>
      (d, match qMembers w sg af li with | some l => s!"ok {renderPairs l}" | none => "err")
    | none, _, _, _ => (d, "err")
    | _, _, _, _ => (d, "bad-op")
  | _ =>
    match parseExec ws with
    | some m => fin d (.exec sender funds m)
    | none => (d, "bad-op")

def main : IO Unit := runDriverRaw { s := init 0, accts := [], uni := [] } compLine
