import LaunchpadModel.Model.Splits
import LaunchpadModel.Model.Proto
/-!
Driver for C15 (sg-splits + cw4-group + bank). One output line per input line.

* `case mode=<addr|inst|bad> self=<a> group=<a> admin=<a|-> gadmin=<a|-> members=<a:w,…|->`  → `case ok <obs>` | `case err`
* `mint to=<a> coins=<d:n,…>`                                   → `ok <obs>` | `err`
* `send from=<a> to=<a> coins=<d:n,…>`                          → `ok <obs>` | `err`
* `update_members sender=<a> add=<a:w,…|-> remove=<a,…|->`      → `ok <obs>` | `err`
* `group_admin sender=<a> new=<a|->`                            → `ok <obs>` | `err`
* `splits_admin sender=<a> new=<a|->`                           → `ok <obs>` | `err`
* `distribute sender=<a> funds=<d:n,…|-> denoms=<none|-|d,…> order=<d,…|->` → `ok msgs=<to:d:n,…|-> <obs>` | `err`
  (`order` = witness: the denoms `query_all_balances` returns, in the bank's order; rejected ⇒ `bad-witness`)
* `q_members start=<a|-> limit=<n|->`                           → `ok <a:w,…|->`
* `q_member addr=<a>`                                           → `ok <w|->`
* `exec_raw sender=<a> funds=<d:n,…|-> v=<variant> k=<n>`       → `raw <obs> ## err …` (an execute message the contract does not have)
* `migrate sender=<a> from=<same|old|newer|other>`              → `mig <obs>` (ok/err is the environment's: wasm admin, cw2 version)

Any line may carry `hold=1` (the harness does not advance the block after it); the model has no clock and ignores it.

Projection (` ## `, see docs/HARNESS.md): what C15 constrains is BEFORE ` ## `:
`<obs>` = `sadmin=<a|-> total=<n> members=<a:w,…|-> bank=<a:d:n,…|->` and, for `distribute`,
`paid=<to:d:n,…|->` = what every account other than the contract gained, one entry per (recipient, denom), sorted —
the order of the bank messages, their grouping and the payments the contract addresses to itself are NOT constrained
by the property. BEHIND ` ## `: `gadmin=` (cw4-group's own admin), `msgs=` (the messages in emission order), the
ok/err of `exec_raw`, and the answer of every `q_members` other than the one `execute_distribute` itself makes
(`start=- limit=30`): cw4-group's private `DEFAULT_LIMIT`/`MAX_LIMIT` are not C15's.
-/
open LP LP.Proto LP.Splits

def coinsOf15 (l : List (Nat × Nat)) : List Coin := l.map fun (d, a) => ⟨d, a⟩

def renderTriples (l : List (Nat × Nat × Nat)) : String :=
  if l.isEmpty then "-" else String.intercalate "," (l.map fun (a, b, c) => s!"{a}:{b}:{c}")

def obs (s : State) : String :=
  let bank := (bankView s.bank).map fun e => (e.1.1, e.1.2, e.2)
  s!"sadmin={renderOpt s.admin} total={s.group.total} members={renderPairs s.group.members} bank={renderTriples bank}"

/-- outside the projection -/
def obsD (s : State) : String := s!"gadmin={renderOpt s.group.admin}"

def okObs (r : Except Err State) (old : State) : State × String :=
  match r with
  | .ok s' => (s', s!"ok {obs s'} ## {obsD s'}")
  | .error _ => (old, "err")

def modeOf (s : String) : Option Mode :=
  if s == "addr" then some .addr else if s == "inst" then some .inst else if s == "bad" then some .bad else none

def c15Line (st : Option State) (line : String) : Option State × String :=
  let ws := words line
  if ws.head? == some "case" then
    let r : Option (Except Err State) := do
      let m ← (kv ws "mode").bind modeOf
      let self ← natKv ws "self"; let g ← natKv ws "group"
      let admin ← optNatKv ws "admin"; let gadmin ← optNatKv ws "gadmin"
      let ms ← pairListKv ws "members"
      pure (instantiate m self g admin gadmin ms)
    match r with
    | some (.ok s) => (some s, s!"case ok {obs s} ## {obsD s}")
    | some (.error _) => (none, "case err")
    | none => (none, "bad-op")
  else
    match st with
    | none => (none, "err")
    | some s =>
      let r : Option (State × String) :=
        match ws.head? with
        | some "mint" => do
          let to ← natKv ws "to"; let cs ← pairListKv ws "coins"
          pure (okObs (step s (.mint to (coinsOf15 cs))) s)
        | some "send" => do
          let f ← natKv ws "from"; let to ← natKv ws "to"; let cs ← pairListKv ws "coins"
          pure (okObs (step s (.send f to (coinsOf15 cs))) s)
        | some "update_members" => do
          let sd ← natKv ws "sender"; let add ← pairListKv ws "add"; let rm ← natListKv ws "remove"
          pure (okObs (step s (.updateMembers sd add rm)) s)
        | some "group_admin" => do
          let sd ← natKv ws "sender"; let n ← optNatKv ws "new"
          pure (okObs (step s (.groupAdmin sd n)) s)
        | some "splits_admin" => do
          let sd ← natKv ws "sender"; let n ← optNatKv ws "new"
          pure (okObs (step s (.splitsAdmin sd n)) s)
        | some "distribute" => do
          let sd ← natKv ws "sender"; let fu ← pairListKv ws "funds"
          let dn ← kv ws "denoms"
          let denoms : Option (List Nat) ← if dn == "none" then some none else (natList? dn).map some
          let order ← natListKv ws "order"
          -- the witness is checked, not trusted
          let witnessBad : Bool :=
            match denoms, attachFunds s.bank sd s.self (coinsOf15 fu) with
            | none, some b1 => !validOrder b1 s.self order
            | _, _ => false
          if witnessBad then pure (s, "bad-witness")
          else
            match distribute s sd (coinsOf15 fu) denoms order with
            | .ok (s', msgs) =>
              -- `step` is what the theorems are about; it returns the same state
              match step s (.distribute sd (coinsOf15 fu) denoms order) with
              | .ok s'' =>
                if s'' == s' then
                  let paid := (paidView s.self msgs).map fun e => (e.1.1, e.1.2, e.2)
                  pure (s', s!"ok paid={renderTriples paid} {obs s'} ## {obsD s'} msgs={renderTriples (msgs.map fun p => (p.to, p.denom, p.amount))}")
                else pure (s, "model-inconsistent")
              | .error _ => pure (s, "model-inconsistent")
            | .error _ => pure (s, "err")
        | some "q_members" => do
          let st ← optNatKv ws "start"; let lim ← optNatKv ws "limit"
          -- only the page `execute_distribute` itself asks for is inside the projection
          if st == none && lim == some Gen.sg_splits_PAGINATION_LIMIT then
            pure (s, s!"ok {renderPairs (listMembers s.group st lim)}")
          else pure (s, s!"ok ## {renderPairs (listMembers s.group st lim)}")
        | some "q_member" => do
          let a ← natKv ws "addr"
          pure (s, s!"ok {renderOpt (lookupM s.group.members a)}")
        | some "exec_raw" => do
          let sd ← natKv ws "sender"; let fu ← pairListKv ws "funds"
          let s' := step' s (.raw sd (coinsOf15 fu))
          pure (s', s!"raw {obs s'} ## err {obsD s'}")
        | some "migrate" => do
          let sd ← natKv ws "sender"
          let s' := step' s (.migrate sd)
          pure (s', s!"mig {obs s'}")
        | _ => none
      match r with
      | some (s', o) => (some s', o)
      | none => (some s, "bad-op")

def main : IO Unit := runDriverRaw (none : Option State) c15Line
