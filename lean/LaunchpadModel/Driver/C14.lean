import LaunchpadModel.Model.Merkle
import LaunchpadModel.Model.MerkleWl
import LaunchpadModel.Model.Sha256
import LaunchpadModel.Model.Blake3
import LaunchpadModel.Model.Proto
/-!
Driver for C14 (one output line per input line). Strings travel raw (no spaces, `,`, `;`, `=` inside them) except
member / sender strings, which are hex of their UTF-8 bytes.

* `case kind=plain|tiered …`                               → `case`   (state reset; hash = SHA-256 / BLAKE3-16)
* `hash alg=sha256|blake3|blake3_16 m=<hex>`               → `ok <hex digest>`
* `leaf m=<hex>`                                           → `ok`     (append to the pending member list)
* `build slot=<k>`                                         → `ok <root hex|->` (layered tree of the pending list; list cleared)
* `proof slot=<k> i=<idx>`                                 → `ok <h,h,…|->`   (layered proof of leaf idx)
* `inst now= funds=<d:a,…|-> … res=<0|1>`                  → `ok roots= active= ## v= <cfg>` | `err ## v=`
* `exec now= op=<…> … res=<0|1> [w_…=]`                    → `x roots= active= ## v= <cfg>`
* `has now= m=<hex> proof=<s,s,…|->`                       → `ok 1` | `ok 0` | `err`
* `mint now= sender=<hex> stage=<n|-> alloc=<n|-> proof=<s,…|-|none> res=<0|1>` → `ok ## cnt=` | `err ## cnt=`

Answers are `primary ## drift`; only `primary` decides agreement.

PRIMARY = what C14 constrains and the mechanism state its theorems use: the committed root(s) after every message, the
active stage, every `HasMember` answer, accept/reject of a mint as far as the Merkle gate decides it (gate closed ⇒
`err`; gate open on the first mint of a `(sender, window)` with allowance ≥ 1 ⇒ `ok`), reject of an instantiate whose
root is malformed.

WITNESSES (`res=`, `w_*=`, appended by the harness = what the implementation decided in areas C14 does not own): accept /
reject of an instantiate with well-formed roots, accept / reject and resulting windows, limits, admins of every message
sent to the whitelist, accept / reject of a mint the gate lets through after the first one. The aspect model FOLLOWS them
(`Op.wlMsg`, `Op.mint … res`); its own opinion — the prediction of today's rules, `MerkleWl.predict`,
`instantiatePlain/Tiered` — goes behind ` ## ` as `v=` with the configuration it expected, next to the mint counter.
-/
open LP LP.Proto LP.Merkle LP.MerkleWl

structure DS where
  tiered : Bool := false
  pending : Array Bytes := #[]
  slots : List (Nat × List (List Bytes)) := []
  world : Option World := none

def strBytes (s : String) : List Nat := s.toUTF8.toList.map (·.toNat)
def bytesStr (b : List Nat) : String := String.ofList (b.map Char.ofNat)
def hexArg (ws : List String) (key : String) : Option Bytes := (kv ws key).bind fun v => hexDecode (strBytes v)
def strList (v : String) : List (List Nat) := if v == "-" then [] else (v.splitOn ",").map strBytes
def hashOf (st : DS) : Bytes → Bytes := if st.tiered then Blake3.blake3_16 else Sha256.sha256

def stage? (s : String) : Option Stage :=
  match (s.splitOn ":").mapM nat? with
  | some [a, b, c, d] => some ⟨a, b, c, d⟩
  | _ => none
def stages? (v : String) : Option (List Stage) := if v == "-" then some [] else (v.splitOn ";").mapM stage?
def renderStages (l : List Stage) : String :=
  if l.isEmpty then "-" else String.intercalate ";" (l.map fun s => s!"{s.start}:{s.end_}:{s.pal}:{s.denom}")
def renderStrs (l : List (List Nat)) : String := if l.isEmpty then "-" else String.intercalate "," (l.map bytesStr)
def b01 (b : Bool) : String := if b then "1" else "0"

/-- primary observation: roots + active stage -/
def obsP (now : Nat) (wl : Wl) : String :=
  match wl with
  | .plain s => s!"roots={renderStrs [s.root]} active={b01 (s.isActive now)}"
  | .tiered s =>
    let a := match activeIdx now s.stages with | some i => i + 1 | none => 0
    s!"roots={renderStrs s.roots} active={a}"

/-- drift observation: the configuration C11/C12/C13 own -/
def obsD (wl : Wl) : String :=
  match wl with
  | .plain s => s!"start={s.start} end={s.end_} pal={s.pal} admins={renderNats s.admins} mut={b01 s.mutable_}"
  | .tiered s => s!"stages={renderStages s.stages} admins={renderNats s.admins} mut={b01 s.mutable_}"

def coinsOf (l : List (Nat × Nat)) : List Coin := l.map fun (d, a) => ⟨d, a⟩

/-- the witnessed configuration after an accepted message (roots are not part of it) -/
def parsePost (st : DS) (ws : List String) : Option Wl := do
  let admins ← natListKv ws "w_admins"
  let mu ← boolKv ws "w_mut"
  if st.tiered then do
    let stages ← (kv ws "w_stages").bind stages?
    pure (.tiered ⟨[], stages, admins, mu⟩)
  else do
    let start ← natKv ws "w_start"; let en ← natKv ws "w_end"; let pal ← natKv ws "w_pal"
    pure (.plain ⟨[], start, en, pal, admins, mu⟩)

/-- today's rule for the message, for the DRIFT column -/
def parseWlOp (st : DS) (ws : List String) : Option WlOp :=
  let other : WlOp := if st.tiered then .tiered .other else .plain .other
  match kv ws "op" with
  | some "update_start" => do
    let s ← natKv ws "sender"; let t ← natKv ws "t"
    pure (if st.tiered then other else .plain (.updateStart s t))
  | some "update_end" => do
    let s ← natKv ws "sender"; let t ← natKv ws "t"
    pure (if st.tiered then other else .plain (.updateEnd s t))
  | some "update_admins" => do
    let s ← natKv ws "sender"; let a ← natListKv ws "admins"; let ok ← boolKv ws "ok"
    pure (if st.tiered then .tiered (.updateAdmins s a ok) else .plain (.updateAdmins s a ok))
  | some "freeze" => do
    let s ← natKv ws "sender"
    pure (if st.tiered then .tiered (.freeze s) else .plain (.freeze s))
  | some "migrate" => pure (if st.tiered then .tiered .migrate else .plain .migrate)
  | some "update_stage" => do
    let s ← natKv ws "sender"; let id ← natKv ws "id"
    let sa ← optNatKv ws "start"; let en ← optNatKv ws "end"; let pal ← optNatKv ws "pal"; let dn ← optNatKv ws "denom"
    pure (if st.tiered then .tiered (.updateStage s id sa en pal dn) else other)
  | some "raw" => pure other
  | _ => none

def c14Line (st : DS) (line : String) : DS × String :=
  let ws := words line
  let bad := (st, "bad-op")
  match ws.head? with
  | some "case" =>
    ({ tiered := kv ws "kind" == some "tiered" }, "case")
  | some "hash" =>
    match kv ws "alg", hexArg ws "m" with
    | some "sha256", some m => (st, s!"ok {bytesStr (hexEncode (Sha256.sha256 m))}")
    | some "blake3", some m => (st, s!"ok {bytesStr (hexEncode (Blake3.blake3 m))}")
    | some "blake3_16", some m => (st, s!"ok {bytesStr (hexEncode (Blake3.blake3_16 m))}")
    | _, _ => bad
  | some "leaf" =>
    match hexArg ws "m" with
    | some m => ({ st with pending := st.pending.push m }, "ok")
    | none => bad
  | some "build" =>
    match natKv ws "slot" with
    | some k =>
      let H := hashOf st
      let layers := treeLayers H (st.pending.toList.map H)
      let r := match layersRoot layers with | some r => bytesStr (hexEncode r) | none => "-"
      ({ st with pending := #[], slots := (k, layers) :: st.slots.filter (·.1 != k) }, s!"ok {r}")
    | none => bad
  | some "proof" =>
    match natKv ws "slot", natKv ws "i" with
    | some k, some i =>
      match st.slots.find? (·.1 == k) with
      | some (_, layers) => (st, s!"ok {renderStrs ((proofAt layers i).map hexEncode)}")
      | none => bad
    | _, _ => bad
  | some "inst" =>
    -- (aspect-model result, today's full validation) of the instantiate message
    let r : Option (Option Wl × Option Wl) := do
      let now ← natKv ws "now"
      let funds ← pairListKv ws "funds"
      let admins ← natListKv ws "admins"
      let aok ← boolKv ws "admins_ok"
      let mu ← boolKv ws "mutable"
      let uok ← boolKv ws "uri_ok"
      let res ← boolKv ws "res"
      if st.tiered then do
        let roots ← kv ws "roots"
        let stages ← (kv ws "stages").bind stages?
        let m : TieredInit := ⟨strList roots, uok, stages, admins, aok, mu⟩
        pure ((instTieredW m res).map Wl.tiered, (instantiateTiered now (coinsOf funds) m).map Wl.tiered)
      else do
        let root ← kv ws "root"
        let start ← natKv ws "start"; let en ← natKv ws "end"; let pal ← natKv ws "pal"
        let m : PlainInit := ⟨strBytes root, uok, start, en, pal, admins, aok, mu⟩
        pure ((instPlainW m res).map Wl.plain, (instantiatePlain now (coinsOf funds) m).map Wl.plain)
    match r, natKv ws "now" with
    | some (some wl, pred), some now =>
      ({ st with world := some ⟨wl, []⟩ }, s!"ok {obsP now wl} ## v={if pred.isSome then "ok" else "err"} {obsD wl}")
    | some (none, pred), _ => (st, s!"err ## v={if pred.isSome then "ok" else "err"}")
    | _, _ => bad
  | some "exec" =>
    match st.world, natKv ws "now", parseWlOp st ws, boolKv ws "res" with
    | some w, some now, some o, some res =>
      let post? := if res then parsePost st ws else some w.wl
      match post? with
      | none => bad
      | some post =>
        let w' := step' (hashOf st) w (now, .wlMsg res post)
        let d := match predict now w.wl o with
          | some p => s!"v=ok {obsD p}"
          | none => s!"v=err {obsD w'.wl}"
        ({ st with world := some w' }, s!"x {obsP now w'.wl} ## {d}")
    | _, _, _, _ => bad
  | some "has" =>
    match st.world, natKv ws "now", hexArg ws "m", kv ws "proof" with
    | some w, some now, some m, some pf =>
      match w.wl.hasMember (hashOf st) now m (strList pf) with
      | some true => (st, "ok 1")
      | some false => (st, "ok 0")
      | none => (st, "err")
    | _, _, _, _ => bad
  | some "mint" =>
    match st.world, natKv ws "now", hexArg ws "sender", optNatKv ws "stage", optNatKv ws "alloc", kv ws "proof",
        boolKv ws "res" with
    | some w, some now, some sender, some stage, some alloc, some pf, some res =>
      let proof := if pf == "none" then none else some (strList pf)
      match step (hashOf st) now w (.mint sender stage alloc proof res) with
      | some w' => ({ st with world := some w' }, s!"ok ## cnt={mintedBy w' sender}")
      | none => (st, s!"err ## cnt={mintedBy w sender}")
    | _, _, _, _, _, _, _ => bad
  | _ => bad

def main : IO Unit := runDriverRaw ({} : DS) c14Line
