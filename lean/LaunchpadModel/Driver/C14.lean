import LaunchpadModel.Model.Merkle
import LaunchpadModel.Model.MerkleWl
import LaunchpadModel.Model.Sha256
import LaunchpadModel.Model.Blake3
import LaunchpadModel.Model.Proto
/-!
Driver for C14 (one output line per input line). Strings travel raw (no spaces, `,`, `;`, `=` inside them) except
member / sender strings, which are hex of their UTF-8 bytes.

* `case kind=plain|tiered …`                               → `case`   (state reset; hash = SHA-256 / BLAKE3-16)
* `hash alg=sha256|blake3|blake3_16 m=<hex>`               → `ok <hex digest>`
* `leaf m=<hex>`                                           → `ok`     (append to the pending member list)
* `build slot=<k>`                                         → `ok <root hex|->` (layered tree of the pending list; list cleared)
* `proof slot=<k> i=<idx>`                                 → `ok <h,h,…|->`   (layered proof of leaf idx)
* `inst now= funds=<d:a,…|-> …`                            → `ok <obs>` | `err`
* `exec now= op=<…> …`                                     → `ok <obs>` | `err <obs>`
* `has now= m=<hex> proof=<s,s,…|->`                       → `ok 1` | `ok 0` | `err`
* `mint now= sender=<hex> stage=<n|-> alloc=<n|-> proof=<s,…|-|none>` → `ok <count>` | `err`
-/
open LP LP.Proto LP.Merkle LP.MerkleWl

structure DS where
  tiered : Bool := false
  pending : Array Bytes := #[]
  slots : List (Nat × List (List Bytes)) := []
  world : Option World := none

def strBytes (s : String) : List Nat := s.toUTF8.toList.map (·.toNat)
def bytesStr (b : List Nat) : String := String.ofList (b.map Char.ofNat)
def hexArg (ws : List String) (key : String) : Option Bytes := (kv ws key).bind fun v => hexDecode (strBytes v)
def strList (v : String) : List (List Nat) := if v == "-" then [] else (v.splitOn ",").map strBytes
def hashOf (st : DS) : Bytes → Bytes := if st.tiered then Blake3.blake3_16 else Sha256.sha256

def stage? (s : String) : Option Stage :=
  match (s.splitOn ":").mapM nat? with
  | some [a, b, c, d] => some ⟨a, b, c, d⟩
  | _ => none
def stages? (v : String) : Option (List Stage) := if v == "-" then some [] else (v.splitOn ";").mapM stage?
def renderStages (l : List Stage) : String :=
  if l.isEmpty then "-" else String.intercalate ";" (l.map fun s => s!"{s.start}:{s.end_}:{s.pal}:{s.denom}")
def renderStrs (l : List (List Nat)) : String := if l.isEmpty then "-" else String.intercalate "," (l.map bytesStr)
def b01 (b : Bool) : String := if b then "1" else "0"

def obs (now : Nat) (w : World) : String :=
  match w.wl with
  | .plain s =>
    s!"roots={renderStrs [s.root]} start={s.start} end={s.end_} active={b01 (s.isActive now)} pal={s.pal} admins={renderNats s.admins} mut={b01 s.mutable_}"
  | .tiered s =>
    let a := match activeIdx now s.stages with | some i => i + 1 | none => 0
    s!"roots={renderStrs s.roots} stages={renderStages s.stages} active={a} admins={renderNats s.admins} mut={b01 s.mutable_}"

def coinsOf (l : List (Nat × Nat)) : List Coin := l.map fun (d, a) => ⟨d, a⟩

def parseOp (ws : List String) : Option Op :=
  match kv ws "op" with
  | some "update_start" => do
    let s ← natKv ws "sender"; let t ← natKv ws "t"; pure (.plain (.updateStart s t))
  | some "update_end" => do
    let s ← natKv ws "sender"; let t ← natKv ws "t"; pure (.plain (.updateEnd s t))
  | some "p_update_admins" => do
    let s ← natKv ws "sender"; let a ← natListKv ws "admins"; let ok ← boolKv ws "ok"; pure (.plain (.updateAdmins s a ok))
  | some "p_freeze" => do let s ← natKv ws "sender"; pure (.plain (.freeze s))
  | some "p_migrate" => pure (.plain .migrate)
  | some "update_stage" => do
    let s ← natKv ws "sender"; let id ← natKv ws "id"
    let st ← optNatKv ws "start"; let en ← optNatKv ws "end"; let pal ← optNatKv ws "pal"; let dn ← optNatKv ws "denom"
    pure (.tiered (.updateStage s id st en pal dn))
  | some "t_update_admins" => do
    let s ← natKv ws "sender"; let a ← natListKv ws "admins"; let ok ← boolKv ws "ok"; pure (.tiered (.updateAdmins s a ok))
  | some "t_freeze" => do let s ← natKv ws "sender"; pure (.tiered (.freeze s))
  | some "t_migrate" => pure (.tiered .migrate)
  | _ => none

def c14Line (st : DS) (line : String) : DS × String :=
  let ws := words line
  let bad := (st, "bad-op")
  match ws.head? with
  | some "case" =>
    ({ tiered := kv ws "kind" == some "tiered" }, "case")
  | some "hash" =>
    match kv ws "alg", hexArg ws "m" with
    | some "sha256", some m => (st, s!"ok {bytesStr (hexEncode (Sha256.sha256 m))}")
    | some "blake3", some m => (st, s!"ok {bytesStr (hexEncode (Blake3.blake3 m))}")
    | some "blake3_16", some m => (st, s!"ok {bytesStr (hexEncode (Blake3.blake3_16 m))}")
    | _, _ => bad
  | some "leaf" =>
    match hexArg ws "m" with
    | some m => ({ st with pending := st.pending.push m }, "ok")
    | none => bad
  | some "build" =>
    match natKv ws "slot" with
    | some k =>
      let H := hashOf st
      let layers := treeLayers H (st.pending.toList.map H)
      let r := match layersRoot layers with | some r => bytesStr (hexEncode r) | none => "-"
      ({ st with pending := #[], slots := (k, layers) :: st.slots.filter (·.1 != k) }, s!"ok {r}")
    | none => bad
  | some "proof" =>
    match natKv ws "slot", natKv ws "i" with
    | some k, some i =>
      match st.slots.find? (·.1 == k) with
      | some (_, layers) => (st, s!"ok {renderStrs ((proofAt layers i).map hexEncode)}")
      | none => bad
    | _, _ => bad
  | some "inst" =>
    let r : Option (Option World) := do
      let now ← natKv ws "now"
      let funds ← pairListKv ws "funds"
      let admins ← natListKv ws "admins"
      let aok ← boolKv ws "admins_ok"
      let mu ← boolKv ws "mutable"
      let uok ← boolKv ws "uri_ok"
      if st.tiered then do
        let roots ← kv ws "roots"
        let stages ← (kv ws "stages").bind stages?
        pure ((instantiateTiered now (coinsOf funds) ⟨strList roots, uok, stages, admins, aok, mu⟩).map
          fun s => ⟨.tiered s, []⟩)
      else do
        let root ← kv ws "root"
        let start ← natKv ws "start"; let en ← natKv ws "end"; let pal ← natKv ws "pal"
        pure ((instantiatePlain now (coinsOf funds) ⟨strBytes root, uok, start, en, pal, admins, aok, mu⟩).map
          fun s => ⟨.plain s, []⟩)
    match r, natKv ws "now" with
    | some (some w), some now => ({ st with world := some w }, s!"ok {obs now w}")
    | some none, _ => (st, "err")
    | _, _ => bad
  | some "exec" =>
    match st.world, natKv ws "now", parseOp ws with
    | some w, some now, some op =>
      match step (hashOf st) now w op with
      | some w' => ({ st with world := some w' }, s!"ok {obs now w'}")
      | none => (st, s!"err {obs now w}")
    | _, _, _ => bad
  | some "has" =>
    match st.world, natKv ws "now", hexArg ws "m", kv ws "proof" with
    | some w, some now, some m, some pf =>
      match w.wl.hasMember (hashOf st) now m (strList pf) with
      | some true => (st, "ok 1")
      | some false => (st, "ok 0")
      | none => (st, "err")
    | _, _, _, _ => bad
  | some "mint" =>
    match st.world, natKv ws "now", hexArg ws "sender", optNatKv ws "stage", optNatKv ws "alloc", kv ws "proof" with
    | some w, some now, some sender, some stage, some alloc, some pf =>
      let proof := if pf == "none" then none else some (strList pf)
      match step (hashOf st) now w (.mint sender stage alloc proof) with
      | some w' =>
        let key := match w'.wl.active now with | some (k, _) => k | none => 0
        ({ st with world := some w' }, s!"ok {getCount w'.counts (sender, key)}")
      | none => (st, "err")
    | _, _, _, _, _, _ => bad
  | _ => bad

def main : IO Unit := runDriverRaw ({} : DS) c14Line
