import LaunchpadModel.Model.LaunchpadSystemOE
import LaunchpadModel.Model.Proto
/-!
Driver for the open-edition SYSTEM composite `LP.SysOE` (Model/LaunchpadSystemOE.lean): open-edition factory + open-edition
minter (three flavours) + whitelist contracts, with NO whitelist witness. One output line per input line; every answer to a
state-changing line is `<case|ok|err|bad-op> <obs>` where `<obs>` is the complete observable state of the minter side AND of
every whitelist:

`F …` factory | `M …` minter (every query, raw counters) | `C …` collection interface | `B …` bank   (as `drv_compoe`, computed on
`SysOE.oeOf`) | `W …` one block per whitelist contract, ascending by address (every public query, as `drv_compwl` / `drv_compsys`).

* `case now= fac= mcodes=<3> ccodes=<4> accts= uni= probe= code= allowed= frozen= cfee= minp= feebps= offset= maxtok= maxper= airp= airbps= dev=<a|x>`
* minter side, exactly as `drv_compoe` (docs/COMPOSITE_OPEN_EDITION.md §3) but WITHOUT `W=` / `pool=` / `mem= leaf= mcnt=`:
  `t` `fund` `create … +maddr= caddr=` `inst_direct` `mint_to` `set_wl` `purge` `upd_price` `upd_start` `upd_end` `upd_trading`
  `upd_limit` `burn` `sudo_status` `sudo_params` `c_*`
* `mint sender= funds= stage=<n|-> alloc=<n|-> proof=<~ (absent) | - (empty list) | s,s,…>`
* whitelist side: `w_inst …  +self=`, `w_*` and `q_has` exactly as `drv_compsys` (docs/COMPOSITE_SYSTEM.md §2)
-/
open LP LP.Proto

namespace CompSysOe

structure Drv where
  s : SysOE.State
  accts : List Nat
  uni : List Nat
  probe : List Nat

def coinKv (ws : List String) (key : String) : Option Coin :=
  match pairListKv ws key with
  | some [(d, a)] => some ⟨d, a⟩
  | _ => none

def optCoinKv (ws : List String) (key : String) : Option (Option Coin) :=
  match kv ws key with
  | none => some none
  | some _ => (coinKv ws key).map some

def fundsKv (ws : List String) : List Coin :=
  ((pairListKv ws "funds").getD []).map fun (d, a) => ⟨d, a⟩

def rc (c : Coin) : String := s!"{c.denom}:{c.amount}"
def roc (c : Option Coin) : String := match c with | some c => rc c | none => "-"
def rb (b : Bool) : String := if b then "1" else "0"
def rob (o : Option Bool) : String := match o with | some b => rb b | none => "e"
def ron (o : Option Nat) : String := match o with | some n => toString n | none => "e"

def strBytes (s : String) : List Nat := s.toUTF8.toList.map (·.toNat)
def bytesStr (b : List Nat) : String := String.ofList (b.map Char.ofNat)
def strList (v : String) : List (List Nat) := if v == "-" then [] else (v.splitOn ",").map strBytes
def renderStrs (l : List (List Nat)) : String := if l.isEmpty then "-" else String.intercalate "," (l.map bytesStr)

def sortPairs (l : List (Nat × Nat)) : List (Nat × Nat) :=
  (l.toArray.qsort (fun a b => a.1 < b.1)).toList

def counts (accts : List Nat) (f : Nat → Nat) : String :=
  renderPairs ((accts.filter fun a => f a != 0).map fun a => (a, f a))

def optX (s : String) : Option (Option Nat) :=
  if s == "x" || s == "-" then some none else (nat? s).map some


/-! ### minter-side observation (as `drv_compoe`, on `SysOE.oeOf`) -/

section MinterSide
open LP.OE

def rdev (o : Option Nat) : String := match o with | some a => toString a | none => "x"

def obsFactory (d : Drv) : String :=
  let s := SysOE.oeOf d.s
  let p := s.params
  s!"F code={p.codeId} allowed={renderNats p.allowed} frozen={rb p.frozen} cfee={rc p.creationFee} minp={rc p.minMintPrice} feebps={p.mintFeeBps} offset={p.maxTradingOffsetSecs} maxtok={p.maxTokenLimit} maxper={p.maxPerAddressLimit} airp={rc p.airdropMintPrice} airbps={p.airdropMintFeeBps} dev={rdev p.dev} probe={String.join (d.probe.map fun c => rb (queryAllowed s c))}"

def obsMinter (d : Drv) : String :=
  let s := SysOE.oeOf d.s
  match s.minter with
  | none => "M -"
  | some m =>
    let mp := match queryMintPrice s m with
      | .ok r => s!"{rc r.publicPrice}/{rc r.airdropPrice}/{roc r.whitelistPrice}/{rc r.currentPrice}"
      | .error _ => "err"
    let cnt := String.intercalate "," (d.accts.map fun a =>
      s!"{a}:{queryMintCount m a}:{renderOpt (queryWlCount m a)}")
    s!"M addr={m.addr} admin={m.admin} pay={renderOpt m.paymentAddress} ntok={renderOpt m.numTokens} limit={m.perAddressLimit} start={m.startTime} end={renderOpt m.endTime} price={rc m.mintPrice} wl={renderOpt m.whitelist} fac={m.factory} ccode={m.collectionCodeId} sg721={m.sg721} oc={rb m.onChain} left={renderOpt (queryMintable m)} mp={mp} st={rb m.status.verified}{rb m.status.blocked}{rb m.status.explicit} idx={m.seq.tokenIndex} total={queryTotalMint m} ma={counts d.accts m.pub} wlma={counts d.accts m.wlc} fs={counts d.accts (m.stg 1)} ss={counts d.accts (m.stg 2)} ts={counts d.accts (m.stg 3)} tot={m.tot 1},{m.tot 2},{m.tot 3} air={m.airdropCount} cnt={cnt}"

def obsColl (d : Drv) : String :=
  match d.s.minter with
  | none => "C -"
  | some m =>
    s!"C n={m.seq.coll.count} toks={renderPairs (sortPairs m.seq.coll.toks)} trading={renderOpt m.tt.trading} creator={m.tt.creator} owner={renderOpt m.tt.owner} pending={renderOpt m.tt.pending}"

end MinterSide

def wlKeys (d : Drv) : List Nat :=
  ((d.s.wls.map (·.1)).toArray.qsort (· < ·)).toList.eraseDups

def obsBank (d : Drv) : String :=
  let extra := match d.s.minter with
    | none => []
    | some m => [m.addr, m.sg721]
  let as := d.accts ++ [d.s.factoryAddr] ++ extra ++ wlKeys d
  let b := d.s.bank
  let bal := String.intercalate "," (as.map fun a => s!"{a}:{b.bal a 0}:{b.bal a 1}")
  s!"B {bal} sup={b.supply 0}:{b.supply 1}"

/-! ### whitelist-side observation (as `drv_compwl`) -/

section WlSide
open LP.WF

def renderStage (s : Stage) : String :=
  s!"{s.name}:{s.start}:{s.stop}:{s.denom}:{s.price}:{s.pal}:{renderOpt s.mcl}"

def stage? (s : String) : Option Stage :=
  match s.splitOn ":" with
  | [n, a, b, d, p, l, m] => do
    let n ← nat? n; let a ← nat? a; let b ← nat? b; let d ← nat? d; let p ← nat? p; let l ← nat? l
    let m ← (if m == "-" then some none else (nat? m).map some)
    pure { name := n, start := a, stop := b, denom := d, price := p, pal := l, mcl := m }
  | _ => none

def stages? (v : String) : Option (List Stage) := if v == "-" then some [] else (v.splitOn ";").mapM stage?

/-- `list|list|…`, `~` = no list at all -/
def parseLists (s : String) : Option (List (List (Nat × Nat))) :=
  if s == "~" then some [] else (s.splitOn "|").mapM pairList?

/-- all pages of `Members` with page size 100, as the harness walks them -/
def walk (w : Wl) (stage : Nat) : Nat → Option Nat → List Member → Option (List Member)
  | 0, _, acc => some acc
  | fuel + 1, after, acc =>
    match qMembers w stage after (some 100) with
    | none => none
    | some [] => some acc
    | some page => walk w stage fuel (page.getLast?.map (·.1)) (acc ++ page)

def renderMap (o : Option (List Member)) : String :=
  match o with
  | none => "e"
  | some l => renderPairs l

def renderCfg (o : Option ConfigR) : String :=
  match o with
  | none => "e"
  | some c =>
    let pal := match c.pal with | some n => toString n | none => "-"
    let whale := match c.whale with | none => "-" | some none => "n" | some (some n) => toString n
    s!"{c.num}:{pal}:{c.limit}:{c.start}:{c.stop}:{c.price.denom}:{c.price.amount}:{rb c.active}:{whale}"

def stageIds : List Nat := [0, 1, 2, 3]

def obsWl (d : Drv) (w : Wl) : String :=
  let now := d.s.now
  let v := w.v
  let vi := (List.range 7).find? (fun i => Variant.ofIdx i == some v)
  let adm := match qAdminList w with
    | some (l, m) => s!"adm={renderNats l} mut={rb m}"
    | none => "adm=e mut=e"
  let flags := s!"hs={rob (qHasStarted w now)} he={rob (qHasEnded w now)} ia={rob (qIsActive w now)}"
  let cfg := s!"cfg={renderCfg (qConfig w now)}"
  let tier :=
    if v.tiered && !v.isImmutable then
      let as := match qActiveStage w now with
        | none => "e" | some none => "n" | some (some st) => renderStage st
      let st := String.intercalate "|" (stageIds.map fun k =>
        if v.isMerkle then (match qStageMerkle w k with | some (s, r) => s!"{renderStage s}/{bytesStr r}" | none => "e")
        else (match qStage w k with | some (s, c) => s!"{renderStage s}/{c}" | none => "e"))
      let sts :=
        if v.isMerkle then (match qStagesMerkle w with
          | some l => String.intercalate ";" (l.map fun (s, r) => s!"{renderStage s}/{bytesStr r}") | none => "e")
        else (match qStages w with
          | some l => String.intercalate ";" (l.map fun (s, c) => s!"{renderStage s}/{c}") | none => "e")
      s!"asid={ron (qActiveStageId w now)} as={as} st={st} sts={sts}"
    else "asid=- as=- st=- sts=-"
  let mem :=
    if v.isList && v.tiered then String.intercalate "|" (stageIds.map fun k => renderMap (walk w k 1000 none []))
    else renderMap (walk w 0 1000 none [])
  let has := String.join (d.uni.map fun a => rob (qHasMember w now a))
  let mc := String.intercalate "," (d.uni.map fun a => match qMember w now a with | some c => toString c | none => "x")
  let smi :=
    if v.isList && v.tiered then
      String.intercalate "|" (stageIds.map fun k => String.intercalate "," (d.uni.map fun a =>
        match qStageMemberInfo w k a with | some (b, n) => s!"{rb b}:{n}" | none => "e"))
    else "-"
  let asmi :=
    if v.isList && v.tiered then
      String.intercalate "," (d.uni.map fun a =>
        match qAllStageMemberInfo w a with
        | some l => if l.isEmpty then "." else String.intercalate "+" (l.map fun (b, n) => s!"{rb b}:{n}")
        | none => "e")
    else "-"
  let mk :=
    if v.isMerkle then
      let roots := match qMerkleRoots w with | some l => renderStrs l | none => "e"
      let uris := match qMerkleTreeUris w with | some none => "n" | some (some l) => renderNats l | none => "e"
      s!"roots={roots} uris={uris}"
    else "roots=- uris=-"
  let can := String.join (d.uni.map fun a => rob (qCanExecute w a))
  let im :=
    if v.isImmutable then
      let c := match qImConfig w with | some (a, p, b) => s!"{a}:{p}:{match b with | some n => toString n | none => "n"}" | none => "e"
      let inc := String.join (d.uni.map fun a => rob (qIncludesAddress w a))
      s!"im={c} inc={inc} iadm={ron (qImAdmin w)} cnt={ron (qAddressCount w)} ipal={ron (qPerAddressLimit w)}"
    else "im=-"
  let raw := if v.isMerkle then "-" else s!"{w.members.length + WlMembers.stageTotal w.smembers}/{w.smembers.length}"
  s!"W v={renderOpt vi} self={w.self} {adm} {flags} {cfg} {tier} mem={mem} raw={raw} has={has} mc={mc} smi={smi} asmi={asmi} {mk} can={can} {im}"

def parseInst (ws : List String) : Option (Variant × Addr × InstMsg) := do
  let vi ← natKv ws "v"; let v ← Variant.ofIdx vi
  let self ← natKv ws "self"
  let admins ← natListKv ws "admins"; let mu ← boolKv ws "mut"
  let start ← natKv ws "start"; let en ← natKv ws "end"; let price ← coinKv ws "price"
  let pal ← natKv ws "pal"; let limit ← natKv ws "limit"; let whale ← optNatKv ws "whale"
  let members ← pairListKv ws "members"
  let stages ← (kv ws "stages").bind stages?
  let sm ← (kv ws "smembers").bind parseLists
  let roots ← (kv ws "roots").map strList
  let uriok ← boolKv ws "uriok"
  let uris ← (match kv ws "uris" with
    | some "none" => some none
    | some v => (natList? v).map some
    | none => none)
  let dbps ← optNatKv ws "dbps"
  pure (v, self,
    { admins := admins, adminsMutable := mu, start := start, end_ := en, mintPrice := price, perAddr := pal,
      memberLimit := limit, whaleCap := whale, members := members, stages := stages, stageMembers := sm,
      roots := roots, uriOk := uriok, uris := uris, discountBps := dbps })

def parseExec (ws : List String) : Option ExecMsg :=
  match ws.head? with
  | some "w_upd_start" => (natKv ws "t").map ExecMsg.updateStartTime
  | some "w_upd_end" => (natKv ws "t").map ExecMsg.updateEndTime
  | some "w_add" => do
    let sg ← natKv ws "stage"; let ms ← pairListKv ws "members"
    pure (.addMembers sg ms)
  | some "w_rm" => do
    let sg ← natKv ws "stage"; let as ← natListKv ws "addrs"
    pure (.removeMembers sg as)
  | some "w_upd_pal" => (natKv ws "n").map ExecMsg.updatePerAddressLimit
  | some "w_inc" => (natKv ws "limit").map ExecMsg.increaseMemberLimit
  | some "w_upd_admins" => (natListKv ws "admins").map ExecMsg.updateAdmins
  | some "w_freeze" => some .freeze
  | some "w_add_stage" => do
    let st ← (kv ws "stage").bind stage?; let ms ← pairListKv ws "members"
    pure (.addStage st ms)
  | some "w_rm_stage" => (natKv ws "id").map ExecMsg.removeStage
  | some "w_upd_stage" => do
    let id ← natKv ws "id"; let name ← optNatKv ws "name"; let start ← optNatKv ws "start"; let en ← optNatKv ws "end"
    let price ← (match kv ws "price" with
      | some "-" => some none
      | some _ => (coinKv ws "price").map fun c => some (c.denom, c.amount)
      | none => none)
    let pal ← optNatKv ws "pal"; let mcl ← optNatKv ws "mcl"
    pure (.updateStageConfig { id := id, name := name, start := start, stop := en, price := price, pal := pal,
                               mcl := mcl.map some })
  | some "w_unknown" => some .unknown
  | _ => none

end WlSide

def obs (d : Drv) : String :=
  let ws := (wlKeys d).filterMap fun k => (Sys.find d.s.wls k).map (obsWl d)
  let wtxt := if ws.isEmpty then "W -" else String.intercalate " " ws
  s!"{obsFactory d} {obsMinter d} {obsColl d} {obsBank d} {wtxt}"

/-! ### minter-side parsing (as `drv_compoe`) -/

section Parse
open LP.OE

def parseOwnAction (ws : List String) : Option TT.OwnAction :=
  match kv ws "act" with
  | some "transfer" => (natKv ws "new").map TT.OwnAction.transfer
  | some "accept" => some .accept
  | some "renounce" => some .renounce
  | _ => none

/-- `dev=<a>` / `dev=x` (a string `addr_validate` rejects); absent = not part of the update -/
def devKv (ws : List String) : Option (Option Nat) :=
  match kv ws "dev" with
  | none => none
  | some "x" => some none
  | some v => (nat? v).map some

def parseUpdate (ws : List String) : Option ParamsUpdate := do
  let cfee ← optCoinKv ws "cfee"; let minp ← optCoinKv ws "minp"; let airp ← optCoinKv ws "airp"
  pure { codeId := natKv ws "code", addCodes := natListKv ws "addc", rmCodes := natListKv ws "rmc",
         frozen := boolKv ws "frozen", creationFee := cfee, minMintPrice := minp, mintFeeBps := natKv ws "feebps",
         maxTradingOffsetSecs := natKv ws "offset", maxTokenLimit := natKv ws "maxtok",
         maxPerAddressLimit := natKv ws "maxper", airdropMintFeeBps := natKv ws "airbps", airdropMintPrice := airp,
         dev := devKv ws }

def parseParams (ws : List String) : Option Params := do
  let code ← natKv ws "code"; let allowed ← natListKv ws "allowed"; let frozen ← boolKv ws "frozen"
  let cfee ← coinKv ws "cfee"; let minp ← coinKv ws "minp"; let feebps ← natKv ws "feebps"
  let offset ← natKv ws "offset"; let maxtok ← natKv ws "maxtok"; let maxper ← natKv ws "maxper"
  let airp ← coinKv ws "airp"; let airbps ← natKv ws "airbps"; let dev ← devKv ws
  pure { codeId := code, allowed := allowed, frozen := frozen, creationFee := cfee, minMintPrice := minp,
         mintFeeBps := feebps, maxTradingOffsetSecs := offset, maxTokenLimit := maxtok, maxPerAddressLimit := maxper,
         airdropMintFeeBps := airbps, airdropMintPrice := airp, dev := dev }

def parseMinterOp (ws : List String) : Option OE.Op :=
  let sender := (natKv ws "sender").getD 0
  let funds := fundsKv ws
  match ws.head? with
  | some "t" => (natKv ws "now").map Op.setTime
  | some "fund" => do
    let a ← natKv ws "a"; let dn ← natKv ws "d"; let amt ← natKv ws "amt"
    pure (.fund a ⟨dn, amt⟩)
  | some "create" => do
    let code ← natKv ws "code"; let creator ← natKv ws "creator"; let trading ← optNatKv ws "trading"
    let nftok ← boolKv ws "nftok"; let onchain ← boolKv ws "onchain"; let uri ← boolKv ws "uri"
    let pay ← optNatKv ws "pay"; let start ← natKv ws "start"; let en ← optNatKv ws "end"; let ntok ← optNatKv ws "ntok"
    let price ← coinKv ws "price"; let limit ← natKv ws "limit"; let wl ← optNatKv ws "wl"
    let wlvalid := (boolKv ws "wlvalid").getD true; let collok := (boolKv ws "collok").getD true
    let maddr ← natKv ws "maddr"; let caddr ← natKv ws "caddr"
    pure (.create sender funds
      { collCode := code, creator := creator, trading := trading, nftValid := nftok, onChain := onchain, uriOk := uri,
        paymentAddress := pay, startTime := start, endTime := en, numTokens := ntok, mintPrice := price,
        perAddressLimit := limit, whitelist := wl, whitelistValid := wlvalid, collOk := collok }
      { minterAddr := maddr, collAddr := caddr })
  | some "inst_direct" => some (.instantiateDirect sender)
  | some "mint_to" => (natKv ws "rcpt").map (Op.mintTo sender funds)
  | some "set_wl" => do
    let wl ← natKv ws "wl"
    pure (.setWhitelist sender funds wl ((boolKv ws "valid").getD true))
  | some "purge" => some (.purge sender funds)
  | some "upd_price" => (natKv ws "price").map (Op.updateMintPrice sender funds)
  | some "upd_start" => (natKv ws "t").map (Op.updateStartTime sender funds)
  | some "upd_end" => (natKv ws "t").map (Op.updateEndTime sender funds)
  | some "upd_trading" => (optNatKv ws "t").map (Op.updateStartTradingTime sender funds)
  | some "upd_limit" => (natKv ws "n").map (Op.updatePerAddressLimit sender funds)
  | some "burn" => some (.burnRemaining sender funds)
  | some "sudo_status" => do
    let v ← boolKv ws "v"; let b ← boolKv ws "b"; let e ← boolKv ws "e"
    pure (.sudoStatus v b e)
  | some "sudo_params" => (parseUpdate ws).map Op.sudoParams
  | some "c_transfer" => do
    let id ← natKv ws "id"; let to ← natKv ws "to"
    pure (.collTransfer sender id to)
  | some "c_burn" => (natKv ws "id").map (Op.collBurn sender)
  | some "c_trading" => (optNatKv ws "t").map (Op.collTrading sender)
  | some "c_creator" => (natKv ws "new").map (Op.collCreator sender)
  | some "c_freeze" => some (.collFreeze sender)
  | some "c_own" => (parseOwnAction ws).map (Op.collOwn sender)
  | _ => none

end Parse

/-- `proof=~` absent, `proof=-` the empty list, else the strings -/
def parseProof (ws : List String) : Option (List (List Nat)) :=
  match kv ws "proof" with
  | some "~" | none => none
  | some v => some (strList v)

def parseOp (ws : List String) : Option SysOE.Op :=
  let sender := (natKv ws "sender").getD 0
  let funds := fundsKv ws
  match ws.head? with
  | some "mint" =>
    let stage := (optNatKv ws "stage").getD none; let alloc := (optNatKv ws "alloc").getD none
    some (.mint sender funds stage alloc (parseProof ws))
  | some "w_inst" => (parseInst ws).map fun (v, self, m) => .wlInst v sender funds self m
  | some h =>
    if h.startsWith "w_" then do
      let k ← natKv ws "k"; let m ← parseExec ws
      pure (.wlExec k sender funds m)
    else (parseMinterOp ws).map SysOE.Op.minter
  | none => none

def compLine (d : Drv) (line : String) : Drv × String :=
  let ws := words line
  match ws.head? with
  | some "case" =>
    let r : Option Drv := do
      let now ← natKv ws "now"; let fac ← natKv ws "fac"
      let mcodes ← natListKv ws "mcodes"; let ccodes ← natListKv ws "ccodes"
      let accts ← natListKv ws "accts"; let uni ← natListKv ws "uni"; let probe ← natListKv ws "probe"
      let p ← parseParams ws
      pure { s := SysOE.init now ⟨mcodes, ccodes⟩ fac p, accts := accts, uni := uni, probe := probe }
    match r with
    | some d' => (d', s!"case {obs d'}")
    | none => (d, "bad-case")
  | some "q_has" =>
    match (natKv ws "k").bind (Sys.find d.s.wls), (kv ws "m").bind (fun v => Merkle.hexDecode (strBytes v)),
          (kv ws "proof").map strList with
    | some w, some m, some proof =>
      (d, match WF.qHasMemberMerkle w d.s.now m proof with | some b => s!"ok {rb b}" | none => "err")
    | none, _, _ => (d, "err")
    | _, _, _ => (d, "bad-op")
  | _ =>
    match parseOp ws with
    | none => (d, "bad-op")
    | some op =>
      match SysOE.step d.s op with
      | .ok s2 => let d' := { d with s := s2 }; (d', s!"ok {obs d'}")
      | .error _ => (d, s!"err {obs d}")

end CompSysOe

def main : IO Unit :=
  runDriverRaw
    ({ s := SysOE.init 0 ⟨[], []⟩ 0
        { codeId := 0, allowed := [], frozen := false, creationFee := ⟨0, 0⟩, minMintPrice := ⟨0, 0⟩, mintFeeBps := 0,
          maxTradingOffsetSecs := 0, maxTokenLimit := 0, maxPerAddressLimit := 0, airdropMintFeeBps := 0,
          airdropMintPrice := ⟨0, 0⟩, dev := none },
       accts := [], uni := [], probe := [] } : CompSysOe.Drv)
    CompSysOe.compLine
