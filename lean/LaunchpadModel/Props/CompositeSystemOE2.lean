import LaunchpadModel.Lemmas.LaunchpadSystemOE2Hist
import LaunchpadModel.Lemmas.LaunchpadSystemOE2Refine
/-!
# Open-edition SYSTEM composite 2 (`LP.SysOE2`): `LP.SysOE` with the REAL collection model instead of the simplified interface

`Model/LaunchpadSystemOE2.lean`: the state is the `SysOE` state (open-edition factory + open-edition minter + whitelist contracts)
whose simplified collection component (`Supply.Coll` token table inside `Supply.Seq` + `TT.Coll` record) is REPLACED by a `CF.Coll`
collection contract; the minter-side code runs on the VIEW (`Sys2.tokView`, `Sys2.ttView`) of that contract, the minter's
sub-messages (`Mint {token_id := TOKEN_INDEX + 1, …}`, `UpdateStartTradingTime`, the sg721 `instantiate`) are executed by the `CF`
step; every `CF` message by any sender and the collection migrations are ops.  Correspondence with the real factory + minter +
whitelist + sg721 contracts: `harness/src/bin/compsysoe2.rs` ↔ `drv_compsysoe2`.

Refinement: `C01_sysoe2_view_exact_step / _create` (an accepted minter-side step of `SysOE2` IS the accepted `SysOE` step on the view:
what `SysOE` assumed about the collection is proved), `C09_sysoe2_good`, `C09_sysoe2_refines_collection_outside / _sub / _create` (what
an accepted system step does to the collection IS a `CF` step).

End-to-end theorems, over ALL system histories from `SysOE2.init` in which nobody signs a collection message with the MINTER
CONTRACT's own address (`SysOE2.NoImpRun`; on a chain only the contract can, and its code sends only the two sub-messages):

* `C01_sysoe2_invariant` (`SInv`): ids duplicate-free, no legacy item, cw_ownable record `⟨minter contract, nothing pending⟩`, C01's
  `Supply.QInv` with its collection clauses about the REAL token table;
* `C01_sysoe2_tokens_sequential`: the ids ever created in the collection are exactly `1, 2, …, m` in this order, each once, for `m`
  accepted mints; `TOKEN_INDEX = TotalMintCount = m`; `C01_sysoe2_never_reminted`;
* `C09_sysoe2_tokens_from_this_minter`, `C09_sysoe2_num_tokens_history` (`NumTokens + burns = minted`),
  `C09_sysoe2_mint_recipient_owns`, `C09_sysoe2_creation_is_minter_mint`;
* `C19_sysoe2_create_trading`, `C19_sysoe2_trading_step`, `C19_sysoe2_trading_history`, `C19_sysoe2_direct_needs_owner`,
  `C19_sysoe2_mint_burn_keep_trading`; `C05_sysoe2_mint_needs_owner`, `C05_sysoe2_minter_mint_needs_ownership`,
  `C05_sysoe2_ownership_stays`.

(This module imports only `Lemmas/*`, like `Props/CompositeSystem2.lean`, so that the audits of C01, C09, C19 and C05 can import it
next to their own modules.)
-/
namespace LP
open LP.SysOE2

/-! ## (a) refinement onto `LP.SysOE`: the view is exact -/

/-- **the view is exact (minter / whitelist / clock ops).** If `SysOE2` accepts a `SysOE` op that is no collection-interface op and
no `create` (in a state whose collection ids are duplicate-free — an invariant, `C09_sysoe2_good`), then `SysOE` accepts it on the
view, and the state the simplified interface computes IS the view of the `SysOE2` post-state — whose collection component was
computed by the collection contract executing the minter's sub-message.  What `SysOE` / `OE` ASSUMED about the collection (the token
table after `Seq.mint`, the record after `updateTrading`) is proved. -/
theorem C01_sysoe2_view_exact_step {s s' : SysOE2.State} {o : SysOE.Op} (hp : plainOp o = true)
    (hg : ∀ m c, s.mc = some (m, c) → c.core.ids.Nodup) (h : SysOE2.step s (.sys o) = .ok s') :
    SysOE.step (sysOf s) o = .ok (sysOf s') := by
  rcases step_sys_cases s o with ⟨vo, sender, m, rfl, hi, _⟩ | ⟨vo, rfl, hc, _⟩ | ⟨_, hst⟩
  · simp [plainOp, plainOE, hi] at hp
  · simp [plainOp, plainOE, hc] at hp
  · rw [hst] at h; exact sysStep_exact hp hg h

/-- **the view is exact (`CreateMinter`).** The flag `collOk` the simplified interface took from outside is `true` exactly because
the collection's own `instantiate` accepted; the created view is `Coll.empty` / `TT.Coll.init`. -/
theorem C01_sysoe2_view_exact_create {s s' : SysOE2.State} {sender : Addr} {funds : List Coin} {msg : OE.CreateMsg}
    {w : OE.CreateWit} {ci : Sys2.CollInit} {uri ext : Nat} (h : SysOE2.step s (.create sender funds msg w ci uri ext) = .ok s') :
    SysOE.step (sysOf s) (.minter (.create sender funds { msg with collOk := true } w)) = .ok (sysOf s') :=
  create_exact h

/-- the collection's ids are duplicate-free and it has no cw721-0.16 `minter` item along EVERY history from `init` (impersonation
included): an id is created only when absent -/
theorem C09_sysoe2_good (height now : Nat) (codes : VF.Codes) (fac : Addr) (p : OE.Params) (ops : List SysOE2.Op) :
    Good (SysOE2.run (SysOE2.init height now codes fac p) ops) :=
  good_run ops (fun _ _ h => by cases h)

/-! ## (a') refinement onto `LP.CF`: what an accepted system step does to the collection contract IS a `CF` step -/

/-- **messages to the collection from outside, migrations, the stored version** (ALL states): the accepted system step IS the `CF`
step on the collection projection `cfOf` (the six interface ops of `OE` are the `CF` message they stand for, no funds) -/
theorem C09_sysoe2_refines_collection_outside {s s' : SysOE2.State} {op : SysOE2.Op} (h : SysOE2.step s op = .ok s') :
    (∀ sender funds m, op = .collExec sender funds m → CF.step (cfOf s) (.exec sender funds m) = .ok (cfOf s')) ∧
    (∀ vo sender m, op = .sys (.minter vo) → ifaceMsg vo = some (sender, m) → CF.step (cfOf s) (.exec sender [] m) = .ok (cfOf s')) ∧
    (op = .collMigrateUpdatable → CF.step (cfOf s) .migrateUpdatable = .ok (cfOf s')) ∧
    (op = .collMigrateSelf → CF.step (cfOf s) .migrateSelf = .ok (cfOf s')) ∧
    (∀ v, op = .collSetVersion v → CF.step (cfOf s) (.setVersion v) = .ok (cfOf s')) := by
  refine ⟨?_, ?_, ?_, ?_, ?_⟩
  · rintro sender funds m rfl; exact cf_collExec h
  · rintro vo sender m rfl hif
    have : SysOE2.step s (.sys (.minter vo)) = collExec s sender [] m := by simp [SysOE2.step, hif]
    rw [this] at h; exact cf_collExec h
  · rintro rfl; exact cf_collEnv (Or.inl rfl) h
  · rintro rfl; exact cf_collEnv (Or.inr (Or.inl rfl)) h
  · rintro v rfl; exact cf_collEnv (Or.inr (Or.inr ⟨v, rfl⟩)) h

/-- **the minter's sub-message** (ALL states): an accepted minter / whitelist / clock op leaves the collection untouched or
executes exactly one `CF` step on it — `exec (minter contract) [] msg`, `msg` = `Mint {TOKEN_INDEX + 1, …}` / `UpdateStartTradingTime`
as `subMsg` builds it — in the current block, on the bank the minter-side handler left; the system stores what that step computed -/
theorem C09_sysoe2_refines_collection_sub {s s' : SysOE2.State} {o : SysOE.Op} {m : SysOE2.Minter} {c : CF.Coll}
    (hp : plainOp o = true) (hmc : s.mc = some (m, c)) (h : SysOE2.step s (.sys o) = .ok s') :
    ∃ r msg, SysOE.step (sysOf s) o = .ok r ∧ subMsg m c (subOf o) = .ok msg ∧
      ((msg = none ∧ s'.mc.map (·.2) = some c) ∨
       ∃ mm q, msg = some mm ∧ CF.step ⟨s.block, r.bank, some c⟩ (.exec m.addr [] mm) = .ok q ∧ q.coll = s'.mc.map (·.2) ∧
         q.bank = s'.bank) := by
  rcases step_sys_cases s o with ⟨vo, sender, mm, rfl, hi, _⟩ | ⟨vo, rfl, hc, _⟩ | ⟨_, hst⟩
  · simp [plainOp, plainOE, hi] at hp
  · simp [plainOp, plainOE, hc] at hp
  · rw [hst] at h; exact cf_sub hp hmc h

/-- **`CreateMinter`** (ALL states): the collection contract of the system is what the `CF` instantiate step (sender = the new
minter, the kind named by the requested code id, `InstantiateMsg {minter := the minter, collection_info := the creator's fields with
the bounded / defaulted start_trading_time}`) computed on the bank the factory / minter handlers left -/
theorem C09_sysoe2_refines_collection_create {s s' : SysOE2.State} {sender : Addr} {funds : List Coin} {msg : OE.CreateMsg}
    {w : OE.CreateWit} {ci : Sys2.CollInit} {uri ext : Nat} (h : SysOE2.step s (.create sender funds msg w ci uri ext) = .ok s') :
    ∃ r om q, SysOE.step (sysOf s) (.minter (.create sender funds { msg with collOk := true } w)) = .ok r ∧ r.minter = some om ∧
      CF.step ⟨s.block, r.bank, none⟩ (.instantiate (Sys2.cfKind om.tt.kind) om.addr [] ci.name ci.symbol
        (Sys2.instMsg om.addr msg.creator om.tt.trading ci) om.sg721) = .ok q ∧ q.coll = s'.mc.map (·.2) ∧ q.bank = s'.bank :=
  cf_create h

/-! ## (b) the invariant -/

/-- **the end-to-end invariant** holds along every history from `init` without impersonation of the minter contract -/
theorem C01_sysoe2_invariant (height now : Nat) (codes : VF.Codes) (fac : Addr) (p : OE.Params) (ops : List SysOE2.Op)
    (hno : NoImpRun (SysOE2.init height now codes fac p) ops) : SInv (SysOE2.run (SysOE2.init height now codes fac p) ops) :=
  sinv_run ops (sinv_init _ _ _ _ _) hno

/-- what `LP.SysOE` / `LP.OE` assumed about the collection IS the view of the collection contract the minter-side code runs on -/
theorem C01_sysoe2_collViewOf (s : SysOE2.State) (m : SysOE2.Minter) (c : CF.Coll) (h : s.mc = some (m, c)) :
    SysOE2.collViewOf (cfOf s) = ((omOf m c).seq.coll, (omOf m c).tt) := by
  simp [SysOE2.collViewOf, Sys2.collViewOf, cfOf, h, Sys2.viewOfColl, omOf]

/-! ## tokens -/

/-- **the tokens ever created in the collection are exactly the ids `1..=m` for `m` accepted mints, each created once.**
`createdRun`: the ids that come into existence along the history (present after a step, absent before it), in order of creation,
read off the collection's OWN token table; `mintsRun`: the accepted `Mint {}` / `MintTo` messages of the minter.  Joined with the
minter's counters: `TOKEN_INDEX = TotalMintCount = m`; every id now in the collection lies in `1..=m`, no id twice. -/
theorem C01_sysoe2_tokens_sequential (height now : Nat) (codes : VF.Codes) (fac : Addr) (p : OE.Params) (ops : List SysOE2.Op)
    (hno : NoImpRun (SysOE2.init height now codes fac p) ops) :
    createdRun (SysOE2.init height now codes fac p) ops = List.range' 1 (mintsRun (SysOE2.init height now codes fac p) ops) ∧
    idxOf (SysOE2.run (SysOE2.init height now codes fac p) ops) = mintsRun (SysOE2.init height now codes fac p) ops ∧ totalOf (SysOE2.run (SysOE2.init height now codes fac p) ops) = mintsRun (SysOE2.init height now codes fac p) ops ∧
    (∀ id ∈ idsOf (SysOE2.run (SysOE2.init height now codes fac p) ops), 1 ≤ id ∧ id ≤ mintsRun (SysOE2.init height now codes fac p) ops) ∧ (idsOf (SysOE2.run (SysOE2.init height now codes fac p) ops)).Nodup := by
  obtain ⟨h1, h2, _⟩ := hist_run ops (sinv_init height now codes fac p) hno
  have hi := sinv_run ops (sinv_init height now codes fac p) hno
  have h0 : idxOf (SysOE2.init height now codes fac p) = 0 := rfl
  rw [h0, Nat.zero_add] at h1 h2
  refine ⟨h1, h2, ?_, ?_, ?_⟩
  · rw [← h2]
    unfold totalOf idxOf
    cases hmc : (SysOE2.run (SysOE2.init height now codes fac p) ops).mc with
    | none => rfl
    | some mc => obtain ⟨m, c⟩ := mc; exact (hi.sup m c hmc).total
  · intro id hid
    rw [← h2]
    unfold idsOf at hid
    unfold idxOf
    cases hmc : (SysOE2.run (SysOE2.init height now codes fac p) ops).mc with
    | none => rw [hmc] at hid; cases hid
    | some mc =>
      obtain ⟨m, c⟩ := mc
      rw [hmc] at hid
      exact (hi.sup m c hmc).csub id ((Sys2.mem_tokView_ids c.core id).2 hid)
  · unfold idsOf
    cases hmc : (SysOE2.run (SysOE2.init height now codes fac p) ops).mc with
    | none => exact List.nodup_nil
    | some mc => obtain ⟨m, c⟩ := mc; exact (hi.good m c hmc).1

/-- **a token id that is gone never exists again** (no impersonation): the minter hands out `TOKEN_INDEX + 1` only, so a burned id —
any id `≤ TOKEN_INDEX` not in the collection — stays absent along every continuation -/
theorem C01_sysoe2_never_reminted {s : SysOE2.State} (ops : List SysOE2.Op) (hi : SInv s) (hno : NoImpRun s ops) (id : Nat)
    (hle : id ≤ idxOf s) (hgone : id ∉ idsOf s) : id ∉ idsOf (SysOE2.run s ops) :=
  never_back ops hi hno id hle hgone

/-- "every token that exists in the collection was created by a mint of THIS minter": in every state of a history without
impersonation each token id of the REAL collection lies in `1..=TOKEN_INDEX`, `TOKEN_INDEX = TotalMintCount`, the minter's issue
log is `TOKEN_INDEX, …, 1`, ids are duplicate-free, and the collection's cw_ownable owner is the minter contract, nothing pending -/
theorem C09_sysoe2_tokens_from_this_minter {s : SysOE2.State} {m : SysOE2.Minter} {c : CF.Coll} (hi : SInv s)
    (hmc : s.mc = some (m, c)) :
    (∀ t ∈ c.core.tokens, 1 ≤ t.id ∧ t.id ≤ m.seq.tokenIndex) ∧ m.seq.totalMint = m.seq.tokenIndex ∧
      m.seq.issued = (List.range' 1 m.seq.tokenIndex).reverse ∧ c.core.ids.Nodup ∧
      c.core.ownership = ⟨some m.addr, none, none⟩ ∧ CF.qNumTokens c = c.core.tokens.length := by
  have hq := hi.sup m c hmc
  refine ⟨?_, hq.total, hq.seq, (hi.good m c hmc).1, hi.own m c hmc, count_of_qinv hq rfl⟩
  intro t ht
  have hid : t.id ∈ c.core.ids := List.mem_map_of_mem (f := (·.id)) ht
  exact hq.csub t.id ((Sys2.mem_tokView_ids c.core t.id).2 hid)

/-- **`NumTokens` = minted − burned, along every history**: the collection's own `NumTokens {}` plus the accepted `Burn` messages
equals the number of accepted mints of the minter (= `TotalMintCount {}`) -/
theorem C09_sysoe2_num_tokens_history (height now : Nat) (codes : VF.Codes) (fac : Addr) (p : OE.Params) (ops : List SysOE2.Op)
    (hno : NoImpRun (SysOE2.init height now codes fac p) ops) :
    numTokens (SysOE2.run (SysOE2.init height now codes fac p) ops) + burnsRun (SysOE2.init height now codes fac p) ops = mintsRun (SysOE2.init height now codes fac p) ops ∧
    totalOf (SysOE2.run (SysOE2.init height now codes fac p) ops) = mintsRun (SysOE2.init height now codes fac p) ops := by
  obtain ⟨_, _, h3⟩ := hist_run ops (sinv_init height now codes fac p) hno
  have h0 : numTokens (SysOE2.init height now codes fac p) = 0 := rfl
  rw [h0, Nat.zero_add] at h3
  exact ⟨h3, (C01_sysoe2_tokens_sequential height now codes fac p ops hno).2.2.1⟩

/-- the same from any state satisfying the invariant: `NumTokens` moves by `+1` per accepted mint and `−1` per accepted burn -/
theorem C09_sysoe2_num_tokens_from {s : SysOE2.State} (ops : List SysOE2.Op) (hi : SInv s) (hno : NoImpRun s ops) :
    numTokens (SysOE2.run s ops) + burnsRun s ops = numTokens s + mintsRun s ops :=
  (hist_run ops hi hno).2.2

/-- **the recipient owns the minted token.** After an accepted mint of the minter (`Mint {}`: the buyer; `MintTo`: the named
recipient) the collection's token table is the old one plus the token `TOKEN_INDEX + 1` owned by the recipient with no approvals;
that id was absent; `NumTokens` grows by one; `TOKEN_INDEX` by one -/
theorem C09_sysoe2_mint_recipient_owns {s s' : SysOE2.State} {op : SysOE2.Op} {m : SysOE2.Minter} {c : CF.Coll} (hi : SInv s)
    (hno : NoImp s op) (h : SysOE2.step s op = .ok s') (hmc : s.mc = some (m, c)) (hm : isMintOp op = true) :
    ∃ m' c' rcpt uri ext, s'.mc = some (m', c') ∧ mintRcpt op = some rcpt ∧
      c'.core.tokens = c.core.tokens ++ [⟨m.seq.tokenIndex + 1, rcpt, [], uri, ext⟩] ∧
      m.seq.tokenIndex + 1 ∉ c.core.ids ∧ CF.qNumTokens c' = CF.qNumTokens c + 1 ∧
      m'.seq.tokenIndex = m.seq.tokenIndex + 1 := by
  obtain ⟨_, hsome, _⟩ := e2e_step hi hno h
  obtain ⟨m', c', hmc', _, h3⟩ := hsome m c hmc
  rcases h3 with ⟨_, _, kidx, ⟨rcpt, uri, ext, kr, ktoks⟩, kcnt, kfresh, _⟩ | ⟨_, hm', _⟩ | ⟨hm', _⟩
  · exact ⟨m', c', rcpt, uri, ext, hmc', kr, ktoks, kfresh, kcnt, kidx⟩
  · rw [hm] at hm'; cases hm'
  · rw [hm] at hm'; cases hm'

/-- **creation = a mint of this minter**: a step (no impersonation) after which an id exists that did not exist before is an
accepted `Mint {}` / `MintTo`, and the id is `TOKEN_INDEX + 1` -/
theorem C09_sysoe2_creation_is_minter_mint {s : SysOE2.State} {op : SysOE2.Op} (hi : SInv s) (hno : NoImp s op) {id : Nat}
    (hnew : id ∈ newIds s (SysOE2.step' s op)) :
    isMintOp op = true ∧ accepted s op = true ∧ id = idxOf s + 1 := by
  obtain ⟨h1, _, _⟩ := hist_step op hi hno
  rw [h1] at hnew
  split at hnew
  · rename_i hb
    simp only [List.mem_singleton] at hnew
    unfold mintBit at hb
    split at hb
    · rename_i hc
      simp only [Bool.and_eq_true] at hc
      exact ⟨hc.2, hc.1, hnew⟩
    · cases hb
  · cases hnew

/-! ## trading time, who mints -/

/-- **creation**: the collection's `start_trading_time` after an accepted `CreateMinter` is `boundedOrDefault start_time offset
requested` (the requested value when within `start_time + max_trading_offset_secs`, that bound when absent), computed by the
minter and STORED BY THE COLLECTION's own `instantiate`; the new minter's admin is the creator named in the message -/
theorem C19_sysoe2_create_trading {s s' : SysOE2.State} {sender : Addr} {funds : List Coin} {msg : OE.CreateMsg} {w : OE.CreateWit}
    {ci : Sys2.CollInit} {uri ext : Nat} (h : SysOE2.step s (.create sender funds msg w ci uri ext) = .ok s') :
    ∃ m' c', s'.mc = some (m', c') ∧
      TT.boundedOrDefault msg.startTime s.params.maxTradingOffsetSecs msg.trading = .ok c'.core.info.startTradingTime ∧
      m'.admin = msg.creator ∧ m'.startTime = msg.startTime := by
  obtain ⟨_, m', c', hmc', _, _, _, _, _, _, k7, k8, k9⟩ :=
    create_post (show create s sender funds msg w ci uri ext = .ok s' from h)
  exact ⟨m', c', hmc', k7, k8, k9⟩

/-- **a change of the collection's `start_trading_time` is the minter's `UpdateStartTradingTime` by its admin**: in a state
satisfying the invariant, an accepted step (no impersonation) that changes the value is `UpdateStartTradingTime(t)` sent to the
MINTER by its admin with no funds, `t` passed the factory bound (`tradingUpdateOk` for the offset, start time and clock of that
moment), and the collection now stores exactly `t` -/
theorem C19_sysoe2_trading_step {s s' : SysOE2.State} {op : SysOE2.Op} {m m' : SysOE2.Minter} {c c' : CF.Coll} (hi : SInv s)
    (hno : NoImp s op) (h : SysOE2.step s op = .ok s') (hmc : s.mc = some (m, c)) (hmc' : s'.mc = some (m', c'))
    (hch : c'.core.info.startTradingTime ≠ c.core.info.startTradingTime) :
    ∃ t, op = .sys (.minter (.updateStartTradingTime m.admin [] t)) ∧ c'.core.info.startTradingTime = t ∧
      TT.tradingUpdateOk .openEdition s.now m.startTime s.params.maxTradingOffsetSecs t = true := by
  obtain ⟨_, hsome, _⟩ := e2e_step hi hno h
  obtain ⟨m'', c'', hmc'', _, h3⟩ := hsome m c hmc
  rw [hmc'] at hmc''
  simp only [Option.some.injEq, Prod.mk.injEq] at hmc''
  obtain ⟨rfl, rfl⟩ := hmc''
  rcases h3 with ⟨_, _, _, _, _, _, k⟩ | ⟨_, _, _, _, k⟩ | ⟨_, _, _, _, _, k⟩
  · exact absurd k hch
  · exact absurd k hch
  · rcases k with k | ⟨sender, funds, t, rfl, kt⟩
    · exact absurd k hch
    · obtain ⟨g1, g2, g3⟩ := trading_guard hmc h
      subst g1 g2
      exact ⟨t, rfl, kt, g3⟩

/-- the same at every point of every history from `init` without impersonation -/
theorem C19_sysoe2_trading_history (height now : Nat) (codes : VF.Codes) (fac : Addr) (p : OE.Params)
    (pre : List SysOE2.Op) (op : SysOE2.Op) (post : List SysOE2.Op)
    (hno : NoImpRun (SysOE2.init height now codes fac p) (pre ++ op :: post)) {m m' : SysOE2.Minter} {c c' : CF.Coll}
    (hmc : (SysOE2.run (SysOE2.init height now codes fac p) pre).mc = some (m, c))
    (hmc' : (SysOE2.step' (SysOE2.run (SysOE2.init height now codes fac p) pre) op).mc = some (m', c'))
    (hch : c'.core.info.startTradingTime ≠ c.core.info.startTradingTime) :
    ∃ t, op = .sys (.minter (.updateStartTradingTime m.admin [] t)) ∧ c'.core.info.startTradingTime = t ∧
      TT.tradingUpdateOk .openEdition (SysOE2.run (SysOE2.init height now codes fac p) pre).now m.startTime
        (SysOE2.run (SysOE2.init height now codes fac p) pre).params.maxTradingOffsetSecs t = true := by
  obtain ⟨hi, hn⟩ := sinv_prefix pre op post (sinv_init height now codes fac p) hno
  rcases step'_cases (SysOE2.run (SysOE2.init height now codes fac p) pre) op with ⟨s', hs, hs'⟩ | ⟨_, hs'⟩
  · rw [hs'] at hmc'
    exact C19_sysoe2_trading_step hi hn hs hmc hmc' hch
  · rw [hs', hmc] at hmc'
    simp only [Option.some.injEq, Prod.mk.injEq] at hmc'
    obtain ⟨rfl, rfl⟩ := hmc'
    exact absurd rfl hch

/-- **ALL states: a direct `UpdateStartTradingTime` accepted by the collection comes from its cw_ownable owner** -/
theorem C19_sysoe2_direct_needs_owner {s s' : SysOE2.State} {sender : Addr} {funds : List Coin} {t : Option Nat}
    (h : SysOE2.step s (.collExec sender funds (.updateStartTradingTime t)) = .ok s') :
    ∃ m c, s.mc = some (m, c) ∧ c.core.ownership.owner = some sender := by
  obtain ⟨m, c, _, core', _, hmc, _, hex, _, _⟩ :=
    collExec_ok (show collExec s sender funds (.updateStartTradingTime t) = .ok s' from h)
  obtain ⟨_, e⟩ := Sg721.exec_eff' hex
  simp only [CF.toExec] at e
  cases e with
  | ustt _ hm => exact ⟨m, c, hmc, hm⟩

/-- mints and burns never move `start_trading_time` -/
theorem C19_sysoe2_mint_burn_keep_trading {s s' : SysOE2.State} {op : SysOE2.Op} {m : SysOE2.Minter} {c : CF.Coll} (hi : SInv s)
    (hno : NoImp s op) (h : SysOE2.step s op = .ok s') (hmc : s.mc = some (m, c))
    (hmb : isMintOp op = true ∨ isBurnOp op = true) :
    ∃ m' c', s'.mc = some (m', c') ∧ c'.core.info.startTradingTime = c.core.info.startTradingTime := by
  obtain ⟨_, hsome, _⟩ := e2e_step hi hno h
  obtain ⟨m', c', hmc', _, h3⟩ := hsome m c hmc
  rcases h3 with ⟨_, _, _, _, _, _, k⟩ | ⟨_, _, _, _, k⟩ | ⟨hm', hb', _⟩
  · exact ⟨m', c', hmc', k⟩
  · exact ⟨m', c', hmc', k⟩
  · rcases hmb with hx | hx
    · rw [hx] at hm'; cases hm'
    · rw [hx] at hb'; cases hb'

/-- **ALL states: a direct `Mint` accepted by the collection comes from its cw_ownable owner** (whoever that is) and names an id
that does not exist -/
theorem C05_sysoe2_mint_needs_owner {s s' : SysOE2.State} {sender : Addr} {funds : List Coin} {id : Nat} {owner : Addr}
    {uri : Option Nat} {ext : Nat} (h : SysOE2.step s (.collExec sender funds (.mint id owner uri ext)) = .ok s') :
    ∃ m c, s.mc = some (m, c) ∧ c.core.ownership.owner = some sender ∧ id ∉ c.core.ids := by
  obtain ⟨m, c, _, core', _, hmc, _, hex, _, _⟩ := collExec_ok (show collExec s sender funds (.mint id owner uri ext) = .ok s' from h)
  obtain ⟨_, e⟩ := Sg721.exec_eff' hex
  simp only [CF.toExec] at e
  cases e with
  | mint _ _ _ _ hm _ hnone => exact ⟨m, c, hmc, hm, (Sg721.find?_none_iff c.core id).1 hnone⟩

/-- **ALL states: a mint of the minter is accepted only while the minter contract IS the collection's cw_ownable owner** (after a
hand-over every `Mint {}` / `MintTo` is refused — by the collection) -/
theorem C05_sysoe2_minter_mint_needs_ownership {s s' : SysOE2.State} {o : SysOE.Op} {m : SysOE2.Minter} {c : CF.Coll}
    (h : SysOE2.step s (.sys o) = .ok s') (hmc : s.mc = some (m, c)) (hm : isMintOp (.sys o) = true) :
    c.core.ownership.owner = some m.addr := by
  rcases step_sys_cases s o with ⟨vo, sender, mm, rfl, hif, _⟩ | ⟨vo, rfl, _, hst⟩ | ⟨hp, hst⟩
  · rw [(iface_burn hif).1] at hm; cases hm
  · rw [hst] at h; cases h
  · rw [hst] at h
    obtain ⟨om', c', msg, _, _, _, _, _, hmsg, hcase⟩ := sysStep_parts hp hmc h
    have hshape := subMsg_shape hmsg
    rcases isMint_sub o with ⟨rcpt, hsub, _⟩ | ⟨_, hm', _⟩
    · rw [hsub] at hshape
      obtain ⟨uri, ext, rfl⟩ := hshape
      rcases hcase with ⟨hx, _⟩ | ⟨mm, core', hx, hex, _⟩
      · cases hx
      · cases hx
        obtain ⟨_, e⟩ := Sg721.exec_eff' hex
        simp only [CF.toExec] at e
        cases e with
        | mint _ _ _ _ hown _ _ => exact hown
    · rw [hm] at hm'; cases hm'

/-- **the collection's ownership never leaves the minter contract** along a history without impersonation -/
theorem C05_sysoe2_ownership_stays (height now : Nat) (codes : VF.Codes) (fac : Addr) (p : OE.Params) (ops : List SysOE2.Op)
    (hno : NoImpRun (SysOE2.init height now codes fac p) ops) (m : SysOE2.Minter) (c : CF.Coll)
    (hmc : (SysOE2.run (SysOE2.init height now codes fac p) ops).mc = some (m, c)) :
    c.core.ownership = ⟨some m.addr, none, none⟩ :=
  (C01_sysoe2_invariant height now codes fac p ops hno).own m c hmc


/-! ## Non-vacuity (kernel-evaluated) -/

namespace SysOE2

def verdicts : State → List Op → List Bool
  | _, [] => []
  | s, op :: ops => accepted s op :: verdicts (step' s op) ops

def noImpB (s : State) (op : Op) : Bool :=
  match s.mc with
  | some (m, _) => collSender op != some m.addr
  | none => true

def noImpRunB : State → List Op → Bool
  | _, [] => true
  | s, op :: ops => noImpB s op && noImpRunB (step' s op) ops

theorem noImp_of_b {s : State} {op : Op} (h : noImpB s op = true) : NoImp s op := by
  intro m c hmc
  simp only [noImpB, hmc] at h
  exact fun heq => by simp [heq] at h

theorem noImpRun_of_b {s : State} {ops : List Op} (h : noImpRunB s ops = true) : NoImpRun s ops := by
  induction ops generalizing s with
  | nil => trivial
  | cons op ops ih =>
    simp only [noImpRunB, Bool.and_eq_true] at h
    exact ⟨noImp_of_b h.1, ih h.2⟩

end SysOE2

def oe2T0 : Nat := 1647032400000000000

def oe2Params : OE.Params :=
  { codeId := 7, allowed := [16, 19], frozen := false, creationFee := ⟨0, 1000⟩, minMintPrice := ⟨0, 50⟩, mintFeeBps := 1000,
    maxTradingOffsetSecs := 3600, maxTokenLimit := 100, maxPerAddressLimit := 5, airdropMintFeeBps := 10000,
    airdropMintPrice := ⟨0, 100⟩, dev := some 40 }

/-- a fresh chain with an open-edition factory: code ids 7, 8, 9 = open-edition-minter, -wl-flex, -merkle-wl; 16 = sg721-base,
19 = sg721-metadata-onchain -/
def oe2Init : SysOE2.State := SysOE2.init 100 oe2T0 ⟨[7, 8, 9], [16, 17, 18, 19]⟩ 1000 oe2Params

/-- `CreateMinter` of an uncapped edition with an end time over collection code `code`, with real `collection_params`
(`collOk := false` is ignored: the collection's own `instantiate` decides) -/
def oe2Create (code : Nat) (onChain : Bool) : SysOE2.Op :=
  .create 10 [⟨0, 1000⟩]
    { collCode := code, creator := 10, trading := none, nftValid := true, onChain := onChain, uriOk := true,
      paymentAddress := some 12, startTime := oe2T0 + 100, endTime := some (oe2T0 + 1000), numTokens := none,
      mintPrice := ⟨0, 1000⟩, perAddressLimit := 3, whitelist := none, whitelistValid := true, collOk := false }
    { minterAddr := 1001, collAddr := 1002 }
    { name := 1, symbol := 2, description := ⟨1, 30⟩, image := ⟨0, true⟩, externalLink := none, explicitContent := none,
      royalty := none }
    1000000 7

/-- fund; create (sg721-base, off-chain edition); reach the start; 20 mints ids 1 and 2; 20 transfers id 1 to 21; 21 burns it; the
admin airdrops to 22: the NEW id 3 (the burned id 1 stays gone); a stranger's hand-over attempt and direct mint are refused; the
minter's admin moves the trading time (validated); a stranger's direct trading-time update is refused; 22 approves 30, 30
transfers id 3 to 23 -/
def oe2Ops : List SysOE2.Op :=
  [.sys (.minter (.fund 10 ⟨0, 5000⟩)), .sys (.minter (.fund 20 ⟨0, 5000⟩)),
   oe2Create 16 false,
   .block 101 (oe2T0 + 100),
   .sys (.mint 20 [⟨0, 1000⟩] none none none),
   .sys (.mint 20 [⟨0, 1000⟩] none none none),
   .collExec 20 [] (.transferNft 21 1),
   .collExec 21 [] (.burn 1),
   .sys (.minter (.mintTo 10 [⟨0, 100⟩] 22)),
   .collExec 30 [] (.updateOwnership (.transfer 30 none)),
   .collExec 30 [] (.mint 1 30 none 0),
   .sys (.minter (.updateStartTradingTime 10 [] (some (oe2T0 + 200)))),
   .collExec 30 [] (.updateStartTradingTime (some 5)),
   .collExec 22 [] (.approve 30 3 none),
   .collExec 30 [] (.transferNft 23 3)]

example : SysOE2.verdicts oe2Init oe2Ops =
    [true, true, true, true, true, true, true, true, true, false, false, true, false, true, true] := by decide

/-- the history is free of impersonation: the hypotheses of the end-to-end theorems are satisfiable -/
example : NoImpRun oe2Init oe2Ops := SysOE2.noImpRun_of_b (by decide)

/-- after the history: the collection holds ids 2 (owner 20) and 3 (owner 23 after the approved transfer), both with the edition's
`token_uri`; `NumTokens = 2`; `TOKEN_INDEX = TotalMintCount = 3`; the cw_ownable owner is still the minter contract 1001 -/
example : (SysOE2.run oe2Init oe2Ops).mc.map (fun mc => (mc.2.core.tokens.map (fun t => (t.id, t.owner, t.uri)), CF.qNumTokens mc.2)) =
    some ([(2, 20, some 1000000), (3, 23, some 1000000)], 2) := by decide

example : (SysOE2.run oe2Init oe2Ops).mc.map (fun mc => (mc.1.seq.tokenIndex, mc.1.seq.totalMint, mc.2.core.ownership.owner)) =
    some (3, 3, some 1001) := by decide

/-- the ids ever created: 1, 2, 3 — three accepted mints, one accepted burn, `NumTokens + burns = minted` (2 + 1 = 3) -/
example : (createdRun oe2Init oe2Ops, mintsRun oe2Init oe2Ops, burnsRun oe2Init oe2Ops, numTokens (SysOE2.run oe2Init oe2Ops)) =
    ([1, 2, 3], 3, 1, 2) := by decide

/-- trading time: the creation default `start_time + offset` (3600 s), then the validated value -/
example : ((SysOE2.run oe2Init (oe2Ops.take 3)).mc.map (fun mc => mc.2.core.info.startTradingTime),
           (SysOE2.run oe2Init oe2Ops).mc.map (fun mc => mc.2.core.info.startTradingTime)) =
    (some (some (oe2T0 + 100 + 3600 * 1000000000)), some (some (oe2T0 + 200))) := by decide

/-- sg721-metadata-onchain (code 19): an OFF-chain edition's `extension: None` does not parse — the mint is refused by the
collection; an ON-chain edition mints, and the collection keeps the `Metadata` (tag 7), no `token_uri` -/
example : SysOE2.verdicts oe2Init
    [.sys (.minter (.fund 10 ⟨0, 5000⟩)), .sys (.minter (.fund 20 ⟨0, 5000⟩)), oe2Create 19 false, .block 101 (oe2T0 + 100),
     .sys (.mint 20 [⟨0, 1000⟩] none none none)] = [true, true, true, true, false] := by decide

example : (SysOE2.run oe2Init
    [.sys (.minter (.fund 10 ⟨0, 5000⟩)), .sys (.minter (.fund 20 ⟨0, 5000⟩)), oe2Create 19 true, .block 101 (oe2T0 + 100),
     .sys (.mint 20 [⟨0, 1000⟩] none none none)]).mc.map (fun mc => mc.2.core.tokens.map (fun t => (t.id, t.owner, t.uri, t.ext))) =
    some [(1, 20, none, 7)] := by decide

/-- with impersonation (cw-multi-test lets the minter ADDRESS sign): the next id claimed directly — the minter's own mints are then
refused by the collection until that token is burned -/
example : SysOE2.verdicts oe2Init
    [.sys (.minter (.fund 10 ⟨0, 5000⟩)), .sys (.minter (.fund 20 ⟨0, 5000⟩)), oe2Create 16 false, .block 101 (oe2T0 + 100),
     .collExec 1001 [] (.mint 1 30 none 0),
     .sys (.mint 20 [⟨0, 1000⟩] none none none),
     .collExec 30 [] (.burn 1),
     .sys (.mint 20 [⟨0, 1000⟩] none none none)] = [true, true, true, true, true, false, true, true] := by decide

end LP
