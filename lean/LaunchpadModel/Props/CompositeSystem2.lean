import LaunchpadModel.Lemmas.LaunchpadSystem2E2E
/-!
# SYSTEM composite 2 (`LP.Sys2`): `LP.Sys` with the REAL collection model instead of the simplified interface

`Model/LaunchpadSystem2.lean`: the state is the `Sys` state (factory + vending minter + whitelist contracts) whose simplified
collection component (`Supply.Coll` token table + `TT.Coll` record) is REPLACED by a `CF.Coll` collection contract; the minter-side
code runs on the VIEW `Sys2.collViewOf` of that contract, the minter's sub-messages (`Mint`, `UpdateStartTradingTime`, the sg721
`instantiate`) are executed by the `CF` step; every `CF` message by any sender and the collection migrations are ops.
Correspondence with the real factory + minter + whitelist + sg721 contracts: `harness/src/bin/compsys2.rs` ↔ `drv_compsys2`.

## (a) refinement

* `C01_sys2_view_exact_*`: an accepted minter / whitelist / clock / `CreateMinter` step of `Sys2` IS the accepted `Sys` step on the
  view: the state the simplified interface computed (token table after `Coll.mint`, record after `updateTrading`, `Coll.init`)
  equals the view of the state the collection contract computed itself. What `Sys` ASSUMED about the collection is proved.
* `C01_sys2_refines_sys_step / _run / _sys_invariant`: `sysOf (step' s op) = Sys.run { sysOf s with bank := … } (sysOps s op)` for
  every op except the two events the simplified interface has no op for (`Sys2.Foreign`: an accepted direct `Mint` to the
  collection — only its cw_ownable owner can —, an accepted base → updatable migration), which are described exactly
  (`C01_sys2_foreign_*`); runs: `SysReach`; every `Sys.step'`-invariant stable under these events holds along every `Sys2` run.
  Hence every `Cxx_sys_*` / `Cxx_full_*` step theorem applies to the `Sys` step of a `Sys2` step verbatim.
* `C09_sys2_refines_collection_step / _run / _collection_invariant`: `cfOf (step' s op) = CF.run { cfOf s with bank := … }
  (cfOps s op)` for ALL states and ops (the collection's `instantiate`, every message from outside, the minter's sub-message,
  the block, the migrations); runs: `CFReach` (= `CF.run` closed under foreign bank movements). Hence every `C09 / C10 / C19 / C20 /
  C05_full_*` theorem about `CF.step'` / `CF.run` applies to the collection of the system.

## (b) end-to-end (over ALL system histories from `Sys2.init` in which nobody signs a collection message with the MINTER
CONTRACT's own address — `Sys2.NoImpRun`; on a chain only the contract can, and its code sends only the two sub-messages)

`Sys2.SInv` (`C01_sys2_invariant`): ids duplicate-free, no legacy item, cw_ownable record `⟨minter contract, nothing pending⟩`,
and C01's `Supply.FInv` with its collection clauses about the REAL token table.
* tokens: `C09_sys2_tokens_from_this_minter`, `C01_sys2_supply_joined`, `C09_sys2_num_tokens_history`, `C01_sys2_never_reminted`,
  `C09_sys2_direct_mint_absent`, `C09_sys2_created_only_when_absent`, `C09_sys2_creation_is_minter_mint`;
* recipient: `C09_sys2_mint_recipient_owns`;
* trading time: `C19_sys2_create_trading`, `C19_sys2_trading_step`, `C19_sys2_trading_history`, `C19_sys2_direct_needs_owner`;
* who can mint / hand over: `C05_sys2_mint_needs_owner`, `C05_sys2_ownership_change_guard`, `C05_sys2_minter_messages_keep_ownership`,
  `C05_sys2_ownership_stays`.
Non-vacuity: `s2Ops` (kernel-evaluated).

(This module imports only `Lemmas/*` — not `Props/CompositeVending` (→ `Props/C07`) nor `Props/CompositeCollection` (→ `Props/C09`),
which cannot be imported together; the audits of C01 and C09 import it next to each of them.)
-/
namespace LP
open LP.Sys2

/-! ## (a) refinement -/

/-- **the view is exact (minter / whitelist / clock ops).** If `Sys2` accepts a `Sys` op that is no collection-interface op, then
`Sys` accepts it on the view, and the state the simplified interface computes IS the view of the `Sys2` post-state — whose
collection component was computed by the collection contract executing the minter's sub-message. -/
theorem C01_sys2_view_exact_step {s s' : Sys2.State} {o : Sys.Op} (hp : plainOp o = true) (h : Sys2.step s (.sys o) = .ok s') :
    Sys.step (sysOf s) o = .ok (sysOf s') := by
  rcases step_sys_cases s o with ⟨vo, sender, m, rfl, hi, _⟩ | ⟨vo, rfl, hc, _⟩ | ⟨_, hst⟩
  · simp [plainOp, hi] at hp
  · simp [plainOp, hc] at hp
  · rw [hst] at h; exact sysStep_exact hp h

/-- **the view is exact (`CreateMinter`).** The flag `collOk` the simplified interface took from outside is `true` exactly because
the collection's own `instantiate` accepted; the created view is `Coll.empty` / `TT.Coll.init`. -/
theorem C01_sys2_view_exact_create {s s' : Sys2.State} {sender : Addr} {funds : List Coin} {msg : VF.CreateMsg}
    {w : VF.CreateWit} {ci : CollInit} (h : Sys2.step s (.create sender funds msg w ci) = .ok s') :
    Sys.step (sysOf s) (.minter (.create sender funds { msg with collOk := true } w)) = .ok (sysOf s') :=
  create_exact h

/-- **`Sys2` refines `Sys`, one step** (every `Good` state — an invariant —, every op that is not `Foreign`). -/
theorem C01_sys2_refines_sys_step (s : Sys2.State) (op : Sys2.Op) (hg : Good s) (hf : ¬ Foreign s op) :
    sysOf (Sys2.step' s op) = Sys.run { sysOf s with bank := sysBank s op } (sysOps s op) :=
  sys_step s op hg hf

/-- the first foreign event, exactly: a direct `Mint` accepted by the collection comes from its cw_ownable owner and adds the
token to the view -/
theorem C01_sys2_foreign_mint {s s' : Sys2.State} {sender : Addr} {funds : List Coin} {id : Nat} {owner : Addr}
    {uri : Option Nat} {ext : Nat} (h : Sys2.step s (.collExec sender funds (.mint id owner uri ext)) = .ok s') :
    ∃ m c v', s.mc = some (m, c) ∧ c.core.ownership.owner = some sender ∧ (tokView c.core).mint id owner = some v' ∧
      sysOf s' = { sysOf s with bank := s'.bank,
                                minter := some { vmOf m c with supply := { (vmOf m c).supply with coll := v' } } } :=
  sys_foreign_mint h

/-- the second foreign event, exactly: base → updatable changes only the kind the interface records -/
theorem C01_sys2_foreign_migrate {s s' : Sys2.State} (hg : Good s) (h : Sys2.step s .collMigrateUpdatable = .ok s') :
    ∃ m c, s.mc = some (m, c) ∧
      sysOf s' = { sysOf s with minter := some { vmOf m c with tt := { (vmOf m c).tt with kind := .updatable } } } :=
  sys_foreign_migrate hg h

/-- **`Sys2` refines `Sys`, runs.** -/
theorem C01_sys2_refines_sys_run (s : Sys2.State) (ops : List Sys2.Op) (hg : Good s) :
    SysReach (sysOf s) (sysOf (Sys2.run s ops)) :=
  sys_run s ops hg

/-- every `Sys.step'`-invariant that survives the three foreign events holds of the view along every system-2 history -/
theorem C01_sys2_sys_invariant (P : Sys.State → Prop) (hstep : ∀ S op, P S → P (Sys.step' S op))
    (hbank : ∀ (S : Sys.State) (b : MintPay.Bank), P S → P { S with bank := b })
    (hmint : ∀ (S : Sys.State) (vm : VF.Minter) (id : Nat) (owner : Addr) (v' : Supply.Coll), P S → S.minter = some vm →
      vm.supply.coll.mint id owner = some v' → P { S with minter := some { vm with supply := { vm.supply with coll := v' } } })
    (hupd : ∀ (S : Sys.State) (vm : VF.Minter), P S → S.minter = some vm →
      P { S with minter := some { vm with tt := { vm.tt with kind := .updatable } } })
    (s : Sys2.State) (hg : Good s) (h0 : P (sysOf s)) (ops : List Sys2.Op) : P (sysOf (Sys2.run s ops)) :=
  sysReach_inv P hstep hbank hmint hupd h0 (sys_run s ops hg)

/-- `Good` (ids duplicate-free, no cw721-0.16 `minter` item) holds along every history from `init` -/
theorem C09_sys2_good (height now : Nat) (codes : VF.Codes) (fac : Addr) (p : VF.Params) (ops : List Sys2.Op) :
    Good (Sys2.run (Sys2.init height now codes fac p) ops) :=
  good_run ops (good_init _ _ _ _ _)

/-- **`Sys2` refines `CF`, one step** (ALL states, ALL ops). -/
theorem C09_sys2_refines_collection_step (s : Sys2.State) (op : Sys2.Op) :
    cfOf (Sys2.step' s op) = CF.run { cfOf s with bank := cfBank s op } (cfOps s op) :=
  cf_step s op

/-- **`Sys2` refines `CF`, runs.** -/
theorem C09_sys2_refines_collection_run (s : Sys2.State) (ops : List Sys2.Op) : CFReach (cfOf s) (cfOf (Sys2.run s ops)) :=
  cf_run s ops

/-- every invariant of `CF.step'` (ops other than the environment op `setLegacy`, which no system step is) that survives a foreign
bank movement holds of the collection contract along every history -/
theorem C09_sys2_collection_invariant (P : CF.State → Prop)
    (hstep : ∀ X op, CF.isSetLegacy op = false → P X → P (CF.step' X op))
    (hbank : ∀ (X : CF.State) (b : MintPay.Bank), P X → P { X with bank := b }) (s : Sys2.State) (h0 : P (cfOf s))
    (ops : List Sys2.Op) : P (cfOf (Sys2.run s ops)) :=
  cfReach_inv P hstep hbank h0 (cf_run s ops)

/-- `collViewOf` of the collection projection is the view the minter-side code runs on -/
theorem C01_sys2_collViewOf (s : Sys2.State) (m : Sys2.Minter) (c : CF.Coll) (h : s.mc = some (m, c)) :
    collViewOf (cfOf s) = ((vmOf m c).supply.coll, (vmOf m c).tt) := by
  simp [collViewOf, cfOf, h, viewOfColl, vmOf]

/-! ## (b) end-to-end -/

/-- **the end-to-end invariant** holds along every history from `init` without impersonation of the minter contract -/
theorem C01_sys2_invariant (height now : Nat) (codes : VF.Codes) (fac : Addr) (p : VF.Params) (ops : List Sys2.Op)
    (hno : NoImpRun (Sys2.init height now codes fac p) ops) : SInv (Sys2.run (Sys2.init height now codes fac p) ops) :=
  sinv_run ops (sinv_init _ _ _ _ _) hno

/-- "every token that exists in the collection was created by a mint of THIS minter (while the minter is the collection's owner),
its id lies in `1..=num_tokens`": every token id of the REAL collection state is in the minter's mint log (the ids its `Mint` /
`MintTo` / `MintFor` handed out — `C09_sys2_creation_is_minter_mint`), in range; ids and log are duplicate-free; the collection's
cw_ownable owner is the minter contract, nothing pending. -/
theorem C09_sys2_tokens_from_this_minter {s : Sys2.State} {m : Sys2.Minter} {c : CF.Coll} (hi : SInv s)
    (hmc : s.mc = some (m, c)) :
    (∀ t ∈ c.core.tokens, t.id ∈ m.supply.minted ∧ 1 ≤ t.id ∧ t.id ≤ m.supply.n) ∧ c.core.ids.Nodup ∧ m.supply.minted.Nodup ∧
      c.core.ownership = ⟨some m.addr, none, none⟩ := by
  have hf := hi.sup m c hmc
  refine ⟨?_, (hi.good m c hmc).1, hf.mnodup, hi.own m c hmc⟩
  intro t ht
  have hid : t.id ∈ c.core.ids := List.mem_map_of_mem (f := (·.id)) ht
  have hv : t.id ∈ (vmOf m c).supply.coll.ids := (mem_tokView_ids c.core t.id).2 hid
  have hm := hf.csub t.id hv
  exact ⟨hm, hf.mrange t.id hm⟩

/-- "the minter's mintable count + minted = num_tokens − burned-remaining" joined with the collection: `MintableNumTokens` =
size of the position map, `mintable + minted + burned = num_tokens`, and the collection's `NumTokens` = its number of tokens ≤
minted (C01 ∧ C09) -/
theorem C01_sys2_supply_joined {s : Sys2.State} {m : Sys2.Minter} {c : CF.Coll} (hi : SInv s) (hmc : s.mc = some (m, c)) :
    m.supply.mintable = m.supply.pos.length ∧ m.supply.mintable + m.supply.minted.length + m.supply.burned = m.supply.n ∧
      CF.qNumTokens c = c.core.tokens.length ∧ CF.qNumTokens c ≤ m.supply.minted.length := by
  have hf := hi.sup m c hmc
  have h1 : m.supply.mintable = m.supply.pos.length := hf.count
  have h2 : m.supply.pos.length + m.supply.minted.length + m.supply.burned = m.supply.n := hf.total
  have h3 : c.core.count = c.core.tokens.length := by
    have := hf.cinv.count
    simpa [vmOf, tokView] using this
  refine ⟨h1, by omega, h3, ?_⟩
  have hsub : ∀ x ∈ c.core.ids, x ∈ m.supply.minted := fun x hx =>
    hf.csub x ((mem_tokView_ids c.core x).2 hx)
  have hle := Supply.length_le_of_nodup_subset c.core.ids m.supply.minted (hi.good m c hmc).1 hsub
  have : c.core.ids.length = c.core.tokens.length := by simp [Sg721.State.ids]
  show c.core.count ≤ _
  omega

namespace Sys2

/-- `NumTokens {}` of the collection (0 before it exists) -/
def numTok (s : State) : Nat :=
  match s.mc with
  | some (_, c) => CF.qNumTokens c
  | none => 0

/-- length of the minter's mint log (0 before it exists) -/
def mintedLen (s : State) : Nat :=
  match s.mc with
  | some (m, _) => m.supply.minted.length
  | none => 0

def mintedOf (s : State) : List Nat :=
  match s.mc with
  | some (m, _) => m.supply.minted
  | none => []

def idsOf (s : State) : List Nat :=
  match s.mc with
  | some (_, c) => c.core.ids
  | none => []

/-- number of ACCEPTED burn messages (by holders, approved spenders, operators) along a history -/
def holderBurns : State → List Op → Nat
  | _, [] => 0
  | s, op :: ops => (if (burnOf op).isSome && accepted s op then 1 else 0) + holderBurns (step' s op) ops

/-- before the minter exists, a step either leaves it absent or is the `CreateMinter` that starts with an empty collection and
an empty mint log -/
theorem mc_none_step {s s' : State} {op : Op} (hmc : s.mc = none) (h : step s op = .ok s') :
    (s'.mc = none ∨ (numTok s' = 0 ∧ mintedLen s' = 0 ∧ mintedOf s' = [] ∧ idsOf s' = [])) ∧ burnOf op = none := by
  cases op with
  | sys o =>
    rcases step_sys_cases s o with ⟨vo, sender, m, rfl, _, hst⟩ | ⟨vo, rfl, _, hst⟩ | ⟨hp, hst⟩
    · rw [hst, collExec_none hmc] at h; cases h
    · rw [hst] at h; cases h
    · rw [hst] at h
      obtain ⟨r, _, hcase⟩ := sysStep_ok h
      rcases hcase with ⟨_, rfl⟩ | ⟨m0, c0, _, _, _, hmc0, _⟩
      · exact ⟨Or.inl (setSys_mc_none _ _ _), plain_burnOf hp⟩
      · rw [hmc] at hmc0; cases hmc0
  | create sender funds msg w ci =>
    obtain ⟨r, vm, core, ck, trading, sup, _, hvm, _, hsup, hs, _, _, _, _, _, hcore, rfl⟩ := create_parts h
    obtain ⟨_, ht, hc, _⟩ := sg_instantiate_ok hcore
    obtain ⟨_, hsup'⟩ := Supply.Fixed.init_spec hsup
    have hm : vm.supply.minted = [] := by rw [hs, hsup']
    refine ⟨Or.inr ⟨?_, ?_, ?_, ?_⟩, rfl⟩ <;>
      simp [numTok, mintedLen, mintedOf, idsOf, setSys_mc_some, hvm, CF.qNumTokens, hc, ofVm, hm, Sg721.State.ids, ht]
  | block hh t =>
    simp only [step] at h
    split at h
    · cases h
    · cases h; exact ⟨Or.inl hmc, rfl⟩
  | collExec sender funds msg => rw [show step s (.collExec sender funds msg) = collExec s sender funds msg from rfl, collExec_none hmc] at h; cases h
  | collMigrateUpdatable => simp [step, collEnv, hmc] at h
  | collMigrateSelf => simp [step, collEnv, hmc] at h
  | collSetVersion v => simp [step, collEnv, hmc] at h

/-- one step of the count: `NumTokens' + (1 if an accepted burn) + minted = NumTokens + minted'` -/
theorem count_step {s : State} (op : Op) (hi : SInv s) (hno : NoImp s op) :
    numTok (step' s op) + (if (burnOf op).isSome && accepted s op then 1 else 0) + mintedLen s =
      numTok s + mintedLen (step' s op) := by
  rcases step'_cases s op with ⟨s', hs, hs'⟩ | ⟨⟨e, he⟩, hs'⟩
  · rw [hs', accepted_ok hs]
    cases hmc : s.mc with
    | none =>
      obtain ⟨hk, hb⟩ := mc_none_step hmc hs
      have e1 : numTok s = 0 := by simp [numTok, hmc]
      have e2 : mintedLen s = 0 := by simp [mintedLen, hmc]
      rw [hb, e1, e2]
      rcases hk with hn | ⟨h1, h2, _, _⟩
      · simp [numTok, mintedLen, hn]
      · rw [h1, h2]; simp
    | some mc =>
      obtain ⟨m, c⟩ := mc
      obtain ⟨m', c', hmc', _, hk⟩ := e2e_step hi hno hmc hs
      simp only [numTok, mintedLen, hmc, hmc', CF.qNumTokens]
      rcases hk with ⟨_, _, id, _, _, _, _, _, _, hm, _, hc, _, hb⟩ | ⟨_, _, _, _, _, _, _, hc, hm, hb⟩ |
          ⟨id, hb, _, _, hc, hm, _⟩ | ⟨hb, _, hc, hm, _⟩
      · rw [hb, hm, hc]; simp; omega
      · rw [hb, hm, hc]; simp
      · rw [hb, hm]; simp; omega
      · rw [hb, hm, hc]; simp
  · rw [hs', accepted_err he]; simp

end Sys2

/-- "`NumTokens` of the collection = minted − burned": along every history from `init` without impersonation, the collection's
`NumTokens` plus the number of accepted burn messages equals the length of the minter's mint log (= the number of its accepted
mints, `C01_minted_count`) -/
theorem C09_sys2_num_tokens_history {s : Sys2.State} (ops : List Sys2.Op) (hi : SInv s) (hno : NoImpRun s ops) :
    numTok (Sys2.run s ops) + holderBurns s ops + mintedLen s = numTok s + mintedLen (Sys2.run s ops) := by
  induction ops generalizing s with
  | nil => simp [Sys2.run, holderBurns]
  | cons op ops ih =>
    have h1 := count_step op hi hno.1
    have h2 := ih (sinv_step' op hi hno.1) hno.2
    rw [Sys2.run_cons]
    simp only [holderBurns]
    omega

/-- … from `init`: `NumTokens + accepted burns = minted`, and `mintable + NumTokens + accepted burns + burned-remaining =
num_tokens` -/
theorem C09_sys2_num_tokens_from_init (height now : Nat) (codes : VF.Codes) (fac : Addr) (p : VF.Params) (ops : List Sys2.Op)
    (hno : NoImpRun (Sys2.init height now codes fac p) ops) :
    numTok (Sys2.run (Sys2.init height now codes fac p) ops) + holderBurns (Sys2.init height now codes fac p) ops =
      mintedLen (Sys2.run (Sys2.init height now codes fac p) ops) ∧
    ∀ m c, (Sys2.run (Sys2.init height now codes fac p) ops).mc = some (m, c) →
      m.supply.mintable + CF.qNumTokens c + holderBurns (Sys2.init height now codes fac p) ops + m.supply.burned = m.supply.n := by
  have h := C09_sys2_num_tokens_history ops (sinv_init height now codes fac p) hno
  have h0 : numTok (Sys2.init height now codes fac p) = 0 ∧ mintedLen (Sys2.init height now codes fac p) = 0 := ⟨rfl, rfl⟩
  refine ⟨by omega, ?_⟩
  intro m c hmc
  have hj := C01_sys2_supply_joined (sinv_run ops (sinv_init height now codes fac p) hno) hmc
  have h1 : numTok (Sys2.run (Sys2.init height now codes fac p) ops) = CF.qNumTokens c := by simp [numTok, hmc]
  have h2 : mintedLen (Sys2.run (Sys2.init height now codes fac p) ops) = m.supply.minted.length := by simp [mintedLen, hmc]
  omega

/-- "no id is created twice without an intervening burn", part 1 (ALL states, any sender): a `Mint` message the collection accepts
names an id that does not exist (for the minter's own sub-message: `C09_sys2_mint_recipient_owns`, conjunct `id ∉ c.core.ids`) -/
theorem C09_sys2_direct_mint_absent {s s' : Sys2.State} {sender : Addr} {funds : List Coin} {id : Nat} {owner : Addr}
    {uri : Option Nat} {ext : Nat} (h : Sys2.step s (.collExec sender funds (.mint id owner uri ext)) = .ok s') :
    ∃ m c, s.mc = some (m, c) ∧ id ∉ c.core.ids := by
  obtain ⟨m, c, v', hmc, _, hv, _⟩ := sys_foreign_mint h
  exact ⟨m, c, hmc, fun hx => (Supply.Coll.mint_spec hv).1 ((mem_tokView_ids c.core id).2 hx)⟩

/-- … part 2: along EVERY history from `init` (any sender, impersonation included) the ids of the collection are duplicate-free —
an id exists at most once at any time, so between two creations of the same id it was burned -/
theorem C09_sys2_created_only_when_absent (height now : Nat) (codes : VF.Codes) (fac : Addr) (p : VF.Params)
    (ops : List Sys2.Op) (m : Sys2.Minter) (c : CF.Coll)
    (h : (Sys2.run (Sys2.init height now codes fac p) ops).mc = some (m, c)) : c.core.ids.Nodup :=
  (C09_sys2_good height now codes fac p ops m c h).1

/-- **a token comes into existence only by a mint of THIS minter**: in a history without impersonation, if an accepted step makes
id `x` exist, the step is the minter's `Mint` / `MintTo` / `MintFor` (`opSub op = .mint …`), `x` is the id its handler picked, it had
never been minted before, it lies in `1..=num_tokens`, and it is logged -/
theorem C09_sys2_creation_is_minter_mint {s s' : Sys2.State} {op : Sys2.Op} {m m' : Sys2.Minter} {c c' : CF.Coll} (hi : SInv s)
    (hno : NoImp s op) (hmc : s.mc = some (m, c)) (h : Sys2.step s op = .ok s') (hmc' : s'.mc = some (m', c')) (x : Nat)
    (hx : x ∈ c'.core.ids) (hnx : x ∉ c.core.ids) :
    ∃ rcpt pk, opSub op = .mint rcpt pk ∧ pickedId m.supply.pos pk = some x ∧ x ∉ m.supply.minted ∧ 1 ≤ x ∧ x ≤ m.supply.n ∧
      m'.supply.minted = x :: m.supply.minted := by
  obtain ⟨m0, c0, hmc0, _, hk⟩ := e2e_step hi hno hmc h
  rw [hmc'] at hmc0
  simp only [Option.some.injEq, Prod.mk.injEq] at hmc0
  obtain ⟨rfl, rfl⟩ := hmc0
  rcases hk with ⟨rcpt, pk, id, h1, h2, h3, _, h5, h6, h7, h8, _⟩ | ⟨_, _, _, _, _, _, ht, _⟩ | ⟨id, _, _, hids, _⟩ |
      ⟨_, hids, _⟩
  · have : x = id := by
      simp only [Sg721.State.ids, h8, List.map_append, List.map_cons, List.map_nil, List.mem_append, List.mem_singleton] at hx
      rcases hx with hx | hx
      · exact absurd hx hnx
      · exact hx
    subst this
    exact ⟨rcpt, pk, h1, h2, h3, h5, h6, h7⟩
  · exact absurd (by simpa [Sg721.State.ids, ht] using hx) hnx
  · rw [hids] at hx; exact absurd (List.mem_filter.mp hx).1 hnx
  · rw [hids] at hx; exact absurd hx hnx

/-- **no id is ever created twice — burn or no burn**: an id the minter has logged that no longer exists in the collection (it
was burned) never exists again, in any continuation without impersonation (`MintFor` of it is refused: it left the position map
when it was minted; nobody else can mint) -/
theorem C01_sys2_never_reminted {s : Sys2.State} (ops : List Sys2.Op) (hi : SInv s) (hno : NoImpRun s ops) (x : Nat)
    (hm : x ∈ mintedOf s) (hx : x ∉ idsOf s) :
    x ∈ mintedOf (Sys2.run s ops) ∧ x ∉ idsOf (Sys2.run s ops) := by
  induction ops generalizing s with
  | nil => exact ⟨hm, hx⟩
  | cons op ops ih =>
    rw [Sys2.run_cons]
    refine ih (sinv_step' op hi hno.1) hno.2 ?_ ?_
    all_goals
      rcases step'_cases s op with ⟨s', hs, hs'⟩ | ⟨_, hs'⟩
      · rw [hs']
        cases hmc : s.mc with
        | none => simp [mintedOf, hmc] at hm
        | some mc =>
          obtain ⟨m, c⟩ := mc
          obtain ⟨m', c', hmc', _, hk⟩ := e2e_step hi hno.1 hmc hs
          simp only [mintedOf, idsOf, hmc, hmc'] at hm hx ⊢
          rcases hk with ⟨_, _, id, _, _, h3, _, _, _, h7, h8, _⟩ | ⟨_, _, _, _, _, _, ht, _, hmm, _⟩ | ⟨id, _, _, hids, _, hmm, _⟩ |
              ⟨_, hids, _, hmm, _⟩
          · first
              | (rw [h7]; exact List.mem_cons_of_mem _ hm)
              | (intro hc
                 simp only [Sg721.State.ids, h8, List.map_append, List.map_cons, List.map_nil, List.mem_append,
                   List.mem_singleton] at hc
                 rcases hc with hc | hc
                 · exact hx hc
                 · subst hc; exact h3 hm)
          · first
              | (rw [hmm]; exact hm)
              | (intro hc; exact hx (by simpa [Sg721.State.ids, ht] using hc))
          · first
              | (rw [hmm]; exact hm)
              | (intro hc; rw [hids] at hc; exact hx (List.mem_filter.mp hc).1)
          · first
              | (rw [hmm]; exact hm)
              | (intro hc; rw [hids] at hc; exact hx hc)
      · rw [hs']
        first | exact hm | exact hx

namespace Sys2

theorem find_append_new (c : Sg721.State) (t : Sg721.Token) (n : Nat) (h : c.find? t.id = none) :
    Sg721.State.find? { c with tokens := c.tokens ++ [t], count := n } t.id = some t := by
  have hn : c.tokens.find? (fun x => decide (x.id = t.id)) = none := h
  simp [Sg721.State.find?, List.find?_append, hn]

theorem qOwnerOf_new (c : CF.Coll) (core' : Sg721.State) (t : Sg721.Token) (b : Sg721.Block) (ie : Bool)
    (hf : core'.find? t.id = some t) (ha : t.approvals = []) :
    CF.qOwnerOf { c with core := core' } b t.id ie = .ok (t.owner, []) := by
  simp [CF.qOwnerOf, CF.getToken, hf, CF.liveApprovals, ha]

theorem qNftInfo_new (c : CF.Coll) (core' : Sg721.State) (t : Sg721.Token) (hf : core'.find? t.id = some t) :
    CF.qNftInfo { c with core := core' } t.id = .ok (t.uri, t.ext) := by
  simp [CF.qNftInfo, CF.getToken, hf]

end Sys2

/-- "the recipient named by an accepted `Mint` / `MintTo` / `MintFor` is the token's owner in the collection right after the
mint" (ALL states): the collection's own `OwnerOf` answers the recipient (no approvals), `NftInfo` the minter's `base/id` URI,
`NumTokens` grew by one, the id was absent, and the collection's cw_ownable owner was the minter contract -/
theorem C09_sys2_mint_recipient_owns {s s' : Sys2.State} {o : Sys.Op} {m : Sys2.Minter} {c : CF.Coll} {rcpt : Addr}
    {pk : VF.Pick} (hsub : subOf o = .mint rcpt pk) (hmc : s.mc = some (m, c)) (h : Sys2.step s (.sys o) = .ok s') (ie : Bool) :
    ∃ id m' c', pickedId m.supply.pos pk = some id ∧ s'.mc = some (m', c') ∧ CF.qOwnerOf c' s'.block id ie = .ok (rcpt, []) ∧
      CF.qNftInfo c' id = .ok (some (URI_BASE + id), 0) ∧ CF.qNumTokens c' = CF.qNumTokens c + 1 ∧ id ∉ c.core.ids ∧
      c.core.ownership.owner = some m.addr := by
  have hp : plainOp o = true := by
    cases o with
    | minter vo => cases vo <;> simp [subOf] at hsub <;> rfl
    | _ => rfl
  rcases step_sys_cases s o with ⟨vo, sender, mm, rfl, hi, _⟩ | ⟨vo, rfl, hc, _⟩ | ⟨_, hst⟩
  · simp [plainOp, hi] at hp
  · simp [plainOp, hc] at hp
  · rw [hst] at h
    obtain ⟨m', c', msg, hmc', _, _, _, _, _, hmsg, hcase⟩ := sysStep_parts hp hmc h
    rw [hsub] at hmsg
    obtain ⟨id, hpick, _, rfl⟩ := subMsg_mint_ok hmsg
    rcases hcase with ⟨hx, _⟩ | ⟨mm, core', hx, hexec, rfl⟩
    · cases hx
    · cases hx
      obtain ⟨_, e⟩ := Sg721.exec_eff' hexec
      simp only [CF.toExec] at e
      cases e with
      | mint _ _ _ _ ho _ hnone =>
        have hf := find_append_new c.core ⟨id, rcpt, [], some (URI_BASE + id), if c.core.kind = .onchain then 0 else 0⟩
          (c.core.count + 1) hnone
        refine ⟨id, m', _, hpick, hmc', ?_, ?_, rfl, (Sg721.find?_none_iff _ _).1 hnone, ho⟩
        · exact qOwnerOf_new c _ _ s'.block ie hf rfl
        · have := qNftInfo_new c _ _ hf
          rw [this]
          simp only [ite_zero]

/-- "…or the creation default": the `start_trading_time` the collection is instantiated with is the minter's bounded / defaulted
value for the factory offset in force at creation -/
theorem C19_sys2_create_trading {s s' : Sys2.State} {sender : Addr} {funds : List Coin} {msg : VF.CreateMsg} {w : VF.CreateWit}
    {ci : CollInit} (h : Sys2.step s (.create sender funds msg w ci) = .ok s') :
    ∃ m c trading, s'.mc = some (m, c) ∧ c.core.info.startTradingTime = trading ∧
      TT.boundedOrDefault msg.startTime s.params.maxTradingOffsetSecs msg.trading = .ok trading ∧
      c.core.ownership = ⟨some m.addr, none, none⟩ ∧ c.core.tokens = [] := by
  obtain ⟨r, vm, core, ck, trading, sup, _, hvm, _, _, _, _, ha, _, _, htr, hcore, rfl⟩ := create_parts h
  obtain ⟨_, ht, _, ho, hinfo, _⟩ := sg_instantiate_ok hcore
  refine ⟨ofVm vm, _, trading, by rw [setSys_mc_some, hvm]; rfl, by rw [hinfo]; rfl, htr, ?_, ht⟩
  rw [ho]
  show (⟨some w.minterAddr, none, none⟩ : Sg721.Ownership) = ⟨some vm.addr, none, none⟩
  rw [ha]

/-- "the collection's `start_trading_time` only ever holds a value the minter validated against the factory offset in force":
in a history without impersonation, a step that changes it is the minter's `UpdateStartTradingTime`, sent by the minter's admin
without funds, whose value passed `tradingUpdateOk` for the offset and mint start of that moment (C19 joined with the
collection's own rule `C19_sys2_direct_needs_owner`) -/
theorem C19_sys2_trading_step {s s' : Sys2.State} {op : Sys2.Op} {m m' : Sys2.Minter} {c c' : CF.Coll} (hi : SInv s)
    (hno : NoImp s op) (hmc : s.mc = some (m, c)) (h : Sys2.step s op = .ok s') (hmc' : s'.mc = some (m', c'))
    (hch : c'.core.info.startTradingTime ≠ c.core.info.startTradingTime) :
    ∃ sender t, op = .sys (.minter (.updateStartTradingTime sender [] t)) ∧ sender = m.admin ∧
      TT.tradingUpdateOk .vending s.now m.startTime s.params.maxTradingOffsetSecs t = true ∧
      c'.core.info.startTradingTime = t := by
  obtain ⟨m0, c0, hmc0, _, hk⟩ := e2e_step hi hno hmc h
  rw [hmc'] at hmc0
  simp only [Option.some.injEq, Prod.mk.injEq] at hmc0
  obtain ⟨rfl, rfl⟩ := hmc0
  rcases hk with ⟨_, _, _, _, _, _, _, _, _, _, _, _, hinfo, _⟩ | ⟨sender, t, h1, h2, h3, h4, _⟩ | ⟨_, _, _, _, _, _, hst⟩ |
      ⟨_, _, _, _, hst⟩
  · exact absurd (by rw [hinfo]) hch
  · exact ⟨sender, t, h1, h2, h3, h4⟩
  · exact absurd hst hch
  · exact absurd hst hch

/-- … over histories: every change of `start_trading_time` along a history without impersonation was validated at its moment -/
theorem C19_sys2_trading_history {s : Sys2.State} (pre : List Sys2.Op) (op : Sys2.Op) (post : List Sys2.Op) (hi : SInv s)
    (hno : NoImpRun s (pre ++ op :: post)) (m m' : Sys2.Minter) (c c' : CF.Coll)
    (hmc : (Sys2.run s pre).mc = some (m, c)) (hmc' : (Sys2.run s (pre ++ [op])).mc = some (m', c'))
    (hch : c'.core.info.startTradingTime ≠ c.core.info.startTradingTime) :
    ∃ sender t, op = .sys (.minter (.updateStartTradingTime sender [] t)) ∧ sender = m.admin ∧
      TT.tradingUpdateOk .vending (Sys2.run s pre).now m.startTime (Sys2.run s pre).params.maxTradingOffsetSecs t = true ∧
      c'.core.info.startTradingTime = t := by
  obtain ⟨hi', hno'⟩ := sinv_prefix pre op post hi hno
  have hrun : Sys2.run s (pre ++ [op]) = Sys2.step' (Sys2.run s pre) op := by
    rw [Sys2.run_append]; rfl
  rw [hrun] at hmc'
  rcases Sys2.step'_cases (Sys2.run s pre) op with ⟨s', hs, hs'⟩ | ⟨_, hs'⟩
  · rw [hs'] at hmc'
    exact C19_sys2_trading_step hi' hno' hmc hs hmc' hch
  · rw [hs', hmc] at hmc'
    simp only [Option.some.injEq, Prod.mk.injEq] at hmc'
    obtain ⟨rfl, rfl⟩ := hmc'
    exact absurd rfl hch

/-- the collection's own auth rule (ALL states): a direct `UpdateStartTradingTime` is accepted only from its cw_ownable owner -/
theorem C19_sys2_direct_needs_owner {s s' : Sys2.State} {sender : Addr} {funds : List Coin} {t : Option Nat}
    (h : Sys2.step s (.collExec sender funds (.updateStartTradingTime t)) = .ok s') :
    ∃ m c, s.mc = some (m, c) ∧ c.core.ownership.owner = some sender := by
  obtain ⟨m, c, b1, core', b2, hmc, _, hex, _, _⟩ := collExec_ok h
  obtain ⟨_, e⟩ := Sg721.exec_eff' hex
  simp only [CF.toExec] at e
  cases e with
  | ustt _ ho => exact ⟨m, c, hmc, ho⟩

/-- "only the minter can mint in the collection for as long as ownership was not handed over" (ALL states): a `Mint` message is
accepted by the collection only from its current cw_ownable owner -/
theorem C05_sys2_mint_needs_owner {s s' : Sys2.State} {sender : Addr} {funds : List Coin} {id : Nat} {owner : Addr}
    {uri : Option Nat} {ext : Nat} (h : Sys2.step s (.collExec sender funds (.mint id owner uri ext)) = .ok s') :
    ∃ m c, s.mc = some (m, c) ∧ c.core.ownership.owner = some sender := by
  obtain ⟨m, c, _, hmc, ho, _, _⟩ := sys_foreign_mint h
  exact ⟨m, c, hmc, ho⟩

/-- "a hand-over needs the minter contract itself to send it" (every `Good` state): a step that changes the collection's
cw_ownable record is an `UpdateOwnership` message addressed to the collection from outside (`collSender op = some sender`), signed
by the current owner (transfer / renounce) or the pending owner (accept). From `⟨minter, nothing pending⟩` that signer is the
minter contract's address. -/
theorem C05_sys2_ownership_change_guard {s s' : Sys2.State} {op : Sys2.Op} {m m' : Sys2.Minter} {c c' : CF.Coll} (hg : Good s)
    (hmc : s.mc = some (m, c)) (h : Sys2.step s op = .ok s') (hmc' : s'.mc = some (m', c'))
    (hch : c'.core.ownership ≠ c.core.ownership) :
    ∃ sender, collSender op = some sender ∧
      (c.core.ownership.owner = some sender ∨ c.core.ownership.pending = some sender) := by
  have hcoll : ∀ {sender funds msg}, collExec s sender funds msg = .ok s' →
      c.core.ownership.owner = some sender ∨ c.core.ownership.pending = some sender := by
    intro sender funds msg hx
    obtain ⟨m0, c0, b1, core', b2, hmc0, _, hex, _, rfl⟩ := collExec_ok hx
    rw [hmc] at hmc0
    simp only [Option.some.injEq, Prod.mk.injEq] at hmc0
    obtain ⟨rfl, rfl⟩ := hmc0
    simp only [Option.some.injEq, Prod.mk.injEq] at hmc'
    obtain ⟨rfl, rfl⟩ := hmc'
    obtain ⟨-, e⟩ := Sg721.exec_eff' hex
    cases msg <;> simp only [CF.toExec] at e
    case updateOwnership a =>
      cases e with
      | ownTransfer _ _ ho _ => exact Or.inl ho
      | ownAccept hp _ => exact Or.inr hp
      | ownRenounce ho => exact Or.inl ho
    all_goals (cases e <;> exact absurd rfl hch)
  have henv : ∀ {cop}, (cop = .migrateUpdatable ∨ cop = .migrateSelf ∨ ∃ v, cop = .setVersion v) → collEnv s cop = .ok s' →
      False := by
    intro cop hop hx
    obtain ⟨m0, c0, c1, hmc0, rfl, hk⟩ := collEnv_parts hx hop
    rw [hmc] at hmc0
    simp only [Option.some.injEq, Prod.mk.injEq] at hmc0
    obtain ⟨rfl, rfl⟩ := hmc0
    simp only [Option.some.injEq, Prod.mk.injEq] at hmc'
    obtain ⟨rfl, rfl⟩ := hmc'
    obtain ⟨_, hl⟩ := hg m c hmc
    rcases hk with ⟨_, hf⟩ | ⟨_, hf⟩ | ⟨v, _, rfl⟩
    · exact hch (migrateUpdatable_view hl hf).2.2.1
    · exact hch (migrateSelf_view hl hf).2.2.1
    · exact hch rfl
  cases op with
  | sys o =>
    rcases step_sys_cases s o with ⟨vo, sender, msg, rfl, hif, hst⟩ | ⟨vo, rfl, _, hst⟩ | ⟨hp, hst⟩
    · rw [hst] at h
      exact ⟨sender, by simp [collSender, hif], hcoll h⟩
    · rw [hst] at h; cases h
    · rw [hst] at h
      obtain ⟨m0, c0, msg, hmc0, _, _, _, _, _, hmsg, hcase⟩ := sysStep_parts hp hmc h
      rw [hmc'] at hmc0
      simp only [Option.some.injEq, Prod.mk.injEq] at hmc0
      obtain ⟨rfl, rfl⟩ := hmc0
      rcases hcase with ⟨_, rfl⟩ | ⟨mm, core', rfl, hex, rfl⟩
      · exact absurd rfl hch
      · exact absurd (sub_ownership (subMsg_shape hmsg) hex) hch
  | create sender funds msg w ci =>
    obtain ⟨_, _, _, _, _, _, _, _, hnone, _⟩ := create_parts h
    rw [hmc] at hnone; cases hnone
  | block hh t =>
    simp only [Sys2.step] at h
    split at h
    · cases h
    · cases h
      rw [hmc] at hmc'
      simp only [Option.some.injEq, Prod.mk.injEq] at hmc'
      obtain ⟨rfl, rfl⟩ := hmc'
      exact absurd rfl hch
  | collExec sender funds msg => exact ⟨sender, rfl, hcoll h⟩
  | collMigrateUpdatable => exact (henv (Or.inl rfl) h).elim
  | collMigrateSelf => exact (henv (Or.inr (Or.inl rfl)) h).elim
  | collSetVersion v => exact (henv (Or.inr (Or.inr ⟨v, rfl⟩)) h).elim

/-- "…which no minter message does": no message handled by the minter, the factory or a whitelist (`collSender op = none`: every
`Mint` / `MintTo` / `MintFor` / `UpdateStartTradingTime` / configuration message, `CreateMinter` once the minter exists, the clock,
the collection's migrations) changes the collection's cw_ownable record -/
theorem C05_sys2_minter_messages_keep_ownership {s s' : Sys2.State} {op : Sys2.Op} {m m' : Sys2.Minter} {c c' : CF.Coll}
    (hg : Good s) (hmc : s.mc = some (m, c)) (h : Sys2.step s op = .ok s') (hmc' : s'.mc = some (m', c'))
    (hns : collSender op = none) : c'.core.ownership = c.core.ownership := by
  cases hd : decide (c'.core.ownership = c.core.ownership) with
  | true => exact of_decide_eq_true hd
  | false =>
    obtain ⟨sender, hs, _⟩ := C05_sys2_ownership_change_guard hg hmc h hmc' (of_decide_eq_false hd)
    rw [hns] at hs; cases hs

/-- **ownership never leaves the minter**: along every history from `init` in which nobody signs a collection message with the
minter contract's address, the collection's cw_ownable record stays `⟨minter contract, nothing pending⟩` — hence (with
`C05_sys2_mint_needs_owner`) nobody but the minter's own sub-message ever mints -/
theorem C05_sys2_ownership_stays (height now : Nat) (codes : VF.Codes) (fac : Addr) (p : VF.Params) (ops : List Sys2.Op)
    (hno : NoImpRun (Sys2.init height now codes fac p) ops) (m : Sys2.Minter) (c : CF.Coll)
    (hmc : (Sys2.run (Sys2.init height now codes fac p) ops).mc = some (m, c)) :
    c.core.ownership = ⟨some m.addr, none, none⟩ :=
  (C01_sys2_invariant height now codes fac p ops hno).own m c hmc

/-! ## Non-vacuity: concrete system-2 histories (kernel-evaluated) -/

namespace Sys2

/-- the system's verdict on every op of a history -/
def verdicts : State → List Op → List Bool
  | _, [] => []
  | s, op :: ops => accepted s op :: verdicts (step' s op) ops

/-- executable form of `NoImp` -/
def noImpB (s : State) (op : Op) : Bool :=
  match s.mc, collSender op with
  | some (m, _), some a => a != m.addr
  | _, _ => true

def noImpRunB : State → List Op → Bool
  | _, [] => true
  | s, op :: ops => noImpB s op && noImpRunB (step' s op) ops

theorem noImp_of_b {s : State} {op : Op} (h : noImpB s op = true) : NoImp s op := by
  intro m c hmc heq
  simp [noImpB, hmc, heq] at h

theorem noImpRun_of_b {s : State} {ops : List Op} (h : noImpRunB s ops = true) : NoImpRun s ops := by
  induction ops generalizing s with
  | nil => trivial
  | cons op ops ih =>
    simp only [noImpRunB, Bool.and_eq_true] at h
    exact ⟨noImp_of_b h.1, ih h.2⟩

end Sys2

def s2T0 : Nat := 1647032400000000000

def s2Params : VF.Params :=
  { codeId := 1, allowed := [16, 17, 18, 19], frozen := false, creationFee := ⟨0, 1000⟩, minMintPrice := ⟨0, 50⟩, mintFeeBps := 1000,
    maxTradingOffsetSecs := 3600, maxTokenLimit := 100, maxPerAddressLimit := 5, airdropMintPrice := ⟨0, 0⟩,
    airdropMintFeeBps := 10000, shuffleFee := ⟨0, 10⟩ }

/-- a fresh chain (block 100) with a vending factory at 1000; code id 1 = `vending-minter`, 16…19 = sg721-base / -updatable / -nt /
-metadata-onchain -/
def s2Init : Sys2.State := Sys2.init 100 s2T0 ⟨[1, 2, 3, 4, 5, 6], [16, 17, 18, 19]⟩ 1000 s2Params

/-- `CreateMinter` by 10: 3 tokens, price 1000, sale at T0+100, collection code `code` with real `collection_params` (the flag
`collOk := false` is ignored: the collection's own `instantiate` decides) -/
def s2Create (code : Nat) : Sys2.Op :=
  .create 10 [⟨0, 1000⟩]
    { collCode := code, creator := 10, trading := none, uriOk := true, paymentAddress := some 12, startTime := s2T0 + 100,
      numTokens := 3, mintPrice := ⟨0, 1000⟩, perAddressLimit := 2, whitelist := none, whitelistValid := true, collOk := false }
    { minterAddr := 1001, collAddr := 1002, perm := [2, 3, 1] }
    { name := 1, symbol := 2, description := ⟨1, 30⟩, image := ⟨0, true⟩, externalLink := none, explicitContent := none,
      royalty := some ⟨40, 50000000000000000⟩ }

/-- fund; create (sg721-base); reach the start; 20 mints (position 2 = id 3); 20 transfers id 3 to 21; 21 burns it; `MintFor` of
the burned id 3 is refused; airdrop to 22 (position 1 = id 2); a stranger's hand-over attempt and direct mint are refused; the
minter's admin moves the trading time (validated); a stranger's direct trading-time update is refused; 22 approves 30, 30
transfers id 2 to 23 -/
def s2Ops : List Sys2.Op :=
  [.sys (.minter (.fund 10 ⟨0, 5000⟩)), .sys (.minter (.fund 20 ⟨0, 5000⟩)),
   s2Create 16,
   .block 101 (s2T0 + 100),
   .sys (.mint 20 [⟨0, 1000⟩] none none none 2),
   .collExec 20 [] (.transferNft 21 3),
   .collExec 21 [] (.burn 3),
   .sys (.minter (.mintFor 10 [] 3 22)),
   .sys (.minter (.mintTo 10 [] 22 1)),
   .collExec 30 [] (.updateOwnership (.transfer 30 none)),
   .collExec 30 [] (.mint 3 30 none 0),
   .sys (.minter (.updateStartTradingTime 10 [] (some (s2T0 + 200)))),
   .collExec 30 [] (.updateStartTradingTime (some 5)),
   .collExec 22 [] (.approve 30 2 none),
   .collExec 30 [] (.transferNft 23 2)]

example : Sys2.verdicts s2Init s2Ops =
    [true, true, true, true, true, true, true, false, true, false, false, true, false, true, true] := by decide

/-- the history is free of impersonation: the hypotheses of the end-to-end theorems are satisfiable -/
example : NoImpRun s2Init s2Ops := Sys2.noImpRun_of_b (by decide)

/-- after the history: the collection holds id 2 (owner 23 after the approved transfer), `NumTokens = 1`; the minter logged ids 2
and 3, one position is left; trading time = the validated value; the cw_ownable owner is still the minter contract 1001 -/
example : (Sys2.run s2Init s2Ops).mc.map (fun mc =>
      (mc.2.core.tokens.map (fun t => (t.id, t.owner, t.uri)), CF.qNumTokens mc.2, mc.1.supply.minted, mc.1.supply.mintable)) =
    some ([(2, 23, some 1000002)], 1, [2, 3], 1) := by decide

example : (Sys2.run s2Init s2Ops).mc.map (fun mc => (mc.2.core.info.startTradingTime, mc.2.core.ownership.owner,
      mc.2.core.ownership.pending)) = some (some (s2T0 + 200), some 1001, none) := by decide

/-- `NumTokens + accepted burns = minted` on this history (1 + 1 = 2) -/
example : (Sys2.numTok (Sys2.run s2Init s2Ops), Sys2.holderBurns s2Init s2Ops, Sys2.mintedLen (Sys2.run s2Init s2Ops)) = (1, 1, 2) := by
  decide

/-- the creation default: `start_time + offset` (3600 s) -/
example : (Sys2.run s2Init (s2Ops.take 3)).mc.map (fun mc => mc.2.core.info.startTradingTime) =
    some (some (s2T0 + 100 + 3600 * 1000000000)) := by decide

/-- the view the minter-side code ran on right after the mint: `collViewOf` of the collection projection -/
example : (collViewOf (cfOf (Sys2.run s2Init (s2Ops.take 5)))).1.toks = [(3, 20)] := by decide

/-- sg721-metadata-onchain (code 19): the minter's `extension: None` does not parse — the mint is refused by the collection and
nothing is charged -/
example : Sys2.verdicts s2Init
    [.sys (.minter (.fund 10 ⟨0, 5000⟩)), .sys (.minter (.fund 20 ⟨0, 5000⟩)), s2Create 19, .block 101 (s2T0 + 100),
     .sys (.mint 20 [⟨0, 1000⟩] none none none 2)] = [true, true, true, true, false] := by decide

/-- with impersonation (cw-multi-test lets the minter ADDRESS sign): ownership handed to 30 and accepted — afterwards the minter's
own mint is refused by the collection, 30 mints directly -/
def s2OpsImp : List Sys2.Op :=
  [.sys (.minter (.fund 10 ⟨0, 5000⟩)), .sys (.minter (.fund 20 ⟨0, 5000⟩)), s2Create 16, .block 101 (s2T0 + 100),
   .collExec 1001 [] (.updateOwnership (.transfer 30 none)),
   .collExec 30 [] (.updateOwnership .accept),
   .sys (.mint 20 [⟨0, 1000⟩] none none none 2),
   .collExec 30 [] (.mint 7 30 none 0)]

example : Sys2.verdicts s2Init s2OpsImp = [true, true, true, true, true, true, false, true] := by decide
example : Sys2.noImpRunB s2Init s2OpsImp = false := by decide

/-- base → updatable migration inside the system: the kind changes, the minter keeps minting -/
example : Sys2.verdicts s2Init
    [.sys (.minter (.fund 10 ⟨0, 5000⟩)), .sys (.minter (.fund 20 ⟨0, 5000⟩)), s2Create 16, .block 101 (s2T0 + 100),
     .collMigrateUpdatable, .collMigrateUpdatable, .sys (.mint 20 [⟨0, 1000⟩] none none none 2)] =
    [true, true, true, true, true, false, true] := by decide

end LP
