import LaunchpadModel.Model.TokenMerge
/-!
# C17 — token-merge mints happen exactly when the required tokens were burned

Property text: *The token-merge minter mints a new token to a recipient exactly when, strictly after the start time,
that recipient has been credited the required number of tokens from every required collection; each deposited token is
burned, deposits from collections that are not required or beyond the required amount are rejected and returned (the
transfer reverts), and the recipient's deposit ledger is reset after each mint. Only a required collection contract can
credit a deposit (a user calling the receive hook directly is rejected), and a recipient at its per-address limit cannot
deposit further.*

Model: `LP.TM` (`Model/TokenMerge.lean`). All theorems quantify over every state / every operation history
(`run s ops`, `ops : List Op` arbitrary: any senders, recipients, collections, token ids, clock values, witnesses).
-/
namespace LP
open LP.TM

/-! ## vocabulary -/

/-- the recipient's ledger row after one more token of collection `c` has been credited -/
def creditRow (s : State) (r c : Addr) : Addr → Nat :=
  upd2 s.ledger r c (s.ledger r c + 1) r

theorem creditRow_apply (s : State) (r c y : Addr) :
    creditRow s r c y = if y = c then s.ledger r c + 1 else s.ledger r y := by
  simp [creditRow, upd2]

/-- "credited the required number of tokens from every required collection" once this deposit is counted -/
def Fulfilled (s : State) (r c : Addr) : Prop :=
  ∀ cn ∈ s.required, cn.2 ≤ creditRow s r c cn.1

theorem allReceived_iff (req : List (Addr × Nat)) (led : Addr → Nat) :
    allReceived req led = true ↔ ∀ cn ∈ req, cn.2 ≤ led cn.1 := by
  simp [allReceived, List.all_eq_true]

theorem allReceived_false_iff (req : List (Addr × Nat)) (led : Addr → Nat) :
    allReceived req led = false ↔ ¬ ∀ cn ∈ req, cn.2 ≤ led cn.1 := by
  rw [← allReceived_iff]; simp

theorem requiredOf_none_iff (req : List (Addr × Nat)) (c : Addr) :
    requiredOf req c = none ↔ c ∉ req.map Prod.fst := by
  induction req with
  | nil => simp [requiredOf]
  | cons a rest ih =>
    obtain ⟨c', n⟩ := a
    by_cases h : c' = c
    · simp [requiredOf, h]
    · simp [requiredOf, h, ih]
      exact fun _ h' => h h'.symm

theorem requiredOf_some_mem {req : List (Addr × Nat)} {c : Addr} {n : Nat} (h : requiredOf req c = some n) :
    (c, n) ∈ req := by
  induction req with
  | nil => simp [requiredOf] at h
  | cons a rest ih =>
    obtain ⟨c', m⟩ := a
    by_cases hc : c' = c
    · simp [requiredOf, hc] at h; simp [hc, h]
    · simp [requiredOf, hc] at h; simp [ih h]

/-- for a requirement vector without repeated collections, `requiredOf` is exactly list membership -/
theorem requiredOf_of_mem_nodup {req : List (Addr × Nat)} (hnd : (req.map Prod.fst).Nodup) {c : Addr} {n : Nat}
    (h : (c, n) ∈ req) : requiredOf req c = some n := by
  induction req with
  | nil => simp at h
  | cons a rest ih =>
    obtain ⟨c', m⟩ := a
    simp only [List.map_cons, List.nodup_cons] at hnd
    simp only [List.mem_cons, Prod.mk.injEq] at h
    rcases h with ⟨rfl, rfl⟩ | h
    · simp [requiredOf]
    · have : c' ≠ c := by
        intro e; subst e
        exact hnd.1 (List.mem_map.mpr ⟨(c', n), h, rfl⟩)
      simp [requiredOf, this, ih hnd.2 h]

/-! ## elimination lemmas (what a successful call implies) -/

theorem pickToken_none_ok {s : State} {picked : Option Nat} {id : Nat} (h : pickToken s none picked = .ok id) :
    picked = some id ∧ id ∈ s.mintable := by
  unfold pickToken at h
  split at h
  · cases h
  · cases picked with
    | none => simp at h
    | some p =>
      simp only at h
      split at h
      · cases h; exact ⟨rfl, by assumption⟩
      · cases h

theorem recv_ok {s : State} {caller sender : Addr} {tid : Nat} {rcp : Option Addr} {picked : Option Nat} {res : Recv}
    (h : executeReceiveNft s caller sender tid rcp picked = .ok res) :
    s.start < s.now ∧ s.mintCount (rcp.getD sender) < s.perAddressLimit ∧
    ∃ amt, requiredOf s.required caller = some amt ∧ s.ledger (rcp.getD sender) caller < amt ∧
      res.burn = (caller, tid) ∧
      ((allReceived s.required (creditRow s (rcp.getD sender) caller) = true ∧
          ∃ id, pickToken s none picked = .ok id ∧ res.mint = some (id, rcp.getD sender) ∧
            res.st = { s with ledger := clearLedger (upd2 s.ledger (rcp.getD sender) caller (s.ledger (rcp.getD sender) caller + 1)) (rcp.getD sender) s.required
                              mintable := s.mintable.erase id
                              mintCount := upd1 s.mintCount (rcp.getD sender) (s.mintCount (rcp.getD sender) + 1) }) ∨
       (allReceived s.required (creditRow s (rcp.getD sender) caller) = false ∧
          res.mint = none ∧
          res.st = { s with ledger := upd2 s.ledger (rcp.getD sender) caller (s.ledger (rcp.getD sender) caller + 1) })) := by
  unfold executeReceiveNft at h
  simp only [] at h
  unfold creditRow
  split at h
  · cases h
  · split at h
    · cases h
    · split at h
      · cases h
      · rename_i amt hreq
        split at h
        · cases h
        · split at h
          · split at h
            · cases h
            · rename_i id hid
              cases h
              refine ⟨by omega, by omega, amt, hreq, by omega, rfl, Or.inl ⟨by assumption, id, hid, rfl, rfl⟩⟩
          · cases h
            refine ⟨by omega, by omega, amt, hreq, by omega, rfl, Or.inr ⟨by rename_i hh; simpa using hh, rfl, rfl⟩⟩

theorem srcTransfer_ok {s s1 : State} {caller c : Addr} {id : Nat} {to : Addr}
    (h : srcTransfer s caller c id to = .ok s1) :
    c ∈ s.colls ∧ canSend s c id caller = true ∧
    s1 = { s with srcOwner := upd2 s.srcOwner c id (some to), srcApproved := upd2 s.srcApproved c id [] } := by
  unfold srcTransfer at h
  split at h
  · rename_i hc; cases h; exact ⟨hc.1, hc.2, rfl⟩
  · cases h

theorem srcBurn_ok {s s1 : State} {caller c : Addr} {id : Nat} (h : srcBurn s caller c id = .ok s1) :
    c ∈ s.colls ∧ canSend s c id caller = true ∧
    s1 = { s with srcOwner := upd2 s.srcOwner c id none, srcApproved := upd2 s.srcApproved c id []
                  srcNum := upd1 s.srcNum c (s.srcNum c - 1) } := by
  unfold srcBurn at h
  split at h
  · rename_i hc; cases h; exact ⟨hc.1, hc.2, rfl⟩
  · cases h

theorem tgtMint_ok {s s1 : State} {id : Nat} {o : Addr} (h : tgtMint s id o = .ok s1) :
    s.tgtOwner id = none ∧ s1 = { s with tgtOwner := upd1 s.tgtOwner id (some o), tgtNum := s.tgtNum + 1 } := by
  unfold tgtMint at h
  split at h
  · cases h
  · rename_i hn; cases h; exact ⟨hn, rfl⟩

theorem runMsgs_ok {res : Recv} {s' : State} (h : runMsgs res = .ok s') :
    ∃ s1, ((res.mint = none ∧ s1 = res.st) ∨ ∃ id o, res.mint = some (id, o) ∧ tgtMint res.st id o = .ok s1) ∧
      srcBurn s1 s1.self res.burn.1 res.burn.2 = .ok s' := by
  unfold runMsgs at h
  cases hm : res.mint with
  | none =>
    simp only [hm] at h
    exact ⟨res.st, Or.inl ⟨rfl, rfl⟩, h⟩
  | some p =>
    obtain ⟨id, o⟩ := p
    simp only [hm] at h
    cases ht : tgtMint res.st id o with
    | error e => simp [ht] at h
    | ok s1 =>
      simp only [ht] at h
      exact ⟨s1, Or.inr ⟨id, o, rfl, ht⟩, h⟩

/-- everything a successful deposit through `SendNft` implies -/
theorem send_ok_full {s s' : State} {caller coll : Addr} {id : Nat} {contract : Addr} {rcp : Option Addr}
    {msgOk : Bool} {picked : Option Nat}
    (h : step s (.send caller coll id contract rcp msgOk picked) = .ok s') :
    s.start < s.now ∧ contract = s.self ∧ msgOk = true ∧ coll ∈ s.colls ∧ canSend s coll id caller = true ∧
    s.mintCount (rcp.getD caller) < s.perAddressLimit ∧
    (∃ amt, requiredOf s.required coll = some amt ∧ s.ledger (rcp.getD caller) coll < amt) ∧
    s'.srcOwner coll id = none ∧ s'.srcNum coll = s.srcNum coll - 1 ∧ s'.required = s.required ∧
    ((Fulfilled s (rcp.getD caller) coll ∧ ∃ tok, tok ∈ s.mintable ∧ picked = some tok ∧ s.tgtOwner tok = none ∧
        s'.tgtOwner = upd1 s.tgtOwner tok (some (rcp.getD caller)) ∧ s'.tgtNum = s.tgtNum + 1 ∧
        s'.mintCount = upd1 s.mintCount (rcp.getD caller) (s.mintCount (rcp.getD caller) + 1) ∧
        s'.mintable = s.mintable.erase tok ∧
        s'.ledger = clearLedger (upd2 s.ledger (rcp.getD caller) coll (s.ledger (rcp.getD caller) coll + 1))
                      (rcp.getD caller) s.required) ∨
     (¬ Fulfilled s (rcp.getD caller) coll ∧ s'.tgtOwner = s.tgtOwner ∧ s'.tgtNum = s.tgtNum ∧
        s'.mintCount = s.mintCount ∧ s'.mintable = s.mintable ∧
        s'.ledger = upd2 s.ledger (rcp.getD caller) coll (s.ledger (rcp.getD caller) coll + 1))) := by
  simp only [step] at h
  cases ht : srcTransfer s caller coll id contract with
  | error e => simp [ht] at h
  | ok s1 =>
    simp only [ht] at h
    obtain ⟨hcoll, hcan, rfl⟩ := srcTransfer_ok ht
    split at h
    · cases h
    · rename_i hguard
      have hcontract : contract = s.self := by
        by_cases hc : contract = s.self
        · exact hc
        · exact absurd (Or.inl hc) hguard
      have hmsg : msgOk = true := by
        cases msgOk with
        | true => rfl
        | false => exact absurd (Or.inr rfl) hguard
      cases hr : executeReceiveNft
          { s with srcOwner := upd2 s.srcOwner coll id (some contract), srcApproved := upd2 s.srcApproved coll id [] }
          coll caller id rcp picked with
      | error e => simp [hr] at h
      | ok res =>
        simp only [hr] at h
        obtain ⟨hstart, hlim, amt, hreq, hled, hburn, hcase⟩ := recv_ok hr
        obtain ⟨s2, hmint, hb⟩ := runMsgs_ok h
        obtain ⟨_, _, rfl⟩ := srcBurn_ok hb
        refine ⟨hstart, hcontract, hmsg, hcoll, hcan, hlim, ⟨amt, hreq, hled⟩, ?_, ?_, ?_, ?_⟩
        · simp [hburn, upd2]
        · simp [hburn, upd1]
          rcases hmint with ⟨_, rfl⟩ | ⟨i, o, _, hm⟩
          · rcases hcase with ⟨_, _, _, _, hst⟩ | ⟨_, _, hst⟩ <;> simp [hst]
          · obtain ⟨_, rfl⟩ := tgtMint_ok hm
            rcases hcase with ⟨_, _, _, _, hst⟩ | ⟨_, _, hst⟩ <;> simp [hst]
        · rcases hmint with ⟨_, rfl⟩ | ⟨i, o, _, hm⟩
          · rcases hcase with ⟨_, _, _, _, hst⟩ | ⟨_, _, hst⟩ <;> simp [hst]
          · obtain ⟨_, rfl⟩ := tgtMint_ok hm
            rcases hcase with ⟨_, _, _, _, hst⟩ | ⟨_, _, hst⟩ <;> simp [hst]
        · rcases hcase with ⟨hall, tok, hpick, hmintmsg, hst⟩ | ⟨hall, hmintmsg, hst⟩
          · left
            obtain ⟨hp, hmem⟩ := pickToken_none_ok hpick
            rcases hmint with ⟨hnone, _⟩ | ⟨i, o, hsome, hm⟩
            · rw [hmintmsg] at hnone; cases hnone
            · rw [hmintmsg] at hsome
              cases hsome
              obtain ⟨hfree, rfl⟩ := tgtMint_ok hm
              refine ⟨(allReceived_iff _ _).mp hall, tok, hmem, hp, ?_, ?_, ?_, ?_, ?_, ?_⟩
              · simpa [hst] using hfree
              · simp [hst]
              · simp [hst]
              · simp [hst]
              · simp [hst]
              · simp [hst]
          · right
            rcases hmint with ⟨_, rfl⟩ | ⟨i, o, hsome, _⟩
            · refine ⟨(allReceived_false_iff _ _).mp hall, ?_, ?_, ?_, ?_, ?_⟩ <;> simp [hst]
            · rw [hmintmsg] at hsome; cases hsome

/-- everything a successful direct `ReceiveNft` call would imply — in particular the burn message has to be
executed by `caller`, so `caller` must be a collection contract -/
theorem receive_ok_full {s s' : State} {caller sender : Addr} {id : Nat} {rcp : Option Addr} {msgOk : Bool}
    {picked : Option Nat} (h : step s (.receive caller sender id rcp msgOk picked) = .ok s') :
    s.start < s.now ∧ caller ∈ s.colls ∧ s.mintCount (rcp.getD sender) < s.perAddressLimit ∧
    (∃ amt, requiredOf s.required caller = some amt ∧ s.ledger (rcp.getD sender) caller < amt) ∧
    canSend s caller id s.self = true := by
  simp only [step] at h
  split at h
  · cases h
  · cases hr : executeReceiveNft s caller sender id rcp picked with
    | error e => simp [hr] at h
    | ok res =>
      simp only [hr] at h
      obtain ⟨hstart, hlim, amt, hreq, hled, hburn, hcase⟩ := recv_ok hr
      obtain ⟨s2, hmint, hb⟩ := runMsgs_ok h
      obtain ⟨hc, hcan, _⟩ := srcBurn_ok hb
      rw [hburn] at hc hcan
      have hs2 : s2.colls = s.colls ∧ s2.self = s.self ∧ s2.srcOwner = s.srcOwner ∧ s2.srcApproved = s.srcApproved ∧
          s2.now = s.now ∧ s2.srcOperators = s.srcOperators := by
        rcases hmint with ⟨_, rfl⟩ | ⟨i, o, _, hm⟩
        · rcases hcase with ⟨_, _, _, _, hst⟩ | ⟨_, _, hst⟩ <;> simp [hst]
        · obtain ⟨_, rfl⟩ := tgtMint_ok hm
          rcases hcase with ⟨_, _, _, _, hst⟩ | ⟨_, _, hst⟩ <;> simp [hst]
      refine ⟨hstart, by simpa [hs2.1] using hc, hlim, ⟨amt, hreq, hled⟩, ?_⟩
      simpa [canSend, hs2.2.1, hs2.2.2.1, hs2.2.2.2.1, hs2.2.2.2.2.1, hs2.2.2.2.2.2] using hcan

/-! ## C17: the clauses -/

/-- *"strictly after the start time … credited … from every required collection … Only a required collection contract
can credit a deposit … a recipient at its per-address limit cannot deposit further"* — the hook accepts a deposit only
if `now > start`, the calling contract is a required collection, the recipient's ledger for it is still below the
required amount, and the recipient's mint count is below the per-address limit. The recipient is the explicit one if
given, otherwise the `sender` field of the `Cw721ReceiveMsg`. -/
theorem C17_deposit_guards {s : State} {caller sender : Addr} {tid : Nat} {rcp : Option Addr} {picked : Option Nat}
    {res : Recv} (h : executeReceiveNft s caller sender tid rcp picked = .ok res) :
    s.start < s.now ∧
    (∃ amt, requiredOf s.required caller = some amt ∧ s.ledger (rcp.getD sender) caller < amt) ∧
    s.mintCount (rcp.getD sender) < s.perAddressLimit := by
  obtain ⟨h1, h2, amt, h3, h4, _⟩ := recv_ok h
  exact ⟨h1, ⟨amt, h3, h4⟩, h2⟩

/-- the same guards for a whole `SendNft` transaction on a source collection, plus: the receiving contract is the
minter, the collection is a contract of this world and the caller was allowed to send the token. -/
theorem C17_deposit_guards_send {s s' : State} {caller coll : Addr} {id : Nat} {contract : Addr} {rcp : Option Addr}
    {msgOk : Bool} {picked : Option Nat} (h : step s (.send caller coll id contract rcp msgOk picked) = .ok s') :
    s.start < s.now ∧ contract = s.self ∧ canSend s coll id caller = true ∧
    (∃ amt, requiredOf s.required coll = some amt ∧ s.ledger (rcp.getD caller) coll < amt) ∧
    s.mintCount (rcp.getD caller) < s.perAddressLimit := by
  obtain ⟨h1, h2, _, _, h5, h6, h7, _⟩ := send_ok_full h
  exact ⟨h1, h2, h5, h7, h6⟩

/-- *"mints a new token to a recipient exactly when … that recipient has been credited the required number of tokens
from every required collection"* — hook level: an accepted deposit carries a `Mint` message (to the recipient) iff,
counting this deposit, every entry of the requirement vector is covered. -/
theorem C17_mint_iff {s : State} {caller sender : Addr} {tid : Nat} {rcp : Option Addr} {picked : Option Nat}
    {res : Recv} (h : executeReceiveNft s caller sender tid rcp picked = .ok res) :
    (∃ tok, res.mint = some (tok, rcp.getD sender)) ↔ Fulfilled s (rcp.getD sender) caller := by
  obtain ⟨_, _, amt, _, _, _, hcase⟩ := recv_ok h
  rcases hcase with ⟨hall, tok, _, hm, _⟩ | ⟨hall, hm, _⟩
  · exact ⟨fun _ => (allReceived_iff _ _).mp hall, fun _ => ⟨tok, hm⟩⟩
  · constructor
    · rintro ⟨tok, ht⟩; rw [hm] at ht; cases ht
    · intro hf; exact absurd hf ((allReceived_false_iff _ _).mp hall)

/-- a `Mint` message of an accepted deposit never goes to anybody but the recipient -/
theorem C17_mint_to_recipient {s : State} {caller sender : Addr} {tid : Nat} {rcp : Option Addr} {picked : Option Nat}
    {res : Recv} (h : executeReceiveNft s caller sender tid rcp picked = .ok res) {tok : Nat} {o : Addr}
    (hm : res.mint = some (tok, o)) : o = rcp.getD sender ∧ tok ∈ s.mintable := by
  obtain ⟨_, _, amt, _, _, _, hcase⟩ := recv_ok h
  rcases hcase with ⟨_, tok', hp, hm', _⟩ | ⟨_, hm', _⟩
  · rw [hm'] at hm; cases hm
    exact ⟨rfl, (pickToken_none_ok hp).2⟩
  · rw [hm'] at hm; cases hm

/-- world level, whole transaction: after an accepted `SendNft` deposit the minter's collection has one more token
— owned by the recipient, previously mintable and not existing, the recipient's mint count goes up by one, the supply
counter down by one — **iff** the requirement is fulfilled; otherwise nothing is minted and exactly one credit is added. -/
theorem C17_send_mint_iff {s s' : State} {caller coll : Addr} {id : Nat} {contract : Addr} {rcp : Option Addr}
    {msgOk : Bool} {picked : Option Nat} (h : step s (.send caller coll id contract rcp msgOk picked) = .ok s') :
    (s'.tgtNum = s.tgtNum + 1 ↔ Fulfilled s (rcp.getD caller) coll) ∧
    (Fulfilled s (rcp.getD caller) coll →
      ∃ tok, tok ∈ s.mintable ∧ s.tgtOwner tok = none ∧ s'.tgtOwner tok = some (rcp.getD caller) ∧
        (∀ t, t ≠ tok → s'.tgtOwner t = s.tgtOwner t) ∧
        s'.mintCount (rcp.getD caller) = s.mintCount (rcp.getD caller) + 1 ∧
        s'.mintable.length + 1 = s.mintable.length) ∧
    (¬ Fulfilled s (rcp.getD caller) coll →
      s'.tgtNum = s.tgtNum ∧ s'.tgtOwner = s.tgtOwner ∧ s'.mintCount = s.mintCount ∧ s'.mintable = s.mintable ∧
      s'.ledger (rcp.getD caller) coll = s.ledger (rcp.getD caller) coll + 1) := by
  obtain ⟨_, _, _, _, _, _, _, _, _, _, hcase⟩ := send_ok_full h
  rcases hcase with ⟨hf, tok, hmem, _, hfree, hto, htn, hmc, hmt, _⟩ | ⟨hnf, hto, htn, hmc, hmt, hl⟩
  · refine ⟨⟨fun _ => hf, fun _ => htn⟩, fun _ => ⟨tok, hmem, hfree, ?_, ?_, ?_, ?_⟩, fun hn => absurd hf hn⟩
    · simp [hto, upd1]
    · intro t ht; simp [hto, upd1, ht]
    · simp [hmc, upd1]
    · rw [hmt, List.length_erase_of_mem hmem]
      have : 0 < s.mintable.length := List.length_pos_of_mem hmem
      omega
  · refine ⟨⟨fun e => ?_, fun hf => absurd hf hnf⟩, fun hf => absurd hf hnf, fun _ => ⟨htn, hto, hmc, hmt, ?_⟩⟩
    · omega
    · simp [hl, upd2]

/-- completeness (the "exactly when" direction for acceptance): a deposit that satisfies the guards **is** accepted by
the hook — provided that, if it completes the requirement, there is supply left and the random choice is a mintable id. -/
theorem C17_deposit_accepted {s : State} {caller sender : Addr} {tid : Nat} {rcp : Option Addr} {picked : Option Nat}
    {amt : Nat} (hstart : s.start < s.now) (hreq : requiredOf s.required caller = some amt)
    (hled : s.ledger (rcp.getD sender) caller < amt) (hlim : s.mintCount (rcp.getD sender) < s.perAddressLimit)
    (hsupply : Fulfilled s (rcp.getD sender) caller → ∃ tok, picked = some tok ∧ tok ∈ s.mintable) :
    ∃ res, executeReceiveNft s caller sender tid rcp picked = .ok res := by
  unfold executeReceiveNft
  simp only [hreq]
  rw [if_neg (by omega), if_neg (by omega), if_neg (by omega)]
  by_cases hall : allReceived s.required (upd2 s.ledger (rcp.getD sender) caller (s.ledger (rcp.getD sender) caller + 1) (rcp.getD sender)) = true
  · rw [if_pos hall]
    obtain ⟨tok, rfl, hmem⟩ := hsupply ((allReceived_iff _ _).mp hall)
    have hne : s.mintable ≠ [] := List.ne_nil_of_mem hmem
    simp [pickToken, hne, hmem]
  · rw [if_neg hall]
    exact ⟨_, rfl⟩

/-- *"each deposited token is burned"* — hook level: every accepted deposit answers with `Burn{token_id}` addressed to
the contract that called the hook, for exactly the token it was handed. -/
theorem C17_burn_each {s : State} {caller sender : Addr} {tid : Nat} {rcp : Option Addr} {picked : Option Nat}
    {res : Recv} (h : executeReceiveNft s caller sender tid rcp picked = .ok res) :
    res.burn = (caller, tid) := by
  obtain ⟨_, _, _, _, _, hb, _⟩ := recv_ok h
  exact hb

/-- world level: after an accepted `SendNft` deposit the token no longer exists in its source collection and that
collection's token count went down by one (the burn sub-message was executed in the same transaction). -/
theorem C17_burn_each_send {s s' : State} {caller coll : Addr} {id : Nat} {contract : Addr} {rcp : Option Addr}
    {msgOk : Bool} {picked : Option Nat} (h : step s (.send caller coll id contract rcp msgOk picked) = .ok s') :
    s'.srcOwner coll id = none ∧ s'.srcNum coll = s.srcNum coll - 1 ∧ (∃ o, s.srcOwner coll id = some o) := by
  obtain ⟨_, _, _, _, hcan, _, _, h1, h2, _⟩ := send_ok_full h
  refine ⟨h1, h2, ?_⟩
  unfold canSend at hcan
  cases ho : s.srcOwner coll id with
  | none => simp [ho] at hcan
  | some o => exact ⟨o, rfl⟩

/-! ### rejections: each one fails the whole transaction, which therefore changes nothing -/

/-- a failed operation changes nothing — in particular the token of a rejected deposit stays with its owner and no
ledger entry moves (CosmWasm reverts the enclosing `SendNft` together with the failed hook). NOTE: this merely unfolds
the definition of `step'`; transaction atomicity is a TRUSTED fact about CosmWasm, validated on the real `App` by the
harness monitor `rejected-deposit-changed-state` after every rejected deposit — not something proved here. -/
theorem C17_rejected_unchanged {s : State} {op : Op} {e : Err} (h : step s op = .error e) : step' s op = s := by
  simp [step', h]

/-- *"a user calling the receive hook directly is rejected"*: whoever signs a transaction that calls `ReceiveNft` on
the minter is an account, not one of the collection contracts — and is rejected, whatever `sender`, token id and
recipient it claims; even when the account's address was (mis)configured as a "required collection".
NOTE: the hypothesis `caller ∉ s.colls` is an ENVIRONMENT fact of the model (which addresses are cw721 contracts), not
mechanism state; for a caller outside the requirement vector the mechanism alone rejects
(`C17_direct_receive_rejected_unrequired`); for the mis-configured account the rejection comes from the `Burn` message
that cannot be executed by an account — validated by the harness (`weird5/6`, `stuck*` cases), trusted in the proof. -/
theorem C17_direct_receive_rejected {s : State} {caller sender : Addr} {id : Nat} {rcp : Option Addr} {msgOk : Bool}
    {picked : Option Nat} (huser : caller ∉ s.colls) :
    ∃ e, step s (.receive caller sender id rcp msgOk picked) = .error e := by
  cases h : step s (.receive caller sender id rcp msgOk picked) with
  | error e => exact ⟨e, rfl⟩
  | ok s' => exact absurd (receive_ok_full h).2.1 huser

/-- a collection contract that is not in the requirement vector cannot credit anything, neither through `SendNft`
nor by any call reaching the hook -/
theorem C17_foreign_collection_rejected {s : State} {caller coll : Addr} {id : Nat} {contract : Addr}
    {rcp : Option Addr} {msgOk : Bool} {picked : Option Nat} (hforeign : coll ∉ s.required.map Prod.fst) :
    (∃ e, step s (.send caller coll id contract rcp msgOk picked) = .error e) ∧
    (∀ sender, ∃ e, executeReceiveNft s coll sender id rcp picked = .error e) := by
  have hnone := (requiredOf_none_iff s.required coll).mpr hforeign
  constructor
  · cases h : step s (.send caller coll id contract rcp msgOk picked) with
    | error e => exact ⟨e, rfl⟩
    | ok s' =>
      obtain ⟨_, _, _, _, _, _, ⟨amt, hreq, _⟩, _⟩ := send_ok_full h
      rw [hnone] at hreq; cases hreq
  · intro sender
    cases h : executeReceiveNft s coll sender id rcp picked with
    | error e => exact ⟨e, rfl⟩
    | ok res =>
      obtain ⟨_, ⟨amt, hreq, _⟩, _⟩ := C17_deposit_guards h
      rw [hnone] at hreq; cases hreq

/-- *"deposits … beyond the required amount are rejected"* -/
theorem C17_surplus_rejected {s : State} {caller coll : Addr} {id : Nat} {contract : Addr} {rcp : Option Addr}
    {msgOk : Bool} {picked : Option Nat} {amt : Nat} (hreq : requiredOf s.required coll = some amt)
    (hfull : amt ≤ s.ledger (rcp.getD caller) coll) :
    ∃ e, step s (.send caller coll id contract rcp msgOk picked) = .error e := by
  cases h : step s (.send caller coll id contract rcp msgOk picked) with
  | error e => exact ⟨e, rfl⟩
  | ok s' =>
    obtain ⟨_, _, _, _, _, _, ⟨amt', hreq', hlt⟩, _⟩ := send_ok_full h
    rw [hreq] at hreq'; cases hreq'; omega

/-- *"a recipient at its per-address limit cannot deposit further"* -/
theorem C17_limit_rejected {s : State} {caller coll : Addr} {id : Nat} {contract : Addr} {rcp : Option Addr}
    {msgOk : Bool} {picked : Option Nat} (hlimit : s.perAddressLimit ≤ s.mintCount (rcp.getD caller)) :
    ∃ e, step s (.send caller coll id contract rcp msgOk picked) = .error e := by
  cases h : step s (.send caller coll id contract rcp msgOk picked) with
  | error e => exact ⟨e, rfl⟩
  | ok s' =>
    obtain ⟨_, _, _, _, _, hlt, _⟩ := send_ok_full h
    omega

/-- *"strictly after the start time"*: at the start instant itself (and before) every deposit is rejected -/
theorem C17_not_after_start_rejected {s : State} {caller coll : Addr} {id : Nat} {contract : Addr} {rcp : Option Addr}
    {msgOk : Bool} {picked : Option Nat} (hearly : s.now ≤ s.start) :
    ∃ e, step s (.send caller coll id contract rcp msgOk picked) = .error e := by
  cases h : step s (.send caller coll id contract rcp msgOk picked) with
  | error e => exact ⟨e, rfl⟩
  | ok s' =>
    obtain ⟨hlt, _⟩ := send_ok_full h
    omega

/-- the final deposit of a set is rejected when nothing is left to mint (so the token is not burned for nothing) -/
theorem C17_sold_out_rejected {s : State} {caller coll : Addr} {id : Nat} {contract : Addr} {rcp : Option Addr}
    {msgOk : Bool} {picked : Option Nat} (hsold : s.mintable = []) (hf : Fulfilled s (rcp.getD caller) coll) :
    ∃ e, step s (.send caller coll id contract rcp msgOk picked) = .error e := by
  cases h : step s (.send caller coll id contract rcp msgOk picked) with
  | error e => exact ⟨e, rfl⟩
  | ok s' =>
    obtain ⟨_, _, _, _, _, _, _, _, _, _, hcase⟩ := send_ok_full h
    rcases hcase with ⟨_, tok, hmem, _⟩ | ⟨hnf, _⟩
    · rw [hsold] at hmem; cases hmem
    · exact absurd hf hnf

/-- *"rejected and returned (the transfer reverts)"*: in each of the rejection cases the state after the transaction
is the state before it — the token is still owned by whoever owned it, no ledger entry, counter or supply moved. -/
theorem C17_rejected_token_stays {s : State} {caller coll : Addr} {id : Nat} {contract : Addr} {rcp : Option Addr}
    {msgOk : Bool} {picked : Option Nat}
    (hrej : coll ∉ s.required.map Prod.fst ∨ s.now ≤ s.start ∨ s.perAddressLimit ≤ s.mintCount (rcp.getD caller) ∨
      (∃ amt, requiredOf s.required coll = some amt ∧ amt ≤ s.ledger (rcp.getD caller) coll) ∨
      (s.mintable = [] ∧ Fulfilled s (rcp.getD caller) coll) ∨ contract ≠ s.self ∨ msgOk = false) :
    step' s (.send caller coll id contract rcp msgOk picked) = s ∧
    (step' s (.send caller coll id contract rcp msgOk picked)).srcOwner coll id = s.srcOwner coll id := by
  have herr : ∃ e, step s (.send caller coll id contract rcp msgOk picked) = .error e := by
    rcases hrej with h | h | h | ⟨amt, h1, h2⟩ | ⟨h1, h2⟩ | h | h
    · exact (C17_foreign_collection_rejected h).1
    · exact C17_not_after_start_rejected h
    · exact C17_limit_rejected h
    · exact C17_surplus_rejected h1 h2
    · exact C17_sold_out_rejected h1 h2
    · cases hs : step s (.send caller coll id contract rcp msgOk picked) with
      | error e => exact ⟨e, rfl⟩
      | ok s' => exact absurd (send_ok_full hs).2.1 h
    · cases hs : step s (.send caller coll id contract rcp msgOk picked) with
      | error e => exact ⟨e, rfl⟩
      | ok s' => rw [(send_ok_full hs).2.2.1] at h; cases h
  obtain ⟨e, he⟩ := herr
  have := C17_rejected_unchanged he
  exact ⟨this, by rw [this]⟩

/-! ### histories -/

/-- invariant lifting: a predicate preserved by every successful step holds after every history -/
theorem run_induction {P : State → Prop} (hstep : ∀ s op s', P s → step s op = .ok s' → P s') :
    ∀ (ops : List Op) (s : State), P s → P (run s ops) := by
  intro ops
  induction ops with
  | nil => intro s h; exact h
  | cons op rest ih =>
    intro s h
    simp only [run, List.foldl_cons]
    apply ih
    unfold step'
    cases hs : step s op with
    | error e => exact h
    | ok s' => exact hstep s op s' h hs

/-- how a successful step can change the ledger: not at all, or by one accepted `execute_receive_nft` on a state with
the same requirement vector and ledger -/
theorem step_ledger_cases {s s' : State} {op : Op} (h : step s op = .ok s') :
    s'.required = s.required ∧
    (s'.ledger = s.ledger ∨
      ∃ (s1 : State) (caller sender : Addr) (tid : Nat) (rcp : Option Addr) (picked : Option Nat) (res : Recv),
        s1.required = s.required ∧ s1.ledger = s.ledger ∧
        executeReceiveNft s1 caller sender tid rcp picked = .ok res ∧ s'.ledger = res.st.ledger) := by
  cases op with
  | setTime t => simp only [step] at h; cases h; exact ⟨rfl, Or.inl rfl⟩
  | give coll id to =>
    simp only [step] at h
    split at h
    · cases h; exact ⟨rfl, Or.inl rfl⟩
    · cases h
  | transfer caller coll id to =>
    simp only [step] at h
    obtain ⟨_, _, rfl⟩ := srcTransfer_ok h
    exact ⟨rfl, Or.inl rfl⟩
  | approve caller coll id spender expires =>
    simp only [step] at h
    split at h
    · cases h; exact ⟨rfl, Or.inl rfl⟩
    · cases h
  | revoke caller coll id spender =>
    simp only [step] at h
    split at h
    · cases h; exact ⟨rfl, Or.inl rfl⟩
    · cases h
  | approveAll caller coll operator expires =>
    simp only [step] at h
    split at h
    · cases h; exact ⟨rfl, Or.inl rfl⟩
    · cases h
  | revokeAll caller coll operator =>
    simp only [step] at h
    split at h
    · cases h; exact ⟨rfl, Or.inl rfl⟩
    · cases h
  | send caller coll id contract rcp msgOk picked =>
    simp only [step] at h
    cases ht : srcTransfer s caller coll id contract with
    | error e => simp [ht] at h
    | ok s1 =>
      simp only [ht] at h
      obtain ⟨_, _, hs1⟩ := srcTransfer_ok ht
      split at h
      · cases h
      · cases hr : executeReceiveNft s1 coll caller id rcp picked with
        | error e => simp [hr] at h
        | ok res =>
          simp only [hr] at h
          obtain ⟨_, _, amt, _, _, _, hcase⟩ := recv_ok hr
          obtain ⟨s2, hmint, hb⟩ := runMsgs_ok h
          obtain ⟨_, _, rfl⟩ := srcBurn_ok hb
          have hreq1 : s1.required = s.required := by rw [hs1]
          have hled1 : s1.ledger = s.ledger := by rw [hs1]
          have hres : res.st.required = s1.required := by
            rcases hcase with ⟨_, _, _, _, hst⟩ | ⟨_, _, hst⟩ <;> simp [hst]
          have hs2 : s2.required = res.st.required ∧ s2.ledger = res.st.ledger := by
            rcases hmint with ⟨_, rfl⟩ | ⟨i, o, _, hm⟩
            · exact ⟨rfl, rfl⟩
            · obtain ⟨_, rfl⟩ := tgtMint_ok hm; exact ⟨rfl, rfl⟩
          refine ⟨?_, Or.inr ⟨s1, coll, caller, id, rcp, picked, res, hreq1, hled1, hr, ?_⟩⟩
          · simp [hs2.1, hres, hreq1]
          · simp [hs2.2]
  | receive caller sender id rcp msgOk picked =>
    simp only [step] at h
    split at h
    · cases h
    · cases hr : executeReceiveNft s caller sender id rcp picked with
      | error e => simp [hr] at h
      | ok res =>
        simp only [hr] at h
        obtain ⟨_, _, amt, _, _, _, hcase⟩ := recv_ok hr
        obtain ⟨s2, hmint, hb⟩ := runMsgs_ok h
        obtain ⟨_, _, rfl⟩ := srcBurn_ok hb
        have hres : res.st.required = s.required := by
          rcases hcase with ⟨_, _, _, _, hst⟩ | ⟨_, _, hst⟩ <;> simp [hst]
        have hs2 : s2.required = res.st.required ∧ s2.ledger = res.st.ledger := by
          rcases hmint with ⟨_, rfl⟩ | ⟨i, o, _, hm⟩
          · exact ⟨rfl, rfl⟩
          · obtain ⟨_, rfl⟩ := tgtMint_ok hm; exact ⟨rfl, rfl⟩
        refine ⟨?_, Or.inr ⟨s, caller, sender, id, rcp, picked, res, rfl, rfl, hr, ?_⟩⟩
        · simp [hs2.1, hres]
        · simp [hs2.2]
  | mintTo caller recipient pay w picked =>
    simp only [step, adminMint] at h
    split at h
    · cases h
    · split at h
      · cases h
      · split at h
        · cases h
        · obtain ⟨_, rfl⟩ := tgtMint_ok h; exact ⟨rfl, Or.inl rfl⟩
  | mintFor caller id recipient pay w =>
    simp only [step, adminMint] at h
    split at h
    · cases h
    · split at h
      · cases h
      · split at h
        · cases h
        · obtain ⟨_, rfl⟩ := tgtMint_ok h; exact ⟨rfl, Or.inl rfl⟩
  | setStart caller t w =>
    simp only [step] at h
    repeat' split at h
    all_goals first | cases h | skip
    all_goals first | exact ⟨rfl, Or.inl rfl⟩ | skip
  | setLimit caller n w =>
    simp only [step] at h
    repeat' split at h
    all_goals first | cases h | skip
    all_goals first | exact ⟨rfl, Or.inl rfl⟩ | skip
  | purge caller w =>
    simp only [step] at h
    repeat' split at h
    all_goals first | cases h | skip
    all_goals first | exact ⟨rfl, Or.inl rfl⟩ | skip
  | burnRemaining caller w =>
    simp only [step] at h
    repeat' split at h
    all_goals first | cases h | skip
    all_goals first | exact ⟨rfl, Or.inl rfl⟩ | skip
  | noise w =>
    simp only [step] at h
    repeat' split at h
    all_goals first | cases h | skip
    all_goals first | exact ⟨rfl, Or.inl rfl⟩ | skip

/-- the ledger invariant: nobody is ever credited more than the requirement vector asks from a collection
(and nothing at all for a collection that is not in it) -/
def LedgerBounded (s : State) : Prop :=
  ∀ r c, s.ledger r c ≤ (requiredOf s.required c).getD 0

theorem recv_ledgerBounded {s : State} {caller sender : Addr} {tid : Nat} {rcp : Option Addr} {picked : Option Nat}
    {res : Recv} (h : executeReceiveNft s caller sender tid rcp picked = .ok res) (hb : LedgerBounded s) :
    ∀ r c, res.st.ledger r c ≤ (requiredOf s.required c).getD 0 := by
  obtain ⟨_, _, amt, hreq, hled, _, hcase⟩ := recv_ok h
  intro r c
  have hb' := hb r c
  rcases hcase with ⟨_, _, _, _, hst⟩ | ⟨_, _, hst⟩
  · simp only [hst, clearLedger, upd2]
    split
    · omega
    · split
      · rename_i hrc; obtain ⟨rfl, rfl⟩ := hrc; simp [hreq]; omega
      · exact hb'
  · simp only [hst, upd2]
    split
    · rename_i hrc; obtain ⟨rfl, rfl⟩ := hrc; simp [hreq]; omega
    · exact hb'

theorem step_ledgerBounded (s : State) (op : Op) (s' : State) (hb : LedgerBounded s) (h : step s op = .ok s') :
    LedgerBounded s' := by
  obtain ⟨hreq, hl | ⟨s1, caller, sender, tid, rcp, picked, res, hr1, hl1, hr, hl⟩⟩ := step_ledger_cases h
  · intro r c; rw [hreq, hl]; exact hb r c
  · intro r c
    rw [hreq, hl, ← hr1]
    apply recv_ledgerBounded hr
    intro r c; rw [hr1, hl1]; exact hb r c

theorem step_required (s : State) (op : Op) (s' : State) (h : step s op = .ok s') : s'.required = s.required :=
  (step_ledger_cases h).1

theorem run_required (ops : List Op) (s : State) : (run s ops).required = s.required :=
  run_induction (P := fun x => x.required = s.required) (fun a op b ha hs => by rw [step_required a op b hs, ha])
    ops s rfl

/-- **`C17_ledger_bounded`** — for ALL operation histories from any state whose ledger is bounded (e.g. the empty
ledger of a fresh minter): every ledger entry is at most the amount required from that collection; entries for
collections outside the requirement vector are 0. -/
theorem C17_ledger_bounded (s0 : State) (h0 : LedgerBounded s0) (ops : List Op) (r c : Addr) :
    (run s0 ops).ledger r c ≤ (requiredOf s0.required c).getD 0 := by
  have := run_induction (P := LedgerBounded) step_ledgerBounded ops s0 h0 r c
  rwa [run_required] at this

/-- instance for a freshly created minter, any configuration -/
theorem C17_ledger_bounded_init (self admin : Addr) (colls : List Addr) (req : List (Addr × Nat))
    (start limit n maxLimit price now : Nat) (ops : List Op) (r c : Addr) :
    (run (init self admin colls req start limit n maxLimit price now) ops).ledger r c ≤ (requiredOf req c).getD 0 :=
  C17_ledger_bounded _ (fun _ _ => Nat.zero_le _) ops r c

/-- corollary: nothing is ever credited for a collection that is not required -/
theorem C17_ledger_only_required (s0 : State) (h0 : LedgerBounded s0) (ops : List Op) (r c : Addr)
    (hforeign : c ∉ s0.required.map Prod.fst) : (run s0 ops).ledger r c = 0 := by
  have := C17_ledger_bounded s0 h0 ops r c
  rw [(requiredOf_none_iff _ _).mpr hforeign] at this
  simpa using this

/-- *"the recipient's deposit ledger is reset after each mint"* — for DEPOSIT-TRIGGERED mints, in every reachable state:
when a deposit mints, the recipient's whole ledger row is zero afterwards (entries of required collections are removed
by the mint, entries of other collections never exist). The admin's airdrops (`MintTo` / `MintFor`) are mints too and by
design do NOT reset anything (`C17_admin_mint_frame`, `C17_reset_after_each_mint_counterexample`): "each mint" in the
text is therefore only proved — and only true of the code — for mints caused by deposits; the airdrop case is recorded
as an observation (DESIGN 13.3), not a finding. PARTIAL statement of the clause (hence the name). -/
theorem C17_reset_after_each_mint_partial (s0 : State) (h0 : LedgerBounded s0) (ops : List Op) {s' : State} {caller coll : Addr} {id : Nat}
    {contract : Addr} {rcp : Option Addr} {msgOk : Bool} {picked : Option Nat}
    (h : step (run s0 ops) (.send caller coll id contract rcp msgOk picked) = .ok s')
    (hminted : s'.tgtNum = (run s0 ops).tgtNum + 1) : ∀ c, s'.ledger (rcp.getD caller) c = 0 := by
  intro c
  have hbound := run_induction (P := LedgerBounded) step_ledgerBounded ops s0 h0
  obtain ⟨_, _, _, _, _, _, _, _, _, _, hcase⟩ := send_ok_full h
  rcases hcase with ⟨_, tok, _, _, _, _, _, _, _, hl⟩ | ⟨_, _, htn, _⟩
  · rw [hl]
    simp only [clearLedger]
    by_cases hc : c ∈ (run s0 ops).required.map Prod.fst
    · simp [hc]
    · have hz : (run s0 ops).ledger (rcp.getD caller) c = 0 := by
        have := hbound (rcp.getD caller) c
        rw [(requiredOf_none_iff _ _).mpr hc] at this
        simpa using this
      have hne : c ≠ coll := by
        intro e; subst e
        obtain ⟨_, _, _, _, _, _, ⟨amt, hreq, _⟩, _⟩ := send_ok_full h
        rw [(requiredOf_none_iff _ _).mpr hc] at hreq; cases hreq
      simp [hc, upd2, hne, hz]
  · omega

/-- alias of `C17_reset_after_each_mint_partial` (kept because other modules refer to it) -/
theorem C17_reset (s0 : State) (h0 : LedgerBounded s0) (ops : List Op) {s' : State} {caller coll : Addr} {id : Nat}
    {contract : Addr} {rcp : Option Addr} {msgOk : Bool} {picked : Option Nat}
    (h : step (run s0 ops) (.send caller coll id contract rcp msgOk picked) = .ok s')
    (hminted : s'.tgtNum = (run s0 ops).tgtNum + 1) : ∀ c, s'.ledger (rcp.getD caller) c = 0 :=
  C17_reset_after_each_mint_partial s0 h0 ops h hminted

/-- the reset at hook level, for the required collections, in any state -/
theorem C17_reset_hook {s : State} {caller sender : Addr} {tid : Nat} {rcp : Option Addr} {picked : Option Nat}
    {res : Recv} (h : executeReceiveNft s caller sender tid rcp picked = .ok res) {tok : Nat} {o : Addr}
    (hm : res.mint = some (tok, o)) : ∀ c ∈ s.required.map Prod.fst, res.st.ledger (rcp.getD sender) c = 0 := by
  obtain ⟨_, _, amt, _, _, _, hcase⟩ := recv_ok h
  rcases hcase with ⟨_, _, _, _, hst⟩ | ⟨_, hm', _⟩
  · intro c hc; simp [hst, clearLedger, hc]
  · rw [hm'] at hm; cases hm

/-- no recipient ever *sits* on a fully credited ledger: as soon as the last required token is credited the mint
happens in the same transaction and consumes the ledger. ("requirements met ⇒ minted", for all histories.) -/
def NoPending (s : State) : Prop := ∀ r, allReceived s.required (s.ledger r) = false

theorem step_noPending (hpos : ∃ cn ∈ (s : State).required, 0 < cn.2) (op : Op) (s' : State)
    (hp : NoPending s) (h : step s op = .ok s') : NoPending s' := by
  obtain ⟨hreq, hl | ⟨s1, caller, sender, tid, rcp, picked, res, hr1, hl1, hr, hl⟩⟩ := step_ledger_cases h
  · intro r; rw [hreq, hl]; exact hp r
  · intro r
    rw [hreq, hl, ← hr1]
    obtain ⟨_, _, amt, _, _, _, hcase⟩ := recv_ok hr
    have hp1 : ∀ x, allReceived s1.required (s1.ledger x) = false := by
      intro x; rw [hr1, hl1]; exact hp x
    rcases hcase with ⟨_, _, _, _, hst⟩ | ⟨hall, _, hst⟩
    · by_cases hrr : r = rcp.getD sender
      · subst hrr
        obtain ⟨cn, hmem, hpos'⟩ := hpos
        rw [← hr1] at hmem
        rw [allReceived_false_iff]
        intro hall
        have := hall cn hmem
        have hc : cn.1 ∈ s1.required.map Prod.fst := List.mem_map.mpr ⟨cn, hmem, rfl⟩
        simp [hst, clearLedger, hc] at this
        omega
      · have : res.st.ledger r = s1.ledger r := by
          funext y; simp [hst, clearLedger, upd2, hrr]
        rw [this]; exact hp1 r
    · by_cases hrr : r = rcp.getD sender
      · subst hrr
        simpa [hst, creditRow] using hall
      · have : res.st.ledger r = s1.ledger r := by
          funext y; simp [hst, upd2, hrr]
        rw [this]; exact hp1 r

/-- **for all histories** of a minter whose requirement vector asks for at least one token: in no reachable state is
any address credited the full requirement (so "requirement met" and "minted" can never come apart). -/
theorem C17_no_pending_mint (s0 : State) (hpos : ∃ cn ∈ s0.required, 0 < cn.2) (h0 : NoPending s0) (ops : List Op)
    (r : Addr) : ¬ ∀ cn ∈ s0.required, cn.2 ≤ (run s0 ops).ledger r cn.1 := by
  have key : ∀ (ops : List Op) (s : State), (s.required = s0.required ∧ NoPending s) →
      ((run s ops).required = s0.required ∧ NoPending (run s ops)) :=
    run_induction (P := fun x => x.required = s0.required ∧ NoPending x) (fun a op b ha hs => by
      refine ⟨by rw [step_required a op b hs, ha.1], step_noPending (s := a) ?_ op b ha.2 hs⟩
      rw [ha.1]; exact hpos)
  obtain ⟨hreq, hnp⟩ := key ops s0 ⟨rfl, h0⟩
  have := hnp r
  rw [hreq, allReceived_false_iff] at this
  exact this

/-- instance: fresh minter with a requirement vector in which some amount is positive -/
theorem C17_no_pending_mint_init (self admin : Addr) (colls : List Addr) (req : List (Addr × Nat))
    (start limit n maxLimit price now : Nat) (hpos : ∃ cn ∈ req, 0 < cn.2) (ops : List Op) (r : Addr) :
    ¬ ∀ cn ∈ req, cn.2 ≤ (run (init self admin colls req start limit n maxLimit price now) ops).ledger r cn.1 := by
  apply C17_no_pending_mint (init self admin colls req start limit n maxLimit price now) hpos _ ops r
  intro r
  rw [allReceived_false_iff]
  intro hall
  obtain ⟨cn, hmem, hp⟩ := hpos
  have := hall cn hmem
  simp [init] at this
  omega

/-! ### who can mint at all -/

/-- *"mints … exactly when"*, the other direction: the minter's collection changes only through (a) a deposit that
fulfils the requirement — `send`, or `receive` which additionally needs a collection contract as caller — or (b) the
admin's `MintTo` / `MintFor`. No other operation, by anybody, mints. -/
theorem C17_mint_only_via_deposit_or_admin {s s' : State} {op : Op} (h : step s op = .ok s')
    (hchg : s'.tgtNum ≠ s.tgtNum ∨ s'.tgtOwner ≠ s.tgtOwner) :
    (∃ caller coll id contract rcp msgOk picked, op = .send caller coll id contract rcp msgOk picked ∧
        Fulfilled s (rcp.getD caller) coll) ∨
    (∃ caller sender id rcp msgOk picked, op = .receive caller sender id rcp msgOk picked ∧ caller ∈ s.colls) ∨
    (∃ recipient pay picked, op = .mintTo s.admin recipient pay true picked) ∨
    (∃ id recipient pay, op = .mintFor s.admin id recipient pay true) := by
  cases op with
  | setTime t => simp only [step] at h; cases h; simp at hchg
  | give coll id to =>
    simp only [step] at h
    split at h
    · cases h; simp at hchg
    · cases h
  | transfer caller coll id to =>
    simp only [step] at h
    obtain ⟨_, _, rfl⟩ := srcTransfer_ok h
    simp at hchg
  | approve caller coll id spender expires =>
    simp only [step] at h
    split at h
    · cases h; simp at hchg
    · cases h
  | revoke caller coll id spender =>
    simp only [step] at h
    split at h
    · cases h; simp at hchg
    · cases h
  | approveAll caller coll operator expires =>
    simp only [step] at h
    split at h
    · cases h; simp at hchg
    · cases h
  | revokeAll caller coll operator =>
    simp only [step] at h
    split at h
    · cases h; simp at hchg
    · cases h
  | send caller coll id contract rcp msgOk picked =>
    left
    refine ⟨caller, coll, id, contract, rcp, msgOk, picked, rfl, ?_⟩
    obtain ⟨_, _, _, _, _, _, _, _, _, _, hcase⟩ := send_ok_full h
    rcases hcase with ⟨hf, _⟩ | ⟨_, hto, htn, _⟩
    · exact hf
    · rcases hchg with hc | hc
      · exact absurd htn hc
      · exact absurd hto hc
  | receive caller sender id rcp msgOk picked =>
    right; left
    exact ⟨caller, sender, id, rcp, msgOk, picked, rfl, (receive_ok_full h).2.1⟩
  | mintTo caller recipient pay w picked =>
    right; right; left
    simp only [step, adminMint] at h
    split at h
    · cases h
    · rename_i hc
      have : caller = s.admin := by
        by_cases e : caller = s.admin
        · exact e
        · exact absurd e hc
      subst this
      cases w with
      | false => simp at h
      | true => exact ⟨recipient, pay, picked, rfl⟩
  | mintFor caller id recipient pay w =>
    right; right; right
    simp only [step, adminMint] at h
    split at h
    · cases h
    · rename_i hc
      have : caller = s.admin := by
        by_cases e : caller = s.admin
        · exact e
        · exact absurd e hc
      subst this
      cases w with
      | false => simp at h
      | true => exact ⟨id, recipient, pay, rfl⟩
  | setStart caller t w =>
    simp only [step] at h
    repeat' split at h
    all_goals first | cases h | skip
    all_goals simp at hchg
  | setLimit caller n w =>
    simp only [step] at h
    repeat' split at h
    all_goals first | cases h | skip
    all_goals simp at hchg
  | purge caller w =>
    simp only [step] at h
    repeat' split at h
    all_goals first | cases h | skip
    all_goals simp at hchg
  | burnRemaining caller w =>
    simp only [step] at h
    repeat' split at h
    all_goals first | cases h | skip
    all_goals simp at hchg
  | noise w =>
    simp only [step] at h
    repeat' split at h
    all_goals first | cases h | skip
    all_goals simp at hchg

/-- the admin's airdrops (`MintTo` / `MintFor`) never touch the deposit ledger (they neither need nor consume
credits), are reserved to the admin, and count towards the RECIPIENT's per-address counter — so an airdropped
recipient may thereby reach its limit and be unable to deposit (`C17_limit_rejected`). -/
theorem C17_admin_mint_frame {s s' : State} {caller recipient : Addr} {tokenId : Option Nat} {w : Bool}
    {picked : Option Nat} (h : adminMint s caller recipient tokenId w picked = .ok s') :
    caller = s.admin ∧ s'.ledger = s.ledger ∧ s'.mintCount recipient = s.mintCount recipient + 1 ∧
    s'.tgtNum = s.tgtNum + 1 := by
  unfold adminMint at h
  split at h
  · cases h
  · rename_i hc
    split at h
    · cases h
    · split at h
      · cases h
      · obtain ⟨_, rfl⟩ := tgtMint_ok h
        refine ⟨?_, rfl, by simp [upd1], rfl⟩
        by_cases e : caller = s.admin
        · exact e
        · exact absurd e hc

/-! ### conservation over histories -/

/-- which ledger cell an operation tries to credit: (recipient, collection) -/
def depositOf : Op → Option (Addr × Addr)
  | .send caller coll _ _ rcp _ _ => some (rcp.getD caller, coll)
  | .receive caller sender _ rcp _ _ => some (rcp.getD sender, caller)
  | _ => none

theorem runMsgs_frame {res : Recv} {s' : State} (h : runMsgs res = .ok s') :
    s'.ledger = res.st.ledger ∧ s'.required = res.st.required ∧ s'.mintCount = res.st.mintCount ∧
    s'.tgtNum = (match res.mint with | none => res.st.tgtNum | some _ => res.st.tgtNum + 1) := by
  obtain ⟨s2, hmint, hb⟩ := runMsgs_ok h
  obtain ⟨_, _, rfl⟩ := srcBurn_ok hb
  rcases hmint with ⟨hn, rfl⟩ | ⟨i, o, hs, hm⟩
  · simp [hn]
  · obtain ⟨_, rfl⟩ := tgtMint_ok hm
    simp [hs]

/-- a successful step either is no deposit and leaves the ledger alone, or is one accepted `execute_receive_nft`
(on a state with the same minter data) followed by the dispatch of its messages -/
theorem step_cases {s s' : State} {op : Op} (h : step s op = .ok s') :
    (depositOf op = none ∧ s'.ledger = s.ledger ∧ s'.required = s.required) ∨
    ∃ (s1 : State) (caller sender : Addr) (tid : Nat) (rcp : Option Addr) (picked : Option Nat) (res : Recv),
      depositOf op = some (rcp.getD sender, caller) ∧
      s1.required = s.required ∧ s1.ledger = s.ledger ∧ s1.tgtNum = s.tgtNum ∧ s1.mintCount = s.mintCount ∧
      executeReceiveNft s1 caller sender tid rcp picked = .ok res ∧ runMsgs res = .ok s' := by
  cases op with
  | setTime t => simp only [step] at h; cases h; exact Or.inl ⟨rfl, rfl, rfl⟩
  | give coll id to =>
    simp only [step] at h
    split at h
    · cases h; exact Or.inl ⟨rfl, rfl, rfl⟩
    · cases h
  | transfer caller coll id to =>
    simp only [step] at h
    obtain ⟨_, _, rfl⟩ := srcTransfer_ok h
    exact Or.inl ⟨rfl, rfl, rfl⟩
  | approve caller coll id spender expires =>
    simp only [step] at h
    split at h
    · cases h; exact Or.inl ⟨rfl, rfl, rfl⟩
    · cases h
  | revoke caller coll id spender =>
    simp only [step] at h
    split at h
    · cases h; exact Or.inl ⟨rfl, rfl, rfl⟩
    · cases h
  | approveAll caller coll operator expires =>
    simp only [step] at h
    split at h
    · cases h; exact Or.inl ⟨rfl, rfl, rfl⟩
    · cases h
  | revokeAll caller coll operator =>
    simp only [step] at h
    split at h
    · cases h; exact Or.inl ⟨rfl, rfl, rfl⟩
    · cases h
  | send caller coll id contract rcp msgOk picked =>
    simp only [step] at h
    cases ht : srcTransfer s caller coll id contract with
    | error e => simp [ht] at h
    | ok s1 =>
      simp only [ht] at h
      obtain ⟨_, _, hs1⟩ := srcTransfer_ok ht
      split at h
      · cases h
      · cases hr : executeReceiveNft s1 coll caller id rcp picked with
        | error e => simp [hr] at h
        | ok res =>
          simp only [hr] at h
          exact Or.inr ⟨s1, coll, caller, id, rcp, picked, res, rfl, by rw [hs1], by rw [hs1], by rw [hs1], by rw [hs1], hr, h⟩
  | receive caller sender id rcp msgOk picked =>
    simp only [step] at h
    split at h
    · cases h
    · cases hr : executeReceiveNft s caller sender id rcp picked with
      | error e => simp [hr] at h
      | ok res =>
        simp only [hr] at h
        exact Or.inr ⟨s, caller, sender, id, rcp, picked, res, rfl, rfl, rfl, rfl, rfl, hr, h⟩
  | mintTo caller recipient pay w picked =>
    simp only [step, adminMint] at h
    split at h
    · cases h
    · split at h
      · cases h
      · split at h
        · cases h
        · obtain ⟨_, rfl⟩ := tgtMint_ok h; exact Or.inl ⟨rfl, rfl, rfl⟩
  | mintFor caller id recipient pay w =>
    simp only [step, adminMint] at h
    split at h
    · cases h
    · split at h
      · cases h
      · split at h
        · cases h
        · obtain ⟨_, rfl⟩ := tgtMint_ok h; exact Or.inl ⟨rfl, rfl, rfl⟩
  | setStart caller t w =>
    simp only [step] at h
    repeat' split at h
    all_goals first | cases h | skip
    all_goals first | exact Or.inl ⟨rfl, rfl, rfl⟩ | skip
  | setLimit caller n w =>
    simp only [step] at h
    repeat' split at h
    all_goals first | cases h | skip
    all_goals first | exact Or.inl ⟨rfl, rfl, rfl⟩ | skip
  | purge caller w =>
    simp only [step] at h
    repeat' split at h
    all_goals first | cases h | skip
    all_goals first | exact Or.inl ⟨rfl, rfl, rfl⟩ | skip
  | burnRemaining caller w =>
    simp only [step] at h
    repeat' split at h
    all_goals first | cases h | skip
    all_goals first | exact Or.inl ⟨rfl, rfl, rfl⟩ | skip
  | noise w =>
    simp only [step] at h
    repeat' split at h
    all_goals first | cases h | skip
    all_goals first | exact Or.inl ⟨rfl, rfl, rfl⟩ | skip

/-- ghost bookkeeping over a history (specification only, not part of the executable model):
`credited r c` = number of accepted deposits of collection `c` for recipient `r` (each one burned a token,
`C17_burn_each`), `dmints r` = number of deposit-triggered mints to `r` -/
structure Ghost where
  credited : Addr → Addr → Nat
  dmints : Addr → Nat

def stepG (sg : State × Ghost) (op : Op) : State × Ghost :=
  match step sg.1 op with
  | .error _ => sg
  | .ok s' =>
    match depositOf op with
    | none => (s', sg.2)
    | some (r, c) =>
      (s', { credited := upd2 sg.2.credited r c (sg.2.credited r c + 1)
             dmints := if s'.tgtNum = sg.1.tgtNum then sg.2.dmints else upd1 sg.2.dmints r (sg.2.dmints r + 1) })

def runG (sg : State × Ghost) (ops : List Op) : State × Ghost := ops.foldl stepG sg

theorem runG_fst (ops : List Op) (sg : State × Ghost) : (runG sg ops).1 = run sg.1 ops := by
  induction ops generalizing sg with
  | nil => rfl
  | cons op rest ih =>
    simp only [runG, run, List.foldl_cons]
    have := ih (stepG sg op)
    simp only [runG, run] at this
    rw [this]
    congr 1
    unfold stepG step'
    cases step sg.1 op with
    | error e => rfl
    | ok s' => cases depositOf op <;> rfl

def Conserved (sg : State × Ghost) : Prop :=
  LedgerBounded sg.1 ∧
  ∀ r c, sg.2.credited r c = (requiredOf sg.1.required c).getD 0 * sg.2.dmints r + sg.1.ledger r c

theorem stepG_conserved (sg : State × Ghost) (op : Op) (hc : Conserved sg) : Conserved (stepG sg op) := by
  obtain ⟨s, g⟩ := sg
  obtain ⟨hb, hcons⟩ := hc
  unfold stepG
  cases hs : step s op with
  | error e => exact ⟨hb, hcons⟩
  | ok s' =>
    have hb' := step_ledgerBounded s op s' hb hs
    rcases step_cases hs with ⟨hd, hl, hreq⟩ | ⟨s1, caller, sender, tid, rcp, picked, res, hd, hr1, hl1, ht1, _, hr, hm⟩
    · simp only [hd]
      refine ⟨hb', fun r c => ?_⟩
      simp only [hl, hreq]; exact hcons r c
    · simp only [hd]
      refine ⟨hb', fun x y => ?_⟩
      obtain ⟨hl', hreq', _, htn'⟩ := runMsgs_frame hm
      obtain ⟨_, _, amt, hreq, hled, _, hcase⟩ := recv_ok hr
      have hcx := hcons x y
      have hbx := hb x y
      simp only at hcx hbx ⊢
      rw [hr1] at hreq
      rw [hl1] at hled
      rcases hcase with ⟨hall, tok, _, hmint, hst⟩ | ⟨hall, hmint, hst⟩
      · -- the deposit fulfilled the requirement and minted
        have hful := (allReceived_iff _ _).mp hall
        rw [hr1] at hful
        have htn : s'.tgtNum ≠ s.tgtNum := by
          rw [htn', hmint]; simp [hst, ht1]
        have hreqs : s'.required = s.required := by rw [hreq']; simp [hst, hr1]
        simp only [htn, if_false, hreqs]
        rw [hl']
        simp only [hst, clearLedger, upd2, upd1, hl1, hr1]
        by_cases hx : x = rcp.getD sender
        · subst hx
          by_cases hy : y ∈ s.required.map Prod.fst
          · simp only [hy, and_self, if_true]
            cases hro : requiredOf s.required y with
            | none => exact absurd hy ((requiredOf_none_iff _ _).mp hro)
            | some n =>
              rw [hro] at hcx hbx
              simp only [Option.getD_some] at hcx hbx ⊢
              have hmem := requiredOf_some_mem hro
              have hfy := hful (y, n) hmem
              simp only [creditRow_apply, hl1] at hfy
              by_cases hyc : y = caller
              · subst hyc
                rw [hreq] at hro; cases hro
                simp only [if_true] at hfy ⊢
                simp only [and_self, if_true]
                rw [Nat.mul_succ]; omega
              · simp only [hyc, if_false, and_false] at hfy ⊢
                rw [Nat.mul_succ]; omega
          · have hyc : y ≠ caller := by
              intro e; subst e
              rw [(requiredOf_none_iff _ _).mpr hy] at hreq; cases hreq
            simp only [hy, and_false, if_false, hyc]
            rw [(requiredOf_none_iff _ _).mpr hy] at hcx ⊢
            simp only [Option.getD_none, Nat.zero_mul, Nat.zero_add] at hcx ⊢
            exact hcx
        · simp only [hx, false_and, if_false]
          exact hcx
      · -- a plain credit
        have htn : s'.tgtNum = s.tgtNum := by
          rw [htn', hmint]; simp [hst, ht1]
        have hreqs : s'.required = s.required := by rw [hreq']; simp [hst, hr1]
        simp only [htn, if_true, hreqs]
        rw [hl']
        simp only [hst, upd2, hl1]
        by_cases hxy : x = rcp.getD sender ∧ y = caller
        · simp only [hxy, and_self, if_true]
          obtain ⟨rfl, rfl⟩ := hxy
          omega
        · simp only [hxy, if_false]
          exact hcx

/-- **conservation, for ALL histories**: the number of tokens of collection `c` deposited (and burned) for recipient
`r` always equals `required c × (deposit-triggered mints to r) + (r's current ledger entry for c)` — every
deposit-triggered mint was paid for with exactly the required number of burned tokens from every required collection,
never more, never fewer, and nothing else was ever credited. -/
theorem C17_conservation (s0 : State) (h0 : ∀ r c, s0.ledger r c = 0) (ops : List Op) (r c : Addr) :
    (runG (s0, ⟨fun _ _ => 0, fun _ => 0⟩) ops).2.credited r c =
      (requiredOf s0.required c).getD 0 * (runG (s0, ⟨fun _ _ => 0, fun _ => 0⟩) ops).2.dmints r +
        (run s0 ops).ledger r c := by
  have key : ∀ (ops : List Op) (sg : State × Ghost), Conserved sg → Conserved (runG sg ops) := by
    intro ops
    induction ops with
    | nil => intro sg h; exact h
    | cons op rest ih =>
      intro sg h
      simp only [runG, List.foldl_cons]
      exact ih _ (stepG_conserved sg op h)
  have hc : Conserved (s0, ⟨fun _ _ => 0, fun _ => 0⟩) :=
    ⟨fun r c => by rw [h0]; exact Nat.zero_le _, fun r c => by simp [h0]⟩
  have := (key ops _ hc).2 r c
  rw [runG_fst] at this
  simpa [run_required] using this


/-! ### round 3: frames, the start time over histories, and what the literal text does NOT get -/

/-- frame: only a deposit (`send` / `receive`) can change the ledger or the requirement vector. In particular the
witnessed operations (`setStart`, `setLimit`, `purge`, `burnRemaining`, admin mints), the cw721 traffic on the source
collections and everything outside the mechanism (`noise`: Shuffle, UpdateStartTradingTime, sudo, migrate, unknown
message variants) leave every ledger entry alone. (For `noise` this is what the model ASSUMES; the harness validates it
on the real contract with the monitors `ledger-changed-outside-deposit` / `ledger-query-differs`.) -/
theorem C17_ledger_only_via_deposit {s s' : State} {op : Op} (h : step s op = .ok s') (hnd : depositOf op = none) :
    s'.ledger = s.ledger ∧ s'.required = s.required := by
  rcases step_cases h with ⟨_, hl, hr⟩ | ⟨s1, caller, sender, tid, rcp, picked, res, hd, _⟩
  · exact ⟨hl, hr⟩
  · rw [hnd] at hd; cases hd

/-- an operation outside the mechanism changes nothing at all -/
theorem C17_noise_frame {s s' : State} {w : Bool} (h : step s (.noise w) = .ok s') : s' = s := by
  simp only [step] at h
  split at h
  · cases h
  · cases h; rfl

/-- the mechanism-only half of *"a user calling the receive hook directly is rejected"*: whoever calls the hook without
being named in the requirement vector is rejected by `execute_receive_nft` itself (`InvalidCollection`) — no assumption
about which addresses are contracts. (`C17_direct_receive_rejected` covers the remaining case — an ACCOUNT that was
configured as a "required collection" — through the environment fact `caller ∉ s.colls`: the `Burn` message sent back to
it cannot execute. That half is validated by the harness's `weird` cases only.) -/
theorem C17_direct_receive_rejected_unrequired {s : State} {caller sender : Addr} {id : Nat} {rcp : Option Addr}
    {msgOk : Bool} {picked : Option Nat} (hnot : caller ∉ s.required.map Prod.fst) :
    ∃ e, step s (.receive caller sender id rcp msgOk picked) = .error e := by
  cases h : step s (.receive caller sender id rcp msgOk picked) with
  | error e => exact ⟨e, rfl⟩
  | ok s' =>
    obtain ⟨_, _, _, ⟨amt, hreq, _⟩, _⟩ := receive_ok_full h
    rw [(requiredOf_none_iff _ _).mpr hnot] at hreq; cases hreq

theorem recv_clock {s : State} {caller sender : Addr} {tid : Nat} {rcp : Option Addr} {picked : Option Nat}
    {res : Recv} (h : executeReceiveNft s caller sender tid rcp picked = .ok res) :
    res.st.now = s.now ∧ res.st.start = s.start := by
  obtain ⟨_, _, amt, _, _, _, hcase⟩ := recv_ok h
  rcases hcase with ⟨_, _, _, _, hst⟩ | ⟨_, _, hst⟩ <;> simp [hst]

theorem runMsgs_clock {res : Recv} {s' : State} (h : runMsgs res = .ok s') :
    s'.now = res.st.now ∧ s'.start = res.st.start := by
  obtain ⟨s2, hmint, hb⟩ := runMsgs_ok h
  obtain ⟨_, _, rfl⟩ := srcBurn_ok hb
  rcases hmint with ⟨_, rfl⟩ | ⟨i, o, _, hm⟩
  · exact ⟨rfl, rfl⟩
  · obtain ⟨_, rfl⟩ := tgtMint_ok hm; exact ⟨rfl, rfl⟩

/-- how a successful step moves the clock and the start time: the clock only by `setTime`, the start time only by a
`setStart` issued strictly BEFORE the start time in force (`AlreadyStarted` otherwise) -/
theorem step_clock {s s' : State} {op : Op} (h : step s op = .ok s') :
    (s'.now = s.now ∨ ∃ t, op = .setTime t ∧ s'.now = t) ∧
    (s'.start = s.start ∨ ∃ caller t, op = .setStart caller t true ∧ s.now < s.start ∧ s'.start = t) := by
  cases op with
  | setTime t => simp only [step] at h; cases h; exact ⟨Or.inr ⟨t, rfl, rfl⟩, Or.inl rfl⟩
  | give coll id to =>
    simp only [step] at h
    split at h
    · cases h; exact ⟨Or.inl rfl, Or.inl rfl⟩
    · cases h
  | transfer caller coll id to =>
    simp only [step] at h
    obtain ⟨_, _, rfl⟩ := srcTransfer_ok h
    exact ⟨Or.inl rfl, Or.inl rfl⟩
  | approve caller coll id spender expires =>
    simp only [step] at h
    split at h
    · cases h; exact ⟨Or.inl rfl, Or.inl rfl⟩
    · cases h
  | revoke caller coll id spender =>
    simp only [step] at h
    split at h
    · cases h; exact ⟨Or.inl rfl, Or.inl rfl⟩
    · cases h
  | approveAll caller coll operator expires =>
    simp only [step] at h
    split at h
    · cases h; exact ⟨Or.inl rfl, Or.inl rfl⟩
    · cases h
  | revokeAll caller coll operator =>
    simp only [step] at h
    split at h
    · cases h; exact ⟨Or.inl rfl, Or.inl rfl⟩
    · cases h
  | send caller coll id contract rcp msgOk picked =>
    simp only [step] at h
    cases ht : srcTransfer s caller coll id contract with
    | error e => simp [ht] at h
    | ok s1 =>
      simp only [ht] at h
      obtain ⟨_, _, hs1⟩ := srcTransfer_ok ht
      split at h
      · cases h
      · cases hr : executeReceiveNft s1 coll caller id rcp picked with
        | error e => simp [hr] at h
        | ok res =>
          simp only [hr] at h
          obtain ⟨h1, h2⟩ := recv_clock hr
          obtain ⟨h3, h4⟩ := runMsgs_clock h
          refine ⟨Or.inl ?_, Or.inl ?_⟩
          · rw [h3, h1, hs1]
          · rw [h4, h2, hs1]
  | receive caller sender id rcp msgOk picked =>
    simp only [step] at h
    split at h
    · cases h
    · cases hr : executeReceiveNft s caller sender id rcp picked with
      | error e => simp [hr] at h
      | ok res =>
        simp only [hr] at h
        obtain ⟨h1, h2⟩ := recv_clock hr
        obtain ⟨h3, h4⟩ := runMsgs_clock h
        exact ⟨Or.inl (by rw [h3, h1]), Or.inl (by rw [h4, h2])⟩
  | mintTo caller recipient pay w picked =>
    simp only [step, adminMint] at h
    split at h
    · cases h
    · split at h
      · cases h
      · split at h
        · cases h
        · obtain ⟨_, rfl⟩ := tgtMint_ok h; exact ⟨Or.inl rfl, Or.inl rfl⟩
  | mintFor caller id recipient pay w =>
    simp only [step, adminMint] at h
    split at h
    · cases h
    · split at h
      · cases h
      · split at h
        · cases h
        · obtain ⟨_, rfl⟩ := tgtMint_ok h; exact ⟨Or.inl rfl, Or.inl rfl⟩
  | setStart caller t w =>
    simp only [step] at h
    split at h
    · cases h
    · rename_i hw
      split at h
      · cases h
      · rename_i hlt
        cases h
        have : w = true := by cases w <;> simp_all
        subst this
        exact ⟨Or.inl rfl, Or.inr ⟨caller, t, rfl, by omega, rfl⟩⟩
  | setLimit caller n w =>
    simp only [step] at h
    split at h
    · cases h
    · cases h; exact ⟨Or.inl rfl, Or.inl rfl⟩
  | purge caller w =>
    simp only [step] at h
    split at h
    · cases h
    · cases h; exact ⟨Or.inl rfl, Or.inl rfl⟩
  | burnRemaining caller w =>
    simp only [step] at h
    split at h
    · cases h
    · cases h; exact ⟨Or.inl rfl, Or.inl rfl⟩
  | noise w =>
    simp only [step] at h
    split at h
    · cases h
    · cases h; exact ⟨Or.inl rfl, Or.inl rfl⟩

/-- block time never runs backwards along the history (a fact about chains; cw-multi-test would allow otherwise) -/
def clockMono : Nat → List Op → Prop
  | _, [] => True
  | now, .setTime t :: rest => now ≤ t ∧ clockMono t rest
  | now, _ :: rest => clockMono now rest

/-- deposits are open: strictly after the start time -/
def Started (s : State) : Prop := s.start < s.now

/-- one step under a forward-moving clock: once deposits are open they stay open and the start time is frozen -/
theorem step'_started {s : State} {op : Op} (hs : Started s) (hm : clockMono s.now [op]) :
    (step' s op).start = s.start ∧ Started (step' s op) := by
  unfold step'
  cases h : step s op with
  | error e => exact ⟨rfl, hs⟩
  | ok s' =>
    obtain ⟨hnow, hstart⟩ := step_clock h
    have hst : s'.start = s.start := by
      rcases hstart with e | ⟨_, _, _, hlt, _⟩
      · exact e
      · unfold Started at hs; omega
    refine ⟨hst, ?_⟩
    unfold Started at *
    rcases hnow with e | ⟨t, rfl, e⟩
    · rw [hst, e]; exact hs
    · simp only [clockMono] at hm
      rw [hst, e]; omega

theorem step'_now (s : State) (op : Op) :
    (step' s op).now = (match op with | .setTime t => t | _ => s.now) := by
  unfold step'
  cases h : step s op with
  | error e =>
    cases op <;> simp_all [step]
  | ok s' =>
    obtain ⟨hnow, _⟩ := step_clock h
    rcases hnow with e | ⟨t, rfl, e⟩
    · cases op with
      | setTime t => simp only [step] at h; cases h; rfl
      | _ => simpa using e
    · simpa using e

theorem clockMono_cons {now : Nat} {op : Op} {rest : List Op} (h : clockMono now (op :: rest)) (s : State)
    (hn : s.now = now) : clockMono s.now [op] ∧ clockMono (step' s op).now rest := by
  rw [step'_now, hn]
  cases op <;> simp_all [clockMono]

/-- *"strictly after the start time"*, over histories: once the start time has passed, NO later operation by anybody
(in particular no `UpdateStartTime`) moves it, and deposits stay open — for every history whose clock runs forward. -/
theorem C17_start_frozen_once_started (s : State) (hs : s.start < s.now) (ops : List Op) (hm : clockMono s.now ops) :
    (run s ops).start = s.start ∧ (run s ops).start < (run s ops).now := by
  induction ops generalizing s with
  | nil => exact ⟨rfl, hs⟩
  | cons op rest ih =>
    obtain ⟨h1, h2⟩ := clockMono_cons hm s rfl
    obtain ⟨hst, hstarted⟩ := step'_started (s := s) hs h1
    simp only [run, List.foldl_cons]
    have := ih (step' s op) hstarted h2
    simp only [run] at this
    exact ⟨by rw [this.1, hst], this.2⟩

/-- a pending credit exists only once deposits are open -/
def CreditsAfterStart (s : State) : Prop := (∃ r c, 0 < s.ledger r c) → Started s

theorem step'_creditsAfterStart {s : State} {op : Op} (hi : CreditsAfterStart s) (hm : clockMono s.now [op]) :
    CreditsAfterStart (step' s op) := by
  by_cases hs : Started s
  · intro _; exact (step'_started hs hm).2
  · have hz : ∀ r c, s.ledger r c = 0 := by
      intro r c
      by_cases h0 : 0 < s.ledger r c
      · exact absurd (hi ⟨r, c, h0⟩) hs
      · omega
    unfold step'
    cases h : step s op with
    | error e => exact hi
    | ok s' =>
      intro ⟨r, c, hpos⟩
      exfalso
      cases hd : depositOf op with
      | none =>
        rw [(C17_ledger_only_via_deposit h hd).1, hz] at hpos
        omega
      | some rc =>
        cases op <;> simp [depositOf] at hd
        · exact hs (send_ok_full h).1
        · exact hs (receive_ok_full h).1

/-- **every credited ledger entry was credited strictly after the start time in force** — for all histories (forward
clock) of a minter that starts with an empty ledger: whenever some `ledger r c > 0`, the clock is past the start time. -/
theorem C17_credit_after_start (s0 : State) (h0 : ∀ r c, s0.ledger r c = 0) (ops : List Op)
    (hm : clockMono s0.now ops) (r c : Addr) (hpos : 0 < (run s0 ops).ledger r c) :
    (run s0 ops).start < (run s0 ops).now := by
  have key : ∀ (ops : List Op) (s : State), CreditsAfterStart s → clockMono s.now ops → CreditsAfterStart (run s ops) := by
    intro ops
    induction ops with
    | nil => intro s h _; exact h
    | cons op rest ih =>
      intro s h hm
      obtain ⟨h1, h2⟩ := clockMono_cons hm s rfl
      simp only [run, List.foldl_cons]
      exact ih (step' s op) (step'_creditsAfterStart h h1) h2
  have hi : CreditsAfterStart s0 := by
    intro ⟨r, c, h⟩; rw [h0] at h; omega
  exact key ops s0 hi hm ⟨r, c, hpos⟩

/-- … and from then on the start time can no longer be moved by any operation: a credit is never put "before the start"
after the fact. -/
theorem C17_start_frozen_after_first_credit (s0 : State) (h0 : ∀ r c, s0.ledger r c = 0) (ops : List Op)
    (hm : clockMono s0.now ops) (r c : Addr) (hpos : 0 < (run s0 ops).ledger r c) (more : List Op)
    (hm2 : clockMono (run s0 ops).now more) :
    (run (run s0 ops) more).start = (run s0 ops).start ∧
    (run (run s0 ops) more).start < (run (run s0 ops) more).now :=
  C17_start_frozen_once_started _ (C17_credit_after_start s0 h0 ops hm r c hpos) more hm2

/- FULL STATEMENT of the first clause, read literally: *"the minter mints a new token to a recipient EXACTLY WHEN …
that recipient has been credited the required number of tokens from every required collection"*, i.e.
  `∀ s op s', step s op = .ok s' → (s'.tgtNum = s.tgtNum + 1 ↔ ∃ r c, depositOf op = some (r, c) ∧ Fulfilled s r c)`.
Read this strictly it does not hold on the unchanged code: the admin's `MintTo` / `MintFor` (airdrops) mint to any recipient
without any deposit (`C17_mint_exactly_when_counterexample`; by-design behaviour, recorded as an observation (DESIGN 13.3),
not a finding). Proved: the statement for every operation that is not such an airdrop. -/
theorem C17_mint_exactly_when_partial {s s' : State} {op : Op} (h : step s op = .ok s')
    (hna : ∀ r p w k, op ≠ .mintTo s.admin r p w k) (hna' : ∀ i r p w, op ≠ .mintFor s.admin i r p w) :
    (s'.tgtNum = s.tgtNum + 1 ↔ ∃ r c, depositOf op = some (r, c) ∧ Fulfilled s r c) ∧
    (s'.tgtNum = s.tgtNum ∨ s'.tgtNum = s.tgtNum + 1) := by
  rcases step_cases h with ⟨hd, _, _⟩ | ⟨s1, caller, sender, tid, rcp, picked, res, hd, hr1, hl1, ht1, _, hr, hm⟩
  · have hsame : s'.tgtNum = s.tgtNum := by
      by_cases e : s'.tgtNum = s.tgtNum
      · exact e
      · rcases C17_mint_only_via_deposit_or_admin h (Or.inl e) with ⟨_, _, _, _, _, _, _, rfl, _⟩ |
          ⟨_, _, _, _, _, _, rfl, _⟩ | ⟨r, p, k, rfl⟩ | ⟨i, r, p, rfl⟩
        · simp [depositOf] at hd
        · simp [depositOf] at hd
        · exact absurd rfl (hna r p true k)
        · exact absurd rfl (hna' i r p true)
    refine ⟨⟨fun e => by omega, fun ⟨r, c, hd', _⟩ => by rw [hd] at hd'; cases hd'⟩, Or.inl hsame⟩
  · obtain ⟨_, _, _, htn⟩ := runMsgs_frame hm
    obtain ⟨_, _, amt, _, _, _, hcase⟩ := recv_ok hr
    have hrow : creditRow s1 (rcp.getD sender) caller = creditRow s (rcp.getD sender) caller := by
      unfold creditRow; rw [hl1]
    rcases hcase with ⟨hall, tok, _, hmint, hst⟩ | ⟨hall, hmint, hst⟩
    · have hf : Fulfilled s (rcp.getD sender) caller := by
        have := (allReceived_iff _ _).mp hall
        rw [hr1, hrow] at this; exact this
      have : s'.tgtNum = s.tgtNum + 1 := by rw [htn, hmint]; simp [hst, ht1]
      exact ⟨⟨fun _ => ⟨_, _, hd, hf⟩, fun _ => this⟩, Or.inr this⟩
    · have hnf : ¬ Fulfilled s (rcp.getD sender) caller := by
        have := (allReceived_false_iff _ _).mp hall
        rw [hr1, hrow] at this; exact this
      have : s'.tgtNum = s.tgtNum := by rw [htn, hmint]; simp [hst, ht1]
      refine ⟨⟨fun e => by omega, fun ⟨r, c, hd', hf⟩ => ?_⟩, Or.inl this⟩
      rw [hd] at hd'; cases hd'
      exact absurd hf hnf

/-! ### extended operations (`OpX`): Shuffle with a permutation witness, holder transfer / burn in the minter's own collection,
governance changing the mirrored factory parameters — frames, and the history theorems over `runX` -/

theorem stepX_core (s : State) (op : Op) : stepX s (.core op) = step s op := rfl

theorem stepX'_core (s : State) (op : Op) : stepX' s (.core op) = step' s op := rfl

theorem runX_core (ops : List Op) (s : State) : runX s (ops.map .core) = run s ops := by
  induction ops generalizing s with
  | nil => rfl
  | cons op rest ih =>
    simp only [List.map_cons, runX, run, List.foldl_cons, stepX'_core]
    exact ih (step' s op)

/-- which ledger cell an extended operation tries to credit -/
def depositOfX : OpX → Option (Addr × Addr)
  | .core op => depositOf op
  | _ => none

/-- **frame of the four new operations**: none of them touches the deposit ledger, the requirement vector, the start
time, the clock, the per-address limit, the per-recipient counters, the source collections or the minter's identity -/
theorem stepX_frame {s s' : State} {op : OpX} (h : stepX s op = .ok s') (hn : ∀ o, op ≠ .core o) :
    s'.ledger = s.ledger ∧ s'.required = s.required ∧ s'.start = s.start ∧ s'.now = s.now ∧
    s'.mintCount = s.mintCount ∧ s'.perAddressLimit = s.perAddressLimit ∧ s'.srcOwner = s.srcOwner ∧
    s'.srcApproved = s.srcApproved ∧ s'.srcOperators = s.srcOperators ∧ s'.srcNum = s.srcNum ∧
    s'.colls = s.colls ∧ s'.self = s.self ∧ s'.admin = s.admin ∧ s'.numTokens = s.numTokens := by
  cases op with
  | core o => exact absurd rfl (hn o)
  | shuffle w perm =>
    simp only [stepX] at h
    repeat' split at h
    all_goals first | cases h | skip
    all_goals simp
  | tgtTransfer caller id to w =>
    simp only [stepX] at h
    repeat' split at h
    all_goals first | cases h | skip
    all_goals simp
  | tgtBurn caller id w =>
    simp only [stepX] at h
    repeat' split at h
    all_goals first | cases h | skip
    all_goals simp
  | govern maxPer airdrop w =>
    simp only [stepX] at h
    repeat' split at h
    all_goals first | cases h | skip
    all_goals simp

/-- the same for the transactional step (a failed operation changes nothing anyway) -/
theorem stepX'_frame (s : State) {op : OpX} (hn : ∀ o, op ≠ .core o) :
    (stepX' s op).ledger = s.ledger ∧ (stepX' s op).required = s.required ∧ (stepX' s op).start = s.start ∧
    (stepX' s op).now = s.now ∧ (stepX' s op).mintCount = s.mintCount ∧
    (stepX' s op).perAddressLimit = s.perAddressLimit := by
  unfold stepX'
  cases h : stepX s op with
  | error e => exact ⟨rfl, rfl, rfl, rfl, rfl, rfl⟩
  | ok s' =>
    obtain ⟨h1, h2, h3, h4, h5, h6, _⟩ := stepX_frame h hn
    exact ⟨h1, h2, h3, h4, h5, h6⟩

/-- `C17_x_frame` — the statement for the record: Shuffle, holder transfers / burns in the minter's collection and
governance updates leave ledger, requirement vector, start time, limit and every recipient's mint count alone. -/
theorem C17_x_frame {s s' : State} {op : OpX} (h : stepX s op = .ok s') (hn : ∀ o, op ≠ .core o) :
    s'.ledger = s.ledger ∧ s'.required = s.required ∧ s'.start = s.start ∧ s'.perAddressLimit = s.perAddressLimit ∧
    s'.mintCount = s.mintCount := by
  obtain ⟨h1, h2, h3, _, h5, h6, _⟩ := stepX_frame h hn
  exact ⟨h1, h2, h3, h6, h5⟩

/-- Shuffle only re-orders: exactly the same ids stay mintable, nothing is minted, burned or credited -/
theorem C17_x_shuffle_same_ids {s s' : State} {w : Bool} {perm : List Nat} (h : stepX s (.shuffle w perm) = .ok s') :
    (∀ id, id ∈ s'.mintable ↔ id ∈ s.mintable) ∧ s'.mintable.length = s.mintable.length ∧
    s'.tgtOwner = s.tgtOwner ∧ s'.tgtNum = s.tgtNum ∧ s'.ledger = s.ledger := by
  simp only [stepX] at h
  split at h
  · cases h
  · split at h
    · rename_i hp
      cases h
      have hperm := List.isPerm_iff.mp hp
      exact ⟨fun id => hperm.mem_iff, hperm.length_eq, rfl, rfl, rfl⟩
    · cases h

/-- `C17_ledger_only_via_deposit` over the extended operations -/
theorem C17_x_ledger_only_via_deposit {s s' : State} {op : OpX} (h : stepX s op = .ok s') (hnd : depositOfX op = none) :
    s'.ledger = s.ledger ∧ s'.required = s.required := by
  cases op with
  | core o => exact C17_ledger_only_via_deposit (by simpa [stepX] using h) (by simpa [depositOfX] using hnd)
  | shuffle w perm => exact ⟨(stepX_frame h (by intro o e; cases e)).1, (stepX_frame h (by intro o e; cases e)).2.1⟩
  | tgtTransfer caller id to w => exact ⟨(stepX_frame h (by intro o e; cases e)).1, (stepX_frame h (by intro o e; cases e)).2.1⟩
  | tgtBurn caller id w => exact ⟨(stepX_frame h (by intro o e; cases e)).1, (stepX_frame h (by intro o e; cases e)).2.1⟩
  | govern a b w => exact ⟨(stepX_frame h (by intro o e; cases e)).1, (stepX_frame h (by intro o e; cases e)).2.1⟩

/-- `C17_noise_frame` seen through `stepX` -/
theorem C17_x_noise_frame {s s' : State} {w : Bool} (h : stepX s (.core (.noise w)) = .ok s') : s' = s :=
  C17_noise_frame (by simpa [stepX] using h)

/-- invariant lifting over extended histories -/
theorem runX_induction {P : State → Prop} (hcore : ∀ s op s', P s → step s op = .ok s' → P s')
    (hx : ∀ s op s', (∀ o, op ≠ .core o) → P s → stepX s op = .ok s' → P s') :
    ∀ (ops : List OpX) (s : State), P s → P (runX s ops) := by
  intro ops
  induction ops with
  | nil => intro s h; exact h
  | cons op rest ih =>
    intro s h
    simp only [runX, List.foldl_cons]
    apply ih
    unfold stepX'
    cases hs : stepX s op with
    | error e => exact h
    | ok s' =>
      cases op with
      | core o => exact hcore s o s' h (by simpa [stepX] using hs)
      | shuffle w perm => exact hx s _ s' (by intro o e; cases e) h hs
      | tgtTransfer caller id to w => exact hx s _ s' (by intro o e; cases e) h hs
      | tgtBurn caller id w => exact hx s _ s' (by intro o e; cases e) h hs
      | govern a b w => exact hx s _ s' (by intro o e; cases e) h hs

theorem runX_required (ops : List OpX) (s : State) : (runX s ops).required = s.required :=
  runX_induction (P := fun x => x.required = s.required)
    (fun a op b ha hs => by rw [step_required a op b hs, ha])
    (fun a op b hn ha hs => by rw [(stepX_frame hs hn).2.1, ha]) ops s rfl

/-- `C17_ledger_bounded` for histories that also contain Shuffle, holder transfers / burns and governance updates -/
theorem C17_x_ledger_bounded (s0 : State) (h0 : LedgerBounded s0) (ops : List OpX) (r c : Addr) :
    (runX s0 ops).ledger r c ≤ (requiredOf s0.required c).getD 0 := by
  have := runX_induction (P := LedgerBounded) step_ledgerBounded
    (fun a op b hn ha hs => by
      intro r c
      rw [(stepX_frame hs hn).1, (stepX_frame hs hn).2.1]; exact ha r c) ops s0 h0 r c
  rwa [runX_required] at this

/-- `C17_no_pending_mint` for extended histories -/
theorem C17_x_no_pending_mint (s0 : State) (hpos : ∃ cn ∈ s0.required, 0 < cn.2) (h0 : NoPending s0) (ops : List OpX)
    (r : Addr) : ¬ ∀ cn ∈ s0.required, cn.2 ≤ (runX s0 ops).ledger r cn.1 := by
  have key := runX_induction (P := fun x => x.required = s0.required ∧ NoPending x)
    (fun a op b ha hs => by
      refine ⟨by rw [step_required a op b hs, ha.1], step_noPending (s := a) ?_ op b ha.2 hs⟩
      rw [ha.1]; exact hpos)
    (fun a op b hn ha hs => by
      obtain ⟨hl, hr, _⟩ := stepX_frame hs hn
      refine ⟨by rw [hr, ha.1], fun r => ?_⟩
      rw [hr, hl]; exact ha.2 r) ops s0 ⟨rfl, h0⟩
  have := key.2 r
  rw [key.1, allReceived_false_iff] at this
  exact this

/-! #### the start time over extended histories -/

def clockMonoX : Nat → List OpX → Prop
  | _, [] => True
  | now, .core (.setTime t) :: rest => now ≤ t ∧ clockMonoX t rest
  | now, _ :: rest => clockMonoX now rest

theorem clockMonoX_core (now : Nat) (ops : List Op) : clockMonoX now (ops.map .core) ↔ clockMono now ops := by
  induction ops generalizing now with
  | nil => simp [clockMonoX, clockMono]
  | cons op rest ih =>
    cases op <;> simp [clockMonoX, clockMono, ih]

theorem stepX'_now (s : State) (op : OpX) :
    (stepX' s op).now = (match op with | .core (.setTime t) => t | _ => s.now) := by
  cases op with
  | core o => rw [stepX'_core, step'_now]; cases o <;> rfl
  | shuffle w perm => exact (stepX'_frame s (by intro o e; cases e)).2.2.2.1
  | tgtTransfer caller id to w => exact (stepX'_frame s (by intro o e; cases e)).2.2.2.1
  | tgtBurn caller id w => exact (stepX'_frame s (by intro o e; cases e)).2.2.2.1
  | govern a b w => exact (stepX'_frame s (by intro o e; cases e)).2.2.2.1

theorem clockMonoX_cons {now : Nat} {op : OpX} {rest : List OpX} (h : clockMonoX now (op :: rest)) (s : State)
    (hn : s.now = now) : clockMonoX s.now [op] ∧ clockMonoX (stepX' s op).now rest := by
  rw [stepX'_now, hn]
  cases op with
  | core o => cases o <;> simp_all [clockMonoX]
  | shuffle w perm => simp_all [clockMonoX]
  | tgtTransfer caller id to w => simp_all [clockMonoX]
  | tgtBurn caller id w => simp_all [clockMonoX]
  | govern a b w => simp_all [clockMonoX]

theorem stepX'_started {s : State} {op : OpX} (hs : Started s) (hm : clockMonoX s.now [op]) :
    (stepX' s op).start = s.start ∧ Started (stepX' s op) := by
  cases op with
  | core o =>
    rw [stepX'_core]
    exact step'_started hs ((clockMonoX_core s.now [o]).mp hm)
  | shuffle w perm =>
    obtain ⟨_, _, h3, h4, _⟩ := stepX'_frame s (op := .shuffle w perm) (by intro o e; cases e)
    exact ⟨h3, by unfold Started at *; rw [h3, h4]; exact hs⟩
  | tgtTransfer caller id to w =>
    obtain ⟨_, _, h3, h4, _⟩ := stepX'_frame s (op := .tgtTransfer caller id to w) (by intro o e; cases e)
    exact ⟨h3, by unfold Started at *; rw [h3, h4]; exact hs⟩
  | tgtBurn caller id w =>
    obtain ⟨_, _, h3, h4, _⟩ := stepX'_frame s (op := .tgtBurn caller id w) (by intro o e; cases e)
    exact ⟨h3, by unfold Started at *; rw [h3, h4]; exact hs⟩
  | govern a b w =>
    obtain ⟨_, _, h3, h4, _⟩ := stepX'_frame s (op := .govern a b w) (by intro o e; cases e)
    exact ⟨h3, by unfold Started at *; rw [h3, h4]; exact hs⟩

/-- `C17_start_frozen_once_started` for extended histories -/
theorem C17_x_start_frozen_once_started (s : State) (hs : s.start < s.now) (ops : List OpX)
    (hm : clockMonoX s.now ops) : (runX s ops).start = s.start ∧ (runX s ops).start < (runX s ops).now := by
  induction ops generalizing s with
  | nil => exact ⟨rfl, hs⟩
  | cons op rest ih =>
    obtain ⟨h1, h2⟩ := clockMonoX_cons hm s rfl
    obtain ⟨hst, hstarted⟩ := stepX'_started (s := s) hs h1
    simp only [runX, List.foldl_cons]
    have := ih (stepX' s op) hstarted h2
    simp only [runX] at this
    exact ⟨by rw [this.1, hst], this.2⟩

theorem stepX'_creditsAfterStart {s : State} {op : OpX} (hi : CreditsAfterStart s) (hm : clockMonoX s.now [op]) :
    CreditsAfterStart (stepX' s op) := by
  cases op with
  | core o =>
    rw [stepX'_core]
    exact step'_creditsAfterStart hi ((clockMonoX_core s.now [o]).mp hm)
  | shuffle w perm =>
    obtain ⟨h1, _, h3, h4, _⟩ := stepX'_frame s (op := .shuffle w perm) (by intro o e; cases e)
    intro ⟨r, c, hp⟩; rw [h1] at hp; have := hi ⟨r, c, hp⟩; unfold Started at *; rw [h3, h4]; exact this
  | tgtTransfer caller id to w =>
    obtain ⟨h1, _, h3, h4, _⟩ := stepX'_frame s (op := .tgtTransfer caller id to w) (by intro o e; cases e)
    intro ⟨r, c, hp⟩; rw [h1] at hp; have := hi ⟨r, c, hp⟩; unfold Started at *; rw [h3, h4]; exact this
  | tgtBurn caller id w =>
    obtain ⟨h1, _, h3, h4, _⟩ := stepX'_frame s (op := .tgtBurn caller id w) (by intro o e; cases e)
    intro ⟨r, c, hp⟩; rw [h1] at hp; have := hi ⟨r, c, hp⟩; unfold Started at *; rw [h3, h4]; exact this
  | govern a b w =>
    obtain ⟨h1, _, h3, h4, _⟩ := stepX'_frame s (op := .govern a b w) (by intro o e; cases e)
    intro ⟨r, c, hp⟩; rw [h1] at hp; have := hi ⟨r, c, hp⟩; unfold Started at *; rw [h3, h4]; exact this

/-- `C17_credit_after_start` for extended histories -/
theorem C17_x_credit_after_start (s0 : State) (h0 : ∀ r c, s0.ledger r c = 0) (ops : List OpX)
    (hm : clockMonoX s0.now ops) (r c : Addr) (hpos : 0 < (runX s0 ops).ledger r c) :
    (runX s0 ops).start < (runX s0 ops).now := by
  have key : ∀ (ops : List OpX) (s : State), CreditsAfterStart s → clockMonoX s.now ops →
      CreditsAfterStart (runX s ops) := by
    intro ops
    induction ops with
    | nil => intro s h _; exact h
    | cons op rest ih =>
      intro s h hm
      obtain ⟨h1, h2⟩ := clockMonoX_cons hm s rfl
      simp only [runX, List.foldl_cons]
      exact ih (stepX' s op) (stepX'_creditsAfterStart h h1) h2
  have hi : CreditsAfterStart s0 := by
    intro ⟨r, c, h⟩; rw [h0] at h; omega
  exact key ops s0 hi hm ⟨r, c, hpos⟩

/-- `C17_start_frozen_after_first_credit` for extended histories -/
theorem C17_x_start_frozen_after_first_credit (s0 : State) (h0 : ∀ r c, s0.ledger r c = 0) (ops : List OpX)
    (hm : clockMonoX s0.now ops) (r c : Addr) (hpos : 0 < (runX s0 ops).ledger r c) (more : List OpX)
    (hm2 : clockMonoX (runX s0 ops).now more) :
    (runX (runX s0 ops) more).start = (runX s0 ops).start ∧
    (runX (runX s0 ops) more).start < (runX (runX s0 ops) more).now :=
  C17_x_start_frozen_once_started _ (C17_x_credit_after_start s0 h0 ops hm r c hpos) more hm2

/-! #### conservation over extended histories -/

theorem stepG_fst (sg : State × Ghost) (op : Op) : (stepG sg op).1 = step' sg.1 op := by
  unfold stepG step'
  cases step sg.1 op with
  | error e => rfl
  | ok s' => cases depositOf op <;> rfl

/-- ghost bookkeeping over extended histories: the new operations are no deposits, the ghost does not move -/
def stepGX (sg : State × Ghost) : OpX → State × Ghost
  | .core o => stepG sg o
  | op => (stepX' sg.1 op, sg.2)

def runGX (sg : State × Ghost) (ops : List OpX) : State × Ghost := ops.foldl stepGX sg

theorem stepGX_fst (sg : State × Ghost) (op : OpX) : (stepGX sg op).1 = stepX' sg.1 op := by
  cases op with
  | core o => simp only [stepGX, stepG_fst, stepX'_core]
  | shuffle w perm => rfl
  | tgtTransfer caller id to w => rfl
  | tgtBurn caller id w => rfl
  | govern a b w => rfl

theorem runGX_fst (ops : List OpX) (sg : State × Ghost) : (runGX sg ops).1 = runX sg.1 ops := by
  induction ops generalizing sg with
  | nil => rfl
  | cons op rest ih =>
    simp only [runGX, runX, List.foldl_cons]
    have := ih (stepGX sg op)
    simp only [runGX, runX] at this
    rw [this, stepGX_fst]

theorem stepGX_conserved (sg : State × Ghost) (op : OpX) (hc : Conserved sg) : Conserved (stepGX sg op) := by
  have hx : ∀ op : OpX, (∀ o, op ≠ .core o) → Conserved (stepX' sg.1 op, sg.2) := by
    intro op hn
    obtain ⟨hl, hr, _⟩ := stepX'_frame sg.1 hn
    refine ⟨fun r c => ?_, fun r c => ?_⟩
    · simp only [hl, hr]; exact hc.1 r c
    · simp only [hl, hr]; exact hc.2 r c
  cases op with
  | core o => exact stepG_conserved sg o hc
  | shuffle w perm => exact hx _ (by intro o e; cases e)
  | tgtTransfer caller id to w => exact hx _ (by intro o e; cases e)
  | tgtBurn caller id w => exact hx _ (by intro o e; cases e)
  | govern a b w => exact hx _ (by intro o e; cases e)

/-- `C17_conservation` for histories that also contain Shuffle, holder transfers / burns in the minter's collection and
governance updates: burned(r,c) = required(c) × deposit-mints(r) + ledger(r,c). (A holder burning a MINTED token does
not give any credit back and does not undo the mint count.) -/
theorem C17_x_conservation (s0 : State) (h0 : ∀ r c, s0.ledger r c = 0) (ops : List OpX) (r c : Addr) :
    (runGX (s0, ⟨fun _ _ => 0, fun _ => 0⟩) ops).2.credited r c =
      (requiredOf s0.required c).getD 0 * (runGX (s0, ⟨fun _ _ => 0, fun _ => 0⟩) ops).2.dmints r +
        (runX s0 ops).ledger r c := by
  have key : ∀ (ops : List OpX) (sg : State × Ghost), Conserved sg → Conserved (runGX sg ops) := by
    intro ops
    induction ops with
    | nil => intro sg h; exact h
    | cons op rest ih =>
      intro sg h
      simp only [runGX, List.foldl_cons]
      exact ih _ (stepGX_conserved sg op h)
  have hc : Conserved (s0, ⟨fun _ _ => 0, fun _ => 0⟩) :=
    ⟨fun r c => by rw [h0]; exact Nat.zero_le _, fun r c => by simp [h0]⟩
  have := (key ops _ hc).2 r c
  rw [runGX_fst] at this
  simpa [runX_required] using this

/-- who can mint, over the extended operations: a token that did not exist appears in the minter's collection (or its
token count grows) only through a deposit or the admin's airdrop — a holder's transfer moves an EXISTING token, a
holder's burn removes one, Shuffle and governance do not touch the collection at all. -/
theorem C17_x_mint_only_via_deposit_or_admin {s s' : State} {op : OpX} (h : stepX s op = .ok s')
    (hnew : s.tgtNum < s'.tgtNum ∨ ∃ id, s.tgtOwner id = none ∧ s'.tgtOwner id ≠ none) :
    ∃ o, op = .core o ∧
      ((∃ caller coll id contract rcp msgOk picked, o = .send caller coll id contract rcp msgOk picked ∧
          Fulfilled s (rcp.getD caller) coll) ∨
       (∃ caller sender id rcp msgOk picked, o = .receive caller sender id rcp msgOk picked ∧ caller ∈ s.colls) ∨
       (∃ recipient pay picked, o = .mintTo s.admin recipient pay true picked) ∨
       (∃ id recipient pay, o = .mintFor s.admin id recipient pay true)) := by
  cases op with
  | core o =>
    refine ⟨o, rfl, C17_mint_only_via_deposit_or_admin (by simpa [stepX] using h) ?_⟩
    rcases hnew with hlt | ⟨id, h1, h2⟩
    · exact Or.inl (by omega)
    · refine Or.inr (fun e => ?_)
      rw [e, h1] at h2; exact h2 rfl
  | shuffle w perm =>
    exfalso
    obtain ⟨_, _, ho, hn, _⟩ := C17_x_shuffle_same_ids h
    rcases hnew with hlt | ⟨id, h1, h2⟩
    · omega
    · rw [ho, h1] at h2; exact h2 rfl
  | tgtTransfer caller id to w =>
    exfalso
    simp only [stepX] at h
    split at h
    · cases h
    · split at h
      · rename_i hown
        cases h
        rcases hnew with hlt | ⟨i, h1, h2⟩
        · simp at hlt
        · by_cases e : i = id
          · subst e; rw [hown] at h1; cases h1
          · simp [upd1, e, h1] at h2
      · cases h
  | tgtBurn caller id w =>
    exfalso
    simp only [stepX] at h
    split at h
    · cases h
    · split at h
      · rename_i hown
        cases h
        rcases hnew with hlt | ⟨i, h1, h2⟩
        · simp at hlt; omega
        · by_cases e : i = id
          · subst e; rw [hown] at h1; cases h1
          · simp [upd1, e, h1] at h2
      · cases h
  | govern a b w =>
    exfalso
    simp only [stepX] at h
    split at h
    · cases h
    · cases h
      rcases hnew with hlt | ⟨i, h1, h2⟩
      · simp at hlt
      · exact h2 h1

/-! ## non-vacuity: concrete runs on which the hypotheses above are satisfiable -/

namespace C17Examples

/-- minter 1010 (collection 1011), admin 10, source collections 1002/1004 (+ foreign 1006),
requirement: 1 token of 1002 and 2 tokens of 1004; start 100, limit 2, 3 tokens, now 50 -/
def s0 : State := init 1010 10 [1002, 1004, 1006] [(1002, 1), (1004, 2)] 100 2 3 50 0 50

def setup : List Op :=
  [.give 1002 1 20, .give 1004 1 20, .give 1004 2 20, .give 1004 3 20, .give 1006 1 20, .setTime 101]

def deposits : List Op :=
  [.send 20 1004 1 1010 none true none, .send 20 1002 1 1010 none true none]

/-- two credits, nothing minted yet, both tokens burned -/
example : (run s0 (setup ++ deposits)).ledger 20 1004 = 1 ∧ (run s0 (setup ++ deposits)).ledger 20 1002 = 1 ∧
    (run s0 (setup ++ deposits)).tgtNum = 0 ∧ (run s0 (setup ++ deposits)).srcOwner 1004 1 = none := by decide

/-- the third deposit fulfils the requirement: token 2 is minted to 20, ledger reset, count 1 -/
example : let s := run s0 (setup ++ deposits ++ [.send 20 1004 2 1010 none true (some 2)])
    s.tgtOwner 2 = some 20 ∧ s.tgtNum = 1 ∧ s.ledger 20 1004 = 0 ∧ s.ledger 20 1002 = 0 ∧ s.mintCount 20 = 1 ∧
    s.mintable = [1, 3] := by decide

/-- `Fulfilled` is satisfiable on a reachable state (hypothesis of `C17_send_mint_iff`, `C17_sold_out_rejected`) -/
example : Fulfilled (run s0 (setup ++ deposits)) 20 1004 := by
  intro cn hcn
  have : cn = (1002, 1) ∨ cn = (1004, 2) := by simpa [run_required, s0, init] using hcn
  rcases this with rfl | rfl <;> decide

/-- at the start instant itself the deposit is rejected; one nanosecond later it is accepted -/
example : (step (run s0 [.give 1004 1 20, .setTime 100]) (.send 20 1004 1 1010 none true none)).isOk = false ∧
    (step (run s0 [.give 1004 1 20, .setTime 101]) (.send 20 1004 1 1010 none true none)).isOk = true := by decide

/-- a foreign collection, a direct call by a user, and a surplus token are rejected -/
example : (step (run s0 setup) (.send 20 1006 1 1010 none true none)).isOk = false ∧
    (step (run s0 setup) (.receive 20 20 1 none true none)).isOk = false ∧
    (step (run s0 (setup ++ deposits)) (.receive 1004 20 2 none true none)).isOk = false ∧
    (step (run s0 (setup ++ [.send 20 1002 1 1010 (some 21) true none])) (.send 20 1002 1 1010 (some 21) true none)).isOk = false := by
  decide

/-- the ghost bookkeeping on the same run: 2 tokens of 1004 and 1 of 1002 were burned for 20, one mint -/
example : let g := (runG (s0, ⟨fun _ _ => 0, fun _ => 0⟩) (setup ++ deposits ++ [.send 20 1004 2 1010 none true (some 2)])).2
    g.credited 20 1004 = 2 ∧ g.credited 20 1002 = 1 ∧ g.dmints 20 = 1 := by decide

/-- the admin's airdrop: one token more in the minter's collection, owned by 20, although NOBODY was ever credited
anything (the whole ledger is empty) — the literal "mints exactly when … credited" does not hold for `MintTo`.
Replayed on the real contracts by the harness (`airdrop0` / `airdrop1` cases, class `floor:airdrop:…`). -/
theorem C17_mint_exactly_when_counterexample :
    let s := run s0 (setup)
    let s' := step' s (.mintTo 10 20 0 true (some 1))
    s'.tgtNum = s.tgtNum + 1 ∧ s'.tgtOwner 1 = some 20 ∧
    s.ledger 20 1002 = 0 ∧ s.ledger 20 1004 = 0 ∧ ¬ Fulfilled s 20 1004 ∧ depositOf (.mintTo 10 20 0 true (some 1)) = none := by
  refine ⟨by decide, by decide, by decide, by decide, ?_, rfl⟩
  intro hf
  have := hf (1002, 1) (by simp [run_required, s0, init])
  revert this; decide

/- FULL STATEMENT of the reset clause, read literally: *"the recipient's deposit ledger is reset after EACH mint"*, i.e.
after any operation that mints to `r`, `∀ c, ledger r c = 0`. Proved for deposit-triggered mints (`C17_reset_after_each_mint_partial`,
`C17_reset_hook`); the admin's airdrops by design neither need nor consume credits (`C17_admin_mint_frame`), so: -/
/-- an airdrop to 20 while 20 holds a partial ledger (2 of the 3 required tokens): a token IS minted to 20 and the ledger
is NOT reset. -/
theorem C17_reset_after_each_mint_counterexample :
    let s := run s0 (setup ++ deposits)
    let s' := step' s (.mintTo 10 20 0 true (some 3))
    s'.tgtNum = s.tgtNum + 1 ∧ s'.tgtOwner 3 = some 20 ∧ s'.ledger 20 1004 = 1 ∧ s'.ledger 20 1002 = 1 := by
  decide

/-- `clockMono`, `Started` and a positive ledger entry are jointly satisfiable (hypotheses of
`C17_credit_after_start` / `C17_start_frozen_after_first_credit`); afterwards the admin's `setStart` is refused -/
example : clockMono s0.now (setup ++ deposits) ∧ 0 < (run s0 (setup ++ deposits)).ledger 20 1004 ∧
    (step (run s0 (setup ++ deposits)) (.setStart 10 500 true)).isOk = false ∧
    (step s0 (.setStart 10 500 true)).isOk = true := by
  refine ⟨by simp [clockMono, setup, deposits, s0, init], by decide, by decide, by decide⟩

/-- an operator (`ApproveAll`) may send the owner's token — credited to the operator; an expired grant does not count -/
example : let s := run s0 (setup ++ [.approveAll 20 1004 21 (some 200)])
    (run s [.send 21 1004 1 1010 none true none]).ledger 21 1004 = 1 ∧
    (step (run s [.setTime 200]) (.send 21 1004 1 1010 none true none)).isOk = false := by decide

/-- the extended operations on a concrete run: Shuffle with a genuine permutation is accepted (a non-permutation is
not), the holder of minted token 2 transfers and then burns it, governance changes the mirrored parameters — the ledger
of 21 (one credit) is untouched throughout -/
example : let s := run s0 (setup ++ deposits ++ [.send 20 1004 2 1010 none true (some 2), .give 1002 2 21,
      .send 21 1002 2 1010 none true none])
    let s' := runX s [.shuffle true [3, 1], .tgtTransfer 20 2 22 true, .tgtBurn 22 2 true, .govern 7 5 true]
    s.mintable = [1, 3] ∧ s'.mintable = [3, 1] ∧ (stepX s (.shuffle true [3, 3])).isOk = false ∧
    s.tgtOwner 2 = some 20 ∧ s'.tgtOwner 2 = none ∧ s'.tgtNum = 0 ∧ s'.maxPerAddressLimit = 7 ∧ s'.airdropPrice = 5 ∧
    s'.ledger 21 1002 = 1 ∧ s'.mintCount 20 = 1 := by decide

end C17Examples

end LP
