import LaunchpadModel.Lemmas.OpenEditionFull
import LaunchpadModel.Lemmas.OpenEditionFullLimits
import LaunchpadModel.Lemmas.OpenEditionFullPay
import LaunchpadModel.Lemmas.OpenEditionFullWindow3
import LaunchpadModel.Lemmas.OpenEditionFullPrice
import LaunchpadModel.Lemmas.OpenEditionFullTrading
import LaunchpadModel.Props.C01
import LaunchpadModel.Props.C03
import LaunchpadModel.Props.C02
import LaunchpadModel.Props.C04
import LaunchpadModel.Props.C07
import LaunchpadModel.Props.C19
/-!
# Refinement theorems: the composite open-edition model `LP.OE` (Model/OpenEditionFull.lean) refines the aspect models

Same structure as `Props/CompositeVending.lean`: per aspect a projection, an op translation whose witnesses are computed from
the composite state, the one-step simulation for ALL states and ops, its lift to runs, and the headline theorems restated for
composite runs (`Cxx_fulloe_*`).
-/
namespace LP
open LP.OE

namespace OE

/-! ## C01 — supply (`Supply.Seq`) -/

def supplyOf (s : State) : Option Supply.Seq := s.minter.map (·.seq)

def supplyOp (s : State) (op : Op) : Supply.QOp :=
  let g := accepted s op
  match op with
  | .mint sender _ _ _ => .mint g sender
  | .mintTo _ _ rcpt => .mint g rcpt
  | .purge _ _ => .purge g
  | .burnRemaining _ _ => .burnRemaining g
  | .collBurn _ id => .collBurn g id
  | .collTransfer _ id to => .collTransfer g id to
  | _ => .noise g

theorem seq_step'_of_some {f f' : Supply.Seq} {op : Supply.QOp} (h : f.step op = some f') : f.step' op = f' := by
  simp [Supply.Seq.step', h]

theorem seq_step'_gate_false (f : Supply.Seq) (op : Supply.QOp)
    (h : match op with
      | .mint g _ => g = false | .burnRemaining g => g = false | .purge g => g = false
      | .collBurn g _ => g = false | .collTransfer g _ _ => g = false | .noise g => g = false) : f.step' op = f := by
  cases op <;> simp only at h <;> subst h <;> simp [Supply.Seq.step', Supply.Seq.step]

theorem supply_step_ok {s s' : State} {m : Minter} {op : Op} (hm : s.minter = some m) (h : step s op = .ok s') :
    ∃ m', s'.minter = some m' ∧ m.seq.step (supplyOp s op) = some m'.seq := by
  have hacc := accepted_of_ok h
  cases op with
  | setTime t =>
    simp only [step] at h; split at h <;> cases h
    exact ⟨m, hm, by simp [supplyOp, hacc, Supply.Seq.step]⟩
  | fund a c =>
    simp only [step] at h; cases h
    exact ⟨m, hm, by simp [supplyOp, hacc, Supply.Seq.step]⟩
  | wlEnv k i =>
    simp only [step] at h; cases h
    exact ⟨m, hm, by simp [supplyOp, hacc, Supply.Seq.step]⟩
  | sudoParams u =>
    simp only [step] at h
    split at h <;> cases h
    exact ⟨m, hm, by simp [supplyOp, hacc, Supply.Seq.step]⟩
  | create sender funds msg w =>
    simp only [step] at h
    obtain ⟨_, _, _, _, _, hnone, _⟩ := createMinter_ok h
    rw [hm] at hnone; cases hnone
  | instantiateDirect sender => simp [step] at h
  | mint sender funds f sv =>
    simp only [step] at h
    obtain ⟨m0, hm0, h⟩ := withMinterS_ok h
    rw [hm] at hm0; cases hm0
    obtain ⟨b1, g, _, _, _, _, _, h⟩ := mintSender_ok h
    obtain ⟨price, ms, sq, b2, _, _, _, _, _, hmint, _, rfl⟩ := executeMint_ok h
    exact ⟨_, rfl, by simpa [supplyOp, hacc, Supply.Seq.step] using hmint⟩
  | mintTo sender funds rcpt =>
    simp only [step] at h
    obtain ⟨m0, hm0, h⟩ := withMinterS_ok h
    rw [hm] at hm0; cases hm0
    obtain ⟨b1, _, _, _, h⟩ := mintAdmin_ok h
    obtain ⟨price, ms, sq, b2, _, _, _, _, _, hmint, _, rfl⟩ := executeMint_ok h
    exact ⟨_, rfl, by simpa [supplyOp, hacc, Supply.Seq.step] using hmint⟩
  | purge sender funds =>
    simp only [step] at h
    obtain ⟨m0, m', hm0, hf, rfl⟩ := withMinter_ok h
    rw [hm] at hm0; cases hm0
    obtain ⟨_, _, hp, rfl⟩ := purge_ok hf
    refine ⟨_, rfl, ?_⟩
    simp only [supplyOp, hacc, Supply.Seq.step, if_true]
    cases hx : m.seq.purge with
    | none => rw [hx] at hp; cases hp
    | some x => rw [Supply.Seq.purge_spec hx]
  | burnRemaining sender funds =>
    simp only [step] at h
    obtain ⟨m0, m', hm0, hf, rfl⟩ := withMinter_ok h
    rw [hm] at hm0; cases hm0
    obtain ⟨sq, _, _, _, hb, rfl⟩ := burnRemaining_ok hf
    exact ⟨_, rfl, by simpa [supplyOp, hacc, Supply.Seq.step] using hb⟩
  | collTransfer sender id to =>
    simp only [step] at h
    obtain ⟨m0, m', hm0, hf, rfl⟩ := withMinter_ok h
    rw [hm] at hm0; cases hm0
    obtain ⟨c, _, _, hc, rfl⟩ := collTransfer_ok hf
    exact ⟨_, rfl, by simp [supplyOp, hacc, Supply.Seq.step, hc]⟩
  | collBurn sender id =>
    simp only [step] at h
    obtain ⟨m0, m', hm0, hf, rfl⟩ := withMinter_ok h
    rw [hm] at hm0; cases hm0
    obtain ⟨c, _, hc, rfl⟩ := collBurn_ok hf
    exact ⟨_, rfl, by simp [supplyOp, hacc, Supply.Seq.step, hc]⟩
  | setWhitelist sender funds wl valid =>
    simp only [step] at h
    obtain ⟨m0, m', hm0, hf, rfl⟩ := withMinter_ok h
    rw [hm] at hm0; cases hm0
    obtain ⟨_, _, _, _, _, _, _, _, _, _, _, rfl⟩ := setWhitelist_ok hf
    exact ⟨_, rfl, by simp [supplyOp, hacc, Supply.Seq.step]⟩
  | updateMintPrice sender funds p =>
    simp only [step] at h
    obtain ⟨m0, m', hm0, hf, rfl⟩ := withMinter_ok h
    rw [hm] at hm0; cases hm0
    obtain ⟨_, _, _, _, _, _, rfl⟩ := updateMintPrice_ok hf
    exact ⟨_, rfl, by simp [supplyOp, hacc, Supply.Seq.step]⟩
  | updateStartTime sender funds t =>
    simp only [step] at h
    obtain ⟨m0, m', hm0, hf, rfl⟩ := withMinter_ok h
    rw [hm] at hm0; cases hm0
    obtain ⟨_, _, _, _, _, rfl⟩ := updateStartTime_ok hf
    exact ⟨_, rfl, by simp [supplyOp, hacc, Supply.Seq.step]⟩
  | updateEndTime sender funds t =>
    simp only [step] at h
    obtain ⟨m0, m', hm0, hf, rfl⟩ := withMinter_ok h
    rw [hm] at hm0; cases hm0
    obtain ⟨_, _, _, _, _, _, _, rfl⟩ := updateEndTime_ok hf
    exact ⟨_, rfl, by simp [supplyOp, hacc, Supply.Seq.step]⟩
  | updateStartTradingTime sender funds t =>
    simp only [step] at h
    obtain ⟨m0, m', hm0, hf, rfl⟩ := withMinter_ok h
    rw [hm] at hm0; cases hm0
    obtain ⟨_, _, _, _, _, rfl⟩ := updateStartTradingTime_ok hf
    exact ⟨_, rfl, by simp [supplyOp, hacc, Supply.Seq.step]⟩
  | updatePerAddressLimit sender funds n =>
    simp only [step] at h
    obtain ⟨m0, m', hm0, hf, rfl⟩ := withMinter_ok h
    rw [hm] at hm0; cases hm0
    obtain ⟨_, _, _, _, rfl⟩ := updatePerAddressLimit_ok hf
    exact ⟨_, rfl, by simp [supplyOp, hacc, Supply.Seq.step]⟩
  | sudoStatus v b e =>
    simp only [step] at h
    obtain ⟨m0, m', hm0, hf, rfl⟩ := withMinter_ok h
    rw [hm] at hm0; cases hm0
    cases hf
    exact ⟨_, rfl, by simp [supplyOp, hacc, Supply.Seq.step]⟩
  | collTrading sender t =>
    simp only [step] at h
    obtain ⟨m0, c, hm0, _, rfl⟩ := onColl_ok h
    rw [hm] at hm0; cases hm0
    exact ⟨_, rfl, by simp [supplyOp, hacc, Supply.Seq.step]⟩
  | collCreator sender new =>
    simp only [step] at h
    obtain ⟨m0, c, hm0, _, rfl⟩ := onColl_ok h
    rw [hm] at hm0; cases hm0
    exact ⟨_, rfl, by simp [supplyOp, hacc, Supply.Seq.step]⟩
  | collFreeze sender =>
    simp only [step] at h
    obtain ⟨m0, c, hm0, _, rfl⟩ := onColl_ok h
    rw [hm] at hm0; cases hm0
    exact ⟨_, rfl, by simp [supplyOp, hacc, Supply.Seq.step]⟩
  | collOwn sender a =>
    simp only [step] at h
    obtain ⟨m0, c, hm0, _, rfl⟩ := onColl_ok h
    rw [hm] at hm0; cases hm0
    exact ⟨_, rfl, by simp [supplyOp, hacc, Supply.Seq.step]⟩

/-- **simulation** (all states with a minter, all ops) -/
theorem supply_sim (s : State) (m : Minter) (hm : s.minter = some m) (op : Op) :
    supplyOf (step' s op) = some (m.seq.step' (supplyOp s op)) := by
  rcases step'_cases s op with ⟨s', hok, hs'⟩ | ⟨⟨e, herr⟩, hs'⟩
  · obtain ⟨m', hm', hstep⟩ := supply_step_ok hm hok
    rw [hs', seq_step'_of_some hstep]; simp [supplyOf, hm']
  · have hacc : accepted s op = false := accepted_of_err herr
    rw [hs']
    have : m.seq.step' (supplyOp s op) = m.seq := by
      apply seq_step'_gate_false
      cases op <;> simp [supplyOp, hacc]
    rw [this]; simp [supplyOf, hm]

/-- before the minter exists a step either leaves it absent or is the `CreateMinter`, which initialises the supply component
with `Supply.Seq.create kind num_tokens max_token_limit end_time.is_some()` -/
theorem supply_create (s : State) (hm : s.minter = none) (op : Op) :
    (step' s op).minter = none ∨
    ∃ m k num fmax e, (step' s op).minter = some m ∧ m.seq = Supply.Seq.create k num fmax e := by
  rcases step'_cases s op with ⟨s', hok, hs'⟩ | ⟨_, hs'⟩
  · rw [hs']
    cases op with
    | setTime t => simp only [step] at hok; split at hok <;> cases hok; exact Or.inl hm
    | fund a c => simp only [step] at hok; cases hok; exact Or.inl hm
    | wlEnv k i => simp only [step] at hok; cases hok; exact Or.inl hm
    | sudoParams u => simp only [step] at hok; split at hok <;> cases hok; exact Or.inl hm
    | instantiateDirect sender => simp [step] at hok
    | create sender funds msg w =>
      simp only [step] at hok
      obtain ⟨b1, ms, b2, v, m, _, _, _, _, _, hinst, rfl⟩ := createMinter_ok hok
      obtain ⟨wl, trading, ck, _, _, _, _, _, rfl⟩ := instantiateMinter_ok hinst
      exact Or.inr ⟨_, _, _, _, _, rfl, rfl⟩
    | mint _ _ _ _ => simp only [step] at hok; obtain ⟨m, h, _⟩ := withMinterS_ok hok; rw [hm] at h; cases h
    | mintTo _ _ _ => simp only [step] at hok; obtain ⟨m, h, _⟩ := withMinterS_ok hok; rw [hm] at h; cases h
    | setWhitelist _ _ _ _ => simp only [step] at hok; obtain ⟨m, _, h, _⟩ := withMinter_ok hok; rw [hm] at h; cases h
    | purge _ _ => simp only [step] at hok; obtain ⟨m, _, h, _⟩ := withMinter_ok hok; rw [hm] at h; cases h
    | updateMintPrice _ _ _ => simp only [step] at hok; obtain ⟨m, _, h, _⟩ := withMinter_ok hok; rw [hm] at h; cases h
    | updateStartTime _ _ _ => simp only [step] at hok; obtain ⟨m, _, h, _⟩ := withMinter_ok hok; rw [hm] at h; cases h
    | updateEndTime _ _ _ => simp only [step] at hok; obtain ⟨m, _, h, _⟩ := withMinter_ok hok; rw [hm] at h; cases h
    | updateStartTradingTime _ _ _ => simp only [step] at hok; obtain ⟨m, _, h, _⟩ := withMinter_ok hok; rw [hm] at h; cases h
    | updatePerAddressLimit _ _ _ => simp only [step] at hok; obtain ⟨m, _, h, _⟩ := withMinter_ok hok; rw [hm] at h; cases h
    | burnRemaining _ _ => simp only [step] at hok; obtain ⟨m, _, h, _⟩ := withMinter_ok hok; rw [hm] at h; cases h
    | sudoStatus _ _ _ => simp only [step] at hok; obtain ⟨m, _, h, _⟩ := withMinter_ok hok; rw [hm] at h; cases h
    | collTransfer _ _ _ => simp only [step] at hok; obtain ⟨m, _, h, _⟩ := withMinter_ok hok; rw [hm] at h; cases h
    | collBurn _ _ => simp only [step] at hok; obtain ⟨m, _, h, _⟩ := withMinter_ok hok; rw [hm] at h; cases h
    | collTrading _ _ => simp only [step] at hok; obtain ⟨m, _, h, _⟩ := onColl_ok hok; rw [hm] at h; cases h
    | collCreator _ _ => simp only [step] at hok; obtain ⟨m, _, h, _⟩ := onColl_ok hok; rw [hm] at h; cases h
    | collFreeze _ => simp only [step] at hok; obtain ⟨m, _, h, _⟩ := onColl_ok hok; rw [hm] at h; cases h
    | collOwn _ _ => simp only [step] at hok; obtain ⟨m, _, h, _⟩ := onColl_ok hok; rw [hm] at h; cases h
  · rw [hs']; exact Or.inl hm

def SupplyReach (s : State) : Prop :=
  s.minter = none ∨
  ∃ m k num fmax e qops, s.minter = some m ∧ m.seq = (Supply.Seq.create k num fmax e).run qops

theorem seq_run_snoc (f : Supply.Seq) (ops : List Supply.QOp) (op : Supply.QOp) :
    f.run (ops ++ [op]) = (f.run ops).step' op := by
  simp [Supply.Seq.run, List.foldl_append]

theorem supplyReach_step (s : State) (op : Op) (h : SupplyReach s) : SupplyReach (step' s op) := by
  rcases h with hnone | ⟨m, k, num, fmax, e, qops, hm, hrun⟩
  · rcases supply_create s hnone op with h | ⟨m, k, num, fmax, e, hm, hinit⟩
    · exact Or.inl h
    · exact Or.inr ⟨m, k, num, fmax, e, [], hm, hinit⟩
  · have hsim := supply_sim s m hm op
    unfold supplyOf at hsim
    cases hm' : (step' s op).minter with
    | none => rw [hm'] at hsim; cases hsim
    | some m' =>
      rw [hm'] at hsim
      simp only [Option.map_some, Option.some.injEq] at hsim
      exact Or.inr ⟨m', k, num, fmax, e, qops ++ [supplyOp s op], hm', by rw [seq_run_snoc, ← hrun, hsim]⟩

/-- **lift to runs** -/
theorem supply_run (s0 : State) (h0 : s0.minter = none) (ops : List Op) : SupplyReach (run s0 ops) :=
  run_inv SupplyReach supplyReach_step s0 (Or.inl h0) ops

end OE

/-- the C01 simulation for the open-edition composite -/
theorem C01_fulloe_refines (s : OE.State) (m : OE.Minter) (hm : s.minter = some m) (op : OE.Op) :
    OE.supplyOf (OE.step' s op) = some (m.seq.step' (OE.supplyOp s op)) :=
  OE.supply_sim s m hm op

/-- the sequential-supply invariant (`QInv`: index = total = number of ids issued, ids are 1..index, counter = cap − total
unless burnt, collection tokens are issued ids, unique, counted exactly) in every reachable composite state -/
theorem C01_fulloe_inv (s0 : OE.State) (h0 : s0.minter = none) (ops : List OE.Op) (m : OE.Minter)
    (hm : (OE.run s0 ops).minter = some m) : Supply.QInv m.seq := by
  rcases OE.supply_run s0 h0 ops with hnone | ⟨m', k, num, fmax, e, qops, hm', hrun⟩
  · rw [hm] at hnone; cases hnone
  · rw [hm] at hm'; cases hm'
    rw [hrun]; exact C01_seq_inv k num fmax e qops

/-- "token ids are issued as 1,2,3,… with no gap or repeat" and "the total-mint count equals the number of mints that succeeded" -/
theorem C01_fulloe_ids_sequential (s0 : OE.State) (h0 : s0.minter = none) (ops : List OE.Op) (m : OE.Minter)
    (hm : (OE.run s0 ops).minter = some m) :
    m.seq.issued.reverse = List.range' 1 (OE.queryTotalMint m) ∧ m.seq.tokenIndex = OE.queryTotalMint m ∧
      m.seq.issued.length = OE.queryTotalMint m := by
  rcases OE.supply_run s0 h0 ops with hnone | ⟨m', k, num, fmax, e, qops, hm', hrun⟩
  · rw [hm] at hnone; cases hnone
  · rw [hm] at hm'; cases hm'
    obtain ⟨h1, _⟩ := C01_seq_ids_sequential k num fmax e qops
    obtain ⟨t1, t2, t3⟩ := C01_seq_total_mint k num fmax e qops
    unfold OE.queryTotalMint
    rw [hrun]
    exact ⟨by rw [t1]; exact h1, by rw [t1, t2], by rw [t1, t3]⟩

/-- the `MintableNumTokens` answer is the cap in force minus the mints so far (or `Some(0)` after a burn) -/
theorem C01_fulloe_mintable_query (s0 : OE.State) (h0 : s0.minter = none) (ops : List OE.Op) (m : OE.Minter)
    (hm : (OE.run s0 ops).minter = some m) :
    (m.seq.burned = false → OE.queryMintable m = m.seq.cap.map (· - OE.queryTotalMint m)) ∧
    (m.seq.burned = true → OE.queryMintable m = some 0) := by
  have hi := C01_fulloe_inv s0 h0 ops m hm
  exact ⟨hi.left, hi.burnt⟩

/-- collection side: existing tokens are issued ids, unique, counted exactly -/
theorem C01_fulloe_collection (s0 : OE.State) (h0 : s0.minter = none) (ops : List OE.Op) (m : OE.Minter)
    (hm : (OE.run s0 ops).minter = some m) :
    (∀ id ∈ m.seq.coll.ids, 1 ≤ id ∧ id ≤ m.seq.totalMint) ∧ m.seq.coll.ids.Nodup ∧
      m.seq.coll.count = m.seq.coll.toks.length := by
  have hi := C01_fulloe_inv s0 h0 ops m hm
  exact ⟨fun id hid => by rw [hi.total]; exact hi.csub id hid, hi.cinv.nodup, hi.cinv.count⟩

/-- no composite mint succeeds at `Some(0)` -/
theorem C01_fulloe_no_mint_at_zero (s : OE.State) (m : OE.Minter) (hm : s.minter = some m)
    (hz : m.seq.mintable = some 0) (op : OE.Op) (hmint : (OE.supplyOp s op).isMint = true) : OE.step' s op = s := by
  rcases OE.step'_cases s op with ⟨s', hok, _⟩ | ⟨_, hs'⟩
  · obtain ⟨m', _, hstep⟩ := OE.supply_step_ok hm hok
    cases hq : OE.supplyOp s op with
    | mint g o => rw [hq, C01_seq_no_mint_at_zero m.seq g o hz] at hstep; cases hstep
    | _ => rw [hq] at hmint; simp [Supply.QOp.isMint] at hmint
  · exact hs'

/-! ## C03 — per-address, per-whitelist and per-stage limits

Projection `OE.limitsOf` (kind, admin, per-address limit, num_tokens, factory maximum, attached whitelist with its kind, the
five counter maps, tokens received); translation `OE.limitsOp` (the `View`, `started`, `pre`, `oldActive`, `newActive`
witnesses of the aspect ops are computed from the composite state); one-step simulation `OE.limits_sim_ok/_err`
(Lemmas/OpenEditionFullLimits.lean).  Governance moving `max_per_address_limit` is the aspect op `govern`.  The aspect model holds the
kind of the attached whitelist contract constant during a case, so the run-level statements are about `StableRun`s: histories in
which the interface does not rebind the attached whitelist's address to another kind (only `wlEnv` can; every message of the
family, `sudo UpdateParams` included, is `EnvStable`: `envStable_of_not_env`). -/

namespace OE

/-- messages other than a whitelist-interface change never move the binding the aspect model holds constant (governance moving
`max_per_address_limit` is the aspect op `govern`) -/
theorem envStable_of_not_env (s : State) (op : Op)
    (hop : match op with | .wlEnv _ _ => False | _ => True) : EnvStable s op := by
  intro m _
  rcases step'_cases s op with ⟨s', hok, hs'⟩ | ⟨_, hs'⟩
  · rw [hs']
    obtain ⟨_, _, _, hw, _⟩ := step_frame hok
    have hw' : s'.wls = s.wls := by
      rcases hw with ⟨k, i, rfl⟩ | hw
      · exact absurd hop (by simp)
      · exact hw
    exact wlBinding_congr hw' rfl
  · rw [hs']

/-- the composite history as an aspect-model history -/
def limitsOps (s : State) : List Op → List MintLimits.Op
  | [] => []
  | op :: rest =>
    (match s.minter with
     | some m => limitsOp s m op
     | none => .env) :: limitsOps (step' s op) rest

def StableRun (s : State) : List Op → Prop
  | [] => True
  | op :: rest => EnvStable s op ∧ StableRun (step' s op) rest

theorem limits_fst_foldl (ops : List MintLimits.Op) (a : MintLimits.State) (evs : List MintLimits.Event) :
    (ops.foldl MintLimits.stepAcc (a, evs)).1 = (ops.foldl MintLimits.stepAcc (a, [])).1 := by
  induction ops generalizing a evs with
  | nil => rfl
  | cons op ops ih =>
    simp only [List.foldl_cons]
    cases h : MintLimits.step a op with
    | error e => simp only [MintLimits.stepAcc, h]; exact ih a evs
    | ok r =>
      obtain ⟨a', e⟩ := r
      simp only [MintLimits.stepAcc, h]
      rw [ih a' (evs ++ [e]), ih a' ([] ++ [e])]

theorem limits_run_cons (a : MintLimits.State) (op : MintLimits.Op) (ops : List MintLimits.Op) :
    (MintLimits.run a (op :: ops)).1 = (MintLimits.run (limStep' a op) ops).1 := by
  simp only [MintLimits.run, List.foldl_cons]
  have : MintLimits.stepAcc (a, []) op = (limStep' a op, (MintLimits.stepAcc (a, []) op).2) := rfl
  rw [this, limits_fst_foldl]

/-- one-step simulation, both outcomes -/
theorem limits_sim (s : State) (m : Minter) (hm : s.minter = some m) (op : Op) (hst : EnvStable s op) :
    ∃ m', (step' s op).minter = some m' ∧ limitsOf (step' s op) m' = limStep' (limitsOf s m) (limitsOp s m op) := by
  rcases step'_cases s op with ⟨s', hok, hs'⟩ | ⟨⟨e, herr⟩, hs'⟩
  · obtain ⟨m', hm', _, _, heq⟩ := limits_sim_ok hm hok hst
    rw [hs']; exact ⟨m', hm', heq⟩
  · rw [hs']; exact ⟨m, hm, (limits_sim_err hm herr).symm⟩

/-- **lift to runs**: the projection of the composite's final state is the final state of the aspect model's run on the
translated history -/
theorem limits_run (s : State) (m : Minter) (hm : s.minter = some m) (ops : List Op) (hst : StableRun s ops) :
    ∃ m', (run s ops).minter = some m' ∧
      limitsOf (run s ops) m' = (MintLimits.run (limitsOf s m) (limitsOps s ops)).1 := by
  induction ops generalizing s m with
  | nil => exact ⟨m, hm, rfl⟩
  | cons op ops ih =>
    obtain ⟨h1, h2⟩ := hst
    obtain ⟨m1, hm1, heq⟩ := limits_sim s m hm op h1
    obtain ⟨m', hm', hrun⟩ := ih (step' s op) m1 hm1 h2
    refine ⟨m', by rw [run_cons]; exact hm', ?_⟩
    rw [run_cons, hrun, heq]
    simp only [limitsOps, hm]
    rw [limits_run_cons]

/-- what `CreateMinter` leaves behind is a `Fresh` aspect state -/
theorem create_fresh {s s' : State} {sender : Addr} {funds : List Coin} {msg : CreateMsg} {w : CreateWit}
    (h : step s (.create sender funds msg w) = .ok s') : ∃ m, s'.minter = some m ∧ Fresh (limitsOf s' m) := by
  simp only [step] at h
  obtain ⟨b1, ms, b2, v, m, _, _, _, _, _, hinst, rfl⟩ := createMinter_ok h
  obtain ⟨wl, trading, ck, _, _, _, _, _, rfl⟩ := instantiateMinter_ok hinst
  exact ⟨_, rfl, by simp [Fresh, limitsOf, MintLimits.zero]⟩

end OE

/-- the C03 simulation: an accepted composite message IS an accepted aspect op on the projection, with the projected
post-state; a rejected one changes nothing on either side -/
theorem C03_fulloe_refines (s : OE.State) (m : OE.Minter) (hm : s.minter = some m) (op : OE.Op) (hst : OE.EnvStable s op) :
    ∃ m', (OE.step' s op).minter = some m' ∧
      OE.limitsOf (OE.step' s op) m' = OE.limStep' (OE.limitsOf s m) (OE.limitsOp s m op) :=
  OE.limits_sim s m hm op hst

/-- the two independently written whitelist gates agree (composite `is_public_mint` vs `MintLimits.gate`) -/
theorem C03_fulloe_gate_agrees (s : OE.State) (m : OE.Minter) (sender : Addr) (f : MintLimits.Fields) (sv : VF.SenderView)
    (g : VF.MintKind) (h : OE.isPublicMint s m sender f sv = .ok g) :
    ∃ g', MintLimits.gate (OE.limitsOf s m) sender f (OE.mintView s m sv) = .ok g' ∧ OE.GateRel s m g g' :=
  OE.gate_bridge h

/-- Clause 1, one composite step: a `Mint` accepted while no whitelist is active happens only while the sender's stored
public count is strictly below the per-address limit in force, and bumps exactly that counter by one. -/
theorem C03_fulloe_public_step (s s' : OE.State) (m : OE.Minter) (hm : s.minter = some m)
    (sender : Addr) (funds : List Coin) (f : MintLimits.Fields) (sv : VF.SenderView) 
    (h : OE.step s (.mint sender funds f sv) = .ok s')
    (hpub : OE.wlBinding s m = none ∨ (OE.mintView s m sv).active = false) :
    ∃ m', s'.minter = some m' ∧ m.pub sender < m.perAddressLimit ∧ m'.pub sender = m.pub sender + 1 ∧
      ∀ b, b ≠ sender → m'.pub b = m.pub b := by
  obtain ⟨m', hm', e, hstep, heq⟩ := OE.limits_sim_ok hm h (OE.envStable_of_not_env s _ trivial)
  obtain ⟨_, h2, h3, h4⟩ := C03_public_step (OE.limitsOf s m) _ sender f _ _ _ e hstep hpub
  rw [← heq] at h3 h4
  exact ⟨m', hm', h2, h3, h4⟩

/-- Clause 2, one composite step: a `Mint` accepted while the attached whitelist is active is booked on a whitelist
counter that was strictly below the entitlement the whitelist granted (per-address limit / flex `mint_count` /
proof-authenticated allocation), and within the stage's `mint_count_limit`. -/
theorem C03_fulloe_wl_step (s s' : OE.State) (m : OE.Minter) (hm : s.minter = some m)
    (sender : Addr) (funds : List Coin) (f : MintLimits.Fields) (sv : VF.SenderView) 
    (h : OE.step s (.mint sender funds f sv) = .ok s')
    (hwl : ∃ b, OE.wlBinding s m = some b) (hact : (OE.mintView s m sv).active = true) :
    ∃ sid cnt ent tot slim, ∃ e, e = MintLimits.Event.wlMint sender sid cnt ent tot slim ∧
      MintLimits.step (OE.limitsOf s m) (OE.limitsOp s m (.mint sender funds f sv)) =
        .ok (OE.limStep' (OE.limitsOf s m) (OE.limitsOp s m (.mint sender funds f sv)), e) ∧
      cnt < ent ∧ (∀ L, slim = some L → tot < L) := by
  obtain ⟨m', hm', e, hstep, heq⟩ := OE.limits_sim_ok hm h (OE.envStable_of_not_env s _ trivial)
  rcases step_mint hstep with ⟨hg, _⟩ | ⟨sid, cnt, ent, tot, slim, hg, _, he, _⟩
  · obtain ⟨b, hb⟩ := hwl
    have hbind : (OE.limitsOf s m).wl = some b := hb
    rcases gate_pub hg with h1 | h1
    · rw [hbind] at h1; cases h1
    · rw [hact] at h1; cases h1
  · obtain ⟨id, wk, leaf, _, _, _, _, _, hlt, hz, hnz⟩ := gate_wl hg
    refine ⟨sid, cnt, ent, tot, slim, e, he, hstep, hlt, ?_⟩
    intro L hL
    by_cases hs0 : sid = 0
    · rw [(hz hs0).2] at hL; cases hL
    · exact (hnz hs0).2.2 L hL

/-- counter exactness over composite histories (clause "the counts the minter stores equal the mints that address
initiated"): from the `CreateMinter` on, along every stable history, the stored public counter of `a` equals the number
of public mints and airdrops `a` initiated since the last purge — counted on the aspect-model trace the composite run is. -/
theorem C03_fulloe_counter_exact_public (s : OE.State) (m : OE.Minter) (hm : s.minter = some m)
    (hfresh : Fresh (OE.limitsOf s m)) (ops : List OE.Op) (hst : OE.StableRun s ops) (a : Addr) :
    ∃ m', (OE.run s ops).minter = some m' ∧
      m'.pub a = tally (publicInitiatedBy a) isPurge (MintLimits.run (OE.limitsOf s m) (OE.limitsOps s ops)).2 := by
  obtain ⟨m', hm', heq⟩ := OE.limits_run s m hm ops hst
  refine ⟨m', hm', ?_⟩
  have := C03_counter_exact_public (OE.limitsOf s m) hfresh a (OE.limitsOps s ops)
  rw [← heq] at this
  exact this

/-- History form of clause 1 for composite runs: if `L` bounds the per-address limits in force at the public mints of `a`,
then `a` completed at most `L` public mints since the last purge. -/
theorem C03_fulloe_public_history (s : OE.State) (m : OE.Minter) (hfresh : Fresh (OE.limitsOf s m))
    (ops : List OE.Op) (a : Addr) (L : Nat)
    (hL : ∀ e ∈ (MintLimits.run (OE.limitsOf s m) (OE.limitsOps s ops)).2, publicMintBy a e = true →
      ∃ B, publicLimitOf e = some B ∧ B ≤ L) :
    tally (publicMintBy a) isPurge (MintLimits.run (OE.limitsOf s m) (OE.limitsOps s ops)).2 ≤ L :=
  C03_public_history (OE.limitsOf s m) hfresh a (OE.limitsOps s ops) L hL

/-- History form of clause 3 for composite runs: the stored stage total `WHITELIST_{FS,SS,TS}_MINT_COUNT` never exceeds a
bound on the `mint_count_limit`s that were in force at the stage's mints. -/
theorem C03_fulloe_stage_total_bound (s : OE.State) (m : OE.Minter) (hm : s.minter = some m)
    (hfresh : Fresh (OE.limitsOf s m)) (ops : List OE.Op) (hst : OE.StableRun s ops) (k : Nat) (hk : k ≠ 0) (L : Nat)
    (hL : ∀ e ∈ (MintLimits.run (OE.limitsOf s m) (OE.limitsOps s ops)).2, stageMint k e = true →
      ∃ B, stageLimitOf e = some B ∧ B ≤ L) :
    ∃ m', (OE.run s ops).minter = some m' ∧ m'.tot k ≤ L := by
  obtain ⟨m', hm', heq⟩ := OE.limits_run s m hm ops hst
  refine ⟨m', hm', ?_⟩
  have := C03_stage_total_bound (OE.limitsOf s m) hfresh k hk (OE.limitsOps s ops) L hL
  rw [← heq] at this
  exact this

/-- per-address whitelist counters over composite histories: the plain whitelist counter of `a` is the number of
whitelist mints `a` completed (since the last purge on the flex crates) -/
theorem C03_fulloe_counter_exact_wl (s : OE.State) (m : OE.Minter) (hm : s.minter = some m)
    (hfresh : Fresh (OE.limitsOf s m)) (ops : List OE.Op) (hst : OE.StableRun s ops) (a : Addr) :
    ∃ m', (OE.run s ops).minter = some m' ∧
      m'.wlc a = tally (wlMintBy a 0) (fun e => isPurge e && decide (m.v.flavor = .flex))
        (MintLimits.run (OE.limitsOf s m) (OE.limitsOps s ops)).2 := by
  obtain ⟨m', hm', heq⟩ := OE.limits_run s m hm ops hst
  refine ⟨m', hm', ?_⟩
  have := C03_counter_exact_wl (OE.limitsOf s m) hfresh a (OE.limitsOps s ops)
  rw [← heq] at this
  simpa [OE.limitsOf, OE.kind_flavor] using this

/-! ## C02 — a mint charges exactly the price and disburses all of it

Projection `OE.payOf` (family `openEdition`: developer share through `distribute_mint_fees(fee, false, Some(dev))`, no discount,
`hasCap = num_tokens.is_some()`); translation `OE.payOps` (core aspect op + re-synthesis of the whitelist record); the family has
no `Shuffle`, so the simulation covers EVERY message (Lemmas/OpenEditionFullPay.lean). -/

namespace OE

def payRunOps (s : State) : List Op → List MintPay.Op
  | [] => []
  | op :: rest => payOps s op ++ payRunOps (step' s op) rest

theorem pay_sim (s : State) (m : Minter) (hm : s.minter = some m) (op : Op) :
    ∃ m', (step' s op).minter = some m' ∧ payOf (step' s op) m' = MintPay.run (payOf s m) (payOps s op) := by
  rcases step'_cases s op with ⟨s', hok, hs'⟩ | ⟨⟨e, herr⟩, hs'⟩
  · obtain ⟨m', hm', heq⟩ := pay_sim_ok hm hok
    rw [hs']; exact ⟨m', hm', heq⟩
  · rw [hs']; exact ⟨m, hm, (pay_sim_err hm herr).symm⟩

theorem pay_run (s : State) (m : Minter) (hm : s.minter = some m) (ops : List Op) :
    ∃ m', (run s ops).minter = some m' ∧ payOf (run s ops) m' = MintPay.run (payOf s m) (payRunOps s ops) := by
  induction ops generalizing s m with
  | nil => exact ⟨m, hm, rfl⟩
  | cons op ops ih =>
    obtain ⟨m1, hm1, heq⟩ := pay_sim s m hm op
    obtain ⟨m', hm', hrun⟩ := ih (step' s op) m1 hm1
    refine ⟨m', by rw [run_cons]; exact hm', ?_⟩
    rw [run_cons, hrun, heq]
    simp only [payRunOps]
    rw [pay_run_append]

/-- an accepted `Mint` / `MintTo`, as the aspect model's `mint` on the projected world -/
theorem mint_is_pay_mint {s s' : State} {m : Minter} {op : Op} (hm : s.minter = some m) (h : step s op = .ok s')
    (sender : Addr) (funds : List Coin) (isAdmin : Bool)
    (hop : (∃ f sv, op = .mint sender funds f sv ∧ isAdmin = false) ∨ (∃ r, op = .mintTo sender funds r ∧ isAdmin = true)) :
    MintPay.mint (payOf s m) sender isAdmin funds true = .ok { payOf s m with bank := s'.bank } ∧
    ∃ price, mintPrice s m isAdmin = .ok price := by
  rcases hop with ⟨f, sv, rfl, rfl⟩ | ⟨r, rfl, rfl⟩
  · simp only [step] at h
    obtain ⟨m0, hm0, h⟩ := withMinterS_ok h
    rw [hm] at hm0; cases hm0
    obtain ⟨b1, g, _, hb1, _, _, _, h⟩ := mintSender_ok h
    obtain ⟨price, _, _, _, _, hp, _⟩ := executeMint_ok h
    exact ⟨executeMint_pay hb1 h, price, hp⟩
  · simp only [step] at h
    obtain ⟨m0, hm0, h⟩ := withMinterS_ok h
    rw [hm] at hm0; cases hm0
    obtain ⟨b1, hb1, _, _, h⟩ := mintAdmin_ok h
    obtain ⟨price, _, _, _, _, hp, _⟩ := executeMint_ok h
    exact ⟨executeMint_pay hb1 h, price, hp⟩

/-- nobody funds the minter directly, the minter is never its own payer, governance never names it as developer -/
def PayAway (mi : Addr) (s : State) : Op → Prop
  | .fund a _ => a ≠ mi
  | .mint sender _ _ _ => sender ≠ mi
  | .mintTo sender _ _ => sender ≠ mi
  | .sudoParams u => ∀ p, updateParams s.params u = .ok p → p.dev.getD LAUNCHPAD_DAO ≠ mi
  | _ => True

def PayAwayRun (mi : Addr) (s : State) : List Op → Prop
  | [] => True
  | op :: rest => PayAway mi s op ∧ PayAwayRun mi (step' s op) rest

theorem payOps_away (s : State) (op : Op) (mi : Addr) (h : PayAway mi s op) :
    ∀ o ∈ payOps s op, LP.OpAway mi payVariant o := by
  intro o ho
  simp only [payOps, List.mem_append] at ho
  rcases ho with ho | ho
  · cases op <;> simp only [payCore] at ho
    case setTime t => split at ho <;> simp at ho; subst ho; trivial
    case fund a c => simp at ho; subst ho; exact h
    case mint sender funds f sv => simp at ho; subst ho; exact ⟨h, Or.inl (by simp [payVariant])⟩
    case mintTo sender funds r => simp at ho; subst ho; exact ⟨h, Or.inl (by simp [payVariant])⟩
    case updateMintPrice sender funds p => simp at ho; subst ho; trivial
    case sudoParams u =>
      split at ho
      · rename_i p hp
        simp at ho; subst ho
        exact h p hp
      · simp at ho
    all_goals simp at ho
  · split at ho
    · rename_i m' _
      unfold resync at ho
      split at ho
      · simp at ho
      · simp at ho; subst ho; trivial
    · simp at ho

theorem payRunOps_away (s : State) (ops : List Op) (mi : Addr) (h : PayAwayRun mi s ops) :
    ∀ o ∈ payRunOps s ops, LP.OpAway mi payVariant o := by
  induction ops generalizing s with
  | nil => intro o ho; simp [payRunOps] at ho
  | cons op ops ih =>
    intro o ho
    simp only [payRunOps, List.mem_append] at ho
    rcases ho with ho | ho
    · exact payOps_away s op mi h.1 o ho
    · exact ih (step' s op) h.2 o ho

end OE

/-- the C02 simulation: one composite step (ANY message) = the translated aspect ops on the projection -/
theorem C02_fulloe_refines (s : OE.State) (m : OE.Minter) (hm : s.minter = some m) (op : OE.Op) :
    ∃ m', (OE.step' s op).minter = some m' ∧
      OE.payOf (OE.step' s op) m' = MintPay.run (OE.payOf s m) (OE.payOps s op) :=
  OE.pay_sim s m hm op

/-- exact payment: every accepted `Mint` / `MintTo` attached exactly the price in force (nothing when it is zero) -/
theorem C02_fulloe_exact_payment (s s' : OE.State) (m : OE.Minter) (op : OE.Op) (hm : s.minter = some m)
    (h : OE.step s op = .ok s') (sender : Addr) (funds : List Coin) (isAdmin : Bool)
    (hop : (∃ f sv, op = .mint sender funds f sv ∧ isAdmin = false) ∨ (∃ r, op = .mintTo sender funds r ∧ isAdmin = true)) :
    ∃ price, OE.mintPrice s m isAdmin = .ok price ∧ funds = LP.exactFunds price := by
  obtain ⟨hmint, price, hp⟩ := OE.mint_is_pay_mint hm h sender funds isAdmin hop
  obtain ⟨price', hsel, hf⟩ := C02_exact_payment (OE.payOf s m) _ sender isAdmin funds true (Or.inr (Or.inl rfl)) hmint
  have := OE.mintPrice_eq hp
  rw [show (OE.payOf s m).v = OE.payVariant from rfl, show (OE.payOf s m).f = OE.payFactory s.params from rfl,
    show (OE.payOf s m).m = OE.payMinter s m from rfl, show (OE.payOf s m).now = s.now from rfl, this] at hsel
  cases hsel
  exact ⟨price, hp, hf⟩

/-- fee routing: the bank after an accepted mint = funds to the minter, `distribute_mint_fees(fee, false, Some(dev))` when the
fee is non-zero (half to the developer, the rest 1/5 liquidity DAO, 4/5 launchpad DAO), `price − fee` to the seller, nothing else -/
theorem C02_fulloe_fee_routing (s s' : OE.State) (m : OE.Minter) (op : OE.Op) (hm : s.minter = some m)
    (h : OE.step s op = .ok s') (sender : Addr) (funds : List Coin) (isAdmin : Bool)
    (hop : (∃ f sv, op = .mint sender funds f sv ∧ isAdmin = false) ∨ (∃ r, op = .mintTo sender funds r ∧ isAdmin = true)) :
    ∃ price b1, OE.mintPrice s m isAdmin = .ok price ∧
      s.bank.sendFunds sender m.addr (LP.exactFunds price) = some b1 ∧
      OE.networkFee s.params isAdmin price ≤ price.amount ∧
      MintPay.applyMsgs m.addr b1
        ((if OE.networkFee s.params isAdmin price = 0 then []
          else Sg1.distributeMintFees ⟨price.denom, OE.networkFee s.params isAdmin price⟩ false
                 (some (s.params.dev.getD LAUNCHPAD_DAO))) ++
         (if price.amount - OE.networkFee s.params isAdmin price = 0 then []
          else [Msg.send (OE.seller m) ⟨price.denom, price.amount - OE.networkFee s.params isAdmin price⟩])) = some s'.bank := by
  obtain ⟨hmint, price, hp⟩ := OE.mint_is_pay_mint hm h sender funds isAdmin hop
  obtain ⟨price', b1, hsel, hb1, hle, happ⟩ :=
    C02_fee_routing (OE.payOf s m) _ sender isAdmin funds true (Or.inr (Or.inl rfl)) hmint
  have := OE.mintPrice_eq hp
  rw [show (OE.payOf s m).v = OE.payVariant from rfl, show (OE.payOf s m).f = OE.payFactory s.params from rfl,
    show (OE.payOf s m).m = OE.payMinter s m from rfl, show (OE.payOf s m).now = s.now from rfl, this] at hsel
  cases hsel
  rw [show (OE.payOf s m).f = OE.payFactory s.params from rfl, OE.networkFee_eq] at hle happ
  exact ⟨price, b1, hp, hb1, hle, happ⟩

/-- the minter contract's own balance is unchanged by every accepted mint whose payer is not the minter itself -/
theorem C02_fulloe_minter_balance_unchanged (s s' : OE.State) (m : OE.Minter) (op : OE.Op) (hm : s.minter = some m)
    (h : OE.step s op = .ok s') (sender : Addr) (funds : List Coin) (isAdmin : Bool)
    (hop : (∃ f sv, op = .mint sender funds f sv ∧ isAdmin = false) ∨ (∃ r, op = .mintTo sender funds r ∧ isAdmin = true))
    (hsm : sender ≠ m.addr)
    (hrec : m.addr ∉ MintPay.recipients OE.payVariant (OE.payFactory s.params) (OE.payMinter s m)) (d : Denom) :
    s'.bank.bal m.addr d = s.bank.bal m.addr d := by
  obtain ⟨hmint, _⟩ := OE.mint_is_pay_mint hm h sender funds isAdmin hop
  exact C02_minter_balance_unchanged (OE.payOf s m) _ sender isAdmin funds true hmint
    (Or.inl (by simp [OE.payOf, OE.payVariant])) hsm hrec d

/-- conservation: an accepted composite mint creates, loses and strands nothing; a sale burns nothing -/
theorem C02_fulloe_conservation (s s' : OE.State) (m : OE.Minter) (op : OE.Op) (hm : s.minter = some m)
    (h : OE.step s op = .ok s') (sender : Addr) (funds : List Coin) (isAdmin : Bool)
    (hop : (∃ f sv, op = .mint sender funds f sv ∧ isAdmin = false) ∨ (∃ r, op = .mintTo sender funds r ∧ isAdmin = true))
    (accts : List Addr) (hn : accts.Nodup) (hsnd : sender ∈ accts) (hmin : m.addr ∈ accts)
    (hrec : ∀ a ∈ MintPay.recipients OE.payVariant (OE.payFactory s.params) (OE.payMinter s m), a ∈ accts)
    (d : Denom) :
    s'.bank.total accts d + s'.bank.burned d = s.bank.total accts d + s.bank.burned d ∧
    s'.bank.minted d = s.bank.minted d ∧ s'.bank.burned d = s.bank.burned d := by
  obtain ⟨hmint, _⟩ := OE.mint_is_pay_mint hm h sender funds isAdmin hop
  obtain ⟨h1, h2, h3⟩ := C02_conservation (OE.payOf s m) _ sender isAdmin funds true accts hn hsnd hmin hrec hmint d
  exact ⟨h1, h2, h3 (by simp [OE.payOf, OE.payVariant])⟩

/-- the minter's own balance is unchanged after ANY composite history (every message kind of the family), as long as nobody
funds the minter directly, the minter is not its own payer or payee and governance never makes it the developer -/
theorem C02_fulloe_history_minter_never_holds (s : OE.State) (m : OE.Minter) (hm : s.minter = some m) (ops : List OE.Op)
    (haway : OE.PayAwayRun m.addr s ops)
    (hrec : m.addr ∉ MintPay.recipients OE.payVariant (OE.payFactory s.params) (OE.payMinter s m)) (d : Denom) :
    (OE.run s ops).bank.bal m.addr d = s.bank.bal m.addr d := by
  obtain ⟨m', _, heq⟩ := OE.pay_run s m hm ops
  have := C02_history_minter_never_holds (OE.payOf s m) (OE.payRunOps s ops) hrec
    (OE.payRunOps_away s ops m.addr haway) d
  rw [← heq] at this
  exact this

/-! ## C04 — sale window and entitlement (open-edition shape)

Projection `OE.swOf` (variant shape, clock, factory denom / minimum / airdrop price, and the edition's schedule INCLUDING the
optional end time, price, limits, optional remaining count and the counter maps); the aspect model's structural whitelist pool
is refreshed from the interface answers (`Op.wlEnv` with `VF.synthWl`) right before every op that reads it, exactly as for the
vending family.  Translation `OE.swOps` = forward simulation with stuttering.  Environment assumptions (`OE.SwEnv`): one denom
for the factory minimum and the airdrop price, coherent whitelist answers; along runs also: governance does not change the
projected parameters. -/

namespace OE

theorem sw_sim (s : State) (m : Minter) (hm : s.minter = some m) (op : Op) (henv : SwEnv s)
    (hps : swParams (step' s op).params = swParams s.params) (W : Nat → Option SaleWindow.Wl) :
    ∃ m' W', (step' s op).minter = some m' ∧
      SaleWindow.run (swOf s m W) (swOps s m op) = swOf (step' s op) m' W' := by
  rcases step'_cases s op with ⟨s', hok, hs'⟩ | ⟨⟨e, herr⟩, hs'⟩
  · rw [hs'] at hps ⊢
    exact sw_sim_ok hm hok henv hps W
  · rw [hs']
    exact ⟨m, W, hm, by simp [swOps, accepted_of_err herr, sw_run_nil]⟩

def swRunOps (s : State) : List Op → List SaleWindow.Op
  | [] => []
  | op :: rest =>
    (match s.minter with
     | some m => swOps s m op
     | none => []) ++ swRunOps (step' s op) rest

/-- the environment assumptions hold along the whole history -/
def SwEnvRun (s : State) : List Op → Prop
  | [] => True
  | op :: rest => SwEnv s ∧ swParams (step' s op).params = swParams s.params ∧ SwEnvRun (step' s op) rest

/-- **lift to runs** -/
theorem sw_run (s : State) (m : Minter) (hm : s.minter = some m) (ops : List Op)
    (henv : SwEnvRun s ops) (W : Nat → Option SaleWindow.Wl) :
    ∃ m' W', (run s ops).minter = some m' ∧
      SaleWindow.run (swOf s m W) (swRunOps s ops) = swOf (run s ops) m' W' := by
  induction ops generalizing s m W with
  | nil => exact ⟨m, W, hm, rfl⟩
  | cons op ops ih =>
    obtain ⟨h1, h2, h3⟩ := henv
    obtain ⟨m1, W1, hm1, heq⟩ := sw_sim s m hm op h1 h2 W
    obtain ⟨m', W', hm', hrun⟩ := ih (step' s op) m1 hm1 h3 W1
    refine ⟨m', W', by rw [run_cons]; exact hm', ?_⟩
    simp only [swRunOps, hm]
    rw [sw_run_append, heq, hrun, run_cons]

/-- the synthesised whitelist is active exactly when the interface says so -/
theorem synth_isActive (i : Option VF.WlInfo) (now : Nat) (ms : List (Addr × Nat)) (ls : List SaleWindow.Leaf) :
    (VF.synthWl i now ms ls).isActive now = (match i with | some i => i.active | none => false) := by
  cases i with
  | none => simp [VF.synthWl, SaleWindow.Wl.isActive, SaleWindow.Wl.activeStage, SaleWindow.WlKind.isTiered]
  | some i =>
    simp only [SaleWindow.Wl.isActive, VF.synth_activeStage]
    cases i.active <;> simp

end OE

/-- the C04 simulation: one composite step = the translated aspect ops on the projection -/
theorem C04_fulloe_refines (s : OE.State) (m : OE.Minter) (hm : s.minter = some m) (op : OE.Op)
    (henv : OE.SwEnv s) (hps : OE.swParams (OE.step' s op).params = OE.swParams s.params)
    (W : Nat → Option SaleWindow.Wl) :
    ∃ m' W', (OE.step' s op).minter = some m' ∧
      SaleWindow.run (OE.swOf s m W) (OE.swOps s m op) = OE.swOf (OE.step' s op) m' W' :=
  OE.sw_sim s m hm op henv hps W

/-- the two independently written whitelist gates agree (composite `is_public_mint`, including the extra
`wl_mint_count < per_address_limit` of an uncapped -wl-flex edition, vs `SaleWindow.isPublicMint` on the synthesised
whitelist) -/
theorem C04_fulloe_gate_agrees (s : OE.State) (m : OE.Minter) (sender : Addr) (funds : List Coin) (f : MintLimits.Fields)
    (sv : VF.SenderView) (g : VF.MintKind) (W : Nat → Option SaleWindow.Wl)
    (hco : ∀ a i, m.whitelist = some a → s.wls a = some i → OE.InfoCoherent i)
    (hW : ∀ a i, m.whitelist = some a → s.wls a = some i → W a = some (OE.mintWl i s.now sender f sv))
    (hg : OE.isPublicMint s m sender f sv = .ok g) :
    SaleWindow.isPublicMint (OE.swOf s m W) (OE.swMinter m) (OE.mintArgsOf s m sender funds f sv) = .ok (OE.swKindOf g) :=
  OE.sw_isPublicMint W hco hW hg

/-- "A public mint never succeeds before the mint start time" -/
theorem C04_fulloe_public_after_start (s s' : OE.State) (m : OE.Minter) (hm : s.minter = some m) (sender : Addr)
    (funds : List Coin) (f : MintLimits.Fields) (sv : VF.SenderView)
    (h : OE.step s (.mint sender funds f sv) = .ok s') (henv : OE.SwEnv s)
    (hna : ∀ a i, m.whitelist = some a → s.wls a = some i → i.active = false) : m.startTime ≤ s.now := by
  simp only [OE.step] at h
  obtain ⟨m0, hm0, h⟩ := OE.withMinterS_ok h
  rw [hm] at hm0; cases hm0
  obtain ⟨W1, _, hW1⟩ := OE.sw_refreshAttached s m (fun _ => none) (OE.membersOf sender sv) (OE.leavesOf sender f sv)
  obtain ⟨m', _, hstep⟩ := OE.sw_mint_step h henv.infos W1 hW1
  refine SaleWindow.C04_public_after_start (OE.swOf s m W1) _ (OE.swMinter m) _ rfl hstep ?_
  rintro ⟨k, w, hk, hw, hact⟩
  have hk' : m.whitelist = some k := hk
  have hw' : W1 k = some w := hw
  rw [hW1 k hk'] at hw'
  cases hw'
  have := OE.synth_isActive (s.wls k) s.now (OE.membersOf sender sv) (OE.leavesOf sender f sv)
  rw [show (OE.swOf s m W1).now = s.now from rfl] at hact
  rw [hact] at this
  cases hi : s.wls k with
  | none => rw [hi] at this; cases this
  | some i =>
    rw [hi] at this
    have hx : i.active = true := this.symm
    rw [hna k i hk' hi] at hx; cases hx

/-- "While an attached whitelist is active, a buyer's mint succeeds only if the buyer is a member (or holds a valid Merkle
proof bound to the sender) and is charged the whitelist price" -/
theorem C04_fulloe_wl_gate (s s' : OE.State) (m : OE.Minter) (hm : s.minter = some m) (sender : Addr)
    (funds : List Coin) (f : MintLimits.Fields) (sv : VF.SenderView)
    (h : OE.step s (.mint sender funds f sv) = .ok s') (henv : OE.SwEnv s)
    (a : Addr) (i : VF.WlInfo) (ha : m.whitelist = some a) (hi : s.wls a = some i) (hact : i.active = true) :
    (sv.memberPlain = true ∨ sv.leafOk = true) ∧ mayPay funds i.price.denom = .ok i.price.amount := by
  simp only [OE.step] at h
  obtain ⟨m0, hm0, h⟩ := OE.withMinterS_ok h
  rw [hm] at hm0; cases hm0
  obtain ⟨W1, _, hW1⟩ := OE.sw_refreshAttached s m (fun _ => none) (OE.membersOf sender sv) (OE.leavesOf sender f sv)
  obtain ⟨m', _, hstep⟩ := OE.sw_mint_step h henv.infos W1 hW1
  have hWa : (OE.swOf s m W1).wls a = some (OE.mintWl i s.now sender f sv) := by
    show W1 a = _
    rw [hW1 a ha, hi]; rfl
  have hactive : (OE.mintWl i s.now sender f sv).isActive (OE.swOf s m W1).now = true := by
    show (VF.synthWl (some i) s.now _ _).isActive s.now = true
    rw [OE.synth_isActive]; exact hact
  obtain ⟨⟨st, hst, hent⟩, st', hst', hpay⟩ :=
    SaleWindow.C04_wl_gate (OE.swOf s m W1) _ (OE.swMinter m) _ a _ rfl ha hWa hactive hstep
  have hlive := VF.synth_activeStage i s.now (OE.membersOf sender sv) (OE.leavesOf sender f sv)
  simp only [hact, if_true] at hlive
  have hst1 : st = VF.liveStage i s.now (OE.membersOf sender sv) (OE.leavesOf sender f sv) := by
    have : (OE.mintWl i s.now sender f sv).activeStage s.now = some st := hst
    rw [show OE.mintWl i s.now sender f sv = VF.synthWl (some i) s.now _ _ from rfl, hlive] at this
    cases this; rfl
  have hst2 : st' = VF.liveStage i s.now (OE.membersOf sender sv) (OE.leavesOf sender f sv) := by
    have : (OE.mintWl i s.now sender f sv).activeStage s.now = some st' := hst'
    rw [show OE.mintWl i s.now sender f sv = VF.synthWl (some i) s.now _ _ from rfl, hlive] at this
    cases this; rfl
  subst hst1 hst2
  refine ⟨?_, hpay⟩
  rcases hent with hmem | ⟨idx, _, _, hleaf⟩
  · left
    cases hmp : sv.memberPlain with
    | true => rfl
    | false =>
      exfalso
      have hmem' : (VF.liveStage i s.now (OE.membersOf sender sv) (OE.leavesOf sender f sv)).hasMember sender = true := hmem
      simp [SaleWindow.Stage.hasMember, VF.liveStage, OE.membersOf, hmp] at hmem'
  · right
    cases hlo : sv.leafOk with
    | true => rfl
    | false =>
      exfalso
      simp [VF.liveStage, OE.leavesOf, hlo] at hleaf

/-- "no mint of any kind at or after the end": an accepted composite buyer `Mint` of an edition with an end time happened
strictly before it -/
theorem C04_fulloe_mint_before_end (s s' : OE.State) (m : OE.Minter) (hm : s.minter = some m) (sender : Addr)
    (funds : List Coin) (f : MintLimits.Fields) (sv : VF.SenderView) (e : Nat) (he : m.endTime = some e)
    (h : OE.step s (.mint sender funds f sv) = .ok s') (henv : OE.SwEnv s) : s.now < e := by
  simp only [OE.step] at h
  obtain ⟨m0, hm0, h⟩ := OE.withMinterS_ok h
  rw [hm] at hm0; cases hm0
  obtain ⟨W1, _, hW1⟩ := OE.sw_refreshAttached s m (fun _ => none) (OE.membersOf sender sv) (OE.leavesOf sender f sv)
  obtain ⟨m', _, hstep⟩ := OE.sw_mint_step h henv.infos W1 hW1
  exact SaleWindow.C04_oe_mint_before_end (OE.swOf s m W1) _ (OE.swMinter m) _ e rfl rfl he hstep

/-- … and so did an accepted airdrop (`MintTo`, the only admin mint of the family) -/
theorem C04_fulloe_airdrop_before_end (s s' : OE.State) (m : OE.Minter) (hm : s.minter = some m) (sender : Addr)
    (funds : List Coin) (rcpt : Addr) (e : Nat) (he : m.endTime = some e)
    (h : OE.step s (.mintTo sender funds rcpt) = .ok s') (henv : OE.SwEnv s) : s.now < e := by
  simp only [OE.step] at h
  obtain ⟨m0, hm0, h⟩ := OE.withMinterS_ok h
  rw [hm] at hm0; cases hm0
  obtain ⟨m', _, hstep⟩ := OE.sw_mintAdmin_step h henv.params (fun _ => none)
  exact SaleWindow.C04_oe_airdrop_before_end (OE.swOf s m (fun _ => none)) _ (OE.swMinter m) sender rcpt funds e rfl rfl he hstep

/-- the two together, in the property's words: at or after the end time EVERY message that mints (the family has no
`MintFor`) is rejected by the composite -/
theorem C04_fulloe_no_mint_at_or_after_end (s : OE.State) (m : OE.Minter) (hm : s.minter = some m) (e : Nat)
    (he : m.endTime = some e) (hlate : e ≤ s.now) (henv : OE.SwEnv s) :
    (∀ sender funds f sv, ∃ err, OE.step s (.mint sender funds f sv) = .error err) ∧
    (∀ sender funds rcpt, ∃ err, OE.step s (.mintTo sender funds rcpt) = .error err) := by
  constructor
  · intro sender funds f sv
    cases h : OE.step s (.mint sender funds f sv) with
    | error err => exact ⟨err, rfl⟩
    | ok s' => have := C04_fulloe_mint_before_end s s' m hm sender funds f sv e he h henv; omega
  · intro sender funds rcpt
    cases h : OE.step s (.mintTo sender funds rcpt) with
    | error err => exact ⟨err, rfl⟩
    | ok s' => have := C04_fulloe_airdrop_before_end s s' m hm sender funds rcpt e he h henv; omega

/-- once `now ≥ start_time` has held, the start time and the attached whitelist are the same after EVERY composite
continuation -/
theorem C04_fulloe_started_is_final (s : OE.State) (m : OE.Minter) (hm : s.minter = some m)
    (hstarted : m.startTime ≤ s.now) (ops : List OE.Op) (henv : OE.SwEnvRun s ops) :
    ∃ m', (OE.run s ops).minter = some m' ∧ m'.startTime = m.startTime ∧ m'.whitelist = m.whitelist := by
  obtain ⟨m', W', hm', heq⟩ := OE.sw_run s m hm ops henv (fun _ => none)
  obtain ⟨m1, hm1, h1, h2⟩ :=
    SaleWindow.C04_started_is_final (OE.swOf s m (fun _ => none)) (OE.swMinter m) (OE.swRunOps s ops) rfl hstarted
  rw [heq] at hm1
  simp only [OE.swOf, Option.some.injEq] at hm1
  subst hm1
  exact ⟨m', hm', h1, h2⟩

/-- once `now ≥ end_time` has held, the end time is the same after EVERY composite continuation (`UpdateEndTime` included) -/
theorem C04_fulloe_ended_is_final (s : OE.State) (m : OE.Minter) (hm : s.minter = some m) (e : Nat)
    (he : m.endTime = some e) (hended : e ≤ s.now) (ops : List OE.Op) (henv : OE.SwEnvRun s ops) :
    ∃ m', (OE.run s ops).minter = some m' ∧ m'.endTime = some e := by
  obtain ⟨m', W', hm', heq⟩ := OE.sw_run s m hm ops henv (fun _ => none)
  obtain ⟨m1, hm1, h1⟩ :=
    SaleWindow.C04_ended_is_final (OE.swOf s m (fun _ => none)) (OE.swMinter m) e (OE.swRunOps s ops) rfl he hended
  rw [heq] at hm1
  simp only [OE.swOf, Option.some.injEq] at hm1
  subst hm1
  exact ⟨m', hm', h1⟩

/-! ## C07 — price rules (open-edition rules)

Projection `OE.priceOf` onto the whitelist-free part of `PriceRules.World` with `oe := true` (clock, factory minimum and airdrop
price, public price, start time, END time, "has a token cap"; no discount); translation `OE.priceOps` (forward simulation with
stuttering) for EVERY message of the family (`UpdateEndTime` ↦ `PriceRules.Op.updateEnd`). -/

namespace OE

/-- an ACCEPTED composite message acts on the projection as the translated aspect ops (all of which are accepted) -/
theorem price_sim_ok {s s' : State} {m : Minter} {op : Op} (hm : s.minter = some m) (h : step s op = .ok s') :
    ∃ m', s'.minter = some m' ∧ PriceRules.run (priceOf s m) (priceOps s op) = priceOf s' m' := by
  have hacc := accepted_of_ok h
  cases op with
  | setTime t =>
    simp only [step] at h; split at h <;> cases h
    exact ⟨m, hm, by simp [priceOps, hacc, PriceRules.run, PriceRules.step', PriceRules.step, priceOf]⟩
  | fund a c =>
    simp only [step] at h; cases h
    exact ⟨m, hm, by simp [priceOps, hacc, PriceRules.run]; rfl⟩
  | wlEnv k i =>
    simp only [step] at h; cases h
    exact ⟨m, hm, by simp [priceOps, hacc, PriceRules.run]; rfl⟩
  | sudoParams u =>
    simp only [step] at h
    split at h
    · cases h
    · rename_i p hp
      cases h
      exact ⟨m, hm, by simp only [priceOps, hacc, if_true]; exact price_sudo hp⟩
  | create sender funds msg w =>
    simp only [step] at h
    obtain ⟨_, _, _, _, _, hnone, _⟩ := createMinter_ok h
    rw [hm] at hnone; cases hnone
  | instantiateDirect sender => simp [step] at h
  | mint sender funds f sv =>
    simp only [step] at h
    obtain ⟨m0, hm0, h⟩ := withMinterS_ok h
    rw [hm] at hm0; cases hm0
    obtain ⟨b1, g, _, _, _, _, _, h⟩ := mintSender_ok h
    obtain ⟨price, ms, sq, b2, _, _, _, _, _, _, _, rfl⟩ := executeMint_ok h
    refine ⟨_, rfl, ?_⟩
    simp only [priceOps, hacc, if_true, PriceRules.run, List.foldl_nil]
    cases g with
    | pub => rfl
    | wl sid cnt => simp only [priceOf, priceMinter, bookCount]; split <;> rfl
  | mintTo sender funds rcpt =>
    simp only [step] at h
    obtain ⟨m0, hm0, h⟩ := withMinterS_ok h
    rw [hm] at hm0; cases hm0
    obtain ⟨b1, _, _, _, h⟩ := mintAdmin_ok h
    obtain ⟨price, ms, sq, b2, _, _, _, _, _, _, _, rfl⟩ := executeMint_ok h
    exact ⟨_, rfl, by simp [priceOps, hacc, PriceRules.run]; rfl⟩
  | updateMintPrice sender funds p =>
    simp only [step] at h
    obtain ⟨m0, m', hm0, hf, rfl⟩ := withMinter_ok h
    rw [hm] at hm0; cases hm0
    refine ⟨_, rfl, ?_⟩
    simp only [priceOps, hacc, if_true, price_run_one]
    exact price_step'_ok (price_updateMintPrice hf)
  | updateStartTime sender funds t =>
    simp only [step] at h
    obtain ⟨m0, m', hm0, hf, rfl⟩ := withMinter_ok h
    rw [hm] at hm0; cases hm0
    refine ⟨_, rfl, ?_⟩
    simp only [priceOps, hacc, if_true, price_run_one]
    exact price_step'_ok (price_updateStart hf)
  | updateEndTime sender funds t =>
    simp only [step] at h
    obtain ⟨m0, m', hm0, hf, rfl⟩ := withMinter_ok h
    rw [hm] at hm0; cases hm0
    refine ⟨_, rfl, ?_⟩
    simp only [priceOps, hacc, if_true, price_run_one]
    exact price_step'_ok (price_updateEnd hf)
  | setWhitelist sender funds wl valid =>
    simp only [step] at h
    obtain ⟨m0, m', hm0, hf, rfl⟩ := withMinter_ok h
    rw [hm] at hm0; cases hm0
    obtain ⟨_, _, _, _, _, _, _, _, _, _, _, rfl⟩ := setWhitelist_ok hf
    exact ⟨_, rfl, by simp [priceOps, hacc, PriceRules.run]; rfl⟩
  | purge sender funds =>
    simp only [step] at h
    obtain ⟨m0, m', hm0, hf, rfl⟩ := withMinter_ok h
    rw [hm] at hm0; cases hm0
    obtain ⟨_, _, _, rfl⟩ := purge_ok hf
    exact ⟨_, rfl, by simp [priceOps, hacc, PriceRules.run]; rfl⟩
  | updateStartTradingTime sender funds t =>
    simp only [step] at h
    obtain ⟨m0, m', hm0, hf, rfl⟩ := withMinter_ok h
    rw [hm] at hm0; cases hm0
    obtain ⟨_, _, _, _, _, rfl⟩ := updateStartTradingTime_ok hf
    exact ⟨_, rfl, by simp [priceOps, hacc, PriceRules.run]; rfl⟩
  | updatePerAddressLimit sender funds n =>
    simp only [step] at h
    obtain ⟨m0, m', hm0, hf, rfl⟩ := withMinter_ok h
    rw [hm] at hm0; cases hm0
    obtain ⟨_, _, _, _, rfl⟩ := updatePerAddressLimit_ok hf
    exact ⟨_, rfl, by simp [priceOps, hacc, PriceRules.run]; rfl⟩
  | burnRemaining sender funds =>
    simp only [step] at h
    obtain ⟨m0, m', hm0, hf, rfl⟩ := withMinter_ok h
    rw [hm] at hm0; cases hm0
    obtain ⟨_, _, _, _, _, rfl⟩ := burnRemaining_ok hf
    exact ⟨_, rfl, by simp [priceOps, hacc, PriceRules.run]; rfl⟩
  | sudoStatus v b e =>
    simp only [step] at h
    obtain ⟨m0, m', hm0, hf, rfl⟩ := withMinter_ok h
    rw [hm] at hm0; cases hm0
    cases hf
    exact ⟨_, rfl, by simp [priceOps, hacc, PriceRules.run]; rfl⟩
  | collTransfer sender id to =>
    simp only [step] at h
    obtain ⟨m0, m', hm0, hf, rfl⟩ := withMinter_ok h
    rw [hm] at hm0; cases hm0
    obtain ⟨_, _, _, _, rfl⟩ := collTransfer_ok hf
    exact ⟨_, rfl, by simp [priceOps, hacc, PriceRules.run]; rfl⟩
  | collBurn sender id =>
    simp only [step] at h
    obtain ⟨m0, m', hm0, hf, rfl⟩ := withMinter_ok h
    rw [hm] at hm0; cases hm0
    obtain ⟨_, _, _, rfl⟩ := collBurn_ok hf
    exact ⟨_, rfl, by simp [priceOps, hacc, PriceRules.run]; rfl⟩
  | collTrading sender t =>
    simp only [step] at h
    obtain ⟨m0, c, hm0, _, rfl⟩ := onColl_ok h
    rw [hm] at hm0; cases hm0
    exact ⟨_, rfl, by simp [priceOps, hacc, PriceRules.run]; rfl⟩
  | collCreator sender new =>
    simp only [step] at h
    obtain ⟨m0, c, hm0, _, rfl⟩ := onColl_ok h
    rw [hm] at hm0; cases hm0
    exact ⟨_, rfl, by simp [priceOps, hacc, PriceRules.run]; rfl⟩
  | collFreeze sender =>
    simp only [step] at h
    obtain ⟨m0, c, hm0, _, rfl⟩ := onColl_ok h
    rw [hm] at hm0; cases hm0
    exact ⟨_, rfl, by simp [priceOps, hacc, PriceRules.run]; rfl⟩
  | collOwn sender a =>
    simp only [step] at h
    obtain ⟨m0, c, hm0, _, rfl⟩ := onColl_ok h
    rw [hm] at hm0; cases hm0
    exact ⟨_, rfl, by simp [priceOps, hacc, PriceRules.run]; rfl⟩

/-- one-step simulation, both outcomes -/
theorem price_sim (s : State) (m : Minter) (hm : s.minter = some m) (op : Op) :
    ∃ m', (step' s op).minter = some m' ∧ PriceRules.run (priceOf s m) (priceOps s op) = priceOf (step' s op) m' := by
  rcases step'_cases s op with ⟨s', hok, hs'⟩ | ⟨⟨e, herr⟩, hs'⟩
  · obtain ⟨m', hm', heq⟩ := price_sim_ok hm hok
    rw [hs']; exact ⟨m', hm', heq⟩
  · rw [hs']
    exact ⟨m, hm, by simp [priceOps, accepted_of_err herr, PriceRules.run]⟩

def priceRunOps (s : State) : List Op → List PriceRules.Op
  | [] => []
  | op :: rest => priceOps s op ++ priceRunOps (step' s op) rest

theorem price_run_append (w : PriceRules.World) (a b : List PriceRules.Op) :
    PriceRules.run w (a ++ b) = PriceRules.run (PriceRules.run w a) b := by
  simp [PriceRules.run, List.foldl_append]

/-- **lift to runs** -/
theorem price_run (s : State) (m : Minter) (hm : s.minter = some m) (ops : List Op) :
    ∃ m', (run s ops).minter = some m' ∧ PriceRules.run (priceOf s m) (priceRunOps s ops) = priceOf (run s ops) m' := by
  induction ops generalizing s m with
  | nil => exact ⟨m, hm, rfl⟩
  | cons op ops ih =>
    obtain ⟨m1, hm1, heq⟩ := price_sim s m hm op
    obtain ⟨m', hm', hrun⟩ := ih (step' s op) m1 hm1
    refine ⟨m', by rw [run_cons]; exact hm', ?_⟩
    simp only [priceRunOps]
    rw [price_run_append, heq, hrun, run_cons]

end OE

/-- the C07 simulation: one composite step (ANY message) = the translated aspect ops on the projection -/
theorem C07_fulloe_refines (s : OE.State) (m : OE.Minter) (hm : s.minter = some m) (op : OE.Op) :
    ∃ m', (OE.step' s op).minter = some m' ∧
      PriceRules.run (OE.priceOf s m) (OE.priceOps s op) = OE.priceOf (OE.step' s op) m' :=
  OE.price_sim s m hm op

/-- Clause 1 (floor) at creation, plus the open-edition creation rules: an accepted `CreateMinter` has its price in the denom
of the factory minimum and at least that minimum; the start lies strictly in the future; and WITHOUT a token cap the price and
the factory's airdrop price are non-zero and an end time is given -/
theorem C07_fulloe_create_rules (s s' : OE.State) (sender : Addr) (funds : List Coin) (msg : OE.CreateMsg) (w : OE.CreateWit)
    (h : OE.step s (.create sender funds msg w) = .ok s') :
    s.params.minMintPrice.amount ≤ msg.mintPrice.amount ∧ s.params.minMintPrice.denom = msg.mintPrice.denom ∧
    s.now < msg.startTime ∧
    (msg.numTokens = none → msg.mintPrice.amount ≠ 0 ∧ s.params.airdropMintPrice.amount ≠ 0 ∧ msg.endTime.isSome = true) ∧
    ∃ m', s'.minter = some m' ∧ m'.mintPrice = msg.mintPrice := by
  obtain ⟨m', hm', hstep⟩ := OE.price_create h
  obtain ⟨hfut, _, hunc, hamt, hden, m2, hm2, hp, _⟩ :=
    C07_oe_create_rules (OE.priceInit s) _ msg.creator msg.mintPrice msg.startTime msg.endTime msg.numTokens.isSome none rfl hstep
  simp only [OE.priceOf, Option.some.injEq] at hm2
  subst hm2
  refine ⟨hamt, hden, hfut, ?_, m', hm', hp⟩
  intro hn
  exact hunc (by rw [hn]; rfl)

/-- Clause 1 (floor) for `UpdateMintPrice`: an accepted one sets a price at least the factory minimum in force at that moment -/
theorem C07_fulloe_floor (s s' : OE.State) (m : OE.Minter) (hm : s.minter = some m) (sender : Addr) (funds : List Coin) (p : Nat)
    (h : OE.step s (.updateMintPrice sender funds p) = .ok s') : s.params.minMintPrice.amount ≤ p := by
  simp only [OE.step] at h
  obtain ⟨m0, m', hm0, hf, rfl⟩ := OE.withMinter_ok h
  rw [hm] at hm0; cases hm0
  exact C07_floor (OE.priceOf s m) _ _ ⟨m.mintPrice.denom, p⟩ (OE.price_updateMintPrice hf) rfl

/-- Clause 1 (floor) for `SetWhitelist` — proved on the composite directly (the aspect model's immutable whitelists cannot
represent the interface): an accepted `SetWhitelist` attaches a whitelist whose price is at least the factory minimum, in the
factory's denom and (all three crates) in the edition's own denom -/
theorem C07_fulloe_set_whitelist_floor (s s' : OE.State) (m : OE.Minter) (hm : s.minter = some m) (sender : Addr)
    (funds : List Coin) (wl : Addr) (valid : Bool) (h : OE.step s (.setWhitelist sender funds wl valid) = .ok s') :
    ∃ i, OE.wlConfig s m.v wl = .ok i ∧ s.params.minMintPrice.amount ≤ i.price.amount ∧
      s.params.minMintPrice.denom = i.price.denom ∧ i.price.denom = m.mintPrice.denom := by
  simp only [OE.step] at h
  obtain ⟨m0, m', hm0, hf, rfl⟩ := OE.withMinter_ok h
  rw [hm] at hm0; cases hm0
  obtain ⟨i, _, _, _, _, _, hi, _, hden, hamt, hfd, _⟩ := OE.setWhitelist_ok hf
  exact ⟨i, hi, hamt, hfd, hden⟩

/-- Clause 2: "once the mint has started the public price can only be lowered" -/
theorem C07_fulloe_only_lower_after_start (s s' : OE.State) (m : OE.Minter) (hm : s.minter = some m) (sender : Addr)
    (funds : List Coin) (p : Nat) (hstarted : m.startTime ≤ s.now)
    (h : OE.step s (.updateMintPrice sender funds p) = .ok s') :
    p < m.mintPrice.amount ∧ ∃ m', s'.minter = some m' ∧ m'.mintPrice = ⟨m.mintPrice.denom, p⟩ := by
  simp only [OE.step] at h
  obtain ⟨m0, m', hm0, hf, rfl⟩ := OE.withMinter_ok h
  rw [hm] at hm0; cases hm0
  obtain ⟨hlt, m1, hm1, hp⟩ := C07_only_lower_after_start (OE.priceOf s m) _ sender _ p (OE.priceMinter m) rfl hstarted
    (OE.price_updateMintPrice hf)
  simp only [OE.priceOf, Option.some.injEq] at hm1
  subst hm1
  exact ⟨hlt, m', rfl, hp⟩

/-- the open-edition rules of `UpdateMintPrice`: never at or after the end time, and an edition without a token cap never
gets a zero price -/
theorem C07_fulloe_update_rules (s s' : OE.State) (m : OE.Minter) (hm : s.minter = some m) (sender : Addr)
    (funds : List Coin) (p : Nat) (h : OE.step s (.updateMintPrice sender funds p) = .ok s') :
    (∀ e, m.endTime = some e → s.now < e) ∧ (m.numTokens = none → p ≠ 0) := by
  simp only [OE.step] at h
  obtain ⟨m0, m', hm0, hf, rfl⟩ := OE.withMinter_ok h
  rw [hm] at hm0; cases hm0
  obtain ⟨m1, m2, hm1, _, hend, hz, _⟩ :=
    C07_oe_update_rules (OE.priceOf s m) _ sender _ p rfl (OE.price_updateMintPrice hf)
  simp only [OE.priceOf, Option.some.injEq] at hm1
  subst hm1
  exact ⟨hend, fun hn => hz (by simp [OE.priceMinter, hn])⟩

/-- `UpdateEndTime`: only the admin, only on an edition that has an end time which has not been reached, not into the past and
not before the start; nothing but the end time changes -/
theorem C07_fulloe_end_rules (s s' : OE.State) (m : OE.Minter) (hm : s.minter = some m) (sender : Addr)
    (funds : List Coin) (t : Nat) (h : OE.step s (.updateEndTime sender funds t) = .ok s') :
    ∃ e, sender = m.admin ∧ funds = [] ∧ m.endTime = some e ∧ s.now < e ∧ s.now ≤ t ∧ m.startTime ≤ t ∧
      s'.minter = some { m with endTime := some t } := by
  simp only [OE.step] at h
  obtain ⟨m0, m', hm0, hf, rfl⟩ := OE.withMinter_ok h
  rw [hm] at hm0; cases hm0
  obtain ⟨m1, m2, e, hm1, _, _, hadm, hpaid, he, h1, h2, h3, _⟩ :=
    C07_oe_end_rules (OE.priceOf s m) _ sender _ t (OE.price_updateEnd hf)
  simp only [OE.priceOf, Option.some.injEq] at hm1
  subst hm1
  obtain ⟨_, _, _, _, _, _, _, hm'⟩ := OE.updateEndTime_ok hf
  refine ⟨e, hadm, ?_, he, h1, h2, h3, by rw [hm']⟩
  cases funds with
  | nil => rfl
  | cons c cs => simp at hpaid

/-- an edition without a token cap never has price zero: from creation, after ANY composite history (every message kind) -/
theorem C07_fulloe_uncapped_never_free (s s1 : OE.State) (sender : Addr) (funds : List Coin) (msg : OE.CreateMsg)
    (w : OE.CreateWit) (hc : OE.step s (.create sender funds msg w) = .ok s1) (ops : List OE.Op) (m : OE.Minter)
    (hm : (OE.run s1 ops).minter = some m) (hcap : m.numTokens = none) : m.mintPrice.amount ≠ 0 := by
  obtain ⟨m1, hm1, hstep⟩ := OE.price_create hc
  obtain ⟨m', hm', heq⟩ := OE.price_run s1 m1 hm1 ops
  rw [hm] at hm'; cases hm'
  have hrun : PriceRules.run (PriceRules.init OE.priceVariant s.now (OE.priceFactory s.params))
      (.create msg.creator msg.mintPrice msg.startTime msg.endTime msg.numTokens.isSome none :: OE.priceRunOps s1 ops) =
      OE.priceOf (OE.run s1 ops) m := by
    have h0 : PriceRules.init OE.priceVariant s.now (OE.priceFactory s.params) = OE.priceInit s := rfl
    rw [h0]
    show PriceRules.run (PriceRules.step' (OE.priceInit s) _) _ = _
    rw [OE.price_step'_ok hstep, heq]
  exact C07_oe_uncapped_never_free OE.priceVariant rfl s.now (OE.priceFactory s.params) _ (OE.priceMinter m)
    (by rw [hrun]; rfl) (by simp [OE.priceMinter, hcap])

/-! ## C19 — trading start time

Projection `OE.ttOf` (family `.openEdition`, clock, the factory's `max_trading_offset_secs`, the minter's address, admin, mint start and END time, and the
collection's ownership / creator / frozen / trading-time record); translation `OE.ttOps` (forward simulation with stuttering);
Lemmas/OpenEditionFullTrading.lean. -/

namespace OE

theorem tt_sim_ok {s s' : State} {m : Minter} {op : Op} (hm : s.minter = some m) (h : step s op = .ok s') :
    ∃ m', s'.minter = some m' ∧ TT.run (ttOf s m) (ttOps s op) = ttOf s' m' := by
  have hacc := accepted_of_ok h
  cases op with
  | setTime t =>
    simp only [step] at h; split at h <;> cases h
    exact ⟨m, hm, by simp [ttOps, hacc, TT.run, TT.step', TT.step, ttOf]⟩
  | fund a c =>
    simp only [step] at h; cases h
    exact ⟨m, hm, by simp [ttOps, hacc, TT.run]; rfl⟩
  | wlEnv k i =>
    simp only [step] at h; cases h
    exact ⟨m, hm, by simp [ttOps, hacc, TT.run]; rfl⟩
  | sudoParams u =>
    simp only [step] at h
    split at h
    · cases h
    · rename_i p hp
      cases h
      refine ⟨m, hm, ?_⟩
      have hoff : p.maxTradingOffsetSecs = u.maxTradingOffsetSecs.getD s.params.maxTradingOffsetSecs := by
        unfold updateParams at hp
        peel hp
        cases hp; rfl
      simp [ttOps, hacc, TT.run, TT.step', TT.step, ttOf, hoff]
  | create sender funds msg w =>
    simp only [step] at h
    obtain ⟨_, _, _, _, _, hnone, _⟩ := createMinter_ok h
    rw [hm] at hnone; cases hnone
  | instantiateDirect sender => simp [step] at h
  | mint sender funds f sv =>
    simp only [step] at h
    obtain ⟨m0, hm0, h⟩ := withMinterS_ok h
    rw [hm] at hm0; cases hm0
    obtain ⟨b1, g, _, _, _, _, _, h⟩ := mintSender_ok h
    obtain ⟨price, ms, sup, b2, _, _, _, _, _, _, _, rfl⟩ := executeMint_ok h
    refine ⟨_, rfl, ?_⟩
    simp only [ttOps, hacc, if_true, TT.run, List.foldl_nil]
    cases g with
    | pub => rfl
    | wl sid cnt => simp only [ttOf, ttMinter, bookCount]; split <;> rfl
  | mintTo sender funds rcpt =>
    simp only [step] at h
    obtain ⟨m0, hm0, h⟩ := withMinterS_ok h
    rw [hm] at hm0; cases hm0
    obtain ⟨b1, _, _, _, h⟩ := mintAdmin_ok h
    obtain ⟨price, ms, sup, b2, _, _, _, _, _, _, _, rfl⟩ := executeMint_ok h
    exact ⟨_, rfl, by simp [ttOps, hacc, TT.run]; rfl⟩
  | updateStartTradingTime sender funds t =>
    simp only [step] at h
    obtain ⟨m0, m', hm0, hf, rfl⟩ := withMinter_ok h
    rw [hm] at hm0; cases hm0
    refine ⟨_, rfl, ?_⟩
    simp only [ttOps, hacc, if_true, tt_run_one]
    exact tt_step'_ok (tt_updTrading hf)
  | updateStartTime sender funds t =>
    simp only [step] at h
    obtain ⟨m0, m', hm0, hf, rfl⟩ := withMinter_ok h
    rw [hm] at hm0; cases hm0
    refine ⟨_, rfl, ?_⟩
    simp only [ttOps, hacc, if_true, tt_run_one]
    exact tt_step'_ok (tt_updStart hf)
  | updateEndTime sender funds t =>
    simp only [step] at h
    obtain ⟨m0, m', hm0, hf, rfl⟩ := withMinter_ok h
    rw [hm] at hm0; cases hm0
    refine ⟨_, rfl, ?_⟩
    simp only [ttOps, hacc, if_true, tt_run_one]
    exact tt_step'_ok (tt_updEnd hf)
  | setWhitelist sender funds wl valid =>
    simp only [step] at h
    obtain ⟨m0, m', hm0, hf, rfl⟩ := withMinter_ok h
    rw [hm] at hm0; cases hm0
    obtain ⟨_, _, _, _, _, _, _, _, _, _, _, rfl⟩ := setWhitelist_ok hf
    exact ⟨_, rfl, by simp [ttOps, hacc, TT.run]; rfl⟩
  | purge sender funds =>
    simp only [step] at h
    obtain ⟨m0, m', hm0, hf, rfl⟩ := withMinter_ok h
    rw [hm] at hm0; cases hm0
    obtain ⟨_, _, _, rfl⟩ := purge_ok hf
    exact ⟨_, rfl, by simp [ttOps, hacc, TT.run]; rfl⟩
  | updateMintPrice sender funds p =>
    simp only [step] at h
    obtain ⟨m0, m', hm0, hf, rfl⟩ := withMinter_ok h
    rw [hm] at hm0; cases hm0
    obtain ⟨_, _, _, _, _, _, rfl⟩ := updateMintPrice_ok hf
    exact ⟨_, rfl, by simp [ttOps, hacc, TT.run]; rfl⟩
  | updatePerAddressLimit sender funds n =>
    simp only [step] at h
    obtain ⟨m0, m', hm0, hf, rfl⟩ := withMinter_ok h
    rw [hm] at hm0; cases hm0
    obtain ⟨_, _, _, _, rfl⟩ := updatePerAddressLimit_ok hf
    exact ⟨_, rfl, by simp [ttOps, hacc, TT.run]; rfl⟩
  | burnRemaining sender funds =>
    simp only [step] at h
    obtain ⟨m0, m', hm0, hf, rfl⟩ := withMinter_ok h
    rw [hm] at hm0; cases hm0
    obtain ⟨_, _, _, _, _, rfl⟩ := burnRemaining_ok hf
    exact ⟨_, rfl, by simp [ttOps, hacc, TT.run]; rfl⟩
  | sudoStatus v b e =>
    simp only [step] at h
    obtain ⟨m0, m', hm0, hf, rfl⟩ := withMinter_ok h
    rw [hm] at hm0; cases hm0
    cases hf
    exact ⟨_, rfl, by simp [ttOps, hacc, TT.run]; rfl⟩
  | collTransfer sender id to =>
    simp only [step] at h
    obtain ⟨m0, m', hm0, hf, rfl⟩ := withMinter_ok h
    rw [hm] at hm0; cases hm0
    obtain ⟨_, _, _, _, rfl⟩ := collTransfer_ok hf
    exact ⟨_, rfl, by simp [ttOps, hacc, TT.run]; rfl⟩
  | collBurn sender id =>
    simp only [step] at h
    obtain ⟨m0, m', hm0, hf, rfl⟩ := withMinter_ok h
    rw [hm] at hm0; cases hm0
    obtain ⟨_, _, _, rfl⟩ := collBurn_ok hf
    exact ⟨_, rfl, by simp [ttOps, hacc, TT.run]; rfl⟩
  | collTrading sender t =>
    simp only [step] at h
    obtain ⟨m0, c, hm0, hc, rfl⟩ := onColl_ok h
    rw [hm] at hm0; cases hm0
    refine ⟨_, rfl, ?_⟩
    simp only [ttOps, hacc, if_true, tt_run_one]
    exact tt_step'_ok (by simp only [TT.step]; exact tt_onColl hc)
  | collCreator sender new =>
    simp only [step] at h
    obtain ⟨m0, c, hm0, hc, rfl⟩ := onColl_ok h
    rw [hm] at hm0; cases hm0
    refine ⟨_, rfl, ?_⟩
    simp only [ttOps, hacc, if_true, tt_run_one]
    exact tt_step'_ok (by simp only [TT.step]; exact tt_onColl hc)
  | collFreeze sender =>
    simp only [step] at h
    obtain ⟨m0, c, hm0, hc, rfl⟩ := onColl_ok h
    rw [hm] at hm0; cases hm0
    refine ⟨_, rfl, ?_⟩
    simp only [ttOps, hacc, if_true, tt_run_one]
    exact tt_step'_ok (by simp only [TT.step]; exact tt_onColl hc)
  | collOwn sender a =>
    simp only [step] at h
    obtain ⟨m0, c, hm0, hc, rfl⟩ := onColl_ok h
    rw [hm] at hm0; cases hm0
    refine ⟨_, rfl, ?_⟩
    simp only [ttOps, hacc, if_true, tt_run_one]
    exact tt_step'_ok (by simp only [TT.step]; exact tt_onColl hc)

theorem tt_sim (s : State) (m : Minter) (hm : s.minter = some m) (op : Op) :
    ∃ m', (step' s op).minter = some m' ∧ TT.run (ttOf s m) (ttOps s op) = ttOf (step' s op) m' := by
  rcases step'_cases s op with ⟨s', hok, hs'⟩ | ⟨⟨e, herr⟩, hs'⟩
  · obtain ⟨m', hm', heq⟩ := tt_sim_ok hm hok
    rw [hs']; exact ⟨m', hm', heq⟩
  · rw [hs']
    exact ⟨m, hm, by simp [ttOps, accepted_of_err herr, TT.run]⟩

def ttRunOps (s : State) : List Op → List TT.Op
  | [] => []
  | op :: rest => ttOps s op ++ ttRunOps (step' s op) rest

theorem tt_run_append (w : TT.World) (a b : List TT.Op) : TT.run w (a ++ b) = TT.run (TT.run w a) b := by
  simp [TT.run, List.foldl_append]

/-- **lift to runs** -/
theorem tt_run (s : State) (m : Minter) (hm : s.minter = some m) (ops : List Op) :
    ∃ m', (run s ops).minter = some m' ∧ TT.run (ttOf s m) (ttRunOps s ops) = ttOf (run s ops) m' := by
  induction ops generalizing s m with
  | nil => exact ⟨m, hm, rfl⟩
  | cons op ops ih =>
    obtain ⟨m1, hm1, heq⟩ := tt_sim s m hm op
    obtain ⟨m', hm', hrun⟩ := ih (step' s op) m1 hm1
    refine ⟨m', by rw [run_cons]; exact hm', ?_⟩
    simp only [ttRunOps]
    rw [tt_run_append, heq, hrun, run_cons]

/-- messages sent to the collection come from anybody but the minter contract's own address -/
def CollExternal (mi : Addr) : Op → Prop
  | .collTrading sender _ => sender ≠ mi
  | .collCreator sender _ => sender ≠ mi
  | .collFreeze sender => sender ≠ mi
  | .collOwn sender _ => sender ≠ mi
  | _ => True

theorem ttOps_external (s : State) (op : Op) (mi : Addr) (h : CollExternal mi op) :
    ∀ o ∈ ttOps s op, TT.Op.External mi o := by
  intro o ho
  unfold ttOps at ho
  split at ho
  · cases op <;> simp at ho <;> subst ho <;> first | trivial | exact h
  · simp at ho

theorem ttRunOps_external (s : State) (ops : List Op) (mi : Addr) (h : ∀ op ∈ ops, CollExternal mi op) :
    ∀ o ∈ ttRunOps s ops, TT.Op.External mi o := by
  induction ops generalizing s with
  | nil => intro o ho; simp [ttRunOps] at ho
  | cons op ops ih =>
    intro o ho
    simp only [ttRunOps, List.mem_append] at ho
    rcases ho with ho | ho
    · exact ttOps_external s op mi (h op (List.mem_cons_self ..)) o ho
    · exact ih (step' s op) (fun x hx => h x (List.mem_cons_of_mem _ hx)) o ho

end OE

/-- the C19 simulation: one composite step = the translated aspect ops on the projection -/
theorem C19_fulloe_refines (s : OE.State) (m : OE.Minter) (hm : s.minter = some m) (op : OE.Op) :
    ∃ m', (OE.step' s op).minter = some m' ∧ TT.run (OE.ttOf s m) (OE.ttOps s op) = OE.ttOf (OE.step' s op) m' :=
  OE.tt_sim s m hm op

/-- Clause 1 — creation: the trading start time a `CreateMinter` stores in the collection is no later than mint start plus the
offset in force, defaults to exactly that, is the requested value otherwise; the new collection is owned by the minter -/
theorem C19_fulloe_create_bound (s s' : OE.State) (sender : Addr) (funds : List Coin) (msg : OE.CreateMsg) (w : OE.CreateWit)
    (h : OE.step s (.create sender funds msg w) = .ok s') :
    ∃ m' t, s'.minter = some m' ∧ m'.tt.trading = some t ∧ m'.startTime = msg.startTime ∧
      t ≤ msg.startTime + s.params.maxTradingOffsetSecs * 1000000000 ∧
      (msg.trading = none → t = msg.startTime + s.params.maxTradingOffsetSecs * 1000000000) ∧
      (∀ x, msg.trading = some x → t = x) ∧
      m'.tt.owner = some w.minterAddr ∧ m'.tt.pending = none ∧ m'.admin = msg.creator ∧ m'.tt.creator = msg.creator := by
  obtain ⟨ck, m', _, hm', hstep⟩ := OE.tt_create h
  obtain ⟨mm, c, t, hmc, h1, h2, h3, h4, h5, h6, h7, h8, h9⟩ :=
    C19_create_bound (OE.ttInit s w.minterAddr) _ ck msg.creator msg.startTime msg.endTime msg.trading (by simp [OE.ttInit]) hstep
  simp only [OE.ttOf, Option.some.injEq, Prod.mk.injEq] at hmc
  obtain ⟨rfl, rfl⟩ := hmc
  exact ⟨m', t, hm', h1, h2, h3, h4, h5, h6, h7, h8, h9⟩

/-- Clause 2 — update: an accepted `UpdateStartTradingTime(Some t)` has `now ≤ t ≤ mint start + offset` with the mint start
and offset in force at that moment, and `t` is what the collection then shows -/
theorem C19_fulloe_update_bound (s s' : OE.State) (m : OE.Minter) (hm : s.minter = some m) (sender : Addr)
    (funds : List Coin) (t : Nat) (h : OE.step s (.updateStartTradingTime sender funds (some t)) = .ok s') :
    s.now ≤ t ∧ t ≤ m.startTime + s.params.maxTradingOffsetSecs * 1000000000 ∧
      ∃ m', s'.minter = some m' ∧ m'.tt.trading = some t := by
  simp only [OE.step] at h
  obtain ⟨m0, m', hm0, hf, rfl⟩ := OE.withMinter_ok h
  rw [hm] at hm0; cases hm0
  obtain ⟨mm, c, hmc, h1, h2, h3⟩ := C19_update_bound (OE.ttOf s m) _ sender t 0 (OE.tt_updTrading hf)
  simp only [OE.ttOf, Option.some.injEq, Prod.mk.injEq] at hmc
  obtain ⟨rfl, rfl⟩ := hmc
  refine ⟨h1, h2 (by simp [OE.ttOf]), m', rfl, ?_⟩
  simpa [TT.visible, OE.ttOf] using h3

/-- Clause 4 over composite histories: as long as nobody but the minter contract sends from the minter's address, the collection
stays owned by the minter, and the trading time visible in the collection is always the one stored by the most recent VALIDATED
write (the creation or an accepted minter `UpdateStartTradingTime`) of the history -/
theorem C19_fulloe_validated_history (s : OE.State) (m : OE.Minter) (hm : s.minter = some m)
    (hown : m.tt.owner = some m.addr ∧ m.tt.pending = none) (ops : List OE.Op)
    (hext : ∀ op ∈ ops, OE.CollExternal m.addr op) :
    ∃ m', (OE.run s ops).minter = some m' ∧ m'.tt.owner = some m.addr ∧ m'.tt.pending = none ∧
      some m'.tt.trading =
        ((TT.validatedHistory (OE.ttOf s m) (OE.ttRunOps s ops)).getLast?).getD (some m.tt.trading) := by
  obtain ⟨m', hm', heq⟩ := OE.tt_run s m hm ops
  have hinv : TT.OwnerInv (OE.ttOf s m) := by
    intro mm c hmc
    simp only [OE.ttOf, Option.some.injEq, Prod.mk.injEq] at hmc
    obtain ⟨_, rfl⟩ := hmc
    exact hown
  have hx := OE.ttRunOps_external s ops m.addr hext
  obtain ⟨hinv', hma, _⟩ := C19_owner_stable (OE.ttOf s m) (OE.ttRunOps s ops) hinv hx
  have hval := C19_validated_history (OE.ttOf s m) (OE.ttRunOps s ops) hinv hx
  rw [heq] at hinv' hval hma
  obtain ⟨ho, hp⟩ := hinv' (OE.ttMinter m') m'.tt rfl
  refine ⟨m', hm', ?_, hp, ?_⟩
  · rw [ho]; exact congrArg some hma
  · simpa [TT.visible, OE.ttOf] using hval

/-- FRAME for the two schedule messages of an open edition: an accepted `UpdateStartTime` or `UpdateEndTime` leaves the trading
time stored in the collection untouched (a later move of the mint start or of the end does not retroactively alter it) -/
theorem C19_fulloe_schedule_frame (s s' : OE.State) (m : OE.Minter) (hm : s.minter = some m)
    (hown : m.tt.owner = some m.addr ∧ m.tt.pending = none) (sender : Addr) (funds : List Coin) (t : Nat)
    (h : OE.step s (.updateStartTime sender funds t) = .ok s' ∨ OE.step s (.updateEndTime sender funds t) = .ok s') :
    ∃ m', s'.minter = some m' ∧ m'.tt.trading = m.tt.trading := by
  have hinv : TT.OwnerInv (OE.ttOf s m) := by
    intro mm c hmc
    simp only [OE.ttOf, Option.some.injEq, Prod.mk.injEq] at hmc
    obtain ⟨_, rfl⟩ := hmc
    exact hown
  rcases h with h | h
  · simp only [OE.step] at h
    obtain ⟨m0, m', hm0, hf, rfl⟩ := OE.withMinter_ok h
    rw [hm] at hm0; cases hm0
    have := C19_frame (OE.ttOf s m) _ (.updStart sender t 0) hinv trivial rfl (OE.tt_updStart hf)
    exact ⟨m', rfl, by simpa [TT.visible, OE.ttOf] using this⟩
  · simp only [OE.step] at h
    obtain ⟨m0, m', hm0, hf, rfl⟩ := OE.withMinter_ok h
    rw [hm] at hm0; cases hm0
    have := C19_frame (OE.ttOf s m) _ (.updEnd sender t 0) hinv trivial rfl (OE.tt_updEnd hf)
    exact ⟨m', rfl, by simpa [TT.visible, OE.ttOf] using this⟩

/-! ## Non-vacuity: concrete composite histories (kernel-evaluated) in which the hypotheses above hold and mints succeed -/

def coParams : OE.Params :=
  { codeId := 7, allowed := [16], frozen := false, creationFee := ⟨0, 1000⟩, minMintPrice := ⟨0, 50⟩, mintFeeBps := 1000,
    maxTradingOffsetSecs := 3600, maxTokenLimit := 100, maxPerAddressLimit := 5, airdropMintFeeBps := 10000,
    airdropMintPrice := ⟨0, 100⟩, dev := some 40 }

def coT0 : Nat := 1647032400000000000

/-- a fresh open-edition factory; code ids 7, 8, 9 = open-edition-minter, -wl-flex, -merkle-wl; 16 = `sg721-base` -/
def coInit : OE.State := OE.init coT0 ⟨[7, 8, 9], [16, 17, 18, 19]⟩ 1000 coParams

/-- an UNCAPPED edition (no `num_tokens`) with an end time -/
def coCreate (wl : Option Addr) : OE.Op :=
  .create 10 [⟨0, 1000⟩]
    { collCode := 16, creator := 10, trading := none, nftValid := true, onChain := false, uriOk := true,
      paymentAddress := some 12, startTime := coT0 + 100, endTime := some (coT0 + 1000), numTokens := none,
      mintPrice := ⟨0, 1000⟩, perAddressLimit := 2, whitelist := wl, whitelistValid := true, collOk := true }
    { minterAddr := 1001, collAddr := 1002 }

/-- fund, create, reach the start, two public mints by 20 (ids 1, 2), an airdrop by the admin, then the end time: every
further mint and airdrop is refused -/
def coOps : List OE.Op :=
  [.fund 10 ⟨0, 5000⟩, .fund 20 ⟨0, 5000⟩, coCreate none, .setTime (coT0 + 100),
   .mint 20 [⟨0, 1000⟩] {} {}, .mint 20 [⟨0, 1000⟩] {} {}, .mintTo 10 [⟨0, 100⟩] 30,
   .setTime (coT0 + 1000), .mint 20 [⟨0, 1000⟩] {} {}, .mintTo 10 [⟨0, 100⟩] 31]

example : coInit.minter.isNone = true := by decide

/-- sequential ids 1, 2, 3; open-edition-minter captured the factory-wide limit (100) as its counter at creation; after the end
nothing more is minted -/
example : (OE.run coInit coOps).minter.map (fun m => (m.seq.issued, m.seq.mintable, m.pub 20, m.seq.coll.toks)) =
    some ([3, 2, 1], some 97, 2, [(3, 30), (2, 20), (1, 20)]) := by decide

/-- each sale: 100 (10 %) through `distribute_mint_fees(…, false, Some(dev))`, 900 to the payment address; the minter keeps
nothing -/
example : ((OE.run coInit coOps).bank.bal 20 0, (OE.run coInit coOps).bank.bal 12 0, (OE.run coInit coOps).bank.bal 40 0,
    (OE.run coInit coOps).bank.bal 1001 0) = (3000, 1800, 150, 0) := by decide

def coWl (active : Bool) : VF.WlInfo :=
  { kind := .plain, active := active, price := ⟨0, 500⟩, limit := 1, merkleCfg := false, stageId := 0, stageLimit := none }

/-- a plain whitelist at 1005 (inactive at creation), active afterwards: member 21 mints once at the whitelist price BEFORE the
public start, a second whitelist mint and a non-member are refused -/
def coWlOps : List OE.Op :=
  [.fund 10 ⟨0, 5000⟩, .fund 21 ⟨0, 5000⟩, .fund 22 ⟨0, 5000⟩, .wlEnv 1005 (some (coWl false)), coCreate (some 1005),
   .wlEnv 1005 (some (coWl true)), .setTime (coT0 + 50),
   .mint 21 [⟨0, 500⟩] {} { memberPlain := true },
   .mint 21 [⟨0, 500⟩] {} { memberPlain := true },
   .mint 22 [⟨0, 500⟩] {} { memberPlain := false }]

example : (OE.run coInit coWlOps).minter.map (fun m => (m.seq.issued, m.wlc 21, m.wlc 22, m.pub 21, m.whitelist)) =
    some ([1], 1, 0, 0, some 1005) := by decide

example : OE.SwEnv coInit :=
  ⟨rfl, fun a i h => by simp [coInit, OE.init] at h⟩

example : OE.InfoCoherent (coWl true) := fun h => by simp [coWl, MintLimits.WlKind.tieredName] at h

end LP
